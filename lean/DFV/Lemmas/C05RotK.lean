import DFV.Lemmas.C05Iter
/-! helper lemmas for `Field.rotate90(ax1, ax2, k)` with any integer `k` (C05, code-shaped model
`rot90FldK`): by residue of `k` modulo 4 the turned region / mesh is the original (even `k`) or
the quarter-turned one (odd `k`, the plane named either way round), `np.rot90(A, k)` and the
matrix of `cos/sin(k·π/2)` at multi-indices of the right length -/
set_option linter.unusedSimpArgs false
set_option linter.unusedVariables false
namespace DFV.C05
open DFV DFV.C04

/-- the four kinds of `k`: exact cosine / sine, parity, residue -/
theorem quarter_kinds (k : Int) :
    (k % 4 = 0 ∧ T.cosq k = 1 ∧ T.sinq k = 0 ∧ T.isOdd k = false) ∨
    (k % 4 = 1 ∧ T.cosq k = 0 ∧ T.sinq k = 1 ∧ T.isOdd k = true) ∨
    (k % 4 = 2 ∧ T.cosq k = -1 ∧ T.sinq k = 0 ∧ T.isOdd k = false) ∨
    (k % 4 = 3 ∧ T.cosq k = 0 ∧ T.sinq k = -1 ∧ T.isOdd k = true) := by
  unfold T.cosq T.sinq T.isOdd
  have h : k % 4 = 0 ∨ k % 4 = 1 ∨ k % 4 = 2 ∨ k % 4 = 3 := by omega
  rcases h with h | h | h | h
  · left; refine ⟨h, by simp [h], by simp [h], ?_⟩; simp; omega
  · right; left; refine ⟨h, by simp [h], by simp [h], ?_⟩; simp; omega
  · right; right; left; refine ⟨h, by simp [h], by simp [h], ?_⟩; simp; omega
  · right; right; right; refine ⟨h, by simp [h], by simp [h], ?_⟩; simp; omega

/-- a table that differs from a list in two places -/
theorem tab_eq_setAt2 (l : List Rat) (n a b : Nat) (hl : l.length = n) (hab : a ≠ b) (ha : a < n) (hb : b < n)
    (g : Nat → Rat) (hg : ∀ x, x ≠ a → x ≠ b → g x = l.getD x 0) :
    tab n g = setAt (setAt l a (g a)) b (g b) := by
  symm
  apply eq_tab_of_getD _ n g 0 (by rw [setAt_length, setAt_length, hl])
  intro x hx
  by_cases hxb : x = b
  · subst hxb; rw [getD_setAt_same _ _ _ _ (by rw [setAt_length, hl]; exact hx)]
  · rw [getD_setAt_ne _ _ _ _ _ hxb]
    by_cases hxa : x = a
    · subst hxa; rw [getD_setAt_same _ _ _ _ (by rw [hl]; exact hx)]
    · rw [getD_setAt_ne _ _ _ _ _ hxa, hg x hxa hxb]

theorem tab_eq_self (l : List Rat) (n : Nat) (hl : l.length = n) (g : Nat → Rat) (hg : ∀ x, x < n → g x = l.getD x 0) :
    tab n g = l := by
  symm
  exact eq_tab_of_getD l n g 0 hl (fun x hx => (hg x hx).symm)

theorem swapAt_symm {α} [Inhabited α] (xs : List α) (a b : Nat) (hab : a ≠ b) : swapAt xs a b = swapAt xs b a := by
  unfold swapAt
  rw [setAt_comm _ a b _ _ hab]

theorem center_getD (r : Region) (x : Nat) (hx : x < r.ndim) : r.center.getD x 0 = (r.lo x + r.hi x) / 2 := by
  unfold Region.center; rw [getD_tab _ _ _ _ hx]

/-- `Region.rotate90` with `k ≡ 1 (mod 4)` is the quarter turn -/
theorem rotRegionK_k1 (r : Region) (a b : Nat) (k : Int) (ref : List Rat) (hk : k % 4 = 1) (hab : a ≠ b)
    (ha : a < r.ndim) (hb : b < r.ndim) (hp : r.pmax.length = r.ndim) :
    rotRegionK r a b k ref = rotRegion r a b ref := by
  rcases quarter_kinds k with ⟨h0, _⟩ | ⟨_, hc, hs, ho⟩ | ⟨h0, _⟩ | ⟨h0, _⟩ <;> try omega
  unfold rotRegionK rotRegion T.rotUnits
  rw [ho]
  simp only [if_true]
  have e1 : tab r.ndim (T.rotCoord r.pmin ref a b k)
      = setAt (setAt r.pmin a (ref.getD a 0 - (r.lo b - ref.getD b 0))) b (ref.getD b 0 + (r.lo a - ref.getD a 0)) := by
    rw [tab_eq_setAt2 r.pmin r.ndim a b rfl hab ha hb (T.rotCoord r.pmin ref a b k)
      (fun x hxa hxb => by unfold T.rotCoord; simp [hxa, hxb])]
    unfold T.rotCoord Region.lo
    simp only [if_true, hc, hs, Ne.symm hab, if_false]
    congr 1
    · congr 1; ring
    · ring
  have e2 : tab r.ndim (T.rotCoord r.pmax ref a b k)
      = setAt (setAt r.pmax a (ref.getD a 0 - (r.hi b - ref.getD b 0))) b (ref.getD b 0 + (r.hi a - ref.getD a 0)) := by
    rw [tab_eq_setAt2 r.pmax r.ndim a b hp hab ha hb (T.rotCoord r.pmax ref a b k)
      (fun x hxa hxb => by unfold T.rotCoord; simp [hxa, hxb])]
    unfold T.rotCoord Region.hi
    simp only [if_true, hc, hs, Ne.symm hab, if_false]
    congr 1
    · congr 1; ring
    · ring
  rw [e1, e2]

/-- … with `k ≡ 3 (mod 4)` it is the quarter turn in the plane taken the other way round -/
theorem rotRegionK_k3 (r : Region) (a b : Nat) (k : Int) (ref : List Rat) (hk : k % 4 = 3) (hab : a ≠ b)
    (ha : a < r.ndim) (hb : b < r.ndim) (hp : r.pmax.length = r.ndim) :
    rotRegionK r a b k ref = rotRegion r b a ref := by
  rcases quarter_kinds k with ⟨h0, _⟩ | ⟨h0, _⟩ | ⟨h0, _⟩ | ⟨_, hc, hs, ho⟩ <;> try omega
  unfold rotRegionK rotRegion T.rotUnits
  rw [ho, swapAt_symm r.units a b hab]
  simp only [if_true]
  have e1 : tab r.ndim (T.rotCoord r.pmin ref a b k)
      = setAt (setAt r.pmin b (ref.getD b 0 - (r.lo a - ref.getD a 0))) a (ref.getD a 0 + (r.lo b - ref.getD b 0)) := by
    rw [tab_eq_setAt2 r.pmin r.ndim b a rfl (Ne.symm hab) hb ha (T.rotCoord r.pmin ref a b k)
      (fun x hxb hxa => by unfold T.rotCoord; simp [hxa, hxb])]
    unfold T.rotCoord Region.lo
    simp only [if_true, hc, hs, Ne.symm hab, if_false]
    congr 1
    · congr 1; ring
    · ring
  have e2 : tab r.ndim (T.rotCoord r.pmax ref a b k)
      = setAt (setAt r.pmax b (ref.getD b 0 - (r.hi a - ref.getD a 0))) a (ref.getD a 0 + (r.hi b - ref.getD b 0)) := by
    rw [tab_eq_setAt2 r.pmax r.ndim b a hp (Ne.symm hab) hb ha (T.rotCoord r.pmax ref a b k)
      (fun x hxb hxa => by unfold T.rotCoord; simp [hxa, hxb])]
    unfold T.rotCoord Region.hi
    simp only [if_true, hc, hs, Ne.symm hab, if_false]
    congr 1
    · congr 1; ring
    · ring
  rw [e1, e2]

/-- the constructor gives the region back when handed corners that normalise to its own -/
theorem regionMk_self (r : Region) (p1 p2 : List Rat) (hl1 : p1.length = r.ndim) (hl2 : p2.length = r.ndim)
    (hpos : 0 < r.ndim) (hpl : r.pmax.length = r.ndim) (hd : r.dims.length = r.ndim) (hdup : hasDup r.dims = false)
    (hu : r.units.length = r.ndim)
    (hmin : ∀ x, x < r.ndim → min (p1.getD x 0) (p2.getD x 0) = r.lo x)
    (hmax : ∀ x, x < r.ndim → max (p1.getD x 0) (p2.getD x 0) = r.hi x)
    (hne : ∀ x, x < r.ndim → p1.getD x 0 ≠ p2.getD x 0) :
    Region.mk? p1 p2 (some r.dims) (some r.units) r.tol = .ok r := by
  unfold Region.mk? Region.dimsOk Region.unitsOk
  have c1 : ¬ (p1.length ≠ p2.length) := by omega
  have c2 : ¬ (p1.length = 0) := by omega
  have c3 : ¬ (r.dims.length ≠ p1.length) := by omega
  have c4 : ¬ (r.units.length ≠ p1.length) := by omega
  have c5 : allLt p1.length (fun a => decide (p1.getD a 0 ≠ p2.getD a 0)) = true := by
    rw [allLt_iff]; intro x hx; simp only [decide_eq_true_eq]; exact hne x (by omega)
  simp only [c1, c2, c3, c4, c5, hdup, if_false, Bool.false_eq_true, Bool.not_true]
  have e1 : tab p1.length (fun a => min (p1.getD a 0) (p2.getD a 0)) = r.pmin := by
    rw [hl1]; exact tab_eq_self r.pmin r.ndim rfl _ (fun x hx => hmin x hx)
  have e2 : tab p1.length (fun a => max (p1.getD a 0) (p2.getD a 0)) = r.pmax := by
    rw [hl1]; exact tab_eq_self r.pmax r.ndim hpl _ (fun x hx => hmax x hx)
  rw [e1, e2]

/-- `Region.rotate90` about the centre with an even `k` gives the region back -/
theorem rotRegionK_even (r : Region) (a b : Nat) (k : Int) (hk : k % 4 = 0 ∨ k % 4 = 2) (hab : a ≠ b)
    (ha : a < r.ndim) (hb : b < r.ndim) (hpl : r.pmax.length = r.ndim) (hd : r.dims.length = r.ndim)
    (hdup : hasDup r.dims = false) (hu : r.units.length = r.ndim) (hlt : ∀ x, x < r.ndim → r.lo x < r.hi x) :
    rotRegionK r a b k r.center = .ok r := by
  unfold rotRegionK T.rotUnits
  have ca := center_getD r a ha
  have cb := center_getD r b hb
  have la := hlt a ha
  have lb := hlt b hb
  have g1 : ∀ x, x < r.ndim → (tab r.ndim (T.rotCoord r.pmin r.center a b k)).getD x 0 = T.rotCoord r.pmin r.center a b k x :=
    fun x hx => getD_tab _ _ _ _ hx
  have g2 : ∀ x, x < r.ndim → (tab r.ndim (T.rotCoord r.pmax r.center a b k)).getD x 0 = T.rotCoord r.pmax r.center a b k x :=
    fun x hx => getD_tab _ _ _ _ hx
  have hpa : r.pmin.getD a 0 = r.lo a := rfl
  have hpb : r.pmin.getD b 0 = r.lo b := rfl
  have hqa : r.pmax.getD a 0 = r.hi a := rfl
  have hqb : r.pmax.getD b 0 = r.hi b := rfl
  rcases quarter_kinds k with ⟨_, hc, hs, ho⟩ | ⟨h1, _⟩ | ⟨_, hc, hs, ho⟩ | ⟨h3, _⟩
  · -- k ≡ 0
    rw [ho]
    simp only [Bool.false_eq_true, if_false]
    apply regionMk_self r _ _ (by simp) (by simp) (by omega) hpl hd hdup hu
    · intro x hx
      rw [g1 x hx, g2 x hx]
      unfold T.rotCoord
      by_cases hxa : x = a
      · subst hxa; simp only [if_true, hc, hs, hpa, hqa]; rw [min_eq_left (by linarith)]; ring
      · by_cases hxb : x = b
        · subst hxb; simp only [hxa, if_false, if_true, hc, hs, hpb, hqb]; rw [min_eq_left (by linarith)]; ring
        · simp only [hxa, hxb, if_false]; exact min_eq_left (le_of_lt (hlt x hx))
    · intro x hx
      rw [g1 x hx, g2 x hx]
      unfold T.rotCoord
      by_cases hxa : x = a
      · subst hxa; simp only [if_true, hc, hs, hpa, hqa]; rw [max_eq_right (by linarith)]; ring
      · by_cases hxb : x = b
        · subst hxb; simp only [hxa, if_false, if_true, hc, hs, hpb, hqb]; rw [max_eq_right (by linarith)]; ring
        · simp only [hxa, hxb, if_false]; exact max_eq_right (le_of_lt (hlt x hx))
    · intro x hx
      rw [g1 x hx, g2 x hx]
      unfold T.rotCoord
      by_cases hxa : x = a
      · subst hxa; simp only [if_true, hc, hs, hpa, hqa]; intro h; linarith
      · by_cases hxb : x = b
        · subst hxb; simp only [hxa, if_false, if_true, hc, hs, hpb, hqb]; intro h; linarith
        · simp only [hxa, hxb, if_false]; exact ne_of_lt (hlt x hx)
  · omega
  · -- k ≡ 2
    rw [ho]
    simp only [Bool.false_eq_true, if_false]
    apply regionMk_self r _ _ (by simp) (by simp) (by omega) hpl hd hdup hu
    · intro x hx
      rw [g1 x hx, g2 x hx]
      unfold T.rotCoord
      by_cases hxa : x = a
      · subst hxa; simp only [if_true, hc, hs, hpa, hqa, ca]; rw [min_eq_right (by linarith)]; ring
      · by_cases hxb : x = b
        · subst hxb; simp only [hxa, if_false, if_true, hc, hs, hpb, hqb, cb]; rw [min_eq_right (by linarith)]; ring
        · simp only [hxa, hxb, if_false]; exact min_eq_left (le_of_lt (hlt x hx))
    · intro x hx
      rw [g1 x hx, g2 x hx]
      unfold T.rotCoord
      by_cases hxa : x = a
      · subst hxa; simp only [if_true, hc, hs, hpa, hqa, ca]; rw [max_eq_left (by linarith)]; ring
      · by_cases hxb : x = b
        · subst hxb; simp only [hxa, if_false, if_true, hc, hs, hpb, hqb, cb]; rw [max_eq_left (by linarith)]; ring
        · simp only [hxa, hxb, if_false]; exact max_eq_right (le_of_lt (hlt x hx))
    · intro x hx
      rw [g1 x hx, g2 x hx]
      unfold T.rotCoord
      by_cases hxa : x = a
      · subst hxa; simp only [if_true, hc, hs, hpa, hqa, ca]; intro h; linarith
      · by_cases hxb : x = b
        · subst hxb; simp only [hxa, if_false, if_true, hc, hs, hpb, hqb, cb]; intro h; linarith
        · simp only [hxa, hxb, if_false]; exact ne_of_lt (hlt x hx)
  · omega

/-- the turned `bc` does not depend on the order in which the two axes are named -/
theorem rotBc1_symm (bc da db : String) (hne : da ≠ db) : rotBc1 bc da db = rotBc1 bc db da := by
  unfold rotBc1
  by_cases h1 : da.toList.length = 1
  · by_cases h2 : db.toList.length = 1
    · obtain ⟨ca, hca⟩ := single_of_length _ h1
      obtain ⟨cb, hcb⟩ := single_of_length _ h2
      have hc : ca ≠ cb := by intro e; apply hne; rw [← String.toList_inj, hca, hcb, e]
      have hsw : ∀ c, swapChar da db c = swapChar db da c := by
        intro c
        rw [swapChar_spec da db ca cb hca hcb, swapChar_spec db da cb ca hcb hca]
        by_cases e1 : c = ca
        · subst e1; simp [hc]
        · by_cases e2 : c = cb
          · subst e2; simp [e1]
          · simp [e1, e2]
      have : (bc.toList.map (swapChar da db)) = (bc.toList.map (swapChar db da)) := List.map_congr_left (fun c _ => hsw c)
      simp only [h1, h2, this, beq_self_eq_true, Bool.and_true]
      have hcomm : (!(bc == "neumann" || bc == "dirichlet" || bc == "") && da == da.toLower && db == db.toLower)
          = (!(bc == "neumann" || bc == "dirichlet" || bc == "") && db == db.toLower && da == da.toLower) := by
        rw [Bool.and_assoc, Bool.and_comm (da == da.toLower), ← Bool.and_assoc]
      rw [hcomm]
    · simp [h1, h2]
  · simp [h1]

theorem mesh_eta (m : Mesh) : ({ region := m.region, n := m.n, bc := m.bc, subs := m.subs } : Mesh) = m := rfl

/-- `Mesh.rotate90` about the centre with an even `k` gives the mesh back -/
theorem rotMeshK_even (f : Fld) (a b : Nat) (k : Int) (hk : k % 4 = 0 ∨ k % 4 = 2) (wf : MeshWf f) (hsub : f.mesh.subs = [])
    (ha : a < f.mesh.ndim) (hb : b < f.mesh.ndim) (hab : a ≠ b) :
    rotMeshK f.mesh (f.mesh.region.dims.getD a "") (f.mesh.region.dims.getD b "") k = .ok f.mesh := by
  unfold rotMeshK
  rw [if_neg (dims_ne_of_ne f wf.dims a b ha hb hab)]
  rw [indexOf?_getD _ a wf.dims.2 (by rw [wf.dims.1]; exact ha),
      indexOf?_getD _ b wf.dims.2 (by rw [wf.dims.1]; exact hb)]
  simp only []
  rw [rotRegionK_even f.mesh.region a b k hk hab ha hb wf.pmax_len wf.dims.1 wf.dims.2 wf.units_len (fun x hx => (wf.pos x hx).1), hsub]
  simp only [mapE]
  have ho : T.isOdd k = false := by
    rcases quarter_kinds k with ⟨_, _, _, h⟩ | ⟨h, _⟩ | ⟨_, _, _, h⟩ | ⟨h, _⟩ <;> first | exact h | omega
  have en : T.rotN f.mesh.n a b k = f.mesh.n := by unfold T.rotN; rw [ho]; rfl
  have eb : rotBcK f.mesh.bc (f.mesh.region.dims.getD a "") (f.mesh.region.dims.getD b "") k = f.mesh.bc := by
    unfold rotBcK; rw [ho]; rfl
  rw [en, eb]
  unfold Mesh.mkN?
  have c1 : ¬ (f.mesh.n.length ≠ f.mesh.region.ndim) := by rw [wf.n_len]; simp [Mesh.ndim]
  have c2 : f.mesh.n.any (· = 0) = false := by
    rw [List.any_eq_false]
    intro x hx
    simp only [decide_eq_true_eq]
    obtain ⟨j, hj, hj'⟩ := List.getElem_of_mem hx
    have := (wf.pos j (by rw [← wf.n_len]; exact hj)).2
    unfold Mesh.nAt at this
    rw [List.getD_eq_getElem?_getD, List.getElem?_eq_getElem hj, Option.getD_some, hj'] at this
    omega
  have c3 : Mesh.bcOk f.mesh.region.dims f.mesh.bc.toLower = true := by rw [wf.bc_lower]; exact wf.bc_ok
  simp only [c1, c2, wf.bc_lower, wf.bc_ok, if_false, Bool.false_eq_true, Bool.not_true]
  congr 1
  have e : f.mesh = { region := f.mesh.region, n := f.mesh.n, bc := f.mesh.bc, subs := [] } := by
    rw [← hsub]
  exact e.symm

/-- `Mesh.rotate90` with `k ≡ 1 (mod 4)` is the quarter turn of the mesh -/
theorem rotMeshK_k1 (f : Fld) (a b : Nat) (k : Int) (hk : k % 4 = 1) (wf : MeshWf f) (hsub : f.mesh.subs = [])
    (ha : a < f.mesh.ndim) (hb : b < f.mesh.ndim) (hab : a ≠ b) :
    rotMeshK f.mesh (f.mesh.region.dims.getD a "") (f.mesh.region.dims.getD b "") k
      = rotMesh f.mesh (f.mesh.region.dims.getD a "") (f.mesh.region.dims.getD b "") := by
  have ho : T.isOdd k = true := by
    rcases quarter_kinds k with ⟨h, _⟩ | ⟨_, _, _, h⟩ | ⟨h, _⟩ | ⟨_, _, _, h⟩ <;> first | exact h | omega
  have hne := dims_ne_of_ne f wf.dims a b ha hb hab
  unfold rotMeshK rotMesh
  simp only [hne, if_false]
  rw [indexOf?_getD _ a wf.dims.2 (by rw [wf.dims.1]; exact ha),
      indexOf?_getD _ b wf.dims.2 (by rw [wf.dims.1]; exact hb)]
  simp only []
  rw [rotRegionK_k1 f.mesh.region a b k _ hk hab ha hb wf.pmax_len, hsub]
  have en : T.rotN f.mesh.n a b k = swapAt f.mesh.n a b := by unfold T.rotN; rw [ho]; rfl
  have eb : rotBcK f.mesh.bc (f.mesh.region.dims.getD a "") (f.mesh.region.dims.getD b "") k
      = rotBc1 f.mesh.bc (f.mesh.region.dims.getD a "") (f.mesh.region.dims.getD b "") := by
    unfold rotBcK; rw [ho]; rfl
  rw [en, eb]
  simp only [mapE]

/-- … with `k ≡ 3 (mod 4)` it is the quarter turn in the plane named the other way round -/
theorem rotMeshK_k3 (f : Fld) (a b : Nat) (k : Int) (hk : k % 4 = 3) (wf : MeshWf f) (hsub : f.mesh.subs = [])
    (ha : a < f.mesh.ndim) (hb : b < f.mesh.ndim) (hab : a ≠ b) :
    rotMeshK f.mesh (f.mesh.region.dims.getD a "") (f.mesh.region.dims.getD b "") k
      = rotMesh f.mesh (f.mesh.region.dims.getD b "") (f.mesh.region.dims.getD a "") := by
  have ho : T.isOdd k = true := by
    rcases quarter_kinds k with ⟨h, _⟩ | ⟨_, _, _, h⟩ | ⟨h, _⟩ | ⟨_, _, _, h⟩ <;> first | exact h | omega
  have hne := dims_ne_of_ne f wf.dims a b ha hb hab
  unfold rotMeshK rotMesh
  simp only [hne, Ne.symm hne, if_false]
  rw [indexOf?_getD _ a wf.dims.2 (by rw [wf.dims.1]; exact ha),
      indexOf?_getD _ b wf.dims.2 (by rw [wf.dims.1]; exact hb)]
  simp only []
  rw [rotRegionK_k3 f.mesh.region a b k _ hk hab ha hb wf.pmax_len, hsub]
  have en : T.rotN f.mesh.n a b k = swapAt f.mesh.n b a := by unfold T.rotN; rw [ho, swapAt_symm _ a b hab]; rfl
  have eb : rotBcK f.mesh.bc (f.mesh.region.dims.getD a "") (f.mesh.region.dims.getD b "") k
      = rotBc1 f.mesh.bc (f.mesh.region.dims.getD b "") (f.mesh.region.dims.getD a "") := by
    unfold rotBcK; rw [ho, rotBc1_symm _ _ _ hne]; rfl
  rw [en, eb]
  simp only [mapE]

/-- `rotate90(k)` of a plain scalar field, given the turned mesh -/
theorem rot90FldK_plain (X : Fld) (a b : Nat) (k : Int) (mesh' : Mesh) (hd : DimsOk X) (hp : Plain X)
    (ha : a < X.mesh.ndim) (hb : b < X.mesh.ndim)
    (hm : rotMeshK X.mesh (X.mesh.region.dims.getD a "") (X.mesh.region.dims.getD b "") k = .ok mesh') :
    ∃ X', rot90FldK X (X.mesh.region.dims.getD a "") (X.mesh.region.dims.getD b "") k = .ok X' ∧ X'.mesh = mesh' ∧
      X'.data = T.rot90 X.data a b k ∧ X'.valid = T.rot90 X.valid a b k ∧ Plain X' ∧ X'.unit = X.unit := by
  unfold rot90FldK
  rw [hm]
  simp only []
  rw [indexOf?_getD _ a hd.2 (by rw [hd.1]; exact ha), indexOf?_getD _ b hd.2 (by rw [hd.1]; exact hb)]
  simp only []
  have h1 : ¬ (1 < X.nvdim) := by rw [hp.1]; omega
  rw [if_neg h1, hp.1, hp.2.1, hp.2.2]
  obtain ⟨X', hX'⟩ := mk_plain_succeeds mesh' (T.rot90 X.data a b k) (T.rot90 X.valid a b k) X.unit [] (by simp)
  obtain ⟨m1, _, m3, m4, m5, _⟩ := mkFld_ok hX'
  exact ⟨X', hX', m1, m3, m4, mk_plain hX', m5⟩

/-- `rotate90(k)` of a vector field with well-formed labels, mapping and pairing, given the turned mesh -/
theorem rot90FldK_vector (X : Fld) (a b v1 v2 : Nat) (vs : List String) (k : Int) (mesh' : Mesh) (hd : DimsOk X)
    (hX : VecMeta a b v1 v2 vs X) (ha : a < X.mesh.ndim) (hb : b < X.mesh.ndim)
    (hm : rotMeshK X.mesh (X.mesh.region.dims.getD a "") (X.mesh.region.dims.getD b "") k = .ok mesh') :
    ∃ X', rot90FldK X (X.mesh.region.dims.getD a "") (X.mesh.region.dims.getD b "") k = .ok X' ∧ X'.mesh = mesh' ∧
      X'.data = (T.rot90 X.data a b k).map (fun v => T.rotVec v v1 v2 k) ∧ X'.valid = T.rot90 X.valid a b k ∧
      X'.nvdim = X.nvdim ∧ X'.vdims = X.vdims ∧ X'.vmap = X.vmap ∧ X'.unit = X.unit := by
  unfold rot90FldK
  rw [hm]
  simp only []
  rw [indexOf?_getD _ a hd.2 (by rw [hd.1]; exact ha), indexOf?_getD _ b hd.2 (by rw [hd.1]; exact hb)]
  simp only []
  rw [if_pos hX.hn, hX.h1, hX.h2]
  simp only []
  have hmk : ∃ X', mkFld mesh' X.nvdim ((T.rot90 X.data a b k).map fun v => T.rotVec v v1 v2 k) (T.rot90 X.valid a b k) X.vdims
      (some X.vmap) X.unit = .ok X' := by
    unfold mkFld vdimsSet vmapSet
    rw [hX.hv]
    have c0 : ¬ (X.nvdim < 1) := by have := hX.hn; omega
    have c1 : ¬ (vs.length = 0) := by have := hX.hn; have := hX.hvl; omega
    have c2 : ¬ (vs.length ≠ X.nvdim) := by have := hX.hvl; omega
    simp only [c0, c1, c2, hX.hvd, if_false, Bool.false_eq_true]
    have c3 : ¬ (X.vmap.length = 1 ∧ X.nvdim = 1 ∧ some vs = none) := by simp
    simp only [c3, if_false, hX.hmap, if_true, hX.hkeys]
    exact ⟨_, rfl⟩
  obtain ⟨X', hX'⟩ := hmk
  obtain ⟨m1, m2, m3, m4, m5, _, m7, m8⟩ := mkFld_ok hX'
  rw [hX.hv] at m7
  have hne : vs ≠ [] := by intro he; subst he; have := hX.hvl; have := hX.hn; simp at *; omega
  obtain ⟨r1, _, _⟩ := vdimsSet_some hne m7
  refine ⟨X', hX', m1, m3, m4, m2, by rw [r1, hX.hv], ?_, m5⟩
  rw [r1] at m8
  exact vmapSet_some_some m8

/-! ### `np.rot90(A, k)` at multi-indices of the right length, by residue of `k` -/

theorem rot90_get_k0 {α} (A : NDA α) (a b : Nat) (k : Int) (hk : k % 4 = 0) (i : List Nat) :
    (T.rot90 A a b k).get i = A.get i := by
  unfold T.rot90; rw [if_pos hk]

theorem rot90_get_k1 {α} (A : NDA α) (a b : Nat) (k : Int) (hk : k % 4 = 1) (i : List Nat) (hab : a ≠ b)
    (ha : a < i.length) (hb : b < i.length) :
    (T.rot90 A a b k).get i = A.get (setAt (setAt i a (i.getD b 0)) b (A.shape.getD b 0 - 1 - i.getD a 0)) := by
  unfold T.rot90
  have h0 : ¬ (k % 4 = 0) := by omega
  have h2 : ¬ (k % 4 = 2) := by omega
  rw [if_neg h0, if_neg h2, if_pos hk]
  unfold NDA.swapaxes NDA.flip
  simp only []
  congr 1
  have e : (swapAt i a b).getD b 0 = i.getD a 0 := swapAt_getD_right i a b 0 hb
  rw [e]
  unfold swapAt
  rw [setAt_setAt_same]
  rfl

theorem rot90_get_k3 {α} (A : NDA α) (a b : Nat) (k : Int) (hk : k % 4 = 3) (i : List Nat) (hab : a ≠ b)
    (ha : a < i.length) (hb : b < i.length) (hsa : a < A.shape.length) (hsb : b < A.shape.length) :
    (T.rot90 A a b k).get i = A.get (setAt (setAt i b (i.getD a 0)) a (A.shape.getD a 0 - 1 - i.getD b 0)) := by
  unfold T.rot90
  have h0 : ¬ (k % 4 = 0) := by omega
  have h2 : ¬ (k % 4 = 2) := by omega
  have h1 : ¬ (k % 4 = 1) := by omega
  rw [if_neg h0, if_neg h2, if_neg h1]
  unfold NDA.swapaxes NDA.flip
  simp only []
  congr 1
  have e : (swapAt A.shape a b).getD b 0 = A.shape.getD a 0 := swapAt_getD_right A.shape a b 0 hsb
  rw [e]
  unfold swapAt
  rw [getD_setAt_same _ _ _ _ hb, getD_setAt_ne _ _ _ _ _ hab]
  rw [setAt_comm i b a _ _ (Ne.symm hab), setAt_setAt_same, setAt_comm _ a b _ _ hab]
  rfl

theorem rot90_get_k2 {α} (A : NDA α) (a b : Nat) (k : Int) (hk : k % 4 = 2) (i : List Nat) (hab : a ≠ b) :
    (T.rot90 A a b k).get i
      = A.get (setAt (setAt i a (A.shape.getD a 0 - 1 - i.getD a 0)) b (A.shape.getD b 0 - 1 - i.getD b 0)) := by
  unfold T.rot90
  have h0 : ¬ (k % 4 = 0) := by omega
  rw [if_neg h0, if_pos hk]
  unfold NDA.flip
  simp only []
  congr 1
  rw [getD_setAt_ne _ _ _ _ _ hab, setAt_comm _ b a _ _ (Ne.symm hab)]

theorem turnWf_symm {f : Fld} {a b : Nat} (wf : MeshWf f) (ha : a < f.mesh.ndim) (hb : b < f.mesh.ndim) (hab : a ≠ b)
    (tw : TurnWf f a b) : TurnWf f b a := by
  have hne := dims_ne_of_ne f wf.dims a b ha hb hab
  refine ⟨?_, by rw [← rotBc1_symm _ _ _ hne]; exact tw.bc_lower, by rw [← rotBc1_symm _ _ _ hne]; exact tw.bc_ok⟩
  rcases tw.turns with ⟨s1, s2, w1, w2⟩ | hp
  · exact Or.inl ⟨s2, s1, w2, w1⟩
  · exact Or.inr hp.symm

/-- where `np.rot90(·, k)` in the plane `(a, b)` takes the entry at `i` from -/
def idxK (f : Fld) (a b : Nat) (k : Int) (i : List Nat) : List Nat :=
  if k % 4 = 0 then i
  else if k % 4 = 1 then rotIdx f a b i
  else if k % 4 = 2 then setAt (setAt i a (f.mesh.nAt a - 1 - i.getD a 0)) b (f.mesh.nAt b - 1 - i.getD b 0)
  else rotIdx f b a i

theorem rot90_get_idxK {α} (f : Fld) (A : NDA α) (a b : Nat) (k : Int) (i : List Nat) (hs : A.shape = f.mesh.n)
    (hnl : f.mesh.n.length = f.mesh.ndim) (hab : a ≠ b) (hi : i.length = f.mesh.ndim) (ha : a < f.mesh.ndim) (hb : b < f.mesh.ndim) :
    (T.rot90 A a b k).get i = A.get (idxK f a b k i) := by
  unfold idxK
  have h : k % 4 = 0 ∨ k % 4 = 1 ∨ k % 4 = 2 ∨ k % 4 = 3 := by omega
  rcases h with h | h | h | h
  · rw [if_pos h, rot90_get_k0 A a b k h]
  · rw [if_neg (by omega), if_pos h, rot90_get_k1 A a b k h i hab (by omega) (by omega), hs]; rfl
  · rw [if_neg (by omega), if_neg (by omega), if_pos h, rot90_get_k2 A a b k h i hab, hs]; rfl
  · rw [if_neg (by omega), if_neg (by omega), if_neg (by omega),
      rot90_get_k3 A a b k h i hab (by omega) (by omega) (by rw [hs, hnl]; exact ha) (by rw [hs, hnl]; exact hb), hs]; rfl

/-- the turned mesh exists, for every `k` -/
theorem rotMeshK_succeeds (f : Fld) (a b : Nat) (k : Int) (wf : MeshWf f) (tw : TurnWf f a b) (hsub : f.mesh.subs = [])
    (ha : a < f.mesh.ndim) (hb : b < f.mesh.ndim) (hab : a ≠ b) :
    ∃ m', rotMeshK f.mesh (f.mesh.region.dims.getD a "") (f.mesh.region.dims.getD b "") k = .ok m' := by
  have h : k % 4 = 0 ∨ k % 4 = 1 ∨ k % 4 = 2 ∨ k % 4 = 3 := by omega
  rcases h with h | h | h | h
  · exact ⟨_, rotMeshK_even f a b k (Or.inl h) wf hsub ha hb hab⟩
  · rw [rotMeshK_k1 f a b k h wf hsub ha hb hab]; exact rotMesh_succeeds f a b wf tw hsub ha hb hab
  · exact ⟨_, rotMeshK_even f a b k (Or.inr h) wf hsub ha hb hab⟩
  · rw [rotMeshK_k3 f a b k h wf hsub ha hb hab]
    exact rotMesh_succeeds f b a wf (turnWf_symm wf ha hb hab tw) hsub hb ha (Ne.symm hab)

/-- **`Field.rotate90(k)` of a plain scalar field**: accepted, the result is a plain scalar on the
turned mesh, every value (and every validity flag) is moved, none altered -/
theorem rot90FldK_scalar_data (X : Fld) (a b : Nat) (k : Int) (wf : MeshWf X) (tw : TurnWf X a b) (hsub : X.mesh.subs = [])
    (hp : Plain X) (ha : a < X.mesh.ndim) (hb : b < X.mesh.ndim) (hab : a ≠ b) :
    ∃ X', rot90FldK X (X.mesh.region.dims.getD a "") (X.mesh.region.dims.getD b "") k = .ok X' ∧ Plain X' ∧ X'.unit = X.unit ∧
      rotMeshK X.mesh (X.mesh.region.dims.getD a "") (X.mesh.region.dims.getD b "") k = .ok X'.mesh ∧
      (∀ i, i.length = X.mesh.ndim → X'.data.get i = X.data.get (idxK X a b k i)) ∧
      (X.valid.shape = X.mesh.n → ∀ i, i.length = X.mesh.ndim → X'.valid.get i = X.valid.get (idxK X a b k i)) := by
  obtain ⟨m', hm'⟩ := rotMeshK_succeeds X a b k wf tw hsub ha hb hab
  obtain ⟨X', h1, h2, h3, h4, h5, h6⟩ := rot90FldK_plain X a b k m' wf.dims hp ha hb hm'
  refine ⟨X', h1, h5, h6, by rw [h2]; exact hm', ?_, ?_⟩
  · intro i hi; rw [h3]; exact rot90_get_idxK X X.data a b k i wf.data_shape wf.n_len hab hi ha hb
  · intro hvs i hi; rw [h4]; exact rot90_get_idxK X X.valid a b k i hvs wf.n_len hab hi ha hb

/-- **`Field.rotate90(k)` of a vector field** with well-formed labels, mapping and pairing: accepted,
labels and mapping kept, the two paired components of every moved value multiplied by the exact
matrix of `k` quarter turns -/
theorem rot90FldK_vector_data (X : Fld) (a b v1 v2 : Nat) (vs : List String) (k : Int) (wf : MeshWf X) (tw : TurnWf X a b)
    (hsub : X.mesh.subs = []) (hX : VecMeta a b v1 v2 vs X) (ha : a < X.mesh.ndim) (hb : b < X.mesh.ndim) (hab : a ≠ b) :
    ∃ X', rot90FldK X (X.mesh.region.dims.getD a "") (X.mesh.region.dims.getD b "") k = .ok X' ∧
      X'.nvdim = X.nvdim ∧ X'.vdims = X.vdims ∧ X'.vmap = X.vmap ∧ X'.unit = X.unit ∧
      rotMeshK X.mesh (X.mesh.region.dims.getD a "") (X.mesh.region.dims.getD b "") k = .ok X'.mesh ∧
      (∀ i, i.length = X.mesh.ndim → X'.data.get i = T.rotVec (X.data.get (idxK X a b k i)) v1 v2 k) ∧
      (X.valid.shape = X.mesh.n → ∀ i, i.length = X.mesh.ndim → X'.valid.get i = X.valid.get (idxK X a b k i)) := by
  obtain ⟨m', hm'⟩ := rotMeshK_succeeds X a b k wf tw hsub ha hb hab
  obtain ⟨X', h1, h2, h3, h4, h5, h6, h7, h8⟩ := rot90FldK_vector X a b v1 v2 vs k m' wf.dims hX ha hb hm'
  refine ⟨X', h1, h5, h6, h7, h8, by rw [h2]; exact hm', ?_, ?_⟩
  · intro i hi
    rw [h3]
    simp only [NDA.map]
    rw [rot90_get_idxK X X.data a b k i wf.data_shape wf.n_len hab hi ha hb]
  · intro hvs i hi; rw [h4]; exact rot90_get_idxK X X.valid a b k i hvs wf.n_len hab hi ha hb

theorem rotVec_getD (v : List Rat) (v1 v2 : Nat) (k : Int) (c : Nat) (h1 : v1 < v.length) (h2 : v2 < v.length) :
    (T.rotVec v v1 v2 k).getD c 0
      = if c = v1 then T.cosq k * v.getD v1 0 - T.sinq k * v.getD v2 0
        else if c = v2 then T.sinq k * v.getD v1 0 + T.cosq k * v.getD v2 0 else v.getD c 0 := by
  unfold T.rotVec
  by_cases hc : c < v.length
  · rw [getD_tab _ _ _ _ hc]
  · rw [getD_tab_ge _ _ _ _ (by omega)]
    have e1 : ¬ (c = v1) := by omega
    have e2 : ¬ (c = v2) := by omega
    simp only [e1, e2, if_false]
    rw [List.getD_eq_getElem?_getD, List.getElem?_eq_none (by omega)]; rfl

/-- the matrix of `k` quarter turns, by residue: identity, one turn, two turns, one turn the other way round -/
theorem rotVec_kinds (v : List Rat) (v1 v2 : Nat) (k : Int) (c : Nat) (h12 : v1 ≠ v2) (h1 : v1 < v.length) (h2 : v2 < v.length) :
    (k % 4 = 0 → (T.rotVec v v1 v2 k).getD c 0 = v.getD c 0) ∧
    (k % 4 = 1 → (T.rotVec v v1 v2 k).getD c 0 = (turnVec v v1 v2).getD c 0) ∧
    (k % 4 = 2 → (T.rotVec v v1 v2 k).getD c 0 = (turnVec (turnVec v v1 v2) v1 v2).getD c 0) ∧
    (k % 4 = 3 → (T.rotVec v v1 v2 k).getD c 0 = (turnVec v v2 v1).getD c 0) := by
  have tl : (turnVec v v1 v2).length = v.length := turnVec_length v v1 v2
  rw [rotVec_getD v v1 v2 k c h1 h2]
  rcases quarter_kinds k with ⟨h, hc, hs, _⟩ | ⟨h, hc, hs, _⟩ | ⟨h, hc, hs, _⟩ | ⟨h, hc, hs, _⟩
  · refine ⟨fun _ => ?_, fun h' => by omega, fun h' => by omega, fun h' => by omega⟩
    rw [hc, hs]
    by_cases e1 : c = v1
    · subst e1; simp
    · by_cases e2 : c = v2
      · subst e2; simp [e1]
      · simp [e1, e2]
  · refine ⟨fun h' => by omega, fun _ => ?_, fun h' => by omega, fun h' => by omega⟩
    rw [hc, hs, turnVec_getD v v1 v2 c h12 h1 h2]
    by_cases e1 : c = v1
    · subst e1; simp
    · by_cases e2 : c = v2
      · subst e2; simp [e1]
      · simp [e1, e2]
  · refine ⟨fun h' => by omega, fun h' => by omega, fun _ => ?_, fun h' => by omega⟩
    rw [hc, hs, turnVec_getD _ v1 v2 c h12 (by rw [tl]; exact h1) (by rw [tl]; exact h2),
      turnVec_getD v v1 v2 v1 h12 h1 h2, turnVec_getD v v1 v2 v2 h12 h1 h2, turnVec_getD v v1 v2 c h12 h1 h2]
    by_cases e1 : c = v1
    · subst e1; simp [Ne.symm h12]
    · by_cases e2 : c = v2
      · subst e2; simp [e1, Ne.symm h12]
      · simp [e1, e2]
  · refine ⟨fun h' => by omega, fun h' => by omega, fun h' => by omega, fun _ => ?_⟩
    rw [hc, hs, turnVec_getD v v2 v1 c (Ne.symm h12) h2 h1]
    by_cases e1 : c = v1
    · subst e1; simp [h12]
    · by_cases e2 : c = v2
      · subst e2; simp [e1]
      · simp [e1, e2]

theorem meshSim_refl (m : Mesh) : MeshSim m m := ⟨rfl, rfl, fun _ _ => ⟨rfl, rfl, rfl⟩⟩

theorem meshSim_of_eq {m1 m2 : Mesh} (h : m1 = m2) : MeshSim m1 m2 := by rw [h]; exact meshSim_refl m2

/-- what `rotate90(·, k)` is compared with: nothing, one quarter turn, two quarter turns, or one
quarter turn in the plane named the other way round -/
def targetK (da db : String) (k : Int) (f : Fld) : M Fld :=
  if k % 4 = 0 then .ok f
  else if k % 4 = 1 then rot90Fld f da db
  else if k % 4 = 2 then rotIter da db 2 f
  else rot90Fld f db da

theorem rotIter_two {da db : String} {f T : Fld} (h : rotIter da db 2 f = .ok T) :
    ∃ R1, rot90Fld f da db = .ok R1 ∧ rot90Fld R1 da db = .ok T := by
  simp only [rotIter] at h
  split at h
  · cases h
  · rename_i R1 h1
    exact ⟨R1, h1, h⟩

/-- two quarter turns move the entry at `i` from the cell with both in-plane indices mirrored -/
theorem rotIdx_twice (f R1 : Fld) (a b : Nat) (i : List Nat) (hr : IsRot90 f R1 a b) (hab : a ≠ b)
    (ha : a < i.length) (hb : b < i.length) :
    rotIdx f a b (rotIdx R1 a b i)
      = setAt (setAt i a (f.mesh.nAt a - 1 - i.getD a 0)) b (f.mesh.nAt b - 1 - i.getD b 0) := by
  unfold rotIdx
  rw [hr.n_b]
  rw [getD_setAt_same _ _ _ _ (by rw [setAt_length]; exact hb), getD_setAt_ne _ _ _ _ _ hab, getD_setAt_same _ _ _ _ ha]
  rw [setAt_comm (setAt i a (i.getD b 0)) b a _ _ (Ne.symm hab), setAt_setAt_same, setAt_setAt_same]

/-- two successive quarter turns: both are quarter turns in the sense of `IsRot90`, and the
intermediate field is well formed -/
theorem two_turns (X R1 T : Fld) (a b : Nat) (wf : MeshWf X) (tw : TurnWf X a b)
    (ha : a < X.mesh.ndim) (hb : b < X.mesh.ndim) (hab : a ≠ b)
    (h1 : rot90Fld X (X.mesh.region.dims.getD a "") (X.mesh.region.dims.getD b "") = .ok R1)
    (h2 : rot90Fld R1 (X.mesh.region.dims.getD a "") (X.mesh.region.dims.getD b "") = .ok T) :
    IsRot90 X R1 a b ∧ IsRot90 R1 T a b ∧ MeshWf R1 ∧ TurnWf R1 a b ∧
      rot90Fld R1 (R1.mesh.region.dims.getD a "") (R1.mesh.region.dims.getD b "") = .ok T := by
  obtain ⟨hm1, hv1, hs1, hn1, _⟩ := rot90Fld_parts X R1 a b wf.dims ha hb h1
  have hr1 := isRot90_of_mesh X R1 a b wf tw ha hb hab hm1 hv1 hn1
  obtain ⟨wf1, nd1, d1, bc1, _, _⟩ := meshWf_rot X R1 a b wf tw ha hb hab hm1 hs1
  have tw1 := turnWf_rot X R1 a b wf tw hr1 bc1
  have h2' : rot90Fld R1 (R1.mesh.region.dims.getD a "") (R1.mesh.region.dims.getD b "") = .ok T := by rw [d1]; exact h2
  obtain ⟨hm2, hv2, hs2, hn2, _⟩ := rot90Fld_parts R1 T a b wf1.dims (by rw [nd1]; exact ha) (by rw [nd1]; exact hb) h2'
  have hr2 := isRot90_of_mesh R1 T a b wf1 tw1 (by rw [nd1]; exact ha) (by rw [nd1]; exact hb) hab hm2 hv2 hn2
  exact ⟨hr1, hr2, wf1, tw1, h2'⟩

/-- the mesh of the target, compared with the mesh `Mesh.rotate90(k)` returns -/
theorem targetK_mesh (X T : Fld) (a b : Nat) (k : Int) (m' : Mesh) (wf : MeshWf X) (tw : TurnWf X a b) (hsub : X.mesh.subs = [])
    (ha : a < X.mesh.ndim) (hb : b < X.mesh.ndim) (hab : a ≠ b)
    (hT : targetK (X.mesh.region.dims.getD a "") (X.mesh.region.dims.getD b "") k X = .ok T)
    (hm : rotMeshK X.mesh (X.mesh.region.dims.getD a "") (X.mesh.region.dims.getD b "") k = .ok m') :
    MeshSim m' T.mesh := by
  unfold targetK at hT
  have h : k % 4 = 0 ∨ k % 4 = 1 ∨ k % 4 = 2 ∨ k % 4 = 3 := by omega
  rcases h with h | h | h | h
  · rw [if_pos h] at hT
    injection hT with hT; subst hT
    rw [rotMeshK_even X a b k (Or.inl h) wf hsub ha hb hab] at hm
    injection hm with hm
    exact meshSim_of_eq hm.symm
  · rw [if_neg (by omega), if_pos h] at hT
    obtain ⟨hmT, _⟩ := rot90Fld_parts X T a b wf.dims ha hb hT
    rw [rotMeshK_k1 X a b k h wf hsub ha hb hab, hmT] at hm
    injection hm with hm
    exact meshSim_of_eq hm.symm
  · rw [if_neg (by omega), if_neg (by omega), if_pos h] at hT
    obtain ⟨R1, h1, h2⟩ := rotIter_two hT
    rw [rotMeshK_even X a b k (Or.inr h) wf hsub ha hb hab] at hm
    injection hm with hm
    subst hm
    obtain ⟨hr1, hr2, _⟩ := two_turns X R1 T a b wf tw ha hb hab h1 h2
    refine ⟨by rw [hr2.ndim, hr1.ndim], by rw [hr2.dims, hr1.dims], ?_⟩
    intro e he
    by_cases hea : e = a
    · subst hea
      exact ⟨by rw [hr2.n_a, hr1.n_b], by rw [hr2.h_a, hr1.h_b], by
        have := hr2.per_a; have := hr1.per_b; unfold periodic at *; unfold perM; simp_all⟩
    · by_cases heb : e = b
      · subst heb
        exact ⟨by rw [hr2.n_b, hr1.n_a], by rw [hr2.h_b, hr1.h_a], by
          have := hr2.per_b; have := hr1.per_a; unfold periodic at *; unfold perM; simp_all⟩
      · exact ⟨by rw [hr2.n_e e hea heb, hr1.n_e e hea heb], by rw [hr2.h_e e hea heb, hr1.h_e e hea heb], by
          have := hr2.per_e e (by rw [hr1.ndim]; exact he) hea heb; have := hr1.per_e e he hea heb
          unfold periodic at *; unfold perM; simp_all⟩
  · rw [if_neg (by omega), if_neg (by omega), if_neg (by omega)] at hT
    obtain ⟨hmT, _⟩ := rot90Fld_parts X T b a wf.dims hb ha hT
    rw [rotMeshK_k3 X a b k h wf hsub ha hb hab, hmT] at hm
    injection hm with hm
    exact meshSim_of_eq hm.symm

theorem idxK_k0 (f : Fld) (a b : Nat) (k : Int) (i : List Nat) (h : k % 4 = 0) : idxK f a b k i = i := by
  unfold idxK; rw [if_pos h]
theorem idxK_k1 (f : Fld) (a b : Nat) (k : Int) (i : List Nat) (h : k % 4 = 1) : idxK f a b k i = rotIdx f a b i := by
  unfold idxK; rw [if_neg (by omega), if_pos h]
theorem idxK_k2 (f : Fld) (a b : Nat) (k : Int) (i : List Nat) (h : k % 4 = 2) :
    idxK f a b k i = setAt (setAt i a (f.mesh.nAt a - 1 - i.getD a 0)) b (f.mesh.nAt b - 1 - i.getD b 0) := by
  unfold idxK; rw [if_neg (by omega), if_neg (by omega), if_pos h]
theorem idxK_k3 (f : Fld) (a b : Nat) (k : Int) (i : List Nat) (h : k % 4 = 3) : idxK f a b k i = rotIdx f b a i := by
  unfold idxK; rw [if_neg (by omega), if_neg (by omega), if_neg (by omega)]

/-- the target of a plain scalar field: plain, and every value / validity flag comes from the
same cell as under `rotate90(·, k)` -/
theorem targetK_scalar_data (X T : Fld) (a b : Nat) (k : Int) (wf : MeshWf X) (tw : TurnWf X a b)
    (hp : Plain X) (ha : a < X.mesh.ndim) (hb : b < X.mesh.ndim) (hab : a ≠ b)
    (hT : targetK (X.mesh.region.dims.getD a "") (X.mesh.region.dims.getD b "") k X = .ok T) :
    Plain T ∧ T.unit = X.unit ∧ (∀ i, i.length = X.mesh.ndim → T.data.get i = X.data.get (idxK X a b k i)) ∧
    (X.valid.shape = X.mesh.n → ∀ i, i.length = X.mesh.ndim → T.valid.get i = X.valid.get (idxK X a b k i)) := by
  unfold targetK at hT
  have h : k % 4 = 0 ∨ k % 4 = 1 ∨ k % 4 = 2 ∨ k % 4 = 3 := by omega
  rcases h with h | h | h | h
  · rw [if_pos h] at hT
    injection hT with hT; subst hT
    exact ⟨hp, rfl, fun i _ => by rw [idxK_k0 _ _ _ _ _ h], fun _ i _ => by rw [idxK_k0 _ _ _ _ _ h]⟩
  · rw [if_neg (by omega), if_pos h] at hT
    obtain ⟨_, _, _, _, hu⟩ := rot90Fld_parts X T a b wf.dims ha hb hT
    exact ⟨rot90_plain hp hT, hu,
      fun i _ => by rw [idxK_k1 _ _ _ _ _ h]; exact rot90Fld_scalar_data X T a b wf.dims wf.data_shape hp.1 ha hb hT i,
      fun hvs i _ => by rw [idxK_k1 _ _ _ _ _ h]; exact rot90Fld_valid X T a b wf.dims hvs ha hb hT i⟩
  · rw [if_neg (by omega), if_neg (by omega), if_pos h] at hT
    obtain ⟨R1, h1, h2⟩ := rotIter_two hT
    obtain ⟨hr1, hr2, wf1, tw1, h2'⟩ := two_turns X R1 T a b wf tw ha hb hab h1 h2
    have p1 := rot90_plain hp h1
    obtain ⟨_, hv1, _, _, hu1⟩ := rot90Fld_parts X R1 a b wf.dims ha hb h1
    obtain ⟨_, _, _, _, hu2⟩ := rot90Fld_parts R1 T a b wf1.dims (by rw [hr1.ndim]; exact ha) (by rw [hr1.ndim]; exact hb) h2'
    refine ⟨rot90_plain p1 h2, by rw [hu2, hu1], ?_, ?_⟩
    · intro i hi
      rw [idxK_k2 _ _ _ _ _ h, rot90Fld_scalar_data R1 T a b wf1.dims wf1.data_shape p1.1 (by rw [hr1.ndim]; exact ha) (by rw [hr1.ndim]; exact hb) h2' i,
        rot90Fld_scalar_data X R1 a b wf.dims wf.data_shape hp.1 ha hb h1 _,
        rotIdx_twice X R1 a b i hr1 hab (by omega) (by omega)]
    · intro hvs i hi
      have hvs1 : R1.valid.shape = R1.mesh.n := by
        obtain ⟨hm1, _, hs1, _, _⟩ := rot90Fld_parts X R1 a b wf.dims ha hb h1
        obtain ⟨_, _, _, _, _, hn⟩ := meshWf_rot X R1 a b wf tw ha hb hab hm1 hs1
        rw [hv1, hn, ← hvs]; rfl
      rw [idxK_k2 _ _ _ _ _ h, rot90Fld_valid R1 T a b wf1.dims hvs1 (by rw [hr1.ndim]; exact ha) (by rw [hr1.ndim]; exact hb) h2' i,
        rot90Fld_valid X R1 a b wf.dims hvs ha hb h1 _,
        rotIdx_twice X R1 a b i hr1 hab (by omega) (by omega)]
  · rw [if_neg (by omega), if_neg (by omega), if_neg (by omega)] at hT
    obtain ⟨_, _, _, _, hu⟩ := rot90Fld_parts X T b a wf.dims hb ha hT
    exact ⟨rot90_plain hp hT, hu,
      fun i _ => by rw [idxK_k3 _ _ _ _ _ h]; exact rot90Fld_scalar_data X T b a wf.dims wf.data_shape hp.1 hb ha hT i,
      fun hvs i _ => by rw [idxK_k3 _ _ _ _ _ h]; exact rot90Fld_valid X T b a wf.dims hvs hb ha hT i⟩

/-- the pairing hypotheses of a vector field, for the plane named the other way round -/
theorem vecMeta_symm {a b v1 v2 : Nat} {vs : List String} {X : Fld} (hX : VecMeta a b v1 v2 vs X) : VecMeta b a v2 v1 vs X :=
  ⟨hX.hn, hX.hv, hX.hvl, hX.hvd, hX.hkeys, hX.hmap, hX.h2, hX.h1, hX.hv2, hX.hv1, Ne.symm hX.h12, hX.hraw⟩

/-- the target of a vector field: labels, mapping, component count kept, and every component of
every value is what `rotate90(·, k)` produces; validity flags likewise -/
theorem targetK_vector_data (X Tg : Fld) (a b v1 v2 : Nat) (vs : List String) (k : Int) (wf : MeshWf X) (tw : TurnWf X a b)
    (hsub : X.mesh.subs = []) (hX : VecMeta a b v1 v2 vs X) (ha : a < X.mesh.ndim) (hb : b < X.mesh.ndim) (hab : a ≠ b)
    (hT : targetK (X.mesh.region.dims.getD a "") (X.mesh.region.dims.getD b "") k X = .ok Tg) :
    Tg.nvdim = X.nvdim ∧ Tg.vdims = X.vdims ∧ Tg.vmap = X.vmap ∧
    (∀ i, i.length = X.mesh.ndim → ∀ c, (Tg.data.get i).getD c 0 = (T.rotVec (X.data.get (idxK X a b k i)) v1 v2 k).getD c 0) ∧
    (X.valid.shape = X.mesh.n → ∀ i, i.length = X.mesh.ndim → Tg.valid.get i = X.valid.get (idxK X a b k i)) := by
  unfold targetK at hT
  have hl1 : ∀ j, v1 < (X.data.get j).length := fun j => by rw [hX.hraw]; exact hX.hv1
  have hl2 : ∀ j, v2 < (X.data.get j).length := fun j => by rw [hX.hraw]; exact hX.hv2
  have h : k % 4 = 0 ∨ k % 4 = 1 ∨ k % 4 = 2 ∨ k % 4 = 3 := by omega
  rcases h with h | h | h | h
  · rw [if_pos h] at hT
    injection hT with hT; subst hT
    refine ⟨rfl, rfl, rfl, fun i _ c => ?_, fun _ i _ => by rw [idxK_k0 _ _ _ _ _ h]⟩
    rw [idxK_k0 _ _ _ _ _ h, (rotVec_kinds _ v1 v2 k c hX.h12 (hl1 _) (hl2 _)).1 h]
  · rw [if_neg (by omega), if_pos h] at hT
    obtain ⟨q1, q2, q3, _, _⟩ := rot90Fld_vector_meta X Tg a b vs wf.dims hX.hn hX.hv hX.hvl ha hb hX.hmap hT
    have hd := rot90Fld_vector_data X Tg a b v1 v2 wf.dims wf.data_shape hX.hn ha hb hX.h1 hX.h2 hT
    refine ⟨q3, by rw [q1, hX.hv], q2, fun i _ c => ?_,
      fun hvs i _ => by rw [idxK_k1 _ _ _ _ _ h]; exact rot90Fld_valid X Tg a b wf.dims hvs ha hb hT i⟩
    rw [idxK_k1 _ _ _ _ _ h, hd i, (rotVec_kinds _ v1 v2 k c hX.h12 (hl1 _) (hl2 _)).2.1 h]
  · rw [if_neg (by omega), if_neg (by omega), if_pos h] at hT
    obtain ⟨R1, h1, h2⟩ := rotIter_two hT
    obtain ⟨hr1, hr2, wf1, tw1, h2'⟩ := two_turns X R1 Tg a b wf tw ha hb hab h1 h2
    obtain ⟨p1, p2, p3, pv1, _⟩ := rot90Fld_vector_meta X R1 a b vs wf.dims hX.hn hX.hv hX.hvl ha hb hX.hmap h1
    have hd1 := rot90Fld_vector_data X R1 a b v1 v2 wf.dims wf.data_shape hX.hn ha hb hX.h1 hX.h2 h1
    have ha1 : a < R1.mesh.ndim := by rw [hr1.ndim]; exact ha
    have hb1 : b < R1.mesh.ndim := by rw [hr1.ndim]; exact hb
    have hidx : R1.vdimIndex = X.vdimIndex := by funext l; unfold Fld.vdimIndex; rw [p1, hX.hv]
    have hrd : ∀ d, rDimLast R1 d = rDimLast X d := by intro d; unfold rDimLast; rw [p2]
    obtain ⟨q1, q2, q3, _, _⟩ := rot90Fld_vector_meta R1 Tg a b vs wf1.dims (by rw [p3]; exact hX.hn) p1 (by rw [p3]; exact hX.hvl)
      ha1 hb1 (by rw [p2]; exact hX.hmap) h2'
    have hd2 := rot90Fld_vector_data R1 Tg a b v1 v2 wf1.dims wf1.data_shape (by rw [p3]; exact hX.hn) ha1 hb1
      (by rw [hr1.dims, hrd, hidx]; exact hX.h1) (by rw [hr1.dims, hrd, hidx]; exact hX.h2) h2'
    refine ⟨by rw [q3, p3], by rw [q1, hX.hv], by rw [q2, p2], fun i hi c => ?_, ?_⟩
    · rw [idxK_k2 _ _ _ _ _ h, hd2 i, hd1 _, rotIdx_twice X R1 a b i hr1 hab (by omega) (by omega),
        (rotVec_kinds _ v1 v2 k c hX.h12 (hl1 _) (hl2 _)).2.2.1 h]
    · intro hvs i hi
      have hvs1 : R1.valid.shape = R1.mesh.n := by
        obtain ⟨hm1, _, hs1, _, _⟩ := rot90Fld_parts X R1 a b wf.dims ha hb h1
        obtain ⟨_, _, _, _, _, hn⟩ := meshWf_rot X R1 a b wf tw ha hb hab hm1 hs1
        rw [pv1, hn, ← hvs]; rfl
      rw [idxK_k2 _ _ _ _ _ h, rot90Fld_valid R1 Tg a b wf1.dims hvs1 ha1 hb1 h2' i,
        rot90Fld_valid X R1 a b wf.dims hvs ha hb h1 _,
        rotIdx_twice X R1 a b i hr1 hab (by omega) (by omega)]
  · rw [if_neg (by omega), if_neg (by omega), if_neg (by omega)] at hT
    obtain ⟨q1, q2, q3, _, _⟩ := rot90Fld_vector_meta X Tg b a vs wf.dims hX.hn hX.hv hX.hvl hb ha hX.hmap hT
    have hd := rot90Fld_vector_data X Tg b a v2 v1 wf.dims wf.data_shape hX.hn hb ha hX.h2 hX.h1 hT
    refine ⟨q3, by rw [q1, hX.hv], q2, fun i _ c => ?_,
      fun hvs i _ => by rw [idxK_k3 _ _ _ _ _ h]; exact rot90Fld_valid X Tg b a wf.dims hvs hb ha hT i⟩
    rw [idxK_k3 _ _ _ _ _ h, hd i, (rotVec_kinds _ v1 v2 k c hX.h12 (hl1 _) (hl2 _)).2.2.2 h]

/-- the turned mesh keeps the number and the names of the axes -/
theorem rotMeshK_dims (f : Fld) (m' : Mesh) (a b : Nat) (k : Int) (wf : MeshWf f) (tw : TurnWf f a b) (hsub : f.mesh.subs = [])
    (ha : a < f.mesh.ndim) (hb : b < f.mesh.ndim) (hab : a ≠ b)
    (h4 : rotMeshK f.mesh (f.mesh.region.dims.getD a "") (f.mesh.region.dims.getD b "") k = .ok m') :
    m'.ndim = f.mesh.ndim ∧ m'.region.dims = f.mesh.region.dims := by
  have h : k % 4 = 0 ∨ k % 4 = 1 ∨ k % 4 = 2 ∨ k % 4 = 3 := by omega
  rcases h with h | h | h | h
  · rw [rotMeshK_even f a b k (Or.inl h) wf hsub ha hb hab] at h4; injection h4 with h4; rw [← h4]; exact ⟨rfl, rfl⟩
  · rw [rotMeshK_k1 f a b k h wf hsub ha hb hab] at h4
    obtain ⟨_, _, m3, m4, _⟩ := rotMesh_ok f m' a b wf ha hb hab tw.bc_lower h4
    exact ⟨m4, m3⟩
  · rw [rotMeshK_even f a b k (Or.inr h) wf hsub ha hb hab] at h4; injection h4 with h4; rw [← h4]; exact ⟨rfl, rfl⟩
  · rw [rotMeshK_k3 f a b k h wf hsub ha hb hab] at h4
    obtain ⟨_, _, m3, m4, _⟩ := rotMesh_ok f m' b a wf hb ha (Ne.symm hab) (turnWf_symm wf ha hb hab tw).bc_lower h4
    exact ⟨m4, m3⟩

theorem periodic_eq_perM (f : Fld) (ax : Nat) : periodic f ax = perM f.mesh ax := rfl

theorem D_sim {X Y : Fld} (h : Sim X Y) (ax o c : Nat) (i : List Nat) (hax : ax < X.mesh.ndim) (hi : i.length = X.mesh.ndim) :
    D X ax o c i = D Y ax o c i := by
  obtain ⟨_, _, hg⟩ := h.mesh
  obtain ⟨g1, g2, g3⟩ := hg ax hax
  unfold D
  rw [periodic_eq_perM, periodic_eq_perM, g3, g2, g1]
  congr 2
  apply tab_congr
  intro j _
  unfold NDA.line
  rw [h.data _ (by rw [setAt_length]; exact hi), h.valid _ (by rw [setAt_length]; exact hi)]

theorem dimsOk_sim {X Y : Fld} (h : Sim X Y) (hd : DimsOk Y) : DimsOk X := by
  unfold DimsOk at hd ⊢; rw [h.mesh.2.1, h.mesh.1]; exact hd

theorem inMesh_sim {X Y : Fld} (h : Sim X Y) (i : List Nat) (hi : InMesh X i) : InMesh Y i := by
  obtain ⟨hl, hin⟩ := hi
  refine ⟨by rw [← h.mesh.1]; exact hl, ?_⟩
  intro e he
  rw [← h.mesh.1] at he
  rw [← (h.mesh.2.2 e he).1]; exact hin e he

/-- **`rotate90(·, k)` of a plain scalar field and its target are alike** (`Sim`) -/
theorem simK_scalar (f Tg : Fld) (a b : Nat) (k : Int) (wf : MeshWf f) (tw : TurnWf f a b) (hsub : f.mesh.subs = [])
    (hvs : f.valid.shape = f.mesh.n) (hp : Plain f) (ha : a < f.mesh.ndim) (hb : b < f.mesh.ndim) (hab : a ≠ b)
    (hT : targetK (f.mesh.region.dims.getD a "") (f.mesh.region.dims.getD b "") k f = .ok Tg) :
    ∃ R', rot90FldK f (f.mesh.region.dims.getD a "") (f.mesh.region.dims.getD b "") k = .ok R' ∧ Plain R' ∧ Sim R' Tg ∧
      R'.mesh.ndim = f.mesh.ndim ∧ R'.mesh.region.dims = f.mesh.region.dims := by
  obtain ⟨R', h1, h2, _, h4, h5, h6⟩ := rot90FldK_scalar_data f a b k wf tw hsub hp ha hb hab
  obtain ⟨t1, _, t3, t4⟩ := targetK_scalar_data f Tg a b k wf tw hp ha hb hab hT
  have hms := targetK_mesh f Tg a b k R'.mesh wf tw hsub ha hb hab hT h4
  obtain ⟨hnd, hdm⟩ := rotMeshK_dims f R'.mesh a b k wf tw hsub ha hb hab h4
  refine ⟨R', h1, h2, ⟨hms, by rw [h2.1, t1.1], by rw [h2.2.1, t1.2.1], by rw [h2.2.2, t1.2.2], ?_, ?_⟩, hnd, hdm⟩
  · intro i hi c; rw [h5 i (by rw [← hnd]; exact hi), t3 i (by rw [← hnd]; exact hi)]
  · intro i hi; rw [h6 hvs i (by rw [← hnd]; exact hi), t4 hvs i (by rw [← hnd]; exact hi)]

/-- … and of a vector field -/
theorem simK_vector (f Tg : Fld) (a b v1 v2 : Nat) (vs : List String) (k : Int) (wf : MeshWf f) (tw : TurnWf f a b)
    (hsub : f.mesh.subs = []) (hvs : f.valid.shape = f.mesh.n) (hX : VecMeta a b v1 v2 vs f)
    (ha : a < f.mesh.ndim) (hb : b < f.mesh.ndim) (hab : a ≠ b)
    (hT : targetK (f.mesh.region.dims.getD a "") (f.mesh.region.dims.getD b "") k f = .ok Tg) :
    ∃ R', rot90FldK f (f.mesh.region.dims.getD a "") (f.mesh.region.dims.getD b "") k = .ok R' ∧ Sim R' Tg ∧
      R'.mesh.ndim = f.mesh.ndim ∧ R'.mesh.region.dims = f.mesh.region.dims ∧ R'.nvdim = f.nvdim ∧ R'.vdims = f.vdims ∧
      R'.vmap = f.vmap := by
  obtain ⟨R', h1, h2, h3, h3', _, h4, h5, h6⟩ := rot90FldK_vector_data f a b v1 v2 vs k wf tw hsub hX ha hb hab
  obtain ⟨t1, t2, t2', t3, t4⟩ := targetK_vector_data f Tg a b v1 v2 vs k wf tw hsub hX ha hb hab hT
  have hms := targetK_mesh f Tg a b k R'.mesh wf tw hsub ha hb hab hT h4
  obtain ⟨hnd, hdm⟩ := rotMeshK_dims f R'.mesh a b k wf tw hsub ha hb hab h4
  refine ⟨R', h1, ⟨hms, by rw [h2, t1], by rw [h3, t2], by rw [h3', t2'], ?_, ?_⟩, hnd, hdm, h2, h3, h3'⟩
  · intro i hi c; rw [h5 i (by rw [← hnd]; exact hi), t3 i (by rw [← hnd]; exact hi) c]
  · intro i hi; rw [h6 hvs i (by rw [← hnd]; exact hi), t4 hvs i (by rw [← hnd]; exact hi)]

/-- `rotate90(·, k)` of a plain scalar RESULT on the mesh of `f` agrees cell by cell with its target -/
theorem resK_scalar (f L TL : Fld) (a b : Nat) (k : Int) (wf : MeshWf f) (tw : TurnWf f a b) (hsub : f.mesh.subs = [])
    (hL : ScalOn f L) (ha : a < f.mesh.ndim) (hb : b < f.mesh.ndim) (hab : a ≠ b)
    (hT : targetK (f.mesh.region.dims.getD a "") (f.mesh.region.dims.getD b "") k L = .ok TL) :
    ∃ RL', rot90FldK L (f.mesh.region.dims.getD a "") (f.mesh.region.dims.getD b "") k = .ok RL' ∧
      ∀ i, i.length = f.mesh.ndim → ∀ c, (RL'.data.get i).getD c 0 = (TL.data.get i).getD c 0 := by
  obtain ⟨hm, hp, hs⟩ := hL
  have wfL : MeshWf L := meshWf_of_mesh wf hm hs
  have twL : TurnWf L a b := turnWf_of_mesh tw hm
  rw [← hm] at hT ha hb hsub ⊢
  obtain ⟨RL', h1, _, _, _, h5, _⟩ := rot90FldK_scalar_data L a b k wfL twL hsub hp ha hb hab
  obtain ⟨_, _, t3, _⟩ := targetK_scalar_data L TL a b k wfL twL hp ha hb hab hT
  exact ⟨RL', h1, fun i hi c => by rw [h5 i hi, t3 i hi]⟩

/-- … and of a vector RESULT -/
theorem resK_vector (f L TL : Fld) (a b v1 v2 : Nat) (vs : List String) (k : Int) (wf : MeshWf f) (tw : TurnWf f a b)
    (hsub : f.mesh.subs = []) (hL : VecOn a b v1 v2 vs f L) (ha : a < f.mesh.ndim) (hb : b < f.mesh.ndim) (hab : a ≠ b)
    (hT : targetK (f.mesh.region.dims.getD a "") (f.mesh.region.dims.getD b "") k L = .ok TL) :
    ∃ RL', rot90FldK L (f.mesh.region.dims.getD a "") (f.mesh.region.dims.getD b "") k = .ok RL' ∧
      ∀ i, i.length = f.mesh.ndim → ∀ c, (RL'.data.get i).getD c 0 = (TL.data.get i).getD c 0 := by
  obtain ⟨hm, hs, hv⟩ := hL
  have wfL : MeshWf L := meshWf_of_mesh wf hm hs
  have twL : TurnWf L a b := turnWf_of_mesh tw hm
  rw [← hm] at hT ha hb hsub ⊢
  obtain ⟨RL', h1, _, _, _, _, _, h5, _⟩ := rot90FldK_vector_data L a b v1 v2 vs k wfL twL hsub hv ha hb hab
  obtain ⟨_, _, _, t3, _⟩ := targetK_vector_data L TL a b v1 v2 vs k wfL twL hsub hv ha hb hab hT
  exact ⟨RL', h1, fun i hi c => by rw [h5 i hi, t3 i hi c]⟩

/-- the target is `k mod 4` quarter turns when that is less than three -/
theorem targetK_eq_iter (da db : String) (k : Int) (f : Fld) (h3 : k % 4 ≠ 3) :
    targetK da db k f = rotIter da db (k % 4).toNat f := by
  unfold targetK
  have h : k % 4 = 0 ∨ k % 4 = 1 ∨ k % 4 = 2 := by omega
  rcases h with h | h | h
  · rw [if_pos h, h]; rfl
  · rw [if_neg (by omega), if_pos h, h]; rfl
  · rw [if_neg (by omega), if_neg (by omega), if_pos h, h]; rfl

theorem targetK_k3 (da db : String) (k : Int) (f : Fld) (h3 : k % 4 = 3) : targetK da db k f = rot90Fld f db da := by
  unfold targetK
  rw [if_neg (by omega), if_neg (by omega), if_neg (by omega)]

theorem dimsOk_of_eq {X f : Fld} (hd : DimsOk f) (h1 : X.mesh.ndim = f.mesh.ndim) (h2 : X.mesh.region.dims = f.mesh.region.dims) :
    DimsOk X := by unfold DimsOk; rw [h1, h2]; exact hd

theorem dimsOk_sim' {X Y : Fld} (h : Sim X Y) (hd : DimsOk X) : DimsOk Y := by
  unfold DimsOk at hd ⊢; rw [← h.mesh.2.1, ← h.mesh.1]; exact hd

end DFV.C05
