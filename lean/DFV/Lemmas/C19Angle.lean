import DFV.Lemmas.C19Tcd
import DFV.Lemmas.C19Mesh
import DFV.Lemmas.Transform
/-!
# C19 — neighbouring-cell angles at object level: acceptance on well-formed inputs, the result
mesh, both units, invariances (reversal, rescaling), uniform fields, and the maximum over the
neighbours.
-/
namespace DFV.C19
open DFV

/-- the value `neighbouring_cell_angle` stores for clipped dot product `d` -/
def angVal (acos deg : Rat → Rat) (units : String) (d : Rat) : Rat :=
  if units = "deg" then deg (acos d) else acos d

theorem indexOf_lt' (xs : List String) (x : String) (k : Nat) (h : indexOf? xs x = some k) : k < xs.length :=
  T.dim2index_lt ⟨[], [], xs, [], 0⟩ x k (by simp [Region.dim2index, h])

/-- ACCEPTANCE: every 3-component field on a well-formed mesh with at least two cells along the
direction is accepted (either unit); the result lives on `angleMesh`, has one cell less along the
direction, is valid everywhere and holds `angVal` of the clipped dot products -/
theorem neighbourAngle_ok (sq acos deg : Rat → Rat) (f : Fld) (dir units : String) (ax : Nat)
    (h3 : f.nvdim = 3) (hm : f.mesh.Inv) (hax : indexOf? f.mesh.region.dims dir = some ax)
    (hu : units = "rad" ∨ units = "deg") (h2 : 2 ≤ f.mesh.nAt ax) :
    ∃ g m', neighbourAngle sq acos deg f dir units = .ok g ∧ angleMesh f.mesh ax = .ok m' ∧ g.mesh = m' ∧
      g.nvdim = 1 ∧ g.data.shape = setAt f.mesh.n ax (f.mesh.nAt ax - 1) ∧ m'.n = setAt f.mesh.n ax (f.mesh.nAt ax - 1) ∧
      (∀ i, g.valid.get i = true) ∧
      ∀ i, g.data.get i = [angVal acos deg units (nbDot sq f ax i)] := by
  have hl : ax < f.mesh.ndim := by
    have := indexOf_lt' _ _ _ hax
    rw [hm.1.2.2.1] at this
    exact this
  obtain ⟨m', hm', _, _, _, _⟩ := angleMesh_ok f.mesh hm ax hl h2
  have hn := angleMesh_n f.mesh hm ax hl h2 m' hm'
  unfold neighbourAngle
  rw [if_neg (by simp [h3]), hax]
  simp only
  have hu' : ¬ (units ≠ "rad" ∧ units ≠ "deg") := by
    rcases hu with h | h <;> simp [h]
  rw [if_neg hu', hm']
  simp only
  rw [if_neg (by simp [hn])]
  exact ⟨_, m', rfl, rfl, rfl, rfl, rfl, hn, fun _ => rfl, fun _ => rfl⟩

/-- what a successful call returned -/
theorem neighbourAngle_inv (sq acos deg : Rat → Rat) (f g : Fld) (dir units : String)
    (h : neighbourAngle sq acos deg f dir units = .ok g) :
    f.nvdim = 3 ∧ (units = "rad" ∨ units = "deg") ∧
    ∃ ax, indexOf? f.mesh.region.dims dir = some ax ∧ angleMesh f.mesh ax = .ok g.mesh ∧
      g.mesh.n = setAt f.mesh.n ax (f.mesh.nAt ax - 1) ∧ g.data.shape = setAt f.mesh.n ax (f.mesh.nAt ax - 1) ∧
      (∀ i, g.valid.get i = true) ∧ ∀ i, g.data.get i = [angVal acos deg units (nbDot sq f ax i)] := by
  unfold neighbourAngle at h
  split at h
  · cases h
  · rename_i h3
    split at h
    · cases h
    · rename_i ax hax
      split at h
      · cases h
      · rename_i hu
        split at h
        · cases h
        · rename_i m' hm'
          split at h
          · cases h
          · rename_i hn
            injection h with h
            subst h
            refine ⟨not_not.mp h3, ?_, ax, hax, hm', not_not.mp hn, rfl, fun _ => rfl, fun _ => rfl⟩
            by_cases hr : units = "rad"
            · exact Or.inl hr
            · by_cases hd : units = "deg"
              · exact Or.inr hd
              · exact absurd ⟨hr, hd⟩ hu

/-! ## invariances of the clipped dot product -/

theorem nbDot_negF (sq : Rat → Rat) (f : Fld) (ax : Nat) (i : List Nat) : nbDot sq (negF f) ax i = nbDot sq f ax i := by
  unfold nbDot
  rw [cellV_negF, cellV_negF, orient_neg, orient_neg]
  simp only [V3.dot, V3.neg]
  congr 1
  ring

theorem nbDot_scaleF (sq : Rat → Rat) (s : List Nat → Rat) (f : Fld)
    (h : ∀ i, orient sq ((V3.ofList (f.data.get i)).smul (s i)) = orient sq (V3.ofList (f.data.get i)))
    (ax : Nat) (i : List Nat) : nbDot sq (scaleF s f) ax i = nbDot sq f ax i := by
  unfold nbDot
  have e : ∀ j, orient sq (cellV (scaleF s f) j) = orient sq (cellV f j) := by
    intro j
    have := h j
    simpa [cellV, scaleF] using this
  rw [e, e]

/-- all vectors equal and not negligibly short: the clipped dot product of neighbours is exactly 1 -/
theorem nbDot_uniform (sq : Rat → Rat) (f : Fld) (v : V3) (hu : uniformF f v)
    (hsq : sq v.normSq * sq v.normSq = v.normSq) (hz : isZeroNorm (sq v.normSq) = false) (ax : Nat) (i : List Nat) :
    nbDot sq f ax i = 1 := by
  unfold nbDot
  have e : ∀ j, cellV f j = v := hu
  rw [e, e]
  have : V3.dot (orient sq v) (orient sq v) = 1 := orient_unit sq v hsq hz
  rw [this]
  unfold clip1
  norm_num

/-! ## the maximum over the neighbours -/

theorem maxOpt_range (ang : Rat → Rat) (pi : Rat) (hpi : 0 ≤ pi) (hang : ∀ d, 0 ≤ ang d ∧ ang d ≤ pi)
    (l : List (Option Rat)) : 0 ≤ maxOpt ang l ∧ maxOpt ang l ≤ pi := by
  induction l with
  | nil => exact ⟨le_refl _, hpi⟩
  | cons x xs ih =>
    cases x with
    | none =>
      simp only [maxOpt]
      exact ⟨le_max_left _ _, max_le hpi ih.2⟩
    | some d =>
      simp only [maxOpt]
      exact ⟨le_trans (hang d).1 (le_max_left _ _), max_le (hang d).2 ih.2⟩

theorem maxOpt_ge (ang : Rat → Rat) (l : List (Option Rat)) (d : Rat) (h : some d ∈ l) : ang d ≤ maxOpt ang l := by
  induction l with
  | nil => simp at h
  | cons x xs ih =>
    rcases List.mem_cons.mp h with h1 | h1
    · subst h1
      simp only [maxOpt]
      exact le_max_left _ _
    · have hle := ih h1
      clear h
      cases x with
      | none => simp only [maxOpt]; exact le_trans hle (le_max_right _ _)
      | some e => simp only [maxOpt]; exact le_trans hle (le_max_right _ _)

/-- the maximum is attained: it is `0` or the angle of one of the neighbours -/
theorem maxOpt_attained (ang : Rat → Rat) (l : List (Option Rat)) :
    maxOpt ang l = 0 ∨ ∃ d, some d ∈ l ∧ maxOpt ang l = ang d := by
  induction l with
  | nil => exact Or.inl rfl
  | cons x xs ih =>
    cases x with
    | none =>
      simp only [maxOpt]
      rcases le_total 0 (maxOpt ang xs) with h | h
      · rw [max_eq_right h]
        rcases ih with ih | ⟨d, hd, e⟩
        · exact Or.inl ih
        · exact Or.inr ⟨d, List.mem_cons_of_mem _ hd, e⟩
      · rw [max_eq_left h]; exact Or.inl rfl
    | some e =>
      simp only [maxOpt]
      rcases le_total (ang e) (maxOpt ang xs) with h | h
      · rw [max_eq_right h]
        rcases ih with ih | ⟨d, hd, e'⟩
        · exact Or.inl ih
        · exact Or.inr ⟨d, List.mem_cons_of_mem _ hd, e'⟩
      · rw [max_eq_left h]; exact Or.inr ⟨e, List.mem_cons_self, rfl⟩

/-- what a successful `max_neighbouring_cell_angle` returned -/
theorem maxNeighbourAngle_inv (sq acos deg : Rat → Rat) (f g : Fld) (units : String)
    (h : maxNeighbourAngle sq acos deg f units = .ok g) :
    g.mesh = f.mesh ∧ g.nvdim = 1 ∧ g.data.shape = f.mesh.n ∧ (∀ i, g.valid.get i = true) ∧
    ∀ i, g.data.get i = [maxOpt (angVal acos deg units) (nbDots sq f i)] := by
  unfold maxNeighbourAngle at h
  split at h
  · cases h
  · injection h with h
    subst h
    exact ⟨rfl, rfl, rfl, fun _ => rfl, fun _ => rfl⟩

/-- the forward neighbour along axis `a` is one of the slots of `nbDots` -/
theorem nbDots_fwd (sq : Rat → Rat) (f : Fld) (i : List Nat) (a : Nat) (ha : a < f.mesh.ndim)
    (hi : i.getD a 0 + 1 < f.mesh.nAt a) : some (nbDot sq f a i) ∈ nbDots sq f i := by
  unfold nbDots
  rw [List.mem_flatMap]
  refine ⟨a, List.mem_range.mpr ha, ?_⟩
  rw [if_pos hi]
  simp

/-- the backward neighbour along axis `a` is one of the slots of `nbDots` -/
theorem nbDots_bwd (sq : Rat → Rat) (f : Fld) (i : List Nat) (a : Nat) (ha : a < f.mesh.ndim)
    (hi : 1 ≤ i.getD a 0) : some (nbDot sq f a (setAt i a (i.getD a 0 - 1))) ∈ nbDots sq f i := by
  unfold nbDots
  rw [List.mem_flatMap]
  refine ⟨a, List.mem_range.mpr ha, ?_⟩
  rw [if_pos hi]
  simp

theorem nbDots_rotF (sq : Rat → Rat) (q : M3) (hq : q.IsOrth) (f : Fld) (i : List Nat) :
    nbDots sq (rotF q f) i = nbDots sq f i := by
  unfold nbDots
  simp only [nbDot_rotF sq q hq]
  rfl

theorem nbDots_negF (sq : Rat → Rat) (f : Fld) (i : List Nat) : nbDots sq (negF f) i = nbDots sq f i := by
  unfold nbDots
  simp only [nbDot_negF]
  rfl

/-! ## a square root is positively homogeneous -/

/-- any function that is a non-negative square root at `x` and at `s²x` satisfies the homogeneity
hypothesis `sq (s²x) = s·sq x` of the rescaling theorems (`s > 0`) -/
theorem sq_homogeneous_of_exact (sq : Rat → Rat) (s x : Rat) (hs : 0 < s) (h1 : 0 ≤ sq x) (h2 : sq x * sq x = x)
    (h3 : 0 ≤ sq (s * s * x)) (h4 : sq (s * s * x) * sq (s * s * x) = s * s * x) : sq (s * s * x) = s * sq x := by
  have e : sq (s * s * x) * sq (s * s * x) = (s * sq x) * (s * sq x) := by
    rw [h4]; linear_combination (-(s * s)) * h2
  rcases mul_self_eq_mul_self_iff.mp e with h | h
  · exact h
  · have hb : 0 ≤ s * sq x := mul_nonneg hs.le h1
    have : sq (s * s * x) = 0 := by linarith
    have : s * sq x = 0 := by linarith
    linarith

/-! ## the decidable form of the mesh invariant (for concrete examples) -/

theorem mesh_inv_of_invB (m : Mesh) (h : m.invB = true) : m.Inv := by
  unfold Mesh.invB Region.invB at h
  simp only [Bool.and_eq_true, decide_eq_true_eq, Bool.not_eq_true'] at h
  obtain ⟨⟨⟨⟨⟨⟨⟨h1, h2⟩, h3⟩, h4⟩, h5⟩, h6⟩, h7⟩, h8⟩ := h
  refine ⟨⟨h1, h2, h3, h4, h5, ?_⟩, h7, ?_⟩
  · intro a ha
    have := (allLt_iff _ _).mp h6 a ha
    simpa using this
  · intro a ha
    have := (allLt_iff _ _).mp h8 a ha
    simpa using this

end DFV.C19
