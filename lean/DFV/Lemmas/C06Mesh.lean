import DFV.Lemmas.C06Idx
import DFV.Lemmas.RatFloor
/-! Mesh lemmas for C06: what a successful `Mesh.sel(dim)` returns (axis removal), cell
sizes of the reduced mesh, cell volume as a product. -/
namespace DFV.C06
open DFV

/-- position in the full index list of position `a` of the list with `ax` removed -/
def skip (ax a : Nat) : Nat := if a < ax then a else a + 1

theorem getD_removeAt_skip {α} (l : List α) (ax p : Nat) (d : α) :
    (removeAt l ax).getD p d = l.getD (skip ax p) d := by
  rw [getD_removeAt]; unfold skip; split <;> rfl

theorem skip_lt (ax a n : Nat) (h : a < n - 1) : skip ax a < n := by
  unfold skip; split <;> omega

theorem skip_ne (ax a : Nat) : skip ax a ≠ ax := by
  unfold skip; split <;> omega

theorem removeAt_tab {α} (n : Nat) (f : Nat → α) (ax : Nat) (h : ax < n) :
    removeAt (tab n f) ax = tab (n - 1) fun a => f (skip ax a) := by
  apply List.ext_getElem
  · rw [removeAt_length _ _ (by simpa using h)]; simp
  · intro i h1 h2
    have hi : i < n - 1 := by simpa using h2
    have e1 : (removeAt (tab n f) ax)[i] = (removeAt (tab n f) ax).getD i (f 0) := by
      simp [List.getD_eq_getElem?_getD, h1]
    rw [e1, getD_removeAt_skip, getD_tab _ _ _ _ (skip_lt ax i n hi), getElem_tab]

theorem removeAt_eq_tab {α} (l : List α) (ax : Nat) (d : α) (h : ax < l.length) :
    removeAt l ax = tab (l.length - 1) fun a => l.getD (skip ax a) d := by
  apply List.ext_getElem
  · rw [removeAt_length _ _ h]; simp
  · intro i h1 h2
    have e1 : (removeAt l ax)[i] = (removeAt l ax).getD i d := by
      simp [List.getD_eq_getElem?_getD, h1]
    rw [e1, getD_removeAt_skip, getElem_tab]

theorem ratProd_removeAt (l : List Rat) (ax : Nat) (h : ax < l.length) :
    ratProd l = l.getD ax 0 * ratProd (removeAt l ax) := by
  induction l generalizing ax with
  | nil => simp at h
  | cons x xs ih =>
    cases ax with
    | zero => simp [removeAt, ratProd]
    | succ ax =>
      simp only [removeAt, ratProd, List.getD_cons_succ]
      rw [ih ax (by simpa using h)]; ring

theorem natProd_removeAt (l : List Nat) (ax : Nat) (h : ax < l.length) :
    natProd l = l.getD ax 0 * natProd (removeAt l ax) := by
  induction l generalizing ax with
  | nil => simp at h
  | cons x xs ih =>
    cases ax with
    | zero => simp [removeAt, natProd]
    | succ ax =>
      simp only [removeAt, natProd, List.getD_cons_succ]
      rw [ih ax (by simpa using h)]; ring

/-! ## name lookup -/

theorem indexOf_go_spec (x : String) (xs : List String) (k r : Nat) (h : indexOf?.go x xs k = some r) :
    k ≤ r ∧ r - k < xs.length ∧ xs.getD (r - k) "" = x := by
  induction xs generalizing k with
  | nil => simp [indexOf?.go] at h
  | cons y ys ih =>
    simp only [indexOf?.go] at h
    split at h
    · injection h with h; subst h
      refine ⟨Nat.le_refl _, by simp, ?_⟩
      simpa
    · obtain ⟨h1, h2, h3⟩ := ih (k + 1) h
      refine ⟨by omega, by simp; omega, ?_⟩
      have : r - k = (r - (k + 1)) + 1 := by omega
      rw [this, List.getD_cons_succ]; exact h3

/-- a successful `_dim2index` returns a position inside `dims` that holds the name -/
theorem dim2index_ok (r : Region) (d : String) (ax : Nat) (h : r.dim2index d = .ok ax) :
    ax < r.dims.length ∧ r.dims.getD ax "" = d := by
  unfold Region.dim2index at h
  split at h
  · rename_i i hi
    injection h with h; subst h
    have := indexOf_go_spec d r.dims 0 i hi
    simpa using this.2
  · cases h

/-! ## the region constructor -/

theorem region_mk_ok (p1 p2 : List Rat) (dims units : List String) (tol : Rat) (r : Region)
    (h : Region.mk? p1 p2 (some dims) (some units) tol = .ok r) :
    p1.length = p2.length ∧ p1.length ≠ 0 ∧ dims.length = p1.length ∧ hasDup dims = false ∧
    units.length = p1.length ∧
    r = { pmin := tab p1.length fun a => min (p1.getD a 0) (p2.getD a 0),
          pmax := tab p1.length fun a => max (p1.getD a 0) (p2.getD a 0),
          dims := dims, units := units, tol := tol } := by
  unfold Region.mk? at h
  split at h
  · cases h
  · split at h
    · cases h
    · rename_i hlen hne
      simp only [Region.dimsOk, Region.unitsOk] at h
      by_cases hd1 : dims.length ≠ p1.length
      · simp [hd1] at h
      · by_cases hd2 : hasDup dims = true
        · simp [hd1, hd2] at h
        · by_cases hu1 : units.length ≠ p1.length
          · simp [hd1, hd2, hu1] at h
          · have hd2' : hasDup dims = false := by simpa using hd2
            simp only [hd1, hd2', hu1, if_false, Bool.false_eq_true] at h
            split at h
            · cases h
            · injection h with h
              exact ⟨by simpa using hlen, hne, by simpa using hd1, by simpa using hd2, by simpa using hu1, h.symm⟩

/-! ## rounding a whole number -/

theorem roundHalfEven_nat (n : Nat) : Mesh.roundHalfEven (n : Rat) = (n : Int) := by
  have hf : ((n : Rat)).floor = (n : Int) := by
    apply rat_floor_eq
    · push_cast; exact le_refl _
    · push_cast; linarith
  unfold Mesh.roundHalfEven
  rw [hf]
  have : ((n : Rat) - ((n : Int) : Rat)) = 0 := by push_cast; ring
  rw [this]
  norm_num

theorem toLower_empty : "".toLower = "" := by simp [String.toLower]

/-- what a successful `Mesh(region=r, cell=cell)` returns -/
theorem mkCell_ok (r : Region) (cell : List Rat) (m' : Mesh) (h : Mesh.mkCell? r cell = .ok m') :
    m' = { region := r,
           n := tab r.ndim fun a => (Mesh.roundHalfEven (r.edge a / cell.getD a 0)).toNat,
           bc := "", subs := [] } := by
  unfold Mesh.mkCell? at h
  split at h
  · cases h
  · split at h
    · cases h
    · split at h
      · cases h
      · split at h
        · cases h
        · split at h
          · cases h
          · split at h
            · cases h
            · injection h with h
              rw [← h, toLower_empty]

theorem div_div_self_nat (e : Rat) (n : Nat) (he : e ≠ 0) (hn : 0 < n) : e / (e / (n : Rat)) = (n : Rat) := by
  have : (n : Rat) ≠ 0 := by exact_mod_cast (Nat.pos_iff_ne_zero.mp hn)
  field_simp

/-- what a successful `Mesh.sel(d)` returns on a well-formed mesh: the mesh with the axis
of `d` removed -/
theorem sel_spec (m : Mesh) (hm : m.Inv) (d : String) (m' : Mesh) (h : sel m d = .ok m') :
    ∃ ax, m.region.dim2index d = .ok ax ∧ ax < m.ndim ∧ 2 ≤ m.ndim ∧
      m'.region.pmin = removeAt m.region.pmin ax ∧ m'.region.pmax = removeAt m.region.pmax ax ∧
      m'.region.dims = removeAt m.region.dims ax ∧ m'.region.units = removeAt m.region.units ax ∧
      m'.region.tol = m.region.tol ∧ m'.n = removeAt m.n ax ∧ m'.bc = "" ∧
      hasDup m'.region.dims = false := by
  obtain ⟨⟨hpos, hmax, hdims, hunits, hdup, hlt⟩, hnlen, hnpos⟩ := hm
  unfold sel at h
  split at h
  · cases h
  · rename_i ax hax
    split at h
    · cases h
    · split at h
      · cases h
      · split at h
        · cases h
        · rename_i r hr
          split at h
          · cases h
          · rename_i mc hmc
            split at h
            · cases h
            · injection h with h
              obtain ⟨haxlt, _⟩ := dim2index_ok _ _ _ hax
              have haxn : ax < m.region.pmin.length := by rw [← hdims]; exact haxlt
              obtain ⟨hl1, hl2, hl3, hl4, hl5, hreq⟩ := region_mk_ok _ _ _ _ _ _ hr
              have hlen1 : (removeAt m.region.pmin ax).length = m.region.pmin.length - 1 :=
                removeAt_length _ _ haxn
              have h2 : 2 ≤ m.region.pmin.length := by
                rw [hlen1] at hl2; omega
              have hlohi : ∀ a, a < (removeAt m.region.pmin ax).length →
                  (removeAt m.region.pmin ax).getD a 0 < (removeAt m.region.pmax ax).getD a 0 := by
                intro a ha
                rw [getD_removeAt_skip, getD_removeAt_skip]
                exact hlt (skip ax a) (skip_lt ax a _ (by omega))
              have hpmin : r.pmin = removeAt m.region.pmin ax := by
                rw [hreq]; simp only
                symm
                apply eq_tab_of_getD _ _ _ 0 rfl
                intro a ha
                exact (min_eq_left (le_of_lt (hlohi a ha))).symm
              have hpmax : r.pmax = removeAt m.region.pmax ax := by
                rw [hreq]; simp only
                symm
                apply eq_tab_of_getD _ _ _ 0 hl1.symm
                intro a ha
                exact (max_eq_right (le_of_lt (hlohi a ha))).symm
              have hmc' := mkCell_ok _ _ _ hmc
              have hndim : m.ndim = m.region.pmin.length := rfl
              have hrndim : r.ndim = m.region.pmin.length - 1 := by
                unfold Region.ndim; rw [hpmin, hlen1]
              have hn : mc.n = removeAt m.n ax := by
                rw [hmc']; simp only
                symm
                apply eq_tab_of_getD _ _ _ 0
                · rw [removeAt_length _ _ (by rw [hnlen]; exact haxn), hnlen, hrndim]; rfl
                · intro a ha
                  rw [hrndim] at ha
                  have hs : skip ax a < m.region.pmin.length := skip_lt ax a _ ha
                  rw [getD_removeAt_skip, getD_removeAt_skip]
                  have he : r.edge a = m.region.edge (skip ax a) := by
                    unfold Region.edge Region.hi Region.lo
                    rw [hpmin, hpmax, getD_removeAt_skip, getD_removeAt_skip]
                  have hc : m.cell.getD (skip ax a) 0 = m.region.edge (skip ax a) / (m.nAt (skip ax a) : Rat) := by
                    unfold Mesh.cell
                    rw [getD_tab _ _ _ _ (by rw [hndim]; exact hs)]; rfl
                  have hne : m.region.edge (skip ax a) ≠ 0 := by
                    have := hlt _ hs
                    unfold Region.edge; intro h0; linarith
                  rw [he, hc, div_div_self_nat _ _ hne (hnpos _ (by rw [hndim]; exact hs)), roundHalfEven_nat]
                  rfl
              refine ⟨ax, hax, by rw [hndim]; exact haxn, by rw [hndim]; exact h2, ?_⟩
              subst h
              simp only
              rw [hmc'] at hn ⊢
              simp only at hn ⊢
              refine ⟨hpmin, hpmax, ?_, ?_, ?_, hn, trivial, ?_⟩
              · rw [hreq]
              · rw [hreq]
              · rw [hreq]
              · rw [hreq]; exact hl4


/-- the reduced mesh is well formed -/
theorem sel_inv (m : Mesh) (hm : m.Inv) (d : String) (m' : Mesh) (h : sel m d = .ok m') : m'.Inv := by
  obtain ⟨ax, hax, haxlt, h2, hpmin, hpmax, hdims, hunits, htol, hn, hbc, hdup⟩ := sel_spec m hm d m' h
  obtain ⟨⟨hpos, hmax, hdimsl, hunitsl, hdup0, hlt⟩, hnlen, hnpos⟩ := hm
  have hndim : m.ndim = m.region.pmin.length := rfl
  rw [hndim] at haxlt h2
  have hl : m'.region.pmin.length = m.region.pmin.length - 1 := by
    rw [hpmin, removeAt_length _ _ haxlt]
  refine ⟨⟨by omega, ?_, ?_, ?_, hdup, ?_⟩, ?_, ?_⟩
  · rw [hl, hpmax, removeAt_length _ _ (by omega), hmax]
  · rw [hl, hdims, removeAt_length _ _ (by omega), hdimsl]
  · rw [hl, hunits, removeAt_length _ _ (by omega), hunitsl]
  · intro a ha
    unfold Region.lo Region.hi
    rw [hpmin, hpmax, getD_removeAt_skip, getD_removeAt_skip]
    exact hlt _ (skip_lt ax a _ (by omega))
  · unfold Region.ndim
    rw [hl, hn, removeAt_length _ _ (by rw [hnlen]; exact haxlt), hnlen]; rfl
  · intro a ha
    have ha' : a < m.region.pmin.length - 1 := by
      have : m'.ndim = m'.region.pmin.length := rfl
      omega
    unfold Mesh.nAt
    rw [hn, getD_removeAt_skip]
    exact hnpos _ (by rw [hndim]; exact skip_lt ax a _ ha')

/-- cell sizes of the reduced mesh are the cell sizes of the remaining axes -/
theorem sel_cellAt (m : Mesh) (hm : m.Inv) (d : String) (m' : Mesh) (h : sel m d = .ok m')
    (ax : Nat) (hax : m.region.dim2index d = .ok ax) (a : Nat) :
    m'.cellAt a = m.cellAt (skip ax a) := by
  obtain ⟨ax', hax', _, _, hpmin, hpmax, _, _, _, hn, _, _⟩ := sel_spec m hm d m' h
  rw [hax] at hax'
  injection hax' with hax'
  subst hax'
  unfold Mesh.cellAt Region.edge Region.hi Region.lo Mesh.nAt
  rw [hpmin, hpmax, hn, getD_removeAt_skip, getD_removeAt_skip, getD_removeAt_skip]

/-- cell volume = cell length of the removed axis × cell volume of the reduced mesh -/
theorem sel_dV (m : Mesh) (hm : m.Inv) (d : String) (m' : Mesh) (h : sel m d = .ok m')
    (ax : Nat) (hax : m.region.dim2index d = .ok ax) :
    dV m = m.cellAt ax * dV m' := by
  have hc := sel_cellAt m hm d m' h ax hax
  obtain ⟨ax', hax', haxlt, h2, hpmin, _, _, _, _, _, _, _⟩ := sel_spec m hm d m' h
  rw [hax] at hax'
  injection hax' with hax'
  subst hax'
  have hcell : m'.cell = removeAt m.cell ax := by
    unfold Mesh.cell
    rw [removeAt_tab _ _ _ haxlt]
    have : m'.ndim = m.ndim - 1 := by
      show m'.region.pmin.length = m.region.pmin.length - 1
      rw [hpmin, removeAt_length _ _ haxlt]
    rw [this]
    exact tab_congr _ _ _ (fun a _ => hc a)
  unfold dV
  rw [ratProd_removeAt m.cell ax (by simpa [Mesh.cell] using haxlt), hcell]
  congr 1
  unfold Mesh.cell
  exact getD_tab _ _ _ _ haxlt

end DFV.C06
