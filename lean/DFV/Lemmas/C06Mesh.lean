import DFV.Lemmas.C06Idx
import DFV.Lemmas.RatFloor
/-! Mesh lemmas for C06: what a successful `Mesh.sel(dim)` returns (axis removal), cell
sizes of the reduced mesh, cell volume as a product. -/
namespace DFV.C06
open DFV

/-- position in the full index list of position `a` of the list with `ax` removed -/
def skip (ax a : Nat) : Nat := if a < ax then a else a + 1

theorem getD_removeAt_skip {α} (l : List α) (ax p : Nat) (d : α) :
    (removeAt l ax).getD p d = l.getD (skip ax p) d := by
  rw [getD_removeAt]; unfold skip; split <;> rfl

theorem skip_lt (ax a n : Nat) (h : a < n - 1) : skip ax a < n := by
  unfold skip; split <;> omega

theorem skip_ne (ax a : Nat) : skip ax a ≠ ax := by
  unfold skip; split <;> omega

theorem removeAt_tab {α} (n : Nat) (f : Nat → α) (ax : Nat) (h : ax < n) :
    removeAt (tab n f) ax = tab (n - 1) fun a => f (skip ax a) := by
  apply List.ext_getElem
  · rw [removeAt_length _ _ (by simpa using h)]; simp
  · intro i h1 h2
    have hi : i < n - 1 := by simpa using h2
    have e1 : (removeAt (tab n f) ax)[i] = (removeAt (tab n f) ax).getD i (f 0) := by
      simp [List.getD_eq_getElem?_getD, h1]
    rw [e1, getD_removeAt_skip, getD_tab _ _ _ _ (skip_lt ax i n hi), getElem_tab]

theorem removeAt_eq_tab {α} (l : List α) (ax : Nat) (d : α) (h : ax < l.length) :
    removeAt l ax = tab (l.length - 1) fun a => l.getD (skip ax a) d := by
  apply List.ext_getElem
  · rw [removeAt_length _ _ h]; simp
  · intro i h1 h2
    have e1 : (removeAt l ax)[i] = (removeAt l ax).getD i d := by
      simp [List.getD_eq_getElem?_getD, h1]
    rw [e1, getD_removeAt_skip, getElem_tab]

theorem ratProd_removeAt (l : List Rat) (ax : Nat) (h : ax < l.length) :
    ratProd l = l.getD ax 0 * ratProd (removeAt l ax) := by
  induction l generalizing ax with
  | nil => simp at h
  | cons x xs ih =>
    cases ax with
    | zero => simp [removeAt, ratProd]
    | succ ax =>
      simp only [removeAt, ratProd, List.getD_cons_succ]
      rw [ih ax (by simpa using h)]; ring

theorem natProd_removeAt (l : List Nat) (ax : Nat) (h : ax < l.length) :
    natProd l = l.getD ax 0 * natProd (removeAt l ax) := by
  induction l generalizing ax with
  | nil => simp at h
  | cons x xs ih =>
    cases ax with
    | zero => simp [removeAt, natProd]
    | succ ax =>
      simp only [removeAt, natProd, List.getD_cons_succ]
      rw [ih ax (by simpa using h)]; ring

/-! ## name lookup -/

theorem indexOf_go_spec (x : String) (xs : List String) (k r : Nat) (h : indexOf?.go x xs k = some r) :
    k ≤ r ∧ r - k < xs.length ∧ xs.getD (r - k) "" = x := by
  induction xs generalizing k with
  | nil => simp [indexOf?.go] at h
  | cons y ys ih =>
    simp only [indexOf?.go] at h
    split at h
    · injection h with h; subst h
      refine ⟨Nat.le_refl _, by simp, ?_⟩
      simpa
    · obtain ⟨h1, h2, h3⟩ := ih (k + 1) h
      refine ⟨by omega, by simp; omega, ?_⟩
      have : r - k = (r - (k + 1)) + 1 := by omega
      rw [this, List.getD_cons_succ]; exact h3

/-- a successful `_dim2index` returns a position inside `dims` that holds the name -/
theorem dim2index_ok (r : Region) (d : String) (ax : Nat) (h : r.dim2index d = .ok ax) :
    ax < r.dims.length ∧ r.dims.getD ax "" = d := by
  unfold Region.dim2index at h
  split at h
  · rename_i i hi
    injection h with h; subst h
    have := indexOf_go_spec d r.dims 0 i hi
    simpa using this.2
  · cases h

/-! ## the region constructor -/

theorem region_mk_ok (p1 p2 : List Rat) (dims units : List String) (tol : Rat) (r : Region)
    (h : Region.mk? p1 p2 (some dims) (some units) tol = .ok r) :
    p1.length = p2.length ∧ p1.length ≠ 0 ∧ dims.length = p1.length ∧ hasDup dims = false ∧
    units.length = p1.length ∧
    r = { pmin := tab p1.length fun a => min (p1.getD a 0) (p2.getD a 0),
          pmax := tab p1.length fun a => max (p1.getD a 0) (p2.getD a 0),
          dims := dims, units := units, tol := tol } := by
  unfold Region.mk? at h
  split at h
  · cases h
  · split at h
    · cases h
    · rename_i hlen hne
      simp only [Region.dimsOk, Region.unitsOk] at h
      by_cases hd1 : dims.length ≠ p1.length
      · simp [hd1] at h
      · by_cases hd2 : hasDup dims = true
        · simp [hd1, hd2] at h
        · by_cases hu1 : units.length ≠ p1.length
          · simp [hd1, hd2, hu1] at h
          · have hd2' : hasDup dims = false := by simpa using hd2
            simp only [hd1, hd2', hu1, if_false, Bool.false_eq_true] at h
            split at h
            · cases h
            · injection h with h
              exact ⟨by simpa using hlen, hne, by simpa using hd1, by simpa using hd2, by simpa using hu1, h.symm⟩

/-! ## rounding a whole number -/

theorem roundHalfEven_nat (n : Nat) : Mesh.roundHalfEven (n : Rat) = (n : Int) := by
  have hf : ((n : Rat)).floor = (n : Int) := by
    apply rat_floor_eq
    · push_cast; exact le_refl _
    · push_cast; linarith
  unfold Mesh.roundHalfEven
  rw [hf]
  have : ((n : Rat) - ((n : Int) : Rat)) = 0 := by push_cast; ring
  rw [this]
  norm_num

theorem toLower_empty : "".toLower = "" := by simp [String.toLower]

/-- what a successful `Mesh(region=r, cell=cell)` returns -/
theorem mkCell_ok (r : Region) (cell : List Rat) (m' : Mesh) (h : Mesh.mkCell? r cell = .ok m') :
    m' = { region := r,
           n := tab r.ndim fun a => (Mesh.roundHalfEven (r.edge a / cell.getD a 0)).toNat,
           bc := "", subs := [] } := by
  unfold Mesh.mkCell? at h
  split at h
  · cases h
  · split at h
    · cases h
    · split at h
      · cases h
      · split at h
        · cases h
        · split at h
          · cases h
          · injection h with h
            rw [← h, toLower_empty]

end DFV.C06
