import DFV.Lemmas.C05
/-! helper lemmas for `div_perm` / `curl_perm` (C05): sums over a permuted index range, derivative of
a relocated component -/
set_option linter.unusedSimpArgs false
namespace DFV.C05
open DFV DFV.C04

theorem sumTo_comm (n m : Nat) (G : Nat → Nat → Rat) :
    sumTo n (fun a => sumTo m (fun b => G a b)) = sumTo m (fun b => sumTo n (fun a => G a b)) := by
  induction n with
  | zero =>
    simp only [sumTo]
    exact (sumTo_zero m).symm
  | succ n ih =>
    simp only [sumTo]
    rw [ih, ← sumTo_add]

/-- a sum is unchanged by a permutation of its index range -/
theorem sumTo_perm (n : Nat) (π π' : Nat → Nat) (hπ : ∀ k, k < n → π k < n ∧ π' (π k) = k)
    (hπ' : ∀ c, c < n → π' c < n ∧ π (π' c) = c) (F : Nat → Rat) :
    sumTo n (fun k => F (π k)) = sumTo n F := by
  have e1 : sumTo n F = sumTo n (fun c => sumTo n (fun k => (if k = π' c then (1 : Rat) else 0) * F (π k))) := by
    apply sumTo_congr
    intro c hc
    rw [sumTo_delta n (π' c) (hπ' c hc).1 (fun k => F (π k)), (hπ' c hc).2]
  have e2 : sumTo n (fun k => F (π k))
      = sumTo n (fun k => sumTo n (fun c => (if k = π' c then (1 : Rat) else 0) * F (π k))) := by
    apply sumTo_congr
    intro k hk
    have : sumTo n (fun c => (if k = π' c then (1 : Rat) else 0) * F (π k))
        = sumTo n (fun c => (if c = π k then (1 : Rat) else 0) * F (π k)) := by
      apply sumTo_congr
      intro c hc
      have : (k = π' c) ↔ (c = π k) := by
        constructor
        · intro h; rw [h, (hπ' c hc).2]
        · intro h; rw [h, (hπ k hk).2]
      simp only [this]
    rw [this, sumTo_delta n (π k) (hπ k hk).1 (fun _ => F (π k))]
  rw [e1, e2, sumTo_comm]

/-- the derivative of stored component `k` of `g` is the derivative of stored component `k'` of `f`
when the two components hold the same values on the same mesh with the same validity -/
theorem D_congr_comp (f g : Fld) (ax o k k' : Nat) (i : List Nat) (hmesh : g.mesh = f.mesh)
    (hvalid : ∀ j, g.valid.get j = f.valid.get j)
    (hdata : ∀ j, (g.data.get j).getD k 0 = (f.data.get j).getD k' 0) :
    D g ax o k i = D f ax o k' i := by
  unfold D periodic NDA.line
  rw [hmesh]
  congr 2
  apply tab_congr
  intro j _
  rw [hdata, hvalid]

end DFV.C05
