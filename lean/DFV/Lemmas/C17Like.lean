import DFV.Lemmas.C17Trip
/-! The DataArray `to_xarray` returns, and what is left of it after removing attributes, is
`LikeExport`. -/
namespace DFV.C17
open DFV

section
variable [FieldAttrs] {α : Type} {xe : XA α} {f : XFld α} {c p q t : Bool} {uo : Nat → Option String}

/-- coordinate units as exported: every axis has the region's unit -/
def uoExport (f : XFld α) : Nat → Option String := fun a => some (f.mesh.region.units.getD a "")

theorem exportAxis_name_ne (hf : f.WF) (y : Axis) (hy : y ∈ tab f.mesh.region.dims.length (exportAxis f.mesh)) :
    (decide (y.name ≠ "vdims")) = true := by
  obtain ⟨a, ha, rfl⟩ := mem_tab _ _ _ hy
  apply decide_eq_true
  intro h0
  apply hf.novd
  have : (exportAxis f.mesh a).name = f.mesh.region.dims.getD a "" := rfl
  rw [← h0, this]
  exact getD_mem _ _ _ ha

theorem dims_len (hf : f.WF) : f.mesh.region.dims.length = f.mesh.ndim := hf.mesh.1.2.2.1

theorem geo_exported (hf : f.WF) (nm : String) (u : PyArg) :
    geo (exported f nm u) = tab f.mesh.ndim (gAxis f.mesh (uoExport f)) := by
  unfold geo exported exportAxes
  simp only []
  rw [← dims_len hf]
  split
  · exact filter_append_singleton _ _ _ (exportAxis_name_ne hf) (by simp)
  · rw [List.append_nil]
    exact List.filter_eq_self.mpr (exportAxis_name_ne hf)

theorem dims_exported (hf : f.WF) (nm : String) (u : PyArg) :
    (exported f nm u).dims.contains "vdims" = decide (1 < f.nvdim) := by
  unfold XA.dims exported exportAxes
  simp only [List.map_append]
  by_cases h1 : 1 < f.nvdim
  · simp [h1]
  · simp only [h1, if_false, List.map_nil, List.append_nil, decide_false]
    rw [Bool.eq_false_iff]
    intro hcon
    rw [List.contains_iff_mem] at hcon
    obtain ⟨y, hy, hn⟩ := List.mem_map.mp hcon
    have := exportAxis_name_ne hf y hy
    simp [hn] at this

theorem likeExport_exported (hf : f.WF) (nm : String) (u : PyArg) :
    LikeExport (exported f nm u) f false false false false (uoExport f) :=
  { geo := geo_exported hf nm u, dims := dims_exported hf nm u, data := rfl, vd := rfl, cell := rfl,
    pmin := rfl, pmax := rfl, nvdim := rfl, tol := rfl, dtype := rfl }

omit [FieldAttrs] in
theorem LikeExport.eraseGeom (h : LikeExport xe f false false false t uo) (c p q : Bool) :
    LikeExport (eraseGeom c p q xe) f c p q t uo :=
  { geo := h.geo, dims := h.dims, data := h.data, vd := h.vd,
    cell := by show (if c then none else xe.attrs.cell) = _; rw [h.cell]; cases c <;> rfl,
    pmin := by show (if p then none else xe.attrs.pmin) = _; rw [h.pmin]; cases p <;> rfl,
    pmax := by show (if q then none else xe.attrs.pmax) = _; rw [h.pmax]; cases q <;> rfl,
    nvdim := h.nvdim, tol := h.tol, dtype := h.dtype }

omit [FieldAttrs] in
theorem LikeExport.eraseTol (h : LikeExport xe f c p q t uo) : LikeExport (eraseTol xe) f c p q true uo :=
  { geo := h.geo, dims := h.dims, data := h.data, vd := h.vd, cell := h.cell, pmin := h.pmin, pmax := h.pmax,
    nvdim := h.nvdim, tol := rfl, dtype := h.dtype }

/-- the axis transformation `eraseUnits` applies -/
def dropUnits (sel : String → Bool) (ax : Axis) : Axis :=
  if sel ax.name then { ax with coord := ax.coord.map fun c => { c with units := none } } else ax

omit [FieldAttrs] in
theorem dropUnits_name (sel : String → Bool) (ax : Axis) : (dropUnits sel ax).name = ax.name := by
  unfold dropUnits; split <;> rfl

omit [FieldAttrs] in
theorem LikeExport.eraseUnits (h : LikeExport xe f c p q t uo) (sel : String → Bool) :
    LikeExport (eraseUnits sel xe) f c p q t
      (fun a => if sel (f.mesh.region.dims.getD a "") then none else uo a) :=
  { geo := by
      show ((xe.axes.map (dropUnits sel)).filter fun a => decide (a.name ≠ "vdims")) = _
      rw [List.filter_map]
      have : ((fun a : Axis => decide (a.name ≠ "vdims")) ∘ dropUnits sel) = fun a => decide (a.name ≠ "vdims") := by
        funext a; simp [Function.comp, dropUnits_name]
      rw [this]
      have hg : (xe.axes.filter fun a => decide (a.name ≠ "vdims")) = C17.geo xe := rfl
      rw [hg, h.geo, map_tab]
      apply tab_congr
      intro a _
      unfold dropUnits gAxis
      simp only []
      split <;> rfl,
    dims := by
      have : (C17.eraseUnits sel xe).dims = xe.dims := by
        show (xe.axes.map (dropUnits sel)).map Axis.name = xe.axes.map Axis.name
        rw [List.map_map]
        apply List.map_congr_left
        intro a _
        exact dropUnits_name sel a
      rw [this]; exact h.dims,
    data := h.data, vd := h.vd, cell := h.cell, pmin := h.pmin, pmax := h.pmax, nvdim := h.nvdim,
    tol := h.tol, dtype := h.dtype }

/-- with every coordinate carrying the region's unit the importer restores the units -/
theorem unitsAfter_export (hf : f.WF) : unitsAfter f.mesh.ndim (uoExport f) = f.mesh.region.units := by
  unfold unitsAfter uoExport
  have : (tab f.mesh.ndim fun a => some (f.mesh.region.units.getD a "")).any Option.isNone = false :=
    any_tab_false _ _ _ fun _ _ => rfl
  rw [this]
  simp only [Bool.false_eq_true, if_false, Option.getD_some]
  show tab f.mesh.region.pmin.length _ = _
  rw [← hf.mesh.1.2.2.2.1]
  exact tab_getD_self _ _

omit [FieldAttrs] in
/-- one coordinate without units is enough for the default unit on every axis -/
theorem unitsAfter_erased (d : Nat) (uo : Nat → Option String) (a : Nat) (ha : a < d) (h : uo a = none) :
    unitsAfter d uo = List.replicate d "m" := by
  unfold unitsAfter
  have : (tab d uo).any Option.isNone = true := by
    rw [List.any_eq_true]
    refine ⟨uo a, ?_, by rw [h]; rfl⟩
    unfold tab
    exact List.mem_map.mpr ⟨a, List.mem_range.mpr ha, rfl⟩
  rw [this]; rfl

theorem meshAfter_export (hf : f.WF) :
    meshAfter f false (uoExport f) = { f.mesh with bc := "", subs := [] } := by
  unfold meshAfter regAfter
  rw [unitsAfter_export hf]
  rfl

theorem vdimsAfter_eq_iff (hf : f.WF) : vdimsAfter f = f.vdims ↔ LabelsStd f := by
  by_cases h1 : 1 < f.nvdim
  · cases hv : f.vdims with
    | some l =>
      unfold vdimsAfter LabelsStd
      simp only [h1, if_true, hv]
      constructor
      · intro _; exact ⟨fun _ => by simp, fun h => by omega⟩
      · intro _; trivial
    | none =>
      have := vdimsAfter_ne_none (f := f) h1
      unfold LabelsStd
      rw [hv] at *
      constructor
      · intro h; exact absurd h this
      · intro h; exact absurd rfl (h.1 h1)
  · have h2 : f.nvdim = 1 := by have := hf.nvdim; omega
    have hv : vdimsAfter f = none := by unfold vdimsAfter; simp only [h1, if_false]
    rw [hv]
    unfold LabelsStd
    constructor
    · intro h; exact ⟨fun h' => absurd h' h1, fun _ => h.symm⟩
    · intro h; exact (h.2 h2).symm

end
end DFV.C17
