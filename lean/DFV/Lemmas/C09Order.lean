import DFV.Lemmas.C09ForeignText
/-! The reader depends on the header lines only through the dictionary they build (C09): lines in
any order give the same field when the keys are distinct. -/
namespace DFV.C09
open DFV

/-- two header dictionaries that answer every lookup alike -/
def HEquiv (h h' : List (String × HVal)) : Prop := ∀ k, hget h k = hget h' k

theorem hnum_congr {h h'} (E : HEquiv h h') (k : String) : hnum h k = hnum h' k := by unfold hnum; rw [E k]
theorem hnat_congr {h h'} (E : HEquiv h h') (k : String) : hnat h k = hnat h' k := by unfold hnat; rw [E k]
theorem hnums_congr {h h'} (E : HEquiv h h') (a b c : String) : hnums h a b c = hnums h' a b c := by
  unfold hnums; rw [hnum_congr E a, hnum_congr E b, hnum_congr E c]
theorem hnats_congr {h h'} (E : HEquiv h h') (a b c : String) : hnats h a b c = hnats h' a b c := by
  unfold hnats; rw [hnat_congr E a, hnat_congr E b, hnat_congr E c]
theorem readMesh_congr {h h'} (E : HEquiv h h') : readMesh h = readMesh h' := by
  unfold readMesh
  rw [hnums_congr E "xmin" "ymin" "zmin", hnums_congr E "xmax" "ymax" "zmax",
    hnums_congr E "xstepsize" "ystepsize" "zstepsize", E "meshunit"]
theorem valueDim_congr {h h'} (E : HEquiv h h') (first : String) : valueDim first h = valueDim first h' := by
  unfold valueDim; rw [hnat_congr E "valuedim"]
theorem labelsOf_congr {h h'} (E : HEquiv h h') (isWord : Char → Bool) : labelsOf isWord h = labelsOf isWord h' := by
  unfold labelsOf; rw [E "valuelabels"]
theorem unitOf_congr {h h'} (E : HEquiv h h') : unitOf h = unitOf h' := by
  unfold unitOf; rw [E "valueunits"]

/-- reading depends on the header lines only through the dictionary they build -/
theorem fromOvf_congr_header {α} [DecidableEq α] (c : Codec α) (isWord : Char → Bool) (reserved : String → Bool)
    (F F' : OvfFile α) (h h' : List (String × HVal)) (ws : List String)
    (hs : scan F.lines [] = some (h, ws)) (hs' : scan F'.lines [] = some (h', ws)) (E : HEquiv h' h)
    (hf : F'.first = F.first) (hb : F'.body = F.body) (side : Option (List (String × Region))) :
    fromOvf c isWord reserved F' side = fromOvf c isWord reserved F side := by
  unfold fromOvf parse
  rw [hs, hs', hf, hb]
  simp only
  rw [valueDim_congr E, readMesh_congr E, hnats_congr E]
  by_cases h0 : ws.isEmpty = true
  · simp only [h0, if_true]
  · by_cases h1 : (isBinary ws && (dataWidth ws).isNone) = true
    · simp only [h0, h1, if_true, Bool.false_eq_true, if_false]
    · simp only [h0, h1, Bool.false_eq_true, if_false]
      cases valueDim F.first h with
      | error e => rfl
      | ok vd =>
        simp only
        cases readMesh h with
        | error e => rfl
        | ok mesh =>
          simp only
          cases hnats h "xnodes" "ynodes" "znodes" with
          | error e => rfl
          | ok nodes =>
            simp only
            cases readBody c (isV2 F.first) ws F.body (natProd nodes) vd with
            | error e => rfl
            | ok flat =>
              simp only
              rw [labelsOf_congr E, unitOf_congr E]


/-- the `key: value` pairs of header lines, in file order -/
def kvs : List HLine → List (String × HVal)
  | [] => []
  | .kv k v :: ls => (k, v) :: kvs ls
  | _ :: ls => kvs ls

theorem scan_kvs (ls : List HLine) (ws : List String) (acc : List (String × HVal))
    (h : ∀ l ∈ ls, ∀ w, l ≠ .beginData w) :
    scan (ls ++ [.beginData ws]) acc = some ((kvs ls).reverse ++ acc, ws) := by
  induction ls generalizing acc with
  | nil => rfl
  | cons l ls ih =>
    cases l with
    | kv k v =>
      show scan (ls ++ [.beginData ws]) ((k, v) :: acc) = _
      rw [ih _ (fun x hx => h x (by simp [hx]))]
      simp [kvs]
    | other => exact ih _ (fun x hx => h x (by simp [hx]))
    | beginData w => exact absurd rfl (h _ (by simp) w)

theorem kvs_perm (ls ls' : List HLine) (hp : ls'.Perm ls) : (kvs ls').Perm (kvs ls) := by
  induction hp with
  | nil => exact List.Perm.refl _
  | cons x _ ih => cases x <;> simp [kvs, ih]
  | swap x y l => cases x <;> cases y <;> simp [kvs, List.Perm.swap]
  | trans _ _ ih1 ih2 => exact ih1.trans ih2

theorem find_unique (l : List (String × HVal)) (hnd : (l.map Prod.fst).Nodup) (p : String × HVal) (hp : p ∈ l) :
    l.find? (fun q => q.1 == p.1) = some p := by
  induction l with
  | nil => cases hp
  | cons q l ih =>
    simp only [List.map_cons, List.nodup_cons] at hnd
    rcases List.mem_cons.mp hp with rfl | hp
    · simp
    · have : q.1 ≠ p.1 := by
        intro e; apply hnd.1; rw [e]; exact List.mem_map_of_mem hp
      have hb : (q.1 == p.1) = false := by simpa using this
      rw [List.find?_cons, hb]
      exact ih hnd.2 hp

theorem hget_perm (l l' : List (String × HVal)) (hp : l'.Perm l) (hnd : (l.map Prod.fst).Nodup) : HEquiv l' l := by
  intro k
  have hnd' : (l'.map Prod.fst).Nodup := (hp.map Prod.fst).nodup_iff.mpr hnd
  unfold hget
  cases hf : l.find? (fun p => p.1 == k) with
  | none =>
    have : l'.find? (fun p => p.1 == k) = none := by
      rw [List.find?_eq_none] at hf ⊢
      intro x hx; exact hf x (hp.mem_iff.mp hx)
    rw [this]
  | some p =>
    have hm := List.mem_of_find?_eq_some hf
    have hk : p.1 = k := by simpa using List.find?_some hf
    subst hk
    rw [find_unique l' hnd' p (hp.mem_iff.mpr hm)]

end DFV.C09
