import DFV.Lemmas.C17Idem
/-! The attribute-free class: a DataArray with none of `cell` / `pmin` / `pmax`. -/
namespace DFV.C17
open DFV

theorem zipWith_map_self {β γ δ : Type} (l : List β) (g : β → γ) (f : β → γ → δ) :
    List.zipWith f l (l.map g) = l.map fun a => f a (g a) := by
  induction l with
  | nil => rfl
  | cons x xs ih => simp [ih]

theorem getD_map_default {β : Type} [Inhabited β] (l : List β) (f : β → Rat) (a : Nat) (ha : a < l.length) :
    (l.map f).getD a 0 = f (l.getD a default) := by
  simp [List.getD_eq_getElem?_getD, List.getElem?_eq_getElem ha]

section
variable {α : Type}

/-- no geometric attribute at all -/
def Bare (xa : XA α) : Prop := xa.attrs.cell = none ∧ xa.attrs.pmin = none ∧ xa.attrs.pmax = none

theorem bare_cellUsed (xa : XA α) (h : Bare xa) : cellUsed xa = (geo xa).map fun a => meanDiff a.values := by
  unfold cellUsed; rw [h.1]

theorem bare_p1Used (xa : XA α) (h : Bare xa) :
    p1Used xa = (geo xa).map fun a => a.values.getD 0 0 - meanDiff a.values / 2 := by
  unfold p1Used; rw [h.2.1]
  simp only []
  rw [bare_cellUsed xa h, zipWith_map_self]

theorem bare_p2Used (xa : XA α) (h : Bare xa) :
    p2Used xa = (geo xa).map fun a => a.values.getD (a.values.length - 1) 0 + meanDiff a.values / 2 := by
  unfold p2Used; rw [h.2.2]
  simp only []
  rw [bare_cellUsed xa h, zipWith_map_self]

/-- last − first = (N − 1)·mean step -/
theorem span_eq (v : List Rat) (hn : 2 ≤ v.length) :
    v.getD (v.length - 1) 0 - v.getD 0 0 = ((v.length : Rat) - 1) * meanDiff v := by
  rw [meanDiff_eq]
  have h1 : ((v.length - 1 : Nat) : Rat) = (v.length : Rat) - 1 := by
    push_cast [Nat.cast_sub (by omega : 1 ≤ v.length)]; ring
  have h2 : ((v.length : Rat) - 1) ≠ 0 := by
    have : (2 : Rat) ≤ (v.length : Rat) := by exact_mod_cast hn
    intro h0; linarith
  rw [h1]
  field_simp

/-- the mesh the importer builds from coordinates alone: half a mean step beyond the outermost
coordinates, one cell per coordinate value -/
def bareMesh (xa : XA α) : Mesh :=
  { region := { pmin := (geo xa).map (fun a => a.values.getD 0 0 - meanDiff a.values / 2),
                pmax := (geo xa).map (fun a => a.values.getD (a.values.length - 1) 0 + meanDiff a.values / 2),
                dims := (geo xa).map Axis.name, units := unitsUsed xa,
                tol := xa.attrs.tol.getD defaultTol },
    n := (geo xa).map (fun a => a.values.length), bc := "", subs := [] }

theorem bareMesh_nAt (xa : XA α) (a : Nat) (ha : a < (geo xa).length) :
    (bareMesh xa).nAt a = ((geo xa).getD a default).values.length := by
  unfold Mesh.nAt bareMesh
  simp only []
  rw [List.getD_eq_getElem?_getD, List.getD_eq_getElem?_getD, List.getElem?_map, List.getElem?_eq_getElem ha]
  rfl

/-- **The attribute-free class, exactly.**  A DataArray with none of `cell`, `pmin`, `pmax` gets
through the geometry steps iff it has at least one geometric dimension, the names are distinct,
`xa.values.shape[:-1]` contains no 1, every geometric coordinate has at least two values, meets the
spacing specification and ASCENDS (first < last).  The mesh then has exactly one cell per
coordinate value and reaches half a mean step beyond the outermost coordinates — for ANY accepted
coordinates (evenly spaced within the tolerance of the test, not only exact progressions): the mean
step is `(last − first)/(N − 1)`, so the edge `last − first + mean` is `N` mean steps exactly. -/
theorem bare_geometry_iff (xa : XA α) (hb : Bare xa) (m : Mesh) :
    geometryOf xa = .ok m ↔
      (geo xa ≠ [] ∧ hasDup ((geo xa).map Axis.name) = false ∧ (∀ x ∈ xa.data.shape.dropLast, x ≠ 1) ∧
        ∀ ax ∈ geo xa, 2 ≤ ax.values.length ∧ EvenSpec ax.values ∧
          ax.values.getD 0 0 < ax.values.getD (ax.values.length - 1) 0) ∧
      m = bareMesh xa := by
  have hc := bare_cellUsed xa hb
  have hp1 := bare_p1Used xa hb
  have hp2 := bare_p2Used xa hb
  have hL1 : (p1Used xa).length = (geo xa).length := by rw [hp1, List.length_map]
  have hL2 : (p2Used xa).length = (geo xa).length := by rw [hp2, List.length_map]
  have hLc : (cellUsed xa).length = (geo xa).length := by rw [hc, List.length_map]
  -- per-axis facts, given two values and a positive mean step
  have key : ∀ a, a < (geo xa).length → 2 ≤ ((geo xa).getD a default).values.length →
      0 < meanDiff ((geo xa).getD a default).values →
      (regionUsed xa).lo a = (p1Used xa).getD a 0 ∧ (regionUsed xa).hi a = (p2Used xa).getD a 0 ∧
      (regionUsed xa).edge a = (((geo xa).getD a default).values.length : Rat) * meanDiff ((geo xa).getD a default).values := by
    intro a ha h2 hpos
    have e1 : (p1Used xa).getD a 0 = ((geo xa).getD a default).values.getD 0 0 - meanDiff ((geo xa).getD a default).values / 2 := by
      rw [hp1, getD_map_default _ _ _ ha]
    have e2 : (p2Used xa).getD a 0 = ((geo xa).getD a default).values.getD (((geo xa).getD a default).values.length - 1) 0
        + meanDiff ((geo xa).getD a default).values / 2 := by
      rw [hp2, getD_map_default _ _ _ ha]
    have hspan := span_eq _ h2
    have hN : (2 : Rat) ≤ (((geo xa).getD a default).values.length : Rat) := by exact_mod_cast h2
    have hlt : (p1Used xa).getD a 0 < (p2Used xa).getD a 0 := by
      rw [e1, e2]; nlinarith
    have hlo : (regionUsed xa).lo a = (p1Used xa).getD a 0 := by
      unfold Region.lo regionUsed
      simp only []
      rw [getD_tab _ _ _ _ (by rw [hL1]; exact ha)]
      exact min_eq_left hlt.le
    have hhi : (regionUsed xa).hi a = (p2Used xa).getD a 0 := by
      unfold Region.hi regionUsed
      simp only []
      rw [getD_tab _ _ _ _ (by rw [hL1]; exact ha)]
      exact max_eq_right hlt.le
    refine ⟨hlo, hhi, ?_⟩
    unfold Region.edge
    rw [hlo, hhi, e1, e2]
    linarith
  have hcell : ∀ a, a < (geo xa).length → (cellUsed xa).getD a 0 = meanDiff ((geo xa).getD a default).values := by
    intro a ha; rw [hc, getD_map_default _ _ _ ha]
  have key2 : (∀ ax ∈ geo xa, 2 ≤ ax.values.length) → (∀ ax ∈ geo xa, 0 < meanDiff ax.values) →
      ({ regionUsed xa with tol := xa.attrs.tol.getD defaultTol } : Region) = (bareMesh xa).region := by
    intro hi2 hpos
    have e1 : (regionUsed xa).pmin = p1Used xa := by
      show tab _ _ = _
      symm
      apply eq_tab_of_getD _ _ _ 0 rfl
      intro a ha
      rw [hL1] at ha
      have hax : (geo xa).getD a default ∈ geo xa := getD_mem _ _ _ ha
      obtain ⟨k1, -, -⟩ := key a ha (hi2 _ hax) (hpos _ hax)
      unfold Region.lo regionUsed at k1
      simp only [] at k1
      rw [getD_tab _ _ _ _ (by rw [hL1]; exact ha)] at k1
      exact k1.symm
    have e2 : (regionUsed xa).pmax = p2Used xa := by
      show tab _ _ = _
      symm
      apply eq_tab_of_getD _ _ _ 0 (by rw [hL2, hL1])
      intro a ha
      rw [hL1] at ha
      have hax : (geo xa).getD a default ∈ geo xa := getD_mem _ _ _ ha
      obtain ⟨-, k2, -⟩ := key a ha (hi2 _ hax) (hpos _ hax)
      unfold Region.hi regionUsed at k2
      simp only [] at k2
      rw [getD_tab _ _ _ _ (by rw [hL1]; exact ha)] at k2
      exact k2.symm
    show ({ pmin := (regionUsed xa).pmin, pmax := (regionUsed xa).pmax, dims := (regionUsed xa).dims,
            units := (regionUsed xa).units, tol := xa.attrs.tol.getD defaultTol } : Region) = _
    rw [e1, e2, hp1, hp2]
    rfl
  rw [geometryOf_ok_iff_inputs]
  constructor
  · rintro ⟨hs, hinf, -, -, ⟨-, a2, -, a4, -⟩, ⟨-, b2, -⟩, c1, c2, c3, c4, c5⟩
    obtain ⟨hi1, hi2⟩ := hinf hb.1
    have hpos : ∀ ax ∈ geo xa, 0 < meanDiff ax.values := by
      intro ax hax
      apply b2
      rw [hc]
      exact List.mem_map.mpr ⟨ax, hax, rfl⟩
    refine ⟨⟨?_, a4, hi1, fun ax hax => ⟨hi2 ax hax, hs ax hax, ?_⟩⟩, ?_⟩
    · intro h0; apply a2; rw [hL1, h0]; rfl
    · have := span_eq _ (hi2 ax hax)
      have hN : (2 : Rat) ≤ (ax.values.length : Rat) := by exact_mod_cast hi2 ax hax
      have := hpos ax hax
      nlinarith
    · -- the mesh
      have hn : m.n = (geo xa).map fun a => a.values.length := by
        apply List.ext_getElem
        · rw [c4, hL1, List.length_map]
        · intro a h1 h2'
          have ha : a < (geo xa).length := by rw [c4, hL1] at h1; exact h1
          have hax : (geo xa).getD a default ∈ geo xa := getD_mem _ _ _ ha
          obtain ⟨k1, k2, k3⟩ := key a ha (hi2 _ hax) (hpos _ hax)
          obtain ⟨-, d2⟩ := c5 a (by rw [hL1]; exact ha)
          rw [k3, hcell a ha] at d2
          have hmin : listMin (cellUsed xa) / 1000 < meanDiff ((geo xa).getD a default).values / 2 := by
            have hmem : meanDiff ((geo xa).getD a default).values ∈ cellUsed xa := by
              rw [hc]; exact List.mem_map.mpr ⟨_, hax, rfl⟩
            have := C01.listMin_le_mem _ _ hmem
            have := hpos _ hax
            linarith
          have huniq := C01.multiple_unique _ _ _ (hpos _ hax) hmin (m.nAt a : Int)
            ((((geo xa).getD a default).values.length : Nat) : Int) (by exact_mod_cast d2)
            (by push_cast; rw [sub_self, abs_zero]; exact le_trans (abs_nonneg _) d2)
          have e : m.n[a] = m.nAt a := by
            unfold Mesh.nAt; rw [List.getD_eq_getElem?_getD, List.getElem?_eq_getElem h1]; rfl
          rw [e, List.getElem_map]
          have : ((geo xa).getD a default) = (geo xa)[a] := by
            rw [List.getD_eq_getElem?_getD, List.getElem?_eq_getElem ha]; rfl
          rw [← this]
          exact_mod_cast huniq
      have hreg := key2 hi2 hpos
      cases m with
      | mk reg n bc subs =>
        simp only at c1 c2 c3 hn
        subst c2 c3 hn
        rw [c1, hreg]
        rfl
  · rintro ⟨⟨h0, hdup, hsh, hax⟩, rfl⟩
    have hpos : ∀ ax ∈ geo xa, 0 < meanDiff ax.values := by
      intro ax hm
      obtain ⟨h2, -, hlt⟩ := hax ax hm
      have := span_eq _ h2
      have hN : (2 : Rat) ≤ (ax.values.length : Rat) := by exact_mod_cast h2
      by_contra hc0
      have : meanDiff ax.values ≤ 0 := not_lt.mp hc0
      nlinarith
    have hLpos : 0 < (geo xa).length := List.length_pos_iff.mpr h0
    have hne : ∀ p ∈ List.zip (geo xa) (cellUsed xa), p.1.values ≠ [] := by
      intro p hp he
      have := (hax p.1 (List.of_mem_zip hp).1).1
      rw [he] at this; simp at this
    have hinv : (regionUsed xa).Inv := by
      refine ⟨by simp [regionUsed, hL1, hLpos], by simp [regionUsed], by simp [regionUsed, hL1],
        ?_, hdup, ?_⟩
      · show (unitsUsed xa).length = _
        unfold unitsUsed
        split <;> simp [regionUsed, hL1]
      · intro a ha
        have ha' : a < (geo xa).length := by simpa [regionUsed, hL1] using ha
        have hm : (geo xa).getD a default ∈ geo xa := getD_mem _ _ _ ha'
        obtain ⟨k1, k2, k3⟩ := key a ha' (hax _ hm).1 (hpos _ hm)
        have hN : (2 : Rat) ≤ (((geo xa).getD a default).values.length : Rat) := by exact_mod_cast (hax _ hm).1
        have := hpos _ hm
        have : 0 < (regionUsed xa).edge a := by rw [k3]; positivity
        unfold Region.edge at this
        linarith
    refine ⟨fun ax hm => (hax ax hm).2.1, fun _ => ⟨hsh, fun ax hm => (hax ax hm).1⟩, fun _ => hne, fun _ => hne,
      ⟨by rw [hL1, hL2], by rw [hL1]; omega, hL1.symm, hdup, ?_⟩, ⟨by rw [hLc, hL1], ?_, ?_⟩, ?_, rfl, rfl, ?_, ?_⟩
    · intro a ha
      rw [hL1] at ha
      have hm : (geo xa).getD a default ∈ geo xa := getD_mem _ _ _ ha
      obtain ⟨k1, k2, k3⟩ := key a ha (hax _ hm).1 (hpos _ hm)
      have hN : (2 : Rat) ≤ (((geo xa).getD a default).values.length : Rat) := by exact_mod_cast (hax _ hm).1
      have hp := hpos _ hm
      have : 0 < (regionUsed xa).edge a := by rw [k3]; positivity
      unfold Region.edge at this
      rw [k1, k2] at this
      intro heq; rw [heq] at this; linarith
    · intro c hcm
      rw [hc] at hcm
      obtain ⟨ax, hm, rfl⟩ := List.mem_map.mp hcm
      exact hpos ax hm
    · intro a ha
      rw [hL1] at ha
      have hm : (geo xa).getD a default ∈ geo xa := getD_mem _ _ _ ha
      obtain ⟨k1, k2, k3⟩ := key a ha (hax _ hm).1 (hpos _ hm)
      have hN : (2 : Rat) ≤ (((geo xa).getD a default).values.length : Rat) := by exact_mod_cast (hax _ hm).1
      have hp := hpos _ hm
      have hb0 := C01.band_nonneg (regionUsed xa) hinv defaultTol_nonneg ((regionUsed xa).lo a + (cellUsed xa).getD a 0)
      rw [k3, hcell a ha]
      rw [hcell a ha] at hb0
      have : meanDiff ((geo xa).getD a default).values
          - (((geo xa).getD a default).values.length : Rat) * meanDiff ((geo xa).getD a default).values ≤ 0 := by nlinarith
      linarith
    · -- region
      exact (key2 (fun ax hm => (hax ax hm).1) hpos).symm
    · show ((geo xa).map fun a => a.values.length).length = _
      rw [List.length_map, hL1]
    · intro a ha
      rw [hL1] at ha
      have hm : (geo xa).getD a default ∈ geo xa := getD_mem _ _ _ ha
      obtain ⟨k1, k2, k3⟩ := key a ha (hax _ hm).1 (hpos _ hm)
      rw [bareMesh_nAt xa a ha]
      constructor
      · have := (hax _ hm).1; omega
      · rw [k3, hcell a ha, sub_self, abs_zero]
        have : 0 ≤ listMin (cellUsed xa) := by
          apply listMin_nonneg
          intro y hy
          rw [hc] at hy
          obtain ⟨ax, hmm, rfl⟩ := List.mem_map.mp hy
          exact (hpos ax hmm).le
        linarith

end
end DFV.C17
