import DFV.Lemmas.C06Cum
import DFV.Model.C06Hist
/-! In-place histories (C06): what one in-place `scale` / `translate` step does to the mesh
geometry (`hstepM_spec`), and what a whole history does to the cell lengths (`runH_spec`). -/
namespace DFV.C06
open DFV DFV.T

theorem ratProd_tab_mul (k : Nat) (f g : Nat → Rat) :
    ratProd (tab k fun a => f a * g a) = ratProd (tab k f) * ratProd (tab k g) := by
  induction k with
  | zero => simp [tab, ratProd]
  | succ k ih =>
    rw [tab_succ, tab_succ, tab_succ, ratProd_append, ratProd_append, ratProd_append, ih]
    ring

theorem ratProd_tab_one (k : Nat) : ratProd (tab k fun _ => (1 : Rat)) = 1 := by
  induction k with
  | zero => simp [tab, ratProd]
  | succ k ih => rw [tab_succ, ratProd_append, ih]; ring

/-- geometry of a region after an in-place `scale`: same names, every edge multiplied by the
absolute value of its factor -/
theorem scaleR_inplace_spec (r : Region) (hr : r.Inv) (f : Factor) (ref : Option (List Rat)) (r' ret : Region)
    (h : scaleR r f ref true = .ok (r', ret)) :
    r'.Inv ∧ r'.dims = r.dims ∧ r'.pmin.length = r.pmin.length ∧
    ∀ a, a < r.ndim → r'.edge a = absR (f.at a) * r.edge a := by
  obtain ⟨hpos, hmax, hdims, hunits, hdup, hlt⟩ := hr
  unfold scaleR at h
  split at h
  · cases h
  · split at h
    · cases h
    · simp only [if_true] at h
      split at h
      · cases h
      · rename_i hchk
        injection h with h
        injection h with h1 h2
        have hchk' : ∀ a, a < r.ndim → scaleHi r f (ref.getD r.center) a - scaleLo r f (ref.getD r.center) a ≠ 0 := by
          have : allLt r.ndim (fun a => decide (scaleHi r f (ref.getD r.center) a - scaleLo r f (ref.getD r.center) a ≠ 0)) = true := by
            simpa using hchk
          rw [allLt_iff] at this
          intro a ha
          simpa using this a ha
        subst h1
        have hlo : ∀ a, a < r.ndim → Region.lo { r with
            pmin := tab r.ndim fun a => min (scaleLo r f (ref.getD r.center) a) (scaleHi r f (ref.getD r.center) a),
            pmax := tab r.ndim fun a => max (scaleLo r f (ref.getD r.center) a) (scaleHi r f (ref.getD r.center) a) } a
            = min (scaleLo r f (ref.getD r.center) a) (scaleHi r f (ref.getD r.center) a) := by
          intro a ha
          simp only [Region.lo]
          rw [getD_tab _ _ _ _ ha]
        have hhi : ∀ a, a < r.ndim → Region.hi { r with
            pmin := tab r.ndim fun a => min (scaleLo r f (ref.getD r.center) a) (scaleHi r f (ref.getD r.center) a),
            pmax := tab r.ndim fun a => max (scaleLo r f (ref.getD r.center) a) (scaleHi r f (ref.getD r.center) a) } a
            = max (scaleLo r f (ref.getD r.center) a) (scaleHi r f (ref.getD r.center) a) := by
          intro a ha
          simp only [Region.hi]
          rw [getD_tab _ _ _ _ ha]
        have hnd : r.ndim = r.pmin.length := rfl
        refine ⟨⟨?_, ?_, ?_, ?_, hdup, ?_⟩, rfl, ?_, ?_⟩
        · simp only [tab_length]; rw [hnd]; exact hpos
        · simp only [tab_length]
        · simp only [tab_length]; rw [hnd]; exact hdims
        · simp only [tab_length]; rw [hnd]; exact hunits
        · intro a ha
          have ha' : a < r.ndim := by simpa using ha
          rw [hlo a ha', hhi a ha']
          have := hchk' a ha'
          rcases lt_or_gt_of_ne (sub_ne_zero.mp this) with hl | hl
          · rw [min_eq_right (le_of_lt hl), max_eq_left (le_of_lt hl)]; exact hl
          · rw [min_eq_left (le_of_lt hl), max_eq_right (le_of_lt hl)]; exact hl
        · simp only [tab_length]; rfl
        · intro a ha
          unfold Region.edge
          rw [hlo a ha, hhi a ha, max_sub_min_eq_abs]
          have he : 0 < r.hi a - r.lo a := by have := hlt a ha; linarith
          have : scaleHi r f (ref.getD r.center) a - scaleLo r f (ref.getD r.center) a = (r.hi a - r.lo a) * f.at a := by
            unfold scaleHi Region.edge; ring
          rw [this, abs_mul, abs_of_pos he, absR_eq_abs]; ring

/-- geometry of a region after an in-place `translate`: same names, same edges -/
theorem translateR_inplace_spec (r : Region) (hr : r.Inv) (v : List Rat) (r' ret : Region)
    (h : translateR r v true = .ok (r', ret)) :
    r'.Inv ∧ r'.dims = r.dims ∧ r'.pmin.length = r.pmin.length ∧
    ∀ a, a < r.ndim → r'.edge a = r.edge a := by
  obtain ⟨hpos, hmax, hdims, hunits, hdup, hlt⟩ := hr
  unfold translateR at h
  split at h
  · cases h
  · simp only [if_true] at h
    split at h
    · cases h
    · injection h with h
      injection h with h1 h2
      subst h1
      have hnd : r.ndim = r.pmin.length := rfl
      refine ⟨⟨?_, ?_, ?_, ?_, hdup, ?_⟩, rfl, ?_, ?_⟩
      · simp only [tab_length]; rw [hnd]; exact hpos
      · simp only [tab_length]
      · simp only [tab_length]; rw [hnd]; exact hdims
      · simp only [tab_length]; rw [hnd]; exact hunits
      · intro a ha
        have ha' : a < r.ndim := by simpa using ha
        simp only [Region.lo, Region.hi]
        rw [getD_tab _ _ _ _ ha', getD_tab _ _ _ _ ha']
        have := hlt a ha'
        unfold Region.lo Region.hi at this
        linarith
      · simp only [tab_length]; rfl
      · intro a ha
        simp only [Region.edge, Region.lo, Region.hi]
        rw [getD_tab _ _ _ _ ha, getD_tab _ _ _ _ ha]
        ring

/-- the mesh object after one in-place step: same cell counts and names, every edge (hence
every cell length) multiplied by the step's factor of that axis -/
theorem hstepM_spec (m : Mesh) (hm : m.Inv) (s : HStep) (m' : Mesh) (h : hstepM m s = .ok m') :
    m'.Inv ∧ m'.n = m.n ∧ m'.region.dims = m.region.dims ∧ m'.ndim = m.ndim ∧
    ∀ a, a < m.ndim → m'.cellAt a = stepFac s a * m.cellAt a := by
  have key : ∀ (r' : Region) (subs' : List (String × Region)),
      r'.Inv → r'.dims = m.region.dims → r'.pmin.length = m.region.pmin.length →
      (∀ a, a < m.ndim → r'.edge a = stepFac s a * m.region.edge a) →
      m' = { m with region := r', subs := subs' } →
      m'.Inv ∧ m'.n = m.n ∧ m'.region.dims = m.region.dims ∧ m'.ndim = m.ndim ∧
      ∀ a, a < m.ndim → m'.cellAt a = stepFac s a * m.cellAt a := by
    intro r' subs' hinv hd hl he hm'
    subst hm'
    refine ⟨⟨hinv, ?_, ?_⟩, rfl, hd, hl, ?_⟩
    · show m.n.length = r'.pmin.length
      rw [hl]; exact hm.2.1
    · intro a ha
      exact hm.2.2 a (by show a < m.region.pmin.length; rw [← hl]; exact ha)
    · intro a ha
      show r'.edge a / (m.nAt a : Rat) = _
      rw [he a ha]
      unfold Mesh.cellAt
      ring
  cases s with
  | scaleMesh f ref =>
    simp only [hstepM, stepM] at h
    split at h
    · cases h
    · rename_i mm ret hstep
      injection h with h; subst h
      split at hstep
      · cases hstep
      · cases hstep
      · rename_i r0 r' subs' hr hsubs
        simp only [if_true] at hstep
        injection hstep with hstep
        injection hstep with h1 _
        obtain ⟨hinv, hd, hl, he⟩ := scaleR_inplace_spec m.region hm.1 f ref r0 r' hr
        have hrr : r0 = r' := by
          unfold scaleR at hr
          split at hr
          · cases hr
          · split at hr
            · cases hr
            · simp only [if_true] at hr
              split at hr
              · cases hr
              · injection hr with hr; injection hr with ha hb; rw [← ha, ← hb]
        subst hrr
        exact key r0 subs' hinv hd hl he h1.symm
  | scaleRegion f ref =>
    simp only [hstepM] at h
    split at h
    · cases h
    · rename_i r' ret hr
      injection h with h
      obtain ⟨hinv, hd, hl, he⟩ := scaleR_inplace_spec m.region hm.1 f ref r' ret hr
      exact key r' m.subs hinv hd hl he h.symm
  | translateMesh v =>
    simp only [hstepM, stepM] at h
    split at h
    · cases h
    · rename_i mm ret hstep
      injection h with h; subst h
      split at hstep
      · cases hstep
      · cases hstep
      · rename_i r0 r' subs' hr hsubs
        simp only [if_true] at hstep
        injection hstep with hstep
        injection hstep with h1 _
        obtain ⟨hinv, hd, hl, he⟩ := translateR_inplace_spec m.region hm.1 v r0 r' hr
        have hrr : r0 = r' := by
          unfold translateR at hr
          split at hr
          · cases hr
          · simp only [if_true] at hr
            split at hr
            · cases hr
            · injection hr with hr; injection hr with ha hb; rw [← ha, ← hb]
        subst hrr
        exact key r0 subs' hinv hd hl (fun a ha => by rw [he a ha]; simp [stepFac]) h1.symm
  | translateRegion v =>
    simp only [hstepM] at h
    split at h
    · cases h
    · rename_i r' ret hr
      injection h with h
      obtain ⟨hinv, hd, hl, he⟩ := translateR_inplace_spec m.region hm.1 v r' ret hr
      exact key r' m.subs hinv hd hl (fun a ha => by rw [he a ha]; simp [stepFac]) h.symm

/-- in-place translation of a well-formed region by a vector of the right length is accepted -/
theorem translateR_inplace_ok (r : Region) (hr : ∀ a, a < r.ndim → r.lo a < r.hi a) (v : List Rat)
    (hv : v.length = r.ndim) : ∃ r', translateR r v true = .ok (r', r') := by
  have hchk : allLt r.ndim (fun a => decide ((r.hi a + v.getD a 0) - (r.lo a + v.getD a 0) ≠ 0)) = true := by
    rw [allLt_iff]
    intro a ha
    have := hr a ha
    simp only [decide_eq_true_eq]
    intro h0
    linarith
  unfold translateR
  simp only [hv, ne_eq, not_true_eq_false, if_false, if_true, hchk, Bool.not_true, Bool.false_eq_true]
  exact ⟨_, rfl⟩

/-- in-place scaling of a well-formed region by non-zero factors is accepted -/
theorem scaleR_inplace_ok (r : Region) (hr : ∀ a, a < r.ndim → r.lo a < r.hi a) (f : Factor) (ref : Option (List Rat))
    (hf : f.okFor r.ndim = true) (href : (ref.getD r.center).length = r.ndim)
    (hnz : ∀ a, a < r.ndim → f.at a ≠ 0) :
    ∃ r', scaleR r f ref true = .ok (r', r') := by
  have hchk : allLt r.ndim (fun a => decide (scaleHi r f (ref.getD r.center) a - scaleLo r f (ref.getD r.center) a ≠ 0)) = true := by
    rw [allLt_iff]
    intro a ha
    have hlt := hr a ha
    have he : r.edge a ≠ 0 := by unfold Region.edge; intro h0; linarith
    simp only [decide_eq_true_eq]
    have : scaleHi r f (ref.getD r.center) a - scaleLo r f (ref.getD r.center) a = r.edge a * f.at a := by
      unfold scaleHi; ring
    rw [this]
    exact mul_ne_zero he (hnz a ha)
  unfold scaleR
  simp only [hf, Bool.not_true, Bool.false_eq_true, if_false, href, ne_eq, not_true_eq_false, if_true, hchk]
  exact ⟨_, rfl⟩

/-- the in-place steps on the region object are accepted on every well-formed mesh: any
translation vector of the right length, any non-zero scale factors -/
theorem hstepM_region_ok (m : Mesh) (hm : m.Inv) :
    (∀ v : List Rat, v.length = m.ndim → ∃ m', hstepM m (.translateRegion v) = .ok m') ∧
    (∀ (f : Factor) (ref : Option (List Rat)), f.okFor m.ndim = true → (ref.getD m.region.center).length = m.ndim →
      (∀ a, a < m.ndim → f.at a ≠ 0) → ∃ m', hstepM m (.scaleRegion f ref) = .ok m') := by
  constructor
  · intro v hv
    obtain ⟨r', hr'⟩ := translateR_inplace_ok m.region hm.1.2.2.2.2.2 v hv
    exact ⟨{ m with region := r' }, by simp only [hstepM, hr']⟩
  · intro f ref hf href hnz
    obtain ⟨r', hr'⟩ := scaleR_inplace_ok m.region hm.1.2.2.2.2.2 f ref hf href hnz
    exact ⟨{ m with region := r' }, by simp only [hstepM, hr']⟩

theorem mapSubs_ok (subs : List (String × Region)) (f : Region → M (Region × Region))
    (h : ∀ p ∈ subs, ∃ r', f p.2 = .ok (r', r')) : ∃ subs', mapSubs subs f = .ok subs' := by
  induction subs with
  | nil => exact ⟨[], rfl⟩
  | cons p rest ih =>
    obtain ⟨r', hr'⟩ := h p (by simp)
    obtain ⟨t, ht⟩ := ih (fun q hq => h q (by simp [hq]))
    refine ⟨(p.1, r') :: t, ?_⟩
    unfold mapSubs at ht ⊢
    rw [List.mapM_cons, hr', ht]
    rfl

/-- the in-place steps on the mesh object (region and every subregion) are accepted on every
well-formed mesh whose subregions fit it -/
theorem hstepM_mesh_ok (m : Mesh) (hm : m.Inv) (hfit : SubsFit m) :
    (∀ v : List Rat, v.length = m.ndim → ∃ m', hstepM m (.translateMesh v) = .ok m') ∧
    (∀ (f : Factor) (ref : Option (List Rat)), f.okFor m.ndim = true → (ref.getD m.region.center).length = m.ndim →
      (∀ a, a < m.ndim → f.at a ≠ 0) → ∃ m', hstepM m (.scaleMesh f ref) = .ok m') := by
  have hsub : ∀ p ∈ m.subs, p.2.ndim = m.ndim ∧ ∀ a, a < p.2.ndim → p.2.lo a < p.2.hi a := by
    intro p hp
    have hs := hfit p hp
    refine ⟨hs.1, ?_⟩
    intro a ha
    exact subFits_lo_lt_hi m hm p.2 hs a (by rw [← hs.1]; exact ha)
  constructor
  · intro v hv
    obtain ⟨r', hr'⟩ := translateR_inplace_ok m.region hm.1.2.2.2.2.2 v hv
    obtain ⟨subs', hs'⟩ := mapSubs_ok m.subs (fun s => translateR s v true) (by
      intro p hp
      obtain ⟨h1, h2⟩ := hsub p hp
      exact translateR_inplace_ok p.2 h2 v (by rw [h1]; exact hv))
    exact ⟨{ m with region := r', subs := subs' }, by simp only [hstepM, stepM, hr', hs', if_true]⟩
  · intro f ref hf href hnz
    obtain ⟨r', hr'⟩ := scaleR_inplace_ok m.region hm.1.2.2.2.2.2 f ref hf href hnz
    obtain ⟨subs', hs'⟩ := mapSubs_ok m.subs (fun s => scaleR s f (subRef m ref) true) (by
      intro p hp
      obtain ⟨h1, h2⟩ := hsub p hp
      refine scaleR_inplace_ok p.2 h2 f (subRef m ref) (by rw [h1]; exact hf) ?_ (by rw [h1]; exact hnz)
      show (ref.getD m.region.center).length = _
      rw [h1]; exact href)
    exact ⟨{ m with region := r', subs := subs' }, by simp only [hstepM, stepM, hr', hs', if_true]⟩

/-- the field after a history of in-place steps: well formed, same arrays, same cell counts
and names, every cell length multiplied by the accumulated factor of its axis -/
theorem runH_spec (steps : List HStep) : ∀ (f : Fld), WF f →
    WF (runH f steps) ∧ (runH f steps).data = f.data ∧ (runH f steps).nvdim = f.nvdim ∧
    (runH f steps).mesh.n = f.mesh.n ∧ (runH f steps).mesh.region.dims = f.mesh.region.dims ∧
    (runH f steps).mesh.ndim = f.mesh.ndim ∧
    ∀ a, a < f.mesh.ndim → (runH f steps).mesh.cellAt a = histFac f.mesh a steps * f.mesh.cellAt a := by
  induction steps with
  | nil =>
    intro f hf
    exact ⟨hf, rfl, rfl, rfl, rfl, rfl, fun a _ => by simp [runH, histFac]⟩
  | cons s rest ih =>
    intro f hf
    cases hs : hstepM f.mesh s with
    | error e =>
      have hstep : hstep f s = f := by simp only [hstep, hs]
      simp only [runH, histFac, hs, hstep]
      exact ih f hf
    | ok m' =>
      obtain ⟨hinv, hn, hd, hnd, hc⟩ := hstepM_spec f.mesh hf.1 s m' hs
      have hstep : hstep f s = { f with mesh := m' } := by simp only [hstep, hs]
      have hwf : WF { f with mesh := m' } := ⟨hinv, by show f.data.shape = m'.n; rw [hn]; exact hf.2⟩
      obtain ⟨h1, h2, h3, h4, h5, h6, h7⟩ := ih { f with mesh := m' } hwf
      simp only [runH, histFac, hs, hstep]
      refine ⟨h1, h2, h3, by rw [h4]; exact hn, by rw [h5]; exact hd, by rw [h6]; exact hnd, ?_⟩
      intro a ha
      rw [h7 a (by show a < m'.ndim; rw [hnd]; exact ha)]
      show histFac m' a rest * m'.cellAt a = _
      rw [hc a ha]; ring

theorem dV_runH (f : Fld) (hf : WF f) (steps : List HStep) :
    dV (runH f steps).mesh = histVol f.mesh steps * dV f.mesh := by
  obtain ⟨_, _, _, _, _, hnd, hc⟩ := runH_spec steps f hf
  unfold dV histVol Mesh.cell
  rw [hnd, ← ratProd_tab_mul]
  congr 1
  exact tab_congr _ _ _ hc

theorem dim2index_congr (r r' : Region) (h : r'.dims = r.dims) (d : String) : r'.dim2index d = r.dim2index d := by
  unfold Region.dim2index; rw [h]

/-- the spec value of a directional / cumulative integral after a history is the accumulated
factor of that axis times the value before -/
theorem ival_runH_name (f : Fld) (hf : WF f) (steps : List HStep) (d : String) (ax : Nat)
    (hax : f.mesh.region.dim2index d = .ok ax) (cum : Bool) (i : List Nat) (c : Nat) :
    ival (runH f steps) (.name d) cum i c = histFac f.mesh ax steps * ival f (.name d) cum i c := by
  obtain ⟨_, hdata, _, hn, hdims, _, hc⟩ := runH_spec steps f hf
  obtain ⟨haxd, _⟩ := dim2index_ok _ _ _ hax
  have haxlt : ax < f.mesh.ndim := by
    show ax < f.mesh.region.pmin.length
    rw [← hf.1.1.2.2.1]; exact haxd
  have hnat : (runH f steps).mesh.nAt ax = f.mesh.nAt ax := by unfold Mesh.nAt; rw [hn]
  simp only [ival, dim2index_congr _ _ hdims, hax, hdata, hc ax haxlt, hnat]
  cases cum with
  | true => simp only [if_true]; ring
  | false => simp only [Bool.false_eq_true, if_false]; ring

theorem ishape_runH (f : Fld) (hf : WF f) (steps : List HStep) (dir : Dir) (cum : Bool) :
    ishape (runH f steps) dir cum = ishape f dir cum := by
  obtain ⟨_, _, _, hn, hdims, _, _⟩ := runH_spec steps f hf
  cases dir with
  | name d => simp only [ishape, dim2index_congr _ _ hdims, hn]
  | none => rfl
  | names ds => rfl
  | other => rfl

theorem mval_runH (f : Fld) (hf : WF f) (steps : List HStep) (dir : Dir) (i : List Nat) (c : Nat) :
    mval (runH f steps) dir i c = mval f dir i c := by
  obtain ⟨_, hdata, _, _, hdims, _, _⟩ := runH_spec steps f hf
  cases dir with
  | none => simp only [mval, hdata]
  | name d => simp only [mval, dim2index_congr _ _ hdims, hdata]
  | names ds => simp only [mval, hdims, dimIndices_congr _ _ hdims ds, hdata]
  | other => rfl

theorem mshape_runH (f : Fld) (hf : WF f) (steps : List HStep) (dir : Dir) :
    mshape (runH f steps) dir = mshape f dir := by
  obtain ⟨_, hdata, _, _, hdims, _, _⟩ := runH_spec steps f hf
  cases dir with
  | none => rfl
  | name d => simp only [mshape, dim2index_congr _ _ hdims, hdata]
  | names ds => simp only [mshape, hdims, dimIndices_congr _ _ hdims ds, hdata]
  | other => rfl

/-- a history of translations only multiplies nothing -/
theorem histFac_translations (steps : List HStep) (hall : ∀ s ∈ steps, ∀ a, stepFac s a = 1) :
    ∀ (m : Mesh) (a : Nat), histFac m a steps = 1 := by
  induction steps with
  | nil => intro m a; rfl
  | cons s rest ih =>
    intro m a
    have ih' := ih (fun s' hs' => hall s' (by simp [hs']))
    simp only [histFac]
    split
    · rw [hall s (by simp) a, ih']; ring
    · exact ih' m a

end DFV.C06
