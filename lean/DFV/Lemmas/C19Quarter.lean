import DFV.Lemmas.C19Tcd
import DFV.Lemmas.C19Conv
import DFV.Lemmas.Index
/-!
# C19 — a quarter turn of the sample

`SpTurn f g`: `g` is `f` with the sample turned by a quarter turn — cell `[i, j]` of `g` holds
what cell `[j, n₁−1−i]` of `f` holds (the index map of `np.rot90(·, 1)`), counts, cell edges and
periodic flags of the two axes swapped.  `QTurn Q f g`: in addition the vectors are rotated by `Q`.

Results: along the turned axes `Field.diff` gives `∂₀' = −∂₁`, `∂₁' = ∂₀` at the source cell (every
mask, open or periodic — `C04.diffLine'_reverse`); the neighbours `(E, N, W, S)` of a cell of `g`
are the neighbours `(S, E, N, W)` of the source cell, so the list of Berg–Lüscher triangles is the
source cell's list rotated by one place; hence both densities take the source cell's value, and
the charge (a sum over all cells) is unchanged.
-/
namespace DFV.C19
open DFV

/-! ## small list facts -/

theorem tab_reverse {α} (n : Nat) (F : Nat → α) : (tab n F).reverse = tab n fun t => F (n - 1 - t) := by
  apply List.ext_getElem
  · simp [tab]
  · intro i h1 h2
    simp only [tab, List.length_reverse, List.length_map, List.length_range] at h1
    simp only [tab, List.getElem_reverse, List.getElem_map, List.getElem_range, List.length_map, List.length_range]

theorem getD_reverse_map (l : List Rat) (φ : Rat → Rat) (i : Nat) (hi : i < l.length) :
    ((l.map φ).reverse).getD i 0 = φ (l.getD (l.length - 1 - i) 0) := by
  rw [List.getD_eq_getElem?_getD, List.getD_eq_getElem?_getD, List.getElem?_reverse (by simpa using hi)]
  simp only [List.length_map, List.getElem?_map]
  rw [List.getElem?_eq_getElem (by omega)]
  rfl

theorem lsum_append (a b : List Rat) : lsum (a ++ b) = lsum a + lsum b := by
  induction a with
  | nil => simp [lsum]
  | cons x xs ih => simp only [List.cons_append, lsum, ih]; ring

/-! ## components -/

/-- component `c` of a 3-vector -/
def compV (v : V3) (c : Nat) : Rat := if c = 0 then v.x else if c = 1 then v.y else v.z

theorem getD_eq_compV (f : Fld) (i : List Nat) (c : Nat) (hc : c < 3) :
    (f.data.get i).getD c 0 = compV (cellV f i) c := by
  rcases (by omega : c = 0 ∨ c = 1 ∨ c = 2) with rfl | rfl | rfl <;> rfl

/-! ## the relation -/

/-- `g` is `f` with the sample turned by a quarter turn (index map of `np.rot90(·, 1)` on a 2-d array) -/
structure SpTurn (f g : Fld) : Prop where
  n0 : g.mesh.nAt 0 = f.mesh.nAt 1
  n1 : g.mesh.nAt 1 = f.mesh.nAt 0
  c0 : g.mesh.cellAt 0 = f.mesh.cellAt 1
  c1 : g.mesh.cellAt 1 = f.mesh.cellAt 0
  p0 : periodic g 0 = periodic f 1
  p1 : periodic g 1 = periodic f 0
  val : ∀ i j, i < f.mesh.nAt 1 → j < f.mesh.nAt 0 → cellV g [i, j] = cellV f [j, f.mesh.nAt 1 - 1 - i]
  ok : ∀ i j, i < f.mesh.nAt 1 → j < f.mesh.nAt 0 → g.valid.get [i, j] = f.valid.get [j, f.mesh.nAt 1 - 1 - i]

/-- the sample turned by a quarter turn and every vector rotated by `Q` -/
def QTurn (Q : M3) (f g : Fld) : Prop := SpTurn (rotF Q f) g

theorem SpTurn.orientation (sq : Rat → Rat) {f g : Fld} (h : SpTurn f g) :
    SpTurn (orientation sq f) (orientation sq g) := by
  refine ⟨h.n0, h.n1, h.c0, h.c1, h.p0, h.p1, ?_, h.ok⟩
  intro i j hi hj
  rw [cellV_orientation, cellV_orientation, h.val i j hi hj]
  rfl

/-! ## derivatives along the turned axes -/

/-- along the first axis of the turned field the lines are the source's second-axis lines reversed -/
theorem Dc_turn0 {f g : Fld} (h : SpTurn f g) (order : Nat) (r : Bool) (c : Nat) (hc : c < 3) (i j : Nat)
    (hi : i < f.mesh.nAt 1) (hj : j < f.mesh.nAt 0) :
    Dc g 0 order r c [i, j] = C04.revSign order * Dc f 1 order r c [j, f.mesh.nAt 1 - 1 - i] := by
  unfold Dc NDA.line
  simp only [setAt, List.getD_cons_zero, List.getD_cons_succ]
  rw [h.p0, h.c0, h.n0]
  have e : (tab (f.mesh.nAt 1) fun t => ((g.data.get [t, j]).getD c 0, g.valid.get [t, j]))
      = (tab (f.mesh.nAt 1) fun t => ((f.data.get [j, t]).getD c 0, f.valid.get [j, t])).reverse := by
    rw [tab_reverse]
    apply tab_congr
    intro t ht
    rw [getD_eq_compV g _ c hc, getD_eq_compV f _ c hc, h.val t j ht hj, h.ok t j ht hj]
  rw [e, C04.diffLine'_reverse]
  have hl : (C04.diffLine' (periodic f 1) r order (f.mesh.cellAt 1)
      (tab (f.mesh.nAt 1) fun t => ((f.data.get [j, t]).getD c 0, f.valid.get [j, t]))).length = f.mesh.nAt 1 := by
    rw [C04.diffLine'_length, tab_length]
  rw [getD_reverse_map _ _ i (by rw [hl]; exact hi), hl]

/-- along the second axis of the turned field the lines are the source's first-axis lines -/
theorem Dc_turn1 {f g : Fld} (h : SpTurn f g) (order : Nat) (r : Bool) (c : Nat) (hc : c < 3) (i j : Nat)
    (hi : i < f.mesh.nAt 1) (_hj : j < f.mesh.nAt 0) :
    Dc g 1 order r c [i, j] = Dc f 0 order r c [j, f.mesh.nAt 1 - 1 - i] := by
  unfold Dc NDA.line
  simp only [setAt, List.getD_cons_zero, List.getD_cons_succ]
  rw [h.p1, h.c1, h.n1]
  have e : (tab (f.mesh.nAt 0) fun t => ((g.data.get [i, t]).getD c 0, g.valid.get [i, t]))
      = tab (f.mesh.nAt 0) fun t => ((f.data.get [t, f.mesh.nAt 1 - 1 - i]).getD c 0, f.valid.get [t, f.mesh.nAt 1 - 1 - i]) := by
    apply tab_congr
    intro t ht
    rw [getD_eq_compV g _ c hc, getD_eq_compV f _ c hc, h.val i t hi ht, h.ok i t hi ht]
  rw [e]

theorem Dv_turn0 {f g : Fld} (h : SpTurn f g) (r : Bool) (i j : Nat) (hi : i < f.mesh.nAt 1) (hj : j < f.mesh.nAt 0) :
    Dv g 0 1 r [i, j] = (Dv f 1 1 r [j, f.mesh.nAt 1 - 1 - i]).neg := by
  unfold Dv V3.neg
  rw [Dc_turn0 h 1 r 0 (by omega) i j hi hj, Dc_turn0 h 1 r 1 (by omega) i j hi hj, Dc_turn0 h 1 r 2 (by omega) i j hi hj]
  simp [C04.revSign]

theorem Dv_turn1 {f g : Fld} (h : SpTurn f g) (r : Bool) (i j : Nat) (hi : i < f.mesh.nAt 1) (hj : j < f.mesh.nAt 0) :
    Dv g 1 1 r [i, j] = Dv f 0 1 r [j, f.mesh.nAt 1 - 1 - i] := by
  unfold Dv
  rw [Dc_turn1 h 1 r 0 (by omega) i j hi hj, Dc_turn1 h 1 r 1 (by omega) i j hi hj, Dc_turn1 h 1 r 2 (by omega) i j hi hj]

/-- the continuous density of the turned field at `[i, j]` is the source's at `[j, n₁−1−i]` — every mask -/
theorem tcdCSpec_turn (sq : Rat → Rat) (pi : Rat) {f g : Fld} (h : SpTurn f g) (i j : Nat)
    (hi : i < f.mesh.nAt 1) (hj : j < f.mesh.nAt 0) :
    tcdCSpec sq pi g [i, j] = tcdCSpec sq pi f [j, f.mesh.nAt 1 - 1 - i] := by
  unfold tcdCSpec
  have ho := h.orientation sq
  have hm : (orientation sq f).mesh = f.mesh := rfl
  have e0 := Dv_turn0 ho true i j hi hj
  have e1 := Dv_turn1 ho true i j hi hj
  rw [hm] at e0 e1
  rw [e0, e1, h.val i j hi hj]
  simp only [V3.dot, V3.cross, V3.neg]
  ring

/-! ## Berg–Lüscher: the neighbours turn with the sample -/

theorem nbE_turn {o g : Fld} (h : SpTurn o g) (i j : Nat) (hi : i < o.mesh.nAt 1) (hj : j < o.mesh.nAt 0) :
    nbE g i j = nbS o j (o.mesh.nAt 1 - 1 - i) := by
  unfold nbE nbS
  rw [h.n0]
  by_cases hc : i + 1 < o.mesh.nAt 1
  · have e : o.mesh.nAt 1 - 1 - i - 1 = o.mesh.nAt 1 - 1 - (i + 1) := by omega
    have h1 : (1 ≤ o.mesh.nAt 1 - 1 - i) := by omega
    rw [h.ok (i + 1) j hc hj, h.val (i + 1) j hc hj, e]
    simp [hc, h1]
  · have h1 : ¬ (1 ≤ o.mesh.nAt 1 - 1 - i) := by omega
    simp [hc, h1]

theorem nbN_turn {o g : Fld} (h : SpTurn o g) (i j : Nat) (hi : i < o.mesh.nAt 1) (_hj : j < o.mesh.nAt 0) :
    nbN g i j = nbE o j (o.mesh.nAt 1 - 1 - i) := by
  unfold nbN nbE
  rw [h.n1]
  by_cases hc : j + 1 < o.mesh.nAt 0
  · rw [h.ok i (j + 1) hi hc, h.val i (j + 1) hi hc]
  · simp [hc]

theorem nbW_turn {o g : Fld} (h : SpTurn o g) (i j : Nat) (hi : i < o.mesh.nAt 1) (hj : j < o.mesh.nAt 0) :
    nbW g i j = nbN o j (o.mesh.nAt 1 - 1 - i) := by
  unfold nbW nbN
  by_cases hc : 1 ≤ i
  · have e : o.mesh.nAt 1 - 1 - (i - 1) = o.mesh.nAt 1 - 1 - i + 1 := by omega
    have h1 : o.mesh.nAt 1 - 1 - i + 1 < o.mesh.nAt 1 := by omega
    rw [h.ok (i - 1) j (by omega) hj, h.val (i - 1) j (by omega) hj, e]
    simp [hc, h1]
  · have h1 : ¬ (o.mesh.nAt 1 - 1 - i + 1 < o.mesh.nAt 1) := by omega
    simp [hc, h1]

theorem nbS_turn {o g : Fld} (h : SpTurn o g) (i j : Nat) (hi : i < o.mesh.nAt 1) (hj : j < o.mesh.nAt 0) :
    nbS g i j = nbW o j (o.mesh.nAt 1 - 1 - i) := by
  unfold nbS nbW
  by_cases hc : 1 ≤ j
  · rw [h.ok i (j - 1) hi (by omega), h.val i (j - 1) hi (by omega)]
  · simp [hc]

/-- the triangle list of a cell of the turned field is the source cell's list rotated by one place -/
theorem triangles_turn {o g : Fld} (h : SpTurn o g) (i j : Nat) (hi : i < o.mesh.nAt 1) (hj : j < o.mesh.nAt 0) :
    triangles g i j
      = tri? (cellV o [j, o.mesh.nAt 1 - 1 - i]) (nbS o j (o.mesh.nAt 1 - 1 - i)) (nbE o j (o.mesh.nAt 1 - 1 - i)) ++
        (tri? (cellV o [j, o.mesh.nAt 1 - 1 - i]) (nbE o j (o.mesh.nAt 1 - 1 - i)) (nbN o j (o.mesh.nAt 1 - 1 - i)) ++
         tri? (cellV o [j, o.mesh.nAt 1 - 1 - i]) (nbN o j (o.mesh.nAt 1 - 1 - i)) (nbW o j (o.mesh.nAt 1 - 1 - i)) ++
         tri? (cellV o [j, o.mesh.nAt 1 - 1 - i]) (nbW o j (o.mesh.nAt 1 - 1 - i)) (nbS o j (o.mesh.nAt 1 - 1 - i))) := by
  unfold triangles
  rw [nbE_turn h i j hi hj, nbN_turn h i j hi hj, nbW_turn h i j hi hj, nbS_turn h i j hi hj, h.val i j hi hj]
  simp only [List.append_assoc]

/-- TRIANGLE SUM: the Berg–Lüscher density of the turned field at `[i, j]` is the source's at
`[j, n₁−1−i]` — every mask, any leaf `Ω` (the same triangles are summed, in rotated order) -/
theorem tcdBLAt_turn (Om : Tri → Rat) {o g : Fld} (h : SpTurn o g) (i j : Nat) (hi : i < o.mesh.nAt 1) (hj : j < o.mesh.nAt 0) :
    tcdBLAt Om g i j = tcdBLAt Om o j (o.mesh.nAt 1 - 1 - i) := by
  have ha : triArea g.mesh = triArea o.mesh := by
    unfold triArea; rw [h.c0, h.c1]; ring
  have hs : lsum ((triangles g i j).map (blAngle Om)) = lsum ((triangles o j (o.mesh.nAt 1 - 1 - i)).map (blAngle Om)) := by
    rw [triangles_turn h i j hi hj]
    unfold triangles
    simp only [List.map_append, lsum_append]
    ring
  have hl : (triangles g i j).length = (triangles o j (o.mesh.nAt 1 - 1 - i)).length := by
    rw [triangles_turn h i j hi hj]
    unfold triangles
    simp only [List.length_append]
    omega
  unfold tcdBLAt
  rw [h.ok i j hi hj, ha, hs, hl]

/-! ## sums over all cells of a 2-d array -/

theorem lsum_flatMap_range (a : Nat) (F : Nat → List Rat) :
    lsum ((List.range a).flatMap F) = sumTo a fun i => lsum (F i) := by
  induction a with
  | zero => simp [lsum, sumTo]
  | succ a ih => rw [List.range_succ, List.flatMap_append, lsum_append, ih]; simp [sumTo]

theorem lsum_map_range (b : Nat) (F : Nat → Rat) : lsum ((List.range b).map F) = sumTo b F := by
  induction b with
  | zero => simp [lsum, sumTo]
  | succ b ih => rw [List.range_succ, List.map_append, lsum_append, ih]; simp [sumTo, lsum]

/-- the C-order sum over a 2-d shape as a double sum -/
theorem lsum_indicesC2 (a b : Nat) (F : List Nat → Rat) :
    lsum ((indicesC [a, b]).map F) = sumTo a fun i => sumTo b fun j => F [i, j] := by
  have e : indicesC [a, b] = productLastFastest [a, b] := (product_eq_unflatC [a, b]).symm
  rw [e]
  simp only [productLastFastest, List.map_cons, List.map_nil]
  rw [List.map_flatMap, lsum_flatMap_range]
  apply sumTo_congr
  intro i _
  rw [List.map_map, List.map_flatMap]
  simp only [List.map_cons, List.map_nil, Function.comp]
  rw [← List.map_eq_flatMap, lsum_map_range]

/-- summing `F` over the cells of the turned array = summing over the cells of the source -/
theorem sum_turn (n0 n1 : Nat) (F : Nat → Nat → Rat) :
    (sumTo n1 fun i => sumTo n0 fun j => F j (n1 - 1 - i)) = sumTo n0 fun a => sumTo n1 fun b => F a b := by
  rw [sumTo_reflect n1 (fun i => sumTo n0 fun j => F j i)]
  exact sumTo_comm n1 n0 (fun i j => F j i)

/-! ## both methods, and the charge -/

/-- the density value (either method) of the quarter-turned field at `[i, j]` is the source's at `[j, n₁−1−i]` -/
theorem tcdVal_turn (sq : Rat → Rat) (pi : Rat) (Om : Tri → Rat) (Q : M3) (hQ : Q.IsRot) {f g : Fld} (h : QTurn Q f g)
    (m : Method) (i j : Nat) (hi : i < f.mesh.nAt 1) (hj : j < f.mesh.nAt 0) :
    tcdVal sq pi Om g m [i, j] = tcdVal sq pi Om f m [j, f.mesh.nAt 1 - 1 - i] := by
  cases m with
  | continuous =>
    show tcdCSpec sq pi g [i, j] = tcdCSpec sq pi f _
    rw [tcdCSpec_turn sq pi h i j hi hj, tcdCSpec_rotF sq pi Q hQ]
    rfl
  | bergLuescher =>
    show tcdBLAt Om (orientation sq g) i j = tcdBLAt Om (orientation sq f) j (f.mesh.nAt 1 - 1 - i)
    rw [tcdBLAt_turn Om (h.orientation sq) i j hi hj, orientation_rotF sq Q hQ.1, tcdBLAt_rotF Om Q hQ]
    rfl
  | other => rfl

/-- the integral of a scalar field over a 2-d mesh as a double sum -/
theorem integrateAll_2d (a : Bool) (q : Fld) (n0 n1 : Nat) (hs : q.data.shape = [n0, n1]) (h2 : q.mesh.ndim = 2) :
    integrateAll a q = (sumTo n0 fun i => sumTo n1 fun j =>
      if a then absR ((q.data.get [i, j]).getD 0 0) else (q.data.get [i, j]).getD 0 0) * (q.mesh.cellAt 0 * q.mesh.cellAt 1) := by
  rw [integrateAll_eq, hs, lsum_indicesC2, ratProd_cell2 _ h2]

/-- the integral of a density stored on the mesh of `f` -/
theorem integrateAll_density (a : Bool) (f : Fld) (v : List Nat → Rat) (hs : f.data.shape = [f.mesh.nAt 0, f.mesh.nAt 1])
    (h2 : f.mesh.ndim = 2) :
    integrateAll a { mesh := f.mesh, nvdim := 1, data := ⟨f.data.shape, fun i => [v i]⟩,
                     valid := f.valid, vdims := none, vmap := [], unit := none }
      = (sumTo (f.mesh.nAt 0) fun i => sumTo (f.mesh.nAt 1) fun j => if a then absR (v [i, j]) else v [i, j])
          * (f.mesh.cellAt 0 * f.mesh.cellAt 1) :=
  integrateAll_2d a _ _ _ hs h2

/-- CHARGE UNDER A QUARTER TURN OF THE SAMPLE: both methods, absolute or not, every mask, open
or periodic directions (flags turned with the sample), any cell edges -/
theorem charge_turn (sq : Rat → Rat) (pi : Rat) (Om : Tri → Rat) (Q : M3) (hQ : Q.IsRot) {f g : Fld} (h : QTurn Q f g)
    (hf3 : f.nvdim = 3) (hg3 : g.nvdim = 3) (hf2 : f.mesh.ndim = 2) (hg2 : g.mesh.ndim = 2)
    (hfs : f.data.shape = [f.mesh.nAt 0, f.mesh.nAt 1]) (hgs : g.data.shape = [g.mesh.nAt 0, g.mesh.nAt 1])
    (m : Method) (a : Bool) : charge sq pi Om g m a = charge sq pi Om f m a := by
  by_cases hm : m = .other
  · subst hm
    unfold charge
    rw [if_neg (by simp [hg3]), if_neg (by simp [hg2]), if_neg (by simp [hf3]), if_neg (by simp [hf2])]
    rfl
  · have tf := tcd_succeeds sq pi Om f m hf3 hf2 hm
    have tg := tcd_succeeds sq pi Om g m hg3 hg2 hm
    rw [charge_of_tcd sq pi Om f _ m a tf, charge_of_tcd sq pi Om g _ m a tg]
    congr 1
    have n0 : g.mesh.nAt 0 = f.mesh.nAt 1 := h.n0
    have n1 : g.mesh.nAt 1 = f.mesh.nAt 0 := h.n1
    rw [integrateAll_density a g _ hgs hg2, integrateAll_density a f _ hfs hf2]
    have c0 : g.mesh.cellAt 0 = f.mesh.cellAt 1 := h.c0
    have c1 : g.mesh.cellAt 1 = f.mesh.cellAt 0 := h.c1
    simp only [c0, c1, n0, n1]
    have e : (sumTo (f.mesh.nAt 1) fun i => sumTo (f.mesh.nAt 0) fun j =>
          if a then absR (tcdVal sq pi Om g m [i, j]) else tcdVal sq pi Om g m [i, j])
        = sumTo (f.mesh.nAt 1) fun i => sumTo (f.mesh.nAt 0) fun j =>
          (fun x y => if a then absR (tcdVal sq pi Om f m [x, y]) else tcdVal sq pi Om f m [x, y]) j (f.mesh.nAt 1 - 1 - i) := by
      apply sumTo_congr; intro i hi
      apply sumTo_congr; intro j hj
      rw [tcdVal_turn sq pi Om Q hQ h m i j hi hj]
    rw [e, sum_turn (f.mesh.nAt 0) (f.mesh.nAt 1)
      (fun x y => if a then absR (tcdVal sq pi Om f m [x, y]) else tcdVal sq pi Om f m [x, y])]
    ring

end DFV.C19
