import DFV.Lemmas.C09Dec
/-! C09, second round: the text data section at byte level - the rows `to_csv` writes are read back
by the model of `read_csv` (`csvBody (textBytes rows footer) = (rows, footer)`); prefixes of the rows. -/
namespace DFV.C09
open DFV

/-! ## `decIO` is lawful on short decimals -/

theorem fmtDec_chars (x : Rat) : ∀ c ∈ fmtDec x, c.isDigit = true ∨ c = '.' ∨ c = '-' := by
  intro c hc
  unfold fmtDec at hc
  split at hc
  · rcases List.mem_cons.mp hc with rfl | hc
    · exact Or.inr (Or.inr rfl)
    · rcases fmtU_chars _ _ c hc with h | h
      · exact Or.inl h
      · exact Or.inr (Or.inl h)
  · rcases fmtU_chars _ _ c hc with h | h
    · exact Or.inl h
    · exact Or.inr (Or.inl h)

theorem isDigit_ascii (c : Char) (h : c.isDigit = true) : c.toNat < 128 := by
  simp only [Char.isDigit, Bool.and_eq_true, decide_eq_true_eq] at h
  have h' : 48 ≤ c.toNat ∧ c.toNat ≤ 57 := ⟨h.1, h.2⟩
  omega

theorem decIO_lawful : decIO.LawfulOn ShortDec where
  parse_fmt x h := parseDec_fmtDec x h
  clean x _ := by
    refine ⟨?_, ?_⟩
    · show fmtDec x ≠ []
      unfold fmtDec
      split
      · simp
      · exact fmtU_ne_nil _ _
    · intro c hc
      rcases fmtDec_chars x c hc with h | rfl | rfl
      · have := isDigit_ne c h
        exact ⟨this.2.1, this.2.2.1, this.2.2.2.1, isDigit_ascii c h⟩
      · decide
      · decide

/-! ## lines -/

theorem csvLines_line (l rest : List Byte) (h : 10 ∉ l) (cur : List Byte) :
    csvLines (l ++ 10 :: rest) cur = (cur.reverse ++ l) :: csvLines rest [] := by
  induction l generalizing cur with
  | nil => simp [csvLines]
  | cons b l ih =>
    have hb : b ≠ 10 := fun e => h (by simp [e])
    simp only [List.cons_append, csvLines, hb, if_false]
    rw [ih (fun e => h (by simp [e]))]
    simp

theorem csvLines_last (l : List Byte) (h : 10 ∉ l) (cur : List Byte) :
    csvLines l cur = if (cur.reverse ++ l).isEmpty then [] else [cur.reverse ++ l] := by
  induction l generalizing cur with
  | nil => simp [csvLines]
  | cons b l ih =>
    have hb : b ≠ 10 := fun e => h (by simp [e])
    simp only [csvLines, hb, if_false]
    rw [ih (fun e => h (by simp [e]))]
    simp

/-- the lines of a block of complete lines followed by anything -/
theorem csvLines_block (ls : List (List Byte)) (h : ∀ l ∈ ls, 10 ∉ l) (rest : List Byte) :
    csvLines (ls.flatMap (fun l => l ++ [10]) ++ rest) [] = ls ++ csvLines rest [] := by
  induction ls with
  | nil => rfl
  | cons l ls ih =>
    have e : (List.flatMap (fun l => l ++ [10]) (l :: ls) ++ rest)
        = l ++ 10 :: (ls.flatMap (fun l => l ++ [10]) ++ rest) := by simp
    rw [e, csvLines_line l _ (h l (by simp)) [], ih (fun x hx => h x (by simp [hx]))]
    simp

/-- a prefix of a block of `k` complete lines has at most `k` lines -/
theorem csvLines_prefix_length (ls : List (List Byte)) (h : ∀ l ∈ ls, 10 ∉ l) (p : List Byte)
    (hp : p <+: ls.flatMap (fun l => l ++ [10])) : (csvLines p []).length ≤ ls.length := by
  induction ls generalizing p with
  | nil =>
    simp only [List.flatMap_nil, List.prefix_nil] at hp
    subst hp; simp [csvLines]
  | cons l ls ih =>
    have e : List.flatMap (fun l => l ++ [10]) (l :: ls) = l ++ 10 :: ls.flatMap (fun l => l ++ [10]) := by simp
    rw [e] at hp
    rcases prefix_append_cases p _ _ hp with h1 | ⟨t, rfl, ht⟩
    · rw [csvLines_last p (not_mem_of_prefix 10 p l h1 (h l (by simp))) []]
      split <;> simp
    · rcases List.prefix_cons_iff.mp ht with rfl | ⟨t', rfl, ht'⟩
      · rw [List.append_nil, csvLines_last l (h l (by simp)) []]
        split <;> simp
      · rw [csvLines_line l t' (h l (by simp)) []]
        have := ih (fun x hx => h x (by simp [hx])) t' ht'
        simp only [List.length_cons]
        omega

/-! ## the tokenizer on a written row -/

/-- a field of the text: not empty, no blank, no `#` -/
def CsvWord (w : List Char) : Prop := w ≠ [] ∧ ∀ c ∈ w, c ≠ ' ' ∧ c ≠ '#'

theorem csvGo_in (w : List Char) (hw : ∀ c ∈ w, c ≠ ' ' ∧ c ≠ '#') (cur rest : List Char) :
    csvGo (some cur) (w ++ rest) = csvGo (some (w.reverse ++ cur)) rest := by
  induction w generalizing cur with
  | nil => rfl
  | cons c w ih =>
    have hc := hw c (by simp)
    simp only [List.cons_append, csvGo, hc.1, hc.2, if_false]
    rw [ih (fun d hd => hw d (by simp [hd]))]
    simp

theorem csvGo_word (w : List Char) (hw : CsvWord w) (rest : List Char) :
    csvGo none (w ++ rest) = csvGo (some w.reverse) rest := by
  obtain ⟨hne, hall⟩ := hw
  cases w with
  | nil => exact absurd rfl hne
  | cons c w =>
    have hc := hall c (by simp)
    simp only [List.cons_append, csvGo, hc.1, hc.2, if_false]
    rw [csvGo_in w (fun d hd => hall d (by simp [hd]))]
    simp

theorem csvGo_joinSp (ws : List (List Char)) (hne : ws ≠ []) (h : ∀ w ∈ ws, CsvWord w) :
    csvGo none (joinSp ws) = ws := by
  induction ws with
  | nil => exact absurd rfl hne
  | cons w ws ih =>
    cases ws with
    | nil =>
      simp only [joinSp]
      have := csvGo_word w (h w (by simp)) []
      rw [List.append_nil] at this
      rw [this]
      simp [csvGo]
    | cons v vs =>
      simp only [joinSp]
      rw [csvGo_word w (h w (by simp))]
      simp only [csvGo, if_true, List.reverse_reverse]
      rw [ih (by simp) (fun x hx => h x (by simp [hx]))]

/-- the record of a written row is its fields -/
theorem csvRecord_row (ws : List (List Char)) (hne : ws ≠ []) (h : ∀ w ∈ ws, CsvWord w) :
    csvRecord (' ' :: joinSp ws) = some ws := by
  simp only [csvRecord, show ¬ (' ' = '#') by decide, if_false, csvGo, if_true]
  rw [csvGo_joinSp ws hne h]

theorem csvConvGo_fmt {α} (T : TextIO α) (P : α → Prop) (L : T.LawfulOn P) (nan : α) (r : List α)
    (hr : ∀ v ∈ r, P v) : csvConvGo T nan (r.map T.fmt) = some r := by
  induction r with
  | nil => rfl
  | cons v r ih =>
    have hv := hr v (by simp)
    have hne : (T.fmt v).isEmpty = false := by
      cases h : T.fmt v with
      | nil => exact absurd h (L.clean v hv).1
      | cons _ _ => rfl
    simp only [List.map_cons, csvConvGo, hne, Bool.false_eq_true, if_false, L.parse_fmt v hv,
      ih (fun x hx => hr x (by simp [hx]))]

theorem csvConvGo_length {α} (T : TextIO α) (nan : α) (fs : List (List Char)) (r : List α)
    (h : csvConvGo T nan fs = some r) : r.length = fs.length := by
  induction fs generalizing r with
  | nil => simp [csvConvGo] at h; subst h; rfl
  | cons f fs ih =>
    simp only [csvConvGo] at h
    split at h
    · rename_i v r' _ hr'
      injection h with h
      subst h
      simp [ih r' hr']
    · cases h

theorem csvConv_length_le {α} (T : TextIO α) (nan : α) (fs : List (List Char)) :
    (csvConv T nan fs).length ≤ fs.length := by
  unfold csvConv
  cases h : csvConvGo T nan fs with
  | none => simp
  | some r => simp [csvConvGo_length T nan fs r h]

/-- number of fields ≤ number of blanks + 1 -/
theorem csvGo_length_le (st : Option (List Char)) (l : List Char) :
    (csvGo st l).length ≤ l.count ' ' + 1 := by
  induction l generalizing st with
  | nil => cases st <;> simp [csvGo]
  | cons c l ih =>
    cases st with
    | none =>
      simp only [csvGo]
      split
      · rename_i hc
        subst hc
        have := ih none
        simp only [List.count_cons_self]
        omega
      · split
        · simp
        · have := ih (some [c])
          have hle : l.count ' ' ≤ (c :: l).count ' ' := List.count_le_count_cons
          omega
    | some cur =>
      simp only [csvGo]
      split
      · rename_i hc
        subst hc
        have := ih none
        simp only [List.count_cons_self, List.length_cons]
        omega
      · split
        · simp
        · have := ih (some (c :: cur))
          have hle : l.count ' ' ≤ (c :: l).count ' ' := List.count_le_count_cons
          omega

theorem count_sp_joinSp (ws : List (List Char)) (h : ∀ w ∈ ws, ∀ c ∈ w, c ≠ ' ') :
    (joinSp ws).count ' ' = ws.length - 1 := by
  induction ws with
  | nil => rfl
  | cons w ws ih =>
    have hw : w.count ' ' = 0 := by
      rw [List.count_eq_zero]
      intro hc
      exact h w (by simp) ' ' hc rfl
    cases ws with
    | nil => simp [joinSp, hw]
    | cons v vs =>
      simp only [joinSp, List.count_append, List.count_cons_self, hw, List.length_cons]
      rw [ih (fun x hx => h x (by simp [hx]))]
      simp

/-- the record of any prefix of a written row has at most as many fields as the row -/
theorem csvRecord_prefix_length (ws : List (List Char)) (h : ∀ w ∈ ws, CsvWord w) (p : List Char)
    (hp : p <+: ' ' :: joinSp ws) (fs : List (List Char)) (hf : csvRecord p = some fs) :
    fs.length ≤ max ws.length 1 := by
  cases p with
  | nil => simp [csvRecord] at hf
  | cons c q =>
    rw [List.cons_prefix_cons] at hp
    obtain ⟨rfl, hq⟩ := hp
    simp only [csvRecord, show ¬ (' ' = '#') by decide, if_false, Option.some.injEq, csvGo, if_true] at hf
    subst hf
    have h1 := csvGo_length_le none q
    have h2 : q.count ' ' ≤ (joinSp ws).count ' ' := hq.sublist.count_le _
    rw [count_sp_joinSp ws (fun w hw c hc => ((h w hw).2 c hc).1)] at h2
    omega

/-! ## bytes ↔ characters of an ASCII line -/

theorem enc_ascii (cs : List Char) (h : ∀ c ∈ cs, c.toNat < 128) : utf8Enc cs = cs.map Char.toNat := by
  induction cs with
  | nil => rfl
  | cons c cs ih =>
    show utf8EncChar c ++ utf8Enc cs = _
    rw [encChar_ascii_eq c (h c (by simp)), ih (fun d hd => h d (by simp [hd]))]
    rfl

/-- a prefix of the bytes of an ASCII line is the bytes of a prefix of the line -/
theorem prefix_enc_ascii (cs : List Char) (h : ∀ c ∈ cs, c.toNat < 128) (p : List Byte) (hp : p <+: utf8Enc cs) :
    p.map Char.ofNat <+: cs := by
  have := hp.map Char.ofNat
  rw [map_ofNat_enc cs h] at this
  exact this

/-! ## the data section of a written file read back -/

/-- rows the writer can produce and `T` can carry -/
structure RowsOk {α} (T : TextIO α) (P : α → Prop) (rows : List (List α)) : Prop where
  ne : ∀ r ∈ rows, r ≠ []
  vals : ∀ r ∈ rows, ∀ v ∈ r, P v

/-- footer lines: ASCII, start with `#`, no newline inside -/
def FooterOk (footer : List String) : Prop :=
  ∀ l ∈ footer, l.toList.head? = some '#' ∧ ∀ c ∈ l.toList, c.toNat < 128 ∧ c ≠ '\n'

theorem rowWords_ok {α} (T : TextIO α) (P : α → Prop) (L : T.LawfulOn P) (r : List α) (hr : ∀ v ∈ r, P v) :
    ∀ w ∈ r.map T.fmt, CsvWord w := by
  intro w hw
  obtain ⟨v, hv, rfl⟩ := List.mem_map.mp hw
  have := L.clean v (hr v hv)
  exact ⟨this.1, fun c hc => ⟨(this.2 c hc).1, (this.2 c hc).2.1⟩⟩

theorem mem_joinSp (ws : List (List Char)) (c : Char) (hc : c ∈ joinSp ws) : c = ' ' ∨ ∃ w ∈ ws, c ∈ w := by
  induction ws with
  | nil => simp [joinSp] at hc
  | cons w ws ih =>
    cases ws with
    | nil => exact Or.inr ⟨w, by simp, by simpa [joinSp] using hc⟩
    | cons v vs =>
      simp only [joinSp, List.mem_append, List.mem_cons] at hc
      rcases hc with hc | rfl | hc
      · exact Or.inr ⟨w, by simp, hc⟩
      · exact Or.inl rfl
      · rcases ih hc with h | ⟨x, hx, hcx⟩
        · exact Or.inl h
        · exact Or.inr ⟨x, by simp [hx], hcx⟩

/-- the characters of a written row are ASCII and none is a newline -/
theorem rowChars_ascii {α} (T : TextIO α) (P : α → Prop) (L : T.LawfulOn P) (r : List α) (hr : ∀ v ∈ r, P v) :
    ∀ c ∈ rowChars T r, c.toNat < 128 ∧ c ≠ '\n' := by
  intro c hc
  unfold rowChars at hc
  rcases List.mem_cons.mp hc with rfl | hc
  · decide
  · rcases mem_joinSp _ c hc with rfl | ⟨w, hw, hcw⟩
    · decide
    · obtain ⟨v, hv, rfl⟩ := List.mem_map.mp hw
      have := (L.clean v (hr v hv)).2 c hcw
      exact ⟨this.2.2.2, this.2.2.1⟩

theorem row_line {α} (T : TextIO α) (P : α → Prop) (L : T.LawfulOn P) (nan : α) (r : List α)
    (hne : r ≠ []) (hr : ∀ v ∈ r, P v) :
    10 ∉ utf8Enc (rowChars T r) ∧
    (csvRecord ((utf8Enc (rowChars T r)).map Char.ofNat)).map (csvConv T nan) = some r ∧
    ((utf8Enc (rowChars T r)).head? == some 35) = false := by
  have hasc := rowChars_ascii T P L r hr
  refine ⟨newline_not_mem_enc _ (fun hc => (hasc _ hc).2 rfl), ?_, ?_⟩
  · rw [map_ofNat_enc _ (fun c hc => (hasc c hc).1)]
    unfold rowChars
    rw [csvRecord_row _ (by simpa using hne) (rowWords_ok T P L r hr)]
    simp only [Option.map_some, csvConv, csvConvGo_fmt T P L nan r hr, Option.getD_some]
  · rw [enc_ascii _ (fun c hc => (hasc c hc).1)]
    simp [rowChars]

theorem footer_line (l : String) (h : l.toList.head? = some '#' ∧ ∀ c ∈ l.toList, c.toNat < 128 ∧ c ≠ '\n') :
    10 ∉ utf8Enc l.toList ∧ csvRecord ((utf8Enc l.toList).map Char.ofNat) = none ∧
    ((utf8Enc l.toList).head? == some 35) = true ∧ latin1 (utf8Enc l.toList) = l := by
  obtain ⟨hh, hasc⟩ := h
  refine ⟨newline_not_mem_enc _ (fun hc => (hasc _ hc).2 rfl), ?_, ?_, latin1_enc l (fun c hc => (hasc c hc).1)⟩
  · rw [map_ofNat_enc _ (fun c hc => (hasc c hc).1)]
    cases hl : l.toList with
    | nil => rfl
    | cons c cs =>
      rw [hl] at hh
      simp only [List.head?_cons, Option.some.injEq] at hh
      subst hh
      simp [csvRecord]
  · rw [enc_ascii _ (fun c hc => (hasc c hc).1)]
    cases hl : l.toList with
    | nil => rw [hl] at hh; cases hh
    | cons c cs =>
      rw [hl] at hh
      simp only [List.head?_cons, Option.some.injEq] at hh
      subst hh
      rfl

theorem textBytes_eq {α} (T : TextIO α) (rows : List (List α)) (footer : List String) :
    textBytes T rows footer
      = ((rows.map fun r => utf8Enc (rowChars T r)) ++ (footer.map fun l => utf8Enc l.toList)).flatMap
          (fun l => l ++ [10]) := by
  unfold textBytes
  rw [List.flatMap_append, List.flatMap_map, List.flatMap_map]

/-- **the data section of a written text file reads back**: the model of `read_csv` on the bytes
`to_csv` wrote gives the rows that were written (and the footer lines as comments) -/
theorem csvBody_textBytes {α} (T : TextIO α) (P : α → Prop) (L : T.LawfulOn P) (nan : α)
    (rows : List (List α)) (footer : List String) (R : RowsOk T P rows) (Fo : FooterOk footer) :
    csvBody T nan (textBytes T rows footer) = (rows, footer) := by
  unfold csvBody
  have hl : csvLines (textBytes T rows footer) []
      = (rows.map fun r => utf8Enc (rowChars T r)) ++ (footer.map fun l => utf8Enc l.toList) := by
    rw [textBytes_eq]
    have := csvLines_block ((rows.map fun r => utf8Enc (rowChars T r)) ++ (footer.map fun l => utf8Enc l.toList))
      (by
        intro l hl
        rcases List.mem_append.mp hl with hl | hl
        · obtain ⟨r, hr, rfl⟩ := List.mem_map.mp hl
          exact (row_line T P L nan r (R.ne r hr) (R.vals r hr)).1
        · obtain ⟨s, hs, rfl⟩ := List.mem_map.mp hl
          exact (footer_line s (Fo s hs)).1) []
    rw [List.append_nil] at this
    rw [this]
    simp [csvLines]
  rw [hl]
  congr 1
  · rw [List.filterMap_append]
    have h1 : (rows.map fun r => utf8Enc (rowChars T r)).filterMap
        (fun l => (csvRecord (l.map Char.ofNat)).map (csvConv T nan)) = rows := by
      rw [List.filterMap_map]
      conv => rhs; rw [← List.filterMap_some (l := rows)]
      apply List.filterMap_congr
      intro r hr
      exact (row_line T P L nan r (R.ne r hr) (R.vals r hr)).2.1
    have h2 : (footer.map fun l => utf8Enc l.toList).filterMap
        (fun l => (csvRecord (l.map Char.ofNat)).map (csvConv T nan)) = [] := by
      rw [List.filterMap_map, List.filterMap_eq_nil_iff]
      intro s hs
      simp only [Function.comp]
      rw [(footer_line s (Fo s hs)).2.1]
      rfl
    rw [h1, h2, List.append_nil]
  · rw [List.filter_append]
    have h1 : (rows.map fun r => utf8Enc (rowChars T r)).filter (fun l => l.head? == some 35) = [] := by
      rw [List.filter_eq_nil_iff]
      intro l hl
      obtain ⟨r, hr, rfl⟩ := List.mem_map.mp hl
      rw [(row_line T P L nan r (R.ne r hr) (R.vals r hr)).2.2]
      exact Bool.false_ne_true
    have h2 : (footer.map fun l => utf8Enc l.toList).filter (fun l => l.head? == some 35)
        = footer.map fun l => utf8Enc l.toList := by
      rw [List.filter_eq_self]
      intro l hl
      obtain ⟨s, hs, rfl⟩ := List.mem_map.mp hl
      exact (footer_line s (Fo s hs)).2.2.1
    rw [h1, h2, List.nil_append, List.map_map]
    conv => rhs; rw [← List.map_id footer]
    apply List.map_congr_left
    intro s hs
    exact (footer_line s (Fo s hs)).2.2.2

end DFV.C09
