import DFV.Lemmas.C06Mask
/-! Direction-by-direction integration as a sequence of keep-masks (C06, means over several
directions): one step clears one mask entry, multiplies by one cell length and sums one axis. -/
namespace DFV.C06
open DFV

/-- state of a direction-by-direction integration of `f`: the current field `G` lives on the
axes of `f` that the keep-mask `K` keeps, and its values are `C` × the sum over the others -/
def ChainInv (f G : Fld) (K : List Bool) (C : Rat) : Prop :=
  WF G ∧ K.length = f.mesh.n.length ∧ G.nvdim = f.nvdim ∧ 0 < C ∧
  G.mesh.region.dims = filterMask K f.mesh.region.dims ∧
  G.mesh.region.pmin = filterMask K f.mesh.region.pmin ∧
  G.mesh.region.pmax = filterMask K f.mesh.region.pmax ∧
  G.mesh.n = filterMask K f.mesh.n ∧
  ∀ i c, inRange G.mesh.n i = true → c < f.nvdim →
    cget G.data i c = C * maskSum f.mesh.n K (fun t => cget f.data t c) i

theorem chain_step (f G G' : Fld) (K : List Bool) (C : Rat) (hf : WF f) (hinv : ChainInv f G K C) (d : String)
    (h : integrate G (.name d) false = .ok (.field G')) :
    ∃ a p, f.mesh.region.dim2index d = .ok a ∧ G.mesh.region.dim2index d = .ok p ∧
      sel G.mesh d = .ok G'.mesh ∧
      ChainInv f G' (setAt K a false) (C * G.mesh.cellAt p) ∧
      (C * G.mesh.cellAt p) * (dropProd (setAt K a false) f.mesh.n : Rat)
        = (C * (dropProd K f.mesh.n : Rat)) * f.mesh.region.edge a := by
  obtain ⟨hwG, hKl, hnv, hCpos, hdims, hpmin, hpmax, hn, hval⟩ := hinv
  obtain ⟨p, m', hp, _, hsel, _, hG'eq⟩ := integrate_dir_unpack G d G' h
  obtain ⟨p', hp', hplt, hpmin', hpmax', hdims', _, hn', hshape', hnv', _, _, _, _, hval'⟩ := integrate_dir_spec G hwG d G' h
  rw [hp] at hp'; injection hp' with hp'; subst hp'
  have hG'm : G'.mesh = m' := by rw [hG'eq]
  -- names
  have hdG : d ∈ G.mesh.region.dims := mem_of_dim2index _ _ _ hp
  have hdK : d ∈ filterMask K f.mesh.region.dims := by rw [← hdims]; exact hdG
  have hdf : d ∈ f.mesh.region.dims := mem_filterMask _ _ _ hdK
  obtain ⟨a, ha⟩ := dim2index_of_mem _ _ hdf
  have ha_idx := dim2index_idx _ _ _ ha
  have hp_idx : p = idx (filterMask K f.mesh.region.dims) d := by
    rw [← hdims]; exact dim2index_idx _ _ _ hp
  obtain ⟨⟨hfpos, hfmax, hfdims, hfunits, hfdup, hflt⟩, hfnlen, hfnpos⟩ := hf.1
  have hnd : f.mesh.region.dims.Nodup := nodup_of_hasDup _ hfdup
  have hfn : f.mesh.n.length = f.mesh.region.pmin.length := hfnlen
  have hKd : K.length = f.mesh.region.dims.length := by rw [hKl, hfn, hfdims]
  have hclear : clearNth K p = setAt K a false := by
    rw [hp_idx, ha_idx]; exact clearNth_idx K _ d hKd hnd hdK
  have hpK : p < (filterMask K f.mesh.region.dims).length := by
    rw [hp_idx]; exact idx_lt_of_mem _ _ hdK
  have hlen_n : (filterMask K f.mesh.n).length = (filterMask K f.mesh.region.dims).length :=
    filterMask_length_eq K _ _ (by rw [hfn, hfdims])
  have hlen_pmin : (filterMask K f.mesh.region.pmin).length = (filterMask K f.mesh.region.dims).length :=
    filterMask_length_eq K _ _ (by rw [hfdims])
  have hlen_pmax : (filterMask K f.mesh.region.pmax).length = (filterMask K f.mesh.region.dims).length :=
    filterMask_length_eq K _ _ (by rw [hfmax, hfdims])
  have hGn : G.mesh.nAt p = (filterMask K f.mesh.n).getD p 0 := by unfold Mesh.nAt; rw [hn]
  refine ⟨a, p, ha, hp, by rw [hG'm]; exact hsel, ?_, ?_⟩
  · have hwG' : WF G' := ⟨by rw [hG'm]; exact sel_inv G.mesh hwG.1 d m' hsel, by rw [hshape', hn']⟩
    refine ⟨hwG', by rw [setAt_length]; exact hKl, by rw [hnv', hnv], mul_pos hCpos (cell_pos' G.mesh hwG.1 p hplt),
      ?_, ?_, ?_, ?_, ?_⟩
    · rw [hdims', hdims, ← hclear, filterMask_clearNth K _ p hKd hpK]
    · rw [hpmin', hpmin, ← hclear, filterMask_clearNth K _ p (by rw [hKd, hfdims]) (by rw [hlen_pmin]; exact hpK)]
    · rw [hpmax', hpmax, ← hclear, filterMask_clearNth K _ p (by rw [hKd, hfdims, hfmax]) (by rw [hlen_pmax]; exact hpK)]
    · rw [hn', hn, ← hclear, filterMask_clearNth K _ p hKl (by rw [hlen_n]; exact hpK)]
    · intro i c hi hc
      rw [hn'] at hi
      rw [hval' i c hi (by rw [hnv]; exact hc), ← hclear]
      have hilen : i.length + 1 = (filterMask K f.mesh.n).length := by
        have := inRange_length _ _ hi
        rw [this, removeAt_length _ _ (by rw [hn, hlen_n]; exact hpK), hn]
        have : 0 < (filterMask K f.mesh.n).length := by rw [hlen_n]; omega
        omega
      rw [← maskSum_step f.mesh.n K _ i p hKl (by rw [hlen_n]; exact hpK) hilen, ← hGn, ← sumTo_mul_left]
      rw [mul_comm C, mul_assoc, ← sumTo_mul_left, ← sumTo_mul_left]
      apply sumTo_congr
      intro j hj
      rw [hval (insertAt i p j) c
        (inRange_insertAt G.mesh.n i p j (by rw [hn, hlen_n]; exact hpK) hi (by unfold Mesh.nAt at hj; exact hj)) hc]
  · have hdp : dropProd (setAt K a false) f.mesh.n = G.mesh.nAt p * dropProd K f.mesh.n := by
      rw [← hclear, dropProd_clearNth K _ p hKl (by rw [hlen_n]; exact hpK), hGn]
    have hedge : G.mesh.region.edge p = f.mesh.region.edge a := by
      unfold Region.edge Region.hi Region.lo
      rw [hpmin, hpmax, hp_idx, ha_idx,
        getD_filterMask_idx K _ f.mesh.region.pmax d 0 hKd (by rw [hfmax, hfdims]) hnd hdK,
        getD_filterMask_idx K _ f.mesh.region.pmin d 0 hKd (by rw [hfdims]) hnd hdK]
    rw [hdp, ← hedge, ← cells_cover G.mesh hwG.1 p hplt]
    push_cast
    ring


theorem chain (f : Fld) (hf : WF f) (ds : List String) :
    ∀ (G : Fld) (K : List Bool) (C : Rat) (gi : Fld), ChainInv f G K C →
      integrateSeq G ds = .ok (.field gi) →
      ∃ axes C', dimIndices f.mesh.region ds = .ok axes ∧ selMany G.mesh ds = .ok gi.mesh ∧
        ChainInv f gi (axes.foldl (fun K a => setAt K a false) K) C' ∧
        C' * (dropProd (axes.foldl (fun K a => setAt K a false) K) f.mesh.n : Rat)
          = C * (dropProd K f.mesh.n : Rat) * extent f.mesh.region ds := by
  induction ds with
  | nil =>
    intro G K C gi hinv h
    unfold integrateSeq at h
    injection h with h; injection h with h; subst h
    exact ⟨[], C, rfl, rfl, hinv, by simp [extent]⟩
  | cons d ds ih =>
    intro G K C gi hinv h
    unfold integrateSeq at h
    split at h
    · cases h
    · split at h <;> cases h
    · rename_i G1 hG1
      obtain ⟨a, p, ha, hp, hsel, hinv1, hprod⟩ := chain_step f G G1 K C hf hinv d hG1
      obtain ⟨axes, C', hax, hselm, hinv', hprod'⟩ := ih G1 _ _ gi hinv1 h
      refine ⟨a :: axes, C', ?_, ?_, hinv', ?_⟩
      · simp only [dimIndices, ha, hax]
      · simp only [selMany, hsel, hselm]
      · simp only [List.foldl_cons]
        rw [hprod', hprod]
        simp only [extent, ha]
        ring


theorem cget_meanAxes (nv : Nat) (a : NDA (List Rat)) (axes : List Nat) (i : List Nat) (c : Nat) (hc : c < nv) :
    cget (meanAxes nv a axes) i c =
      maskSum a.shape (keepMask a.shape.length axes) (fun t => cget a t c) i
        / (dropProd (keepMask a.shape.length axes) a.shape : Rat) := by
  simp only [cget, meanAxes]
  rw [getD_tab _ _ _ _ hc]

/-- unpacking a successful mean over a list of directions that returns a field -/
theorem mean_names_unpack (f : Fld) (ds : List String) (gm : Fld) (h : mean f (.names ds) = .ok (.field gm)) :
    hasDup ds = false ∧ ∃ m' axes, selMany f.mesh ds = .ok m' ∧ dimIndices f.mesh.region ds = .ok axes ∧
      (meanAxes f.nvdim f.data axes).shape = m'.n ∧
      gm = { mesh := m', nvdim := f.nvdim, data := (meanAxes f.nvdim f.data axes).force [],
             valid := NDA.const m'.n true, vdims := f.vdims, vmap := f.vmap, unit := f.unit } := by
  unfold mean at h
  simp only at h
  split at h
  · cases h
  · rename_i hdup
    split at h
    · cases h
    · split at h
      · cases h
      · rename_i m' hm'
        split at h
        · cases h
        · rename_i axes haxes
          split at h
          · cases h
          · rename_i g' hg'
            injection h with h; injection h with h; subst h
            obtain ⟨hs, hg⟩ := mkFld_ok _ _ _ _ _ _ _ hg'
            exact ⟨by simpa using hdup, m', axes, hm', haxes, hs, hg⟩

theorem chainInv_init (f : Fld) (hf : WF f) : ChainInv f f (List.replicate f.mesh.n.length true) 1 := by
  obtain ⟨⟨hfpos, hfmax, hfdims, hfunits, hfdup, hflt⟩, hfnlen, hfnpos⟩ := hf.1
  have hfn : f.mesh.n.length = f.mesh.region.pmin.length := hfnlen
  refine ⟨hf, by simp, rfl, by norm_num, ?_, ?_, ?_, ?_, ?_⟩
  · have : f.mesh.n.length = f.mesh.region.dims.length := by rw [hfn, hfdims]
    rw [this, filterMask_allTrue]
  · rw [hfn, filterMask_allTrue]
  · have : f.mesh.n.length = f.mesh.region.pmax.length := by rw [hfn, hfmax]
    rw [this, filterMask_allTrue]
  · rw [filterMask_allTrue]
  · intro i c hi _
    rw [maskSum_allTrue _ _ _ (inRange_length _ _ hi), one_mul]


end DFV.C06
