import DFV.Lemmas.C12Axis
/-! C12 (round 3): four successive quarter turns of a FIELD, and closure of the values under the
exact component rotation, at field level. -/
namespace DFV.T
open DFV DFV.C14

/-- an accepted field rotation keeps the invariant bundle `FInv` -/
theorem rotate90F_finv (f : Fld) (hf : FInv f) (a1 a2 : String) (k : Int) (ref : Option (List Rat)) (b : Bool) (x g : Fld)
    (h : rotate90F f a1 a2 k ref b = .ok (x, g)) : FInv g := by
  obtain ⟨hfi, hs, hb⟩ := hf
  obtain ⟨y, m', i1, i2, hm', d1, d2, e1, e2, e3, e4, e5, e6, e7, _⟩ := rotate90F_inv f a1 a2 k ref b x g h
  obtain ⟨_, hmi, hn, _⟩ := stepM_keeps f.mesh hfi.1 _ _ _ hm'
  have hn' : m'.n = rotN f.mesh.n i1 i2 k := by rw [hn]; simp only [opN, d1, d2]
  have hshape : ∀ {α} (a : NDA α), a.shape = f.mesh.n → (rot90 a i1 i2 k).shape = m'.n := by
    intro α a ha
    rw [DFV.C13.rot90_shape, ha, hn']; rfl
  refine ⟨⟨e1 ▸ hmi, ?_, ?_⟩, e1 ▸ (stepM_subInv' f.mesh hfi.1 hs _ _ _ hm').2.1,
    e1 ▸ (stepM_bcWf f.mesh hfi.1 hs hb _ _ _ hm').2.1⟩
  · rw [e1]
    rcases e7 with ⟨_, e⟩ | ⟨_, c1, c2, _, _, e⟩
    · rw [e]; exact hshape _ hfi.2.1
    · rw [e]; exact hshape _ hfi.2.1
  · rw [e1, e6]; exact hshape _ hfi.2.2

theorem rotate90F_vinv (f : Fld) (hf : FldInv f) (hv : FldVInv f) (a1 a2 : String) (k : Int) (ref : Option (List Rat))
    (b : Bool) (x g : Fld) (h : rotate90F f a1 a2 k ref b = .ok (x, g)) : FldVInv g :=
  (stepF_vinv f hf hv (.rotate90 a1 a2 k ref b) x g (by simp only [stepF]; exact h)).2

/-- `k = 3` and `k = −1` are the same call -/
theorem rotate90F_three (f : Fld) (a1 a2 : String) (ref : Option (List Rat)) (b : Bool) :
    rotate90F f a1 a2 3 ref b = rotate90F f a1 a2 (-1) ref b := by
  have h1 := rotate90F_mod4 f a1 a2 (-1) ref b
  have : ((-1 : Int) % 4) = 3 := by decide
  rw [this] at h1; exact h1

/-- a turn followed by its reverse gives back the whole mesh of the field (periodic `bc` included) -/
theorem rotate90F_inverse_mesh (f : Fld) (hf : FInv f) (a1 a2 : String) (k : Int) (R : List Rat)
    (b b' : Bool) (x1 g1 x2 g2 : Fld)
    (h1 : rotate90F f a1 a2 k (some R) b = .ok (x1, g1)) (h2 : rotate90F g1 a1 a2 (-k) (some R) b' = .ok (x2, g2)) :
    g2.mesh = f.mesh := by
  obtain ⟨hfi, hs, hb⟩ := hf
  obtain ⟨y1, m1, _, _, hm1, _, _, e1, _⟩ := rotate90F_inv f a1 a2 k (some R) b x1 g1 h1
  obtain ⟨y2, m2, _, _, hm2, _, _, u1, _⟩ := rotate90F_inv g1 a1 a2 (-k) (some R) b' x2 g2 h2
  rw [e1] at hm2
  obtain ⟨_, _, _, m2', c2, c12, _⟩ := stepM_rot_compose_copy_accepts f.mesh hfi.1 hs hb a1 a2 k (-k) R y1 m1 hm1
  rw [c2] at hm2
  injection hm2 with hm2; injection hm2 with _ hm2
  obtain ⟨ez, _⟩ := stepM_rot_zero f.mesh hfi.1 hs a1 a2 (k + -k) (by simp) (some R) false _ m2' c12
  simp only [Bool.false_eq_true, if_false] at ez
  rw [u1, ← hm2, ez, hb.1.1]

/-- **Field: four successive quarter turns about the same point give back the field.**  Once the
first turn is accepted (any form), the three following ones are accepted too (any forms), and the
final field has the mesh, labels, mapping, unit, and — at every cell — the validity and the value
(vector values included) of the original. -/
theorem rotate90F_four (f : Fld) (hf : FInv f) (hv : FldVInv f) (a1 a2 : String) (R : List Rat) (b1 b2 b3 b4 : Bool)
    (x1 g1 : Fld) (h1 : rotate90F f a1 a2 1 (some R) b1 = .ok (x1, g1)) :
    ∃ g2 g3 g4, rotate90F g1 a1 a2 1 (some R) b2 = .ok (if b2 then g2 else g1, g2) ∧
      rotate90F g2 a1 a2 1 (some R) b3 = .ok (if b3 then g3 else g2, g3) ∧
      rotate90F g3 a1 a2 1 (some R) b4 = .ok (if b4 then g4 else g3, g4) ∧
      g4.mesh = f.mesh ∧ g4.nvdim = f.nvdim ∧ g4.vdims = f.vdims ∧ g4.vmap = f.vmap ∧ g4.unit = f.unit ∧
      g4.valid.shape = f.valid.shape ∧ g4.data.shape = f.data.shape ∧
      ∀ j, inRange f.mesh.n j = true → g4.valid.get j = f.valid.get j ∧ g4.data.get j = f.data.get j := by
  have hf1 := rotate90F_finv f hf a1 a2 1 (some R) b1 x1 g1 h1
  have hv1 := rotate90F_vinv f hf.1 hv a1 a2 1 (some R) b1 x1 g1 h1
  -- the second and third turns are accepted
  obtain ⟨g2, _, hg2, _⟩ := rotate90F_compose_full f hf.1 hf.2.1 hf.2.2 a1 a2 1 1 R b1 b2 false x1 g1 h1
  have hf2 := rotate90F_finv g1 hf1 a1 a2 1 (some R) b2 _ g2 hg2
  have hv2 := rotate90F_vinv g1 hf1.1 hv1 a1 a2 1 (some R) b2 _ g2 hg2
  obtain ⟨g3, _, hg3, _⟩ := rotate90F_compose_full g1 hf1.1 hf1.2.1 hf1.2.2 a1 a2 1 1 R b2 b3 false _ g2 hg2
  -- the fourth turn, compared with the half turn `h` of g2
  obtain ⟨g4, h, hg4, hh, a_mesh, a_nv, a_vd, a_vm, a_un, a_vs, a_ds, a_val, _, _⟩ :=
    rotate90F_compose_full g2 hf2.1 hf2.2.1 hf2.2.2 a1 a2 1 1 R b3 b4 false _ g3 hg3
  obtain ⟨_, a_dat⟩ := rotate90F_compose_vals g2 hf2.1 hv2 a1 a2 1 1 (some R) (some R) (some R) b3 b4 false _ g3 _ g4 _ h hg3 hg4 hh
  -- the half turn of g2 compared with three quarter turns `u` of g1
  obtain ⟨h', u, hh', hu, b_mesh, b_nv, b_vd, b_vm, b_un, b_vs, b_ds, b_val, _, _⟩ :=
    rotate90F_compose_full g1 hf1.1 hf1.2.1 hf1.2.2 a1 a2 1 2 R b2 false false _ g2 hg2
  have e12 : ((1 : Int) + 1) = 2 := by decide
  have e123 : ((1 : Int) + 2) = 3 := by decide
  rw [e12] at hh
  rw [hh'] at hh
  injection hh with hh; injection hh with _ hh
  subst hh
  obtain ⟨_, b_dat⟩ := rotate90F_compose_vals g1 hf1.1 hv1 a1 a2 1 2 (some R) (some R) (some R) b2 false false _ g2 _ h' _ u hg2 hh' hu
  -- three quarter turns are the reverse turn: back to f
  rw [e123, rotate90F_three] at hu
  obtain ⟨_, _, _, _, c_nv, c_vd, c_vm, c_un, _⟩ := rotate90F_inverse f hf.1 hf.2.1 a1 a2 1 R b1 false x1 g1 _ u h1 hu
  obtain ⟨c_vs, c_ds, c_val⟩ := rotate90F_inverse_vals f hf.1 hv hf.2.1 a1 a2 1 R b1 false x1 g1 _ u h1 hu
  have c_mesh := rotate90F_inverse_mesh f hf a1 a2 1 R b1 false x1 g1 _ u h1 hu
  refine ⟨g2, g3, g4, hg2, hg3, hg4, a_mesh.trans (b_mesh.trans c_mesh), a_nv.trans (b_nv.trans c_nv),
    a_vd.trans (b_vd.trans c_vd), a_vm.trans (b_vm.trans c_vm), a_un.trans (b_un.trans c_un),
    a_vs.trans (b_vs.trans c_vs), a_ds.trans (b_ds.trans c_ds), ?_⟩
  intro j hj
  have hju_v : inRange u.valid.shape j = true := by rw [c_vs, hf.1.2.2]; exact hj
  have hju_d : inRange u.data.shape j = true := by rw [c_ds, hf.1.2.1]; exact hj
  have hjh_v : inRange h'.valid.shape j = true := by rw [b_vs]; exact hju_v
  have hjh_d : inRange h'.data.shape j = true := by rw [b_ds]; exact hju_d
  obtain ⟨cv, cd⟩ := c_val j hj
  exact ⟨(a_val j hjh_v).trans ((b_val j hju_v).trans cv), (a_dat j hjh_d).trans ((b_dat j hju_d).trans cd)⟩

/-- **closure at field level**: if every component of every cell value of `f` lies in a set of
numbers closed under negation (the integers; the numbers of a storage format with symmetric
range), so does every component of every cell value of the turned field — for every integer `k`,
scalar and vector fields, either form.  No rounding hypothesis: the matrix entries are exact. -/
theorem rotate90F_closed (P : Rat → Prop) (hneg : ∀ x, P x → P (-x)) (f : Fld) (hf : FldInv f) (hv : FldVInv f)
    (hP : ∀ j, inRange f.mesh.n j = true → ∀ c, c < f.nvdim → P ((f.data.get j).getD c 0))
    (a1 a2 : String) (k : Int) (ref : Option (List Rat)) (b : Bool) (x g : Fld)
    (h : rotate90F f a1 a2 k ref b = .ok (x, g)) :
    ∀ j, inRange g.mesh.n j = true → ∀ c, c < g.nvdim → P ((g.data.get j).getD c 0) := by
  obtain ⟨y, m', i1, i2, hm', d1, d2, e1, e2, e3, e4, e5, e6, e7, _⟩ := rotate90F_inv f a1 a2 k ref b x g h
  obtain ⟨q1, q2, hq1, hq2, h12, lq1, lq2, _⟩ := stepM_rot_axes f.mesh hf.1 a1 a2 k ref false y m' hm'
  rw [d1] at hq1; rw [d2] at hq2
  injection hq1 with hq1; injection hq2 with hq2
  subst q1 q2
  have hn : g.mesh.n = rotN f.mesh.n i1 i2 k := by
    rw [e1, (stepM_keeps f.mesh hf.1 _ _ _ hm').2.2.1]; simp only [opN, d1, d2]
  intro j hj c hc
  rw [hn] at hj
  rw [e2] at hc
  have hsrc : inRange f.mesh.n (srcIdx f.data.shape i1 i2 k j) = true := by
    rw [hf.2.1]; exact srcIdx_inRange f.mesh.n j i1 i2 k h12 lq1 lq2 hj
  have hlen := hv.1 _ hsrc
  rcases e7 with ⟨_, e⟩ | ⟨hgt, c1, c2, hc1, hc2, e⟩
  · rw [e, rot90_get]; exact hP _ hsrc c hc
  · rw [e]; simp only [NDA.map]; rw [rot90_get]
    obtain ⟨hax, _⟩ : a1 ≠ a2 ∧ True := by
      obtain ⟨_, _, _, xr, hxr⟩ := stepM_keeps f.mesh hf.1 _ _ _ hm'
      simp only [stepR] at hxr
      exact ⟨(rotate90R_inv _ _ _ _ _ _ _ _ hxr).1, trivial⟩
    obtain ⟨_, n2, n3⟩ := mapped_distinct f hv a1 a2 hax c1 c2 hc1 hc2
    apply rotVec_closed P hneg _ c1 c2 k (hlen ▸ n2) (hlen ▸ n3) _ c (hlen ▸ hc)
    intro c' hc'
    exact hP _ hsrc c' (hlen ▸ hc')

end DFV.T
