import DFV.Props.C11
import DFV.Lemmas.C19
/-!
# C19 — the convolution theorem for C11's model of the n-dimensional DFT

`dftN (a ⊛ b) = dftN a · dftN b` and `idftN (dftN a · dftN b) = a ⊛ b`, `⊛` the circular convolution
over the box, for any commutative ring with roots of unity (hypotheses `Roots`).  Proved axis by
axis from the one-dimensional statement.
-/
namespace DFV.C19
open DFV DFV.C11

section ring
variable {R : Type} [CommRing R]

/-- cyclic difference of multi-indices: `(j − r) mod n` per axis -/
def subIdx : List Nat → List Nat → List Nat → List Nat
  | n :: ns, j :: js, r :: rs => subMod j r n :: subIdx ns js rs
  | _, _, _ => []

/-- circular convolution over the box `ns` -/
def cconvN (ns : List Nat) (a b : List Nat → R) (j : List Nat) : R :=
  sumBox ns fun r => a r * b (subIdx ns j r)

theorem cconvN_nil (a b : List Nat → R) (j : List Nat) : cconvN [] a b j = a [] * b [] := by
  cases j <;> simp [cconvN, sumBox, subIdx]

theorem cconvN_cons (n : Nat) (ns : List Nat) (a b : List Nat → R) (j : Nat) (js : List Nat) :
    cconvN (n :: ns) a b (j :: js)
      = sumN n fun r => cconvN ns (fun rs => a (r :: rs)) (fun ss => b (subMod j r n :: ss)) js := by
  simp only [cconvN, sumBox, subIdx]

/-- the twiddle factor is additive in the sample index -/
theorem tw_add (w : R) (n m r s : Nat) (h : w ^ n = 1) : tw w n m (r + s) = tw w n m r * tw w n m s := by
  rw [tw_eq _ _ _ _ h, tw_eq _ _ _ _ h, tw_eq _ _ _ _ h, ← pow_add]
  congr 1; ring

theorem tw_mod (w : R) (n m r : Nat) (h : w ^ n = 1) : tw w n m (r % n) = tw w n m r := by
  rw [tw_eq _ _ _ _ h, tw_eq _ _ _ _ h, ← pow_mod_of_pow_eq_one w n (m * (r % n)) h,
    ← pow_mod_of_pow_eq_one w n (m * r) h]
  congr 1
  rw [Nat.mul_mod, Nat.mod_mod, ← Nat.mul_mod]

/-- ONE AXIS: the transform of a circular convolution is the product of the transforms -/
theorem conv1 (w : R) (n : Nat) (hw : w ^ n = 1) (A B : Nat → R) (m : Nat) :
    sumN n (fun j => (sumN n fun r => A r * B (subMod j r n)) * tw w n m j)
      = (sumN n fun r => A r * tw w n m r) * (sumN n fun s => B s * tw w n m s) := by
  -- exchange the sums
  have e1 : sumN n (fun j => (sumN n fun r => A r * B (subMod j r n)) * tw w n m j)
      = sumN n fun r => A r * sumN n fun j => B (subMod j r n) * tw w n m j := by
    rw [sumN_congr n _ (fun j => sumN n fun r => A r * (B (subMod j r n) * tw w n m j))
      (fun j _ => by rw [← sumN_mul_right]; apply sumN_congr; intro r _; ring)]
    rw [sumN_comm]
    apply sumN_congr
    intro r _
    rw [sumN_mul_left]
  rw [e1, sumN_mul_sumN]
  apply sumN_congr
  intro r hr
  -- shift the inner summation index by `r`
  have hs : sumN n (fun j => B (subMod j r n) * tw w n m j)
      = sumN n fun k => B k * (tw w n m k * tw w n m r) := by
    have hrot := sumN_rotate n (n - r) (by omega) (fun k => B k * tw w n m (k + r))
    rw [sumN_congr n (fun k => B k * (tw w n m k * tw w n m r)) (fun k => B k * tw w n m (k + r))
      (fun k _ => by rw [tw_add w n m k r hw]), ← hrot]
    apply sumN_congr
    intro j hj
    have hsub : subMod j r n = (j + (n - r)) % n := by
      unfold subMod
      rw [Nat.mod_eq_of_lt hr]
      congr 1; omega
    rw [hsub]
    congr 1
    rw [← tw_mod w n m ((j + (n - r)) % n + r) hw, Nat.add_mod, Nat.mod_mod, ← Nat.add_mod]
    have : j + (n - r) + r = j + n := by omega
    rw [this, Nat.add_mod_right, tw_mod w n m j hw]
  rw [hs, ← sumN_mul_left]
  apply sumN_congr
  intro k _
  ring

theorem dftN_sumN (ρs : List (Root R)) (ns : List Nat) (n : Nat) (F : Nat → List Nat → R) (m : List Nat) :
    dftN ρs ns (fun js => sumN n fun r => F r js) m = sumN n fun r => dftN ρs ns (F r) m := by
  induction n with
  | zero =>
    simp only [sumN]
    rw [dftN_eq_sumBox]
    simp only [zero_mul]
    exact sumBox_zero ns
  | succ n ih =>
    simp only [sumN]
    rw [← ih]
    have := dftN_linear ρs ns (fun js => sumN n fun r => F r js) (F n) 1 1 m
    simp only [one_mul] at this
    exact this

/-- THE CONVOLUTION THEOREM (forward form), any number of axes -/
theorem dftN_cconvN (ρs : List (Root R)) (ns : List Nat) (hρ : Roots ns ρs) (a b : List Nat → R) (m : List Nat) :
    dftN ρs ns (cconvN ns a b) m = dftN ρs ns a m * dftN ρs ns b m := by
  induction ns generalizing ρs a b m with
  | nil => simp only [dftN_nil]; exact cconvN_nil a b []
  | cons n ns ih =>
    obtain ⟨hr, hrs⟩ := hρ
    rw [dftN_cons, dftN_cons, dftN_cons]
    simp only [cconvN_cons]
    rw [sumN_congr n _ (fun j => (sumN n fun r =>
        dftN ρs.tail ns (fun rs => a (r :: rs)) m.tail * dftN ρs.tail ns (fun ss => b (subMod j r n :: ss)) m.tail)
          * tw (ρs.headD ⟨1, 1, 1⟩).w n (m.headD 0) j)
      (fun j _ => by
        rw [dftN_sumN]
        congr 1
        apply sumN_congr
        intro r _
        exact ih ρs.tail hrs _ _ m.tail)]
    exact conv1 (ρs.headD ⟨1, 1, 1⟩).w n hr.pow_n (fun r => dftN ρs.tail ns (fun rs => a (r :: rs)) m.tail)
      (fun s => dftN ρs.tail ns (fun ss => b (s :: ss)) m.tail) (m.headD 0)

/-- THE CONVOLUTION THEOREM (inverse form): `ifftn(fftn(a)·fftn(b))` is the circular convolution -/
theorem idftN_mul_dftN (ρs : List (Root R)) (ns : List Nat) (hρ : Roots ns ρs) (a b : List Nat → R)
    (j : List Nat) (hj : inRange ns j = true) :
    idftN ρs ns (fun k => dftN ρs ns a k * dftN ρs ns b k) j = cconvN ns a b j := by
  rw [idftN_congr ρs ns _ (dftN ρs ns (cconvN ns a b)) j (fun k _ => (dftN_cconvN ρs ns hρ a b k).symm)]
  exact idftN_dftN ρs ns hρ _ j hj

/-! ## `demag_field` through the transforms = the circular convolution of the model -/

theorem map_sumTo (ι : ℚ →+* R) (n : Nat) (g : Nat → Rat) : ι (sumTo n g) = sumN n fun k => ι (g k) := by
  induction n with
  | zero => simp [sumTo, sumN]
  | succ n ih => simp only [sumTo, sumN, map_add, ih]

theorem compA_embArr (ι : ℚ →+* R) (T : NDA (List Rat)) (c : Nat) (j : List Nat) :
    compA (embArr (⇑ι) T) c j = ι ((T.get j).getD c 0) := by
  unfold compA embArr NDA.map
  simp only
  rw [List.getD_eq_getElem?_getD, List.getD_eq_getElem?_getD, List.getElem?_map]
  cases (T.get j)[c]? <;> simp

theorem compA_padArr (ι : ℚ →+* R) (f : Fld) (b : Nat) (hb : b < 3) (r : List Nat) :
    compA (padArr (⇑ι) f) b r = ι (padded f b r) := by
  unfold compA padArr
  simp only
  rw [getD_tab _ _ _ _ hb]

/-- the circular convolution over a 3-d box, written with the model's sums -/
theorem cconvN3 (ι : ℚ →+* R) (N0 N1 N2 : Nat) (A B : List Nat → Rat) (p0 p1 p2 : Nat) :
    cconvN [N0, N1, N2] (fun j => ι (A j)) (fun r => ι (B r)) [p0, p1, p2]
      = ι (sum3 N0 N1 N2 fun j0 j1 j2 => A [j0, j1, j2] * B [subMod p0 j0 N0, subMod p1 j1 N1, subMod p2 j2 N2]) := by
  unfold cconvN sum3
  simp only [sumBox, subIdx, map_sumTo, map_mul]

/-- a materialised array reads like the original on the cells of its shape -/
theorem force_get_inRange {α} (a : NDA α) (d : α) (idx : List Nat) (h : inRange a.shape idx = true) :
    (a.force d).get idx = a.get idx := by
  have hlt := flatC_lt a.shape idx h
  have hpos := inRange_pos a.shape idx h
  show (NDA.ofList a.shape a.toList d).get idx = a.get idx
  unfold NDA.ofList NDA.ofArray NDA.toList indicesC
  simp only
  rw [Array.getD_eq_getD_getElem?]
  simp only [List.getElem?_toArray, List.getElem?_map]
  rw [List.getElem?_range hlt]
  simp [unflatC_flatC a.shape idx h]

theorem compA_force (a : NDA (List R)) (c : Nat) (idx : List Nat) (h : inRange a.shape idx = true) :
    compA (a.force []) c idx = compA a c idx := by
  unfold compA; rw [force_get_inRange a [] idx h]

theorem compA_mk (sh : List Nat) (F : List Nat → List R) (a : Nat) (i : List Nat) :
    compA (⟨sh, F⟩ : NDA (List R)) a i = (F i).getD a 0 := rfl

/-- `ifftn(fftn(T)·fftn(M))`, component `a`, for arrays over `R` of a common shape: the sum over `b` of
the circular convolutions of `T_ab` with `M_b` -/
theorem demagFFTArr_gen (ρs : List (Root R)) (Tq Mq : NDA (List R)) (sh : List Nat) (hT : Tq.shape = sh) (hM : Mq.shape = sh)
    (hρ : Roots sh ρs) (a : Nat) (ha : a < 3) (p : List Nat) (hp : inRange sh p = true) :
    compA (demagFFTArr ρs (fftnArr ρs 6 Tq) Mq) a p
      = cconvN sh (compA Tq (symIdx a 0)) (compA Mq 0) p + cconvN sh (compA Tq (symIdx a 1)) (compA Mq 1) p
        + cconvN sh (compA Tq (symIdx a 2)) (compA Mq 2) p := by
  have hs6 : symIdx a 0 < 6 ∧ symIdx a 1 < 6 ∧ symIdx a 2 < 6 := by
    unfold symIdx
    rcases (by omega : a = 0 ∨ a = 1 ∨ a = 2) with rfl | rfl | rfl <;> simp
  unfold demagFFTArr
  rw [ifftnArr_get _ _ _ _ _ ha]
  have hsh : ((specProd (fftnArr ρs 6 Tq) ((fftnArr ρs 3 Mq).force [])).force []).shape = sh := hT
  simp only [hsh]
  rw [idftN_congr ρs sh _ (fun k =>
      1 * (1 * (dftN ρs sh (compA Tq (symIdx a 0)) k * dftN ρs sh (compA Mq 0) k)
            + 1 * (dftN ρs sh (compA Tq (symIdx a 1)) k * dftN ρs sh (compA Mq 1) k))
        + 1 * (dftN ρs sh (compA Tq (symIdx a 2)) k * dftN ρs sh (compA Mq 2) k)) p
    (fun k hk => by
      have e1 : ∀ c, c < 6 → compA (fftnArr ρs 6 Tq) c (ishift sh k) = dftN ρs sh (compA Tq c) k := by
        intro c hc
        rw [fftnArr_get ρs 6 Tq (ishift sh k) c hc, hT, fshift_ishift sh k hk]
      have e2 : ∀ b, b < 3 → compA (fftnArr ρs 3 Mq) b (ishift sh k) = dftN ρs sh (compA Mq b) k := by
        intro b hb
        rw [fftnArr_get ρs 3 Mq (ishift sh k) b hb, hM, fshift_ishift sh k hk]
      have hik := ishift_inRange sh k hk
      rw [compA_force _ _ _ (by show inRange (fftnArr ρs 6 Tq).shape _ = true; rw [show (fftnArr ρs 6 Tq).shape = sh from hT]; exact hik)]
      unfold specProd
      rw [compA_mk, getD_tab _ _ _ _ ha,
        compA_force _ 0 _ (by show inRange Mq.shape _ = true; rw [hM]; exact hik),
        compA_force _ 1 _ (by show inRange Mq.shape _ = true; rw [hM]; exact hik),
        compA_force _ 2 _ (by show inRange Mq.shape _ = true; rw [hM]; exact hik), e1 _ hs6.1, e1 _ hs6.2.1, e1 _ hs6.2.2, e2 0 (by omega), e2 1 (by omega), e2 2 (by omega)]
      ring)]
  rw [C11.ifft_linear, C11.ifft_linear, idftN_mul_dftN ρs sh hρ _ _ p hp, idftN_mul_dftN ρs sh hρ _ _ p hp,
    idftN_mul_dftN ρs sh hρ _ _ p hp]
  ring

/-- ONE COMPONENT OF `ifftn(tensor_hat · fftn(m_pad))` IS THE MODEL'S CIRCULAR CONVOLUTION -/
theorem demagFFTArr_get (ι : ℚ →+* R) (ρs : List (Root R)) (T : NDA (List Rat)) (f : Fld)
    (hT : T.shape = [2 * f.mesh.nAt 0 - 1, 2 * f.mesh.nAt 1 - 1, 2 * f.mesh.nAt 2 - 1])
    (hρ : Roots [2 * f.mesh.nAt 0 - 1, 2 * f.mesh.nAt 1 - 1, 2 * f.mesh.nAt 2 - 1] ρs)
    (a : Nat) (ha : a < 3) (p0 p1 p2 : Nat) (h0 : p0 < 2 * f.mesh.nAt 0 - 1) (h1 : p1 < 2 * f.mesh.nAt 1 - 1)
    (h2 : p2 < 2 * f.mesh.nAt 2 - 1) :
    compA (demagFFTArr ρs (tensorSpectrum (⇑ι) ρs T) (padArr (⇑ι) f)) a [p0, p1, p2] = ι (circConv T f a [p0, p1, p2]) := by
  have hp : inRange [2 * f.mesh.nAt 0 - 1, 2 * f.mesh.nAt 1 - 1, 2 * f.mesh.nAt 2 - 1] [p0, p1, p2] = true := by
    simp [inRange, h0, h1, h2]
  unfold tensorSpectrum
  rw [demagFFTArr_gen ρs (embArr (⇑ι) T) (padArr (⇑ι) f) _ hT rfl hρ a ha _ hp]
  have ec : ∀ c, compA (embArr (⇑ι) T) c = fun j => ι ((T.get j).getD c 0) := fun c => funext fun j => compA_embArr ι T c j
  have ep : ∀ b, b < 3 → compA (padArr (⇑ι) f) b = fun r => ι (padded f b r) := fun b hb => funext fun r => compA_padArr ι f b hb r
  rw [ec, ec, ec, ep 0 (by omega), ep 1 (by omega), ep 2 (by omega), cconvN3, cconvN3, cconvN3]
  unfold circConv
  simp only [sumTo, List.getD_cons_zero, List.getD_cons_succ, map_add, map_zero]
  ring

end ring
end DFV.C19
