import Mathlib.Tactic.Ring
import Mathlib.Tactic.Linarith
import Mathlib.Tactic.FieldSimp
import Mathlib.Tactic.Push
import DFV.Model.C04
import DFV.Lemmas.Tab
/-! helper lemmas for C04 -/
namespace DFV.C04
open DFV

theorem sdcGo_run (d : List Rat → List Rat) (r : List Rat) (acc : List Rat) (rest : List (Rat × Bool)) :
    sdcGo d (r.map (·, true) ++ rest) acc = sdcGo d rest (r.reverse ++ acc) := by
  induction r generalizing acc with
  | nil => simp
  | cons x xs ih => simp [sdcGo, ih]

theorem sdcGo_segment (d : List Rat → List Rat) (hd : d [] = [])
    (a : List (Rat × Bool)) (y : Rat) (r : List Rat) (z : Rat) (b : List (Rat × Bool)) (acc : List Rat) :
    sdcGo d (a ++ (y, false) :: (r.map (·, true) ++ (z, false) :: b)) acc
      = sdcGo d (a ++ [(y, false)]) acc ++ d r ++ 0 :: sdcGo d b [] := by
  induction a generalizing acc with
  | nil =>
    simp only [List.nil_append, sdcGo]
    rw [sdcGo_run]
    simp [sdcGo, hd]
  | cons c cs ih =>
    obtain ⟨x, v⟩ := c
    cases v <;> simp [sdcGo, ih]

/-- run at the very start of the line -/
theorem sdcGo_head (d : List Rat → List Rat) (r : List Rat) (z : Rat) (b : List (Rat × Bool)) :
    sdcGo d (r.map (·, true) ++ (z, false) :: b) [] = d r ++ 0 :: sdcGo d b [] := by
  rw [sdcGo_run]; simp [sdcGo]

/-- run at the very end of the line -/
theorem sdcGo_tail (d : List Rat → List Rat) (hd : d [] = [])
    (a : List (Rat × Bool)) (y : Rat) (r : List Rat) (acc : List Rat) :
    sdcGo d (a ++ (y, false) :: r.map (·, true)) acc = sdcGo d (a ++ [(y, false)]) acc ++ d r := by
  induction a generalizing acc with
  | nil =>
    simp only [List.nil_append, sdcGo]
    have := sdcGo_run d r [] []
    simp only [List.append_nil] at this
    rw [this]; simp [sdcGo, hd]
  | cons c cs ih =>
    obtain ⟨x, v⟩ := c
    cases v <;> simp [sdcGo, ih]

theorem sdcGo_all_valid (d : List Rat → List Rat) (r : List Rat) :
    sdcGo d (r.map (·, true)) [] = d r := by
  have := sdcGo_run d r [] []
  simp only [List.append_nil] at this
  rw [this]; simp [sdcGo]

theorem diffRun_nil (order : Nat) (h : Rat) : diffRun order h [] = [] := by
  simp [diffRun, tab]

theorem diffRun_length (order : Nat) (h : Rat) (xs : List Rat) : (diffRun order h xs).length = xs.length := by
  simp [diffRun]

theorem diffRun_getD (order : Nat) (h : Rat) (xs : List Rat) (i : Nat) (hi : i < xs.length) :
    (diffRun order h xs).getD i 0 = dAt order h xs.length (fun k => xs.getD k 0) i := by
  unfold diffRun
  rw [getD_tab _ _ _ _ hi]

/-- length of the output of the code-shaped pass, given `d` preserves lengths -/
theorem sdcGo_length (d : List Rat → List Rat) (hd : ∀ xs, (d xs).length = xs.length)
    (cells : List (Rat × Bool)) (acc : List Rat) :
    (sdcGo d cells acc).length = cells.length + acc.length := by
  induction cells generalizing acc with
  | nil => simp [sdcGo, hd]
  | cons c cs ih =>
    obtain ⟨x, v⟩ := c
    cases v
    · simp [sdcGo, ih, hd]; omega
    · simp [sdcGo, ih]; omega

theorem wrap1_eq {α} (xs : List α) (x : α) : 
    wrap1 (x :: xs) = (x :: xs).getLast (by simp) :: (x :: xs) ++ [x] := by
  unfold wrap1
  simp [List.getLast?_eq_some_getLast]

theorem wrap1_map {α β} (f : α → β) (xs : List α) : wrap1 (xs.map f) = (wrap1 xs).map f := by
  cases xs with
  | nil => simp [wrap1]
  | cons x xs => 
    rw [List.map_cons, wrap1_eq, wrap1_eq]
    have : (f x :: List.map f xs).getLast (by simp) = f ((x :: xs).getLast (by simp)) := by
      have h := List.getLast_map (f := f) (l := x :: xs) (by simp)
      simpa using h
    simp [this]

theorem wrap1_length {α} (xs : List α) (h : xs ≠ []) : (wrap1 xs).length = xs.length + 2 := by
  cases xs with
  | nil => simp at h
  | cons x xs => rw [wrap1_eq]; simp

theorem wrap1_getD (xs : List Rat) (h : xs ≠ []) (k : Nat) (hk : k < xs.length + 2) :
    (wrap1 xs).getD k 0 = 
      if k = 0 then xs.getD (xs.length - 1) 0 else if k ≤ xs.length then xs.getD (k - 1) 0 else xs.getD 0 0 := by
  cases xs with
  | nil => simp at h
  | cons x xs =>
    rw [wrap1_eq]
    cases k with
    | zero => 
      simp [List.getLast_eq_getElem, List.getD_eq_getElem?_getD]
    | succ k =>
      simp only [List.cons_append, List.getD_cons_succ, Nat.add_sub_cancel]
      by_cases hle : k + 1 ≤ (x :: xs).length
      · simp only [Nat.succ_ne_zero, if_false, hle, if_true]
        rw [List.getD_eq_getElem?_getD, List.getD_eq_getElem?_getD, ← List.cons_append,
          List.getElem?_append_left (by simp at hle ⊢; omega)]
      · simp only [Nat.succ_ne_zero, if_false, hle]
        have : k = (x :: xs).length := by simp at hk hle ⊢; omega
        subst this
        simp [List.getD_eq_getElem?_getD]


/-- all-valid ring: the cropped output is the padded run's interior -/
theorem diffRing_all_valid_getD (order : Nat) (h : Rat) (xs : List Rat) (hne : xs ≠ []) (j : Nat) (hj : j < xs.length) :
    (diffRing order h (xs.map (·, true))).getD j 0
      = dAt order h (xs.length + 2) (fun k => (wrap1 xs).getD k 0) (j + 1) := by
  unfold diffRing
  rw [wrap1_map]
  unfold diffLine sdc
  rw [sdcGo_all_valid]
  simp only [List.length_map]
  rw [List.getD_eq_getElem?_getD, List.getElem?_take_of_lt hj, List.getElem?_drop, ← List.getD_eq_getElem?_getD]
  rw [Nat.add_comm 1 j, diffRun_getD _ _ _ _ (by rw [wrap1_length _ hne]; omega), wrap1_length _ hne]

theorem ringVal_succ (xs : List Rat) (j : Nat) (hj : j < xs.length) :
    (wrap1 xs).getD (j + 2) 0 = ringVal xs (j + 1) := by
  have hne : xs ≠ [] := by intro h; simp [h] at hj
  rw [wrap1_getD xs hne _ (by omega)]
  unfold ringVal
  by_cases hl : j + 2 ≤ xs.length
  · simp [hl, Nat.mod_eq_of_lt (by omega : j + 1 < xs.length)]
  · have : j + 1 = xs.length := by omega
    simp [hl, this]

theorem ringVal_pred (xs : List Rat) (j : Nat) (hj : j < xs.length) :
    (wrap1 xs).getD j 0 = ringVal xs (j + xs.length - 1) := by
  have hne : xs ≠ [] := by intro h; simp [h] at hj
  rw [wrap1_getD xs hne _ (by omega)]
  unfold ringVal
  cases j with
  | zero => simp [Nat.mod_eq_of_lt (by omega : xs.length - 1 < xs.length)]
  | succ j =>
    have h1 : j + 1 + xs.length - 1 = j + xs.length := by omega
    have h2 : (j + xs.length) % xs.length = j := by
      rw [Nat.add_mod_right]; exact Nat.mod_eq_of_lt (by omega)
    simp [h1, h2, (by omega : j + 1 ≤ xs.length)]

theorem ringVal_self (xs : List Rat) (j : Nat) (hj : j < xs.length) :
    (wrap1 xs).getD (j + 1) 0 = ringVal xs j := by
  have hne : xs ≠ [] := by intro h; simp [h] at hj
  rw [wrap1_getD xs hne _ (by omega)]
  unfold ringVal
  simp [(by omega : j + 1 ≤ xs.length), Nat.mod_eq_of_lt hj]

theorem ringVal_roll (xs : List Rat) (s j : Nat) (hne : xs ≠ []) : ringVal (roll xs s) j = ringVal xs (j + s) := by
  have hL : 0 < xs.length := List.length_pos_iff.mpr hne
  unfold ringVal roll
  simp only [tab_length]
  rw [getD_tab _ _ _ _ (Nat.mod_lt _ hL)]
  unfold ringVal
  congr 1
  rw [Nat.add_mod, Nat.mod_mod, ← Nat.add_mod]

theorem ringVal_congr (xs : List Rat) (a b : Nat) (h : a % xs.length = b % xs.length) :
    ringVal xs a = ringVal xs b := by unfold ringVal; rw [h]


theorem sdcGo_append_invalid (d : List Rat → List Rat) (hd : d [] = []) (rest : List (Rat × Bool)) (y : Rat) (acc : List Rat) :
    sdcGo d (rest ++ [(y, false)]) acc = sdcGo d rest acc ++ [0] := by
  induction rest generalizing acc with
  | nil => simp [sdcGo, hd]
  | cons c cs ih =>
    obtain ⟨x, v⟩ := c
    cases v <;> simp [sdcGo, ih]

theorem sdcGo_cons_valid_then_invalid (d : List Rat → List Rat) (hd1 : ∀ x, (d [x]).length = 1)
    (l y : Rat) (rest : List (Rat × Bool)) :
    (sdcGo d ((l, true) :: (y, false) :: rest) []).drop 1 = 0 :: sdcGo d rest [] := by
  simp only [sdcGo, List.reverse_cons, List.reverse_nil, List.nil_append]
  have := hd1 l
  match h : d [l] with
  | [] => rw [h] at this; simp at this
  | [a] => simp
  | a :: b :: t => rw [h] at this; simp at this


theorem sdcGo_split_invalid (d : List Rat → List Rat) (rest tail : List (Rat × Bool)) (y : Rat) (acc : List Rat) :
    sdcGo d (rest ++ (y, false) :: tail) acc = sdcGo d rest acc ++ 0 :: sdcGo d tail [] := by
  induction rest generalizing acc with
  | nil => simp [sdcGo]
  | cons c cs ih =>
    obtain ⟨x, v⟩ := c
    cases v <;> simp [sdcGo, ih]


end DFV.C04
