import DFV.Lemmas.C06Obj
/-! Directional sums under quarter turns (C06): the line of cells through a cell of the turned
field along axis `a` is the line through the source cell along the axis that was turned onto `a`
(traversed forwards or backwards), so directional integrals and means follow the axes. -/
namespace DFV.C06
open DFV DFV.T

theorem sumTo_shift (n : Nat) (F : Nat → Rat) : sumTo (n + 1) F = F 0 + sumTo n (fun t => F (t + 1)) := by
  have := sumTo_append 1 n F
  rw [Nat.add_comm] at this
  rw [this]
  simp only [sumTo]
  have e : (fun r => F (1 + r)) = fun t => F (t + 1) := by funext r; rw [Nat.add_comm]
  rw [e]; ring

/-- a sum does not depend on the direction of traversal -/
theorem sumTo_reverse (n : Nat) (F : Nat → Rat) : sumTo n (fun t => F (n - 1 - t)) = sumTo n F := by
  induction n generalizing F with
  | zero => rfl
  | succ n ih =>
    rw [sumTo_shift (n) F]
    simp only [sumTo]
    have : sumTo n (fun t => F (n + 1 - 1 - t)) = sumTo n (fun t => F (t + 1)) := by
      rw [← ih (fun t => F (t + 1))]
      apply sumTo_congr
      intro t ht
      congr 1
      omega
    rw [this]
    simp
    ring

theorem list_ext_getD0 (l1 l2 : List Nat) (hl : l1.length = l2.length)
    (h : ∀ a, a < l1.length → l1.getD a 0 = l2.getD a 0) : l1 = l2 := by
  rw [eq_tab_of_getD l1 l1.length (fun a => l2.getD a 0) 0 rfl h]
  exact (eq_tab_of_getD l2 l1.length (fun a => l2.getD a 0) 0 hl.symm (fun _ _ => rfl)).symm

/-- is the line traversed backwards? -/
def rotRev (p q : Nat) (k : Int) (a : Nat) : Bool :=
  if a = p then (k % 4 = 2 ∨ k % 4 = 1) else if a = q then (k % 4 = 2 ∨ k % 4 = 3) else false

theorem getD_setAt0 (j : List Nat) (a t c : Nat) (ha : a < j.length) :
    (setAt j a t).getD c 0 = if c = a then t else j.getD c 0 := by
  rw [getD_setAt]
  by_cases hca : c = a
  · subst hca; simp [ha]
  · simp [hca]

/-- components of the source index -/
theorem srcIdx_getD (sh j : List Nat) (p q : Nat) (k : Int) (hpq : p ≠ q) (hp : p < sh.length) (hq : q < sh.length)
    (hjl : j.length = sh.length) (b : Nat) :
    (srcIdx sh p q k j).getD b 0 =
      if b = p then (srcPair (sh.getD p 0) (sh.getD q 0) k (j.getD p 0) (j.getD q 0)).1
      else if b = q then (srcPair (sh.getD p 0) (sh.getD q 0) k (j.getD p 0) (j.getD q 0)).2
      else j.getD b 0 := by
  obtain ⟨o_p, o_q, o_o⟩ := srcIdx_pair sh j p q k hpq (by rw [hjl]; exact hp) (by rw [hjl]; exact hq) hjl.symm
  by_cases e1 : b = p
  · subst e1; rw [if_pos rfl]; exact o_p
  · by_cases e2 : b = q
    · subst e2; rw [if_neg e1, if_pos rfl]; exact o_q
    · rw [if_neg e1, if_neg e2]; exact o_o b e1 e2

/-- moving along axis `a` in the turned array is moving along axis `rotSrc a` in the source,
forwards or backwards -/
theorem srcIdx_setAt (sh j : List Nat) (p q : Nat) (k : Int) (hpq : p ≠ q) (hp : p < sh.length) (hq : q < sh.length)
    (hjl : j.length = sh.length) (a : Nat) (ha : a < sh.length) (t : Nat) :
    srcIdx sh p q k (setAt j a t) = setAt (srcIdx sh p q k j) (rotSrc p q k a)
      (if rotRev p q k a then sh.getD (rotSrc p q k a) 0 - 1 - t else t) := by
  have hjl' : (setAt j a t).length = sh.length := by rw [setAt_length, hjl]
  have hJl : (srcIdx sh p q k j).length = sh.length := by rw [srcIdx_length, hjl]
  have hsrc : rotSrc p q k a < sh.length := rotSrc_lt p q k a _ hp hq ha
  apply list_ext_getD0
  · rw [srcIdx_length, hjl', setAt_length, hJl]
  · intro b _
    have g1 := srcIdx_getD sh (setAt j a t) p q k hpq hp hq hjl' b
    have g2 := getD_setAt0 (srcIdx sh p q k j) (rotSrc p q k a)
      (if rotRev p q k a then sh.getD (rotSrc p q k a) 0 - 1 - t else t) b (by rw [hJl]; exact hsrc)
    have g3 := srcIdx_getD sh j p q k hpq hp hq hjl b
    have haj : a < j.length := by rw [hjl]; exact ha
    have s1 := getD_setAt0 j a t p haj
    have s2 := getD_setAt0 j a t q haj
    have s3 := getD_setAt0 j a t b haj
    rw [g1, g2, g3, s1, s2, s3]
    have hk : k % 4 = 0 ∨ k % 4 = 1 ∨ k % 4 = 2 ∨ k % 4 = 3 := by omega
    have hqp : q ≠ p := Ne.symm hpq
    clear g1 g2 g3 s1 s2 s3
    rcases hk with hk | hk | hk | hk
    · have ho : isOdd k = false := by unfold isOdd; simp; omega
      simp only [srcPair, rotSrc, rotRev, ho, hk, eq_comm (a := p) (b := a), eq_comm (a := q) (b := a)]
      by_cases ea : a = p <;> by_cases eb : a = q <;> by_cases e1 : b = p <;> by_cases e2 : b = q <;>
        by_cases e3 : b = a <;> simp_all
    · have ho : isOdd k = true := by unfold isOdd; simp; omega
      simp only [srcPair, rotSrc, rotRev, ho, hk, eq_comm (a := p) (b := a), eq_comm (a := q) (b := a)]
      by_cases ea : a = p <;> by_cases eb : a = q <;> by_cases e1 : b = p <;> by_cases e2 : b = q <;>
        by_cases e3 : b = a <;> simp_all
    · have ho : isOdd k = false := by unfold isOdd; simp; omega
      simp only [srcPair, rotSrc, rotRev, ho, hk, eq_comm (a := p) (b := a), eq_comm (a := q) (b := a)]
      by_cases ea : a = p <;> by_cases eb : a = q <;> by_cases e1 : b = p <;> by_cases e2 : b = q <;>
        by_cases e3 : b = a <;> simp_all
    · have ho : isOdd k = true := by unfold isOdd; simp; omega
      simp only [srcPair, rotSrc, rotRev, ho, hk, eq_comm (a := p) (b := a), eq_comm (a := q) (b := a)]
      by_cases ea : a = p <;> by_cases eb : a = q <;> by_cases e1 : b = p <;> by_cases e2 : b = q <;>
        by_cases e3 : b = a <;> simp_all

/-- **sums along lines follow the axes**: summing along axis `a` through cell `j` of the turned
array is summing along axis `rotSrc a` through the source cell of `j` -/
theorem lineSum_rot (sh j : List Nat) (p q : Nat) (k : Int) (hpq : p ≠ q) (hp : p < sh.length) (hq : q < sh.length)
    (hjl : j.length = sh.length) (a : Nat) (ha : a < sh.length) (G : List Nat → Rat) :
    sumTo ((rotN sh p q k).getD a 0) (fun t => G (srcIdx sh p q k (setAt j a t)))
      = sumTo (sh.getD (rotSrc p q k a) 0) (fun u => G (setAt (srcIdx sh p q k j) (rotSrc p q k a) u)) := by
  rw [rotN_getD sh p q k hpq hp hq a]
  have e : (fun t => G (srcIdx sh p q k (setAt j a t)))
      = fun t => G (setAt (srcIdx sh p q k j) (rotSrc p q k a)
          (if rotRev p q k a then sh.getD (rotSrc p q k a) 0 - 1 - t else t)) := by
    funext t; rw [srcIdx_setAt sh j p q k hpq hp hq hjl a ha t]
  rw [e]
  cases rotRev p q k a with
  | false => rfl
  | true =>
    simp only [if_true]
    exact sumTo_reverse _ (fun u => G (setAt (srcIdx sh p q k j) (rotSrc p q k a) u))

theorem setAt_insertAt_self (i : List Nat) (ax j l : Nat) (h : ax ≤ i.length) :
    setAt (insertAt i ax j) ax l = insertAt i ax l := by
  rw [← insertAt_removeAt (insertAt i ax j) ax l (by rw [insertAt_length]; omega), removeAt_insertAt i ax j h]

/-- **Directional integrals follow the axes under a quarter turn.**  `integrate(d)` of the turned
field, at the reduced cell `i`, is the cell length of the axis that was turned onto `d` times the
sum along THAT axis of the field through the source cell of `i` - with the two mapped components
of a vector field turned by the quarter-turn matrix. -/
theorem rot_dir_vals (f : Fld) (hf : WF f) (hl : CellLen f) (a1 a2 : String) (k : Int) (ref : Option (List Rat))
    (b : Bool) (x g : Fld) (h : rotate90F f a1 a2 k ref b = .ok (x, g)) (d : String) (r : Res)
    (hr : integrate g (.name d) false = .ok r) :
    ∃ i1 i2 a, f.mesh.region.dim2index a1 = .ok i1 ∧ f.mesh.region.dim2index a2 = .ok i2 ∧
      f.mesh.region.dim2index d = .ok a ∧ a < f.mesh.ndim ∧ rotSrc i1 i2 k a < f.mesh.ndim ∧
      r.shape = removeAt (rotN f.mesh.n i1 i2 k) a ∧
      ∀ i c, inRange (removeAt (rotN f.mesh.n i1 i2 k) a) i = true → c < f.nvdim →
        inRange f.mesh.n (srcIdx f.mesh.n i1 i2 k (insertAt i a 0)) = true ∧
        r.cval i c = (turnVals f a1 a2 k (tab f.nvdim fun c' =>
          f.mesh.cellAt (rotSrc i1 i2 k a) * sumTo (f.mesh.nAt (rotSrc i1 i2 k a))
            (fun u => cget f.data (setAt (srcIdx f.mesh.n i1 i2 k (insertAt i a 0)) (rotSrc i1 i2 k a) u) c'))).getD c 0 := by
  obtain ⟨i1, i2, d1, d2, h12, l1, l2, hwg, hnv, hnd, hdims, hn, hshape, hcell, _, _, _, _, _, _, hdata⟩ :=
    rotate90F_cells f hf a1 a2 k ref b x g h
  obtain ⟨a, hax, haxlt, hrs, _, hval⟩ := dir_cval g hwg d r hr
  rw [dim2index_congr f.mesh.region g.mesh.region hdims d] at hax
  rw [hnd] at haxlt
  rw [hn] at hrs hval
  have hnl : f.mesh.n.length = f.mesh.ndim := hf.1.2.1
  have hp1 : i1 < f.mesh.n.length := by rw [hnl]; exact l1
  have hp2 : i2 < f.mesh.n.length := by rw [hnl]; exact l2
  have han : a < f.mesh.n.length := by rw [hnl]; exact haxlt
  have hsrc : rotSrc i1 i2 k a < f.mesh.ndim := rotSrc_lt i1 i2 k a _ l1 l2 haxlt
  have hpos : ∀ n ∈ f.mesh.n, 0 < n := DFV.C13.mem_pos_of_nAt f.mesh hf.1.2.1 hf.1.2.2
  have hpos' := rotN_pos f.mesh.n i1 i2 k hp1 hp2 hpos
  refine ⟨i1, i2, a, d1, d2, hax, haxlt, hsrc, hrs, ?_⟩
  intro i c hi hc
  -- the full index with 0 inserted, and its source cell
  have hrl : (rotN f.mesh.n i1 i2 k).length = f.mesh.n.length := rotN_length _ _ _ _
  have hila := inRange_length _ _ hi
  have hrm := removeAt_length (rotN f.mesh.n i1 i2 k) a (by rw [hrl]; exact han)
  have hai : a ≤ i.length := by omega
  have h0 : 0 < (rotN f.mesh.n i1 i2 k).getD a 0 := by
    have hmem : (rotN f.mesh.n i1 i2 k).getD a 0 ∈ rotN f.mesh.n i1 i2 k := by
      rw [List.getD_eq_getElem?_getD, List.getElem?_eq_getElem (by rw [hrl]; exact han)]
      exact List.getElem_mem _
    exact hpos' _ hmem
  have hj0 : inRange (rotN f.mesh.n i1 i2 k) (insertAt i a 0) = true :=
    inRange_insertAt _ i a 0 (by rw [hrl]; exact han) hi h0
  have hj0l : (insertAt i a 0).length = f.mesh.n.length := by rw [inRange_length _ _ hj0, hrl]
  have hJ : inRange f.mesh.n (srcIdx f.mesh.n i1 i2 k (insertAt i a 0)) = true :=
    srcIdx_inRange' f.mesh.n _ i1 i2 k h12 hp1 hp2 hj0
  refine ⟨hJ, ?_⟩
  rw [hval i c hi (by rw [hnv]; exact hc)]
  have hins : ∀ t, insertAt i a t = setAt (insertAt i a 0) a t := fun t => (setAt_insertAt_self i a 0 t hai).symm
  have hgn : g.mesh.nAt a = (rotN f.mesh.n i1 i2 k).getD a 0 := by unfold Mesh.nAt; rw [hn]
  -- the line functional on any component of the source field
  obtain ⟨L, hL⟩ : ∃ L : Nat → Rat, ∀ c', L c' = f.mesh.cellAt (rotSrc i1 i2 k a) * sumTo (f.mesh.nAt (rotSrc i1 i2 k a))
      (fun u => cget f.data (setAt (srcIdx f.mesh.n i1 i2 k (insertAt i a 0)) (rotSrc i1 i2 k a) u) c') :=
    ⟨fun c' => _, fun _ => rfl⟩
  have htab : (tab f.nvdim fun c' => f.mesh.cellAt (rotSrc i1 i2 k a) * sumTo (f.mesh.nAt (rotSrc i1 i2 k a))
      (fun u => cget f.data (setAt (srcIdx f.mesh.n i1 i2 k (insertAt i a 0)) (rotSrc i1 i2 k a) u) c')) = tab f.nvdim L :=
    tab_congr _ _ _ (fun c' _ => (hL c').symm)
  rw [htab]
  have hline : ∀ c', g.mesh.cellAt a * sumTo (g.mesh.nAt a)
        (fun t => cget f.data (srcIdx f.mesh.n i1 i2 k (insertAt i a t)) c') = L c' := by
    intro c'
    rw [hL c', hcell a haxlt, hgn]
    congr 1
    have e : (fun t => cget f.data (srcIdx f.mesh.n i1 i2 k (insertAt i a t)) c')
        = fun t => (fun x => cget f.data x c') (srcIdx f.mesh.n i1 i2 k (setAt (insertAt i a 0) a t)) := by
      funext t; rw [hins t]
    rw [e, lineSum_rot f.mesh.n (insertAt i a 0) i1 i2 k h12 hp1 hp2 hj0l a han (fun x => cget f.data x c')]
    rfl
  have hLge : ∀ c', f.nvdim ≤ c' → L c' = 0 := by
    intro c' hc'
    rw [hL c']
    rw [sumTo_congr _ _ (fun _ => 0) (fun u hu => by
      have hin : inRange f.data.shape (setAt (srcIdx f.mesh.n i1 i2 k (insertAt i a 0)) (rotSrc i1 i2 k a) u) = true := by
        rw [hf.2]; exact inRange_setAt _ _ _ _ hJ hu
      unfold cget
      rw [List.getD_eq_getElem?_getD, List.getElem?_eq_none (by rw [hl _ hin]; exact hc')]; rfl)]
    rw [sumTo_zero]; ring
  have hLtab : ∀ c', (tab f.nvdim L).getD c' 0 = L c' := by
    intro c'
    by_cases hc' : c' < f.nvdim
    · rw [getD_tab _ _ _ _ hc']
    · rw [getD_tab_ge _ _ _ _ (not_lt.mp hc'), hLge c' (not_lt.mp hc')]
  unfold turnVals
  rcases hdata with ⟨hv, e⟩ | ⟨hv, c1, c2, hc1, hc2, e⟩
  · rw [if_neg (by omega), getD_tab _ _ _ _ hc, ← hline c]
    congr 1
    apply sumTo_congr
    intro t _
    unfold cget; rw [e, hf.2]
  · rw [if_pos hv, hc1, hc2]
    simp only
    rw [rotVec_getD _ _ _ _ _ (by simpa [tab] using hc), hLtab, hLtab, hLtab, ← hline c1, ← hline c2, ← hline c]
    have hcell_t : ∀ t, t < g.mesh.nAt a →
        cget g.data (insertAt i a t) c =
          if c = c1 then cosq k * cget f.data (srcIdx f.mesh.n i1 i2 k (insertAt i a t)) c1
              - sinq k * cget f.data (srcIdx f.mesh.n i1 i2 k (insertAt i a t)) c2
          else if c = c2 then sinq k * cget f.data (srcIdx f.mesh.n i1 i2 k (insertAt i a t)) c1
              + cosq k * cget f.data (srcIdx f.mesh.n i1 i2 k (insertAt i a t)) c2
          else cget f.data (srcIdx f.mesh.n i1 i2 k (insertAt i a t)) c := by
      intro t ht
      have hjt : inRange (rotN f.mesh.n i1 i2 k) (insertAt i a t) = true :=
        inRange_insertAt _ i a t (by rw [hrl]; exact han) hi (by rw [← hgn]; exact ht)
      have hJt : inRange f.data.shape (srcIdx f.mesh.n i1 i2 k (insertAt i a t)) = true := by
        rw [hf.2]; exact srcIdx_inRange' f.mesh.n _ i1 i2 k h12 hp1 hp2 hjt
      unfold cget
      rw [e, hf.2, rotVec_getD _ _ _ _ _ (by rw [hl _ hJt]; exact hc)]
    rw [sumTo_congr _ _ _ hcell_t]
    by_cases e1 : c = c1
    · subst e1
      simp only [if_true]
      have e' : (fun t => cosq k * cget f.data (srcIdx f.mesh.n i1 i2 k (insertAt i a t)) c
            - sinq k * cget f.data (srcIdx f.mesh.n i1 i2 k (insertAt i a t)) c2)
          = fun t => cosq k * cget f.data (srcIdx f.mesh.n i1 i2 k (insertAt i a t)) c
            + (-sinq k) * cget f.data (srcIdx f.mesh.n i1 i2 k (insertAt i a t)) c2 := by
        funext t; ring
      rw [e', sumTo_lin]
      ring
    · by_cases e2 : c = c2
      · subst e2
        simp only [e1, if_false, if_true]
        rw [sumTo_lin]; ring
      · simp only [e1, e2, if_false]

/-- the name stored at position `a` of the direction names is looked up at position `a` -/
theorem dim2index_getD (r : Region) (hnd : hasDup r.dims = false) (a : Nat) (ha : a < r.dims.length) :
    r.dim2index (r.dims.getD a "") = .ok a := by
  have hmem : r.dims.getD a "" ∈ r.dims := by
    rw [List.getD_eq_getElem?_getD, List.getElem?_eq_getElem ha]; exact List.getElem_mem _
  obtain ⟨p, hp⟩ := dim2index_of_mem _ _ hmem
  obtain ⟨hpl, hpd⟩ := dim2index_ok _ _ _ hp
  rw [hp, nodup_getD_inj _ (nodup_of_hasDup _ hnd) p a hpl ha hpd]

/-- a field without subregions has none after a quarter turn -/
theorem rotate90F_subs_nil (f : Fld) (hs : f.mesh.subs = []) (a1 a2 : String) (k : Int) (ref : Option (List Rat))
    (b : Bool) (x g : Fld) (h : rotate90F f a1 a2 k ref b = .ok (x, g)) : g.mesh.subs = [] := by
  obtain ⟨y, m', _, _, hm', _, _, e1, _⟩ := rotate90F_inv f a1 a2 k ref b x g h
  obtain ⟨_, _, _, _, _, _, hfa⟩ := stepM_rot_subs f.mesh (by intro p hp; rw [hs] at hp; simp at hp) a1 a2 k ref false y m' hm'
  rw [hs] at hfa
  rw [e1]
  cases hms : m'.subs with
  | nil => rfl
  | cons q qs => rw [hms] at hfa; cases hfa

end DFV.C06
