import DFV.Lemmas.C06Acc
import DFV.Lemmas.C12Comp
/-! Quarter turns (C06): `Field.rotate90` permutes the cells (`np.rot90`), swaps the cell lengths of
the two axes for odd `k` and turns the two mapped components by the exact quarter-turn matrix
(shared model `DFV/Model/Transform.lean`, `rotate90F`).  Sums over all cells are invariant under
the permutation, the cell volume under the swap, so `integrate()` and `mean()` of the turned field
are those of the field with the two mapped components turned. -/
namespace DFV.C06
open DFV DFV.T

/-! ## sums over a permuted index list -/

theorem lsum_perm {l1 l2 : List Rat} (h : l1.Perm l2) : lsum l1 = lsum l2 := by
  induction h with
  | nil => rfl
  | cons x _ ih => simp only [lsum, ih]
  | swap x y l => simp only [lsum]; ring
  | trans _ _ ih1 ih2 => rw [ih1, ih2]

theorem nodup_map_of_inj_on {α β} (f : α → β) (l : List α) (hn : l.Nodup)
    (hinj : ∀ a ∈ l, ∀ b ∈ l, f a = f b → a = b) : (l.map f).Nodup := by
  induction l with
  | nil => simp
  | cons x xs ih =>
    rw [List.map_cons, List.nodup_cons]
    obtain ⟨hx, hxs⟩ := List.nodup_cons.mp hn
    refine ⟨?_, ih hxs (fun a ha b hb => hinj a (List.mem_cons_of_mem _ ha) b (List.mem_cons_of_mem _ hb))⟩
    intro hmem
    obtain ⟨y, hy, hfy⟩ := List.mem_map.mp hmem
    have := hinj y (List.mem_cons_of_mem _ hy) x List.mem_cons_self hfy
    subst this; exact hx hy

theorem mem_indicesC (sh : List Nat) (hpos : ∀ n ∈ sh, 0 < n) (i : List Nat) :
    i ∈ indicesC sh ↔ inRange sh i = true := by
  unfold indicesC
  rw [List.mem_map]
  constructor
  · rintro ⟨k, hk, rfl⟩
    exact unflatC_inRange sh k hpos (List.mem_range.mp hk)
  · intro h
    exact ⟨flatC sh i, List.mem_range.mpr (flatC_lt sh i h), unflatC_flatC sh i h⟩

theorem nodup_indicesC (sh : List Nat) (hpos : ∀ n ∈ sh, 0 < n) : (indicesC sh).Nodup := by
  unfold indicesC
  apply nodup_map_of_inj_on _ _ List.nodup_range
  intro a ha b hb hab
  rw [← flatC_unflatC sh a hpos (List.mem_range.mp ha), ← flatC_unflatC sh b hpos (List.mem_range.mp hb), hab]

/-- the identity array of a shape: `get j = j` -/
def idArr (sh : List Nat) : NDA (List Nat) := ⟨sh, id⟩

theorem rotN_eq_shape (sh : List Nat) (p q : Nat) (k : Int) : (rot90 (idArr sh) p q k).shape = rotN sh p q k := by
  rw [DFV.C13.rot90_shape]; rfl

theorem srcIdx_zero (sh : List Nat) (p q : Nat) (j : List Nat) : srcIdx sh p q 0 j = j := by
  unfold srcIdx; simp

theorem rotN_zero (sh : List Nat) (p q : Nat) : rotN sh p q 0 = sh := by
  unfold rotN isOdd; simp

/-- `srcIdx` by `k` after `srcIdx` by `-k` (on the turned shape) is the identity on the shape -/
theorem srcIdx_right_inv (sh : List Nat) (p q : Nat) (k : Int) (hpq : p ≠ q) (hp : p < sh.length) (hq : q < sh.length)
    (j : List Nat) (hj : inRange sh j = true) :
    srcIdx sh p q k (srcIdx (rotN sh p q k) p q (-k) j) = j := by
  have h := (rot90_compose' (idArr sh) p q k (-k) hpq hp hq).2 j (by
    rw [add_neg_cancel, rotN_eq_shape, rotN_zero]; exact hj)
  rw [rot90_get, rot90_get, rot90_get, rotN_eq_shape, add_neg_cancel] at h
  simpa [idArr, srcIdx_zero] using h

theorem rotN_length (sh : List Nat) (p q : Nat) (k : Int) : (rotN sh p q k).length = sh.length := by
  unfold rotN; split <;> simp [swapAt_length]

/-- … and the other way round, on the turned shape -/
theorem srcIdx_left_inv (sh : List Nat) (p q : Nat) (k : Int) (hpq : p ≠ q) (hp : p < sh.length) (hq : q < sh.length)
    (j : List Nat) (hj : inRange (rotN sh p q k) j = true) :
    srcIdx (rotN sh p q k) p q (-k) (srcIdx sh p q k j) = j := by
  have h := srcIdx_right_inv (rotN sh p q k) p q (-k) hpq (by rw [rotN_length]; exact hp) (by rw [rotN_length]; exact hq) j hj
  rw [rotN_compose sh p q k (-k) hpq hp hq, add_neg_cancel, rotN_zero, neg_neg] at h
  exact h

theorem rotN_pos (sh : List Nat) (p q : Nat) (k : Int) (hp : p < sh.length) (hq : q < sh.length)
    (hpos : ∀ n ∈ sh, 0 < n) : ∀ n ∈ rotN sh p q k, 0 < n := by
  unfold rotN
  split
  · exact DFV.C13.mem_swapAt_pos sh p q hpos hp hq
  · exact hpos

theorem srcIdx_inRange' (sh j : List Nat) (p q : Nat) (k : Int) (hpq : p ≠ q) (hp : p < sh.length) (hq : q < sh.length)
    (hj : inRange (rotN sh p q k) j = true) : inRange sh (srcIdx sh p q k j) = true :=
  srcIdx_inRange sh j p q k hpq hp hq hj

/-- the source indices of `np.rot90`, taken over all indices of the turned shape, are a
permutation of the indices of the shape -/
theorem indicesC_rot_perm (sh : List Nat) (p q : Nat) (k : Int) (hpq : p ≠ q) (hp : p < sh.length) (hq : q < sh.length)
    (hpos : ∀ n ∈ sh, 0 < n) :
    ((indicesC (rotN sh p q k)).map (srcIdx sh p q k)).Perm (indicesC sh) := by
  have hpos' := rotN_pos sh p q k hp hq hpos
  rw [List.perm_ext_iff_of_nodup _ (nodup_indicesC sh hpos)]
  · intro i
    rw [List.mem_map, mem_indicesC sh hpos]
    constructor
    · rintro ⟨j, hj, rfl⟩
      exact srcIdx_inRange' sh j p q k hpq hp hq ((mem_indicesC _ hpos' j).mp hj)
    · intro hi
      refine ⟨srcIdx (rotN sh p q k) p q (-k) i, ?_, srcIdx_right_inv sh p q k hpq hp hq i hi⟩
      rw [mem_indicesC _ hpos']
      apply srcIdx_inRange' (rotN sh p q k) i p q (-k) hpq (by rw [rotN_length]; exact hp) (by rw [rotN_length]; exact hq)
      rw [rotN_compose sh p q k (-k) hpq hp hq, add_neg_cancel, rotN_zero]
      exact hi
  · apply nodup_map_of_inj_on _ _ (nodup_indicesC _ hpos')
    intro a ha b hb hab
    rw [← srcIdx_left_inv sh p q k hpq hp hq a ((mem_indicesC _ hpos' a).mp ha),
      ← srcIdx_left_inv sh p q k hpq hp hq b ((mem_indicesC _ hpos' b).mp hb), hab]

/-- **the sum over all cells is invariant under `np.rot90`**: summing `G` at the source index of
every cell of the turned shape is summing `G` over the shape -/
theorem nestSum_rot (sh : List Nat) (p q : Nat) (k : Int) (hpq : p ≠ q) (hp : p < sh.length) (hq : q < sh.length)
    (hpos : ∀ n ∈ sh, 0 < n) (G : List Nat → Rat) :
    nestSum (rotN sh p q k) (fun j => G (srcIdx sh p q k j)) = nestSum sh G := by
  rw [← lsum_indicesC, ← lsum_indicesC]
  have : (indicesC (rotN sh p q k)).map (fun j => G (srcIdx sh p q k j))
      = ((indicesC (rotN sh p q k)).map (srcIdx sh p q k)).map G := by rw [List.map_map]; rfl
  rw [this]
  exact lsum_perm ((indicesC_rot_perm sh p q k hpq hp hq hpos).map G)


theorem natProd_rotN (sh : List Nat) (p q : Nat) (k : Int) (hpq : p ≠ q) (hp : p < sh.length) (hq : q < sh.length)
    (hpos : ∀ n ∈ sh, 0 < n) : natProd (rotN sh p q k) = natProd sh := by
  have h := (indicesC_rot_perm sh p q k hpq hp hq hpos).length_eq
  simpa [indicesC] using h

/-! ## the cell lengths follow the axes -/

theorem rotSign_pm (i1 i2 : Nat) (k : Int) (a : Nat) : rotSign i1 i2 k a = 1 ∨ rotSign i1 i2 k a = -1 := by
  unfold rotSign
  rcases quarter_cases' k with ⟨hc, hs⟩ | ⟨hc, hs⟩ | ⟨hc, hs⟩ | ⟨hc, hs⟩ <;> rw [hc, hs] <;>
    (split
     · norm_num
     · split <;> norm_num)

theorem ratProd_setAt (l : List Rat) (i : Nat) (x : Rat) (hi : i < l.length) :
    ratProd (setAt l i x) * l.getD i 0 = ratProd l * x := by
  induction l generalizing i with
  | nil => simp at hi
  | cons y ys ih =>
    cases i with
    | zero => simp only [setAt, ratProd, List.getD_cons_zero]; ring
    | succ j =>
      simp only [setAt, ratProd, List.getD_cons_succ]
      have := ih j (by simpa using hi)
      calc y * ratProd (setAt ys j x) * ys.getD j 0 = y * (ratProd (setAt ys j x) * ys.getD j 0) := by ring
        _ = y * (ratProd ys * x) := by rw [this]
        _ = y * ratProd ys * x := by ring

/-- the product of per-axis quantities does not change when two axes trade places -/
theorem ratProd_tab_rotSrc (n : Nat) (c : Nat → Rat) (i1 i2 : Nat) (k : Int) (h12 : i1 ≠ i2) (h1 : i1 < n) (h2 : i2 < n)
    (hne : ∀ a, a < n → c a ≠ 0) :
    ratProd (tab n fun a => c (rotSrc i1 i2 k a)) = ratProd (tab n c) := by
  unfold rotSrc
  cases isOdd k with
  | false => rfl
  | true =>
    simp only [if_true]
    have hL : (tab n c).length = n := by simp [tab]
    have e : (tab n fun a => c (if a = i1 then i2 else if a = i2 then i1 else a))
        = setAt (setAt (tab n c) i1 (c i2)) i2 (c i1) := by
      symm
      apply eq_tab_of_getD _ _ _ 0 (by rw [setAt_length, setAt_length, hL])
      intro a ha
      by_cases e1 : a = i1
      · subst e1
        rw [getD_setAt_ne _ _ _ _ _ h12, getD_setAt_eq _ _ _ _ (by rw [hL]; exact ha)]
        simp
      · by_cases e2 : a = i2
        · subst e2
          rw [getD_setAt_eq _ _ _ _ (by rw [setAt_length, hL]; exact ha)]
          simp [e1]
        · rw [getD_setAt_ne _ _ _ _ _ e2, getD_setAt_ne _ _ _ _ _ e1, getD_tab _ _ _ _ ha]
          simp [e1, e2]
    rw [e]
    have p1 := ratProd_setAt (tab n c) i1 (c i2) (by rw [hL]; exact h1)
    have p2 := ratProd_setAt (setAt (tab n c) i1 (c i2)) i2 (c i1) (by rw [setAt_length, hL]; exact h2)
    rw [getD_tab _ _ _ _ h1] at p1
    rw [getD_setAt_ne _ _ _ _ _ (Ne.symm h12), getD_tab _ _ _ _ h2] at p2
    have hc2 := hne i2 h2
    have : ratProd (setAt (setAt (tab n c) i1 (c i2)) i2 (c i1)) * c i2 = ratProd (tab n c) * c i2 := by
      rw [p2, p1]
    exact mul_right_cancel₀ hc2 this

/-- the mesh after an accepted quarter turn (either form): same names, counts, edges and cell
lengths of the two axes traded for odd `k`, same cell volume -/
theorem stepM_rot_cells (m : Mesh) (hm : m.Inv) (a1 a2 : String) (k : Int) (ref : Option (List Rat)) (b : Bool)
    (y m' : Mesh) (h : stepM m (.rotate90 a1 a2 k ref b) = .ok (y, m')) :
    ∃ i1 i2, m.region.dim2index a1 = .ok i1 ∧ m.region.dim2index a2 = .ok i2 ∧ i1 ≠ i2 ∧ i1 < m.ndim ∧ i2 < m.ndim ∧
      m'.Inv ∧ m'.ndim = m.ndim ∧ m'.n = rotN m.n i1 i2 k ∧ m'.region.dims = m.region.dims ∧
      (∀ a, a < m.ndim → m'.region.edge a = m.region.edge (rotSrc i1 i2 k a)) ∧
      (∀ a, a < m.ndim → m'.nAt a = m.nAt (rotSrc i1 i2 k a)) ∧
      (∀ a, a < m.ndim → m'.cellAt a = m.cellAt (rotSrc i1 i2 k a)) ∧ dV m' = dV m := by
  obtain ⟨_, hinv', hn, x, hx⟩ := stepM_keeps m hm _ _ _ h
  simp only [stepR] at hx
  obtain ⟨_, _, i1, i2, d1, d2, h12, l1, l2, _, e, _⟩ := rotate90R_inv _ _ _ _ _ _ _ _ hx
  have hdl : m.region.dims.length = m.ndim := hm.1.2.2.1
  have hnl : m.n.length = m.ndim := hm.2.1
  have l1' : i1 < m.ndim := hdl ▸ l1
  have l2' : i2 < m.ndim := hdl ▸ l2
  have hn' : m'.n = rotN m.n i1 i2 k := by rw [hn]; simp only [opN, d1, d2]
  have hnd : m'.ndim = m.ndim := by
    show m'.region.ndim = _; rw [e, target_ndim]; rfl
  have hedge : ∀ a, a < m.ndim → m'.region.edge a = m.region.edge (rotSrc i1 i2 k a) := by
    intro a ha
    unfold Region.edge
    rw [e, target_lo _ _ _ _ _ ha, target_hi _ _ _ _ _ ha, rotCoord_affine _ _ _ _ _ h12, rotCoord_affine _ _ _ _ _ h12]
    have hs := rotSrc_lt i1 i2 k a m.ndim l1' l2' ha
    have hlt := hm.1.2.2.2.2.2 _ hs
    unfold Region.lo Region.hi at hlt ⊢
    rcases rotSign_pm i1 i2 k a with hsg | hsg <;> rw [hsg]
    · rw [max_eq_right (by linarith), min_eq_left (by linarith)]; ring
    · rw [max_eq_left (by linarith), min_eq_right (by linarith)]; ring
  have hnat : ∀ a, a < m.ndim → m'.nAt a = m.nAt (rotSrc i1 i2 k a) := by
    intro a _
    unfold Mesh.nAt
    rw [hn', rotN_getD _ _ _ _ h12 (by rw [hnl]; exact l1') (by rw [hnl]; exact l2')]
  have hcell : ∀ a, a < m.ndim → m'.cellAt a = m.cellAt (rotSrc i1 i2 k a) := by
    intro a ha
    unfold Mesh.cellAt
    rw [hedge a ha, hnat a ha]
  refine ⟨i1, i2, d1, d2, h12, l1', l2', hinv', hnd, hn', by rw [e]; rfl, hedge, hnat, hcell, ?_⟩
  unfold dV Mesh.cell
  rw [hnd, tab_congr _ _ _ hcell]
  exact ratProd_tab_rotSrc m.ndim m.cellAt i1 i2 k h12 l1' l2' (fun a ha => ne_of_gt (cell_pos' m hm a ha))


/-! ## the field after a quarter turn -/

theorem rotVec_getD (v : List Rat) (c1 c2 : Nat) (k : Int) (c : Nat) (hc : c < v.length) :
    (rotVec v c1 c2 k).getD c 0 =
      if c = c1 then cosq k * v.getD c1 0 - sinq k * v.getD c2 0
      else if c = c2 then sinq k * v.getD c1 0 + cosq k * v.getD c2 0 else v.getD c 0 := by
  unfold rotVec; rw [getD_tab _ _ _ _ hc]

theorem nestSum_sub (ns : List Nat) (f g : List Nat → Rat) :
    nestSum ns (fun i => f i - g i) = nestSum ns f - nestSum ns g := by
  have : (fun i => f i - g i) = fun i => f i + (-1) * g i := by funext i; ring
  rw [this, nestSum_add, nestSum_mul_left]; ring

theorem csum_ge (f : Fld) (hl : CellLen f) (c : Nat) (hc : f.nvdim ≤ c) : csum f c = 0 := by
  unfold csum
  rw [nestSum_congr _ _ (fun _ => 0) (fun t ht => by
    unfold cget
    rw [List.getD_eq_getElem?_getD, List.getElem?_eq_none (by rw [hl t ht]; exact hc)]; rfl)]
  rw [nestSum_const]; ring

theorem tab_csum_getD (f : Fld) (hl : CellLen f) (α : Rat) (c : Nat) :
    (tab f.nvdim fun c => α * csum f c).getD c 0 = α * csum f c := by
  by_cases hc : c < f.nvdim
  · rw [getD_tab _ _ _ _ hc]
  · rw [getD_tab_ge _ _ _ _ (not_lt.mp hc), csum_ge f hl c (not_lt.mp hc)]; ring

/-- what an accepted `Field.rotate90` (either form) returns, as far as sums and cell measures are
concerned: a well-formed field on the turned mesh - same names, counts and cell lengths of the two
axes traded for odd `k`, same cell volume -, the cells permuted by `np.rot90` and, for a vector
field, the two mapped components of every cell turned by the exact quarter-turn matrix -/
theorem rotate90F_cells (f : Fld) (hf : WF f) (a1 a2 : String) (k : Int) (ref : Option (List Rat)) (b : Bool)
    (x g : Fld) (h : rotate90F f a1 a2 k ref b = .ok (x, g)) :
    ∃ i1 i2, f.mesh.region.dim2index a1 = .ok i1 ∧ f.mesh.region.dim2index a2 = .ok i2 ∧ i1 ≠ i2 ∧
      i1 < f.mesh.ndim ∧ i2 < f.mesh.ndim ∧ WF g ∧ g.nvdim = f.nvdim ∧ g.mesh.ndim = f.mesh.ndim ∧
      g.mesh.region.dims = f.mesh.region.dims ∧ g.mesh.n = rotN f.mesh.n i1 i2 k ∧
      g.data.shape = rotN f.data.shape i1 i2 k ∧
      (∀ a, a < f.mesh.ndim → g.mesh.cellAt a = f.mesh.cellAt (rotSrc i1 i2 k a)) ∧
      (∀ a, a < f.mesh.ndim → g.mesh.region.edge a = f.mesh.region.edge (rotSrc i1 i2 k a)) ∧
      dV g.mesh = dV f.mesh ∧ g.vdims = f.vdims ∧ g.vmap = f.vmap ∧ g.unit = f.unit ∧ (x = if b then g else f) ∧
      ((f.nvdim ≤ 1 ∧ ∀ j, g.data.get j = f.data.get (srcIdx f.data.shape i1 i2 k j)) ∨
       (f.nvdim > 1 ∧ ∃ c1 c2, (f.rDim a1).bind f.vdimIndex = some c1 ∧ (f.rDim a2).bind f.vdimIndex = some c2 ∧
          ∀ j, g.data.get j = rotVec (f.data.get (srcIdx f.data.shape i1 i2 k j)) c1 c2 k)) := by
  obtain ⟨y, m', i1, i2, hm', d1, d2, e1, e2, e3, e4, e5, _, e7, ex⟩ := rotate90F_inv f a1 a2 k ref b x g h
  obtain ⟨j1, j2, d1', d2', h12, l1, l2, hinv', hnd, hn', hdims, hedge, _, hcell, hdv⟩ :=
    stepM_rot_cells f.mesh hf.1 a1 a2 k ref false y m' hm'
  rw [d1] at d1'; injection d1' with d1'; subst d1'
  rw [d2] at d2'; injection d2' with d2'; subst d2'
  have hshape : g.data.shape = rotN f.data.shape i1 i2 k := by
    rcases e7 with ⟨_, e⟩ | ⟨_, _, _, _, _, e⟩ <;> rw [e]
    · rw [DFV.C13.rot90_shape]; rfl
    · show (rot90 f.data i1 i2 k).shape = _
      rw [DFV.C13.rot90_shape]; rfl
  refine ⟨i1, i2, d1, d2, h12, l1, l2, ⟨by rw [e1]; exact hinv', by rw [hshape, e1, hn', hf.2]⟩, e2,
    by rw [e1]; exact hnd, by rw [e1]; exact hdims, by rw [e1]; exact hn', hshape,
    by rw [e1]; exact hcell, by rw [e1]; exact hedge, by rw [e1]; exact hdv, e3, e4, e5, ex, ?_⟩
  rcases e7 with ⟨hv, e⟩ | ⟨hv, c1, c2, hc1, hc2, e⟩
  · exact Or.inl ⟨hv, fun j => by rw [e, rot90_get]⟩
  · refine Or.inr ⟨hv, c1, c2, hc1, hc2, fun j => ?_⟩
    rw [e]
    show rotVec ((rot90 f.data i1 i2 k).get j) c1 c2 k = _
    rw [rot90_get]

theorem shape_pos (f : Fld) (hf : WF f) : ∀ n ∈ f.data.shape, 0 < n := by
  rw [hf.2]
  exact DFV.C13.mem_pos_of_nAt f.mesh hf.1.2.1 hf.1.2.2

/-- the turned field keeps `nvdim` components per cell -/
theorem rotate90F_cellLen (f : Fld) (hf : WF f) (hl : CellLen f) (a1 a2 : String) (k : Int) (ref : Option (List Rat))
    (b : Bool) (x g : Fld) (h : rotate90F f a1 a2 k ref b = .ok (x, g)) : CellLen g := by
  obtain ⟨i1, i2, _, _, h12, l1, l2, _, hnv, _, _, _, hshape, _, _, _, _, _, _, _, hdata⟩ :=
    rotate90F_cells f hf a1 a2 k ref b x g h
  have hsl : f.data.shape.length = f.mesh.ndim := by rw [hf.2]; exact hf.1.2.1
  intro t ht
  rw [hshape] at ht
  have hin := srcIdx_inRange' f.data.shape t i1 i2 k h12 (by rw [hsl]; exact l1) (by rw [hsl]; exact l2) ht
  rcases hdata with ⟨_, e⟩ | ⟨_, c1, c2, _, _, e⟩
  · rw [e, hnv]; exact hl _ hin
  · rw [e, rotVec_length, hnv]; exact hl _ hin

/-- **cell sums under a quarter turn**: the sum of component `c` over all cells of the turned
field is that of the field (scalar field) resp. component `c` of the turned vector of sums -/
theorem csum_rot (f : Fld) (hf : WF f) (hl : CellLen f) (a1 a2 : String) (k : Int) (ref : Option (List Rat))
    (b : Bool) (x g : Fld) (h : rotate90F f a1 a2 k ref b = .ok (x, g)) :
    (f.nvdim ≤ 1 ∧ ∀ c, csum g c = csum f c) ∨
    (f.nvdim > 1 ∧ ∃ c1 c2, (f.rDim a1).bind f.vdimIndex = some c1 ∧ (f.rDim a2).bind f.vdimIndex = some c2 ∧
      ∀ c, c < f.nvdim → csum g c = (rotVec (tab f.nvdim (csum f)) c1 c2 k).getD c 0) := by
  obtain ⟨i1, i2, _, _, h12, l1, l2, _, hnv, _, _, _, hshape, _, _, _, _, _, _, _, hdata⟩ :=
    rotate90F_cells f hf a1 a2 k ref b x g h
  have hsl : f.data.shape.length = f.mesh.ndim := by rw [hf.2]; exact hf.1.2.1
  have hp := shape_pos f hf
  rcases hdata with ⟨hv, e⟩ | ⟨hv, c1, c2, hc1, hc2, e⟩
  · refine Or.inl ⟨hv, fun c => ?_⟩
    unfold csum
    rw [hshape, nestSum_congr _ _ (fun j => cget f.data (srcIdx f.data.shape i1 i2 k j) c)
      (fun j _ => by unfold cget; rw [e])]
    exact nestSum_rot f.data.shape i1 i2 k h12 (by rw [hsl]; exact l1) (by rw [hsl]; exact l2) hp (fun t => cget f.data t c)
  · refine Or.inr ⟨hv, c1, c2, hc1, hc2, fun c hc => ?_⟩
    have hV : ∀ c', (tab f.nvdim (csum f)).getD c' 0 = csum f c' := by
      intro c'
      have := tab_csum_getD f hl 1 c'
      simpa using this
    rw [rotVec_getD _ _ _ _ _ (by simpa [tab] using hc), hV, hV, hV]
    unfold csum
    rw [hshape, nestSum_congr _ _ (fun j => (rotVec (f.data.get (srcIdx f.data.shape i1 i2 k j)) c1 c2 k).getD c 0)
      (fun j _ => by unfold cget; rw [e])]
    rw [nestSum_rot f.data.shape i1 i2 k h12 (by rw [hsl]; exact l1) (by rw [hsl]; exact l2) hp
      (fun t => (rotVec (f.data.get t) c1 c2 k).getD c 0)]
    rw [nestSum_congr _ _ (fun t => if c = c1 then cosq k * cget f.data t c1 - sinq k * cget f.data t c2
        else if c = c2 then sinq k * cget f.data t c1 + cosq k * cget f.data t c2 else cget f.data t c)
      (fun t ht => by rw [rotVec_getD _ _ _ _ _ (by rw [hl t ht]; exact hc)]; rfl)]
    by_cases e1 : c = c1
    · subst e1
      simp only [if_true]
      rw [nestSum_sub, nestSum_mul_left, nestSum_mul_left]
    · by_cases e2 : c = c2
      · subst e2
        simp only [e1, if_false, if_true]
        rw [nestSum_add, nestSum_mul_left, nestSum_mul_left]
      · simp only [e1, e2, if_false]

/-- scaling commutes with the quarter-turn matrix on the component list -/
theorem rotVec_smul (n : Nat) (s : Nat → Rat) (α : Rat) (c1 c2 : Nat) (k : Int)
    (hs : ∀ c, (tab n s).getD c 0 = s c) :
    rotVec (tab n fun c => α * s c) c1 c2 k = tab n fun c => α * (rotVec (tab n s) c1 c2 k).getD c 0 := by
  have hs' : ∀ c, (tab n fun c => α * s c).getD c 0 = α * s c := by
    intro c
    by_cases hc : c < n
    · rw [getD_tab _ _ _ _ hc]
    · have := hs c
      rw [getD_tab_ge _ _ _ _ (not_lt.mp hc)] at this ⊢
      rw [← this]; ring
  unfold rotVec
  have hl1 : (tab n fun c => α * s c).length = n := by simp [tab]
  have hl2 : (tab n s).length = n := by simp [tab]
  rw [hl1]
  apply tab_congr
  intro c hc
  simp only [hs', hs, hl2]
  rw [getD_tab _ _ _ _ hc]
  split
  · ring
  · split <;> ring


/-! ## `integrate()` and `mean()` in terms of the cell sums -/

theorem integrate_all_csum (f : Fld) :
    integrate f .none false = .ok (.vals (tab f.nvdim fun c => dV f.mesh * csum f c)) := by
  unfold integrate
  simp only [Bool.false_eq_true, if_false]
  congr 2
  apply tab_congr
  intro c _
  unfold sumAll NDA.toList csum
  rw [List.map_map, lsum_indicesC, mul_comm]
  rfl

theorem mean_all_csum (f : Fld) :
    mean f .none = .ok (.vals (tab f.nvdim fun c => csum f c / (natProd f.data.shape : Rat))) := by
  unfold mean meanAll
  simp only
  congr 2
  apply tab_congr
  intro c _
  unfold sumAll NDA.toList csum
  rw [List.map_map, lsum_indicesC]
  rfl

/-- the per-component totals of the turned field are the turned per-component totals -/
theorem tab_csum_rot (f : Fld) (hf : WF f) (hl : CellLen f) (a1 a2 : String) (k : Int) (ref : Option (List Rat))
    (b : Bool) (x g : Fld) (h : rotate90F f a1 a2 k ref b = .ok (x, g)) :
    tab g.nvdim (csum g) = turnVals f a1 a2 k (tab f.nvdim (csum f)) := by
  obtain ⟨_, _, _, _, _, _, _, _, hnv, _⟩ := rotate90F_cells f hf a1 a2 k ref b x g h
  rw [hnv]
  unfold turnVals
  rcases csum_rot f hf hl a1 a2 k ref b x g h with ⟨hv, e⟩ | ⟨hv, c1, c2, hc1, hc2, e⟩
  · rw [if_neg (by omega)]
    exact tab_congr _ _ _ fun c _ => e c
  · rw [if_pos hv, hc1, hc2]
    simp only
    have hlen : (rotVec (tab f.nvdim (csum f)) c1 c2 k).length = f.nvdim := by
      rw [rotVec_length]; simp [tab]
    symm
    apply eq_tab_of_getD _ _ _ 0 hlen
    intro c hc
    exact (e c hc).symm

/-- scaling the totals commutes with the turn -/
theorem turnVals_smul (f : Fld) (hl : CellLen f) (a1 a2 : String) (k : Int) (α : Rat) :
    turnVals f a1 a2 k (tab f.nvdim fun c => α * csum f c)
      = tab f.nvdim fun c => α * (turnVals f a1 a2 k (tab f.nvdim (csum f))).getD c 0 := by
  have hs : ∀ c, (tab f.nvdim (csum f)).getD c 0 = csum f c := by
    intro c
    have := tab_csum_getD f hl 1 c
    simpa using this
  unfold turnVals
  split
  · split
    · exact rotVec_smul f.nvdim (csum f) α _ _ k hs
    · exact tab_congr _ _ _ fun c _ => by rw [hs]
  · exact tab_congr _ _ _ fun c _ => by rw [hs]

/-- **`integrate()` under a quarter turn**: the volume integral of the turned field is the volume
integral of the field with the two mapped components turned (a scalar field: unchanged) -/
theorem integrate_all_rot (f : Fld) (hf : WF f) (hl : CellLen f) (a1 a2 : String) (k : Int) (ref : Option (List Rat))
    (b : Bool) (x g : Fld) (h : rotate90F f a1 a2 k ref b = .ok (x, g)) (v : List Rat)
    (hv : integrate f .none false = .ok (.vals v)) :
    integrate g .none false = .ok (.vals (turnVals f a1 a2 k v)) := by
  rw [integrate_all_csum] at hv
  injection hv with hv; injection hv with hv
  obtain ⟨_, _, _, _, _, _, _, _, hnv, _, _, _, _, _, _, hdv, _⟩ := rotate90F_cells f hf a1 a2 k ref b x g h
  rw [integrate_all_csum, ← hv, turnVals_smul f hl, hdv, hnv]
  congr 2
  apply tab_congr
  intro c hc
  rw [← tab_csum_rot f hf hl a1 a2 k ref b x g h, hnv, getD_tab _ _ _ _ hc]

/-- **`mean()` under a quarter turn** likewise -/
theorem mean_all_rot (f : Fld) (hf : WF f) (hl : CellLen f) (a1 a2 : String) (k : Int) (ref : Option (List Rat))
    (b : Bool) (x g : Fld) (h : rotate90F f a1 a2 k ref b = .ok (x, g)) (v : List Rat)
    (hv : mean f .none = .ok (.vals v)) :
    mean g .none = .ok (.vals (turnVals f a1 a2 k v)) := by
  rw [mean_all_csum] at hv
  injection hv with hv; injection hv with hv
  obtain ⟨i1, i2, _, _, h12, l1, l2, _, hnv, _, _, _, hshape, _⟩ := rotate90F_cells f hf a1 a2 k ref b x g h
  have hsl : f.data.shape.length = f.mesh.ndim := by rw [hf.2]; exact hf.1.2.1
  have hN : natProd g.data.shape = natProd f.data.shape := by
    rw [hshape]
    exact natProd_rotN _ _ _ _ h12 (by rw [hsl]; exact l1) (by rw [hsl]; exact l2) (shape_pos f hf)
  have e : (fun c => csum f c / (natProd f.data.shape : Rat)) = fun c => (1 / (natProd f.data.shape : Rat)) * csum f c := by
    funext c; ring
  rw [mean_all_csum, ← hv, e, turnVals_smul f hl, hN, hnv]
  congr 2
  apply tab_congr
  intro c hc
  rw [← tab_csum_rot f hf hl a1 a2 k ref b x g h, hnv, getD_tab _ _ _ _ hc]
  ring

/-! ## histories with quarter turns -/

theorem fstep_mesh_spec (f : Fld) (hf : WF f) (s : HStep) :
    WF (hstep f s) ∧ (hstep f s).data = f.data ∧ (hstep f s).nvdim = f.nvdim ∧
    dV (hstep f s).mesh = histVol f.mesh [s] * dV f.mesh := by
  obtain ⟨h1, h2, h3, _⟩ := runH_spec [s] f hf
  exact ⟨h1, h2, h3, dV_runH f hf [s]⟩

/-- one step of a history with quarter turns: the field stays well formed with `nvdim` components
per cell, the cell volume is multiplied by the step's volume factor and the per-component totals
are turned by the step -/
theorem fstep_spec (f : Fld) (hf : WF f) (hl : CellLen f) (s : FStep) :
    WF (fstep f s) ∧ CellLen (fstep f s) ∧ (fstep f s).nvdim = f.nvdim ∧
    dV (fstep f s).mesh = fstepVol f s * dV f.mesh ∧
    natProd (fstep f s).data.shape = natProd f.data.shape ∧
    tab f.nvdim (csum (fstep f s)) = fstepTurn f s (tab f.nvdim (csum f)) := by
  cases s with
  | mesh s =>
    obtain ⟨h1, h2, h3, h4⟩ := fstep_mesh_spec f hf s
    refine ⟨h1, ?_, h3, h4, by show natProd (hstep f s).data.shape = _; rw [h2], ?_⟩
    · intro t ht
      have ht' : inRange (hstep f s).data.shape t = true := ht
      show ((hstep f s).data.get t).length = (hstep f s).nvdim
      rw [h3]; rw [h2] at ht' ⊢; exact hl t ht'
    · show tab f.nvdim (csum (hstep f s)) = tab f.nvdim (csum f)
      apply tab_congr; intro c _
      unfold csum; rw [h2]
  | rot a1 a2 k ref =>
    simp only [fstep, fstepVol, fstepTurn]
    cases hr : rotate90F f a1 a2 k ref true with
    | error e => exact ⟨hf, hl, rfl, by ring, rfl, rfl⟩
    | ok p =>
      obtain ⟨x, g⟩ := p
      obtain ⟨i1, i2, _, _, h12, l1, l2, hwg, hnv, _, _, _, hshape, _, _, hdv, _, _, _, hx, _⟩ :=
        rotate90F_cells f hf a1 a2 k ref true x g hr
      simp only [if_true] at hx
      subst hx
      have hsl : f.data.shape.length = f.mesh.ndim := by rw [hf.2]; exact hf.1.2.1
      refine ⟨hwg, rotate90F_cellLen f hf hl a1 a2 k ref true _ _ hr, hnv, by rw [hdv]; ring, ?_, ?_⟩
      · rw [hshape]
        exact natProd_rotN _ _ _ _ h12 (by rw [hsl]; exact l1) (by rw [hsl]; exact l2) (shape_pos f hf)
      · have := tab_csum_rot f hf hl a1 a2 k ref true _ _ hr
        rw [hnv] at this
        exact this

/-- after ANY history of in-place mesh / region steps and quarter turns of the field -/
theorem runFS_spec (steps : List FStep) : ∀ (f : Fld), WF f → CellLen f →
    WF (runFS f steps) ∧ CellLen (runFS f steps) ∧ (runFS f steps).nvdim = f.nvdim ∧
    dV (runFS f steps).mesh = fhistVol f steps * dV f.mesh ∧
    natProd (runFS f steps).data.shape = natProd f.data.shape ∧
    tab f.nvdim (csum (runFS f steps)) = fhistTurn f steps (tab f.nvdim (csum f)) := by
  induction steps with
  | nil => intro f hf hl; exact ⟨hf, hl, rfl, by simp [runFS, fhistVol], rfl, rfl⟩
  | cons s rest ih =>
    intro f hf hl
    obtain ⟨h1, h2, h3, h4, h5, h6⟩ := fstep_spec f hf hl s
    obtain ⟨g1, g2, g3, g4, g5, g6⟩ := ih (fstep f s) h1 h2
    refine ⟨g1, g2, by show (runFS (fstep f s) rest).nvdim = _; rw [g3, h3], ?_, ?_, ?_⟩
    · show dV (runFS (fstep f s) rest).mesh = _
      rw [g4, h4]; simp only [fhistVol]; ring
    · show natProd (runFS (fstep f s) rest).data.shape = _
      rw [g5, h5]
    · show tab f.nvdim (csum (runFS (fstep f s) rest)) = fhistTurn (fstep f s) rest (fstepTurn f s (tab f.nvdim (csum f)))
      rw [← h6, ← h3]; exact g6


/-- a quarter turn of a field is accepted exactly when its arguments are well formed (C13's
`stepF_error_iff`): two different direction names of the mesh, a reference point with one
coordinate per direction, and - for a vector field - both directions mapped to a component -/
theorem rotate90F_ok_iff (f : Fld) (hf : FInv f) (a1 a2 : String) (k : Int) (ref : Option (List Rat)) (b : Bool) :
    (∃ x g, rotate90F f a1 a2 k ref b = .ok (x, g)) ↔ ¬ MalformedF f (.rotate90 a1 a2 k ref b) := by
  rw [← stepF_error_iff f hf]
  show (∃ x g, rotate90F f a1 a2 k ref b = .ok (x, g)) ↔ ¬ ∃ e, rotate90F f a1 a2 k ref b = .error e
  cases rotate90F f a1 a2 k ref b with
  | error e => simp
  | ok p => obtain ⟨x, g⟩ := p; simp

/-- a scalar field's totals are not touched by the turns of a history -/
theorem fhistTurn_scalar (steps : List FStep) : ∀ (f : Fld), WF f → CellLen f → f.nvdim ≤ 1 →
    ∀ v, fhistTurn f steps v = v := by
  induction steps with
  | nil => intro f _ _ _ v; rfl
  | cons s rest ih =>
    intro f hf hl h1 v
    obtain ⟨g1, g2, g3, _⟩ := fstep_spec f hf hl s
    simp only [fhistTurn]
    rw [ih (fstep f s) g1 g2 (by rw [g3]; exact h1)]
    cases s with
    | mesh s => rfl
    | rot a1 a2 k ref =>
      simp only [fstepTurn, turnVals]
      split
      · rw [if_neg (by omega)]
      · rfl

/-- a history of quarter turns only does not change the cell volume -/
theorem fhistVol_turns (steps : List FStep) (hall : ∀ s ∈ steps, ∃ a1 a2 k ref, s = FStep.rot a1 a2 k ref) :
    ∀ (f : Fld), fhistVol f steps = 1 := by
  induction steps with
  | nil => intro f; rfl
  | cons s rest ih =>
    intro f
    obtain ⟨a1, a2, k, ref, rfl⟩ := hall s (by simp)
    simp only [fhistVol, fstepVol]
    rw [ih (fun s' hs' => hall s' (by simp [hs']))]; ring

end DFV.C06
