import DFV.Lemmas.C11Geom
/-!
C11, mesh-level lemmas: `rMesh ∘ kMesh` is the origin-centred original mesh, the counts
`Mesh.ifftn` derives from its `shape` argument, shifted frequency list, k-cell centres,
mesh-level round trips, rejected shapes.
-/
namespace DFV.C11
open DFV

/-- the real-space mesh of counts `s` with the extent of `m`, centred at the origin -/
def originMesh (m : Mesh) (s : List Nat) : Mesh :=
  { region := { pmin := tab m.ndim fun a => -(m.region.edge a / 2),
                pmax := tab m.ndim fun a => m.region.edge a / 2,
                dims := m.region.dims, units := m.region.units, tol := m.region.tol },
    n := s, bc := "", subs := [] }

theorem n_cell_eq_edge (m : Mesh) (a : Nat) (hn : 0 < m.nAt a) : (m.nAt a : Rat) * m.cellAt a = m.region.edge a := by
  unfold Mesh.cellAt
  have : (m.nAt a : Rat) ≠ 0 := ne_of_gt (nat_cast_pos' _ hn)
  field_simp

theorem map_strip_kDim (l : List String) : (l.map kDim).map (stripPre "k_") = l := by
  rw [List.map_map]
  conv => rhs; rw [← List.map_id l]
  apply List.map_congr_left
  intro d _
  simp only [Function.comp, kDim, id]
  exact stripPre_add "k_" d

theorem map_strip_kUnit (l : List String) : (l.map kUnit).map stripUnit = l := by
  rw [List.map_map]
  conv => rhs; rw [← List.map_id l]
  apply List.map_congr_left
  intro d _
  simp only [Function.comp, id]
  exact stripUnit_kUnit d

theorem rMesh_kMesh (m : Mesh) (rfft : Bool) (s : List Nat) (hm : m.Inv) :
    rMesh (kMesh m rfft) s = originMesh m s := by
  unfold rMesh originMesh
  rw [kMesh_ndim]
  have e1 : (kMesh m rfft).region.dims = m.region.dims.map kDim := rfl
  have e2 : (kMesh m rfft).region.units = m.region.units.map kUnit := rfl
  have e3 : (kMesh m rfft).region.tol = m.region.tol := rfl
  rw [e1, e2, e3, map_strip_kDim, map_strip_kUnit]
  have key : ∀ a, a < m.ndim → 1 / (2 * (kMesh m rfft).cellAt a) = m.region.edge a / 2 := by
    intro a ha
    rw [kMesh_cellAt m rfft hm a ha, ← n_cell_eq_edge m a (hm.2.2 a ha)]
    have hn0 : (m.nAt a : Rat) ≠ 0 := ne_of_gt (nat_cast_pos' _ (hm.2.2 a ha))
    have hd0 : m.cellAt a ≠ 0 := ne_of_gt (cell_pos m hm a ha)
    field_simp
  have hp : tab m.ndim (fun a => -(1 / (2 * (kMesh m rfft).cellAt a))) = tab m.ndim (fun a => -(m.region.edge a / 2)) :=
    tab_congr _ _ _ (fun a ha => by rw [key a ha])
  have hq : tab m.ndim (fun a => 1 / (2 * (kMesh m rfft).cellAt a)) = tab m.ndim (fun a => m.region.edge a / 2) :=
    tab_congr _ _ _ key
  rw [hp, hq]

theorem kMesh_n (m : Mesh) (rfft : Bool) : (kMesh m rfft).n = tab m.ndim (kN m rfft) := rfl

theorem kMesh_n_full (m : Mesh) (hm : m.Inv) : (kMesh m false).n = m.n := by
  rw [kMesh_n]
  symm
  apply eq_tab_of_getD m.n _ _ 0 hm.2.1
  intro i _
  rw [kN_full m false i (by simp)]
  rfl

/-! #### the counts `Mesh.ifftn` works with -/

theorem ifftShape_some (m : Mesh) (rfft : Bool) (s : List Nat) :
    ifftShape m rfft (some s) =
      if s.length ≠ m.ndim then .error .value
      else if !allLt (m.ndim - 1) (fun a => s.getD a 0 == m.nAt a) then .error .value
      else if s.getD (m.ndim - 1) 0 / 2 + 1 ≠ m.nAt (m.ndim - 1) then .error .value
      else .ok s := rfl

theorem ifftShape_none (m : Mesh) (rfft : Bool) :
    ifftShape m rfft none =
      .ok (if rfft && (m.nAt (m.ndim - 1) != 1) then setAt m.n (m.ndim - 1) ((m.nAt (m.ndim - 1) - 1) * 2)
           else m.n) := rfl

theorem ifftShape_full_none (m : Mesh) (hm : m.Inv) : ifftShape (kMesh m false) false none = .ok m.n := by
  simp [ifftShape, kMesh_n_full m hm]

theorem last_lt (m : Mesh) (hm : m.Inv) : m.ndim - 1 < m.ndim := by
  have := hm.1.1
  have : 0 < m.ndim := this
  omega

theorem flag_last (m : Mesh) : (true && (m.ndim - 1 == m.ndim - 1)) = true := by simp

theorem flag_notlast (m : Mesh) (a : Nat) (h : a < m.ndim - 1) : (true && (a == m.ndim - 1)) = false := by
  have : a ≠ m.ndim - 1 := by omega
  simp [this]

theorem ifftShape_half_some (m : Mesh) (hm : m.Inv) : ifftShape (kMesh m true) true (some m.n) = .ok m.n := by
  rw [ifftShape_some]
  have hl := last_lt m hm
  have h1 : ¬ (m.n.length ≠ (kMesh m true).ndim) := by rw [kMesh_ndim, hm.2.1]; simp [Mesh.ndim]
  rw [if_neg h1, kMesh_ndim]
  have h2 : allLt (m.ndim - 1) (fun a => m.n.getD a 0 == (kMesh m true).nAt a) = true := by
    rw [allLt_iff]; intro a ha
    rw [kMesh_nAt m true a (by omega), kN_full m true a (flag_notlast m a ha)]
    simp [Mesh.nAt]
  rw [h2]
  simp only [Bool.not_true, Bool.false_eq_true, if_false]
  rw [kMesh_nAt m true _ hl, kN_half m true _ (flag_last m)]
  simp [Mesh.nAt]

theorem setAt_getD {α} (l : List α) (i : Nat) (x d : α) (j : Nat) :
    (setAt l i x).getD j d = if j = i ∧ i < l.length then x else l.getD j d := by
  induction l generalizing i j with
  | nil => simp [setAt]
  | cons y ys ih =>
    cases i with
    | zero =>
      cases j with
      | zero => simp [setAt]
      | succ j => simp [setAt]
    | succ i =>
      cases j with
      | zero => simp [setAt]
      | succ j =>
        simp only [setAt, List.getD_cons_succ, List.length_cons]
        rw [ih]
        simp

theorem setAt_getD_self (l : List Nat) (i : Nat) : setAt l i (l.getD i 0) = l := by
  induction l generalizing i with
  | nil => rfl
  | cons y ys ih =>
    cases i with
    | zero => simp [setAt]
    | succ i => simp only [setAt, List.getD_cons_succ, ih]

theorem setAt_length {α} (l : List α) (i : Nat) (x : α) : (setAt l i x).length = l.length := by
  induction l generalizing i with
  | nil => rfl
  | cons y ys ih => cases i <;> simp [setAt, ih]

/-- without an explicit shape the real inverse assumes an even last count (or 1) -/
theorem ifftShape_half_none (m : Mesh) (hm : m.Inv) :
    ifftShape (kMesh m true) true none
      = .ok (if m.nAt (m.ndim - 1) = 1 then m.n else setAt m.n (m.ndim - 1) (m.nAt (m.ndim - 1) / 2 * 2)) := by
  rw [ifftShape_none]
  have hl := last_lt m hm
  rw [kMesh_ndim, kMesh_nAt m true _ hl, kN_half m true _ (flag_last m)]
  have hlen : m.n.length = m.ndim := hm.2.1
  have hn := hm.2.2 _ hl
  by_cases h1 : m.nAt (m.ndim - 1) = 1
  · rw [if_pos h1, h1]
    simp only [nat_half_one, Nat.zero_add, bne_self_eq_false, Bool.and_false, Bool.false_eq_true, if_false]
    congr 1
    rw [kMesh_n]
    symm
    apply eq_tab_of_getD m.n _ _ 0 hlen
    intro i hi
    by_cases hil : i = m.ndim - 1
    · subst hil; rw [kN_half m true _ (flag_last m), h1]; exact h1
    · rw [kN_full m true i (flag_notlast m i (by omega))]; rfl
  · rw [if_neg h1]
    have h2 : (m.nAt (m.ndim - 1) / 2 + 1 != 1) = true := by
      simp only [bne_iff_ne, ne_eq]; omega
    rw [h2]
    simp only [Bool.and_true, if_true, Nat.add_sub_cancel]
    congr 1
    apply List.ext_getElem
    · simp [setAt_length, kMesh_n, hlen]
    · intro i h1' h2'
      have hi : i < m.ndim := by simpa [setAt_length, hlen] using h2'
      have e1 := setAt_getD (kMesh m true).n (m.ndim - 1) (m.nAt (m.ndim - 1) / 2 * 2) 0 i
      have e2 := setAt_getD m.n (m.ndim - 1) (m.nAt (m.ndim - 1) / 2 * 2) 0 i
      rw [List.getD_eq_getElem?_getD, List.getElem?_eq_getElem h1', Option.getD_some] at e1
      rw [List.getD_eq_getElem?_getD, List.getElem?_eq_getElem h2', Option.getD_some] at e2
      rw [e1, e2]
      by_cases hil : i = m.ndim - 1
      · simp [hil, kMesh_n, hlen, hl]
      · have : ¬ (i = m.ndim - 1 ∧ m.ndim - 1 < (kMesh m true).n.length) := fun h => hil h.1
        have h' : ¬ (i = m.ndim - 1 ∧ m.ndim - 1 < m.n.length) := fun h => hil h.1
        rw [if_neg this, if_neg h', kMesh_n, getD_tab _ _ _ _ hi,
          kN_full m true i (flag_notlast m i (by omega))]
        rfl


/-! #### shifted frequency list, cell centres -/

theorem fftshift_fftfreq (n : Nat) (d : Rat) (j : Nat) (hj : j < n) :
    (fftshiftL (fftfreq n d)).getD j 0 = ((j : Rat) - ((n / 2 : Nat) : Rat)) * (1 / ((n : Rat) * d)) := by
  unfold fftshiftL
  have hlen : (fftfreq n d).length = n := by simp [fftfreq]
  rw [hlen, getD_tab _ _ _ _ hj]
  have hN : (n - 1) / 2 + 1 = n - n / 2 := by omega
  by_cases h : j < n / 2
  · have ht : (j + (n - n / 2)) % n = j + (n - n / 2) := Nat.mod_eq_of_lt (by omega)
    rw [ht, fftfreq, getD_tab _ _ _ _ (by omega)]
    unfold fftfreqAt
    rw [if_neg (by omega)]
    have e : j + (n - n / 2) + n / 2 = j + n := by omega
    have eq : ((j + (n - n / 2) : Nat) : Rat) + ((n / 2 : Nat) : Rat) = (j : Rat) + (n : Rat) := by exact_mod_cast e
    have : ((j + (n - n / 2) : Nat) : Rat) - (n : Rat) = (j : Rat) - ((n / 2 : Nat) : Rat) := by linarith
    rw [this]
  · have e : j + (n - n / 2) = (j - n / 2) + n := by omega
    have ht : (j + (n - n / 2)) % n = j - n / 2 := by
      rw [e, Nat.add_mod_right]; exact Nat.mod_eq_of_lt (by omega)
    rw [ht, fftfreq, getD_tab _ _ _ _ (by omega)]
    unfold fftfreqAt
    rw [if_pos (by omega)]
    have : ((j - n / 2 : Nat) : Rat) = (j : Rat) - ((n / 2 : Nat) : Rat) := by
      rw [Nat.cast_sub (by omega)]
    rw [this]

theorem kcentre_full (m : Mesh) (rfft : Bool) (hm : m.Inv) (a : Nat) (ha : a < m.ndim)
    (h : (rfft && (a == m.ndim - 1)) = false) (j : Int) :
    (kMesh m rfft).centreAx a j = ((j : Rat) - ((m.nAt a / 2 : Nat) : Rat)) * (1 / ((m.nAt a : Rat) * m.cellAt a)) := by
  have hn := hm.2.2 a ha
  have hd := cell_pos m hm a ha
  unfold Mesh.centreAx
  rw [kMesh_cellAt m rfft hm a ha, kMesh_lo m rfft a ha, kP1_full m rfft a h hn hd]
  ring

theorem kcentre_half (m : Mesh) (rfft : Bool) (hm : m.Inv) (a : Nat) (ha : a < m.ndim)
    (h : (rfft && (a == m.ndim - 1)) = true) (j : Int) :
    (kMesh m rfft).centreAx a j = (j : Rat) * (1 / ((m.nAt a : Rat) * m.cellAt a)) := by
  have hn := hm.2.2 a ha
  have hd := cell_pos m hm a ha
  unfold Mesh.centreAx
  rw [kMesh_cellAt m rfft hm a ha, kMesh_lo m rfft a ha, kP1_half m rfft a h hn hd]
  ring

/-! #### the mesh-level round trips -/

theorem hasDup_strip_kDim (m : Mesh) (rfft : Bool) (hm : m.Inv) :
    hasDup ((kMesh m rfft).region.dims.map (stripPre "k_")) = false := by
  have : (kMesh m rfft).region.dims = m.region.dims.map kDim := rfl
  rw [this, map_strip_kDim]; exact hm.1.2.2.2.2.1

theorem mesh_roundtrip_full (m : Mesh) (hm : m.Inv) :
    meshIfftn (kMesh m false) false none = .ok (originMesh m m.n) := by
  rw [meshIfftn_ok (kMesh m false) false none m.n (kMesh_inv m false hm) (ifftShape_full_none m hm)
      (by rw [kMesh_ndim]; exact hm.2.1) (by rw [kMesh_ndim]; exact hm.2.2) (hasDup_strip_kDim m false hm),
    rMesh_kMesh m false m.n hm]

theorem mesh_roundtrip_half_shape (m : Mesh) (hm : m.Inv) :
    meshIfftn (kMesh m true) true (some m.n) = .ok (originMesh m m.n) := by
  rw [meshIfftn_ok (kMesh m true) true (some m.n) m.n (kMesh_inv m true hm) (ifftShape_half_some m hm)
      (by rw [kMesh_ndim]; exact hm.2.1) (by rw [kMesh_ndim]; exact hm.2.2) (hasDup_strip_kDim m true hm),
    rMesh_kMesh m true m.n hm]

theorem mesh_roundtrip_half_none (m : Mesh) (hm : m.Inv) :
    meshIfftn (kMesh m true) true none
      = .ok (originMesh m (if m.nAt (m.ndim - 1) = 1 then m.n
                           else setAt m.n (m.ndim - 1) (m.nAt (m.ndim - 1) / 2 * 2))) := by
  have hl := last_lt m hm
  rw [meshIfftn_ok (kMesh m true) true none _ (kMesh_inv m true hm) (ifftShape_half_none m hm)
      (by rw [kMesh_ndim]; split
          · exact hm.2.1
          · rw [setAt_length]; exact hm.2.1)
      (by rw [kMesh_ndim]
          intro a ha
          split
          · exact hm.2.2 a ha
          · rename_i h1
            rw [setAt_getD]
            split
            · have := hm.2.2 _ hl; omega
            · exact hm.2.2 a ha)
      (hasDup_strip_kDim m true hm),
    rMesh_kMesh m true _ hm]

theorem originMesh_cellAt (m : Mesh) (a : Nat) (ha : a < m.ndim) : (originMesh m m.n).cellAt a = m.cellAt a := by
  unfold Mesh.cellAt Region.edge
  simp only [originMesh, Region.lo, Region.hi, Mesh.nAt]
  rw [getD_tab _ _ _ _ ha, getD_tab _ _ _ _ ha]
  unfold Region.edge Region.lo Region.hi
  ring

theorem originMesh_centre (m : Mesh) (s : List Nat) (a : Nat) (ha : a < m.ndim) :
    (originMesh m s).region.lo a + (originMesh m s).region.hi a = 0 := by
  simp only [originMesh, Region.lo, Region.hi]
  rw [getD_tab _ _ _ _ ha, getD_tab _ _ _ _ ha]
  ring

/-! #### shapes that do not match the k-mesh are rejected -/

theorem meshIfftn_err_of_shape (k : Mesh) (rfft : Bool) (s : List Nat) (e : Err)
    (h : ifftShape k rfft (some s) = .error e) : meshIfftn k rfft (some s) = .error e := by
  unfold meshIfftn; rw [h]

theorem ifftShape_rejects (k : Mesh) (rfft : Bool) (s : List Nat)
    (h : s.length ≠ k.ndim ∨ (∃ a, a < k.ndim - 1 ∧ s.getD a 0 ≠ k.nAt a) ∨
         s.getD (k.ndim - 1) 0 / 2 + 1 ≠ k.nAt (k.ndim - 1)) :
    ifftShape k rfft (some s) = .error .value := by
  rw [ifftShape_some]
  by_cases h1 : s.length ≠ k.ndim
  · rw [if_pos h1]
  · rw [if_neg h1]
    by_cases h2 : allLt (k.ndim - 1) (fun a => s.getD a 0 == k.nAt a) = true
    · rw [h2]
      simp only [Bool.not_true, Bool.false_eq_true, if_false]
      rcases h with h | ⟨a, ha, hne⟩ | h
      · exact absurd h h1
      · have := (allLt_iff _ _).mp h2 a ha
        simp at this
        exact absurd this hne
      · rw [if_pos h]
    · have : allLt (k.ndim - 1) (fun a => s.getD a 0 == k.nAt a) = false := by
        cases hh : allLt (k.ndim - 1) (fun a => s.getD a 0 == k.nAt a) <;> simp_all
      rw [this]; simp

end DFV.C11
