import DFV.Props.C11
import DFV.Lemmas.C19Real
import DFV.Lemmas.C19Mesh
/-!
# C19 — the trace of the demagnetisation tensor in Fourier space

Composition of the real-space trace (`demag_trace_real`) with C11's model of `Field.fftn`
(`fftn_is_dft`): a tensor field whose real-space trace is `t·δ_{r0}` has Fourier-space trace
`t·exp(−2πi k·r0)` in every k-cell; for the complex roots of unity that phase has modulus 1.
-/
namespace DFV.C19
open DFV DFV.C11

section ring
variable {R : Type} [CommRing R]

/-- Fourier-space trace of a field whose first three components add up to `t` in cell `r0` and to
`0` in every other cell: `t · phase(m, r0)` in every k-cell `m` -/
theorem fourier_trace_of_delta (ρs : List (Root R)) (f g : CF R) (h : fftn ρs f = .ok g)
    (hρ : Roots f.data.shape ρs) (hnv : 3 ≤ f.nvdim) (r0 : List Nat) (hr : inRange f.data.shape r0 = true) (t : R)
    (hT : ∀ i, inRange f.data.shape i = true →
      compA f.data 0 i + compA f.data 1 i + compA f.data 2 i = if i = r0 then t else 0)
    (m : List Nat) (hm : inRange f.data.shape m = true) :
    compA g.data 0 m + compA g.data 1 m + compA g.data 2 m = t * phase ρs f.data.shape m r0 := by
  rw [fftn_is_dft ρs f g h hρ m hm 0 (by omega), fftn_is_dft ρs f g h hρ m hm 1 (by omega),
    fftn_is_dft ρs f g h hρ m hm 2 (by omega), ← sumBox_add, ← sumBox_add]
  rw [sumBox_single f.data.shape _ r0 hr]
  · rw [← add_mul, ← add_mul, hT r0 hr, if_pos rfl]
  · intro i hi hne
    rw [← add_mul, ← add_mul, hT i hi, if_neg hne, zero_mul]

end ring

/-! ## the phase has modulus one for the complex roots of unity -/

theorem cRoot_norm (n : Nat) : ‖(cRoot n).w‖ = 1 ∧ ‖(cRoot n).wi‖ = 1 := by
  unfold cRoot
  constructor
  · show ‖Complex.exp (-(2 * Real.pi * Complex.I / n))‖ = 1
    rw [Complex.norm_exp]
    simp
  · show ‖Complex.exp (2 * Real.pi * Complex.I / n)‖ = 1
    rw [Complex.norm_exp]
    simp

theorem phase_norm (ns m r : List Nat) : ‖phase (ns.map cRoot) ns m r‖ = 1 := by
  induction ns generalizing m r with
  | nil => simp [phase]
  | cons n ns ih =>
    simp only [phase, List.map_cons, List.headD_cons, List.tail_cons]
    rw [norm_mul, norm_mul, norm_pow, norm_pow, (cRoot_norm n).1, (cRoot_norm n).2, ih]
    simp

/-! ## the model's tensor as a complex field -/

/-- shape of the displacement grid: `2n − 1` cells per axis -/
def tensorShape (m : Mesh) : List Nat := [2 * m.nAt 0 - 1, 2 * m.nAt 1 - 1, 2 * m.nAt 2 - 1]

/-- the real-space tensor of `demag_tensor(mesh)` — six symbolic Newell term lists per cell of the
displacement grid — evaluated with the real `arcsinh`, `arctan`, `sqrt` (`lvR`), as a complex field
on the tensor mesh `tm` (what `df.Field(mesh_new, nvdim=6, value=values, vdims=[xx,…])` holds) -/
noncomputable def tensorC (pi : Rat) (m tm : Mesh) : CF ℂ :=
  { mesh := tm, nvdim := 6,
    data := ⟨tensorShape m, fun j => (tensorArr pi m j).map fun ts => ((evalK lvR ts : ℝ) : ℂ)⟩,
    vdims := some ["xx", "yy", "zz", "xy", "xz", "yz"], vmap := [], unit := none }

/-- the central cell of the displacement grid (displacement 0) -/
def centreCell (m : Mesh) : List Nat := [m.nAt 0 - 1, m.nAt 1 - 1, m.nAt 2 - 1]

theorem inRange3 (a b c : Nat) (i : List Nat) (h : inRange [a, b, c] i = true) :
    ∃ i0 i1 i2, i = [i0, i1, i2] ∧ i0 < a ∧ i1 < b ∧ i2 < c := by
  have hl := inRange_length _ _ h
  match i, hl with
  | [i0, i1, i2], _ =>
    simp only [inRange, Bool.and_eq_true, decide_eq_true_eq] at h
    exact ⟨i0, i1, i2, rfl, h.1, h.2.1, h.2.2.1⟩

/-- real-space trace of the model's tensor field: `−π/pi` in the central cell, `0` elsewhere -/
theorem tensorC_trace (pi : Rat) (hpi : pi ≠ 0) (m tm : Mesh) (hm : m.Inv) (h3 : m.ndim = 3)
    (i : List Nat) (hi : inRange (tensorShape m) i = true) :
    compA (tensorC pi m tm).data 0 i + compA (tensorC pi m tm).data 1 i + compA (tensorC pi m tm).data 2 i
      = if i = centreCell m then -(((Real.pi / (pi : ℝ) : ℝ)) : ℂ) else 0 := by
  obtain ⟨i0, i1, i2, rfl, b0, b1, b2⟩ := inRange3 _ _ _ i hi
  have p0 := hm.2.2 0 (by omega)
  have p1 := hm.2.2 1 (by omega)
  have p2 := hm.2.2 2 (by omega)
  have c0 := cmCellPos m hm 0 (by omega)
  have c1 := cmCellPos m hm 1 (by omega)
  have c2 := cmCellPos m hm 2 (by omega)
  have e0 : arrPoint m 0 i0 = (((i0 : Int) - ((m.nAt 0 : Int) - 1) : Int) : Rat) * m.cellAt 0 := by
    rw [arrPoint_eq m hm 0 (by omega) i0 b0]; push_cast; ring
  have e1 : arrPoint m 1 i1 = (((i1 : Int) - ((m.nAt 1 : Int) - 1) : Int) : Rat) * m.cellAt 1 := by
    rw [arrPoint_eq m hm 1 (by omega) i1 b1]; push_cast; ring
  have e2 : arrPoint m 2 i2 = (((i2 : Int) - ((m.nAt 2 : Int) - 1) : Int) : Rat) * m.cellAt 2 := by
    rw [arrPoint_eq m hm 2 (by omega) i2 b2]; push_cast; ring
  have key := demag_trace_real pi (m.cellAt 0) (m.cellAt 1) (m.cellAt 2) hpi c0 c1 c2
    ((i0 : Int) - ((m.nAt 0 : Int) - 1)) ((i1 : Int) - ((m.nAt 1 : Int) - 1)) ((i2 : Int) - ((m.nAt 2 : Int) - 1))
  rw [← e0, ← e1, ← e2] at key
  have hsum : compA (tensorC pi m tm).data 0 [i0, i1, i2] + compA (tensorC pi m tm).data 1 [i0, i1, i2]
      + compA (tensorC pi m tm).data 2 [i0, i1, i2]
      = ((traceK lvR pi (m.cellAt 0) (m.cellAt 1) (m.cellAt 2) (arrPoint m 0 i0) (arrPoint m 1 i1) (arrPoint m 2 i2) : ℝ) : ℂ) := by
    unfold traceK compA tensorC tensorArr nAll
    simp only [List.map_cons, List.getD_cons_zero, List.getD_cons_succ]
    push_cast
    rfl
  rw [hsum, key]
  have hiff : ([i0, i1, i2] = centreCell m) ↔
      ((i0 : Int) - ((m.nAt 0 : Int) - 1) = 0 ∧ (i1 : Int) - ((m.nAt 1 : Int) - 1) = 0 ∧ (i2 : Int) - ((m.nAt 2 : Int) - 1) = 0) := by
    unfold centreCell
    constructor
    · intro h
      injection h with h0 h; injection h with h1 h; injection h with h2 _
      omega
    · intro ⟨h0, h1, h2⟩
      have : i0 = m.nAt 0 - 1 := by omega
      have : i1 = m.nAt 1 - 1 := by omega
      have : i2 = m.nAt 2 - 1 := by omega
      subst_vars; rfl
  by_cases hc : [i0, i1, i2] = centreCell m
  · rw [if_pos hc, if_pos (hiff.mp hc)]; push_cast; rfl
  · rw [if_neg hc, if_neg (fun h => hc (hiff.mpr h))]; simp

theorem centreCell_inRange (m : Mesh) (hm : m.Inv) (h3 : m.ndim = 3) : inRange (tensorShape m) (centreCell m) = true := by
  have p0 := hm.2.2 0 (by omega)
  have p1 := hm.2.2 1 (by omega)
  have p2 := hm.2.2 2 (by omega)
  unfold tensorShape centreCell
  simp only [inRange, Bool.and_eq_true, decide_eq_true_eq, and_true]
  omega

/-- TRACE IN FOURIER SPACE: the transform (C11's `Field.fftn`, any commutative-ring roots replaced
by the complex roots of unity) of the model's real-space tensor has trace
`−(π/pi)·exp(−2πi k·r_c)` in every k-cell, `r_c` the central cell — modulus `π/|pi|`, i.e. 1 up
to the rounding of `np.pi` -/
theorem tensorC_fourier_trace (pi : Rat) (hpi : pi ≠ 0) (m tm : Mesh) (hm : m.Inv) (h3 : m.ndim = 3)
    (g : CF ℂ) (h : fftn ((tensorShape m).map cRoot) (tensorC pi m tm) = .ok g)
    (k : List Nat) (hk : inRange (tensorShape m) k = true) :
    compA g.data 0 k + compA g.data 1 k + compA g.data 2 k
        = -(((Real.pi / (pi : ℝ) : ℝ)) : ℂ) * phase ((tensorShape m).map cRoot) (tensorShape m) k (centreCell m) ∧
    ‖compA g.data 0 k + compA g.data 1 k + compA g.data 2 k‖ = Real.pi / |(pi : ℝ)| := by
  have hpos : ∀ n ∈ tensorShape m, 0 < n := by
    have p0 := hm.2.2 0 (by omega)
    have p1 := hm.2.2 1 (by omega)
    have p2 := hm.2.2 2 (by omega)
    intro n hn
    unfold tensorShape at hn
    simp only [List.mem_cons, List.not_mem_nil, or_false] at hn
    omega
  have key := fourier_trace_of_delta ((tensorShape m).map cRoot) (tensorC pi m tm) g h
    (cRoots (tensorShape m) hpos) (by show 3 ≤ 6; omega) (centreCell m) (centreCell_inRange m hm h3)
    (-(((Real.pi / (pi : ℝ) : ℝ)) : ℂ)) (fun i hi => tensorC_trace pi hpi m tm hm h3 i hi) k hk
  refine ⟨key, ?_⟩
  rw [key, norm_mul]
  have : (tensorC pi m tm).data.shape = tensorShape m := rfl
  rw [this, phase_norm, mul_one, norm_neg, Complex.norm_real, Real.norm_eq_abs, abs_div, abs_of_pos Real.pi_pos]

/-! ## the transform is accepted -/

/-- the tensor mesh of a well-formed 3-d mesh is well formed -/
theorem tensorMesh_inv (m tm : Mesh) (hm : m.Inv) (h3 : m.ndim = 3) (h : tensorMesh m = .ok tm) :
    tm.Inv ∧ tm.n = tensorShape m := by
  rw [tensorMesh_eq m hm] at h
  injection h with h
  subst h
  have hfg : ∀ a, a < m.ndim → (-(m.nAt a : Rat) + 1) * m.cellAt a - m.cellAt a / 2 <
      ((m.nAt a : Rat) - 1) * m.cellAt a + m.cellAt a / 2 := by
    intro a ha
    have hc := cmCellPos m hm a ha
    have hn : (1 : Rat) ≤ (m.nAt a : Rat) := by exact_mod_cast hm.2.2 a ha
    nlinarith
  refine ⟨⟨⟨?_, ?_, ?_, ?_, ?_, ?_⟩, ?_, ?_⟩, ?_⟩
  · simp [h3]
  · simp
  · simp only [tab_length, h3]; rfl
  · simp
  · rw [h3]; rfl
  · intro a ha
    simp only [tab_length] at ha
    simp only [Region.lo, Region.hi]
    rw [getD_tab _ _ _ _ ha, getD_tab _ _ _ _ ha]
    exact hfg a ha
  · simp [Region.ndim]
  · intro a ha
    have ha' : a < m.ndim := by simpa [Mesh.ndim, Region.ndim] using ha
    have hp := hm.2.2 a ha'
    show 0 < (tab m.ndim fun a => 2 * m.nAt a - 1).getD a 0
    rw [getD_tab _ _ _ _ ha']
    omega
  · simp only [h3, tensorShape]
    rfl

theorem tensorC_inv (pi : Rat) (m tm : Mesh) (hm : m.Inv) (h3 : m.ndim = 3) (h : tensorMesh m = .ok tm) :
    CFInv (tensorC pi m tm) := by
  obtain ⟨hi, hn⟩ := tensorMesh_inv m tm hm h3 h
  refine ⟨hi, hn.symm, by show 1 ≤ 6; omega, Or.inr ⟨_, rfl, by simp, rfl, by decide, Or.inl rfl⟩⟩

end DFV.C19
