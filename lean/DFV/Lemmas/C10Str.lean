import Std.Data.String.ToNat
import DFV.Lemmas.C10
/-! C10: facts about the strings the constructors produce — the default dimension names and
component labels are duplicate-free for every count, lower-casing is idempotent. -/
namespace DFV.C10
open DFV

theorem hasDup_false_iff_nodup (l : List String) : hasDup l = false ↔ l.Nodup := by
  induction l with
  | nil => simp [hasDup]
  | cons x xs ih =>
    simp only [hasDup, Bool.or_eq_false_iff, List.nodup_cons, ih]
    constructor
    · rintro ⟨h1, h2⟩
      refine ⟨?_, h2⟩
      intro hm
      have : xs.contains x = true := by simpa using hm
      rw [this] at h1; cases h1
    · rintro ⟨h1, h2⟩
      refine ⟨?_, h2⟩
      simpa using h1

theorem nodup_map_of_inj {α β : Type} (f : α → β) (l : List α) (hf : ∀ a b, f a = f b → a = b) (h : l.Nodup) :
    (l.map f).Nodup := by
  unfold List.Nodup at *
  rw [List.pairwise_map]
  exact h.imp fun hab e => hab (hf _ _ e)

theorem prefixed_inj (pre : String) (i j : Nat) (h : pre ++ toString i = pre ++ toString j) : i = j := by
  have := congrArg String.toList h
  simp only [String.toList_append] at this
  have h2 := List.append_cancel_left this
  have h3 : toString i = toString j := String.toList_inj.mp h2
  exact Nat.repr_inj.mp h3

/-- `[f"{pre}{i}" for i in range(n)]` never repeats a name -/
theorem hasDup_numbered (pre : String) (n : Nat) : hasDup ((List.range n).map fun i => pre ++ toString i) = false := by
  rw [hasDup_false_iff_nodup]
  exact nodup_map_of_inj _ _ (fun i j h => prefixed_inj pre i j h) List.nodup_range

/-- the default dimension names (`x, y, z` / `x0, x1, …`) are distinct, for every dimension -/
theorem hasDup_defaultDims (n : Nat) : hasDup (Region.defaultDims n) = false := by
  unfold Region.defaultDims
  split
  · rename_i h
    have : n = 0 ∨ n = 1 ∨ n = 2 ∨ n = 3 := by omega
    rcases this with rfl | rfl | rfl | rfl <;> decide
  · exact hasDup_numbered "x" n

theorem defaultDims_length (n : Nat) : (Region.defaultDims n).length = n := by
  unfold Region.defaultDims
  split
  · simp; omega
  · simp

/-- the default component labels: none for one component, else `nvdim` distinct names -/
theorem defaultVdims_inv (k : Nat) (hk : 1 ≤ k) : VdimsOk k (Fld.defaultVdims k) := by
  by_cases h1 : k = 1
  · subst h1; simp [Fld.defaultVdims, VdimsOk]
  · by_cases h2 : k ≤ 3
    · have : k = 2 ∨ k = 3 := by omega
      rcases this with rfl | rfl
      · have : Fld.defaultVdims 2 = some ["x", "y"] := by decide
        rw [this]; simp only [VdimsOk]; decide
      · have : Fld.defaultVdims 3 = some ["x", "y", "z"] := by decide
        rw [this]; simp only [VdimsOk]; decide
    · simp only [Fld.defaultVdims, if_neg h1, if_neg h2, VdimsOk]
      refine ⟨?_, by simp, hasDup_numbered "v" k⟩
      intro h
      have := congrArg List.length h
      simp at this
      omega

theorem char_lower_idem (c : Char) : c.toLower.toLower = c.toLower := by
  unfold Char.toLower
  split
  · rename_i h
    split
    · rename_i h2
      exfalso
      simp only [ge_iff_le, UInt32.le_iff_toNat_le, UInt32.toNat_add] at h h2
      have e1 : 'A'.val.toNat = 65 := by decide
      have e2 : 'Z'.val.toNat = 90 := by decide
      have e3 : ('a'.val - 'A'.val).toNat = 32 := by decide
      rw [e1, e2] at h
      rw [e1, e2, e3] at h2
      omega
    · rfl
  · rfl

/-- `bc.lower().lower() == bc.lower()` -/
theorem toLower_idem (s : String) : s.toLower.toLower = s.toLower := by
  apply String.toList_inj.mp
  simp only [String.toLower, String.toList_map, List.map_map]
  apply List.map_congr_left
  intro a _
  exact char_lower_idem a

end DFV.C10
