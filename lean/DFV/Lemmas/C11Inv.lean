import DFV.Lemmas.C11Field
/-!
C11: the field invariant `CFInv`, the renamed mapping as a list, success of `_fftn`'s
constructor call on every valid field.
-/
namespace DFV.C11
open DFV

/-! ### the renamed mapping as a list -/

theorem hasDup_cons (x : String) (xs : List String) :
    hasDup (x :: xs) = false ↔ x ∉ xs ∧ hasDup xs = false := by
  simp only [hasDup, Bool.or_eq_false_iff]
  constructor
  · rintro ⟨h1, h2⟩
    refine ⟨?_, h2⟩
    intro hm
    have := List.contains_iff_mem.mpr hm
    rw [this] at h1; cases h1
  · rintro ⟨h1, h2⟩
    refine ⟨?_, h2⟩
    cases hc : xs.contains x with
    | false => rfl
    | true => exact absurd (List.contains_iff_mem.mp hc) h1

theorem dictGet_none_of_not_key (m : List (String × String)) (k : String) (h : k ∉ m.map (·.1)) :
    dictGet m k = none := by
  induction m with
  | nil => rfl
  | cons p m ih =>
    obtain ⟨k', v'⟩ := p
    simp only [List.map_cons, List.mem_cons, not_or] at h
    rw [dictGet_cons, if_neg (fun e => h.1 e.symm), ih h.2]

theorem dictSet_fresh (m : List (String × String)) (k v : String) (h : k ∉ m.map (·.1)) :
    dictSet m k v = m ++ [(k, v)] := by
  induction m with
  | nil => rfl
  | cons p m ih =>
    obtain ⟨k', v'⟩ := p
    simp only [List.map_cons, List.mem_cons, not_or] at h
    have : (k' == k) = false := by simpa using (fun e => h.1 e.symm)
    simp only [dictSet, this, Bool.false_eq_true, if_false, List.cons_append, ih h.2]

/-- when every label has an entry and renamed labels stay distinct, the loop appends the
renamed entries in label order -/
theorem renameMap_eq (vmap : List (String × String)) (fk fv : String → String) (vs : List String)
    (acc : List (String × String)) (hnd : hasDup vs = false)
    (hinj : ∀ u ∈ vs, ∀ v ∈ vs, fk u = fk v → u = v)
    (hall : ∀ v ∈ vs, ∃ d, dictGet vmap v = some d)
    (hacc : ∀ v ∈ vs, fk v ∉ acc.map (·.1)) :
    renameMap vmap fk fv vs acc = acc ++ vs.map fun v => (fk v, fv ((dictGet vmap v).getD "")) := by
  induction vs generalizing acc with
  | nil => simp [renameMap]
  | cons u us ih =>
    rw [hasDup_cons] at hnd
    obtain ⟨d, hd⟩ := hall u (by simp)
    simp only [renameMap, hd]
    rw [dictSet_fresh acc _ _ (hacc u (by simp))]
    rw [ih (acc ++ [(fk u, fv d)]) hnd.2
      (fun a ha b hb => hinj a (List.mem_cons_of_mem _ ha) b (List.mem_cons_of_mem _ hb))
      (fun v hv => hall v (List.mem_cons_of_mem _ hv))
      (by
        intro v hv
        simp only [List.map_append, List.map_cons, List.map_nil, List.mem_append, List.mem_singleton, not_or]
        refine ⟨hacc v (List.mem_cons_of_mem _ hv), ?_⟩
        intro e
        have := hinj v (List.mem_cons_of_mem _ hv) u (by simp) e
        subst this
        exact hnd.1 hv)]
    simp [hd]

theorem renameMap_of_empty (fk fv : String → String) (vs : List String) (acc : List (String × String)) :
    renameMap [] fk fv vs acc = acc := by
  induction vs generalizing acc with
  | nil => rfl
  | cons u us ih => simp only [renameMap, dictGet_nil]; exact ih acc

/-- a dictionary whose keys are `vs` (distinct) is the list of its entries in that order -/
theorem dict_eq_of_keys (m : List (String × String)) (vs : List String) (hk : m.map (·.1) = vs)
    (hnd : hasDup vs = false) : vs.map (fun v => (v, (dictGet m v).getD "")) = m := by
  induction m generalizing vs with
  | nil => subst hk; rfl
  | cons p m ih =>
    obtain ⟨k, d⟩ := p
    subst hk
    simp only [List.map_cons] at hnd ⊢
    rw [hasDup_cons] at hnd
    rw [dictGet_cons, if_pos rfl]
    simp only [Option.getD_some, List.cons.injEq, true_and]
    have e : (m.map (·.1)).map (fun v => (v, (dictGet ((k, d) :: m) v).getD ""))
        = (m.map (·.1)).map (fun v => (v, (dictGet m v).getD "")) := by
      apply List.map_congr_left
      intro v hv
      have hne : k ≠ v := fun e => hnd.1 (e ▸ hv)
      rw [dictGet_cons, if_neg hne]
    rw [e, ih _ rfl hnd.2]

theorem dictGet_some_of_key (m : List (String × String)) (k : String) (h : k ∈ m.map (·.1)) :
    ∃ d, dictGet m k = some d := by
  induction m with
  | nil => simp at h
  | cons p m ih =>
    obtain ⟨k', v'⟩ := p
    rw [dictGet_cons]
    by_cases e : k' = k
    · exact ⟨v', by rw [if_pos e]⟩
    · rw [if_neg e]
      simp only [List.map_cons, List.mem_cons] at h
      rcases h with h | h
      · exact absurd h.symm e
      · exact ih h


/-- the loop of `_fftn` on a mapping that is empty or has exactly the labels as keys (in label
order): every entry is renamed in place -/
theorem renameMap_total (vmap : List (String × String)) (fk fv : String → String) (vs : List String)
    (hk : vmap = [] ∨ vmap.map (·.1) = vs) (hnd : hasDup vs = false)
    (hinj : ∀ u ∈ vs, ∀ v ∈ vs, fk u = fk v → u = v) :
    renameMap vmap fk fv vs [] = vmap.map fun p => (fk p.1, fv p.2) := by
  rcases hk with rfl | hk
  · rw [renameMap_of_empty]; rfl
  · rw [renameMap_eq vmap fk fv vs [] hnd hinj
      (fun v hv => dictGet_some_of_key vmap v (by rw [hk]; exact hv)) (fun v _ => by simp)]
    simp only [List.nil_append]
    conv => rhs; rw [← dict_eq_of_keys vmap vs hk hnd]
    rw [List.map_map]
    rfl

section
variable {R : Type}

/-- state invariant the `Field` constructor establishes (labels distinct and as many as
components; mapping empty or keyed by the labels; scalar fields may be unlabelled) -/
structure CFInv (f : CF R) : Prop where
  mesh : f.mesh.Inv
  shape : f.data.shape = f.mesh.n
  nv : 1 ≤ f.nvdim
  labels : (f.vdims = none ∧ f.nvdim = 1 ∧ f.vmap = []) ∨
    (∃ vs, f.vdims = some vs ∧ vs ≠ [] ∧ vs.length = f.nvdim ∧ hasDup vs = false ∧
      (f.vmap = [] ∨ f.vmap.map (·.1) = vs))

theorem mkCF_labelled (mesh : Mesh) (nv : Nat) (data : NDA (List R)) (vs : List String)
    (mp : List (String × String)) (unit : Option String) (hnv : 1 ≤ nv) (hshape : data.shape = mesh.n)
    (hne : vs ≠ []) (hlen : vs.length = nv) (hnd : hasDup vs = false)
    (hk : mp = [] ∨ mp.map (·.1) = vs) :
    mkCF mesh nv data (some vs) (some mp) unit
      = .ok { mesh := mesh, nvdim := nv, data := data, vdims := some vs, vmap := mp, unit := unit } := by
  unfold mkCF
  rw [if_neg (by omega), if_neg (by simp [hshape])]
  have h1 : vdimsSetter nv (some vs) = .ok (some vs) := by
    show (if vs.length = 0 then Except.ok none
      else if vs.length ≠ nv then Except.error Err.value
      else if hasDup vs = true then Except.error Err.value else Except.ok (some vs)) = _
    have h0 : ¬ vs.length = 0 := fun e => hne (List.length_eq_zero_iff.mp e)
    rw [if_neg h0, if_neg (by omega), hnd]; simp
  rw [h1]
  simp only
  have h2 : vmapSetter nv mesh.region.dims (some vs) (some mp) = .ok mp := by
    unfold vmapSetter
    simp only [Option.isNone_some, Bool.and_false, Bool.false_eq_true, if_false, Option.getD_some]
    rcases hk with rfl | hk
    · simp
    · have : (mp.map (·.1)).isPerm vs = true := by rw [hk, List.isPerm_iff]
      simp [this]
  rw [h2]

theorem mkCF_scalar (mesh : Mesh) (data : NDA (List R)) (unit : Option String) (hshape : data.shape = mesh.n) :
    mkCF mesh 1 data none none unit
      = .ok { mesh := mesh, nvdim := 1, data := data, vdims := none, vmap := [], unit := unit } := by
  unfold mkCF
  rw [if_neg (by omega), if_neg (by simp [hshape])]
  rfl

/-- `_fftn` succeeds on every valid field whose renamed labels stay distinct, and renames
labels and mapping entry by entry -/
theorem finish_ok_of_inv (f : CF R) (hf : CFInv f) (mesh : Mesh) (data : NDA (List R)) (inverse : Bool)
    (hshape : data.shape = mesh.n)
    (hdist : ∀ vs, f.vdims = some vs → inverse = true →
      hasDup (vs.map (stripPre "ft_")) = false ∧
      ∀ u ∈ vs, ∀ v ∈ vs, stripPre "ft_" u = stripPre "ft_" v → u = v) :
    finish f mesh data inverse = .ok
      { mesh := mesh, nvdim := f.nvdim, data := data,
        vdims := f.vdims.map fun vs => vs.map (if inverse then stripPre "ft_" else ("ft_" ++ ·)),
        vmap := f.vmap.map fun p => if inverse then (stripPre "ft_" p.1, stripPre "k_" p.2)
                                    else ("ft_" ++ p.1, "k_" ++ p.2),
        unit := f.unit } := by
  unfold finish
  rcases hf.labels with ⟨hv, hnv, hmp⟩ | ⟨vs, hv, hne, hlen, hnd, hk⟩
  · rw [hv, hnv, hmp]
    simp only
    rw [mkCF_scalar mesh data f.unit hshape]
    rfl
  · rw [hv]
    simp only
    cases inverse with
    | false =>
      simp only [Bool.false_eq_true, if_false]
      rw [renameMap_total f.vmap _ _ vs hk hnd (fun u _ v _ e => ft_inj u v e)]
      rw [mkCF_labelled mesh f.nvdim data _ _ f.unit hf.nv hshape (by simpa using hne) (by simpa using hlen)
        (by rw [hasDup_map_inj _ ft_inj]; exact hnd)
        (by
          rcases hk with h | h
          · left; rw [h]; rfl
          · right; rw [List.map_map, ← h, List.map_map]; rfl)]
      rfl
    | true =>
      obtain ⟨hd1, hd2⟩ := hdist vs hv rfl
      simp only [if_true]
      rw [renameMap_total f.vmap _ _ vs hk hnd hd2]
      rw [mkCF_labelled mesh f.nvdim data _ _ f.unit hf.nv hshape (by simpa using hne) (by simpa using hlen) hd1
        (by
          rcases hk with h | h
          · left; rw [h]; rfl
          · right; rw [List.map_map, ← h, List.map_map]; rfl)]
      rfl

end

end DFV.C11
