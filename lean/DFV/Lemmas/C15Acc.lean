import DFV.Lemmas.C15Hist
/-!
Acceptance of every statement of C15's model as an equivalence: a norm / value / validity
specification is accepted **iff** it is well-shaped (`…Accepted`), statement by statement and
over whole histories (the mesh and the component count never change, so the conditions can
be read off the initial field).
-/
namespace DFV.C15
open DFV

/-- shapes `_as_array(·, nvdim=1)` accepts for an array-like: the mesh's shape, or last axis 1
and broadcastable to `(*mesh.n, 1)` -/
def shapeAccepted (m : Mesh) (s : List Nat) : Prop :=
  s = m.n ∨ (s.getLast? = some 1 ∧ bcastOk s (m.n ++ [1]) = true)

/-- norm specifications the setter accepts (exactly, see `asArray1_ok_iff`) -/
def NSpec.Accepted (m : Mesh) : NSpec → Prop
  | .const _ => True
  | .fn _ => True
  | .arr a => shapeAccepted m a.shape
  | .field h => h.mesh.region.containsReg m.region = true ∧ h.nvdim = 1 ∧
      h.mesh.region.dims = m.region.dims
  | .spec s => ∃ a, C02.asArray (fun v => v == 0) s m 1 = .ok a   -- C02's acceptance theorems characterise this

def VSpec.Accepted (m : Mesh) (nvdim : Nat) : VSpec → Prop
  | .scalar c => ¬(1 < nvdim ∧ c ≠ 0)
  | .vec v => (nvdim = 1 ∧ m.n = [v.length]) ∨ v.length = nvdim
  | .arr a => a.shape = m.n ∧ (indicesC m.n).all (fun i => (a.get i).length == nvdim) = true
  | .fn g => (indicesC m.n).all (fun i => (g (m.centre i)).length == nvdim) = true

def ValidSpec.Accepted (m : Mesh) : ValidSpec → Prop
  | .arr a => shapeAccepted m a.shape
  | _ => True

def Step.Accepted (m : Mesh) (nvdim : Nat) : Step → Prop
  | .setNorm none => True
  | .setNorm (some s) => s.Accepted m
  | .update v => v.Accepted m nvdim
  | .setValid s => s.Accepted m

theorem bcastArr_ok_iff {α : Type} (m : Mesh) (a : NDA α) :
    (∃ t, bcastArr m a = .ok t) ↔ shapeAccepted m a.shape := by
  unfold bcastArr shapeAccepted
  by_cases h1 : a.shape = m.n
  · simp [h1]
  · by_cases h2 : a.shape.getLast? = some 1
    · by_cases h3 : bcastOk a.shape (m.n ++ [1]) = true
      · simp [h1, h2, h3]
      · simp [h1, h2, h3]
    · simp [h1, h2]

theorem asArray1_ok_iff (m : Mesh) (s : NSpec) : (∃ t, asArray1 m s = .ok t) ↔ s.Accepted m := by
  cases s with
  | const c => exact ⟨fun _ => trivial, fun _ => ⟨_, rfl⟩⟩
  | fn g => exact ⟨fun _ => trivial, fun _ => ⟨_, rfl⟩⟩
  | arr a => exact bcastArr_ok_iff m a
  | field h =>
    simp only [asArray1, fieldAsArray1, NSpec.Accepted]
    by_cases h1 : h.mesh.region.containsReg m.region = true
    · by_cases h2 : h.nvdim = 1
      · by_cases h3 : h.mesh.region.dims = m.region.dims
        · simp [h1, h2, h3]
        · simp [h1, h2, h3]
      · simp [h1, h2]
    · simp [h1]
  | spec s =>
    simp only [asArray1, NSpec.Accepted]
    cases C02.asArray (fun v => v == 0) s m 1 with
    | error e => simp
    | ok a => simp

/-- the error a refused norm field raises is a `ValueError` exactly when the region is not
contained or the field is not a scalar field -/
theorem asArray1_field_value_iff (m : Mesh) (h : Fld) :
    asArray1 m (.field h) = .error .value ↔
      h.mesh.region.containsReg m.region = false ∨ h.nvdim ≠ 1 := by
  simp only [asArray1, fieldAsArray1]
  by_cases h1 : h.mesh.region.containsReg m.region = true
  · by_cases h2 : h.nvdim = 1
    · by_cases h3 : h.mesh.region.dims = m.region.dims
      · simp [h1, h2, h3]
      · simp [h1, h2, h3]
    · simp [h1, h2]
  · simp [h1]

theorem valuesOf_ok_iff (m : Mesh) (nvdim : Nat) (v : VSpec) :
    (∃ a, valuesOf m nvdim v = .ok a) ↔ v.Accepted m nvdim := by
  cases v with
  | scalar c =>
    simp only [valuesOf, VSpec.Accepted]
    by_cases h : 1 < nvdim ∧ c ≠ 0
    · simp [h]
    · simp [h]
  | vec v =>
    simp only [valuesOf, VSpec.Accepted]
    by_cases h1 : nvdim = 1 ∧ m.n = [v.length]
    · rw [if_pos h1]
      exact ⟨fun _ => Or.inl h1, fun _ => ⟨_, rfl⟩⟩
    · rw [if_neg h1]
      by_cases h2 : v.length = nvdim
      · rw [if_neg (not_not.mpr h2)]
        exact ⟨fun _ => Or.inr h2, fun _ => ⟨_, rfl⟩⟩
      · rw [if_pos h2]
        constructor
        · rintro ⟨a, ha⟩; cases ha
        · rintro (h | h)
          · exact absurd h h1
          · exact absurd h h2
  | arr a =>
    simp only [valuesOf, VSpec.Accepted]
    by_cases h1 : a.shape = m.n
    · by_cases h2 : (indicesC m.n).all (fun i => (a.get i).length == nvdim) = true
      · simp [h1, h2]
      · simp [h1, h2]
    · simp [h1]
  | fn g =>
    simp only [valuesOf, VSpec.Accepted]
    by_cases h2 : (indicesC m.n).all (fun i => (g (m.centre i)).length == nvdim) = true
    · simp [h2]
    · simp [h2]

theorem validOf_ok_iff (sqrt : Rat → Rat) (atol : Rat) (f : Fld) (s : ValidSpec) :
    (∃ v, validOf sqrt atol f s = .ok v) ↔ s.Accepted f.mesh := by
  cases s with
  | none => exact ⟨fun _ => trivial, fun _ => ⟨_, rfl⟩⟩
  | all b => exact ⟨fun _ => trivial, fun _ => ⟨_, rfl⟩⟩
  | byNorm => exact ⟨fun _ => trivial, fun _ => ⟨_, rfl⟩⟩
  | arr a => exact bcastArr_ok_iff f.mesh a

theorem setNorm_ok_iff (sqrt : Rat → Rat) (f : Fld) (o : Option NSpec) :
    (∃ g, setNorm sqrt f o = .ok g) ↔ ∀ s, o = some s → s.Accepted f.mesh := by
  cases o with
  | none => exact ⟨fun _ s hs => (by cases hs), fun _ => ⟨f, rfl⟩⟩
  | some s =>
    constructor
    · rintro ⟨g, hg⟩ s' hs'
      cases hs'
      obtain ⟨t, ht, _⟩ := setNorm_some_ok hg
      exact (asArray1_ok_iff f.mesh s).mp ⟨t, ht⟩
    · intro h
      obtain ⟨t, ht⟩ := (asArray1_ok_iff f.mesh s).mpr (h s rfl)
      exact ⟨_, setNorm_of_target ht⟩

theorem step_ok_iff (sqrt : Rat → Rat) (atol : Rat) (f : Fld) (s : Step) :
    (∃ g, step sqrt atol f s = .ok g) ↔ s.Accepted f.mesh f.nvdim := by
  cases s with
  | setNorm o =>
    cases o with
    | none => exact ⟨fun _ => trivial, fun _ => ⟨f, rfl⟩⟩
    | some s =>
      show (∃ g, setNorm sqrt f (some s) = .ok g) ↔ s.Accepted f.mesh
      rw [setNorm_ok_iff]
      exact ⟨fun h => h s rfl, fun h s' hs' => by cases hs'; exact h⟩
  | update v =>
    show (∃ g, updateValues f v = .ok g) ↔ v.Accepted f.mesh f.nvdim
    rw [← valuesOf_ok_iff]
    constructor
    · rintro ⟨g, hg⟩
      obtain ⟨a, ha, _⟩ := updateValues_ok hg
      exact ⟨a, ha⟩
    · rintro ⟨a, ha⟩
      exact ⟨{ f with data := a }, by simp only [updateValues, ha]⟩
  | setValid s =>
    show (∃ g, setValid sqrt atol f s = .ok g) ↔ s.Accepted f.mesh
    rw [← validOf_ok_iff sqrt atol f s]
    constructor
    · rintro ⟨g, hg⟩
      obtain ⟨v, hv, _⟩ := setValid_ok hg
      exact ⟨v, hv⟩
    · rintro ⟨v, hv⟩
      exact ⟨{ f with valid := v }, by simp only [setValid, hv]⟩

theorem run_ok_iff (sqrt : Rat → Rat) (atol : Rat) (hist : List Step) (f : Fld) :
    (∃ g, run sqrt atol f hist = .ok g) ↔ ∀ s ∈ hist, s.Accepted f.mesh f.nvdim := by
  induction hist generalizing f with
  | nil => exact ⟨fun _ s hs => (by cases hs), fun _ => ⟨f, rfl⟩⟩
  | cons s rest ih =>
    constructor
    · rintro ⟨g, hg⟩ s' hs'
      obtain ⟨f1, h1, hr⟩ := run_cons_ok hg
      obtain ⟨e1, e2, _⟩ := step_frame h1
      rcases List.mem_cons.mp hs' with rfl | hmem
      · exact (step_ok_iff sqrt atol f s').mp ⟨f1, h1⟩
      · have := (ih f1).mp ⟨g, hr⟩ s' hmem
        rwa [e1, e2] at this
    · intro h
      obtain ⟨f1, h1⟩ := (step_ok_iff sqrt atol f s).mpr (h s List.mem_cons_self)
      obtain ⟨e1, e2, _⟩ := step_frame h1
      obtain ⟨g, hg⟩ := (ih f1).mpr fun s' hs' => by
        rw [e1, e2]; exact h s' (List.mem_cons_of_mem _ hs')
      exact ⟨g, by rw [run_cons_of rest h1]; exact hg⟩


/-! ### the constructor with labels and mapping -/

theorem vdimsSet_ok_iff (nvdim : Nat) (o : Option (List String)) :
    (∃ vd, vdimsSet nvdim o = .ok vd) ↔ ∀ l, o = some l → l = [] ∨ (l.length = nvdim ∧ hasDup l = false) := by
  cases o with
  | none => exact ⟨fun _ l hl => (by cases hl), fun _ => ⟨_, rfl⟩⟩
  | some l =>
    cases l with
    | nil => exact ⟨fun _ l hl => (by cases hl; exact Or.inl rfl), fun _ => ⟨_, rfl⟩⟩
    | cons x xs =>
      simp only [vdimsSet]
      by_cases h1 : (x :: xs).length = nvdim
      · by_cases h2 : hasDup (x :: xs) = true
        · rw [if_neg (not_not.mpr h1), if_pos h2]
          constructor
          · rintro ⟨vd, hvd⟩; cases hvd
          · intro h
            rcases h _ rfl with h | ⟨_, h⟩
            · cases h
            · rw [h] at h2; cases h2
        · rw [if_neg (not_not.mpr h1), if_neg h2]
          refine ⟨fun _ l hl => ?_, fun _ => ⟨_, rfl⟩⟩
          cases hl
          exact Or.inr ⟨h1, by simpa using h2⟩
      · rw [if_pos h1]
        constructor
        · rintro ⟨vd, hvd⟩; cases hvd
        · intro h
          rcases h _ rfl with h | ⟨h, _⟩
          · cases h
          · exact absurd h h1

/-- a live field's labels (none, or as many distinct labels as components) pass the setter
and come back as `orientVdims` says -/
theorem vdimsSet_live (f : Fld)
    (hl : ∀ l, f.vdims = some l → l ≠ [] ∧ l.length = f.nvdim ∧ hasDup l = false) :
    vdimsSet f.nvdim f.vdims = .ok (orientVdims f) := by
  unfold orientVdims
  cases hv : f.vdims with
  | none => rfl
  | some l =>
    obtain ⟨h1, h2, h3⟩ := hl l hv
    cases l with
    | nil => exact absurd rfl h1
    | cons x xs =>
      simp only [vdimsSet]
      rw [if_neg (not_not.mpr h2), if_neg (by rw [h3]; simp)]

theorem vmapSet_ok_iff (nvdim : Nat) (vd : Option (List String)) (dims : List String)
    (o : Option (List (String × String))) :
    (∃ vm, vmapSet nvdim vd dims o = .ok vm) ↔
      ∀ mp, o = some mp → (mp.length = 1 ∧ nvdim = 1 ∧ vd = none) ∨ mp = [] ∨
        ∃ l, vd = some l ∧ sameKeys (mp.map (·.1)) l = true := by
  cases o with
  | none => exact ⟨fun _ mp h => (by cases h), fun _ => ⟨_, rfl⟩⟩
  | some mp =>
    simp only [vmapSet]
    by_cases h1 : mp.length = 1 ∧ nvdim = 1 ∧ vd = none
    · rw [if_pos h1]
      exact ⟨fun _ mp' h => (by cases h; exact Or.inl h1), fun _ => ⟨_, rfl⟩⟩
    · rw [if_neg h1]
      by_cases h2 : 0 < mp.length
      · rw [if_pos h2]
        have hne : mp ≠ [] := by intro e; rw [e] at h2; simp at h2
        cases vd with
        | none =>
          constructor
          · rintro ⟨vm, hvm⟩; cases hvm
          · intro h
            rcases h mp rfl with h | h | ⟨l, hl, _⟩
            · exact absurd h h1
            · exact absurd h hne
            · cases hl
        | some l =>
          simp only
          by_cases h3 : sameKeys (mp.map (·.1)) l = true
          · rw [if_pos h3]
            exact ⟨fun _ mp' h => (by cases h; exact Or.inr (Or.inr ⟨l, rfl, h3⟩)), fun _ => ⟨_, rfl⟩⟩
          · rw [if_neg h3]
            constructor
            · rintro ⟨vm, hvm⟩; cases hvm
            · intro h
              rcases h mp rfl with h | h | ⟨l', hl, hk⟩
              · exact absurd h h1
              · exact absurd h hne
              · cases hl; exact absurd hk h3
      · rw [if_neg h2]
        have : mp = [] := by
          cases mp with
          | nil => rfl
          | cons x xs => simp at h2
        exact ⟨fun _ mp' h => (by cases h; exact Or.inr (Or.inl this)), fun _ => ⟨_, rfl⟩⟩

/-- anatomy of a successful full constructor call -/
theorem mkFull_ok {sqrt : Rat → Rat} {atol : Rat} {m : Mesh} {nvdim : Nat} {value : VSpec}
    {nrm : Option NSpec} {valid : ValidSpec} {vdims : Option (List String)}
    {vmap : Option (List (String × String))} {unit : Option String} {g : Fld}
    (h : mkFull? sqrt atol m nvdim value nrm valid vdims vmap unit = .ok g) :
    1 ≤ nvdim ∧ ∃ a, valuesOf m nvdim value = .ok a ∧
      ∃ f1, setNorm sqrt { blank m nvdim unit with data := a } nrm = .ok f1 ∧
        ∃ vd, validOf sqrt atol f1 valid = .ok vd ∧
          ∃ ls, vdimsSet nvdim vdims = .ok ls ∧ ∃ vm, vmapSet nvdim ls m.region.dims vmap = .ok vm ∧
            g = { f1 with valid := vd, vdims := ls, vmap := vm } := by
  unfold mkFull? at h
  split at h
  · cases h
  · rename_i hn
    refine ⟨by omega, ?_⟩
    split at h
    · cases h
    · rename_i f0 h0
      obtain ⟨a, ha, rfl⟩ := updateValues_ok h0
      refine ⟨a, ha, ?_⟩
      split at h
      · cases h
      · rename_i f1 h1
        refine ⟨f1, h1, ?_⟩
        split at h
        · cases h
        · rename_i f2 h2
          obtain ⟨vd, hvd, rfl⟩ := setValid_ok h2
          refine ⟨vd, hvd, ?_⟩
          split at h
          · cases h
          · rename_i ls hls
            refine ⟨ls, hls, ?_⟩
            split at h
            · cases h
            · rename_i vm hvm
              simp only [Except.ok.injEq] at h
              exact ⟨vm, hvm, h.symm⟩

/-- the field with every vector multiplied by `c` -/
def scaleF (c : Rat) (f : Fld) : Fld := { f with data := ⟨f.mesh.n, fun i => smul c (f.data.get i)⟩ }

/-- the first step of the orientation's constructor call: the orientation array is accepted as
value (every in-range cell has `nvdim` entries) -/
theorem orient_update (sqrt : Rat → Rat) (atol : Rat) (f : Fld)
    (hd : ∀ i ∈ indicesC f.mesh.n, (f.data.get i).length = f.nvdim) :
    updateValues (Fld.mk f.mesh f.nvdim ⟨f.mesh.n, fun _ => []⟩ ⟨f.mesh.n, fun _ => true⟩ none [] none)
      (.arr ⟨f.mesh.n, fun i => orientCell sqrt atol (f.data.get i)⟩) =
    .ok (Fld.mk f.mesh f.nvdim ⟨f.mesh.n, fun i => orientCell sqrt atol (f.data.get i)⟩
      ⟨f.mesh.n, fun _ => true⟩ none [] none) := by
  have hlen : (indicesC f.mesh.n).all
      (fun i => (orientCell sqrt atol (f.data.get i)).length == f.nvdim) = true := by
    rw [List.all_eq_true]
    intro i hi
    have : (orientCell sqrt atol (f.data.get i)).length = (f.data.get i).length := by
      unfold orientCell zeros
      split <;> simp
    rw [this, hd i hi]
    simp
  simp only [updateValues, valuesOf]
  rw [if_neg (not_not.mpr rfl), if_neg (by rw [hlen]; simp)]


/-- a labelled two-cell field with a mapping (non-vacuity examples of Props) -/
def exLabelled : Fld :=
  { mesh := exMesh, nvdim := 2, data := ⟨[2], fun i => if i = [0] then [3, 4] else [0, 0]⟩,
    valid := ⟨[2], fun i => i = [0]⟩, vdims := some ["a", "b"], vmap := [("b", "x"), ("a", "x")],
    unit := some "T" }


end DFV.C15
