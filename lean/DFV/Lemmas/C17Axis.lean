import DFV.Lemmas.C17Ctor
/-! Axis-level lemmas for C17: evenly spaced coordinates (arithmetic progressions) under
`np.diff`, the mean, the spacing test; `np.linspace` between the outermost cell centres. -/
namespace DFV.C17
open DFV

/-- `n` evenly spaced coordinates from `v0` with step `h` -/
def ap (v0 h : Rat) (n : Nat) : List Rat := tab n fun j => v0 + (j : Rat) * h

@[simp] theorem ap_length (v0 h : Rat) (n : Nat) : (ap v0 h n).length = n := by simp [ap]

theorem ap_getD (v0 h : Rat) (n j : Nat) (hj : j < n) : (ap v0 h n).getD j 0 = v0 + (j : Rat) * h := by
  unfold ap; rw [getD_tab _ _ _ _ hj]

theorem tab_const {α} (n : Nat) (c : α) : tab n (fun _ => c) = List.replicate n c := by
  unfold tab
  induction n with
  | zero => rfl
  | succ k ih => rw [List.range_succ, List.map_append, ih]; simp [List.replicate_succ']

theorem sumR_replicate (n : Nat) (c : Rat) : sumR (List.replicate n c) = (n : Rat) * c := by
  induction n with
  | zero => simp [sumR]
  | succ k ih => rw [List.replicate_succ, sumR, ih]; push_cast; ring

theorem diffs_ap (v0 h : Rat) (n : Nat) : diffs (ap v0 h n) = List.replicate (n - 1) h := by
  unfold diffs
  rw [ap_length, ← tab_const]
  apply tab_congr
  intro j hj
  rw [ap_getD _ _ _ _ (by omega), ap_getD _ _ _ _ (by omega)]
  push_cast; ring

theorem meanDiff_ap (v0 h : Rat) (n : Nat) (hn : 2 ≤ n) : meanDiff (ap v0 h n) = h := by
  unfold meanDiff
  rw [diffs_ap, sumR_replicate, ap_length]
  have : ((n - 1 : Nat) : Rat) ≠ 0 := by
    have : 0 < n - 1 := by omega
    exact_mod_cast (Nat.pos_iff_ne_zero.mp this)
  field_simp

/-- evenly spaced coordinates pass the spacing test, whatever the step -/
theorem evenB_ap (v0 h : Rat) (n : Nat) : evenB (ap v0 h n) = true := by
  unfold evenB
  rw [ap_length]
  by_cases hn : n ≤ 1
  · simp [hn]
  · have hn2 : 2 ≤ n := by omega
    rw [Bool.or_eq_true]
    right
    rw [allLt_iff]
    intro j hj
    rw [meanDiff_ap _ _ _ hn2, diffs_ap, List.getD_eq_getElem?_getD, List.getElem?_replicate]
    simp only [hj, if_true, Option.getD_some]
    unfold Region.isclose
    apply decide_eq_true
    have : absR (h - h) = 0 := by simp [absR]
    rw [this]
    have := absR_nonneg h
    nlinarith

theorem ap_first (v0 h : Rat) (n : Nat) (hn : 1 ≤ n) : (ap v0 h n).getD 0 0 = v0 := by
  rw [ap_getD _ _ _ _ (by omega)]; simp

theorem ap_last (v0 h : Rat) (n : Nat) (hn : 1 ≤ n) :
    (ap v0 h n).getD ((ap v0 h n).length - 1) 0 = v0 + ((n : Rat) - 1) * h := by
  rw [ap_length, ap_getD _ _ _ _ (by omega)]
  push_cast [Nat.cast_sub hn]; ring

/-- `np.linspace(lo + c/2, hi - c/2, n)` are the `n` cell centres when `n·c = hi - lo` -/
theorem linspace_eq_ap (lo hi c : Rat) (n : Nat) (hn : 1 ≤ n) (hc : (n : Rat) * c = hi - lo) :
    Mesh.linspace (lo + c / 2) (hi - c / 2) n = ap (lo + c / 2) c n := by
  unfold Mesh.linspace
  by_cases h1 : n = 1
  · subst h1; simp [ap, tab, List.range_succ]
  · rw [if_neg h1]
    unfold ap
    apply tab_congr
    intro j _
    have hn1 : ((n : Rat) - 1) ≠ 0 := by
      have : (2 : Rat) ≤ (n : Rat) := by exact_mod_cast (by omega : 2 ≤ n)
      intro h0; linarith
    have : (hi - c / 2 - (lo + c / 2)) / ((n : Rat) - 1) = c := by
      field_simp
      linarith
    rw [this]

/-- the per-axis coordinates `Mesh.cells` produces are the evenly spaced cell centres -/
theorem cells_getD (m : Mesh) (hm : m.Inv) (a : Nat) (ha : a < m.ndim) :
    m.cells.getD a [] = ap (m.region.lo a + m.cellAt a / 2) (m.cellAt a) (m.nAt a) := by
  unfold Mesh.cells
  rw [getD_tab _ _ _ _ ha]
  have hn := hm.2.2 a ha
  apply linspace_eq_ap _ _ _ _ hn
  unfold Mesh.cellAt Region.edge
  have : (m.nAt a : Rat) ≠ 0 := by exact_mod_cast (Nat.pos_iff_ne_zero.mp hn)
  field_simp

theorem cellAt_pos (m : Mesh) (hm : m.Inv) (a : Nat) (ha : a < m.ndim) : 0 < m.cellAt a := by
  unfold Mesh.cellAt Region.edge
  have h1 : (0 : Rat) < (m.nAt a : Rat) := by exact_mod_cast hm.2.2 a ha
  have h2 := hm.1.2.2.2.2.2 a ha
  exact div_pos (by linarith) h1

end DFV.C17
