import DFV.Lemmas.C04Ring
/-!
Helper lemmas for C04, fourth part: rotating the stored ring (`rotCells`), the masks for which the
periodic derivative commutes with every rotation (all valid, or no three cyclically consecutive
valid cells), and the witness that it does not for every other mask (known finding D17).
-/
set_option linter.unusedSimpArgs false
namespace DFV.C04
open DFV

theorem rotCells_length (cells : List (Rat × Bool)) (s : Nat) : (rotCells cells s).length = cells.length := by
  simp [rotCells]

theorem valOf_rotCells (cells : List (Rat × Bool)) (s k : Nat) (hk : k < cells.length) :
    valOf (rotCells cells s) k = valOf cells ((k + s) % cells.length) := by
  unfold valOf rotCells; rw [getD_tab _ _ _ _ hk]

theorem okOf_rotCells (cells : List (Rat × Bool)) (s k : Nat) (hk : k < cells.length) :
    okOf (rotCells cells s) k = okOf cells ((k + s) % cells.length) := by
  unfold okOf rotCells; rw [getD_tab _ _ _ _ hk]

theorem ringSpec_congr (o : Nat) (h : Rat) (L : Nat) (x x' : Nat → Rat) (v v' : Nat → Bool) (j : Nat) (hj : j < L)
    (hx : ∀ k, k < L → x k = x' k) (hv : ∀ k, k < L → v k = v' k) :
    ringSpec o h L x v j = ringSpec o h L x' v' j := by
  rw [ringSpec_eq_winSpec, ringSpec_eq_winSpec]
  exact winSpec_congr true o h L x x' v v' j hj hx hv

/-- the derivative of the rotated ring, through the spec of the unrotated data -/
theorem diffRing_rot_getD (o : Nat) (h : Rat) (cells : List (Rat × Bool)) (s j : Nat) (hj : j < cells.length) :
    (diffRing o h (rotCells cells s)).getD j 0
      = ringSpec o h cells.length (fun k => valOf cells ((k + s) % cells.length))
          (fun k => okOf cells ((k + s) % cells.length)) j := by
  rw [diffRing_getD_ringSpec o h _ j (by rw [rotCells_length]; exact hj), rotCells_length]
  exact ringSpec_congr o h _ _ _ _ _ j hj (fun k hk => valOf_rotCells cells s k hk) (fun k hk => okOf_rotCells cells s k hk)

/-! ### stencil values at particular positions -/

theorem dAt_interior (o : Nat) (h : Rat) (n : Nat) (f : Nat → Rat) (p : Nat) (hn : 3 ≤ n) (hp : 1 ≤ p) (hp' : p + 1 < n) :
    dAt o h n f p = if o = 1 then (f (p + 1) - f (p - 1)) / (2 * h) else (f (p + 1) - 2 * f p + f (p - 1)) / (h * h) := by
  unfold dAt d1At d2At
  have h1 : ¬ n < 2 := by omega
  have h2 : ¬ n = 2 := by omega
  have h3 : ¬ n < 3 := by omega
  have h4 : ¬ p = 0 := by omega
  have h5 : ¬ p = n - 1 := by omega
  simp only [h1, h2, h3, h4, h5, if_false]
  split
  · rfl
  · by_cases h6 : n = 3
    · have : p = 1 := by omega
      subst this
      simp only [h6, if_true]
      ring
    · simp only [h6, if_false]

theorem d1At_last (h : Rat) (n : Nat) (f : Nat → Rat) (hn : 3 ≤ n) :
    dAt 1 h n f (n - 1) = (3 * f (n - 1) - 4 * f (n - 2) + f (n - 3)) / (2 * h) := by
  unfold dAt d1At
  have h1 : ¬ n < 2 := by omega
  have h2 : ¬ n = 2 := by omega
  have h4 : ¬ n - 1 = 0 := by omega
  simp only [h1, h2, h4, if_false, if_true]

theorem d2At_last (h : Rat) (n : Nat) (f : Nat → Rat) (hn : 3 ≤ n) :
    dAt 2 h n f (n - 1)
      = if n = 3 then (f 0 - 2 * f 1 + f 2) / (h * h)
        else (2 * f (n - 1) - 5 * f (n - 2) + 4 * f (n - 3) - f (n - 4)) / (h * h) := by
  unfold dAt d2At
  have h0 : ¬ (2 : Nat) = 1 := by omega
  have h1 : ¬ n < 3 := by omega
  have h4 : ¬ n - 1 = 0 := by omega
  simp only [h0, h1, h4, if_false, if_true]

theorem dAt_two (h : Rat) (f : Nat → Rat) (p : Nat) : dAt 1 h 2 f p = (f 1 - f 0) / h := by
  unfold dAt d1At; simp

/-! ### modular arithmetic on ring positions -/

theorem mod_succ_rot (L j s : Nat) : ((j + 1) % L + s) % L = ((j + s) % L + 1) % L := by
  rw [Nat.mod_add_mod, Nat.mod_add_mod]; congr 1; omega

theorem mod_pred_rot (L j s : Nat) (hL : 0 < L) : ((j + L - 1) % L + s) % L = ((j + s) % L + L - 1) % L := by
  rw [Nat.mod_add_mod, show (j + s) % L + L - 1 = (j + s) % L + (L - 1) by omega, Nat.mod_add_mod]; congr 1; omega

theorem mod_self_rot (L j s : Nat) : (j % L + s) % L = ((j + s) % L) % L := by
  rw [Nat.mod_add_mod, Nat.mod_mod]

theorem mod_two_rot (L j s : Nat) : ((j + 2) % L + s) % L = ((j + s) % L + 2) % L := by
  rw [Nat.mod_add_mod, Nat.mod_add_mod]; congr 1; omega

/-- a ring position moved by `0 < d < L` cells is another position -/
theorem add_mod_ne (L e d : Nat) (he : e < L) (hd : 0 < d) (hd' : d < L) : (e + d) % L ≠ e := by
  by_cases hlt : e + d < L
  · rw [Nat.mod_eq_of_lt hlt]; omega
  · rw [Nat.mod_eq_sub_mod (by omega), Nat.mod_eq_of_lt (by omega)]; omega

/-! ### fully valid rings: centred differences, whatever the rotation -/

theorem centred_rot (o : Nat) (h : Rat) (L : Nat) (x : Nat → Rat) (s j : Nat) (hL : 0 < L) :
    centred o h L (fun k => x ((k + s) % L)) j = centred o h L x ((j + s) % L) := by
  unfold centred
  simp only [mod_succ_rot, mod_pred_rot L j s hL, mod_self_rot]

theorem ringSpec_allValid (o : Nat) (h : Rat) (L : Nat) (x : Nat → Rat) (v : Nat → Bool) (j : Nat) (hj : j < L)
    (hv : ∀ k, k < L → v k = true) : ringSpec o h L x v j = centred o h L x j := by
  have eB : ringBefore v L j = j + 1 := by
    unfold ringBefore
    rw [runBefore_all v j (fun k hk => hv k (by omega)), hv (L - 1) (by omega)]; simp
  have eA : ringFrom v L j = L - j + 1 := by
    unfold ringFrom
    have : runFrom v L j = L - j := runFromAux_eq v (L - j) j _ (fun k h1 h2 => hv k (by omega)) (Or.inl rfl)
    rw [this, hv 0 (by omega)]
    have : j + (L - j) = L := by omega
    simp [this]
  unfold ringSpec
  rw [hv j hj, eB, eA]
  simp only [if_true]
  rw [show j + 1 + (L - j + 1) = L + 2 by omega, dAt_interior o h (L + 2) _ (j + 1) (by omega) (by omega) (by omega)]
  unfold centred
  have a1 : (j + L - (j + 1) + (j + 1 + 1)) % L = (j + 1) % L := by
    rw [show j + L - (j + 1) + (j + 1 + 1) = (j + 1) + L by omega, Nat.add_mod_right]
  have a2 : (j + L - (j + 1) + (j + 1)) % L = j % L := by
    rw [show j + L - (j + 1) + (j + 1) = j + L by omega, Nat.add_mod_right]
  have a3 : (j + L - (j + 1) + (j + 1 - 1)) % L = (j + L - 1) % L := by
    congr 1; omega
  simp only [a1, a2, a3]

/-! ### rings without three consecutive valid cells: two-cell differences, whatever the rotation -/

theorem noThree_rot (v : Nat → Bool) (L s : Nat) (h : noThree v L) : noThree (fun k => v ((k + s) % L)) L := by
  intro j hj hc
  have hL : 0 < L := by omega
  have := h ((j + s) % L) (Nat.mod_lt _ hL)
  apply this
  obtain ⟨h1, h2, h3⟩ := hc
  refine ⟨h1, ?_, ?_⟩
  · rw [← mod_succ_rot]; exact h2
  · rw [← mod_two_rot]; exact h3

theorem shortRing_rot (o : Nat) (h : Rat) (L : Nat) (x : Nat → Rat) (v : Nat → Bool) (s j : Nat) (hj : j < L) :
    shortRing o h L (fun k => x ((k + s) % L)) (fun k => v ((k + s) % L)) j = shortRing o h L x v ((j + s) % L) := by
  have hL : 0 < L := by omega
  unfold shortRing
  simp only [mod_succ_rot, mod_pred_rot L j s hL, mod_self_rot, Nat.mod_mod]

/-- under `noThree` a valid cell has at most one valid cell before it inside the stored line -/
theorem noThree_runBefore (v : Nat → Bool) (L j : Nat) (h3 : noThree v L) (hj : j < L) (hv : v j = true) :
    runBefore v j = if 0 < j ∧ v (j - 1) = true then 1 else 0 := by
  cases j with
  | zero => rfl
  | succ j' =>
    simp only [runBefore, Nat.add_sub_cancel, Nat.succ_pos, true_and]
    by_cases hv1 : v j' = true
    · simp only [hv1, if_true]
      cases j' with
      | zero => rfl
      | succ j'' =>
        simp only [runBefore]
        by_cases hv2 : v j'' = true
        · exfalso
          apply h3 j'' (by omega)
          refine ⟨hv2, ?_, ?_⟩
          · rw [Nat.mod_eq_of_lt (by omega)]; exact hv1
          · rw [Nat.mod_eq_of_lt (by omega)]; exact hv
        · simp [hv2]
    · simp [hv1]

theorem noThree_ringBefore (v : Nat → Bool) (L j : Nat) (h3 : noThree v L) (hj : j < L) (hv : v j = true) :
    ringBefore v L j = if v ((j + L - 1) % L) = true then 1 else 0 := by
  unfold ringBefore
  rw [noThree_runBefore v L j h3 hj hv]
  cases j with
  | zero =>
    simp only [Nat.lt_irrefl, false_and, if_false, if_true, Nat.zero_add]
    rw [Nat.mod_eq_of_lt (by omega)]
  | succ j' =>
    have e : (j' + 1 + L - 1) % L = j' := by
      rw [show j' + 1 + L - 1 = j' + L by omega, Nat.add_mod_right]; exact Nat.mod_eq_of_lt (by omega)
    rw [e]
    simp only [Nat.succ_pos, true_and, Nat.add_sub_cancel]
    by_cases hv1 : v j' = true
    · simp only [hv1, if_true]
      cases j' with
      | zero =>
        simp only [Nat.zero_add, if_true]
        by_cases hl : v (L - 1) = true
        · exfalso
          have hL2 : 2 ≤ L := by omega
          apply h3 (L - 1) (by omega)
          refine ⟨hl, ?_, ?_⟩
          · rw [show L - 1 + 1 = L by omega, Nat.mod_self]; exact hv1
          · rw [show L - 1 + 2 = 1 + L by omega, Nat.add_mod_right, Nat.mod_eq_of_lt (by omega)]; exact hv
        · simp [hl]
      | succ j'' =>
        have : ¬ (1 = j'' + 1 + 1) := by omega
        simp only [this, if_false]
    · simp only [hv1, Bool.false_eq_true, if_false]
      have : ¬ (0 = j' + 1) := by omega
      simp only [this, if_false]

/-- under `noThree` a valid cell is followed by at most one valid cell inside the stored line -/
theorem noThree_runFrom (v : Nat → Bool) (L j : Nat) (h3 : noThree v L) (hj : j < L) (hv : v j = true) :
    runFrom v L j = if j + 1 < L ∧ v (j + 1) = true then 2 else 1 := by
  unfold runFrom
  obtain ⟨f, hf⟩ : ∃ f, L - j = f + 1 := ⟨L - j - 1, by omega⟩
  rw [hf]
  simp only [runFromAux, hv, if_true]
  cases f with
  | zero =>
    have : ¬ (j + 1 < L) := by omega
    simp [runFromAux, this]
  | succ f' =>
    have hlt : j + 1 < L := by omega
    simp only [runFromAux, hlt, true_and]
    by_cases hv1 : v (j + 1) = true
    · simp only [hv1, if_true]
      cases f' with
      | zero => rfl
      | succ f'' =>
        simp only [runFromAux]
        by_cases hv2 : v (j + 1 + 1) = true
        · exfalso
          apply h3 j hj
          refine ⟨hv, ?_, ?_⟩
          · rw [Nat.mod_eq_of_lt hlt]; exact hv1
          · rw [Nat.mod_eq_of_lt (by omega)]; exact hv2
        · simp [hv2]
    · simp [hv1]

theorem noThree_ringFrom (v : Nat → Bool) (L j : Nat) (h3 : noThree v L) (hj : j < L) (hv : v j = true) :
    ringFrom v L j = if v ((j + 1) % L) = true then 2 else 1 := by
  unfold ringFrom
  rw [noThree_runFrom v L j h3 hj hv]
  by_cases hlt : j + 1 < L
  · rw [Nat.mod_eq_of_lt hlt]
    simp only [hlt, true_and]
    by_cases hv1 : v (j + 1) = true
    · simp only [hv1, if_true]
      by_cases he : j + 2 = L
      · simp only [he, if_true]
        by_cases h0 : v 0 = true
        · exfalso
          apply h3 j hj
          refine ⟨hv, ?_, ?_⟩
          · rw [Nat.mod_eq_of_lt hlt]; exact hv1
          · rw [he, Nat.mod_self]; exact h0
        · simp [h0]
      · simp only [he, if_false]
    · simp only [hv1, Bool.false_eq_true, if_false]
      have : ¬ (j + 1 = L) := by omega
      simp only [this, if_false]
  · have he : j + 1 = L := by omega
    have : ¬ (j + 1 < L ∧ v (j + 1) = true) := by omega
    rw [if_neg this, if_pos he, he, Nat.mod_self]
    split <;> rfl

theorem noThree_not_both (v : Nat → Bool) (L j : Nat) (h3 : noThree v L) (hj : j < L) (hv : v j = true)
    (hp : v ((j + L - 1) % L) = true) (hs : v ((j + 1) % L) = true) : False := by
  have hL : 0 < L := by omega
  apply h3 ((j + L - 1) % L) (Nat.mod_lt _ hL)
  refine ⟨hp, ?_, ?_⟩
  · rw [Nat.mod_add_mod, show j + L - 1 + 1 = j + L by omega, Nat.add_mod_right, Nat.mod_eq_of_lt hj]; exact hv
  · rw [Nat.mod_add_mod, show j + L - 1 + 2 = (j + 1) + L by omega, Nat.add_mod_right]; exact hs

theorem ringSpec_noThree (o : Nat) (ho : o = 1 ∨ o = 2) (h : Rat) (L : Nat) (x : Nat → Rat) (v : Nat → Bool) (j : Nat)
    (hj : j < L) (h3 : noThree v L) : ringSpec o h L x v j = shortRing o h L x v j := by
  unfold ringSpec shortRing
  by_cases hv : v j = true
  · simp only [hv, if_true]
    rw [noThree_ringBefore v L j h3 hj hv, noThree_ringFrom v L j h3 hj hv]
    by_cases hs : v ((j + 1) % L) = true
    · have hp : ¬ v ((j + L - 1) % L) = true := fun hp => noThree_not_both v L j h3 hj hv hp hs
      simp only [hs, hp, if_true, if_false, Bool.false_eq_true]
      rcases ho with rfl | rfl
      · simp only [if_true]
        rw [show 0 + 2 = 2 from rfl, dAt_two]
        congr 2
        · congr 1; rw [show j + L - 0 + 1 = (j + 1) + L by omega, Nat.add_mod_right]
        · congr 1; rw [show j + L - 0 + 0 = j + L by omega, Nat.add_mod_right]
      · simp only [show ¬ (2 : Nat) = 1 by omega, if_false]
        exact dAt_short 2 (Or.inr rfl) h _ (by omega) _ _
    · simp only [hs, if_false, Bool.false_eq_true]
      by_cases hp : v ((j + L - 1) % L) = true
      · simp only [hp, if_true]
        rcases ho with rfl | rfl
        · simp only [if_true]
          rw [show 1 + 1 = 2 from rfl, dAt_two]
          congr 2
          · congr 1; rw [show j + L - 1 + 1 = j + L by omega, Nat.add_mod_right]
        · simp only [show ¬ (2 : Nat) = 1 by omega, if_false]
          exact dAt_short 2 (Or.inr rfl) h _ (by omega) _ _
      · simp only [hp, if_false, Bool.false_eq_true]
        have := dAt_short o ho h (0 + 1) (by rcases ho with rfl | rfl <;> omega) (fun k => x ((j + L - 0 + k) % L)) 0
        rw [this]
        split <;> rfl
  · simp only [hv, if_false, Bool.false_eq_true]

/-! ### the two sufficient conditions -/

/-- a fully valid ring: the derivative of the rotated ring is the rotated derivative -/
theorem ring_rot_allValid (o : Nat) (h : Rat) (cells : List (Rat × Bool)) (s j : Nat) (hj : j < cells.length)
    (hall : ∀ k, k < cells.length → okOf cells k = true) :
    (diffRing o h (rotCells cells s)).getD j 0 = (diffRing o h cells).getD ((j + s) % cells.length) 0 := by
  have hL : 0 < cells.length := by omega
  rw [diffRing_rot_getD o h cells s j hj,
    ringSpec_allValid o h _ _ _ j hj (fun k _ => hall _ (Nat.mod_lt _ hL)), centred_rot o h _ (valOf cells) s j hL,
    diffRing_getD_ringSpec o h cells _ (Nat.mod_lt _ hL), ringSpec_allValid o h _ _ _ _ (Nat.mod_lt _ hL) hall]

/-- a ring without three cyclically consecutive valid cells: likewise -/
theorem ring_rot_noThree (o : Nat) (ho : o = 1 ∨ o = 2) (h : Rat) (cells : List (Rat × Bool)) (s j : Nat)
    (hj : j < cells.length) (h3 : noThree (okOf cells) cells.length) :
    (diffRing o h (rotCells cells s)).getD j 0 = (diffRing o h cells).getD ((j + s) % cells.length) 0 := by
  have hL : 0 < cells.length := by omega
  rw [diffRing_rot_getD o h cells s j hj,
    ringSpec_noThree o ho h _ _ _ j hj (noThree_rot (okOf cells) _ s h3), shortRing_rot o h _ (valOf cells) (okOf cells) s j hj,
    diffRing_getD_ringSpec o h cells _ (Nat.mod_lt _ hL), ringSpec_noThree o ho h _ _ _ _ (Nat.mod_lt _ hL) h3]

/-! ### every other mask: a run of three or more cells, cut one cell before its end -/

/-- a mask that is not fully valid and has three cyclically consecutive valid cells has a ring run of
at least three cells that ENDS somewhere: cells `e-2, e-1, e` valid, cell `e+1` invalid -/
theorem exists_run_end (v : Nat → Bool) (L : Nat) (k0 : Nat) (hk0 : k0 < L) (hbad : v k0 = false) (c : Nat)
    (h3 : v (c % L) = true ∧ v ((c + 1) % L) = true ∧ v ((c + 2) % L) = true) :
    ∃ e, e < L ∧ v e = true ∧ v ((e + L - 1) % L) = true ∧ v ((e + L - 2) % L) = true ∧ v ((e + 1) % L) = false := by
  have hL : 0 < L := by omega
  apply Classical.byContradiction
  intro hne
  have step : ∀ e, e < L → v e = true → v ((e + L - 1) % L) = true → v ((e + L - 2) % L) = true → v ((e + 1) % L) = true := by
    intro e he h1 h2 h3'
    cases hv : v ((e + 1) % L) with
    | true => rfl
    | false => exact absurd ⟨e, he, h1, h2, h3', hv⟩ hne
  have all : ∀ t, v ((c + t) % L) = true ∧ v ((c + t + 1) % L) = true ∧ v ((c + t + 2) % L) = true := by
    intro t
    induction t with
    | zero => exact h3
    | succ t ih =>
      obtain ⟨a1, a2, a3⟩ := ih
      refine ⟨?_, ?_, ?_⟩
      · rw [show c + (t + 1) = c + t + 1 by omega]; exact a2
      · rw [show c + (t + 1) + 1 = c + t + 2 by omega]; exact a3
      · have := step ((c + t + 2) % L) (Nat.mod_lt _ hL) a3
          (by rw [show (c + t + 2) % L + L - 1 = (c + t + 2) % L + (L - 1) by omega, Nat.mod_add_mod,
                show c + t + 2 + (L - 1) = (c + t + 1) + L by omega, Nat.add_mod_right]; exact a2)
          (by by_cases hL1 : L = 1
              · subst hL1; simp only [Nat.mod_one] at a1 ⊢; exact a1
              · rw [show (c + t + 2) % L + L - 2 = (c + t + 2) % L + (L - 2) by omega, Nat.mod_add_mod,
                  show c + t + 2 + (L - 2) = (c + t) + L by omega, Nat.add_mod_right]; exact a1)
        rw [Nat.mod_add_mod] at this
        rw [show c + (t + 1) + 2 = c + t + 2 + 1 by omega]; exact this
  have := (all (k0 + L - c % L)).1
  have hc : c % L < L := Nat.mod_lt _ hL
  rw [← Nat.mod_add_mod, show c % L + (k0 + L - c % L) = k0 + L by omega, Nat.add_mod_right, Nat.mod_eq_of_lt hk0, hbad] at this
  exact absurd this (by simp)

theorem runBefore_lt_of_false (v : Nat → Bool) (h0 : v 0 = false) : ∀ j, 0 < j → runBefore v j < j := by
  intro j
  induction j with
  | zero => intro h; omega
  | succ j ih =>
    intro _
    simp only [runBefore]
    cases j with
    | zero => simp [h0]
    | succ j' =>
      have := ih (by omega)
      split <;> omega

/-- a run of at least three cells that ends at the last cell of the stored line whose first cell is
invalid: the last cell gets the one-sided end stencil of its whole run -/
theorem ringSpec_last (o : Nat) (h : Rat) (L : Nat) (x : Nat → Rat) (v : Nat → Bool) (hL : 4 ≤ L)
    (h0 : v 0 = false) (h1 : v (L - 1) = true) (h2 : v (L - 2) = true) (h3 : v (L - 3) = true) :
    ∃ b, 2 ≤ b ∧ b + 2 ≤ L ∧ ringSpec o h L x v (L - 1) = dAt o h (b + 1) (fun k => x (L - 1 - b + k)) b := by
  refine ⟨runBefore v (L - 1), ?_, ?_, ?_⟩
  · obtain ⟨a, ha⟩ : ∃ a, L - 1 = a + 1 + 1 := ⟨L - 3, by omega⟩
    rw [ha]
    simp only [runBefore]
    rw [show a + 1 = L - 2 by omega, show a = L - 3 by omega, h2, h3]
    simp only [if_true]; omega
  · have := runBefore_lt_of_false v h0 (L - 1) (by omega); omega
  · have hlt := runBefore_lt_of_false v h0 (L - 1) (by omega)
    have eB : ringBefore v L (L - 1) = runBefore v (L - 1) := by
      unfold ringBefore
      rw [if_neg (by omega)]
    have eA : ringFrom v L (L - 1) = 1 := by
      unfold ringFrom runFrom
      rw [show L - (L - 1) = 1 by omega]
      simp only [runFromAux, h1, if_true, h0]
      simp
    unfold ringSpec
    rw [if_pos h1, eB, eA]
    apply dAt_congr _ _ _ _ _ _ _ (by omega)
    intro k hk
    congr 1
    rw [show L - 1 + L - runBefore v (L - 1) + k = (L - 1 - runBefore v (L - 1) + k) + L by omega, Nat.add_mod_right]
    exact Nat.mod_eq_of_lt (by omega)

/-- the same run stored with its last cell first: that cell is differentiated with ONE cell from
beyond the seam, as a run of two -/
theorem ringSpec_first (o : Nat) (h : Rat) (L : Nat) (x : Nat → Rat) (v : Nat → Bool) (hL : 3 ≤ L)
    (h0 : v 0 = true) (h1 : v 1 = false) (hl : v (L - 1) = true) :
    ringSpec o h L x v 0 = dAt o h 2 (fun k => x ((L - 1 + k) % L)) 1 := by
  have eB : ringBefore v L 0 = 1 := by
    unfold ringBefore
    simp [runBefore, hl]
  have eA : ringFrom v L 0 = 1 := by
    unfold ringFrom runFrom
    obtain ⟨f, hf⟩ : ∃ f, L - 0 = f + 1 + 1 := ⟨L - 2, by omega⟩
    rw [hf]
    simp only [runFromAux, h0, if_true, Nat.zero_add, h1, Bool.false_eq_true, if_false]
    rw [if_neg (by omega)]
  unfold ringSpec
  rw [if_pos h0, eB, eA]
  apply dAt_congr _ _ _ _ _ _ _ (by omega)
  intro k _
  congr 2
  omega

theorem d1At_last' (h : Rat) (b : Nat) (f : Nat → Rat) (hb : 2 ≤ b) :
    dAt 1 h (b + 1) f b = (3 * f b - 4 * f (b - 1) + f (b - 2)) / (2 * h) := by
  have := d1At_last h (b + 1) f (by omega)
  rw [show b + 1 - 1 = b by omega, show b + 1 - 2 = b - 1 by omega, show b + 1 - 3 = b - 2 by omega] at this
  exact this

theorem d2At_last' (h : Rat) (b : Nat) (f : Nat → Rat) (hb : 2 ≤ b) :
    dAt 2 h (b + 1) f b
      = if b = 2 then (f (b - 2) - 2 * f (b - 1) + f b) / (h * h)
        else (2 * f b - 5 * f (b - 1) + 4 * f (b - 2) - f (b - 3)) / (h * h) := by
  have := d2At_last h (b + 1) f (by omega)
  rw [show b + 1 - 1 = b by omega, show b + 1 - 2 = b - 1 by omega, show b + 1 - 3 = b - 2 by omega,
    show b + 1 - 4 = b - 3 by omega] at this
  rw [this]
  by_cases hb2 : b = 2
  · subst hb2; simp
  · have : ¬ (b + 1 = 3) := by omega
    simp only [this, hb2, if_false]

/-- **the witness against shift-equivariance**: a ring run of at least three cells ending at cell `e`
(cells `e-2, e-1, e` valid, `e+1` invalid), data 1 at `e` and 0 elsewhere.  Stored with cell `e+1`
first, cell `e` (the last stored cell) gets the end stencil of its whole run; stored with cell `e`
first it is differentiated with one cell from beyond the seam, as a run of two: the results differ. -/
theorem ring_rot_fails (o : Nat) (ho : o = 1 ∨ o = 2) (h : Rat) (hh : h ≠ 0) (cells : List (Rat × Bool)) (e : Nat)
    (he : e < cells.length) (hv : okOf cells e = true) (hp : okOf cells ((e + cells.length - 1) % cells.length) = true)
    (hp2 : okOf cells ((e + cells.length - 2) % cells.length) = true) (hs : okOf cells ((e + 1) % cells.length) = false)
    (hx : ∀ k, k < cells.length → valOf cells k = if k = e then 1 else 0) :
    (diffRing o h (rotCells cells (e + 1))).getD (cells.length - 1) 0 ≠ (diffRing o h (rotCells cells e)).getD 0 0 := by
  have hL : 4 ≤ cells.length := by
    apply Classical.byContradiction
    intro hlt
    have : cells.length = 1 ∨ cells.length = 2 ∨ cells.length = 3 := by omega
    rcases this with h1 | h1 | h1 <;> rw [h1] at hp hp2 hs
    · simp only [Nat.mod_one] at hs hv
      have : e = 0 := by omega
      subst this; rw [hv] at hs; exact absurd hs (by simp)
    · rw [show e + 2 - 1 = e + 1 by omega, hs] at hp; exact absurd hp (by simp)
    · rw [show e + 3 - 2 = e + 1 by omega, hs] at hp2; exact absurd hp2 (by simp)
  generalize hLdef : cells.length = L at *
  have hself : ∀ a, (a + L) % L = a % L := fun a => Nat.add_mod_right a L
  have heL : e % L = e := Nat.mod_eq_of_lt he
  -- values of the two rotated lines
  have X1 : ∀ d, d < L → valOf cells ((L - 1 - d + (e + 1)) % L) = if d = 0 then 1 else 0 := by
    intro d hd
    rw [hx _ (Nat.mod_lt _ (by omega))]
    by_cases hd0 : d = 0
    · subst hd0
      rw [show L - 1 - 0 + (e + 1) = e + L by omega, hself, heL]; simp
    · rw [show L - 1 - d + (e + 1) = e + (L - d) by omega]
      simp only [hd0, if_false]
      rw [if_neg (add_mod_ne L e (L - d) he (by omega) (by omega))]
  have r1 := diffRing_rot_getD o h cells (e + 1) (L - 1) (by omega)
  have r2 := diffRing_rot_getD o h cells e 0 (by omega)
  rw [hLdef] at r1 r2
  rw [r1, r2]
  obtain ⟨b, hb2, hbL, e1⟩ := ringSpec_last o h L (fun k => valOf cells ((k + (e + 1)) % L))
    (fun k => okOf cells ((k + (e + 1)) % L)) hL
    (by show okOf cells ((0 + (e + 1)) % L) = false; rw [Nat.zero_add]; exact hs)
    (by show okOf cells ((L - 1 + (e + 1)) % L) = true; rw [show L - 1 + (e + 1) = e + L by omega, hself, heL]; exact hv)
    (by show okOf cells ((L - 2 + (e + 1)) % L) = true; rw [show L - 2 + (e + 1) = e + L - 1 by omega]; exact hp)
    (by show okOf cells ((L - 3 + (e + 1)) % L) = true; rw [show L - 3 + (e + 1) = e + L - 2 by omega]; exact hp2)
  rw [e1, ringSpec_first o h L _ (fun k => okOf cells ((k + e) % L)) (by omega)
    (by show okOf cells ((0 + e) % L) = true; rw [Nat.zero_add, heL]; exact hv)
    (by show okOf cells ((1 + e) % L) = false; rw [Nat.add_comm 1 e]; exact hs)
    (by show okOf cells ((L - 1 + e) % L) = true; rw [show L - 1 + e = e + L - 1 by omega]; exact hp)]
  have f1 : valOf cells (((L - 1 + 1) % L + e) % L) = 1 := by
    rw [show L - 1 + 1 = L by omega, Nat.mod_self, Nat.zero_add, heL, hx e he]; simp
  have f0 : valOf cells (((L - 1 + 0) % L + e) % L) = 0 := by
    rw [Nat.add_zero, Nat.mod_eq_of_lt (by omega : L - 1 < L), hx _ (Nat.mod_lt _ (by omega)),
      show L - 1 + e = e + (L - 1) by omega, if_neg (add_mod_ne L e (L - 1) he (by omega) (by omega))]
  have g0 : valOf cells ((L - 1 - b + b + (e + 1)) % L) = 1 := by
    have := X1 0 (by omega); rw [show L - 1 - b + b = L - 1 - 0 by omega]; simpa using this
  have g1 : valOf cells ((L - 1 - b + (b - 1) + (e + 1)) % L) = 0 := by
    have := X1 1 (by omega); rw [show L - 1 - b + (b - 1) = L - 1 - 1 by omega]; simpa using this
  have g2 : valOf cells ((L - 1 - b + (b - 2) + (e + 1)) % L) = 0 := by
    have := X1 2 (by omega); rw [show L - 1 - b + (b - 2) = L - 1 - 2 by omega]; simpa using this
  rcases ho with rfl | rfl
  · rw [d1At_last' h b _ hb2, dAt_two]
    simp only [f1, f0, g0, g1, g2]
    intro heq
    rw [div_eq_div_iff (by simpa using hh) hh] at heq
    apply hh
    linarith
  · rw [d2At_last' h b _ hb2, dAt_short 2 (Or.inr rfl) h 2 (by omega)]
    have hh2 : h * h ≠ 0 := mul_ne_zero hh hh
    by_cases hb : b = 2
    · rw [if_pos hb]
      rw [g0, g1, g2]
      intro heq
      rw [div_eq_zero_iff] at heq
      rcases heq with heq | heq
      · norm_num at heq
      · exact hh2 heq
    · rw [if_neg hb]
      have g3 : valOf cells ((L - 1 - b + (b - 3) + (e + 1)) % L) = 0 := by
        have := X1 3 (by omega); rw [show L - 1 - b + (b - 3) = L - 1 - 3 by omega]; simpa using this
      rw [g0, g1, g2, g3]
      intro heq
      rw [div_eq_zero_iff] at heq
      rcases heq with heq | heq
      · norm_num at heq
      · exact hh2 heq

end DFV.C04
