import DFV.Model.C20Session
import DFV.Lemmas.C07List
/-!
C20 helper lemmas, sixth part: the dictionary store (`alloc` / `read` / `write`), the frame
property of `MplField.__call__` (only freshly allocated dictionaries are written) and the
reduction of a call to the pure specification `callSpec`.
-/
namespace DFV.C20
open DFV

/-! ## store -/

theorem read_alloc_lt (s : Store) (k : Kw) (a : Nat) (h : a < s.length) :
    (s.alloc k).1.read a = s.read a := by
  unfold Store.alloc Store.read
  simp only [List.getD_eq_getElem?_getD]
  rw [List.getElem?_append_left h]

theorem read_alloc_new (s : Store) (k : Kw) : (s.alloc k).1.read (s.alloc k).2 = k := by
  unfold Store.alloc Store.read
  simp [List.getD_eq_getElem?_getD]

theorem alloc_length (s : Store) (k : Kw) : (s.alloc k).1.length = s.length + 1 := by
  unfold Store.alloc; simp

theorem alloc_addr (s : Store) (k : Kw) : (s.alloc k).2 = s.length := rfl

theorem write_length (s : Store) (a : Nat) (k : Kw) : (s.write a k).length = s.length :=
  C07.length_setAt s a k

theorem read_write_ne (s : Store) (a b : Nat) (k : Kw) (h : b ≠ a) : (s.write a k).read b = s.read b :=
  C07.getD_setAt_ne s a b k {} h

theorem read_write_eq (s : Store) (a : Nat) (k : Kw) (h : a < s.length) : (s.write a k).read a = k :=
  C07.getD_setAt_eq s a k {} h

/-- out-of-range addresses read as the empty dictionary -/
theorem read_ge (s : Store) (a : Nat) (h : s.length ≤ a) : s.read a = {} := by
  unfold Store.read
  rw [List.getD_eq_getElem?_getD, List.getElem?_eq_none h]
  rfl

/-! ## the local dictionaries -/

theorem kwLocal_length (s : Store) (arg : Option Nat) : (kwLocal s arg).1.length = s.length + 1 := by
  cases arg <;> exact alloc_length _ _

theorem kwLocal_addr (s : Store) (arg : Option Nat) : (kwLocal s arg).2 = s.length := by
  cases arg <;> rfl

theorem kwLocal_read_lt (s : Store) (arg : Option Nat) (a : Nat) (h : a < s.length) :
    (kwLocal s arg).1.read a = s.read a := by
  cases arg <;> exact read_alloc_lt _ _ a h

/-- the local dictionary is a copy of the caller's (empty when none was given) -/
theorem kwLocal_read_new (s : Store) (arg : Option Nat) :
    (kwLocal s arg).1.read s.length = (arg.map s.read).getD {} := by
  cases arg with
  | none => exact read_alloc_new s {}
  | some a => exact read_alloc_new s (s.read a)

/-! ## `setdefault` -/

theorem setdefault_length (s : Store) (a : Nat) :
    (∀ v, (setdefaultUseColor s a v).length = s.length) ∧
    (∀ v, (setdefaultColorbar s a v).length = s.length) ∧
    (∀ v, (setdefaultCbLabel s a v).length = s.length) ∧
    (∀ v, (setdefaultFilter s a v).length = s.length) :=
  ⟨fun _ => write_length _ _ _, fun _ => write_length _ _ _, fun _ => write_length _ _ _,
   fun _ => write_length _ _ _⟩

theorem setdefault_read_ne (s : Store) (a b : Nat) (h : b ≠ a) :
    (∀ v, (setdefaultUseColor s a v).read b = s.read b) ∧
    (∀ v, (setdefaultColorbar s a v).read b = s.read b) ∧
    (∀ v, (setdefaultCbLabel s a v).read b = s.read b) ∧
    (∀ v, (setdefaultFilter s a v).read b = s.read b) :=
  ⟨fun _ => read_write_ne _ _ _ _ h, fun _ => read_write_ne _ _ _ _ h,
   fun _ => read_write_ne _ _ _ _ h, fun _ => read_write_ne _ _ _ _ h⟩

/-! ## `fillDefaults` -/

theorem fillDefaults_length (s : Store) (f : Fld) (pick sa va : Nat) :
    (fillDefaults s f pick sa va).length = s.length := by
  unfold fillDefaults
  split <;> simp only [setdefaultFilter, setdefaultCbLabel, setdefaultColorbar, setdefaultUseColor,
    write_length]

/-- frame: dictionaries other than the two local ones are not written -/
theorem fillDefaults_read_other (s : Store) (f : Fld) (pick sa va a : Nat) (h1 : a ≠ sa) (h2 : a ≠ va) :
    (fillDefaults s f pick sa va).read a = s.read a := by
  unfold fillDefaults
  split <;>
    simp only [(setdefault_read_ne _ sa a h1).2.2.2, (setdefault_read_ne _ sa a h1).2.2.1,
      (setdefault_read_ne _ va a h2).2.1, (setdefault_read_ne _ va a h2).1]

/-- the local `scalar_kw` after the defaults: the filter is the caller's or the validity -/
theorem fillDefaults_read_sa (s : Store) (f : Fld) (pick sa va : Nat) (hsa : sa < s.length)
    (hne : sa ≠ va) :
    ((fillDefaults s f pick sa va).read sa).filter = some ((s.read sa).filter.getD (validAsField f)) := by
  unfold fillDefaults
  split
  · unfold setdefaultFilter
    rw [read_write_eq _ _ _ (by
      simp only [setdefaultCbLabel, setdefaultColorbar, setdefaultUseColor, write_length]; exact hsa)]
    simp only []
    unfold setdefaultCbLabel
    rw [read_write_eq _ _ _ (by
      simp only [setdefaultColorbar, setdefaultUseColor, write_length]; exact hsa)]
    simp only [(setdefault_read_ne _ va sa hne).2.1, (setdefault_read_ne _ va sa hne).1]
  · unfold setdefaultFilter
    rw [read_write_eq _ _ _ (by
      simp only [setdefaultColorbar, setdefaultUseColor, write_length]; exact hsa)]
    simp only [(setdefault_read_ne _ va sa hne).2.1, (setdefault_read_ne _ va sa hne).1]

/-- the local `vector_kw` after the defaults: `use_color` is the caller's or `False`; colour
field and labels are the caller's -/
theorem fillDefaults_read_va (s : Store) (f : Fld) (pick sa va : Nat) (hva : va < s.length)
    (hne : sa ≠ va) :
    ((fillDefaults s f pick sa va).read va).useColor = some ((s.read va).useColor.getD false) ∧
    ((fillDefaults s f pick sa va).read va).colorField = (s.read va).colorField ∧
    ((fillDefaults s f pick sa va).read va).vdims = (s.read va).vdims := by
  have hne' : va ≠ sa := fun h => hne h.symm
  have key : (setdefaultColorbar (setdefaultUseColor s va false) va false).read va =
      { s.read va with useColor := some ((s.read va).useColor.getD false),
                       colorbar := some ((s.read va).colorbar.getD false) } := by
    unfold setdefaultColorbar
    rw [read_write_eq _ _ _ (by simp only [setdefaultUseColor, write_length]; exact hva)]
    unfold setdefaultUseColor
    rw [read_write_eq _ _ _ hva]
  unfold fillDefaults
  split
  · rw [(setdefault_read_ne _ sa va hne').2.2.2, (setdefault_read_ne _ sa va hne').2.2.1, key]
    exact ⟨rfl, rfl, rfl⟩
  · rw [(setdefault_read_ne _ sa va hne').2.2.2, key]
    exact ⟨rfl, rfl, rfl⟩

/-! ## `mplDefault` only looks at the filter through `filterOf`, and `use_color` etc. as given -/

theorem mplVector_filter_irrelevant (f : Fld) (o : Opts) (x : Option Fld) :
    mplVector f { o with filter := x } = mplVector f o := rfl

theorem mplDefault_filter_filled (f : Fld) (o : Opts) :
    mplDefault f { o with filter := some (o.filter.getD (validAsField f)) } = mplDefault f o := rfl

/-! ## one call -/

/-- frame of one call -/
theorem callMpl_frame (s : Store) (r : Req) :
    s.length ≤ (callMpl s r).1.length ∧ ∀ a, a < s.length → (callMpl s r).1.read a = s.read a := by
  unfold callMpl
  split
  · exact ⟨Nat.le_refl _, fun _ _ => rfl⟩
  · split
    · exact ⟨Nat.le_refl _, fun _ _ => rfl⟩
    · simp only []
      have hsa : (kwLocal s r.skw).2 = s.length := kwLocal_addr s r.skw
      have hva : (kwLocal (kwLocal s r.skw).1 r.vkw).2 = s.length + 1 := by
        rw [kwLocal_addr, kwLocal_length]
      refine ⟨by rw [fillDefaults_length, kwLocal_length, kwLocal_length]; omega, fun a ha => ?_⟩
      rw [fillDefaults_read_other _ _ _ _ _ a (by omega) (by omega),
        kwLocal_read_lt _ _ a (by rw [kwLocal_length]; omega), kwLocal_read_lt _ _ a ha]

/-- one call hands over exactly what the pure specification says -/
theorem callMpl_spec (s : Store) (r : Req) (hv : ∀ a, r.vkw = some a → a < s.length) :
    (callMpl s r).2 = callSpec s r := by
  unfold callMpl callSpec
  split
  · rename_i h2
    unfold mplDefault
    rw [if_pos h2]
  · rename_i h2
    split
    · rename_i e he
      unfold mplDefault
      rw [if_neg h2]
      simp only [he]
    · simp only []
      have hsa : (kwLocal s r.skw).2 = s.length := kwLocal_addr s r.skw
      have hva : (kwLocal (kwLocal s r.skw).1 r.vkw).2 = s.length + 1 := by
        rw [kwLocal_addr, kwLocal_length]
      have hlen : (kwLocal (kwLocal s r.skw).1 r.vkw).1.length = s.length + 2 := by
        rw [kwLocal_length, kwLocal_length]
      obtain ⟨u1, u2, u3⟩ := fillDefaults_read_va (kwLocal (kwLocal s r.skw).1 r.vkw).1 r.field r.pick
        (kwLocal s r.skw).2 (kwLocal (kwLocal s r.skw).1 r.vkw).2 (by omega) (by omega)
      have u0 := fillDefaults_read_sa (kwLocal (kwLocal s r.skw).1 r.vkw).1 r.field r.pick
        (kwLocal s r.skw).2 (kwLocal (kwLocal s r.skw).1 r.vkw).2 (by omega) (by omega)
      have rs : (kwLocal (kwLocal s r.skw).1 r.vkw).1.read (kwLocal s r.skw).2 = (r.skw.map s.read).getD {} := by
        rw [hsa, kwLocal_read_lt _ _ _ (by rw [kwLocal_length]; omega), kwLocal_read_new]
      have rv : (kwLocal (kwLocal s r.skw).1 r.vkw).1.read (kwLocal (kwLocal s r.skw).1 r.vkw).2
          = (r.vkw.map s.read).getD {} := by
        rw [hva, ← kwLocal_length s r.skw, kwLocal_read_new]
        cases hv' : r.vkw with
        | none => rfl
        | some a =>
          simp only [Option.map_some, Option.getD_some]
          exact kwLocal_read_lt s r.skw a (hv a hv')
      rw [rs] at u0
      rw [rv] at u1 u2 u3
      have e1 : ∀ x : Option Kw, (x.getD {}).filter = x.bind (·.filter) := by intro x; cases x <;> rfl
      have e2 : ∀ x : Option Kw, (x.getD {}).colorField = x.bind (·.colorField) := by intro x; cases x <;> rfl
      have e3 : ∀ x : Option Kw, (x.getD {}).vdims = x.bind (·.vdims) := by intro x; cases x <;> rfl
      have e4 : ∀ x : Option Kw, (x.getD {}).useColor = x.bind (·.useColor) := by intro x; cases x <;> rfl
      unfold optsOfKw
      rw [u0, u1, u2, u3, e1, e2, e3, e4]
      simp only [Option.getD_some]
      exact mplDefault_filter_filled r.field
        { mult := r.mult, filter := (Option.map s.read r.skw).bind fun x => x.filter,
          aux := (Option.map s.read r.vkw).bind fun x => x.colorField,
          vdimsArg := (Option.map s.read r.vkw).bind fun x => x.vdims,
          useColor := ((Option.map s.read r.vkw).bind fun x => x.useColor).getD false, pick := r.pick }

/-! ## sessions -/

/-- every dictionary address of the requests refers to one of the first `n` dictionaries (those
the caller made before the session) -/
def ReqsValid (n : Nat) (rs : List Req) : Prop :=
  ∀ r ∈ rs, (∀ a, r.skw = some a → a < n) ∧ (∀ a, r.vkw = some a → a < n)

/-- the specification reads the store only at the two addresses of the request -/
theorem callSpec_congr (s s' : Store) (r : Req) (hs : ∀ a, r.skw = some a → s'.read a = s.read a)
    (hv : ∀ a, r.vkw = some a → s'.read a = s.read a) : callSpec s' r = callSpec s r := by
  unfold callSpec
  have e1 : r.skw.map s'.read = r.skw.map s.read := by
    cases h : r.skw with
    | none => rfl
    | some a => simp only [Option.map_some]; rw [hs a h]
  have e2 : r.vkw.map s'.read = r.vkw.map s.read := by
    cases h : r.vkw with
    | none => rfl
    | some a => simp only [Option.map_some]; rw [hv a h]
  rw [e1, e2]

theorem runSession_length (s : Store) (rs : List Req) : (runSession s rs).2.length = rs.length := by
  induction rs generalizing s with
  | nil => rfl
  | cons r rs ih => simp only [runSession, List.length_cons, ih]

/-- **Sessions.**  Served from any store `s'` that agrees with `s0` on the caller's dictionaries,
every request of a history gets the answer `callSpec s0` assigns to it alone, and the caller's
dictionaries are unchanged at the end. -/
theorem runSession_spec (s0 : Store) (rs : List Req) (hv : ReqsValid s0.length rs) :
    ∀ s' : Store, s0.length ≤ s'.length → (∀ a, a < s0.length → s'.read a = s0.read a) →
      (runSession s' rs).2 = rs.map (callSpec s0) ∧
      s0.length ≤ (runSession s' rs).1.length ∧
      ∀ a, a < s0.length → (runSession s' rs).1.read a = s0.read a := by
  induction rs with
  | nil => intro s' hl hag; exact ⟨rfl, hl, hag⟩
  | cons r rs ih =>
    intro s' hl hag
    obtain ⟨hr1, hr2⟩ := hv r List.mem_cons_self
    obtain ⟨fl, fr⟩ := callMpl_frame s' r
    have hl' : s0.length ≤ (callMpl s' r).1.length := Nat.le_trans hl fl
    have hag' : ∀ a, a < s0.length → (callMpl s' r).1.read a = s0.read a := by
      intro a ha
      rw [fr a (by omega), hag a ha]
    obtain ⟨i1, i2, i3⟩ := ih (fun q hq => hv q (List.mem_cons_of_mem _ hq)) (callMpl s' r).1 hl' hag'
    refine ⟨?_, i2, i3⟩
    simp only [runSession, List.map_cons]
    rw [i1, callMpl_spec s' r (fun a ha => by have := hr2 a ha; omega),
      callSpec_congr s0 s' r (fun a ha => hag a (hr1 a ha)) (fun a ha => hag a (hr2 a ha))]

end DFV.C20
