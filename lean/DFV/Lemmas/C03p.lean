import DFV.Lemmas.C03o
/-! C03 helper lemmas, part p: soundness of the typing judgment (induction over
derivations): well-typed trees are accepted and carry the predicted metadata. -/
namespace DFV.C03
open DFV

theorem evalF_bin (env : Env) (b : BinOp) (l r : Expr) (vl vr : Val) (hl : evalF env l = .ok vl)
    (hr : evalF env r = .ok vr) : evalF env (.bin b l r) = applyBin env b vl vr := by
  simp only [evalF, hl, hr]

theorem evalF_opd (env : Env) (od : Opd) : evalF env (.opd od) = .ok (.raw od) := by
  simp only [evalF]

theorem hasMeta_res (M : Mesh) (g : CF) (t : Ty) (k : Kind) (hg : Good M g) (h1 : g.nvdim = t.nv)
    (h2 : g.vdims = t.vdims) (h3 : g.vmap = t.vmap) (h4 : g.unit = none) (h5 : g.kind = k) : HasMeta M g (t.res k) :=
  ⟨hg, h1, h2, h3, h4, h5⟩

theorem rawFits_cast (M : Mesh) (f : CF) (t : Ty) (od : Opd) (hm : f.mesh = M) (hn : f.nvdim = t.nv)
    (h : RawFits M.n t.nv od) : RawFits f.mesh.n f.nvdim od := by
  rw [hm, hn]; exact h

/-- NumPy's integer-power rule cannot object when one of the two dtypes is not an integer one -/
theorem kinds_negIntPow (pw : Bool) (kb ke : Kind) (e : NDA GQ) (h : kb ≠ .int ∨ ke ≠ .int) :
    negIntPow pw kb ke e = false := by
  simp only [negIntPow]
  rcases h with h | h <;> simp [h]

/-- `f << o` for two fields: accepted, with the tabulated metadata `shlTy` -/
theorem shl_hasMeta (env : Env) (M : Mesh) (hM : MeshOk M) (f o : CF) (hf : Good M f) (ho : Good M o) :
    ∃ g, applyBin env .shl (.fld f) (.fld o) = .ok (.fld g) ∧ HasMeta M g (shlTy M (tyOf f) (tyOf o)) := by
  obtain ⟨g, h, hg, h1, h2, h3, h4, h5⟩ := applyBin_shl_ff env M hM f o hf ho
  refine ⟨g, h, hg, h1, h3, ?_, h2, h5⟩
  show g.vmap = if (dictUpdate f.vmap o.vmap).length = f.nvdim + o.nvdim then dictUpdate f.vmap o.vmap
    else vmapDefault (f.nvdim + o.nvdim) M.region.ndim (shlLabels f.vdims o.vdims (f.nvdim + o.nvdim)) M.region.dims
  by_cases hl : (dictUpdate f.vmap o.vmap).length = f.nvdim + o.nvdim
  · rw [if_pos hl] at h4 ⊢; exact h4
  · rw [if_neg hl] at h4 ⊢
    rw [vmapSet_none_eq, h3] at h4
    injection h4 with h4
    exact h4.symm

/-- **soundness of the typing judgment**: a well-typed tree over `Good` fields on a mesh `M`
evaluates to a field, that field is `Good` on `M` and carries the predicted component
count, labels, mapping, unit and dtype kind -/
theorem hasTy_sound (env : Env) (M : Mesh) (hM : MeshOk M) (hgood : ∀ f ∈ env.fields, Good M f)
    (e : Expr) (t : Ty) (h : HasTy env M e t) :
    ∃ g, evalF env e = .ok (.fld g) ∧ HasMeta M g t := by
  induction h with
  | leaf k f hk =>
    exact ⟨f, by simp only [evalF, hk], hgood f (List.mem_of_getElem? hk), rfl, rfl, rfl, rfl, rfl⟩
  | un u e t _ ih =>
    obtain ⟨f, hf, hfg, h1, h2, h3, h4, h5⟩ := ih
    obtain ⟨g, hg, hgg, g1, g2, g3, g4, g5⟩ := applyUn_accepts env u M hM f hfg
    refine ⟨g, by simp only [evalF, hf, hg], hgg, by rw [g1, h1]; rfl, by rw [g2, h2]; rfl, by rw [g3, h3]; rfl, ?_, ?_⟩
    · rw [g4, h4]; rfl
    · rw [g5, h5]; rfl
  | arithFF b l r tl tr d hb _ _ hd ihl ihr =>
    obtain ⟨f, hf, hfg, f1, f2, f3, _, f5⟩ := ihl
    obtain ⟨o, ho, hog, o1, o2, o3, _, o5⟩ := ihr
    obtain ⟨g, hg, hgg, g1, g2, g3, g4, g5⟩ :=
      applyBin_arith_ff env b hb M hM f o hfg hog d (by rw [f1, o1]; exact hd)
    refine ⟨g, by rw [evalF_bin env b l r _ _ hf ho, hg], ?_⟩
    have hsrc : (metaSrc f o) = if tl.nv = 1 ∧ 1 < tr.nv then o else f := by
      unfold metaSrc; rw [f1, o1]
    rw [hsrc] at g2 g3
    have hdv : d = if tl.nv = 1 ∧ 1 < tr.nv then tr.nv else tl.nv := by
      rw [← metaSrc_nvdim f o d hfg.1.2.2 hog.1.2.2 (by rw [f1, o1]; exact hd), hsrc]
      split
      · exact o1
      · exact f1
    rw [f5, o5] at g5
    by_cases hc : tl.nv = 1 ∧ 1 < tr.nv
    · rw [if_pos hc] at g2 g3 hdv ⊢
      exact hasMeta_res M g tr _ hgg (by rw [g1, hdv]) (by rw [g2, o2]) (by rw [g3, o3]) g4 g5
    · rw [if_neg hc] at g2 g3 hdv ⊢
      exact hasMeta_res M g tl _ hgg (by rw [g1, hdv]) (by rw [g2, f2]) (by rw [g3, f3]) g4 g5
  | arithFR b l od t hb _ hfit ih =>
    obtain ⟨f, hf, hfg, f1, f2, f3, _, f5⟩ := ih
    obtain ⟨g, hg, hgg, g1, g2, g3, g4, g5⟩ :=
      applyBin_arith_fr env b od hb M f hfg (rawFits_cast M f t od hfg.2.2 f1 hfit)
    exact ⟨g, by rw [evalF_bin env b l _ _ _ hf (evalF_opd env od), hg],
      hasMeta_res M g t _ hgg (by rw [g1, f1]) (by rw [g2, f2]) (by rw [g3, f3]) g4 (by rw [g5, f5])⟩
  | arithRF b od r t hb _ hfit ih =>
    obtain ⟨f, hf, hfg, f1, f2, f3, _, f5⟩ := ih
    obtain ⟨g, hg, hgg, g1, g2, g3, g4, g5⟩ :=
      applyBin_arith_rf env b hb M hM f hfg od (rawFits_cast M f t od hfg.2.2 f1 hfit)
    exact ⟨g, by rw [evalF_bin env b _ r _ _ (evalF_opd env od) hf, hg],
      hasMeta_res M g t _ hgg (by rw [g1, f1]) (by rw [g2, f2]) (by rw [g3, f3]) g4 (by rw [g5, f5])⟩
  | dotFF l r tl tr _ _ hn ihl ihr =>
    obtain ⟨f, hf, hfg, f1, _, _, _, f5⟩ := ihl
    obtain ⟨o, ho, hog, o1, _, _, _, o5⟩ := ihr
    obtain ⟨g, hg, hgg, g1, g2, g3, g4, g5⟩ := dotOp_fld_accepts M hM f o hfg hog (by rw [f1, o1, hn])
    refine ⟨g, ?_, hgg, g1, g2, g3, g4, by rw [g5, f5, o5]⟩
    rw [evalF_bin env .dot l r _ _ hf ho]
    simp only [applyBin, forwardOp, hg]
  | dotFR l a k np t _ hfit ih =>
    obtain ⟨f, hf, hfg, f1, _, _, _, f5⟩ := ih
    obtain ⟨g, hg, hgg, g1, g2, g3, g4, g5⟩ :=
      dotOp_raw_accepts M f hfg a k np (rawFits_cast M f t _ hfg.2.2 f1 hfit)
    refine ⟨g, ?_, hgg, g1, g2, g3, g4, by rw [g5, f5]⟩
    rw [evalF_bin env .dot l _ _ _ hf (evalF_opd env _)]
    simp only [applyBin, forwardOp, hg]
  | dotRF a k r t _ hfit ih =>
    obtain ⟨f, hf, hfg, f1, _, _, _, f5⟩ := ih
    obtain ⟨g, hg, hgg, g1, g2, g3, g4, g5⟩ :=
      applyBin_dot_rf env M f hfg a k (rawFits_cast M f t _ hfg.2.2 f1 hfit)
    exact ⟨g, by rw [evalF_bin env .dot _ r _ _ (evalF_opd env _) hf, hg], hgg, g1, g2, g3, g4, by rw [g5, f5]⟩
  | crossFF l r tl tr m _ _ h3 h3' hm ihl ihr =>
    obtain ⟨f, hf, hfg, f1, f2, _, _, f5⟩ := ihl
    obtain ⟨o, ho, hog, o1, _, _, _, o5⟩ := ihr
    obtain ⟨g, hg, hgg, g1, g2, g3, g4, g5⟩ :=
      crossOp_fld_accepts M hM f o hfg hog (by rw [f1, h3]) (by rw [o1, h3'])
    rw [f2, hm] at g3
    injection g3 with g3
    refine ⟨g, ?_, hgg, g1, by rw [g2, f2], g3.symm, g4, by rw [g5, f5, o5]⟩
    rw [evalF_bin env .cross l r _ _ hf ho]
    simp only [applyBin, forwardOp, hg]
  | crossFR l a k np t m _ h3 hfit hm ih =>
    obtain ⟨f, hf, hfg, f1, f2, _, _, f5⟩ := ih
    obtain ⟨g, hg, hgg, g1, g2, g3, g4, g5⟩ :=
      crossOp_raw_accepts M hM f hfg (by rw [f1, h3]) a k np (rawFits_cast M f t _ hfg.2.2 f1 hfit)
    rw [f2, hm] at g3
    injection g3 with g3
    refine ⟨g, ?_, hgg, g1, by rw [g2, f2], g3.symm, g4, by rw [g5, f5]⟩
    rw [evalF_bin env .cross l _ _ _ hf (evalF_opd env _)]
    simp only [applyBin, forwardOp, hg]
  | crossRF a k r t m _ h3 hfit hm ih =>
    obtain ⟨f, hf, hfg, f1, f2, _, _, f5⟩ := ih
    obtain ⟨g, hg, hgg, g1, g2, g3, g4, g5⟩ :=
      applyBin_cross_rf env M hM f hfg (by rw [f1, h3]) a k (rawFits_cast M f t _ hfg.2.2 f1 hfit)
    rw [f2, hm] at g3
    injection g3 with g3
    exact ⟨g, by rw [evalF_bin env .cross _ r _ _ (evalF_opd env _) hf, hg], hgg, g1, by rw [g2, f2], g3.symm, g4,
      by rw [g5, f5]⟩
  | shlFF l r tl tr m _ _ hm ihl ihr =>
    obtain ⟨f, hf, hfg, f1, f2, f3, _, f5⟩ := ihl
    obtain ⟨o, ho, hog, o1, o2, o3, _, o5⟩ := ihr
    obtain ⟨g, hg, hgg, g1, g4, g2, g3, g5⟩ := applyBin_shl_ff env M hM f o hfg hog
    rw [f1, o1, f2, o2] at g2
    rw [f1, o1, f3, o3, g2] at g3
    refine ⟨g, by rw [evalF_bin env .shl l r _ _ hf ho, hg], hgg, by rw [g1, f1, o1], g2, ?_, g4, by rw [g5, f5, o5]⟩
    by_cases hc : (dictUpdate tl.vmap tr.vmap).length = tl.nv + tr.nv
    · rw [if_pos hc] at g3 hm
      rw [g3, hm]
    · rw [if_neg hc] at g3 hm
      rw [hm] at g3
      injection g3 with g3
      exact g3.symm
  | angleFF l r tl tr _ _ hn ihl ihr =>
    obtain ⟨f, hf, hfg, f1, _⟩ := ihl
    obtain ⟨o, ho, hog, o1, _⟩ := ihr
    obtain ⟨g, hg, hgg, g1, g2, g3, g4, g5⟩ := applyBin_angle_ff env M hM f o hfg hog (by rw [f1, o1, hn])
    exact ⟨g, by rw [evalF_bin env .angle l r _ _ hf ho, hg], hgg, g1, g2, g3, g4, g5⟩
  | ufuncFF b l r tl tr hb _ _ hd ihl ihr =>
    obtain ⟨f, hf, hfg, f1, f2, f3, _, f5⟩ := ihl
    obtain ⟨o, ho, hog, o1, _, _, _, o5⟩ := ihr
    obtain ⟨g, hg, hgg, g1, g2, g3, g4, g5⟩ :=
      applyBin_ufunc_ff env b hb M hM f o hfg hog (by rw [f1, o1]; exact hd)
    exact ⟨g, by rw [evalF_bin env b l r _ _ hf ho, hg],
      hasMeta_res M g tl _ hgg (by rw [g1, f1]) (by rw [g2, f2]) (by rw [g3, f3]) g4 (by rw [g5, f5, o5])⟩
  | ufuncFR b l od t hb _ hfit hu ih =>
    obtain ⟨f, hf, hfg, f1, f2, f3, _, f5⟩ := ih
    obtain ⟨g, hg, hgg, g1, g2, g3, g4, g5⟩ :=
      applyBin_ufunc_fr env b od hb M hM f hfg (rawFits_cast M f t od hfg.2.2 f1 hfit) hu
    exact ⟨g, by rw [evalF_bin env b l _ _ _ hf (evalF_opd env od), hg],
      hasMeta_res M g t _ hgg (by rw [g1, f1]) (by rw [g2, f2]) (by rw [g3, f3]) g4 (by rw [g5, f5])⟩
  | ufuncRF b od r t hb _ hfit hu ih =>
    obtain ⟨f, hf, hfg, f1, f2, f3, _, f5⟩ := ih
    obtain ⟨g, hg, hgg, g1, g2, g3, g4, g5⟩ :=
      applyBin_ufunc_rf env b hb M hM f hfg od (rawFits_cast M f t od hfg.2.2 f1 hfit) hu
    exact ⟨g, by rw [evalF_bin env b _ r _ _ (evalF_opd env od) hf, hg],
      hasMeta_res M g t _ hgg (by rw [g1, f1]) (by rw [g2, f2]) (by rw [g3, f3]) g4 (by rw [g5, f5])⟩
  | powFF l r tl tr d _ _ hd hk ihl ihr =>
    obtain ⟨f, hf, hfg, f1, f2, f3, _, f5⟩ := ihl
    obtain ⟨o, ho, hog, o1, o2, o3, _, o5⟩ := ihr
    have hpw : negIntPow true f.kind o.kind o.data = false := kinds_negIntPow _ _ _ _ (by rw [f5, o5]; exact hk)
    obtain ⟨g, hg, hgg, g1, g2, g3, g4, g5⟩ :=
      applyOperator_fld_accepts GQ.pow true M hM f o hfg hog d (by rw [f1, o1]; exact hd) hpw
    refine ⟨g, by rw [evalF_bin env .pow l r _ _ hf ho]; simp only [applyBin, forwardOp, binFn, isPow, hg], ?_⟩
    have hsrc : (metaSrc f o) = if tl.nv = 1 ∧ 1 < tr.nv then o else f := by
      unfold metaSrc; rw [f1, o1]
    rw [hsrc] at g2 g3
    have hdv : d = if tl.nv = 1 ∧ 1 < tr.nv then tr.nv else tl.nv := by
      rw [← metaSrc_nvdim f o d hfg.1.2.2 hog.1.2.2 (by rw [f1, o1]; exact hd), hsrc]
      split
      · exact o1
      · exact f1
    rw [f5, o5] at g5
    by_cases hc : tl.nv = 1 ∧ 1 < tr.nv
    · rw [if_pos hc] at g2 g3 hdv ⊢
      exact hasMeta_res M g tr _ hgg (by rw [g1, hdv]) (by rw [g2, o2]) (by rw [g3, o3]) g4 g5
    · rw [if_neg hc] at g2 g3 hdv ⊢
      exact hasMeta_res M g tl _ hgg (by rw [g1, hdv]) (by rw [g2, f2]) (by rw [g3, f3]) g4 g5
  | powRF od r t _ hfit hu hnp hk ih =>
    obtain ⟨f, hf, hfg, f1, f2, f3, _, f5⟩ := ih
    have hpw : negIntPow true (rawKind od) f.kind f.data = false := kinds_negIntPow _ _ _ _ (by rw [f5]; exact hk)
    obtain ⟨g, hg, hgg, g1, g2, g3, g4, g5⟩ :=
      ufunc2_rf_accepts GQ.pow true M hM f hfg od (rawFits_cast M f t od hfg.2.2 f1 hfit) hu hpw
    refine ⟨g, ?_, hasMeta_res M g t _ hgg (by rw [g1, f1]) (by rw [g2, f2]) (by rw [g3, f3]) g4
      (by rw [g5, f5, Kind.join_comm])⟩
    rw [evalF_bin env .pow _ r _ _ (evalF_opd env od) hf]
    simp only [applyBin, hnp, if_true, binFn, isPow, hg]
  | upowFF l r tl tr _ _ hd hk ihl ihr =>
    obtain ⟨f, hf, hfg, f1, f2, f3, _, f5⟩ := ihl
    obtain ⟨o, ho, hog, o1, _, _, _, o5⟩ := ihr
    have hpw : negIntPow true f.kind o.kind o.data = false := kinds_negIntPow _ _ _ _ (by rw [f5, o5]; exact hk)
    obtain ⟨g, hg, hgg, g1, g2, g3, g4, g5⟩ :=
      ufunc2_ff_accepts GQ.pow true M hM f o hfg hog (by rw [f1, o1]; exact hd) hpw
    exact ⟨g, by rw [evalF_bin env .upow l r _ _ hf ho]; simp only [applyBin, binFn, isPow, hg],
      hasMeta_res M g tl _ hgg (by rw [g1, f1]) (by rw [g2, f2]) (by rw [g3, f3]) g4 (by rw [g5, f5, o5])⟩
  | upowRF od r t _ hfit hu hk ih =>
    obtain ⟨f, hf, hfg, f1, f2, f3, _, f5⟩ := ih
    have hpw : negIntPow true (rawKind od) f.kind f.data = false := kinds_negIntPow _ _ _ _ (by rw [f5]; exact hk)
    obtain ⟨g, hg, hgg, g1, g2, g3, g4, g5⟩ :=
      ufunc2_rf_accepts GQ.pow true M hM f hfg od (rawFits_cast M f t od hfg.2.2 f1 hfit) hu hpw
    refine ⟨g, ?_, hasMeta_res M g t _ hgg (by rw [g1, f1]) (by rw [g2, f2]) (by rw [g3, f3]) g4
      (by rw [g5, f5, Kind.join_comm])⟩
    rw [evalF_bin env .upow _ r _ _ (evalF_opd env od) hf]
    simp only [applyBin, binFn, isPow, hg]
  | ufuncSF b l r tl tr hb _ _ h1 h2 hvd hk ihl ihr =>
    obtain ⟨f, hf, hfg, f1, f2, _, _, f5⟩ := ihl
    obtain ⟨o, ho, hog, o1, _, _, _, o5⟩ := ihr
    have hpw : negIntPow (isPow b) f.kind o.kind o.data = false := by
      cases hp : isPow b with
      | false => exact negIntPow_false _ _ _
      | true => exact kinds_negIntPow _ _ _ _ (by rw [f5, o5]; exact hk hp)
    obtain ⟨g, hg, hgg, g1, g2, g3, g4, g5⟩ :=
      ufunc2_sf_accepts (binFn b) (isPow b) M hM f o hfg hog (by rw [f1, h1]) (by rw [f2, hvd]) hpw
    refine ⟨g, ?_, hgg, by rw [g1, o1], by rw [g2, o1], g3, g4, by rw [g5, f5, o5]⟩
    rw [evalF_bin env b l r _ _ hf ho]
    cases b <;> simp [isUfuncBin] at hb <;> simp only [applyBin, hg]
  | shlFR l od t _ hfit ih =>
    obtain ⟨f, hf, hfg, f1, f2, f3, _, f5⟩ := ih
    obtain ⟨o, ho, hog, o1, o2, o3, _, o5⟩ := liftOpd_accepts M hM od hfit
    obtain ⟨g, hg, hgm⟩ := shl_hasMeta env M hM f o hfg hog
    refine ⟨g, ?_, ?_⟩
    · rw [evalF_bin env .shl l _ _ _ hf (evalF_opd env od)]
      simp only [applyBin, forwardOp, shlOp]
      rw [hfg.2.2, ho]
      simpa only [applyBin, forwardOp, shlOp] using hg
    · have e1 : tyOf f = t := by cases t; simp only [tyOf] ; congr
      have e2 : tyOf o = liftTy M od := by simp only [tyOf, liftTy]; congr
      rw [e1, e2] at hgm; exact hgm
  | shlRF od r t _ hfit hnp ih =>
    obtain ⟨f, hf, hfg, f1, f2, f3, _, f5⟩ := ih
    obtain ⟨o, ho, hog, o1, o2, o3, _, o5⟩ := liftOpd_accepts M hM od hfit
    obtain ⟨g, hg, hgm⟩ := shl_hasMeta env M hM o f hog hfg
    refine ⟨g, ?_, ?_⟩
    · rw [evalF_bin env .shl _ r _ _ (evalF_opd env od) hf]
      simp only [applyBin, hnp, Bool.false_eq_true, if_false, reflectedOp]
      rw [hfg.2.2, ho]
      simpa only [applyBin, forwardOp, shlOp] using hg
    · have e1 : tyOf f = t := by cases t; simp only [tyOf] ; congr
      have e2 : tyOf o = liftTy M od := by simp only [tyOf, liftTy]; congr
      rw [e1, e2] at hgm; exact hgm
  | angleFR l od t _ hfit ih =>
    obtain ⟨f, hf, hfg, f1, _⟩ := ih
    obtain ⟨g, hg, hgg, g1, g2, g3, g4, g5⟩ :=
      angleOp_raw_accepts env.sq env.acos M hM f hfg od (by rw [f1]; exact hfit)
    refine ⟨g, ?_, hgg, g1, g2, g3, g4, g5⟩
    rw [evalF_bin env .angle l _ _ _ hf (evalF_opd env od)]
    simp only [applyBin, forwardOp, hg]

/-- `Mesh.allclose` is reflexive for non-negative tolerances -/
theorem isclose_self (x rtol atol : Rat) (h1 : 0 ≤ rtol) (h2 : 0 ≤ atol) : Region.isclose x x rtol atol = true := by
  unfold Region.isclose
  have hx : absR (x - x) = 0 := by simp [absR]
  have hb : 0 ≤ absR x := by
    unfold absR; split
    · linarith
    · linarith
  rw [hx]
  have : 0 ≤ atol + rtol * absR x := by nlinarith
  exact decide_eq_true this

theorem meshAllclose_self (M : Mesh) (h1 : 0 ≤ M.region.tol) (h2 : 0 ≤ M.region.atol) :
    meshAllclose M M = .ok true := by
  unfold meshAllclose
  rw [if_neg (by simp)]
  have hr : regionAllclose M.region M.region = true := by
    unfold regionAllclose allLt
    simp only [Bool.and_eq_true, List.all_eq_true]
    exact ⟨fun a _ => isclose_self _ _ _ h1 h2, fun a _ => isclose_self _ _ _ h1 h2⟩
  rw [hr]
  simp

end DFV.C03
