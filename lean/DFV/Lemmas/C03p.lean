import DFV.Lemmas.C03o
/-! C03 helper lemmas, part p: soundness of the typing judgment (induction over
derivations): well-typed trees are accepted and carry the predicted metadata. -/
namespace DFV.C03
open DFV

theorem evalF_bin (env : Env) (b : BinOp) (l r : Expr) (vl vr : Val) (hl : evalF env l = .ok vl)
    (hr : evalF env r = .ok vr) : evalF env (.bin b l r) = applyBin env b vl vr := by
  simp only [evalF, hl, hr]

theorem evalF_opd (env : Env) (od : Opd) : evalF env (.opd od) = .ok (.raw od) := by
  simp only [evalF]

theorem hasMeta_res (M : Mesh) (g : CF) (t : Ty) (k : Kind) (hg : Good M g) (h1 : g.nvdim = t.nv)
    (h2 : g.vdims = t.vdims) (h3 : g.vmap = t.vmap) (h4 : g.unit = none) (h5 : g.kind = k) : HasMeta M g (t.res k) :=
  ⟨hg, h1, h2, h3, h4, h5⟩

theorem rawFits_cast (M : Mesh) (f : CF) (t : Ty) (od : Opd) (hm : f.mesh = M) (hn : f.nvdim = t.nv)
    (h : RawFits M.n t.nv od) : RawFits f.mesh.n f.nvdim od := by
  rw [hm, hn]; exact h

/-- **soundness of the typing judgment**: a well-typed tree over `Good` fields on a mesh `M`
evaluates to a field, that field is `Good` on `M` and carries the predicted component
count, labels, mapping, unit and dtype kind -/
theorem hasTy_sound (env : Env) (M : Mesh) (hM : MeshOk M) (hgood : ∀ f ∈ env.fields, Good M f)
    (e : Expr) (t : Ty) (h : HasTy env M e t) :
    ∃ g, evalF env e = .ok (.fld g) ∧ HasMeta M g t := by
  induction h with
  | leaf k f hk =>
    exact ⟨f, by simp only [evalF, hk], hgood f (List.mem_of_getElem? hk), rfl, rfl, rfl, rfl, rfl⟩
  | un u e t _ ih =>
    obtain ⟨f, hf, hfg, h1, h2, h3, h4, h5⟩ := ih
    obtain ⟨g, hg, hgg, g1, g2, g3, g4, g5⟩ := applyUn_accepts env u M hM f hfg
    refine ⟨g, by simp only [evalF, hf, hg], hgg, by rw [g1, h1]; rfl, by rw [g2, h2]; rfl, by rw [g3, h3]; rfl, ?_, ?_⟩
    · rw [g4, h4]; rfl
    · rw [g5, h5]; rfl
  | arithFF b l r tl tr d hb _ _ hd ihl ihr =>
    obtain ⟨f, hf, hfg, f1, f2, f3, _, f5⟩ := ihl
    obtain ⟨o, ho, hog, o1, o2, o3, _, o5⟩ := ihr
    obtain ⟨g, hg, hgg, g1, g2, g3, g4, g5⟩ :=
      applyBin_arith_ff env b hb M hM f o hfg hog d (by rw [f1, o1]; exact hd)
    refine ⟨g, by rw [evalF_bin env b l r _ _ hf ho, hg], ?_⟩
    have hsrc : (metaSrc f o) = if tl.nv = 1 ∧ 1 < tr.nv then o else f := by
      unfold metaSrc; rw [f1, o1]
    rw [hsrc] at g2 g3
    have hdv : d = if tl.nv = 1 ∧ 1 < tr.nv then tr.nv else tl.nv := by
      rw [← metaSrc_nvdim f o d hfg.1.2.2 hog.1.2.2 (by rw [f1, o1]; exact hd), hsrc]
      split
      · exact o1
      · exact f1
    rw [f5, o5] at g5
    by_cases hc : tl.nv = 1 ∧ 1 < tr.nv
    · rw [if_pos hc] at g2 g3 hdv ⊢
      exact hasMeta_res M g tr _ hgg (by rw [g1, hdv]) (by rw [g2, o2]) (by rw [g3, o3]) g4 g5
    · rw [if_neg hc] at g2 g3 hdv ⊢
      exact hasMeta_res M g tl _ hgg (by rw [g1, hdv]) (by rw [g2, f2]) (by rw [g3, f3]) g4 g5
  | arithFR b l od t hb _ hfit ih =>
    obtain ⟨f, hf, hfg, f1, f2, f3, _, f5⟩ := ih
    obtain ⟨g, hg, hgg, g1, g2, g3, g4, g5⟩ :=
      applyBin_arith_fr env b od hb M f hfg (rawFits_cast M f t od hfg.2.2 f1 hfit)
    exact ⟨g, by rw [evalF_bin env b l _ _ _ hf (evalF_opd env od), hg],
      hasMeta_res M g t _ hgg (by rw [g1, f1]) (by rw [g2, f2]) (by rw [g3, f3]) g4 (by rw [g5, f5])⟩
  | arithRF b od r t hb _ hfit ih =>
    obtain ⟨f, hf, hfg, f1, f2, f3, _, f5⟩ := ih
    obtain ⟨g, hg, hgg, g1, g2, g3, g4, g5⟩ :=
      applyBin_arith_rf env b hb M hM f hfg od (rawFits_cast M f t od hfg.2.2 f1 hfit)
    exact ⟨g, by rw [evalF_bin env b _ r _ _ (evalF_opd env od) hf, hg],
      hasMeta_res M g t _ hgg (by rw [g1, f1]) (by rw [g2, f2]) (by rw [g3, f3]) g4 (by rw [g5, f5])⟩
  | dotFF l r tl tr _ _ hn ihl ihr =>
    obtain ⟨f, hf, hfg, f1, _, _, _, f5⟩ := ihl
    obtain ⟨o, ho, hog, o1, _, _, _, o5⟩ := ihr
    obtain ⟨g, hg, hgg, g1, g2, g3, g4, g5⟩ := dotOp_fld_accepts M hM f o hfg hog (by rw [f1, o1, hn])
    refine ⟨g, ?_, hgg, g1, g2, g3, g4, by rw [g5, f5, o5]⟩
    rw [evalF_bin env .dot l r _ _ hf ho]
    simp only [applyBin, forwardOp, hg]
  | dotFR l a k np t _ hfit ih =>
    obtain ⟨f, hf, hfg, f1, _, _, _, f5⟩ := ih
    obtain ⟨g, hg, hgg, g1, g2, g3, g4, g5⟩ :=
      dotOp_raw_accepts M f hfg a k np (rawFits_cast M f t _ hfg.2.2 f1 hfit)
    refine ⟨g, ?_, hgg, g1, g2, g3, g4, by rw [g5, f5]⟩
    rw [evalF_bin env .dot l _ _ _ hf (evalF_opd env _)]
    simp only [applyBin, forwardOp, hg]
  | dotRF a k r t _ hfit ih =>
    obtain ⟨f, hf, hfg, f1, _, _, _, f5⟩ := ih
    obtain ⟨g, hg, hgg, g1, g2, g3, g4, g5⟩ :=
      applyBin_dot_rf env M f hfg a k (rawFits_cast M f t _ hfg.2.2 f1 hfit)
    exact ⟨g, by rw [evalF_bin env .dot _ r _ _ (evalF_opd env _) hf, hg], hgg, g1, g2, g3, g4, by rw [g5, f5]⟩
  | crossFF l r tl tr m _ _ h3 h3' hm ihl ihr =>
    obtain ⟨f, hf, hfg, f1, f2, _, _, f5⟩ := ihl
    obtain ⟨o, ho, hog, o1, _, _, _, o5⟩ := ihr
    obtain ⟨g, hg, hgg, g1, g2, g3, g4, g5⟩ :=
      crossOp_fld_accepts M hM f o hfg hog (by rw [f1, h3]) (by rw [o1, h3'])
    rw [f2, hm] at g3
    injection g3 with g3
    refine ⟨g, ?_, hgg, g1, by rw [g2, f2], g3.symm, g4, by rw [g5, f5, o5]⟩
    rw [evalF_bin env .cross l r _ _ hf ho]
    simp only [applyBin, forwardOp, hg]
  | crossFR l a k np t m _ h3 hfit hm ih =>
    obtain ⟨f, hf, hfg, f1, f2, _, _, f5⟩ := ih
    obtain ⟨g, hg, hgg, g1, g2, g3, g4, g5⟩ :=
      crossOp_raw_accepts M hM f hfg (by rw [f1, h3]) a k np (rawFits_cast M f t _ hfg.2.2 f1 hfit)
    rw [f2, hm] at g3
    injection g3 with g3
    refine ⟨g, ?_, hgg, g1, by rw [g2, f2], g3.symm, g4, by rw [g5, f5]⟩
    rw [evalF_bin env .cross l _ _ _ hf (evalF_opd env _)]
    simp only [applyBin, forwardOp, hg]
  | crossRF a k r t m _ h3 hfit hm ih =>
    obtain ⟨f, hf, hfg, f1, f2, _, _, f5⟩ := ih
    obtain ⟨g, hg, hgg, g1, g2, g3, g4, g5⟩ :=
      applyBin_cross_rf env M hM f hfg (by rw [f1, h3]) a k (rawFits_cast M f t _ hfg.2.2 f1 hfit)
    rw [f2, hm] at g3
    injection g3 with g3
    exact ⟨g, by rw [evalF_bin env .cross _ r _ _ (evalF_opd env _) hf, hg], hgg, g1, by rw [g2, f2], g3.symm, g4,
      by rw [g5, f5]⟩
  | shlFF l r tl tr m _ _ hm ihl ihr =>
    obtain ⟨f, hf, hfg, f1, f2, f3, _, f5⟩ := ihl
    obtain ⟨o, ho, hog, o1, o2, o3, _, o5⟩ := ihr
    obtain ⟨g, hg, hgg, g1, g4, g2, g3, g5⟩ := applyBin_shl_ff env M hM f o hfg hog
    rw [f1, o1, f2, o2] at g2
    rw [f1, o1, f3, o3, g2] at g3
    refine ⟨g, by rw [evalF_bin env .shl l r _ _ hf ho, hg], hgg, by rw [g1, f1, o1], g2, ?_, g4, by rw [g5, f5, o5]⟩
    by_cases hc : (dictUpdate tl.vmap tr.vmap).length = tl.nv + tr.nv
    · rw [if_pos hc] at g3 hm
      rw [g3, hm]
    · rw [if_neg hc] at g3 hm
      rw [hm] at g3
      injection g3 with g3
      exact g3.symm
  | angleFF l r tl tr _ _ hn ihl ihr =>
    obtain ⟨f, hf, hfg, f1, _⟩ := ihl
    obtain ⟨o, ho, hog, o1, _⟩ := ihr
    obtain ⟨g, hg, hgg, g1, g2, g3, g4, g5⟩ := applyBin_angle_ff env M hM f o hfg hog (by rw [f1, o1, hn])
    exact ⟨g, by rw [evalF_bin env .angle l r _ _ hf ho, hg], hgg, g1, g2, g3, g4, g5⟩
  | ufuncFF b l r tl tr hb _ _ hd ihl ihr =>
    obtain ⟨f, hf, hfg, f1, f2, f3, _, f5⟩ := ihl
    obtain ⟨o, ho, hog, o1, _, _, _, o5⟩ := ihr
    obtain ⟨g, hg, hgg, g1, g2, g3, g4, g5⟩ :=
      applyBin_ufunc_ff env b hb M hM f o hfg hog (by rw [f1, o1]; exact hd)
    exact ⟨g, by rw [evalF_bin env b l r _ _ hf ho, hg],
      hasMeta_res M g tl _ hgg (by rw [g1, f1]) (by rw [g2, f2]) (by rw [g3, f3]) g4 (by rw [g5, f5, o5])⟩
  | ufuncFR b l od t hb _ hfit hu ih =>
    obtain ⟨f, hf, hfg, f1, f2, f3, _, f5⟩ := ih
    obtain ⟨g, hg, hgg, g1, g2, g3, g4, g5⟩ :=
      applyBin_ufunc_fr env b od hb M hM f hfg (rawFits_cast M f t od hfg.2.2 f1 hfit) hu
    exact ⟨g, by rw [evalF_bin env b l _ _ _ hf (evalF_opd env od), hg],
      hasMeta_res M g t _ hgg (by rw [g1, f1]) (by rw [g2, f2]) (by rw [g3, f3]) g4 (by rw [g5, f5])⟩
  | ufuncRF b od r t hb _ hfit hu ih =>
    obtain ⟨f, hf, hfg, f1, f2, f3, _, f5⟩ := ih
    obtain ⟨g, hg, hgg, g1, g2, g3, g4, g5⟩ :=
      applyBin_ufunc_rf env b hb M hM f hfg od (rawFits_cast M f t od hfg.2.2 f1 hfit) hu
    exact ⟨g, by rw [evalF_bin env b _ r _ _ (evalF_opd env od) hf, hg],
      hasMeta_res M g t _ hgg (by rw [g1, f1]) (by rw [g2, f2]) (by rw [g3, f3]) g4 (by rw [g5, f5])⟩

/-- `Mesh.allclose` is reflexive for non-negative tolerances -/
theorem isclose_self (x rtol atol : Rat) (h1 : 0 ≤ rtol) (h2 : 0 ≤ atol) : Region.isclose x x rtol atol = true := by
  unfold Region.isclose
  have hx : absR (x - x) = 0 := by simp [absR]
  have hb : 0 ≤ absR x := by
    unfold absR; split
    · linarith
    · linarith
  rw [hx]
  have : 0 ≤ atol + rtol * absR x := by nlinarith
  exact decide_eq_true this

theorem meshAllclose_self (M : Mesh) (h1 : 0 ≤ M.region.tol) (h2 : 0 ≤ M.region.atol) :
    meshAllclose M M = .ok true := by
  unfold meshAllclose
  rw [if_neg (by simp)]
  have hr : regionAllclose M.region M.region = true := by
    unfold regionAllclose allLt
    simp only [Bool.and_eq_true, List.all_eq_true]
    exact ⟨fun a _ => isclose_self _ _ _ h1 h2, fun a _ => isclose_self _ _ _ h1 h2⟩
  rw [hr]
  simp

end DFV.C03
