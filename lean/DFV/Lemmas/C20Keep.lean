import DFV.Lemmas.C20Plot
import DFV.Lemmas.C07Comp
/-!
C20 helper lemmas, third part: what the filter in force keeps (default filter, explicit filter
on the same cell counts, explicit filter on another resolution), and the value an auxiliary
field (filter / colour / lightness field) contributes to a cell in closed form.
-/
namespace DFV.C20
open DFV

/-! ## auxiliary field on another resolution: closed form of the lookup -/

/-- source index of the nearest-centre lookup: cell `i` of the grid `tgt` looks, on every axis
`b`, at cell `⌊(2·i_b + 1)·n'_b / (2·n_b)⌋` of the grid `src` (`n` cell counts of `tgt`, `n'` of
`src`): the cell of `src` at the same relative position as the centre of cell `i` -/
def srcIdx (src tgt : Mesh) (i : List Nat) : List Nat :=
  tab src.ndim fun b => ((2 * i.getD b 0 + 1) * src.nAt b) / (2 * tgt.nAt b)

theorem map_toNat_ofNat (n : List Nat) : List.map Int.toNat (List.map Int.ofNat n) = n := by
  rw [List.map_map]
  conv => rhs; rw [← List.map_id n]
  apply List.map_congr_left
  intro a _
  simp

/-- `aux.resample(field.mesh.n)` in closed form: the value used for cell `i` of the plotted
field is the value of the auxiliary field's cell `srcIdx … i` -/
theorem auxOnMesh_other (f g : Fld) (hg : g.mesh.Inv) (hf : f.mesh.Inv)
    (hd : f.mesh.region.ndim = g.mesh.region.ndim)
    (hn : g.mesh.n ≠ f.mesh.n) (a : NDA (List Rat))
    (h : auxOnMesh f g = .ok a) :
    ∀ i, (∀ b, b < g.mesh.ndim → i.getD b 0 < f.mesh.nAt b) →
      a.get i = g.data.get (srcIdx g.mesh f.mesh i) := by
  unfold auxOnMesh at h
  rw [if_neg hn] at h
  split at h
  · cases h
  · rename_i r hr
    injection h with h
    obtain ⟨m, hm, _, hdat⟩ := resample_data g _ r hr
    obtain ⟨hreg, hmn⟩ := mkN_ok_inv _ _ m hm
    rw [map_toNat_ofNat] at hmn
    have hmd : m.ndim = g.mesh.ndim := by unfold Mesh.ndim; rw [hreg]
    have hminv : m.Inv := by
      refine ⟨by rw [hreg]; exact hg.1, ?_, ?_⟩
      · rw [hmn, hf.2.1, hd, hreg]
      · intro b hb
        rw [C07.nAt_def, hmn]
        exact hf.2.2 b (by unfold Mesh.ndim at hb ⊢; rw [hreg] at hb; omega)
    intro i hi
    rw [← h, hdat]
    show g.data.get (tab g.mesh.ndim fun a => C07.nearestAx g.mesh a (C07.coord m a (i.getD a 0))) = _
    unfold srcIdx
    congr 1
    apply tab_congr
    intro b hb
    have hib : i.getD b 0 < m.nAt b := by rw [C07.nAt_def, hmn]; exact hi b hb
    rw [C07.coord_eq m hminv b (by omega) _ hib]
    have hc := C07.centre_bounds m b _ hib (C07.inv_cell_pos hminv (by omega))
    rw [hreg] at hc
    rw [C07.nearestAx_eq_indexAx g.mesh hg b hb _ hc.1 hc.2]
    have := C07.resample_index g.mesh m b (C07.inv_n_pos hg hb) (C07.inv_n_pos hminv (by omega))
      (by rw [hreg]) (by rw [hreg]) (C07.inv_lo_lt_hi hg hb) _ hib
    rw [this, C07.nAt_def m, hmn]
    rfl

/-- physical reading of `srcIdx` when both fields live on the same region: the looked-up cell is
the cell of the auxiliary mesh that CONTAINS the centre of cell `i` of the plotted field -/
theorem srcIdx_contains (src tgt : Mesh) (hs : src.Inv) (ht : tgt.Inv) (hreg : tgt.region = src.region)
    (i : List Nat) (hi : ∀ b, b < src.ndim → i.getD b 0 < tgt.nAt b) :
    srcIdx src tgt i = tab src.ndim fun b => src.indexAx b (tgt.centreAx b ((i.getD b 0 : Nat) : Int)) := by
  unfold srcIdx
  apply tab_congr
  intro b hb
  have hb' : b < tgt.ndim := by unfold Mesh.ndim at hb ⊢; rw [hreg]; exact hb
  exact (C07.resample_index src tgt b (C07.inv_n_pos hs hb) (C07.inv_n_pos ht hb')
    (by rw [hreg]) (by rw [hreg]) (C07.inv_lo_lt_hi hs hb) _ (hi b hb)).symm

/-- on equal cell counts the lookup is the identity -/
theorem srcIdx_same (src tgt : Mesh) (h2 : src.ndim = 2) (hn : src.n = tgt.n) (i j : Nat)
    (hi : i < tgt.nAt 0) (hj : j < tgt.nAt 1) : srcIdx src tgt [i, j] = [i, j] := by
  unfold srcIdx
  rw [h2]
  have e : ∀ b, src.nAt b = tgt.nAt b := fun b => by unfold Mesh.nAt; rw [hn]
  have key : ∀ (k n : Nat), 0 < n → ((2 * k + 1) * n) / (2 * n) = k := by
    intro k n hn'
    apply Nat.div_eq_of_lt_le
    · nlinarith
    · nlinarith
  show [((2 * i + 1) * src.nAt 0) / (2 * tgt.nAt 0), ((2 * j + 1) * src.nAt 1) / (2 * tgt.nAt 1)] = [i, j]
  rw [e 0, e 1, key i _ (by omega), key j _ (by omega)]

/-- the value an auxiliary field contributes to cell `[i, j]`: its own cell on equal counts,
the cell at the same relative position otherwise -/
def auxAt (f g : Fld) (i : List Nat) : Rat :=
  if g.mesh.n = f.mesh.n then (g.data.get i).getD 0 0
  else (g.data.get (srcIdx g.mesh f.mesh i)).getD 0 0

/-- requirement on an auxiliary field whose cell counts differ: both meshes well formed -/
def AuxGeom (f g : Fld) : Prop :=
  g.mesh.n = f.mesh.n ∨ (g.mesh.Inv ∧ f.mesh.Inv)

theorem auxOnMesh_at (f g : Fld) (hgeo : AuxGeom f g) (h2 : f.mesh.region.ndim = 2)
    (hg2 : g.mesh.region.ndim = 2) (a : NDA (List Rat)) (h : auxOnMesh f g = .ok a)
    (i j : Nat) (hi : i < f.mesh.nAt 0) (hj : j < f.mesh.nAt 1) :
    (a.get [i, j]).getD 0 0 = auxAt f g [i, j] := by
  unfold auxAt
  by_cases hn : g.mesh.n = f.mesh.n
  · rw [if_pos hn]
    rw [auxOnMesh_same f g hn] at h
    injection h with h
    rw [h]
  · rw [if_neg hn]
    rcases hgeo with hgeo | ⟨hg, hf⟩
    · exact absurd hgeo hn
    · rw [auxOnMesh_other f g hg hf (by rw [h2, hg2]) hn a h [i, j]]
      intro b hb
      have hb2 : b < 2 := by unfold Mesh.ndim at hb; omega
      rcases (by omega : b = 0 ∨ b = 1) with rfl | rfl
      · simpa using hi
      · simpa using hj

/-! ## what the filter in force keeps -/

/-- the property's own description of a drawn cell: valid, and non-zero in the filter field
(looked up at the cell itself, or at the same relative position on another resolution) -/
def keptBy (f : Fld) (flt : Option Fld) (i : List Nat) : Bool :=
  f.valid.get i && match flt with
    | none => true
    | some g => !decide (auxAt f g i = 0)

/-- **Filter in force = the property's description**, for the default filter, an explicit filter
on the same cell counts and an explicit filter on another resolution alike -/
theorem filterKeep_keptBy (f : Fld) (o : Opts) (h2 : f.mesh.region.ndim = 2)
    (hgeo : ∀ g, o.filter = some g → AuxGeom f g) (keep : NDA Bool)
    (hk : filterKeep f (filterOf f o) = .ok keep) (i j : Nat) (hi : i < f.mesh.nAt 0)
    (hj : j < f.mesh.nAt 1) : keep.get [i, j] = keptBy f o.filter [i, j] := by
  cases hflt : o.filter with
  | none =>
    have hfo : filterOf f o = validAsField f := by simp [filterOf, hflt]
    obtain ⟨keep', hk', hget⟩ := filterKeep_valid f h2
    rw [hfo, hk'] at hk
    injection hk with hk
    subst hk
    rw [hget]
    simp [keptBy]
  | some g =>
    have hfo : filterOf f o = g := by simp [filterOf, hflt]
    rw [hfo] at hk
    obtain ⟨_, hg2, a, ha, _, hget⟩ := filterKeep_ok_inv f g keep hk
    rw [hget, auxOnMesh_at f g (hgeo g hflt) h2 hg2 a ha i j hi hj]
    simp only [keptBy]
    rw [Bool.and_comm]

theorem filterKeep_congr (f f' flt : Fld) (hm : f'.mesh = f.mesh) (hv : f'.valid = f.valid) :
    filterKeep f' flt = filterKeep f flt := by
  unfold filterKeep auxOnMesh
  rw [hm, hv]

/-! ## colour and lightness sources -/

theorem lightSrc_some_inv (f g : Fld) (dflt l : NDA Rat) (h : lightSrc f (some g) dflt = .ok l) :
    g.nvdim = 1 ∧ g.mesh.region.ndim = 2 ∧
    ∃ a, auxOnMesh f g = .ok a ∧ ∀ i, l.get i = (a.get i).getD 0 0 := by
  unfold lightSrc at h
  simp only [] at h
  split at h
  · cases h
  · rename_i h1
    split at h
    · cases h
    · rename_i h2
      split at h
      · cases h
      · rename_i a ha
        injection h with h
        subst h
        exact ⟨not_not.mp h1, not_not.mp h2, a, ha, fun _ => rfl⟩

theorem lightSrc_none (f : Fld) (dflt : NDA Rat) : lightSrc f none dflt = .ok dflt := rfl

theorem colourOf_aux_inv (f g : Fld) (o : Opts) (vd : List (Option String)) (huse : o.useColor = true)
    (haux : o.aux = some g) (C : Option (NDA Rat)) (h : colourOf f o vd = .ok C) :
    g.nvdim = 1 ∧ g.mesh.region.ndim = 2 ∧
    ∃ a, auxOnMesh f g = .ok a ∧ C = some (colourArr f.mesh.n a) := by
  rw [colourOf_aux f g o vd huse haux] at h
  split at h
  · cases h
  · rename_i h1
    split at h
    · cases h
    · rename_i h2
      split at h
      · cases h
      · rename_i a ha
        injection h with h
        exact ⟨not_not.mp h1, not_not.mp h2, a, ha, h.symm⟩

end DFV.C20
