import Mathlib.Tactic.Ring
import Mathlib.Tactic.Linarith
import DFV.Model.C08
import DFV.Lemmas.Tab
import DFV.Lemmas.Index
import DFV.Lemmas.Rot
/-! C08 helper lemmas, part 1: in-range indices pointwise, materialised arrays, the index maps
of the cell-mapping operations stay inside the source array. -/
namespace DFV.C08
open DFV

/-! ## in-range, pointwise -/

theorem inRange_iff (ns t : List Nat) :
    inRange ns t = true ↔ t.length = ns.length ∧ ∀ a, a < ns.length → t.getD a 0 < ns.getD a 0 := by
  induction ns generalizing t with
  | nil =>
    cases t with
    | nil => simp [inRange]
    | cons x xs => simp [inRange]
  | cons n ns ih =>
    cases t with
    | nil => simp [inRange]
    | cons x xs =>
      simp only [inRange, Bool.and_eq_true, decide_eq_true_eq, ih, List.length_cons]
      constructor
      · rintro ⟨h1, h2, h3⟩
        refine ⟨by omega, ?_⟩
        intro a ha
        cases a with
        | zero => simpa using h1
        | succ a => simpa using h3 a (by omega)
      · rintro ⟨h1, h2⟩
        refine ⟨by simpa using h2 0 (by omega), by omega, ?_⟩
        intro a ha
        simpa using h2 (a + 1) (by omega)

theorem inRange_tab (ns : List Nat) (L : Nat) (f : Nat → Nat) (hL : L = ns.length)
    (h : ∀ a, a < ns.length → f a < ns.getD a 0) : inRange ns (tab L f) = true := by
  rw [inRange_iff]
  subst hL
  refine ⟨tab_length _ _, ?_⟩
  intro a ha
  rw [getD_tab _ _ _ _ ha]
  exact h a ha

/-! ## materialised arrays -/

theorem force_get {α} (a : NDA α) (d : α) (idx : List Nat) (h : inRange a.shape idx = true) :
    (a.force d).get idx = a.get idx := by
  have hlt := flatC_lt a.shape idx h
  show (NDA.ofList a.shape a.toList d).get idx = a.get idx
  unfold NDA.ofList NDA.ofArray NDA.toList indicesC
  simp only
  rw [Array.getD_eq_getD_getElem?]
  simp only [List.getElem?_toArray, List.getElem?_map]
  rw [List.getElem?_range hlt]
  simp [unflatC_flatC a.shape idx h]

@[simp] theorem own_shape (m : Mask) : (own m).shape = m.shape := rfl

theorem own_get (m : Mask) (j : List Nat) (h : inRange m.shape j = true) : (own m).get j = m.get j :=
  force_get m false j h

end DFV.C08
