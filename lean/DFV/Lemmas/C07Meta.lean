import Std.Data.String.ToNat
import DFV.Lemmas.C07Resample
/-! Labels and mapping through the constructor call at the end of every C07 operation. -/
namespace DFV.C07
open DFV DFV.Mesh

/-- labels and mapping in the state a constructor leaves them: running the two setters again
changes nothing (true of every field built by `Field(...)`) -/
def MetaInv (f : Fld) : Prop := ctorMeta f = .ok (f.vdims, f.vmap)

theorem hasDup_false_iff (l : List String) : hasDup l = false ↔ l.Nodup := by
  induction l with
  | nil => simp [hasDup]
  | cons x xs ih =>
    simp only [hasDup, Bool.or_eq_false_iff, List.nodup_cons, ih]
    constructor
    · rintro ⟨h1, h2⟩
      refine ⟨?_, h2⟩
      intro hm
      have : xs.contains x = true := List.contains_iff_mem.mpr hm
      rw [this] at h1; cases h1
    · rintro ⟨h1, h2⟩
      refine ⟨?_, h2⟩
      cases hc : xs.contains x with
      | false => rfl
      | true => exact absurd (List.contains_iff_mem.mp hc) h1

theorem vlabel_inj (i j : Nat) (h : s!"v{i}" = s!"v{j}") : i = j := by
  have h' : "v" ++ toString i = "v" ++ toString j := h
  rw [String.append_right_inj] at h'
  exact Nat.repr_injective h'

theorem ctorVdims_none (k : Nat) : ctorVdims k none = .ok (Fld.defaultVdims k) := rfl
theorem ctorVdims_nil (k : Nat) : ctorVdims k (some []) = .ok none := rfl
theorem ctorVdims_cons (k : Nat) (x : String) (l : List String) :
    ctorVdims k (some (x :: l)) =
      if (x :: l).length ≠ k then .error .value
      else if hasDup (x :: l) then .error .value
      else .ok (some (x :: l)) := rfl

/-- the default labels: none for one component, else `k` distinct labels -/
theorem defaultVdims_spec (k : Nat) (hk : k ≠ 0) :
    (k = 1 ∧ Fld.defaultVdims k = none) ∨
    (k ≠ 1 ∧ ∃ x l, Fld.defaultVdims k = some (x :: l) ∧ (x :: l).length = k ∧ hasDup (x :: l) = false) := by
  unfold Fld.defaultVdims
  by_cases h1 : k = 1
  · left; exact ⟨h1, by rw [if_pos h1]⟩
  · rw [if_neg h1]
    right
    refine ⟨h1, ?_⟩
    by_cases h3 : k ≤ 3
    · rw [if_pos h3]
      have : k = 2 ∨ k = 3 := by omega
      rcases this with rfl | rfl
      · exact ⟨"x", ["y"], rfl, rfl, by decide⟩
      · exact ⟨"x", ["y", "z"], rfl, rfl, by decide⟩
    · rw [if_neg h3]
      have hnd : ((List.range k).map fun i => s!"v{i}").Nodup := by
        rw [List.Nodup, List.pairwise_map]
        exact List.Pairwise.imp (fun {a b} hab hf => hab (vlabel_inj a b hf)) List.nodup_range
      have hlen : ((List.range k).map fun i => s!"v{i}").length = k := by simp
      cases hl : (List.range k).map fun i => s!"v{i}" with
      | nil => rw [hl] at hlen; simp at hlen; omega
      | cons x l =>
        rw [hl] at hnd hlen
        exact ⟨x, l, rfl, hlen, (hasDup_false_iff _).mpr hnd⟩

/-- the label setter is idempotent (an empty label list is not a state of a field: the setter
turns it into "no labels") -/
theorem ctorVdims_idem (k : Nat) (hk : k ≠ 0) (vd vd' : Option (List String)) (hne : vd ≠ some [])
    (h : ctorVdims k vd = .ok vd') : ctorVdims k vd' = .ok vd' := by
  cases vd with
  | none =>
    rw [ctorVdims_none] at h
    injection h with h
    subst h
    rcases defaultVdims_spec k hk with ⟨_, hd⟩ | ⟨_, x, l, hd, hlen, hdup⟩
    · rw [hd, ctorVdims_none, hd]
    · rw [hd, ctorVdims_cons, if_neg (by simpa using hlen), hdup]
      simp
  | some l =>
    cases l with
    | nil => exact absurd rfl hne
    | cons x l =>
      rw [ctorVdims_cons] at h
      split at h
      · cases h
      · split at h
        · cases h
        · injection h with h
          subst h
          rename_i h1 h2
          rw [ctorVdims_cons, if_neg h1, if_neg h2]

/-- what the label setter returns: the labels themselves when there are labels, the default
labels when there are none -/
theorem ctorVdims_rule (k : Nat) (vd vd' : Option (List String)) (h : ctorVdims k vd = .ok vd') :
    (vd = none ∧ vd' = Fld.defaultVdims k) ∨ (vd = some [] ∧ vd' = none) ∨
    (∃ x l, vd = some (x :: l) ∧ vd' = vd ∧ (x :: l).length = k ∧ hasDup (x :: l) = false) := by
  cases vd with
  | none =>
    rw [ctorVdims_none] at h
    injection h with h
    exact Or.inl ⟨rfl, h.symm⟩
  | some l =>
    cases l with
    | nil =>
      rw [ctorVdims_nil] at h
      injection h with h
      exact Or.inr (Or.inl ⟨rfl, h.symm⟩)
    | cons x l =>
      rw [ctorVdims_cons] at h
      split at h
      · cases h
      · split at h
        · cases h
        · injection h with h
          rename_i h1 h2
          refine Or.inr (Or.inr ⟨x, l, rfl, h.symm, by simpa using h1, by simpa using h2⟩)

/-- what the mapping setter returns: the dictionary itself, except that the one-entry
dictionary of an unlabelled scalar field is emptied -/
theorem ctorVmap_rule (k : Nat) (vd : Option (List String)) (vm vm' : List (String × String))
    (h : ctorVmap k vd vm = .ok vm') :
    (vm.length = 1 ∧ k = 1 ∧ vd = none ∧ vm' = []) ∨
    (vm' = vm ∧ (vm = [] ∨ ∃ l, vd = some l ∧ (vm.map (·.1)).isPerm l = true)) := by
  unfold ctorVmap at h
  split at h
  · rename_i h1
    injection h with h
    exact Or.inl ⟨h1.1, h1.2.1, h1.2.2, h.symm⟩
  · split at h
    · rename_i h2
      injection h with h
      exact Or.inr ⟨h.symm, Or.inl (List.length_eq_zero_iff.mp h2)⟩
    · cases vd with
      | none => cases h
      | some l =>
        simp only at h
        split at h
        · rename_i h3
          injection h with h
          exact Or.inr ⟨h.symm, Or.inr ⟨l, rfl, h3⟩⟩
        · cases h

theorem ctorVmap_idem (k : Nat) (vd : Option (List String)) (vm vm' : List (String × String))
    (h : ctorVmap k vd vm = .ok vm') : ctorVmap k vd vm' = .ok vm' := by
  rcases ctorVmap_rule k vd vm vm' h with ⟨_, _, _, h4⟩ | ⟨h1, _⟩
  · subst h4
    unfold ctorVmap
    simp
  · subst h1; exact h

theorem ctorMeta_inv (f : Fld) (vd : Option (List String)) (vm : List (String × String))
    (h : ctorMeta f = .ok (vd, vm)) :
    ctorVdims f.nvdim f.vdims = .ok vd ∧ ctorVmap f.nvdim vd f.vmap = .ok vm := by
  unfold ctorMeta at h
  split at h
  · cases h
  · rename_i vd' h1
    split at h
    · cases h
    · rename_i vm' h2
      injection h with h
      injection h with ha hb
      subst ha; subst hb
      exact ⟨h1, h2⟩

theorem ctorMeta_of (f : Fld) (vd : Option (List String)) (vm : List (String × String))
    (h1 : ctorVdims f.nvdim f.vdims = .ok vd) (h2 : ctorVmap f.nvdim vd f.vmap = .ok vm) :
    ctorMeta f = .ok (vd, vm) := by
  unfold ctorMeta; rw [h1]; simp only; rw [h2]

/-- the result of the two setters is a fixed point of the two setters -/
theorem ctorMeta_idem (f g : Fld) (hk : f.nvdim ≠ 0) (hne : f.vdims ≠ some [])
    (h : ctorMeta f = .ok (g.vdims, g.vmap)) (hn : g.nvdim = f.nvdim) : MetaInv g := by
  obtain ⟨h1, h2⟩ := ctorMeta_inv f _ _ h
  unfold MetaInv
  apply ctorMeta_of
  · rw [hn]; exact ctorVdims_idem _ hk _ _ hne h1
  · rw [hn]; exact ctorVmap_idem _ _ _ _ h2

/-- for a field in constructor state the setters hand labels and mapping through unchanged -/
theorem metaInv_ok (f : Fld) (h : MetaInv f) : metaOk f = true ∧ metaOf f = (f.vdims, f.vmap) :=
  metaOk_of_eq f _ h

end DFV.C07
