import DFV.Lemmas.C11Ex
import DFV.Lemmas.C11Inv
import DFV.Lemmas.C11Complex
/-! C11: further concrete objects for the non-vacuity examples of `Props/C11.lean` (second round). -/
namespace DFV.C11
open DFV

/-- a valid 2-d mesh whose names collide once `k_` is stripped -/
def exCollide : Mesh := ⟨⟨[0, 0], [1, 1], ["k_x", "x"], ["m", "m"], 1/1000000000000⟩, [2, 3], "", []⟩

theorem exCollide_inv : exCollide.Inv := by
  refine ⟨⟨by decide, by decide, by decide, by decide, by decide +kernel, ?_⟩, by decide, ?_⟩
  · intro a ha
    have : a = 0 ∨ a = 1 := by simp [exCollide] at ha; omega
    rcases this with rfl | rfl <;> simp [exCollide, Region.lo, Region.hi]
  · intro a ha
    have : a = 0 ∨ a = 1 := by simp [exCollide, Mesh.ndim, Region.ndim] at ha; omega
    rcases this with rfl | rfl <;> simp [exCollide, Mesh.nAt]

/-- a complex 3-component k-space field that did NOT come from `fftn`: off-centre mesh, only some
names / labels / mapped axes carry a prefix (one of them twice), anisotropic cells, counts (3, 1, 2) -/
noncomputable def exK : CF ℂ :=
  { mesh := ⟨⟨[-1, 0, 3], [1, 2, 7/2], ["k_x", "y", "k_k_z"], ["(m)$^{-1}$", "nm", "s"], 1/1000000000000⟩,
             [3, 1, 2], "", []⟩,
    nvdim := 3, data := ⟨[3, 1, 2], fun i => [(i.getD 0 0 : ℂ), Complex.I, 2]⟩,
    vdims := some ["ft_a", "b", "ft_ft_c"], vmap := [("ft_a", "k_x"), ("b", "y"), ("ft_ft_c", "q")],
    unit := some "T" }

theorem exK_inv : CFInv exK := by
  refine ⟨⟨⟨by decide, by decide, by decide, by decide, by decide +kernel, ?_⟩, by decide, ?_⟩, rfl, by decide,
    Or.inr ⟨["ft_a", "b", "ft_ft_c"], rfl, by simp, rfl, by decide +kernel, Or.inr rfl⟩⟩
  · intro a ha
    have : a = 0 ∨ a = 1 ∨ a = 2 := by simp [exK] at ha; omega
    rcases this with rfl | rfl | rfl <;> simp [exK, Region.lo, Region.hi]; norm_num
  · intro a ha
    have : a = 0 ∨ a = 1 ∨ a = 2 := by simp [exK, Mesh.ndim, Region.ndim] at ha; omega
    rcases this with rfl | rfl | rfl <;> simp [exK, Mesh.nAt]

end DFV.C11
