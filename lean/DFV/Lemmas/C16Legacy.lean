import DFV.Lemmas.C16Read
/-! C16 helper lemmas, part 6: the legacy point-data reader on a file of the old layout. -/
namespace DFV.C16
open DFV DFV.Mesh

/-! ## scans -/

theorem coordEntries_cons_quiet (x : LLine) (t : List LLine) (h : ∀ c, x ≠ .coords c) :
    coordEntries (x :: t) = coordEntries t := by
  cases x with
  | coords c => exact absurd rfl (h c)
  | nums xs => simp [coordEntries]
  | vectors => simp [coordEntries]
  | scalars => simp [coordEntries]
  | alpha => simp [coordEntries]
  | junk => simp [coordEntries]

theorem coordEntries_skip (l rest : List LLine) (h : ∀ x ∈ l, ∀ c, x ≠ .coords c) :
    coordEntries (l ++ rest) = coordEntries rest := by
  induction l with
  | nil => rfl
  | cons x t ih =>
    rw [List.cons_append, coordEntries_cons_quiet x _ (h x (by simp)), ih fun y hy => h y (by simp [hy])]

theorem coordEntries_none (l : List LLine) (h : ∀ x ∈ l, ∀ c, x ≠ .coords c) : coordEntries l = .ok [] := by
  have := coordEntries_skip l [] h
  simpa [coordEntries] using this

theorem coordEntries_block (c : Nat) (xs : List Rat) (rest : List LLine) (es : List (Nat × List Rat))
    (h : coordEntries rest = .ok es) : coordEntries (.coords c :: .nums xs :: rest) = .ok ((c, xs) :: es) := by
  simp only [coordEntries]
  rw [h]

theorem afterMarker_skip (vec : Bool) (l rest : List LLine)
    (h : ∀ x ∈ l, ((vec && x == .vectors) || (!vec && x == .scalars)) = false) :
    afterMarker vec (l ++ rest) = afterMarker vec rest := by
  induction l with
  | nil => rfl
  | cons x t ih =>
    simp only [List.cons_append, afterMarker]
    rw [h x (by simp)]
    simp only [Bool.false_eq_true, if_false]
    exact ih fun y hy => h y (by simp [hy])

/-! ## the data loop -/

theorem fill_rows (dim : Nat) (post : List LLine) (idxs : List (List Nat)) (rows : List (List Rat))
    (a : NDA (List Rat)) (hnd : idxs.Nodup) (hlen : rows.length = idxs.length)
    (hrow : ∀ r ∈ rows, r.length = dim) :
    ∃ res, fill dim idxs (rows.map .nums ++ post) a = .ok res ∧ res.shape = a.shape ∧
      (∀ t, t < idxs.length → res.get (idxs.getD t []) = rows.getD t []) ∧
      (∀ j, j ∉ idxs → res.get j = a.get j) := by
  induction idxs generalizing rows a with
  | nil =>
    refine ⟨a, by simp [fill], rfl, ?_, fun j _ => rfl⟩
    intro t ht; simp at ht
  | cons i is ih =>
    cases rows with
    | nil => simp at hlen
    | cons r rs =>
      have hr : r.length = dim := hrow r (by simp)
      obtain ⟨hi, hnd'⟩ := List.nodup_cons.mp hnd
      obtain ⟨res, h1, h2, h3, h4⟩ := ih rs (setCell a i r) hnd' (by simpa using hlen)
        (fun q hq => hrow q (by simp [hq]))
      refine ⟨res, ?_, by rw [h2]; rfl, ?_, ?_⟩
      · simp only [List.map_cons, List.cons_append, fill, hr, if_true]
        exact h1
      · intro t ht
        cases t with
        | zero =>
          simp only [List.getD_cons_zero]
          rw [h4 i hi]
          simp [setCell]
        | succ t =>
          simp only [List.getD_cons_succ]
          exact h3 t (by simpa using ht)
      · intro j hj
        have hj1 : j ≠ i := fun e => hj (by simp [e])
        have hj2 : j ∉ is := fun e => hj (by simp [e])
        rw [h4 j hj2]
        simp [setCell, hj1]

theorem indicesF_nodup (ns : List Nat) : (indicesF ns).Nodup := by
  unfold indicesF
  rw [List.Nodup, List.pairwise_map]
  have h : (List.range (natProd ns)).Pairwise (· ≠ ·) := List.nodup_range
  apply List.Pairwise.imp_of_mem _ h
  intro x y hx hy hne hxy
  have hx' := List.mem_range.mp hx
  have hy' := List.mem_range.mp hy
  have := congrArg (flatF ns) hxy
  rw [flatF_unflatF ns x hx', flatF_unflatF ns y hy'] at this
  exact hne this

theorem indicesF_getD (ns : List Nat) (idx : List Nat) (hi : inRange ns idx = true) :
    (indicesF ns).getD (flatF ns idx) [] = idx := by
  unfold indicesF
  have hlt := flatF_lt ns idx hi
  rw [List.getD_eq_getElem?_getD, List.getElem?_map, List.getElem?_range hlt]
  simp only [Option.map_some, Option.getD_some]
  exact unflatF_flatF ns idx hi

/-! ## mesh and field of the legacy reader -/

theorem meshOf_plain (p1 p2 : List Rat) (n : List Nat) (h1 : p1.length = 3) (h2 : p2.length = 3) (h3 : n.length = 3)
    (hlt : ∀ a, a < 3 → p1.getD a 0 < p2.getD a 0) (hn : ∀ k ∈ n, k ≠ 0) :
    meshOf p1 p2 n = .ok { region := plainRegion p1 p2, n := n, bc := "", subs := [] } := by
  unfold meshOf
  rw [mk?_plain p1 p2 h1 h2 hlt]
  simp only
  unfold Mesh.mkN?
  have hnd3 : (plainRegion p1 p2).ndim = 3 := h1
  rw [if_neg (by simp [hnd3, h3])]
  have hz : (n.any fun x => decide (x = 0)) = false := by
    rw [List.any_eq_false]
    intro k hk
    simpa using hn k hk
  rw [hz]
  simp [toLower_empty, bcOk]

theorem mkField_legacy (m : Mesh) (vec : Bool) (hd : m.region.dims.length = 3) (data : NDA (List Rat)) (valid : NDA Bool) :
    mkField m (if vec then 3 else 1) data valid none =
      .ok { mesh := m, nvdim := if vec then 3 else 1, data := data, valid := valid,
            vdims := if vec then some ["x", "y", "z"] else none,
            vmap := defaultVmap (if vec then 3 else 1) m.region.dims (if vec then some ["x", "y", "z"] else none),
            unit := none } := by
  cases vec with
  | true => rfl
  | false => rfl

theorem nm1_pos : 0 < nm1 := by unfold nm1; norm_num

/-- the whole reader on a file of the old layout -/
theorem legacyRead_file (pre mid post : List LLine) (N : Nat → Nat) (o c : Nat → Rat) (vec : Bool)
    (rows : List (List Rat))
    (hpre : Quiet pre) (hmid : Quiet mid) (hpost : ∀ x ∈ post, ∀ k, x ≠ .coords k)
    (hsc : vec = false → (∀ x ∈ pre ++ mid, x ≠ .scalars) ∧ ∀ x ∈ post, x ≠ .vectors)
    (hN : ∀ a, a < 3 → 1 ≤ N a) (hc : ∀ a, a < 3 → 0 < c a)
    (hrows : rows.length = natProd [N 0, N 1, N 2]) (hrow : ∀ r ∈ rows, r.length = if vec then 3 else 1) :
    ∃ f', legacyRead (legacyFile pre mid post N (fun a => tab (N a) fun j => o a + (j : Rat) * c a) vec rows) none = .ok f' ∧
      f'.mesh.n = [N 0, N 1, N 2] ∧ f'.mesh.subs = [] ∧
      f'.mesh.region.pmin = tab 3 (fun a => o a - legCe N c a * (1/2)) ∧
      f'.mesh.region.pmax = tab 3 (fun a => o a - legCe N c a * (1/2) + (N a : Rat) * legCe N c a) ∧
      f'.nvdim = (if vec then 3 else 1) ∧
      (∀ idx, inRange [N 0, N 1, N 2] idx = true →
        f'.data.get idx = rows.getD (flatF [N 0, N 1, N 2] idx) [] ∧ f'.valid.get idx = true) := by
  set X : Nat → List Rat := fun a => tab (N a) fun j => o a + (j : Rat) * c a with hX
  set es : List (Nat × List Rat) := [(N 0, X 0), (N 1, X 1), (N 2, X 2)] with hes
  set tail : List LLine := (if vec then [LLine.vectors] else [.scalars, .alpha]) ++ (rows.map .nums ++ post) with htail
  have hfile : legacyFile pre mid post N X vec rows =
      pre ++ ([.coords (N 0), .nums (X 0), .coords (N 1), .nums (X 1), .coords (N 2), .nums (X 2)] ++ (mid ++ tail)) := rfl
  -- coordinate blocks
  have htailc : ∀ x ∈ mid ++ tail, ∀ k, x ≠ .coords k := by
    intro x hx k
    rcases List.mem_append.mp hx with hx | hx
    · exact (hmid x hx).1 k
    · rw [htail] at hx
      rcases List.mem_append.mp hx with hx | hx
      · cases vec <;> simp at hx <;> rcases hx with rfl | rfl <;> simp
      · rcases List.mem_append.mp hx with hx | hx
        · obtain ⟨r, _, rfl⟩ := List.mem_map.mp hx; simp
        · exact hpost x hx k
  have hce : coordEntries (legacyFile pre mid post N X vec rows) = .ok es := by
    rw [hfile, coordEntries_skip pre _ (fun x hx => (hpre x hx).1)]
    simp only [List.cons_append, List.nil_append]
    apply coordEntries_block; apply coordEntries_block; apply coordEntries_block
    exact coordEntries_none _ htailc
  -- is it a vector file?
  have hvec : (legacyFile pre mid post N X vec rows).contains .vectors = vec := by
    cases vec with
    | true =>
      rw [List.contains_iff_mem, hfile]
      simp [htail]
    | false =>
      obtain ⟨_, hp2⟩ := hsc rfl
      have : ¬ LLine.vectors ∈ legacyFile pre mid post N X false rows := by
        rw [hfile, htail]
        simp only [List.mem_append, List.mem_cons, List.mem_map, not_or]
        refine ⟨fun h => (hpre _ h).2 rfl, ?_, fun h => (hmid _ h).2 rfl, ?_, ?_, fun h => hp2 _ h rfl⟩
        · simp
        · simp
        · rintro ⟨r, _, hr⟩; cases hr
      simpa [List.contains_iff_mem] using this
  -- the data marker
  have hmark : afterMarker vec (legacyFile pre mid post N X vec rows) =
      some ((if vec then [] else [LLine.alpha]) ++ (rows.map .nums ++ post)) := by
    have hq : ∀ x ∈ pre ++ ([.coords (N 0), .nums (X 0), .coords (N 1), .nums (X 1), .coords (N 2), .nums (X 2)] ++ mid),
        ((vec && x == .vectors) || (!vec && x == .scalars)) = false := by
      intro x hx
      cases vec with
      | true =>
        have : x ≠ .vectors := by
          rcases List.mem_append.mp hx with hx | hx
          · exact (hpre x hx).2
          · rcases List.mem_append.mp hx with hx | hx
            · simp at hx; rcases hx with rfl | rfl | rfl | rfl | rfl | rfl <;> simp
            · exact (hmid x hx).2
        simpa using this
      | false =>
        obtain ⟨hp1, _⟩ := hsc rfl
        have : x ≠ .scalars := by
          rcases List.mem_append.mp hx with hx | hx
          · exact hp1 x (by simp [hx])
          · rcases List.mem_append.mp hx with hx | hx
            · simp at hx; rcases hx with rfl | rfl | rfl | rfl | rfl | rfl <;> simp
            · exact hp1 x (by simp [hx])
        simpa using this
    have e : legacyFile pre mid post N X vec rows =
        (pre ++ ([.coords (N 0), .nums (X 0), .coords (N 1), .nums (X 1), .coords (N 2), .nums (X 2)] ++ mid)) ++ tail := by
      rw [hfile]; simp
    rw [e, afterMarker_skip vec _ _ hq, htail]
    cases vec <;> simp [afterMarker]
  -- geometry
  have hXlen : ∀ a, (X a).length = N a := fun a => by simp [hX]
  have hX0 : ∀ a, a < 3 → (X a).getD 0 0 = o a := by
    intro a ha
    rw [hX]; simp only
    rw [getD_tab _ _ _ _ (hN a ha)]; simp
  have hcell : ∀ a, a < 3 → (legCell es).getD a 0 = legCe N c a := by
    intro a ha
    have : a = 0 ∨ a = 1 ∨ a = 2 := by omega
    unfold legCe
    rcases this with rfl | rfl | rfl <;>
    · simp only [legCell, hes, List.map_cons, List.map_nil, List.getD_cons_zero, List.getD_cons_succ, hXlen]
      split
      · rename_i h1
        rw [hX]; simp only
        rw [getD_tab _ _ _ _ h1, getD_tab _ _ _ _ (by omega)]
        push_cast; ring
      · rfl
  have horg : ∀ a, a < 3 → (legOrigin es).getD a 0 = o a := by
    intro a ha
    have : a = 0 ∨ a = 1 ∨ a = 2 := by omega
    rcases this with rfl | rfl | rfl <;>
    · simp only [legOrigin, hes, List.map_cons, List.map_nil, List.getD_cons_zero, List.getD_cons_succ]
      exact hX0 _ (by omega)
  have hn : legN es = [N 0, N 1, N 2] := rfl
  have hp1 : legP1 es = tab 3 (fun a => o a - legCe N c a * (1/2)) := by
    unfold legP1
    apply tab_congr
    intro a ha
    rw [horg a ha, hcell a ha]
  have hp2 : legP2 es = tab 3 (fun a => o a - legCe N c a * (1/2) + (N a : Rat) * legCe N c a) := by
    unfold legP2
    apply tab_congr
    intro a ha
    have ha' : a < 3 := ha
    rw [hp1, getD_tab _ _ _ _ ha', hcell a ha', hn]
    have : a = 0 ∨ a = 1 ∨ a = 2 := by omega
    rcases this with rfl | rfl | rfl <;> simp
  have hcepos : ∀ a, a < 3 → 0 < legCe N c a := by
    intro a ha
    unfold legCe
    split
    · exact hc a ha
    · exact nm1_pos
  have hmesh := meshOf_plain (legP1 es) (legP2 es) (legN es) (by simp [legP1, hes]) (by simp [legP2, hes]) rfl
    (by
      intro a ha
      rw [hp2, hp1, getD_tab _ _ _ _ ha, getD_tab _ _ _ _ ha]
      have h1 : (1 : Rat) ≤ (N a : Rat) := by exact_mod_cast hN a ha
      have := hcepos a ha
      nlinarith)
    (by
      intro k hk
      rw [hn] at hk
      simp only [List.mem_cons, List.mem_nil_iff, or_false] at hk
      rcases hk with rfl | rfl | rfl
      · have := hN 0 (by omega); omega
      · have := hN 1 (by omega); omega
      · have := hN 2 (by omega); omega)
  -- the data loop
  have hrow' : ∀ r ∈ rows, r.length = (if vec then 3 else 1) := hrow
  obtain ⟨res, hf1, hf2, hf3, _⟩ := fill_rows (if vec then 3 else 1) post (indicesF [N 0, N 1, N 2]) rows
    (NDA.const [N 0, N 1, N 2] (List.replicate (if vec then 3 else 1) 0)) (indicesF_nodup _)
    (by rw [hrows]; simp [indicesF]) hrow'
  refine ⟨{ mesh := { region := plainRegion (legP1 es) (legP2 es), n := [N 0, N 1, N 2], bc := "", subs := [] },
            nvdim := if vec then 3 else 1, data := res, valid := NDA.const [N 0, N 1, N 2] true,
            vdims := if vec then some ["x", "y", "z"] else none,
            vmap := defaultVmap (if vec then 3 else 1) ["x", "y", "z"] (if vec then some ["x", "y", "z"] else none),
            unit := none }, ?_, rfl, rfl, hp1, hp2, rfl, ?_⟩
  · unfold legacyRead
    rw [hce]
    simp only
    have hany : (es.any fun e => decide (e.2.length = 0)) = false := by
      rw [List.any_eq_false]
      intro e he
      simp only [hes, List.mem_cons, List.mem_nil_iff, or_false] at he
      rcases he with rfl | rfl | rfl <;> simp only [hXlen, decide_eq_true_eq]
      · have := hN 0 (by omega); omega
      · have := hN 1 (by omega); omega
      · have := hN 2 (by omega); omega
    rw [hany]
    simp only [Bool.false_eq_true, if_false]
    rw [hmesh, hn]
    simp only [loadSubs, hvec]
    rw [mkField_legacy _ vec rfl]
    simp only
    rw [hmark]
    simp only
    have hdrop : (((if vec then [] else [LLine.alpha]) ++ (rows.map LLine.nums ++ post)).drop (if vec then 0 else 1)) =
        rows.map LLine.nums ++ post := by
      cases vec <;> simp
    rw [hdrop, C01.indices_refines, hf1]
    rfl
  · intro idx hi
    constructor
    · have := hf3 (flatF [N 0, N 1, N 2] idx) (by
        have := flatF_lt _ _ hi
        simpa [indicesF] using this)
      rw [indicesF_getD _ _ hi] at this
      exact this
    · rfl

/-- cell `j` of axis `a` of a mesh with corners `o − ce/2`, `o − ce/2 + N·ce` is centred on `o + j·ce` -/
theorem legacy_centre (m : Mesh) (a : Nat) (N : Nat) (o ce : Rat) (hN : 1 ≤ N) (hn : m.nAt a = N)
    (hlo : m.region.lo a = o - ce * (1/2)) (hhi : m.region.hi a = o - ce * (1/2) + (N : Rat) * ce) (j : Nat) :
    m.centreAx a (j : Int) = o + (j : Rat) * ce := by
  unfold centreAx cellAt Region.edge
  rw [hn, hlo, hhi]
  have : (N : Rat) ≠ 0 := by exact_mod_cast (by omega : N ≠ 0)
  push_cast
  field_simp
  ring

end DFV.C16
