import DFV.Lemmas.C18QuarterObj
import DFV.Lemmas.C18LatComp
import DFV.Lemmas.C18AutoN
import DFV.Model.C18Ext
/-! C18: a SEQUENCE of `Field.rotate90` calls (C12's model `T.rotate90F`, about the centre,
copying form) in any planes equals FieldRotator's single rotation by the ordered product of the
quarter-turn matrices. -/
namespace DFV.C18
open DFV DFV.Mesh

/-- what the rotator lemmas need of a field (with its component order `ord`) -/
structure RotH (f : Fld) (ord : List Nat) : Prop where
  wf : WF f
  finv : T.FldInv f
  nd : f.mesh.region.ndim = 3
  len : ∀ idx, (f.data.get idx).length = f.nvdim
  ord : ordFor f = .ok ord
  key : ∀ x ∈ f.vmap, ∀ y ∈ f.vmap, x.1 = y.1 → x = y
  val : ∀ x ∈ f.vmap, ∀ y ∈ f.vmap, x.2 = y.2 → x = y

theorem rotVec_length (v : List Rat) (c1 c2 : Nat) (k : Int) : (T.rotVec v c1 c2 k).length = v.length := by
  unfold T.rotVec; simp

/-- an accepted `Field.rotate90` keeps everything the rotator needs -/
theorem RotH.step {f : Fld} {ord : List Nat} (h : RotH f ord) (a1 a2 : String) (k : Int) (x g : Fld)
    (hg : T.rotate90F f a1 a2 k none false = .ok (x, g)) : RotH g ord := by
  obtain ⟨y, m', i1, i2, hm', d1, d2, e1, e2, e3, e4, _, e6, e7, _⟩ := T.rotate90F_inv f a1 a2 k none false x g hg
  obtain ⟨_, hmi, hn, xr, hxr⟩ := T.stepM_keeps f.mesh h.finv.1 _ _ _ hm'
  obtain ⟨_, hnd, hdims, _⟩ := T.stepR_keeps f.mesh.region h.finv.1.1 _ _ _ hxr
  have hn' : m'.n = T.rotN f.mesh.n i1 i2 k := by rw [hn]; simp only [T.opN, d1, d2]
  have hshape : ∀ {α} (a : NDA α), a.shape = f.mesh.n → (T.rot90 a i1 i2 k).shape = m'.n := by
    intro α a ha
    rw [DFV.C13.rot90_shape, ha, hn']; rfl
  have hnd' : g.mesh.region.ndim = 3 := by rw [e1, hnd]; exact h.nd
  have hm3 : Mesh3 g.mesh := by
    intro a ha
    rw [e1]
    have hlt : a < m'.region.pmin.length := by
      have : m'.region.ndim = 3 := by rw [hnd]; exact h.nd
      unfold Region.ndim at this; omega
    exact ⟨hmi.1.2.2.2.2.2 a hlt, hmi.2.2 a hlt⟩
  refine ⟨⟨hm3, ?_⟩, ⟨e1 ▸ hmi, ?_, ?_⟩, hnd', ?_, ?_, by rw [e4]; exact h.key, by rw [e4]; exact h.val⟩
  · rw [e2, e3]; exact h.wf.2
  · rw [e1]
    rcases e7 with ⟨_, e⟩ | ⟨_, c1, c2, _, _, e⟩
    · rw [e]; exact hshape _ h.finv.2.1
    · rw [e]; exact hshape _ h.finv.2.1
  · rw [e1, e6]; exact hshape _ h.finv.2.2
  · intro idx
    rw [e2]
    rcases e7 with ⟨_, e⟩ | ⟨_, c1, c2, _, _, e⟩
    · rw [e, T.rot90_get]; exact h.len _
    · rw [e]
      simp only [NDA.map]
      rw [rotVec_length, T.rot90_get]; exact h.len _
  · have : ordFor g = ordFor f := by
      unfold ordFor ordAt rDimLast Fld.vdimIndex
      rw [e1, e2, e3, e4, hdims]
    rw [this]; exact h.ord

/-- `g` is `f` turned by the lattice rotation `P = (π, s)` about the centre: permuted counts,
permuted edges about the same centre, every cell the rotated value of one source cell -/
structure Tracks (f : Fld) (ord : List Nat) (P : M3) (π : Nat → Nat) (s : Nat → Rat) (g : Fld) : Prop where
  lat : IsLat P π s
  rot : P.IsRot
  n : ∀ i, i < 3 → g.mesh.nAt i = f.mesh.nAt (pinv π i)
  lo : ∀ i, i < 3 → g.mesh.region.lo i = centreAt f.mesh i - f.mesh.region.edge (pinv π i) / 2
  hi : ∀ i, i < 3 → g.mesh.region.hi i = centreAt f.mesh i + f.mesh.region.edge (pinv π i) / 2
  val : ∀ i0 i1 i2, i0 < f.mesh.nAt (pinv π 0) → i1 < f.mesh.nAt (pinv π 1) → i2 < f.mesh.nAt (pinv π 2) →
      g.data.get [i0, i1, i2] = rotVal f.nvdim P ord
        (f.data.get [latSrc f.mesh.nAt π s [i0, i1, i2] 0, latSrc f.mesh.nAt π s [i0, i1, i2] 1,
                     latSrc f.mesh.nAt π s [i0, i1, i2] 2])

theorem pinv_comp {A B : M3} {πA πB : Nat → Nat} {sA sB : Nat → Rat} (hA : IsLat A πA sA) (hB : IsLat B πB sB)
    (i : Nat) (hi : i < 3) : pinv (fun j => πA (πB j)) i = pinv πB (pinv πA i) := by
  have hC := hA.mul hB
  have hj : pinv πB (pinv πA i) < 3 := pinv_lt _ _
  have e : πA (πB (pinv πB (pinv πA i))) = i := by
    rw [pi_pinv hB _ (pinv_lt _ _), pi_pinv hA i hi]
  have := pinv_pi hC _ hj
  simp only [e] at this
  exact this

theorem getD3 (a b c : Nat) (i : Nat) (hi : i < 3) (F : Nat → Nat) (h0 : a = F 0) (h1 : b = F 1) (h2 : c = F 2) :
    [a, b, c].getD i 0 = F i := by
  have : i = 0 ∨ i = 1 ∨ i = 2 := by omega
  rcases this with e | e | e <;> subst e <;> simp [h0, h1, h2]

/-- the source index of the composed lattice rotation is the source of the source -/
theorem latSrc_comp {A B : M3} {πA πB : Nat → Nat} {sA sB : Nat → Rat} (hA : IsLat A πA sA) (hB : IsLat B πB sB)
    (nF : Nat → Nat) (idx : List Nat)
    (hidx : ∀ i, i < 3 → idx.getD i 0 < nF (pinv (fun j => πA (πB j)) i)) (j : Nat) (hj : j < 3) :
    latSrc nF πB sB [latSrc (fun i => nF (pinv πB i)) πA sA idx 0, latSrc (fun i => nF (pinv πB i)) πA sA idx 1,
                     latSrc (fun i => nF (pinv πB i)) πA sA idx 2] j
      = latSrc nF (fun j => πA (πB j)) (fun j => sB j * sA (πB j)) idx j := by
  have hC := hA.mul hB
  have hb := hB.lt j hj
  have hx := hidx _ (hC.lt j hj)
  rw [pinv_pi hC j hj] at hx
  have hx' : idx.getD (πA (πB j)) 0 < nF j := hx
  unfold latSrc
  rw [getD3 _ _ _ (πB j) hb (fun i => if sA i = 1 then idx.getD (πA i) 0 else nF (pinv πB i) - 1 - idx.getD (πA i) 0) rfl rfl rfl]
  simp only
  rw [pinv_pi hB j hj]
  rw [List.getD_eq_getElem?_getD] at hx'
  rcases hB.sign j hj with e1 | e1 <;> rcases hA.sign _ hb with e2 | e2 <;> rw [e1, e2] <;> norm_num
  omega

/-- lattice rotations copy cells (the lemma behind `rot_lattice_copies_cells`) -/
theorem lat_copies (f : Fld) (hf : WF f) (hlen : ∀ idx, (f.data.get idx).length = f.nvdim)
    {R : M3} {π : Nat → Nat} {s : Nat → Rat} (hL : IsLat R π s) (g : Fld) (h : rotateOnce f R none = .ok g) :
    g.mesh.n = (tab 3 fun i => f.mesh.nAt (pinv π i)) ∧
    (∀ i, i < 3 → g.mesh.region.lo i = centreAt f.mesh i - f.mesh.region.edge (pinv π i) / 2 ∧
                  g.mesh.region.hi i = centreAt f.mesh i + f.mesh.region.edge (pinv π i) / 2) ∧
    ∃ ord, ordFor f = .ok ord ∧ ∀ idx, (∀ i, i < 3 → idx.getD i 0 < f.mesh.nAt (pinv π i)) →
      g.data.get idx = rotVal f.nvdim R ord
        (f.data.get [latSrc f.mesh.nAt π s idx 0, latSrc f.mesh.nAt π s idx 1, latSrc f.mesh.nAt π s idx 2]) := by
  have h' : rotateOnce f R (some (tab 3 fun i => f.mesh.nAt (pinv π i))) = .ok g := by
    rw [← lat_rotateOnce_none f hf.1 hL]; exact h
  obtain ⟨reg, nm, ord, hreg, hmk, ho, hg⟩ := rotateOnce_ok_inv f R _ g h'
  obtain ⟨e1, e2, _, _, _⟩ := mkN?_ok_inv reg _ nm hmk
  simp only [Option.getD_some] at e2
  obtain ⟨ord', ho', hv⟩ := lat_values f hf hlen hL _ rfl g h'
  refine ⟨by rw [hg]; exact e2, ?_, ord', ho', ?_⟩
  · intro i hi
    have := lat_region f hf.1 hL reg hreg i hi
    rw [hg]; show nm.region.lo i = _ ∧ nm.region.hi i = _
    rw [e1]; exact this
  · intro idx hidx
    apply hv idx
    intro i hi
    rw [getD_tab _ _ _ _ hi]; exact hidx i hi

/-- the start: every field tracks itself under the identity -/
theorem Tracks.refl {f : Fld} {ord : List Nat} (h : RotH f ord) : Tracks f ord M3.one (fun j => j) (fun _ => 1) f := by
  refine ⟨one_isLat, M3.isRot_one, fun i hi => by rw [pinv_id i hi], ?_, ?_, ?_⟩
  · intro i hi; rw [pinv_id i hi]; unfold centreAt Region.edge; ring
  · intro i hi; rw [pinv_id i hi]; unfold centreAt Region.edge; ring
  · intro i0 i1 i2 _ _ _
    have hsrc : ∀ a, latSrc f.mesh.nAt (fun j => j) (fun _ => 1) [i0, i1, i2] a = [i0, i1, i2].getD a 0 := by
      intro a; unfold latSrc; rw [if_pos rfl]
    rw [hsrc 0, hsrc 1, hsrc 2]
    simp only [List.getD_cons_zero, List.getD_cons_succ]
    rcases h.wf.2 with h1 | ⟨h3, hl⟩
    · unfold rotVal; rw [if_pos h1]
    · rw [h3]
      have hd := dims3_distinct _ (by rw [h.finv.1.1.2.2.1]; exact h.nd) h.finv.1.1.2.2.2.2.1
      exact (rotVal_one (ordFor_perm f ord h.ord h3 hl hd h.key) _ (by rw [h.len, h3])).symm

/-- **one more `Field.rotate90`**: if `g'` is `f` turned by the lattice rotation `P` and C12's model
turns `g'` by `l` quarter turns in the plane of its axes `b1, b2`, the result is `f` turned by
`Rq p' q' l · P` -/
theorem Tracks.step {f g' : Fld} {ord : List Nat} {P : M3} {π : Nat → Nat} {s : Nat → Rat}
    (hf : RotH f ord) (hg : RotH g' ord) (hv : g'.nvdim = f.nvdim) (ht : Tracks f ord P π s g')
    (b1 b2 : String) (l : Int) (x g'' : Fld) (h : T.rotate90F g' b1 b2 l none false = .ok (x, g'')) :
    ∃ p q, p < 3 ∧ q < 3 ∧ p ≠ q ∧ g'.mesh.region.dim2index b1 = .ok p ∧ g'.mesh.region.dim2index b2 = .ok q ∧
      Tracks f ord ((Rq p q l).mul P) (fun j => piq p q l (π j)) (fun j => s j * sgq p q l (π j)) g'' := by
  obtain ⟨p, q, g2, hp, hq, hpq, d1, d2, _, hro, hreg2, hn2, hval2⟩ :=
    quarter_matches_rotate90F g' hg.wf hg.finv hg.nd hg.len ord hg.ord hg.key hg.val b1 b2 l x g'' h
  have hA := Rq_isLat p q l hp hq hpq
  have hC := hA.mul ht.lat
  obtain ⟨c1, c2, ord', ho', c3⟩ := lat_copies g' hg.wf hg.len hA g2 hro
  rw [hg.ord] at ho'
  injection ho' with ho'
  subst ho'
  have hnAt : ∀ i, i < 3 → g''.mesh.nAt i = f.mesh.nAt (pinv (fun j => piq p q l (π j)) i) := by
    intro i hi
    have e : g''.mesh.nAt i = g2.mesh.nAt i := by unfold Mesh.nAt; rw [hn2]
    have e2 : g2.mesh.nAt i = g'.mesh.nAt (pinv (piq p q l) i) := by
      show g2.mesh.n.getD i 0 = _
      rw [c1, getD_tab _ _ _ _ hi]
    rw [e, e2, ht.n _ (pinv_lt _ _), pinv_comp hA ht.lat i hi]
  have hcen : ∀ i, i < 3 → centreAt g'.mesh i = centreAt f.mesh i := by
    intro i hi
    show (g'.mesh.region.lo i + g'.mesh.region.hi i) / 2 = _
    rw [ht.lo i hi, ht.hi i hi]; ring
  have hedge : ∀ i, i < 3 → g'.mesh.region.edge i = f.mesh.region.edge (pinv π i) := by
    intro i hi
    show g'.mesh.region.hi i - g'.mesh.region.lo i = _
    rw [ht.lo i hi, ht.hi i hi]; ring
  refine ⟨p, q, hp, hq, hpq, d1, d2, hC, (Rq_isRot p q l hp hq hpq).mul ht.rot, hnAt, ?_, ?_, ?_⟩
  · intro i hi
    rw [← (hreg2 i hi).1, (c2 i hi).1, hcen i hi, hedge _ (pinv_lt _ _), pinv_comp hA ht.lat i hi]
  · intro i hi
    rw [← (hreg2 i hi).2, (c2 i hi).2, hcen i hi, hedge _ (pinv_lt _ _), pinv_comp hA ht.lat i hi]
  · intro i0 i1 i2 h0 h1 h2
    have hidxC : ∀ i, i < 3 → [i0, i1, i2].getD i 0 < f.mesh.nAt (pinv (fun j => piq p q l (π j)) i) := by
      intro i hi
      have : i = 0 ∨ i = 1 ∨ i = 2 := by omega
      rcases this with e | e | e <;> subst e <;> assumption
    have hidxA : ∀ i, i < 3 → [i0, i1, i2].getD i 0 < g'.mesh.nAt (pinv (piq p q l) i) := by
      intro i hi
      rw [ht.n _ (pinv_lt _ _), ← pinv_comp hA ht.lat i hi]
      exact hidxC i hi
    have hv2 := hval2 i0 i1 i2 (by rw [hnAt 0 (by omega)]; exact h0) (by rw [hnAt 1 (by omega)]; exact h1)
      (by rw [hnAt 2 (by omega)]; exact h2)
    rw [← hv2, c3 _ hidxA, hv]
    -- the source cell in g' is a valid cell: use what g' tracks
    have hsrcA : ∀ j, j < 3 → latSrc g'.mesh.nAt (piq p q l) (sgq p q l) [i0, i1, i2] j < f.mesh.nAt (pinv π j) := by
      intro j hj
      rw [← ht.n j hj]
      apply latSrc_lt
      have := hidxA _ (hA.lt j hj)
      rwa [pinv_pi hA j hj] at this
    rw [ht.val _ _ _ (hsrcA 0 (by omega)) (hsrcA 1 (by omega)) (hsrcA 2 (by omega))]
    have hnfun : g'.mesh.nAt = fun i => g'.mesh.nAt i := rfl
    have hsame : ∀ j, j < 3 → latSrc g'.mesh.nAt (piq p q l) (sgq p q l) [i0, i1, i2] j
        = latSrc (fun i => f.mesh.nAt (pinv π i)) (piq p q l) (sgq p q l) [i0, i1, i2] j := by
      intro j hj
      unfold latSrc
      rw [ht.n j hj]
    rw [hsame 0 (by omega), hsame 1 (by omega), hsame 2 (by omega),
      latSrc_comp hA ht.lat f.mesh.nAt [i0, i1, i2] hidxC 0 (by omega),
      latSrc_comp hA ht.lat f.mesh.nAt [i0, i1, i2] hidxC 1 (by omega),
      latSrc_comp hA ht.lat f.mesh.nAt [i0, i1, i2] hidxC 2 (by omega)]
    rcases hf.wf.2 with h1' | ⟨h3, hl⟩
    · unfold rotVal; rw [if_pos h1', if_pos h1', if_pos h1']
    · rw [h3]
      have hd := dims3_distinct _ (by rw [hf.finv.1.1.2.2.1]; exact hf.nd) hf.finv.1.1.2.2.2.2.1
      exact (rotVal_mul _ _ (ordFor_perm f ord hf.ord h3 hl hd hf.key) _).symm

theorem rotate90F_keeps_names (f : Fld) (hm : f.mesh.Inv) (a1 a2 : String) (k : Int) (x g : Fld)
    (hg : T.rotate90F f a1 a2 k none false = .ok (x, g)) :
    g.mesh.region.dims = f.mesh.region.dims ∧ g.nvdim = f.nvdim := by
  obtain ⟨y, m', i1, i2, hm', _, _, e1, e2, _⟩ := T.rotate90F_inv f a1 a2 k none false x g hg
  obtain ⟨_, _, _, xr, hxr⟩ := T.stepM_keeps f.mesh hm _ _ _ hm'
  obtain ⟨_, _, hdims, _⟩ := T.stepR_keeps f.mesh.region hm.1 _ _ _ hxr
  exact ⟨by rw [e1, hdims], e2⟩

theorem prodL_cons_mul (Q : M3) (Qs : List M3) (P : M3) : (prodL (Q :: Qs)).mul P = (prodL Qs).mul (Q.mul P) := by
  simp only [prodL]; rw [M3.mul_assoc]

/-- **any sequence of `Field.rotate90` calls tracks the ordered product** (induction over the
sequence; `g'` is any field already known to be `f` turned by `P`) -/
theorem turns_tracks (f : Fld) (ord : List Nat) (hf : RotH f ord) (seq : List (String × String × Int)) :
    ∀ (g' : Fld) (P : M3) (π : Nat → Nat) (s : Nat → Rat), RotH g' ord → g'.nvdim = f.nvdim →
      g'.mesh.region.dims = f.mesh.region.dims → Tracks f ord P π s g' → ∀ g'', turns g' seq = some g'' →
      ∃ π' s', Tracks f ord ((prodL (turnsM f seq)).mul P) π' s' g'' ∧ RotH g'' ord := by
  induction seq with
  | nil =>
    intro g' P π s hg _ _ ht g'' h
    simp only [turns, Option.some.injEq] at h
    subst h
    exact ⟨π, s, by simp only [turnsM, List.map_nil, prodL]; rw [M3.one_mul]; exact ht, hg⟩
  | cons t rest ih =>
    obtain ⟨a1, a2, k⟩ := t
    intro g' P π s hg hv hd ht g'' h
    simp only [turns] at h
    cases hstep : T.rotate90F g' a1 a2 k none false with
    | error e => rw [hstep] at h; cases h
    | ok r =>
      obtain ⟨x, g1⟩ := r
      rw [hstep] at h
      simp only at h
      obtain ⟨p, q, _, _, _, d1, d2, ht1⟩ := ht.step hf hg hv a1 a2 k x g1 hstep
      obtain ⟨hd1, hv1⟩ := rotate90F_keeps_names g' hg.finv.1 a1 a2 k x g1 hstep
      have e1 : axIdx f a1 = p := by unfold axIdx Region.dim2index at *; rw [← hd]; rw [d1]
      have e2 : axIdx f a2 = q := by unfold axIdx Region.dim2index at *; rw [← hd]; rw [d2]
      obtain ⟨π', s', ht2, hg2⟩ := ih g1 _ _ _ (hg.step a1 a2 k x g1 hstep) (by rw [hv1, hv]) (by rw [hd1, hd]) ht1 g'' h
      refine ⟨π', s', ?_, hg2⟩
      have : turnsM f ((a1, a2, k) :: rest) = Rq p q k :: turnsM f rest := by
        simp only [turnsM, List.map_cons, e1, e2]
      rw [this, prodL_cons_mul]
      exact ht2

/-- **a sequence of `Field.rotate90` calls IS one FieldRotator rotation.** -/
theorem turns_match_rotator (f : Fld) (ord : List Nat) (hf : RotH f ord) (seq : List (String × String × Int)) (g' : Fld)
    (h : turns f seq = some g') :
    (prodL (turnsM f seq)).IsRot ∧ LatM (prodL (turnsM f seq)) ∧
    ∃ g, rotateOnce f (prodL (turnsM f seq)) none = .ok g ∧
      (∀ a, a < 3 → g.mesh.region.lo a = g'.mesh.region.lo a ∧ g.mesh.region.hi a = g'.mesh.region.hi a) ∧
      g.mesh.n = g'.mesh.n ∧
      ∀ i0 i1 i2, i0 < g'.mesh.nAt 0 → i1 < g'.mesh.nAt 1 → i2 < g'.mesh.nAt 2 →
        g.data.get [i0, i1, i2] = g'.data.get [i0, i1, i2] := by
  obtain ⟨π, s, ht, hg⟩ := turns_tracks f ord hf seq f M3.one _ _ hf rfl rfl (Tracks.refl hf) g' h
  rw [M3.mul_one] at ht
  have hacc := rotateOnce_accepts f hf.wf.1 ht.rot ord hf.ord none (fun n e => by cases e)
  refine ⟨ht.rot, ⟨π, s, ht.lat⟩, _, hacc, ?_⟩
  obtain ⟨c1, c2, ord', ho', c3⟩ := lat_copies f hf.wf hf.len ht.lat _ hacc
  rw [hf.ord] at ho'
  injection ho' with ho'
  subst ho'
  have hl3 : g'.mesh.n.length = 3 := by rw [hg.finv.1.2.1]; exact hg.nd
  refine ⟨?_, ?_, ?_⟩
  · intro a ha
    rw [(c2 a ha).1, (c2 a ha).2, ht.lo a ha, ht.hi a ha]
    exact ⟨rfl, rfl⟩
  · rw [c1]
    symm
    apply eq_tab_of_getD _ _ _ 0 hl3
    intro i hi
    exact ht.n i hi
  · intro i0 i1 i2 h0 h1 h2
    rw [ht.n 0 (by omega)] at h0
    rw [ht.n 1 (by omega)] at h1
    rw [ht.n 2 (by omega)] at h2
    have hidx : ∀ i, i < 3 → [i0, i1, i2].getD i 0 < f.mesh.nAt (pinv π i) := by
      intro i hi
      have : i = 0 ∨ i = 1 ∨ i = 2 := by omega
      rcases this with e | e | e <;> subst e <;> assumption
    rw [c3 _ hidx, ht.val i0 i1 i2 h0 h1 h2]

end DFV.C18
