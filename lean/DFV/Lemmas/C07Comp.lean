import DFV.Lemmas.C07Wf
/-! Helpers for the composition laws of C07. -/
namespace DFV.C07
open DFV DFV.Mesh

theorem list_ext_getD {α} (l1 l2 : List α) (d : α) (hl : l1.length = l2.length)
    (h : ∀ a, a < l1.length → l1.getD a d = l2.getD a d) : l1 = l2 := by
  rw [eq_tab_of_getD l1 l1.length (fun a => l1.getD a d) d rfl (fun _ _ => rfl)]
  exact (eq_tab_of_getD l2 l1.length (fun a => l1.getD a d) d hl.symm (fun a ha => (h a ha).symm)).symm

theorem region_ext (r s : Region) (h1 : s.pmin.length = r.pmin.length) (h2 : r.pmax.length = r.pmin.length)
    (h3 : s.pmax.length = r.pmin.length)
    (hlo : ∀ a, a < r.pmin.length → s.lo a = r.lo a) (hhi : ∀ a, a < r.pmin.length → s.hi a = r.hi a)
    (hd : s.dims = r.dims) (hu : s.units = r.units) (ht : s.tol = r.tol) : s = r := by
  obtain ⟨rp1, rp2, rd, ru, rt⟩ := r
  obtain ⟨sp1, sp2, sd, su, st⟩ := s
  dsimp only at h1 h2 h3 hd hu ht hlo hhi
  simp only [Region.mk.injEq]
  refine ⟨?_, ?_, hd, hu, ht⟩
  · exact list_ext_getD _ _ 0 h1 (fun a ha => hlo a (by omega))
  · exact list_ext_getD _ _ 0 (by omega) (fun a ha => hhi a (by omega))

/-- an aligned sub-box is a box inside the region -/
theorem boxIn_of_aligned (m : Mesh) (hm : m.Inv) (item : Region) (k1 k2 : Nat → Nat)
    (hal : SubAligned m item k1 k2) : BoxIn m item := by
  refine ⟨hal.1, ?_⟩
  intro a ha
  obtain ⟨t1, t2, t3, t4⟩ := hal.2.2 a ha
  have hc := inv_cell_pos hm ha
  have h12 : (k1 a : Rat) < (k2 a : Rat) := by exact_mod_cast t1
  have h2n : (k2 a : Rat) ≤ (m.nAt a : Rat) := by exact_mod_cast t2
  have h0 : (0 : Rat) ≤ (k1 a : Rat) := by exact_mod_cast Nat.zero_le _
  rw [t3, t4, hi_eq m a (inv_n_pos hm ha)]
  refine ⟨by nlinarith, by nlinarith, by nlinarith⟩

theorem blockLo_aligned (m : Mesh) (hm : m.Inv) (item : Region) (k1 k2 : Nat → Nat)
    (hal : SubAligned m item k1 k2) (a : Nat) (ha : a < m.ndim) : blockLo m item a = k1 a := by
  obtain ⟨t1, t2, t3, t4⟩ := hal.2.2 a ha
  have hc := inv_cell_pos hm ha
  unfold blockLo
  apply indexAx_eq_of_bounds m a _ (k1 a) (by omega) hc
  · rw [t3]
  · rw [t3]; nlinarith

/-- Source cell of a target cell when two meshes share an edge `[lo, hi]` along axis `a`: the
centre of target cell `j` lies in source cell `⌊(2j+1)·n / (2·n')⌋` (`n`, `n'` the cell counts of
source and target). -/
theorem resample_index (src tgt : Mesh) (a : Nat) (hs : 0 < src.nAt a) (ht : 0 < tgt.nAt a)
    (hlo : tgt.region.lo a = src.region.lo a) (hhi : tgt.region.hi a = src.region.hi a)
    (hlt : src.region.lo a < src.region.hi a) (j : Nat) (hj : j < tgt.nAt a) :
    src.indexAx a (tgt.centreAx a ((j : Nat) : Int)) = ((2 * j + 1) * src.nAt a) / (2 * tgt.nAt a) := by
  have hc := cell_pos src a hs hlt
  have hcs := cover src a hs
  have hct := cover tgt a ht
  rw [hlo, hhi] at hct
  have hE : (tgt.nAt a : Rat) * tgt.cellAt a = (src.nAt a : Rat) * src.cellAt a := by rw [hct, hcs]
  have hn' : (0 : Rat) < (tgt.nAt a : Rat) := by exact_mod_cast ht
  set k := ((2 * j + 1) * src.nAt a) / (2 * tgt.nAt a) with hk
  have hQ : 0 < 2 * tgt.nAt a := by omega
  have h1 : k * (2 * tgt.nAt a) ≤ (2 * j + 1) * src.nAt a := Nat.div_mul_le_self _ _
  have h2 : (2 * j + 1) * src.nAt a < (k + 1) * (2 * tgt.nAt a) := by
    have := Nat.lt_mul_div_succ ((2 * j + 1) * src.nAt a) hQ
    rw [← hk] at this
    calc (2 * j + 1) * src.nAt a < 2 * tgt.nAt a * (k + 1) := this
      _ = (k + 1) * (2 * tgt.nAt a) := Nat.mul_comm _ _
  have h1r : (k : Rat) * (2 * (tgt.nAt a : Rat)) ≤ (2 * (j : Rat) + 1) * (src.nAt a : Rat) := by exact_mod_cast h1
  have h2r : (2 * (j : Rat) + 1) * (src.nAt a : Rat) < ((k : Rat) + 1) * (2 * (tgt.nAt a : Rat)) := by exact_mod_cast h2
  have hkn : k < src.nAt a := by
    rw [hk, Nat.div_lt_iff_lt_mul hQ]
    calc (2 * j + 1) * src.nAt a < (2 * tgt.nAt a) * src.nAt a := Nat.mul_lt_mul_of_pos_right (by omega) hs
      _ = src.nAt a * (2 * tgt.nAt a) := Nat.mul_comm _ _
  apply indexAx_eq_of_bounds src a _ k hkn hc
  · rw [centreAx_cast, hlo]
    have key : (2 * (tgt.nAt a : Rat)) * ((k : Rat) * src.cellAt a)
        ≤ (2 * (tgt.nAt a : Rat)) * (((j : Rat) + 1 / 2) * tgt.cellAt a) := by
      calc (2 * (tgt.nAt a : Rat)) * ((k : Rat) * src.cellAt a)
          = ((k : Rat) * (2 * (tgt.nAt a : Rat))) * src.cellAt a := by ring
        _ ≤ ((2 * (j : Rat) + 1) * (src.nAt a : Rat)) * src.cellAt a := mul_le_mul_of_nonneg_right h1r hc.le
        _ = (2 * (j : Rat) + 1) * ((src.nAt a : Rat) * src.cellAt a) := by ring
        _ = (2 * (j : Rat) + 1) * ((tgt.nAt a : Rat) * tgt.cellAt a) := by rw [hE]
        _ = (2 * (tgt.nAt a : Rat)) * (((j : Rat) + 1 / 2) * tgt.cellAt a) := by ring
    have := le_of_mul_le_mul_left key (by linarith)
    linarith
  · rw [centreAx_cast, hlo]
    have key : (2 * (tgt.nAt a : Rat)) * (((j : Rat) + 1 / 2) * tgt.cellAt a)
        < (2 * (tgt.nAt a : Rat)) * (((k : Rat) + 1) * src.cellAt a) := by
      calc (2 * (tgt.nAt a : Rat)) * (((j : Rat) + 1 / 2) * tgt.cellAt a)
          = (2 * (j : Rat) + 1) * ((tgt.nAt a : Rat) * tgt.cellAt a) := by ring
        _ = (2 * (j : Rat) + 1) * ((src.nAt a : Rat) * src.cellAt a) := by rw [hE]
        _ = ((2 * (j : Rat) + 1) * (src.nAt a : Rat)) * src.cellAt a := by ring
        _ < (((k : Rat) + 1) * (2 * (tgt.nAt a : Rat))) * src.cellAt a := mul_lt_mul_of_pos_right h2r hc
        _ = (2 * (tgt.nAt a : Rat)) * (((k : Rat) + 1) * src.cellAt a) := by ring
    have := lt_of_mul_lt_mul_left key (by linarith)
    linarith

theorem refine_div (j n r : Nat) (hr : 0 < r) (hn : 0 < n) : ((2 * j + 1) * n) / (2 * (r * n)) = j / r := by
  have h1 : 2 * (r * n) = n * (2 * r) := by ring
  rw [h1, Nat.mul_comm (2 * j + 1) n, Nat.mul_div_mul_left _ _ hn]
  -- (2j+1)/(2r) = j / r
  have hj := Nat.div_add_mod j r
  have hm := Nat.mod_lt j hr
  apply Nat.div_eq_of_lt_le
  · calc j / r * (2 * r) = 2 * (r * (j / r)) := by ring
      _ ≤ 2 * j + 1 := by omega
  · calc 2 * j + 1 < 2 * (r * (j / r) + r) := by omega
      _ = (j / r + 1) * (2 * r) := by ring

theorem coarsen_div (j n r : Nat) (hn : 0 < n) : ((2 * j + 1) * (r * n)) / (2 * n) = r * j + r / 2 := by
  have h1 : (2 * j + 1) * (r * n) = n * ((2 * j + 1) * r) := by ring
  rw [h1, Nat.mul_comm 2 n, Nat.mul_div_mul_left _ _ hn]
  have h2 : (2 * j + 1) * r = r + 2 * (r * j) := by ring
  rw [h2, Nat.add_mul_div_left _ _ (by omega : 0 < 2)]
  omega

theorem inRange_of_getD (ns is : List Nat) (hl : ns.length = is.length)
    (h : ∀ b, b < ns.length → is.getD b 0 < ns.getD b 0) : inRange ns is = true := by
  induction ns generalizing is with
  | nil =>
    cases is with
    | nil => rfl
    | cons i is => simp at hl
  | cons n ns ih =>
    cases is with
    | nil => simp at hl
    | cons i is =>
      rw [inRange_cons]
      have h0 := h 0 (by simp)
      simp only [List.getD_cons_zero] at h0
      refine ⟨h0, ?_⟩
      apply ih is (by simpa using hl)
      intro b hb
      have := h (b + 1) (by simp; omega)
      simpa using this

theorem setAt_setAt {α} (l : List α) (a : Nat) (u v : α) : setAt (setAt l a u) a v = setAt l a v := by
  induction l generalizing a with
  | nil => simp [setAt]
  | cons y ys ih =>
    cases a with
    | zero => simp [setAt]
    | succ a => simp [setAt, ih]

/-- index of a coordinate in a block of whole cells against its index in the source: they differ
by the block's offset — for every coordinate of the block's closed edge except its upper end,
which the block attributes to its last cell while the source attributes the face to the next cell
(unless the block ends at the source's boundary) -/
theorem indexAx_block {g m : Mesh} {b off cnt : Nat} (blk : AxisBlock g m b b off cnt) (hcnt : 0 < cnt)
    (hc : 0 < m.cellAt b) (z : Rat) (h1 : g.region.lo b ≤ z) (h2 : z ≤ g.region.hi b)
    (hup : z < g.region.hi b ∨ g.region.hi b = m.region.hi b) :
    m.indexAx b z = off + g.indexAx b z := by
  have hgn : 0 < g.nAt b := by rw [blk.n]; exact hcnt
  have hghi := block_hi blk hcnt
  have hglt : g.region.lo b < g.region.hi b := by
    rw [hghi, blk.lo]
    have : (0 : Rat) < (cnt : Rat) := by exact_mod_cast hcnt
    nlinarith
  have hi := indexAx_lt g b z hgn
  rw [blk.n] at hi
  have hfit := blk.fits
  obtain ⟨c1, c2⟩ := index_contains g b z hgn hglt h1 h2
  rw [blk.lo, blk.cell] at c1 c2
  have hmn : 0 < m.nAt b := by omega
  by_cases hz : z < g.region.hi b
  · have c2' : z < m.region.lo b + (off : Rat) * m.cellAt b + ((g.indexAx b z : Rat) + 1) * m.cellAt b := by
      rcases c2 with c2 | ⟨_, c3⟩
      · exact c2
      · rw [c3] at hz; exact absurd hz (lt_irrefl _)
    apply indexAx_eq_of_bounds m b z (off + g.indexAx b z) (by omega) hc
    · push_cast; linarith
    · push_cast; linarith
  · have hzeq : z = g.region.hi b := le_antisymm h2 (not_lt.mp hz)
    have hgm : g.region.hi b = m.region.hi b := by
      rcases hup with h | h
      · exact absurd h hz
      · exact h
    have hfull : off + cnt = m.nAt b := by
      have e1 := hi_eq m b hmn
      rw [← hgm, hghi] at e1
      have : ((off : Rat) + (cnt : Rat)) * m.cellAt b = (m.nAt b : Rat) * m.cellAt b := by linarith
      have := mul_right_cancel₀ hc.ne' this
      exact_mod_cast this
    rw [hzeq, hgm, indexAx_hi m b hmn hc, ← hgm]
    have : g.indexAx b (g.region.hi b) = g.nAt b - 1 :=
      indexAx_hi g b hgn (by rw [blk.cell]; exact hc)
    rw [this, blk.n]; omega

/-- `Region(p1, p2)` with default names and units -/
theorem regionMk_none_inv (p1 p2 : List Rat) (tol : Rat) (r : Region)
    (h : Region.mk? p1 p2 none none tol = .ok r) :
    p1.length = p2.length ∧ 0 < p1.length ∧
    r.pmin = tab p1.length (fun a => min (p1.getD a 0) (p2.getD a 0)) ∧
    r.pmax = tab p1.length (fun a => max (p1.getD a 0) (p2.getD a 0)) := by
  unfold Region.mk? at h
  by_cases h1 : p1.length ≠ p2.length
  · rw [if_pos h1] at h; cases h
  rw [if_neg h1] at h
  by_cases h2 : p1.length = 0
  · rw [if_pos h2] at h; cases h
  rw [if_neg h2] at h
  simp only [Region.dimsOk, Region.unitsOk] at h
  split at h
  · cases h
  · injection h with h
    subst h
    exact ⟨by omega, by omega, rfl, rfl⟩

/-- the loop of `Mesh.sel` over the subregions for a plane selection: the result lists, in
order, the subregions whose extent along the axis contains the plane's coordinate, each rebuilt
by `Region(p1, p2)` from its corners without the axis -/
theorem planeSubs_spec (a : Nat) (c : Rat) (subs l : List (String × Region))
    (h : planeSubs a c subs = .ok l) :
    List.Forall₂ (fun q p => q.1 = p.1 ∧
        Region.mk? (removeAt p.2.pmin a) (removeAt p.2.pmax a) none none = .ok q.2)
      l (subs.filter fun p => decide (p.2.lo a ≤ c ∧ c ≤ p.2.hi a)) := by
  induction subs generalizing l with
  | nil =>
    unfold planeSubs at h
    injection h with h; subst h
    exact List.Forall₂.nil
  | cons p rest ih =>
    unfold planeSubs at h
    split at h
    · rename_i hdrop
      have : decide (p.2.lo a ≤ c ∧ c ≤ p.2.hi a) = false := by
        rw [decide_eq_false_iff_not]
        rintro ⟨h1, h2⟩
        rcases hdrop with hd | hd <;> linarith
      rw [List.filter_cons_of_neg (by rw [this]; simp)]
      exact ih l h
    · rename_i hkeep
      have : decide (p.2.lo a ≤ c ∧ c ≤ p.2.hi a) = true := by
        rw [decide_eq_true_iff]
        constructor
        · by_contra hc; exact hkeep (Or.inr (lt_of_not_ge hc))
        · by_contra hc; exact hkeep (Or.inl (lt_of_not_ge hc))
      rw [List.filter_cons_of_pos (by exact this)]
      split at h
      · cases h
      · rename_i r hr
        split at h
        · cases h
        · rename_i l' hl'
          injection h with h; subst h
          exact List.Forall₂.cons ⟨rfl, hr⟩ (ih l' hl')

/-- the same loop for a range selection with faces `lo`, `hi`: kept are the subregions
overlapping the slab by more than `step` (half a cell), each rebuilt from its corners clipped to
the slab along the axis -/
theorem rangeSubs_spec (a : Nat) (lo hi step : Rat) (subs l : List (String × Region))
    (h : rangeSubs a lo hi step subs = .ok l) :
    List.Forall₂ (fun q p => q.1 = p.1 ∧
        Region.mk? (setAt p.2.pmin a (max lo (p.2.lo a))) (setAt p.2.pmax a (min hi (p.2.hi a)))
          none none = .ok q.2)
      l (subs.filter fun p => decide (p.2.lo a < hi - step ∧ lo < p.2.hi a - step)) := by
  induction subs generalizing l with
  | nil =>
    unfold rangeSubs at h
    injection h with h; subst h
    exact List.Forall₂.nil
  | cons p rest ih =>
    unfold rangeSubs at h
    split at h
    · rename_i hdrop
      have : decide (p.2.lo a < hi - step ∧ lo < p.2.hi a - step) = false := by
        rw [decide_eq_false_iff_not]
        rintro ⟨h1, h2⟩
        rcases hdrop with hd | hd <;> linarith
      rw [List.filter_cons_of_neg (by rw [this]; simp)]
      exact ih l h
    · rename_i hkeep
      have : decide (p.2.lo a < hi - step ∧ lo < p.2.hi a - step) = true := by
        rw [decide_eq_true_iff]
        constructor
        · by_contra hc; exact hkeep (Or.inl (le_of_not_gt hc))
        · by_contra hc; exact hkeep (Or.inr (le_of_not_gt hc))
      rw [List.filter_cons_of_pos (by exact this)]
      split at h
      · cases h
      · rename_i r hr
        split at h
        · cases h
        · rename_i l' hl'
          injection h with h; subst h
          exact List.Forall₂.cons ⟨rfl, hr⟩ (ih l' hl')

theorem forall2_imp_mem {α β} {R S : α → β → Prop} {l : List α} {u : List β}
    (h : List.Forall₂ R l u) (hi : ∀ q p, p ∈ u → R q p → S q p) : List.Forall₂ S l u := by
  induction h with
  | nil => exact List.Forall₂.nil
  | cons hr _ ih =>
    exact List.Forall₂.cons (hi _ _ (List.mem_cons_self ..) hr)
      (ih (fun q p hp => hi q p (List.mem_cons_of_mem _ hp)))

/-- the subregions stored in a well-formed mesh: boxes of the mesh's dimension with ordered corners -/
def SubsWF (m : Mesh) : Prop :=
  ∀ p, p ∈ m.subs → p.2.pmin.length = m.ndim ∧ p.2.pmax.length = m.ndim ∧
    ∀ b, b < m.ndim → p.2.lo b ≤ p.2.hi b

theorem getMesh_bare (m : Mesh) (item : Item) (g : Mesh) (h : getMesh m item = .ok g) :
    g.subs = [] ∧ g.bc = "" := by
  cases item with
  | name s =>
    have h' : getName m s = .ok g := h
    unfold getName at h'
    split at h'
    · cases h'
    · obtain ⟨_, _, g3, g4, _⟩ := mkCell_inv _ _ _ _ h'
      exact ⟨g3, by rw [g4]; simp [String.toLower]⟩
  | region r =>
    have h' : getRegion m r = .ok g := h
    unfold getRegion at h'
    split at h'
    · cases h'
    · split at h'
      · cases h'
      · split at h'
        · cases h'
        · split at h'
          · cases h'
          · split at h'
            · cases h'
            · obtain ⟨_, _, g3, g4, _⟩ := mkCell_inv _ _ _ _ h'
              exact ⟨g3, by rw [g4]; simp [String.toLower]⟩

theorem padMesh_bare (m : Mesh) (pw : List PadW) (g : Mesh) (h : padMesh m pw = .ok g) :
    g.subs = [] ∧ g.bc = m.bc.toLower := by
  unfold padMesh at h
  split at h
  · cases h
  · split at h
    · cases h
    · obtain ⟨_, _, g3, g4, _⟩ := mkCell_inv _ _ _ _ h
      exact ⟨g3, g4⟩

theorem selMesh_bc (m : Mesh) (dim : String) (arg : SelArg) (g : Mesh) (h : selMesh m dim arg = .ok g) :
    g.bc = "" := by
  unfold selMesh at h
  split at h
  · cases h
  · rename_i ai _
    cases hs : ai.2 with
    | plane c k =>
      rw [hs] at h
      have h' : selPlaneMesh m ai.1 c = .ok g := h
      unfold selPlaneMesh at h'
      split at h'
      · cases h'
      · split at h'
        · cases h'
        · obtain ⟨_, _, g3, _⟩ := mkMesh_inv _ _ _ _ _ h'
          rw [g3]; simp [String.toLower]
    | range c1 c2 k1 k2 =>
      rw [hs] at h
      have h' : selRangeMesh m ai.1 c1 c2 = .ok g := h
      unfold selRangeMesh at h'
      split at h'
      · cases h'
      · split at h'
        · cases h'
        · obtain ⟨_, _, g3, _⟩ := mkMesh_inv _ _ _ _ _ h'
          rw [g3]; simp [String.toLower]

theorem dim2index_congr (r s : Region) (h : r.dims = s.dims) (d : String) :
    r.dim2index d = s.dim2index d := by
  unfold Region.dim2index; rw [h]

theorem whole_aligned (m : Mesh) (hm : m.Inv) : SubAligned m m.region (fun _ => 0) (fun a => m.nAt a) := by
  refine ⟨rfl, inv_pmax_length hm, ?_⟩
  intro a ha
  refine ⟨inv_n_pos hm ha, le_refl _, by simp, hi_eq m a (inv_n_pos hm ha)⟩

/-- the source region is a box of whole cells `L … L+n-1` of the padded mesh -/
theorem pad_source_aligned (m : Mesh) (hm : m.Inv) (pw : List PadW)
    (hL : ∀ b, b < m.ndim → 0 ≤ sumW m (·.lo) pw b) (hH : ∀ b, b < m.ndim → 0 ≤ sumW m (·.hi) pw b)
    (g : Mesh) (h : padMesh m pw = .ok g) :
    SubAligned g m.region (fun b => (sumW m (·.lo) pw b).toNat)
      (fun b => (sumW m (·.lo) pw b).toNat + m.nAt b) := by
  obtain ⟨e1, _, _, _, _, _, _, e8⟩ := padMesh_inv m hm pw hL hH g h
  refine ⟨e1.symm, by rw [inv_pmax_length hm]; exact e1.symm, ?_⟩
  intro a ha
  obtain ⟨h1, h2, h3, blk⟩ := e8 a (by omega)
  have hn := inv_n_pos hm (show a < m.ndim by omega)
  refine ⟨?_, ?_, ?_, ?_⟩
  · show (sumW m (·.lo) pw a).toNat < (sumW m (·.lo) pw a).toNat + m.nAt a; omega
  · show (sumW m (·.lo) pw a).toNat + m.nAt a ≤ g.nAt a; rw [h1]; omega
  · rw [blk.lo]
  · rw [hi_eq m a hn, blk.lo, blk.cell]; push_cast; ring

theorem padAxes_unknown (m : Mesh) (pw : List PadW)
    (h : ∃ w, w ∈ pw ∧ ∀ a, m.region.dim2index w.dim ≠ .ok a) : ∃ e, padAxes m pw = .error e := by
  induction pw with
  | nil => obtain ⟨w, hw, _⟩ := h; cases hw
  | cons v rest ih =>
    obtain ⟨w, hw, hbad⟩ := h
    unfold padAxes
    cases hd : m.region.dim2index v.dim with
    | error e => exact ⟨e, rfl⟩
    | ok a =>
      simp only
      rcases List.mem_cons.mp hw with rfl | hw'
      · exact absurd hd (hbad a)
      · obtain ⟨e, he⟩ := ih ⟨w, hw', hbad⟩
        rw [he]; exact ⟨e, rfl⟩

theorem padCorners_unknown (m : Mesh) (pw : List PadW) (p1 p2 : List Rat)
    (h : ∃ w, w ∈ pw ∧ ∀ a, m.region.dim2index w.dim ≠ .ok a) : ∃ e, padCorners m pw p1 p2 = .error e := by
  induction pw generalizing p1 p2 with
  | nil => obtain ⟨w, hw, _⟩ := h; cases hw
  | cons v rest ih =>
    obtain ⟨w, hw, hbad⟩ := h
    unfold padCorners
    cases hd : m.region.dim2index v.dim with
    | error e => exact ⟨e, rfl⟩
    | ok a =>
      simp only
      rcases List.mem_cons.mp hw with rfl | hw'
      · exact absurd hd (hbad a)
      · exact ih _ _ ⟨w, hw', hbad⟩

theorem padAxes_mem (m : Mesh) (pw : List PadW) (d : List (Nat × Int × Int)) (h : padAxes m pw = .ok d)
    (w : PadW) (hw : w ∈ pw) : ∃ a, (a, w.lo, w.hi) ∈ d := by
  induction pw generalizing d with
  | nil => cases hw
  | cons v rest ih =>
    unfold padAxes at h
    split at h
    · cases h
    · rename_i a _
      split at h
      · cases h
      · rename_i d' hd'
        injection h with h; subst h
        rcases List.mem_cons.mp hw with rfl | hw'
        · exact ⟨a, List.mem_cons_self ..⟩
        · obtain ⟨a', ha'⟩ := ih d' hd' hw'
          exact ⟨a', List.mem_cons_of_mem _ ha'⟩

/-- side condition under which the result of an operation is again a well-formed field: boxes
are inside the region (exactly), named subregions consist of whole cells, `pad_width` is a
dictionary (distinct axis names) -/
def OpSide (f : Fld) : FOp → Prop
  | .sel _ _ => True
  | .get (.region r) => BoxIn f.mesh r
  | .get (.name s) => ∃ r k1 k2, findSub f.mesh.subs s = some r ∧ SubAligned f.mesh r k1 k2 ∧
      r.dims = f.mesh.region.dims ∧ r.units = f.mesh.region.units
  | .pad pw _ => (pw.map (·.dim)).Nodup
  | .resample _ => True

theorem selConvert_kind (m : Mesh) (hm : m.Inv) (dim : String) (arg : SelArg) (a : Nat) (s : SelIdx)
    (h : selConvert m dim arg = .ok (a, s)) :
    (∃ c k, s = .plane c k ∧ (arg = .centre ∨ ∃ x, arg = .point x)) ∨ (∃ x y, arg = .range x y) := by
  cases arg with
  | centre =>
    obtain ⟨_, hs⟩ := selConvert_centre_inv m hm dim a s h
    exact Or.inl ⟨_, _, hs, Or.inl rfl⟩
  | point x =>
    obtain ⟨_, _, _, hs⟩ := selConvert_point_inv m hm dim x a s h
    exact Or.inl ⟨_, _, hs, Or.inr ⟨x, rfl⟩⟩
  | range x y => exact Or.inr ⟨x, y, rfl⟩
  | bad =>
    unfold selConvert at h
    split at h
    · cases h
    · cases h

/-- `indexOf?` returns the first position of the name -/
theorem indexOf_go_iff (x : String) (l : List String) (k i : Nat) :
    indexOf?.go x l k = some i ↔
      k ≤ i ∧ i - k < l.length ∧ l.getD (i - k) "" = x ∧ ∀ t, t < i - k → l.getD t "" ≠ x := by
  induction l generalizing k with
  | nil => simp [indexOf?.go]
  | cons y ys ih =>
    unfold indexOf?.go
    by_cases hy : y = x
    · rw [if_pos hy]
      constructor
      · intro h
        injection h with h; subst h
        refine ⟨le_refl _, by simp, by simp [hy], ?_⟩
        intro t ht; omega
      · rintro ⟨h1, h2, h3, h4⟩
        by_cases hik : i = k
        · rw [hik]
        · exfalso
          exact h4 0 (by omega) (by simp [hy])
    · rw [if_neg hy, ih (k + 1)]
      constructor
      · rintro ⟨h1, h2, h3, h4⟩
        have e : i - k = (i - (k + 1)) + 1 := by omega
        refine ⟨by omega, by simp; omega, by rw [e, List.getD_cons_succ]; exact h3, ?_⟩
        intro t ht
        cases t with
        | zero => simpa using hy
        | succ t => rw [List.getD_cons_succ]; exact h4 t (by omega)
      · rintro ⟨h1, h2, h3, h4⟩
        have hne : i ≠ k := by
          intro hik; rw [hik] at h3; simp at h3; exact hy h3
        have e : i - k = (i - (k + 1)) + 1 := by omega
        rw [e, List.getD_cons_succ] at h3
        refine ⟨by omega, by simp at h2; omega, h3, ?_⟩
        intro t ht
        have := h4 (t + 1) (by omega)
        rwa [List.getD_cons_succ] at this

theorem dim2index_iff (r : Region) (d : String) (a : Nat) :
    r.dim2index d = .ok a ↔
      a < r.dims.length ∧ r.dims.getD a "" = d ∧ ∀ t, t < a → r.dims.getD t "" ≠ d := by
  unfold Region.dim2index indexOf?
  have key := indexOf_go_iff d r.dims 0 a
  simp only [Nat.sub_zero, Nat.zero_le, true_and] at key
  cases h : indexOf?.go d r.dims 0 with
  | none =>
    simp only
    constructor
    · intro hc; cases hc
    · intro hc
      have := key.mpr hc
      rw [h] at this; cases this
  | some i =>
    simp only
    constructor
    · intro hc
      injection hc with hc; subst hc
      exact key.mp h
    · intro hc
      have := key.mpr hc
      rw [h] at this
      injection this with this
      rw [this]

/-- position of a name after another axis has been removed -/
theorem dim2index_removeAt (r s : Region) (d : String) (a b : Nat) (hb : r.dim2index d = .ok b)
    (hab : a ≠ b) (ha : a < r.dims.length) (hs : s.dims = removeAt r.dims a) :
    s.dim2index d = .ok (if b < a then b else b - 1) := by
  rw [dim2index_iff] at hb ⊢
  obtain ⟨h1, h2, h3⟩ := hb
  rw [hs, length_removeAt _ _ ha]
  by_cases hlt : b < a
  · rw [if_pos hlt]
    refine ⟨by omega, ?_, ?_⟩
    · rw [getD_removeAt_lt _ _ _ _ hlt]; exact h2
    · intro t ht
      rw [getD_removeAt_lt _ _ _ _ (by omega)]; exact h3 t ht
  · rw [if_neg hlt]
    refine ⟨by omega, ?_, ?_⟩
    · rw [getD_removeAt_ge _ _ _ _ (by omega)]
      have : b - 1 + 1 = b := by omega
      rw [this]; exact h2
    · intro t ht
      rw [getD_removeAt]
      apply h3
      unfold skip; split <;> omega

theorem insertAt_comm {α} (l : List α) (a b : Nat) (x y : α) (hab : a ≤ b) (hb : b ≤ l.length) :
    insertAt (insertAt l b y) a x = insertAt (insertAt l a x) (b + 1) y := by
  induction l generalizing a b with
  | nil =>
    have : b = 0 := by simpa using hb
    subst this
    have : a = 0 := by omega
    subst this
    simp [insertAt]
  | cons z zs ih =>
    cases a with
    | zero => simp [insertAt]
    | succ a =>
      cases b with
      | zero => omega
      | succ b =>
        have := ih a b (by omega) (by simpa using hb)
        simp only [insertAt, List.take_succ_cons, List.drop_succ_cons, List.cons_append] at this ⊢
        rw [this]

theorem skip_skip (a b c : Nat) (hab : a < b) : skip a (skip (b - 1) c) = skip b (skip a c) := by
  unfold skip
  split <;> split <;> split <;> (try split) <;> omega

theorem removeAt_comm {α} (l : List α) (a b : Nat) (d : α) (hab : a < b) (hb : b < l.length) :
    removeAt (removeAt l a) (b - 1) = removeAt (removeAt l b) a := by
  apply list_ext_getD _ _ d
  · rw [length_removeAt _ _ (by rw [length_removeAt _ _ (by omega)]; omega), length_removeAt _ _ (by omega),
      length_removeAt _ _ (by rw [length_removeAt _ _ hb]; omega), length_removeAt _ _ hb]
  · intro c _
    rw [getD_removeAt, getD_removeAt, getD_removeAt, getD_removeAt, skip_skip a b c hab]

theorem indexAx_congr (g m : Mesh) (b s : Nat) (hlo : g.region.lo b = m.region.lo s)
    (hn : g.nAt b = m.nAt s) (hc : g.cellAt b = m.cellAt s) (z : Rat) : g.indexAx b z = m.indexAx s z := by
  unfold indexAx; rw [hlo, hn, hc]

/-- a selection of a mesh without subregions has no subregions -/
theorem selMesh_nosubs (m : Mesh) (hs : m.subs = []) (dim : String) (arg : SelArg) (g : Mesh)
    (h : selMesh m dim arg = .ok g) : g.subs = [] := by
  unfold selMesh at h
  split at h
  · cases h
  · rename_i ai _
    cases hsi : ai.2 with
    | plane c k =>
      rw [hsi] at h
      have h' : selPlaneMesh m ai.1 c = .ok g := h
      unfold selPlaneMesh at h'
      rw [hs] at h'
      simp only [planeSubs] at h'
      split at h'
      · cases h'
      · unfold mkMesh? at h'
        split at h'
        · cases h'
        · exact (setSubs_inv _ _ _ h').2.2.2
    | range c1 c2 k1 k2 =>
      rw [hsi] at h
      have h' : selRangeMesh m ai.1 c1 c2 = .ok g := h
      unfold selRangeMesh at h'
      rw [hs] at h'
      simp only [rangeSubs] at h'
      split at h'
      · cases h'
      · unfold mkMesh? at h'
        split at h'
        · cases h'
        · exact (setSubs_inv _ _ _ h').2.2.2

/-- the upper index of a coordinate in a block of whole cells and in the source differ by the
block's offset (no exception: `ceil - 1` attributes a face to the cell below it in both) -/
theorem upperIdx_block {g m : Mesh} {b off cnt : Nat} (blk : AxisBlock g m b b off cnt)
    (hc : 0 < m.cellAt b) (z : Rat) : upperIdx m b z = (off : Int) + upperIdx g b z := by
  obtain ⟨u1, u2⟩ := upperIdx_bounds m b z hc
  obtain ⟨v1, v2⟩ := upperIdx_bounds g b z (by rw [blk.cell]; exact hc)
  rw [blk.lo, blk.cell] at v1 v2
  have a1 : (upperIdx m b z : Rat) < ((off : Int) + upperIdx g b z : Int) + 1 := by
    by_contra hcon; rw [not_lt] at hcon
    have := mul_le_mul_of_nonneg_right hcon hc.le
    push_cast at this
    nlinarith
  have a2 : (((off : Int) + upperIdx g b z : Int) : Rat) < (upperIdx m b z : Rat) + 1 := by
    by_contra hcon; rw [not_lt] at hcon
    have := mul_le_mul_of_nonneg_right hcon hc.le
    push_cast at this
    nlinarith
  have i1 : upperIdx m b z < (off : Int) + upperIdx g b z + 1 := by exact_mod_cast a1
  have i2 : (off : Int) + upperIdx g b z < upperIdx m b z + 1 := by exact_mod_cast a2
  omega

end DFV.C07
