import DFV.Lemmas.C07Wf
/-! Helpers for the composition laws of C07. -/
namespace DFV.C07
open DFV DFV.Mesh

theorem list_ext_getD {α} (l1 l2 : List α) (d : α) (hl : l1.length = l2.length)
    (h : ∀ a, a < l1.length → l1.getD a d = l2.getD a d) : l1 = l2 := by
  rw [eq_tab_of_getD l1 l1.length (fun a => l1.getD a d) d rfl (fun _ _ => rfl)]
  exact (eq_tab_of_getD l2 l1.length (fun a => l1.getD a d) d hl.symm (fun a ha => (h a ha).symm)).symm

theorem region_ext (r s : Region) (h1 : s.pmin.length = r.pmin.length) (h2 : r.pmax.length = r.pmin.length)
    (h3 : s.pmax.length = r.pmin.length)
    (hlo : ∀ a, a < r.pmin.length → s.lo a = r.lo a) (hhi : ∀ a, a < r.pmin.length → s.hi a = r.hi a)
    (hd : s.dims = r.dims) (hu : s.units = r.units) (ht : s.tol = r.tol) : s = r := by
  obtain ⟨rp1, rp2, rd, ru, rt⟩ := r
  obtain ⟨sp1, sp2, sd, su, st⟩ := s
  dsimp only at h1 h2 h3 hd hu ht hlo hhi
  simp only [Region.mk.injEq]
  refine ⟨?_, ?_, hd, hu, ht⟩
  · exact list_ext_getD _ _ 0 h1 (fun a ha => hlo a (by omega))
  · exact list_ext_getD _ _ 0 (by omega) (fun a ha => hhi a (by omega))

/-- an aligned sub-box is a box inside the region -/
theorem boxIn_of_aligned (m : Mesh) (hm : m.Inv) (item : Region) (k1 k2 : Nat → Nat)
    (hal : SubAligned m item k1 k2) : BoxIn m item := by
  refine ⟨hal.1, ?_⟩
  intro a ha
  obtain ⟨t1, t2, t3, t4⟩ := hal.2.2 a ha
  have hc := inv_cell_pos hm ha
  have h12 : (k1 a : Rat) < (k2 a : Rat) := by exact_mod_cast t1
  have h2n : (k2 a : Rat) ≤ (m.nAt a : Rat) := by exact_mod_cast t2
  have h0 : (0 : Rat) ≤ (k1 a : Rat) := by exact_mod_cast Nat.zero_le _
  rw [t3, t4, hi_eq m a (inv_n_pos hm ha)]
  refine ⟨by nlinarith, by nlinarith, by nlinarith⟩

theorem blockLo_aligned (m : Mesh) (hm : m.Inv) (item : Region) (k1 k2 : Nat → Nat)
    (hal : SubAligned m item k1 k2) (a : Nat) (ha : a < m.ndim) : blockLo m item a = k1 a := by
  obtain ⟨t1, t2, t3, t4⟩ := hal.2.2 a ha
  have hc := inv_cell_pos hm ha
  unfold blockLo
  apply indexAx_eq_of_bounds m a _ (k1 a) (by omega) hc
  · rw [t3]
  · rw [t3]; nlinarith

end DFV.C07
