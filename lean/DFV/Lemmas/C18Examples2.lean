import DFV.Lemmas.C18Examples
import DFV.Model.C18Ext
/-! More concrete instances for the non-vacuity `example`s of `Props/C18.lean` (second round). -/
namespace DFV.C18
open DFV

/-- the vector example with periodic boundary conditions in x and y, a subregion, a validity mask
with holes (the slab `i = 1` invalid) and a unit -/
def exP : Fld :=
  { exV with mesh := { exV.mesh with bc := "xy", subs := [("a", exReg)] },
             valid := ⟨[4, 4, 3], fun idx => decide (idx.getD 0 0 ≠ 1)⟩, unit := some "A/m" }

/-- a 5-12-13 rotation about x after a 3-4-5 rotation about z: a rational rotation that is neither
a lattice rotation nor about a coordinate axis -/
def exPyth : M3 := (RaxisCS 0 (5/13) (12/13)).mul (RaxisCS 2 (3/5) (4/5))

/-- twice the scalar example field (same mesh) -/
def exDouble : Fld := { exF with data := ⟨[4, 4, 3], fun idx => (exF.data.get idx).map (2 * ·)⟩ }

/-- the example in nanometres, far from the origin, values in units of 8e5 -/
def exNano : Fld := affFld (1/1000000000) (fun a => 1000 + a) 800000 exV

end DFV.C18
