import DFV.Lemmas.C10Legacy
import DFV.Lemmas.C10Weak
/-! C10, legacy layout, second round: acceptance of a legacy file characterised from its stored
items (iff), the array conversions for every accepted array shape (scalar-shaped and
broadcastable arrays included), side-cars accepted by the setter's TOLERANT tests (iff, with the
result), and the weak invariant of whatever the legacy reader returns. -/
namespace DFV.C10
open DFV

/-! ## `_as_array`: which array shapes are accepted, and what the two passes return -/

/-- the array shapes `_as_array` accepts for a mesh with counts `n` and `k` components: the mesh's
own shape when `k = 1`, or any shape with last axis `k` that broadcasts to `(*n, k)` -/
def arrAcceptB (shape n : List Nat) (k : Nat) : Bool :=
  (decide (k = 1) && decide (shape = n)) || (decide (shape.getLast? = some k) && bcastOk shape (n ++ [k]))

/-- the array after `update_field_values` and the `array` setter (two `_as_array` passes) -/
def arrConv (val : DArr) (n : List Nat) (k : Nat) : DArr :=
  { shape := n ++ [k],
    buf := if k = 1 ∧ val.shape = n then val.buf.upcast
           else (val.buf.gather (bcastIdx val.shape (n ++ [k]))).upcast }

theorem asArray_ok_iff (val : DArr) (n : List Nat) (k : Nat) :
    (∃ d, asArray val n k = .ok d) ↔ arrAcceptB val.shape n k = true := by
  unfold asArray arrAcceptB
  by_cases h1 : k = 1 ∧ val.shape = n
  · rw [if_pos h1]
    simp [h1.1, h1.2]
  · rw [if_neg h1]
    have h1' : (decide (k = 1) && decide (val.shape = n)) = false := by
      simpa using h1
    rw [h1', Bool.false_or]
    by_cases h2 : val.shape.getLast? = some k
    · have h2' : ¬ val.shape.getLast? ≠ some k := by simpa using h2
      rw [if_neg h2']
      by_cases h3 : bcastOk val.shape (n ++ [k]) = true
      · simp [h2, h3]
      · have h3' : bcastOk val.shape (n ++ [k]) = false := by simpa using h3
        simp [h2, h3']
    · rw [if_pos h2]
      simp [h2]

/-- the two passes: the first fixes the shape (keeping the dtype of a mesh-shaped scalar array),
the second converts integer data to binary64 -/
theorem asArray_twice (val : DArr) (n : List Nat) (k : Nat) (hwf : val.wf)
    (hacc : arrAcceptB val.shape n k = true) :
    (asArray val n k).bind (fun d1 => asArray d1 n k) = .ok (arrConv val n k) := by
  unfold arrAcceptB at hacc
  unfold arrConv
  by_cases h1 : k = 1 ∧ val.shape = n
  · have e : asArray val n k = .ok { shape := n ++ [1], buf := val.buf } := by
      unfold asArray; rw [if_pos h1]
    rw [e, if_pos h1]
    simp only [bind_ok]
    obtain ⟨rfl, hs⟩ := h1
    rw [asArray_shaped _ n 1 rfl]
    simp only
    unfold DArr.wf at hwf
    rw [hwf, hs, natProd_append_one, Nat.mul_one]
  · have h1' : (decide (k = 1) && decide (val.shape = n)) = false := by simpa using h1
    rw [h1', Bool.false_or] at hacc
    simp only [Bool.and_eq_true, decide_eq_true_eq] at hacc
    have h2' : ¬ val.shape.getLast? ≠ some k := by simpa using hacc.1
    have e : asArray val n k = .ok { shape := n ++ [k], buf := (val.buf.gather (bcastIdx val.shape (n ++ [k]))).upcast } := by
      unfold asArray
      rw [if_neg h1, if_neg h2']
      simp [hacc.2]
    rw [e, if_neg h1]
    simp only [bind_ok]
    rw [asArray_shaped _ n k rfl]
    · simp only [DBuf.upcast_idem]
    · simp only
      rw [DBuf.upcast_length, gather_length, bcastIdx_length]

theorem arrConv_shaped (val : DArr) (n : List Nat) (k : Nat) (hs : val.shape = n ++ [k]) (hwf : val.wf) :
    arrConv val n k = { shape := n ++ [k], buf := val.buf.upcast } := by
  unfold arrConv
  have h1 : ¬ (k = 1 ∧ val.shape = n) := by
    rintro ⟨_, h⟩
    rw [hs] at h
    have := congrArg List.length h
    simp at this
  rw [if_neg h1, hs, bcastIdx_self]
  unfold DArr.wf at hwf
  rw [hs] at hwf
  rw [← hwf, DBuf.gather_range]

theorem arrAccept_shaped (n : List Nat) (k : Nat) : arrAcceptB (n ++ [k]) n k = true := by
  unfold arrAcceptB
  rw [List.getLast?_concat, bcastOk_self]
  simp

theorem arrConv_wf (val : DArr) (n : List Nat) (k : Nat) (hwf : val.wf) (hacc : arrAcceptB val.shape n k = true) :
    (arrConv val n k).wf := by
  have := asArray_twice val n k hwf hacc
  cases h1 : asArray val n k with
  | error e => rw [h1] at this; cases this
  | ok d1 =>
    rw [h1] at this
    simp only [bind_ok] at this
    exact (asArray_ok _ _ _ _ (asArray_ok _ _ _ _ hwf h1).2 this).2

/-! ## the plain constructors the legacy reader calls -/

theorem init_plain_ok_iff (p1 p2 : NumArr) (tol : Num) :
    (∃ r, TReg.init p1 p2 none none tol = .ok r) ↔
      0 < p1.length ∧ p2.length = p1.length ∧ ∀ a, a < p1.length → p1.vals.getD a 0 ≠ p2.vals.getD a 0 := by
  constructor
  · rintro ⟨r, h⟩
    unfold TReg.init at h
    split at h
    · cases h
    · rename_i h1
      split at h
      · cases h
      · rename_i h2
        simp only [Region.dimsOk, Region.unitsOk] at h
        split at h
        · cases h
        · rename_i h3
          refine ⟨by omega, by omega, ?_⟩
          have : allLt p1.length (fun a => decide (p1.vals.getD a 0 ≠ p2.vals.getD a 0)) = true := by
            simpa using h3
          rw [allLt_iff] at this
          intro a ha
          simpa using this a ha
  · rintro ⟨h0, hl, hne⟩
    unfold TReg.init
    have h1 : ¬ p1.length ≠ p2.length := by omega
    have h2 : ¬ p1.length = 0 := by omega
    have h3 : allLt p1.length (fun a => decide (p1.vals.getD a 0 ≠ p2.vals.getD a 0)) = true := by
      rw [allLt_iff]
      intro a ha
      simpa using hne a ha
    simp only [h1, h2, if_false, Region.dimsOk, Region.unitsOk, h3, Bool.not_true, Bool.false_eq_true]
    exact ⟨_, rfl⟩

theorem meshInit_plain_ok_iff (r : TReg) (n : List Int) :
    (∃ m, TMesh.init r n "" [] = .ok m) ↔ n.length = r.ndim ∧ ∀ k ∈ n, 0 < k := by
  have h3 : "".toLower = "" := by decide +kernel
  have h4 : Mesh.bcOk r.dims "" = true := by simp [Mesh.bcOk]
  constructor
  · rintro ⟨m, h⟩
    unfold TMesh.init at h
    split at h
    · cases h
    · rename_i h1
      split at h
      · cases h
      · rename_i h2
        refine ⟨by simpa using h1, ?_⟩
        intro k hk
        have : ¬ k ≤ 0 := by
          intro hle
          exact h2 (List.any_eq_true.mpr ⟨k, hk, by simpa using hle⟩)
        omega
  · rintro ⟨hn, hpos⟩
    unfold TMesh.init
    have h1 : ¬ n.length ≠ r.ndim := by omega
    have h2 : n.any (fun k => decide (k ≤ 0)) = false := by
      rw [List.any_eq_false]
      intro k hk
      have := hpos k hk
      simp only [decide_eq_true_eq]
      omega
    simp only [h1, h2, h3, h4, if_false, Bool.not_true, Bool.false_eq_true, setSubs, List.all_nil, mapE, bind_ok]
    exact ⟨_, rfl⟩

/-! ## the side-car, tolerant acceptance -/

/-- `Region(**val)` for every entry of the side-car -/
def sidecarRegions (sc : List (String × H5Region)) : M (List (String × TReg)) :=
  mapE (fun p => (regionLoad p.2).bind fun s => .ok (p.1, s)) sc

theorem sidecarRegions_inv (sc : List (String × H5Region)) (ss : List (String × TReg)) (h : sidecarRegions sc = .ok ss) :
    ∀ q ∈ ss, q.2.Inv := by
  intro q hq
  obtain ⟨p, _, hp⟩ := mapE_ok_mem _ _ _ h q hq
  obtain ⟨s, hs, e⟩ := bind_eq_ok _ _ _ hp
  cases e
  exact (init_ok _ _ _ _ _ _ (initKw_ok _ _ _ _ _ _ hs)).1

/-- **The side-car is accepted iff every entry is a valid `Region(pmin=…, pmax=…, …)` and every
region that remains after dict insertion passes the setter's test** `candOk` — the three TOLERANT
tests (inside the region within its tolerance, an aggregate of cells within 0.1 %, aligned within
1e-12) on the entry's corner pair with the MESH's tolerance factor (`candOk_eq`); the
`tolerance_factor`, names and units the side-car carries are immaterial — and then the mesh carries
exactly these regions, names in dict order, re-stamped with the mesh's names, units and tolerance. -/
theorem sidecarLoad_ok_iff (m : TMesh) (hm : m.InvW) (sc : List (String × H5Region)) (m' : TMesh) :
    sidecarLoad m (some sc) = .ok m' ↔
      ∃ ss, sidecarRegions sc = .ok ss ∧
        (∀ p ∈ dictOf ss, candOk m.region m.n p.2 = true) ∧
        m' = { m with subs := (dictOf ss).map (stampSub m.region) } := by
  have hr := ((TMesh.invW_iff m).mp hm).1
  simp only [sidecarLoad]
  constructor
  · intro h
    obtain ⟨ss, hss, h⟩ := bind_eq_ok _ _ _ h
    obtain ⟨ss', hset, h⟩ := bind_eq_ok _ _ _ h
    cases h
    have hinv : ∀ p ∈ dictOf ss, p.2.Inv := fun p hp => sidecarRegions_inv sc ss hss p (mem_dictOf _ _ hp)
    obtain ⟨_, _, hacc, heq⟩ := setSubs_ok m.region hr m.n _ ss' hinv hset
    refine ⟨ss, hss, hacc, ?_⟩
    rw [heq]
    rfl
  · rintro ⟨ss, hss, hacc, rfl⟩
    have hss' : mapE (fun (p : String × H5Region) => (regionLoad p.2).bind fun s => Except.ok (p.1, s)) sc = .ok ss := hss
    rw [hss']
    simp only [bind_ok]
    have hinv : ∀ p ∈ dictOf ss, p.2.Inv := fun p hp => sidecarRegions_inv sc ss hss p (mem_dictOf _ _ hp)
    rw [setSubs_of_ok m.region hr m.n _ hinv hacc]
    rfl

/-- whatever `load_subregions` attaches keeps the invariant -/
theorem sidecarLoad_inv (m : TMesh) (hm : m.Inv) (sc : Option (List (String × H5Region))) (m' : TMesh)
    (h : sidecarLoad m sc = .ok m') : m'.Inv := by
  cases sc with
  | none =>
    simp only [sidecarLoad] at h
    cases h
    exact hm
  | some l =>
    obtain ⟨hr, hn, hpos, hbl, hbc, _, _⟩ := (TMesh.inv_iff m).mp hm
    simp only [sidecarLoad] at h
    obtain ⟨ss, hss, h⟩ := bind_eq_ok _ _ _ h
    obtain ⟨ss', hset, h⟩ := bind_eq_ok _ _ _ h
    cases h
    have hinv : ∀ p ∈ dictOf ss, p.2.Inv := fun p hp => sidecarRegions_inv l ss hss p (mem_dictOf _ _ hp)
    obtain ⟨hnames, hsub, _, _⟩ := setSubs_ok m.region hr m.n _ ss' hinv hset
    rw [TMesh.inv_iff]
    exact ⟨hr, hn, hpos, hbl, hbc, by rw [hnames]; exact hasDup_keys_dictOf _, hsub⟩

/-! ## the legacy reader: acceptance from the stored items, and the result -/

/-- the stored items of a legacy file the reader accepts (side-car aside) -/
def Legacy.WellFormed (l : Legacy) : Prop :=
  0 < l.p1.length ∧ l.p2.length = l.p1.length ∧
  (∀ a, a < l.p1.length → l.p1.vals.getD a 0 ≠ l.p2.vals.getD a 0) ∧
  l.n.length = l.p1.length ∧ (∀ k ∈ l.n, 0 < k) ∧ 1 ≤ l.dim ∧
  arrAcceptB l.array.shape (l.n.map Int.toNat) l.dim.toNat = true

/-- the field the legacy reader returns for ANY accepted array (mesh-shaped scalar arrays and
broadcastable arrays included), on the mesh `m'` the side-car leaves -/
def legacyFieldOn (l : Legacy) (m' : TMesh) : TFld :=
  { legacyField l with mesh := m', data := arrConv l.array (l.n.map Int.toNat) l.dim.toNat }

theorem legacyField_mesh_init (l : Legacy) (h0 : 0 < l.p1.length) (hl : l.p2.length = l.p1.length)
    (hne : ∀ a, a < l.p1.length → l.p1.vals.getD a 0 ≠ l.p2.vals.getD a 0)
    (hn : l.n.length = l.p1.length) (hpos : ∀ k ∈ l.n, 0 < k) :
    TReg.init l.p1 l.p2 none none TReg.defaultTol = .ok (legacyField l).mesh.region ∧
    TMesh.init (legacyField l).mesh.region l.n "" [] = .ok (legacyField l).mesh := by
  constructor
  · unfold TReg.init
    have h1 : ¬ l.p1.length ≠ l.p2.length := by omega
    have h2 : ¬ l.p1.length = 0 := by omega
    have h3 : allLt l.p1.length (fun a => decide (l.p1.vals.getD a 0 ≠ l.p2.vals.getD a 0)) = true := by
      rw [allLt_iff]
      intro a ha
      simpa using hne a ha
    simp only [h1, h2, if_false, Region.dimsOk, Region.unitsOk, h3, Bool.not_true, Bool.false_eq_true]
    rfl
  · unfold TMesh.init
    have h1 : ¬ l.n.length ≠ (legacyField l).mesh.region.pmin.length := by
      show ¬ l.n.length ≠ (NumArr.minimum l.p1 l.p2).length
      rw [NumArr.minimum_length _ _ hl]; omega
    have h2 : l.n.any (fun k => decide (k ≤ 0)) = false := by
      rw [List.any_eq_false]
      intro k hk
      have := hpos k hk
      simp only [decide_eq_true_eq]
      omega
    have h3 : "".toLower = "" := by decide +kernel
    have h4 : ∀ d, Mesh.bcOk d "" = true := by intro d; simp [Mesh.bcOk]
    simp only [TReg.ndim, h1, h2, h3, h4, if_false, Bool.not_true, Bool.false_eq_true, setSubs, List.all_nil, mapE, bind_ok]
    rfl

/-- **The legacy reader, from the stored items alone.**  A legacy file is read iff its stored
items are well formed and the side-car (if any) is accepted; the result is `legacyFieldOn`. -/
theorem legacyLoad_iff (l : Legacy) (hwf : l.array.wf) (g : TFld) :
    legacyLoad l = .ok g ↔
      l.WellFormed ∧ ∃ m', sidecarLoad (legacyField l).mesh l.sidecar = .ok m' ∧ g = legacyFieldOn l m' := by
  constructor
  · intro h
    unfold legacyLoad at h
    obtain ⟨r, hr, k1⟩ := bind_eq_ok _ _ _ h
    obtain ⟨m, hm, k2⟩ := bind_eq_ok _ _ _ k1
    obtain ⟨m', hm', k3⟩ := bind_eq_ok _ _ _ k2
    clear h k1 k2
    obtain ⟨h0, hl, hne⟩ := (init_plain_ok_iff _ _ _).mp ⟨r, hr⟩
    have hrl : r.ndim = l.p1.length := (init_ok _ _ _ _ _ _ hr).2.2.2.2.2.1
    obtain ⟨hn, hpos⟩ := (meshInit_plain_ok_iff r l.n).mp ⟨m, hm⟩
    rw [hrl] at hn
    obtain ⟨e1, e2⟩ := legacyField_mesh_init l h0 hl hne hn hpos
    rw [e1] at hr
    cases hr
    rw [e2] at hm
    cases hm
    obtain ⟨hr', hn', _⟩ := sidecarLoad_keeps _ _ _ hm'
    have hmn : m'.n = l.n.map Int.toNat := by rw [hn']; rfl
    unfold TFld.init at k3
    simp only at k3
    split at k3
    · cases k3
    · rename_i hdim
      rw [hmn] at k3
      -- the two array passes
      cases ha1 : asArray l.array (l.n.map Int.toNat) l.dim.toNat with
      | error e => rw [ha1] at k3; cases k3
      | ok d1 =>
        have hacc := (asArray_ok_iff _ _ _).mp ⟨d1, ha1⟩
        have htw := asArray_twice l.array _ _ hwf hacc
        rw [ha1] at htw k3
        simp only [bind_ok] at htw k3
        rw [htw] at k3
        simp only [bind_ok, asValid, vdimsSet] at k3
        cases k3
        refine ⟨⟨h0, hl, hne, hn, hpos, by omega, hacc⟩, m', hm', ?_⟩
        unfold legacyFieldOn
        rw [hr']
        rfl
  · rintro ⟨⟨h0, hl, hne, hn, hpos, hdim, hacc⟩, m', hm', rfl⟩
    obtain ⟨e1, e2⟩ := legacyField_mesh_init l h0 hl hne hn hpos
    unfold legacyLoad
    rw [e1]
    simp only [bind_ok]
    rw [e2]
    simp only [bind_ok, hm']
    obtain ⟨hr', hn', _⟩ := sidecarLoad_keeps _ _ _ hm'
    have hmn : m'.n = l.n.map Int.toNat := by rw [hn']; rfl
    unfold TFld.init
    have h1 : ¬ l.dim < 1 := by omega
    simp only [h1, if_false, hmn]
    have htw := asArray_twice l.array _ _ hwf hacc
    cases ha1 : asArray l.array (l.n.map Int.toNat) l.dim.toNat with
    | error e => rw [ha1] at htw; cases htw
    | ok d1 =>
      rw [ha1] at htw
      simp only [bind_ok] at htw ⊢
      rw [htw]
      simp only [bind_ok, asValid, vdimsSet]
      unfold legacyFieldOn
      rw [hr']
      rfl

/-- **whatever the legacy reader returns satisfies the invariant** -/
theorem legacyLoad_inv (l : Legacy) (hwf : l.array.wf) (g : TFld) (h : legacyLoad l = .ok g) : g.Inv := by
  unfold legacyLoad at h
  obtain ⟨r, hr, h⟩ := bind_eq_ok _ _ _ h
  obtain ⟨m, hm, h⟩ := bind_eq_ok _ _ _ h
  obtain ⟨m', hm', h⟩ := bind_eq_ok _ _ _ h
  have hrinv : r.Inv := (init_ok _ _ _ _ _ _ hr).1
  have hminv : m.Inv := TMesh.init_inv r hrinv l.n "" [] (fun p hp => by cases hp) rfl m hm
  exact init_inv m' (sidecarLoad_inv m hminv _ m' hm') _ _ _ _ _ hwf (fun w hw => by cases hw) g h

end DFV.C10
