import DFV.Lemmas.C18Grid
import DFV.Lemmas.C18Box
/-! Field-level lemmas for C18: the resampled values. -/
namespace DFV.C18
open DFV DFV.Mesh

/-- `p` passes the bounds test of the interpolator on all three axes -/
def InPad (f : Fld) (p : V3) : Prop :=
  ∀ a, a < 3 → gridNode f.mesh a 0 ≤ p.get a ∧ p.get a ≤ gridNode f.mesh a (f.mesh.nAt a + 1)

theorem inBounds_iff (g : Nat → Rat) (m : Nat) (x : Rat) : inBounds g m x = true ↔ g 0 ≤ x ∧ x ≤ g (m + 1) := by
  unfold inBounds; simp

theorem locOf_some (f : Fld) (p : V3) (h : InPad f p) :
    locOf f p = some ⟨findIdx (gridNode f.mesh 0) p.x (f.mesh.nAt 0), findIdx (gridNode f.mesh 1) p.y (f.mesh.nAt 1),
      findIdx (gridNode f.mesh 2) p.z (f.mesh.nAt 2),
      frac (gridNode f.mesh 0) (findIdx (gridNode f.mesh 0) p.x (f.mesh.nAt 0)) p.x,
      frac (gridNode f.mesh 1) (findIdx (gridNode f.mesh 1) p.y (f.mesh.nAt 1)) p.y,
      frac (gridNode f.mesh 2) (findIdx (gridNode f.mesh 2) p.z (f.mesh.nAt 2)) p.z⟩ := by
  unfold locOf
  exact locate_some _ _ _ _ _ _ p ((inBounds_iff _ _ _).mpr (h 0 (by omega)))
    ((inBounds_iff _ _ _).mpr (h 1 (by omega))) ((inBounds_iff _ _ _).mpr (h 2 (by omega)))

theorem locOf_none (f : Fld) (p : V3) (h : ¬ InPad f p) : locOf f p = none := by
  unfold locOf
  apply locate_none
  by_contra hc
  apply h
  simp only [not_or, Bool.not_eq_false] at hc
  intro a ha
  have : a = 0 ∨ a = 1 ∨ a = 2 := by omega
  rcases this with e | e | e <;> subst e
  · exact (inBounds_iff _ _ _).mp hc.1
  · exact (inBounds_iff _ _ _).mp hc.2.1
  · exact (inBounds_iff _ _ _).mp hc.2.2

theorem valuesAt_getD (f : Fld) (R : M3) (ord : List Nat) (p : V3) (c : Nat) (hc : c < f.nvdim) :
    (valuesAt f R ord p).getD c 0 = interpAt (padded f R ord c) (locOf f p) := by
  unfold valuesAt
  exact getD_tab _ _ _ _ hc

theorem origAt_getD (f : Fld) (p : V3) (c : Nat) (hc : c < f.nvdim) :
    (origAt f p).getD c 0 = interpAt (paddedOrig f c) (locOf f p) := by
  unfold origAt
  exact getD_tab _ _ _ _ hc

theorem valuesAt_length (f : Fld) (R : M3) (ord : List Nat) (p : V3) : (valuesAt f R ord p).length = f.nvdim := by
  unfold valuesAt; simp

theorem origAt_length (f : Fld) (p : V3) : (origAt f p).length = f.nvdim := by
  unfold origAt; simp

/-- scalar fields: the rotation does not touch the values -/
theorem padded_scalar (f : Fld) (R : M3) (ord : List Nat) (c : Nat) (h1 : f.nvdim = 1) :
    padded f R ord c = paddedOrig f c := by
  funext i j k
  unfold padded paddedOrig rotVal
  rw [if_pos h1]

theorem invAt_lt (ord : List Nat) (c : Nat) : invAt ord c < 3 := by
  unfold invAt; split <;> [omega; (split <;> omega)]

/-- vector fields: every rotated component is a fixed linear combination of three original components -/
theorem padded_vector (f : Fld) (R : M3) (ord : List Nat) (c : Nat) (h3 : f.nvdim = 3) (hc : c < 3) :
    padded f R ord c = fun i j k =>
      R.e (invAt ord c) 0 * paddedOrig f (ord.getD 0 0) i j k + R.e (invAt ord c) 1 * paddedOrig f (ord.getD 1 0) i j k
        + R.e (invAt ord c) 2 * paddedOrig f (ord.getD 2 0) i j k := by
  funext i j k
  unfold padded paddedOrig rotVal
  rw [if_neg (by omega), getD_tab _ _ _ _ hc, M3.apply_get]

/-- interior bracket: between the centres of cells `k` and `k + 1` -/
def Between (m : Mesh) (a k : Nat) (x : Rat) : Prop :=
  centreRel m a k ≤ x ∧ x < centreRel m a (k + 1) ∧ k + 1 < m.nAt a

theorem gridNode_centreRel (m : Mesh) (a : Nat) (h : AxOk m a) (k : Nat) (hk : k < m.nAt a) :
    gridNode m a (k + 1) = centreRel m a k := by
  rw [gridNode_interior m a h (k + 1) (by omega) (by omega)]
  unfold centreRel
  simp

theorem centreRel_step (m : Mesh) (a k : Nat) : centreRel m a (k + 1) - centreRel m a k = m.cellAt a := by
  unfold centreRel; push_cast; ring

theorem findIdx_between (m : Mesh) (a : Nat) (h : AxOk m a) (k : Nat) (x : Rat) (hb : Between m a k x) :
    findIdx (gridNode m a) x (m.nAt a) = k + 1 := by
  obtain ⟨h1, h2, h3⟩ := hb
  apply findIdx_eq _ _ _ _ (by omega)
  · left; rw [gridNode_centreRel m a h k (by omega)]; exact h1
  · intro j hj hjm
    have hk2 : gridNode m a (k + 2) = centreRel m a (k + 1) := gridNode_centreRel m a h (k + 1) (by omega)
    by_cases e : j = k + 2
    · subst e; rw [hk2]; exact h2
    · have := gridNode_mono m a h (k + 2) j (by omega) (by omega)
      rw [hk2] at this
      linarith

theorem between_inPad (m : Mesh) (a : Nat) (h : AxOk m a) (k : Nat) (x : Rat) (hb : Between m a k x) :
    gridNode m a 0 ≤ x ∧ x ≤ gridNode m a (m.nAt a + 1) := by
  obtain ⟨h1, h2, h3⟩ := hb
  have g1 := gridNode_mono m a h 0 (k + 1) (by omega) (by omega)
  rw [gridNode_centreRel m a h k (by omega)] at g1
  have g2 := gridNode_mono m a h (k + 2) (m.nAt a + 1) (by omega) (by omega)
  rw [gridNode_centreRel m a h (k + 1) (by omega)] at g2
  constructor <;> linarith

theorem frac_between (m : Mesh) (a : Nat) (h : AxOk m a) (k : Nat) (x : Rat) (hk : k + 1 < m.nAt a) :
    frac (gridNode m a) (k + 1) x = (x - centreRel m a k) / m.cellAt a := by
  unfold frac
  rw [gridNode_centreRel m a h k (by omega), show k + 1 + 1 = (k + 1) + 1 from rfl,
      gridNode_centreRel m a h (k + 1) (by omega), centreRel_step]

/-- the interpolant of the original between cell centres is the eight-cell trilinear formula -/
theorem origAt_between (f : Fld) (hm : Mesh3 f.mesh) (p : V3) (k0 k1 k2 : Nat)
    (h0 : Between f.mesh 0 k0 p.x) (h1 : Between f.mesh 1 k1 p.y) (h2 : Between f.mesh 2 k2 p.z)
    (c : Nat) (hc : c < f.nvdim) :
    (origAt f p).getD c 0 = cellInterp f c k0 k1 k2 ((p.x - centreRel f.mesh 0 k0) / f.mesh.cellAt 0)
      ((p.y - centreRel f.mesh 1 k1) / f.mesh.cellAt 1) ((p.z - centreRel f.mesh 2 k2) / f.mesh.cellAt 2) := by
  have hin : InPad f p := by
    intro a ha
    have : a = 0 ∨ a = 1 ∨ a = 2 := by omega
    rcases this with e | e | e <;> subst e
    · exact between_inPad _ _ (hm 0 (by omega)) k0 _ h0
    · exact between_inPad _ _ (hm 1 (by omega)) k1 _ h1
    · exact between_inPad _ _ (hm 2 (by omega)) k2 _ h2
  rw [origAt_getD f p c hc, locOf_some f p hin]
  rw [findIdx_between _ _ (hm 0 (by omega)) k0 _ h0, findIdx_between _ _ (hm 1 (by omega)) k1 _ h1,
      findIdx_between _ _ (hm 2 (by omega)) k2 _ h2]
  rw [frac_between _ _ (hm 0 (by omega)) k0 _ h0.2.2, frac_between _ _ (hm 1 (by omega)) k1 _ h1.2.2,
      frac_between _ _ (hm 2 (by omega)) k2 _ h2.2.2]
  unfold cellInterp
  simp only [interpAt]
  apply sum8_congr
  intro e0 e1 e2 he0 he1 he2
  unfold paddedOrig
  have p0 : padIdx (f.mesh.nAt 0) (k0 + 1 + e0) = k0 + e0 := by
    have := h0.2.2; rw [padIdx_interior _ _ (by omega) (by omega)]; omega
  have p1 : padIdx (f.mesh.nAt 1) (k1 + 1 + e1) = k1 + e1 := by
    have := h1.2.2; rw [padIdx_interior _ _ (by omega) (by omega)]; omega
  have p2 : padIdx (f.mesh.nAt 2) (k2 + 1 + e2) = k2 + e2 := by
    have := h2.2.2; rw [padIdx_interior _ _ (by omega) (by omega)]; omega
  rw [p0, p1, p2]

theorem indexOf?_lt (xs : List String) (x : String) (k : Nat) (h : indexOf? xs x = some k) : k < xs.length := by
  have key : ∀ (ys : List String) (off k : Nat), indexOf?.go x ys off = some k → k < off + ys.length ∧ off ≤ k := by
    intro ys
    induction ys with
    | nil => intro off k h; simp [indexOf?.go] at h
    | cons y ys ih =>
      intro off k h
      simp only [indexOf?.go] at h
      split at h
      · injection h with h; subst h; simp
      · have := ih (off + 1) k h
        simp only [List.length_cons]; omega
  have := key xs 0 k h
  omega

theorem ordAt_lt (f : Fld) (a k : Nat) (h : ordAt f a = some k) : k < (f.vdims.getD []).length := by
  unfold ordAt at h
  cases hr : rDimLast f (f.mesh.region.dims.getD a "") with
  | none => rw [hr] at h; simp at h
  | some lbl =>
    rw [hr] at h
    simp only [Option.bind_some] at h
    unfold Fld.vdimIndex at h
    cases hv : f.vdims with
    | none => rw [hv] at h; cases h
    | some vs =>
      rw [hv] at h
      simp only at h
      simpa using indexOf?_lt vs lbl k h

/-- a successful `ordered_idx` of a vector field consists of three valid component positions -/
theorem ordFor_lt (f : Fld) (ord : List Nat) (h : ordFor f = .ok ord) (h1 : f.nvdim ≠ 1) (a : Nat) (ha : a < 3) :
    ord.getD a 0 < (f.vdims.getD []).length := by
  unfold ordFor at h
  rw [if_neg h1] at h
  cases h0 : ordAt f 0 with
  | none => rw [h0] at h; cases h
  | some x =>
    cases h1' : ordAt f 1 with
    | none => rw [h0, h1'] at h; cases h
    | some y =>
      cases h2 : ordAt f 2 with
      | none => rw [h0, h1', h2] at h; cases h
      | some z =>
        rw [h0, h1', h2] at h
        injection h with h
        subst h
        have : a = 0 ∨ a = 1 ∨ a = 2 := by omega
        rcases this with e | e | e <;> subst e
        · exact ordAt_lt f 0 x h0
        · exact ordAt_lt f 1 y h1'
        · exact ordAt_lt f 2 z h2

theorem rotateOnce_ok_inv (f : Fld) (R : M3) (n? : Option (List Nat)) (g : Fld) (h : rotateOnce f R n? = .ok g) :
    ∃ reg nm ord, newRegion f R = .ok reg ∧ Mesh.mkN? reg (n?.getD (autoN f R reg)) = .ok nm ∧
      ordFor f = .ok ord ∧ g = rotated f R ord nm := by
  unfold rotateOnce at h
  cases h1 : newRegion f R with
  | error e => rw [h1] at h; cases h
  | ok reg =>
    rw [h1] at h
    simp only at h
    cases h2 : Mesh.mkN? reg (n?.getD (autoN f R reg)) with
    | error e => rw [h2] at h; cases h
    | ok nm =>
      rw [h2] at h
      simp only at h
      cases h3 : ordFor f with
      | error e => rw [h3] at h; cases h
      | ok ord =>
        rw [h3] at h
        injection h with h
        exact ⟨reg, nm, ord, rfl, h2, rfl, h.symm⟩

theorem mkN?_ok_inv (r : Region) (n : List Nat) (nm : Mesh) (h : Mesh.mkN? r n "" = .ok nm) :
    nm.region = r ∧ nm.n = n ∧ n.length = r.ndim ∧ (∀ k ∈ n, k ≠ 0) ∧ nm.subs = [] := by
  unfold Mesh.mkN? at h
  split at h
  · cases h
  · rename_i hl
    split at h
    · cases h
    · rename_i hz
      split at h
      · cases h
      · injection h with h
        subst h
        refine ⟨rfl, rfl, not_not.mp hl, ?_, rfl⟩
        intro k hk e
        apply hz
        simp only [List.any_eq_true, decide_eq_true_eq]
        exact ⟨k, hk, e⟩

/-- well-formed input of the rotator: three good axes, scalar or 3-vector with three labels -/
def WF (f : Fld) : Prop :=
  Mesh3 f.mesh ∧ (f.nvdim = 1 ∨ (f.nvdim = 3 ∧ (f.vdims.getD []).length = 3))

/-- interpolate-then-rotate equals rotate-then-interpolate (what the code does) -/
theorem valuesAt_eq_rot_origAt (f : Fld) (R : M3) (ord : List Nat) (p : V3)
    (hv : f.nvdim = 1 ∨ (f.nvdim = 3 ∧ ∀ a, a < 3 → ord.getD a 0 < 3)) :
    valuesAt f R ord p = rotVal f.nvdim R ord (origAt f p) := by
  rcases hv with h1 | ⟨h3, ho⟩
  · unfold valuesAt origAt rotVal
    rw [if_pos h1]
    apply tab_congr
    intro c _
    rw [padded_scalar f R ord c h1]
  · unfold valuesAt rotVal
    rw [if_neg (by omega), h3]
    apply tab_congr
    intro c hc
    rw [padded_vector f R ord c h3 hc, interpAt_linear3, M3.apply_get,
      origAt_getD f p _ (by rw [h3]; exact ho 0 (by omega)), origAt_getD f p _ (by rw [h3]; exact ho 1 (by omega)),
      origAt_getD f p _ (by rw [h3]; exact ho 2 (by omega))]

theorem rotated_data (f : Fld) (R : M3) (ord : List Nat) (nm : Mesh) (idx : List Nat) :
    (rotated f R ord nm).data.get idx = valuesAt f R ord (backPos f R nm idx) := rfl

end DFV.C18
