import DFV.Lemmas.C20Keep
/-!
C20 helper lemmas, fourth part: the lightness plot of 2- and 3-component fields reduced to its
final stage with the lightness source spelled out (norm / left-over component / given field).
-/
namespace DFV.C20
open DFV

/-- `field.norm` of a 2-component field as the scalar field handed on as `lightness_field` -/
def normField (sqrtF : Rat → Rat) (f : Fld) : Fld :=
  { validAsField f with data := ⟨f.mesh.n, fun i => [sqrtF (normSq (f.data.get i))]⟩ }

/-- the in-plane angle token of every cell for the component numbers `cx`, `cy` -/
def angleHue (f : Fld) (cx cy : Nat) : List Nat → Hue :=
  fun i => .angle ((f.data.get i).getD cy 0) ((f.data.get i).getD cx 0)

/-- where the lightness of a 2- or 3-component field comes from -/
inductive LightSource (sqrtF : Rat → Rat) (f : Fld) (o : Opts) : Fld → Prop where
  /-- a `lightness_field` was given -/
  | given (g : Fld) (h : o.aux = some g) : LightSource sqrtF f o g
  /-- 2 components, nothing given: `field.norm` -/
  | norm (h : o.aux = none) (h2 : f.nvdim = 2) : LightSource sqrtF f o (normField sqrtF f)
  /-- 3 components, nothing given: the component not mapped to a plot axis -/
  | third (h : o.aux = none) (h3 : f.nvdim = 3) (hm : f.vmap.isEmpty = false) (c : Nat)
      (hc : thirdComp f (inplaneVdims f) o.pick = .ok c) : LightSource sqrtF f o (compField f c)

theorem opts_with_aux (o : Opts) (g : Fld) (h : o.aux = some g) : { o with aux := some g } = o := by
  cases o
  simp_all

/-- **Lightness of a vector field, inverted**: a successful lightness plot of a 2- or
3-component field IS the final stage run with the multiplier, colour limits and filter of the
call, the hue token `angle(comp_y, comp_x)` of the mapped components, and the lightness
source `L` (given field / norm / left-over component) -/
theorem mplLightness_vec_inv (sqrtF : Rat → Rat) (f : Fld) (o : Opts) (calls : List PlotCall)
    (hnv : f.nvdim = 2 ∨ f.nvdim = 3) (h : mplLightness sqrtF f o = .ok calls) :
    f.mesh.region.ndim = 2 ∧
    ∃ cx cy lx ly vs L, (lx, f.mesh.region.dims.getD 0 "") ∈ f.vmap ∧
      (ly, f.mesh.region.dims.getD 1 "") ∈ f.vmap ∧ f.vdims = some vs ∧
      vs.getD cx "" = lx ∧ vs.getD cy "" = ly ∧ LightSource sqrtF f o L ∧
      lightCore f { o with aux := some L } (angleHue f cx cy) ⟨f.mesh.n, fun _ => 0⟩ (filterOf f o)
        = .ok calls := by
  have fin : ∀ (xy : Nat × Nat) (L : Fld), angleComps f = .ok xy → LightSource sqrtF f o L →
      lightCore f { o with aux := some L }
        (fun i => .angle ((f.data.get i).getD xy.2 0) ((f.data.get i).getD xy.1 0))
        ⟨f.mesh.n, fun _ => 0⟩ (filterOf f o) = .ok calls →
      ∃ cx cy lx ly vs L, (lx, f.mesh.region.dims.getD 0 "") ∈ f.vmap ∧
        (ly, f.mesh.region.dims.getD 1 "") ∈ f.vmap ∧ f.vdims = some vs ∧
        vs.getD cx "" = lx ∧ vs.getD cy "" = ly ∧ LightSource sqrtF f o L ∧
        lightCore f { o with aux := some L } (angleHue f cx cy) ⟨f.mesh.n, fun _ => 0⟩ (filterOf f o)
          = .ok calls := by
    intro xy L hxy hL hcore
    obtain ⟨cx, cy⟩ := xy
    obtain ⟨lx, ly, hx, hy, hix, hiy⟩ := angleComps_ok_inv f cx cy hxy
    obtain ⟨vs, hvs, hvx⟩ := vdimIndex_spec f lx cx hix
    obtain ⟨vs', hvs', hvy⟩ := vdimIndex_spec f ly cy hiy
    rw [hvs] at hvs'
    injection hvs' with hvs'
    subst hvs'
    exact ⟨cx, cy, lx, ly, vs, L, rDimLast_mem f _ lx hx, rDimLast_mem f _ ly hy, hvs, hvx, hvy, hL, hcore⟩
  unfold mplLightness at h
  split at h
  · cases h
  · rename_i hd
    refine ⟨not_not.mp hd, ?_⟩
    split at h
    · -- two components
      rename_i h2
      split at h
      · cases h
      · rename_i xy hxy
        cases ha : o.aux with
        | none =>
          rw [ha] at h
          exact fin xy _ hxy (.norm ha h2) h
        | some g =>
          rw [ha] at h
          exact fin xy g hxy (.given g ha) h
    · rename_i hn2
      split at h
      · -- three components
        rename_i h3
        split at h
        · rename_i g ha
          split at h
          · cases h
          · rename_i xy hxy
            rw [← opts_with_aux o g ha] at h
            exact fin xy g hxy (.given g ha) h
        · rename_i ha
          split at h
          · cases h
          · rename_i hm
            split at h
            · cases h
            · rename_i c hc
              split at h
              · cases h
              · rename_i xy hxy
                exact fin xy _ hxy (.third ha h3 (by simpa using hm) c hc) h
      · rename_i hn3
        rcases hnv with h' | h'
        · exact absurd h' hn2
        · exact absurd h' hn3

/-- every lightness plot is the final stage with the multiplier and filter of the call -/
theorem mplLightness_core_inv (sqrtF : Rat → Rat) (f : Fld) (o : Opts) (calls : List PlotCall)
    (h : mplLightness sqrtF f o = .ok calls) :
    f.mesh.region.ndim = 2 ∧ ∃ o' hue dflt, o'.mult = o.mult ∧ o'.clim = o.clim ∧
      lightCore f o' hue dflt (filterOf f o) = .ok calls := by
  by_cases hnv : f.nvdim = 2 ∨ f.nvdim = 3
  · obtain ⟨h2, cx, cy, _, _, _, L, _, _, _, _, _, _, hc⟩ := mplLightness_vec_inv sqrtF f o calls hnv h
    exact ⟨h2, { o with aux := some L }, _, _, rfl, rfl, hc⟩
  · unfold mplLightness at h
    split at h
    · cases h
    · rename_i hd
      rw [if_neg (by omega), if_neg (by omega)] at h
      split at h
      · cases h
      · exact ⟨not_not.mp hd, o, _, _, rfl, rfl, h⟩

/-- the lightness source is a scalar field on the mesh of the plotted field unless it was given -/
theorem lightSource_same_n (sqrtF : Rat → Rat) (f : Fld) (o : Opts) (L : Fld)
    (hL : LightSource sqrtF f o L) (hnone : o.aux = none) :
    L.mesh = f.mesh ∧ L.nvdim = 1 := by
  cases hL with
  | given g h => rw [hnone] at h; cases h
  | norm _ _ => exact ⟨rfl, rfl⟩
  | third _ _ _ c _ => exact ⟨rfl, rfl⟩

end DFV.C20
