import DFV.Lemmas.C05
/-! helper lemmas for the quarter-turn part of C05: stencil reversal, geometry of `rot90Fld`,
derivatives of the turned field, array shapes of results, sums with two terms exchanged -/
set_option linter.unusedSimpArgs false
namespace DFV.C05
open DFV DFV.C04

theorem swapAt_length {α} [Inhabited α] (xs : List α) (a b : Nat) : (swapAt xs a b).length = xs.length := by
  unfold swapAt; rw [setAt_length, setAt_length]

theorem swapAt_getD_left {α} [Inhabited α] (xs : List α) (a b : Nat) (d : α) (hab : a ≠ b) (ha : a < xs.length) :
    (swapAt xs a b).getD a d = xs.getD b default := by
  unfold swapAt
  rw [getD_setAt_ne _ _ _ _ _ hab, getD_setAt_same _ _ _ _ ha]

theorem swapAt_getD_right {α} [Inhabited α] (xs : List α) (a b : Nat) (d : α) (hb : b < xs.length) :
    (swapAt xs a b).getD b d = xs.getD a default := by
  unfold swapAt
  rw [getD_setAt_same _ _ _ _ (by rw [setAt_length]; exact hb)]

theorem swapAt_getD_other {α} [Inhabited α] (xs : List α) (a b e : Nat) (d : α) (hea : e ≠ a) (heb : e ≠ b) :
    (swapAt xs a b).getD e d = xs.getD e d := by
  unfold swapAt
  rw [getD_setAt_ne _ _ _ _ _ heb, getD_setAt_ne _ _ _ _ _ hea]

theorem regionMk_ok {p1 p2 : List Rat} {dims units : List String} {tol : Rat} {r : Region}
    (h : Region.mk? p1 p2 (some dims) (some units) tol = .ok r) :
    r.pmin = tab p1.length (fun x => min (p1.getD x 0) (p2.getD x 0)) ∧
    r.pmax = tab p1.length (fun x => max (p1.getD x 0) (p2.getD x 0)) ∧ r.dims = dims ∧ r.units = units := by
  unfold Region.mk? at h
  split at h
  · cases h
  · split at h
    · cases h
    · unfold Region.dimsOk Region.unitsOk at h
      simp only [] at h
      split at h
      · cases h
      · rename_i d hd
        split at hd
        · cases hd
        · split at hd
          · cases hd
          · injection hd with hd; subst hd
            split at h
            · cases h
            · rename_i u hu
              split at hu
              · cases hu
              · injection hu with hu; subst hu
                split at h
                · cases h
                · injection h with h; subst h
                  exact ⟨rfl, rfl, rfl, rfl⟩


theorem dims_ne_of_ne (f : Fld) (hd : DimsOk f) (a b : Nat) (ha : a < f.mesh.ndim) (hb : b < f.mesh.ndim) (hab : a ≠ b) :
    f.mesh.region.dims.getD a "" ≠ f.mesh.region.dims.getD b "" := by
  intro he
  have h1 := indexOf?_getD f.mesh.region.dims a hd.2 (by rw [hd.1]; exact ha)
  have h2 := indexOf?_getD f.mesh.region.dims b hd.2 (by rw [hd.1]; exact hb)
  rw [he, h2] at h1
  injection h1 with h1
  exact hab h1.symm

/-- `periodic` in list form: some character of `bc` is the whole axis name -/
def perL (bc d : String) : Bool := bc.toList.any fun ch => decide ([ch] = d.toList)

/-- `bc` is one of the two words that name a non-periodic boundary condition -/
def isWord (bc : String) : Bool := bc == "neumann" || bc == "dirichlet"

theorem periodicBc_eq_perL (bc d : String) : C04.periodicBc bc d = (!(isWord bc) && perL bc d) := by
  unfold C04.periodicBc perL isWord
  congr 2
  funext ch
  rw [Bool.eq_iff_iff]
  simp only [beq_iff_eq, decide_eq_true_eq]
  rw [← String.toList_inj, String.toList_singleton]

/-- since repo fix 61bf94db: periodic = `bc` is no word and one of its characters is the whole axis name -/
theorem periodic_eq_perL (f : Fld) (ax : Nat) :
    periodic f ax = (!(isWord f.mesh.bc) && perL f.mesh.bc (f.mesh.region.dims.getD ax "")) :=
  periodicBc_eq_perL _ _

theorem swapChar_spec (da db : String) (ca cb : Char) (ha : da.toList = [ca]) (hb : db.toList = [cb]) (c : Char) :
    swapChar da db c = if c = ca then cb else if c = cb then ca else c := by
  unfold swapChar
  rw [ha, hb]
  simp

theorem perL_turn (bc da db d : String) (ca cb : Char) (ha : da.toList = [ca]) (hb : db.toList = [cb]) (hne : ca ≠ cb) :
    perL (String.ofList (bc.toList.map (swapChar da db))) d
      = perL bc (if d = da then db else if d = db then da else d) := by
  unfold perL
  rw [String.toList_ofList, List.any_map]
  congr 1
  funext ch
  simp only [Function.comp]
  rw [swapChar_spec da db ca cb ha hb]
  by_cases h1 : d = da
  · subst h1
    simp only [if_true, ha, hb]
    by_cases c1 : ch = ca
    · subst c1; simp [hne, Ne.symm hne]
    · by_cases c2 : ch = cb
      · subst c2; simp [c1]
      · simp [c1, c2]
  · by_cases h2 : d = db
    · subst h2
      simp only [h1, if_false, if_true, ha, hb]
      by_cases c1 : ch = ca
      · subst c1; simp
      · by_cases c2 : ch = cb
        · subst c2; simp [c1, hne]
        · simp [c1, c2]
    · simp only [h1, h2, if_false]
      have n1 : d.toList ≠ [ca] := by intro e; apply h1; rw [← String.toList_inj, e, ha]
      have n2 : d.toList ≠ [cb] := by intro e; apply h2; rw [← String.toList_inj, e, hb]
      by_cases c1 : ch = ca
      · subst c1
        simp only [if_true]
        have : ¬ ([cb] = d.toList) := fun e => n2 e.symm
        have : ¬ ([ch] = d.toList) := fun e => n1 e.symm
        simp [*]
      · by_cases c2 : ch = cb
        · subst c2
          simp only [c1, if_false, if_true]
          have : ¬ ([ca] = d.toList) := fun e => n1 e.symm
          have : ¬ ([ch] = d.toList) := fun e => n2 e.symm
          simp [*]
        · simp [c1, c2]


theorem perL_empty (d : String) : perL "" d = false := by
  unfold perL
  have : ("" : String).toList = [] := by decide
  rw [this]; rfl

theorem single_of_length (s : String) (h : s.toList.length = 1) : ∃ c, s.toList = [c] := by
  match hq : s.toList, h with
  | [c], _ => exact ⟨c, rfl⟩

theorem swapChar_invol (da db : String) (ca cb : Char) (ha : da.toList = [ca]) (hb : db.toList = [cb]) (c : Char) :
    swapChar da db (swapChar da db c) = c := by
  rw [swapChar_spec da db ca cb ha hb, swapChar_spec da db ca cb ha hb]
  by_cases h1 : c = ca
  · subst h1
    by_cases h3 : cb = c
    · simp [h3]
    · simp [h3]
  · by_cases h2 : c = cb
    · subst h2; simp [h1]
    · simp [h1, h2]

theorem map_swapChar_invol (da db : String) (ca cb : Char) (ha : da.toList = [ca]) (hb : db.toList = [cb]) (l : List Char) :
    (l.map (swapChar da db)).map (swapChar da db) = l := by
  rw [List.map_map]
  conv_rhs => rw [← List.map_id l]
  apply List.map_congr_left
  intro c _
  exact swapChar_invol da db ca cb ha hb c

theorem filter_two (a b c : List Char) (x : Char) : 2 ≤ ((a ++ x :: b ++ x :: c).filter (· = x)).length := by
  simp [List.filter_append, List.filter_cons]; omega

/-- a string in which every character occurs once is neither of the two words, however its
characters are renamed -/
theorem not_word_of_distinct (l : List Char) (φ : Char → Char)
    (hall : ∀ c ∈ l, (l.filter (· = c)).length = 1) :
    l ≠ ("neumann".toList).map φ ∧ l ≠ ("dirichlet".toList).map φ := by
  constructor
  · intro h
    have e : ("neumann".toList).map φ = [] ++ φ 'n' :: [φ 'e', φ 'u', φ 'm', φ 'a'] ++ φ 'n' :: [φ 'n'] := by
      have : "neumann".toList = ['n', 'e', 'u', 'm', 'a', 'n', 'n'] := by decide
      rw [this]; rfl
    rw [e] at h
    have h1 := hall (φ 'n') (by rw [h]; simp)
    have h2 := filter_two [] [φ 'e', φ 'u', φ 'm', φ 'a'] [φ 'n'] (φ 'n')
    rw [← h] at h2
    omega
  · intro h
    have e : ("dirichlet".toList).map φ = [φ 'd'] ++ φ 'i' :: [φ 'r'] ++ φ 'i' :: [φ 'c', φ 'h', φ 'l', φ 'e', φ 't'] := by
      have : "dirichlet".toList = ['d', 'i', 'r', 'i', 'c', 'h', 'l', 'e', 't'] := by decide
      rw [this]; rfl
    rw [e] at h
    have h1 := hall (φ 'i') (by rw [h]; simp)
    have h2 := filter_two [φ 'd'] [φ 'r'] [φ 'c', φ 'h', φ 'l', φ 'e', φ 't'] (φ 'i')
    rw [← h] at h2
    omega

/-- the condition under which `Mesh.rotate90` exchanges the two axis names in `bc` (odd `k`) -/
def swapCond (bc da db : String) : Bool :=
  !(bc == "neumann" || bc == "dirichlet" || bc == "") && da.toList.length == 1 && db.toList.length == 1
    && da == da.toLower && db == db.toLower

theorem rotBc1_swap (bc da db : String) (h : swapCond bc da db = true) :
    rotBc1 bc da db = String.ofList (bc.toList.map (swapChar da db)) := by
  unfold rotBc1; unfold swapCond at h; rw [if_pos h]

theorem rotBc1_noswap (bc da db : String) (h : ¬ swapCond bc da db = true) : rotBc1 bc da db = bc := by
  unfold rotBc1; unfold swapCond at h; rw [if_neg h]

theorem swapCond_parts {bc da db : String} (h : swapCond bc da db = true) :
    bc ≠ "neumann" ∧ bc ≠ "dirichlet" ∧ bc ≠ "" ∧ da.toList.length = 1 ∧ db.toList.length = 1 ∧
    da.toLower = da ∧ db.toLower = db := by
  unfold swapCond at h
  simp only [Bool.and_eq_true, Bool.not_eq_true', Bool.or_eq_false_iff, beq_eq_false_iff_ne, beq_iff_eq, ne_eq] at h
  obtain ⟨⟨⟨⟨⟨⟨w1, w2⟩, w3⟩, s1⟩, s2⟩, l1⟩, l2⟩ := h
  exact ⟨w1, w2, w3, s1, s2, l1.symm, l2.symm⟩

theorem swapCond_of {bc da db : String} (w1 : bc ≠ "neumann") (w2 : bc ≠ "dirichlet") (w3 : bc ≠ "")
    (s1 : da.toList.length = 1) (s2 : db.toList.length = 1) (l1 : da.toLower = da) (l2 : db.toLower = db) :
    swapCond bc da db = true := by
  unfold swapCond
  simp only [Bool.and_eq_true, Bool.not_eq_true', Bool.or_eq_false_iff, beq_eq_false_iff_ne, beq_iff_eq, ne_eq]
  exact ⟨⟨⟨⟨⟨⟨w1, w2⟩, w3⟩, s1⟩, s2⟩, l1.symm⟩, l2.symm⟩

/-- a `bc` the mesh accepts and that is exchanged stays none of the two words -/
theorem swapped_not_word (dims : List String) (bc da db : String) (hok : Mesh.bcOk dims bc = true)
    (h : swapCond bc da db = true) : isWord (String.ofList (bc.toList.map (swapChar da db))) = false := by
  obtain ⟨w1, w2, w3, s1, s2, _, _⟩ := swapCond_parts h
  obtain ⟨ca, hca⟩ := single_of_length _ s1
  obtain ⟨cb, hcb⟩ := single_of_length _ s2
  have hall : ∀ c ∈ bc.toList, (bc.toList.filter (· = c)).length = 1 := by
    unfold Mesh.bcOk at hok
    simp only [Bool.or_eq_true, decide_eq_true_eq, w1, w2, w3, false_or, List.all_eq_true, Bool.and_eq_true] at hok
    intro c hc
    exact (hok c hc).2
  have hinv := map_swapChar_invol da db ca cb hca hcb
  obtain ⟨n1, n2⟩ := not_word_of_distinct bc.toList (swapChar da db) hall
  unfold isWord
  simp only [Bool.or_eq_false_iff, beq_eq_false_iff_ne, ne_eq]
  constructor
  · intro h
    apply n1
    have := congrArg String.toList h
    rw [String.toList_ofList] at this
    rw [← this, hinv]
  · intro h
    apply n2
    have := congrArg String.toList h
    rw [String.toList_ofList] at this
    rw [← this, hinv]

theorem isWord_false_of {bc : String} (w1 : bc ≠ "neumann") (w2 : bc ≠ "dirichlet") : isWord bc = false := by
  unfold isWord; simp [w1, w2]

/-- on a word or an empty `bc` no axis is periodic (repo fix 61bf94db) -/
theorem periodic_false_of_noswap_word (f : Fld) (x : Nat)
    (h : f.mesh.bc = "neumann" ∨ f.mesh.bc = "dirichlet" ∨ f.mesh.bc = "") : periodic f x = false := by
  rw [periodic_eq_perL]
  rcases h with h | h | h
  · rw [h]; simp [isWord]
  · rw [h]; simp [isWord]
  · rw [h, perL_empty]; simp

/-- periodicity after the turn: the two axes of the plane exchange it, every other axis keeps it
(`hok`: the `bc` of `f` is one the mesh accepts — needed since repo fix 61bf94db to know that the
exchanged `bc` is none of the words `neumann` / `dirichlet`) -/
theorem periodic_turn (f R : Fld) (a b : Nat) (hd : DimsOk f) (hok : Mesh.bcOk f.mesh.region.dims f.mesh.bc = true)
    (ha : a < f.mesh.ndim) (hb : b < f.mesh.ndim)
    (hab : a ≠ b) (ht : BcTurns f a b) (hdims : R.mesh.region.dims = f.mesh.region.dims)
    (hbc : R.mesh.bc = rotBc1 f.mesh.bc (f.mesh.region.dims.getD a "") (f.mesh.region.dims.getD b "")) :
    periodic R a = periodic f b ∧ periodic R b = periodic f a ∧
    ∀ e, e < f.mesh.ndim → e ≠ a → e ≠ b → periodic R e = periodic f e := by
  have hne := dims_ne_of_ne f hd a b ha hb hab
  by_cases hsw : swapCond f.mesh.bc (f.mesh.region.dims.getD a "") (f.mesh.region.dims.getD b "") = true
  · obtain ⟨w1, w2, _, s1, s2, _, _⟩ := swapCond_parts hsw
    have hw := swapped_not_word _ _ _ _ hok hsw
    have hw0 := isWord_false_of w1 w2
    simp only [periodic_eq_perL, hdims, hbc, rotBc1_swap _ _ _ hsw, hw, hw0, Bool.not_false, Bool.true_and]
    obtain ⟨ca, hca⟩ := single_of_length _ s1
    obtain ⟨cb, hcb⟩ := single_of_length _ s2
    have hcne : ca ≠ cb := by
      intro e; apply hne; rw [← String.toList_inj, hca, hcb, e]
    refine ⟨?_, ?_, ?_⟩
    · rw [perL_turn _ _ _ _ ca cb hca hcb hcne, if_pos rfl]
    · rw [perL_turn _ _ _ _ ca cb hca hcb hcne, if_neg (Ne.symm hne), if_pos rfl]
    · intro e he hea heb
      rw [perL_turn _ _ _ _ ca cb hca hcb hcne]
      have n1 := dims_ne_of_ne f hd e a he ha hea
      have n2 := dims_ne_of_ne f hd e b he hb heb
      rw [if_neg n1, if_neg n2]
  · have hR : ∀ x, periodic R x = periodic f x := by
      intro x; unfold periodic; rw [hdims, hbc, rotBc1_noswap _ _ _ hsw]
    refine ⟨?_, ?_, fun e _ _ _ => hR e⟩
    all_goals
      rw [hR]
      rcases ht with ⟨s1, s2, l1, l2⟩ | hp
      · -- no exchange although both names are single lower-case characters: bc is a word or empty, nothing is periodic
        have hword : f.mesh.bc = "neumann" ∨ f.mesh.bc = "dirichlet" ∨ f.mesh.bc = "" := by
          by_contra hc
          simp only [not_or] at hc
          exact hsw (swapCond_of hc.1 hc.2.1 hc.2.2 s1 s2 l1 l2)
        rw [periodic_false_of_noswap_word f _ hword, periodic_false_of_noswap_word f _ hword]
      · first | exact hp | exact hp.symm

theorem rotMesh_ok (f : Fld) (m' : Mesh) (a b : Nat) (wf : MeshWf f) (ha : a < f.mesh.ndim) (hb : b < f.mesh.ndim)
    (hab : a ≠ b)
    (hlow : (rotBc1 f.mesh.bc (f.mesh.region.dims.getD a "") (f.mesh.region.dims.getD b "")).toLower
      = rotBc1 f.mesh.bc (f.mesh.region.dims.getD a "") (f.mesh.region.dims.getD b ""))
    (h : rotMesh f.mesh (f.mesh.region.dims.getD a "") (f.mesh.region.dims.getD b "") = .ok m') :
    m'.n = swapAt f.mesh.n a b ∧
    m'.bc = rotBc1 f.mesh.bc (f.mesh.region.dims.getD a "") (f.mesh.region.dims.getD b "") ∧ m'.region.dims = f.mesh.region.dims ∧
    m'.region.pmin.length = f.mesh.ndim ∧
    (∀ x, x < f.mesh.ndim → m'.region.edge x = if x = a then f.mesh.region.edge b
        else if x = b then f.mesh.region.edge a else f.mesh.region.edge x) := by
  unfold rotMesh at h
  rw [if_neg (dims_ne_of_ne f wf.dims a b ha hb hab)] at h
  rw [indexOf?_getD _ a wf.dims.2 (by rw [wf.dims.1]; exact ha),
      indexOf?_getD _ b wf.dims.2 (by rw [wf.dims.1]; exact hb)] at h
  simp only [] at h
  split at h
  · cases h
  · rename_i r hr
    split at h
    · cases h
    · rename_i subs hsubs
      split at h
      · cases h
      · rename_i m0 hm0
        injection h with h; subst h
        unfold Mesh.mkN? at hm0
        split at hm0
        · cases hm0
        · split at hm0
          · cases hm0
          · split at hm0
            · cases hm0
            · injection hm0 with hm0; subst hm0
              unfold rotRegion at hr
              obtain ⟨r1, r2, r3, _⟩ := regionMk_ok hr
              have hl : (setAt (setAt f.mesh.region.pmin a
                  ((f.mesh.region.center).getD a 0 - (f.mesh.region.lo b - (f.mesh.region.center).getD b 0))) b
                  ((f.mesh.region.center).getD b 0 + (f.mesh.region.lo a - (f.mesh.region.center).getD a 0))).length
                  = f.mesh.ndim := by
                rw [setAt_length, setAt_length]; rfl
              refine ⟨rfl, hlow, r3, by rw [r1, tab_length, hl], ?_⟩
              intro x hx
              have hpl : f.mesh.region.pmin.length = f.mesh.ndim := rfl
              unfold Region.edge Region.hi Region.lo
              rw [r1, r2, hl, getD_tab _ _ _ _ hx, getD_tab _ _ _ _ hx]
              have pa := wf.pos a ha
              have pb := wf.pos b hb
              have px := wf.pos x hx
              unfold Region.lo Region.hi at pa pb px
              by_cases hxa : x = a
              · subst hxa
                simp only [if_true]
                rw [getD_setAt_ne _ _ _ _ _ hab, getD_setAt_ne _ _ _ _ _ hab,
                  getD_setAt_same _ _ _ _ (by rw [hpl]; exact hx), getD_setAt_same _ _ _ _ (by rw [wf.pmax_len]; exact hx)]
                unfold Region.lo Region.hi
                rw [max_eq_left (by linarith), min_eq_right (by linarith)]
                ring
              · by_cases hxb : x = b
                · subst hxb
                  simp only [hxa, if_false, if_true]
                  rw [getD_setAt_same _ _ _ _ (by rw [setAt_length, hpl]; exact hx),
                    getD_setAt_same _ _ _ _ (by rw [setAt_length, wf.pmax_len]; exact hx)]
                  unfold Region.lo Region.hi
                  rw [max_eq_right (by linarith), min_eq_left (by linarith)]
                  ring
                · simp only [hxa, hxb, if_false]
                  rw [getD_setAt_ne _ _ _ _ _ hxb, getD_setAt_ne _ _ _ _ _ hxa,
                    getD_setAt_ne _ _ _ _ _ hxb, getD_setAt_ne _ _ _ _ _ hxa]
                  rw [max_eq_right (le_of_lt px.1), min_eq_left (le_of_lt px.1)]


/-- the geometry part of a quarter turn -/
theorem isRot90_of_mesh (f R : Fld) (a b : Nat) (wf : MeshWf f) (tw : TurnWf f a b) (ha : a < f.mesh.ndim) (hb : b < f.mesh.ndim)
    (hab : a ≠ b) (hm : rotMesh f.mesh (f.mesh.region.dims.getD a "") (f.mesh.region.dims.getD b "") = .ok R.mesh)
    (hv : R.valid = rot90Arr f.valid a b) (hn : R.nvdim = f.nvdim) : IsRot90 f R a b := by
  obtain ⟨m1, m2, m3, m4, m5⟩ := rotMesh_ok f R.mesh a b wf ha hb hab tw.bc_lower hm
  obtain ⟨pa, pb, pe⟩ := periodic_turn f R a b wf.dims wf.bc_ok ha hb hab tw.turns m3 m2
  have na : R.mesh.nAt a = f.mesh.nAt b := by
    unfold Mesh.nAt; rw [m1, swapAt_getD_left _ _ _ _ hab (by rw [wf.n_len]; exact ha)]; rfl
  have nb : R.mesh.nAt b = f.mesh.nAt a := by
    unfold Mesh.nAt; rw [m1, swapAt_getD_right _ _ _ _ (by rw [wf.n_len]; exact hb)]; rfl
  have ne : ∀ e, e ≠ a → e ≠ b → R.mesh.nAt e = f.mesh.nAt e := by
    intro e hea heb
    unfold Mesh.nAt; rw [m1, swapAt_getD_other _ _ _ _ _ hea heb]
  refine ⟨m4, m3, pa, pb, pe, na, nb, ne, ?_, ?_, ?_, ?_, hn⟩
  · unfold Mesh.cellAt; rw [m5 a ha, na]; simp
  · unfold Mesh.cellAt; rw [m5 b hb, nb]; simp [Ne.symm hab]
  · intro e hea heb
    unfold Mesh.cellAt
    rw [ne e hea heb]
    by_cases he : e < f.mesh.ndim
    · rw [m5 e he]; simp [hea, heb]
    · -- out-of-range axis: both edges are 0
      have h1 : R.mesh.region.edge e = 0 := by
        unfold Region.edge Region.hi Region.lo
        have hl1 : R.mesh.region.pmin.length ≤ e := by rw [m4]; omega
        have hl2 : R.mesh.region.pmax.length ≤ e := by
          -- pmax has the same length as pmin for a constructed region
          unfold rotMesh at hm
          rw [if_neg (dims_ne_of_ne f wf.dims a b ha hb hab)] at hm
          rw [indexOf?_getD _ a wf.dims.2 (by rw [wf.dims.1]; exact ha),
              indexOf?_getD _ b wf.dims.2 (by rw [wf.dims.1]; exact hb)] at hm
          simp only [] at hm
          split at hm
          · cases hm
          · rename_i r hr
            split at hm
            · cases hm
            · split at hm
              · cases hm
              · rename_i m0 hm0
                injection hm with hm
                unfold Mesh.mkN? at hm0
                split at hm0
                · cases hm0
                · split at hm0
                  · cases hm0
                  · split at hm0
                    · cases hm0
                    · injection hm0 with hm0
                      unfold rotRegion at hr
                      obtain ⟨r1, r2, _, _⟩ := regionMk_ok hr
                      have : R.mesh.region = r := by rw [← hm, ← hm0]
                      rw [this, r2, tab_length, setAt_length, setAt_length]
                      have : f.mesh.region.pmin.length = f.mesh.ndim := rfl
                      omega
        simp [List.getD_eq_getElem?_getD, List.getElem?_eq_none hl1, List.getElem?_eq_none hl2]
      have h2 : f.mesh.region.edge e = 0 := by
        unfold Region.edge Region.hi Region.lo
        have hl1 : f.mesh.region.pmin.length ≤ e := by
          have : f.mesh.region.pmin.length = f.mesh.ndim := rfl
          omega
        have hl2 : f.mesh.region.pmax.length ≤ e := by rw [wf.pmax_len]; omega
        simp [List.getD_eq_getElem?_getD, List.getElem?_eq_none hl1, List.getElem?_eq_none hl2]
      rw [h1, h2]
  · intro i
    rw [hv]
    exact ⟨_, rfl⟩

/-- quarter turn of a scalar field: geometry, and every value is moved, none altered -/
theorem rot90Fld_scalar (f R : Fld) (a b : Nat) (wf : MeshWf f) (tw : TurnWf f a b) (hn : f.nvdim = 1) (ha : a < f.mesh.ndim)
    (hb : b < f.mesh.ndim) (hab : a ≠ b)
    (h : rot90Fld f (f.mesh.region.dims.getD a "") (f.mesh.region.dims.getD b "") = .ok R) :
    IsRot90 f R a b ∧ (∀ i, R.data.get i = f.data.get (rotIdx f a b i)) ∧ R.unit = f.unit := by
  unfold rot90Fld at h
  split at h
  · cases h
  · rename_i mesh' hmesh
    rw [indexOf?_getD _ a wf.dims.2 (by rw [wf.dims.1]; exact ha),
        indexOf?_getD _ b wf.dims.2 (by rw [wf.dims.1]; exact hb)] at h
    simp only [] at h
    have h1 : ¬ (1 < f.nvdim) := by omega
    rw [if_neg h1] at h
    obtain ⟨m1, m2, m3, m4, m5, _, m7, _⟩ := mkFld_ok h
    rw [← m1] at hmesh
    refine ⟨isRot90_of_mesh f R a b wf tw ha hb hab hmesh m4 m2, ?_, m5⟩
    · intro i
      rw [m3]
      unfold rot90Arr rotIdx Mesh.nAt
      simp only []
      rw [wf.data_shape]


theorem lineD_smul (p : Bool) (o : Nat) (h : Rat) (L : Nat) (s : Rat) (g : Nat → Rat) (i : Nat) :
    lineD p o h L (fun k => s * g k) i = s * lineD p o h L g i := by
  obtain ⟨a0, a1, a2, a3, s0, s1, s2, s3, hA⟩ := lineD_taps p o h L i
  simp only [hA]
  ring

/-- reversing a fully valid line (open or periodic) mirrors the stencil; the first
derivative changes sign, the second does not -/
theorem lineD_reverse (p : Bool) (o : Nat) (h : Rat) (L : Nat) (g : Nat → Rat) (i : Nat) (hi : i < L) :
    lineD p o h L (fun k => g (L - 1 - k)) i = revSign o * lineD p o h L g (L - 1 - i) := by
  unfold lineD revSign
  cases p with
  | false =>
    simp only [Bool.false_eq_true, if_false]
    unfold dAt
    by_cases ho : o = 1
    · simp only [ho, if_true]
      rw [d1At_reverse h L g i hi]; ring
    · simp only [ho, if_false]
      rw [d2At_reverse h L g i hi]; ring
  | true =>
    simp only [if_true]
    have e1 : L - 1 - (i + 1) % L = (L - 1 - i + L - 1) % L := by
      by_cases hl : i + 1 < L
      · rw [Nat.mod_eq_of_lt hl]
        have : L - 1 - i + L - 1 = (L - 1 - (i + 1)) + L := by omega
        rw [this, Nat.add_mod_right, Nat.mod_eq_of_lt (by omega)]
      · have : i + 1 = L := by omega
        rw [this, Nat.mod_self]
        have : L - 1 - i + L - 1 = L - 1 := by omega
        rw [this, Nat.mod_eq_of_lt (by omega)]
        omega
    have e2 : L - 1 - (i + L - 1) % L = (L - 1 - i + 1) % L := by
      by_cases h0 : i = 0
      · subst h0
        have : 0 + L - 1 = L - 1 := by omega
        rw [this, Nat.mod_eq_of_lt (by omega)]
        have : L - 1 - 0 + 1 = L := by omega
        rw [this, Nat.mod_self]; omega
      · have : i + L - 1 = (i - 1) + L := by omega
        rw [this, Nat.add_mod_right, Nat.mod_eq_of_lt (by omega)]
        have : L - 1 - i + 1 = L - 1 - (i - 1) := by omega
        rw [this, Nat.mod_eq_of_lt (by omega)]
    have e3 : L - 1 - i % L = (L - 1 - i) % L := by
      rw [Nat.mod_eq_of_lt hi, Nat.mod_eq_of_lt (by omega)]
    by_cases ho : o = 1
    · simp only [ho, if_true]
      rw [e1, e2]; ring
    · simp only [ho, if_false]
      rw [e1, e2, e3]; ring


theorem fullyValid_rot {f R : Fld} {a b : Nat} (hr : IsRot90 f R a b) (hf : FullyValid f) : FullyValid R :=
  fun i => by obtain ⟨j, hj⟩ := hr.valid i; rw [hj]; exact hf j

theorem tab_reverse {α} (n : Nat) (g : Nat → α) : (tab n g).reverse = tab n (fun j => g (n - 1 - j)) := by
  apply List.ext_getElem
  · simp
  · intro i h1 h2
    have hi : i < n := by simpa using h1
    rw [List.getElem_reverse, getElem_tab, getElem_tab]
    simp only [tab_length]

theorem tab_map {α β} (n : Nat) (g : Nat → α) (φ : α → β) : (tab n g).map φ = tab n (fun j => φ (g j)) := by
  unfold tab; simp

/-- entry of a reversed, scaled list -/
theorem getD_map_reverse (Y : List Rat) (σ : Rat → Rat) (i : Nat) (hi : i < Y.length) :
    ((Y.map σ).reverse).getD i 0 = σ (Y.getD (Y.length - 1 - i) 0) := by
  rw [List.getD_eq_getElem?_getD, List.getElem?_reverse (by simpa using hi), List.length_map, List.getElem?_map,
    List.getD_eq_getElem?_getD, List.getElem?_eq_getElem (by omega)]
  rfl

theorem getD_map_mul (Y : List Rat) (s : Rat) (k : Nat) : (Y.map (s * ·)).getD k 0 = s * Y.getD k 0 := by
  simp only [List.getD_eq_getElem?_getD, List.getElem?_map]
  cases Y[k]? <;> simp

/-- `D` in terms of the cells of the line -/
theorem D_eq_cells (f : Fld) (ax o c : Nat) (i : List Nat) :
    D f ax o c i = (diffLine' (periodic f ax) true o (f.mesh.cellAt ax) (lineCells f ax i c)).getD (i.getD ax 0) 0 := rfl

/-- derivative of the turned field along the FIRST axis of the plane = (sign) derivative of the
original along the SECOND axis at the cell the value came from: the line (values AND validity) is
the old line along `b`, run backwards — every mask -/
theorem D_rot_a (f R : Fld) (a b c c' o : Nat) (s : Rat) (i : List Nat) (hr : IsRot90 f R a b)
    (hab : a ≠ b) (hla : a < i.length) (hlb : b < i.length)
    (hia : i.getD a 0 < f.mesh.nAt b)
    (hdata : ∀ i', (R.data.get i').getD c 0 = s * (f.data.get (rotIdx f a b i')).getD c' 0)
    (hvalid : ∀ i', R.valid.get i' = f.valid.get (rotIdx f a b i')) :
    D R a o c i = revSign o * s * D f b o c' (rotIdx f a b i) := by
  have hrb : (rotIdx f a b i).getD b 0 = f.mesh.nAt b - 1 - i.getD a 0 := by
    unfold rotIdx; rw [getD_setAt_same _ _ _ _ (by rw [setAt_length]; exact hlb)]
  have hidx : ∀ k, rotIdx f a b (setAt i a k) = setAt (rotIdx f a b i) b (f.mesh.nAt b - 1 - k) := by
    intro k
    unfold rotIdx
    rw [getD_setAt_ne _ _ _ _ _ (Ne.symm hab), getD_setAt_same _ _ _ _ hla, setAt_setAt_same, setAt_setAt_same]
  have hcells : lineCells R a i c
      = ((lineCells f b (rotIdx f a b i) c').map fun p => (s * p.1, p.2)).reverse := by
    unfold lineCells
    rw [tab_map, tab_reverse, hr.n_a]
    apply tab_congr
    intro j hj
    unfold NDA.line
    rw [hdata, hvalid, hidx]
  rw [D_eq_cells, D_eq_cells, hcells, diffLine'_reverse, diffLine'_smul, hr.per_a, hr.h_a, hrb]
  rw [List.map_map, getD_map_reverse _ _ _ (by rw [diffLine'_length, lineCells_length]; exact hia),
    diffLine'_length, lineCells_length]
  simp only [Function.comp]
  ring

/-- … along the SECOND axis of the plane = derivative of the original along the FIRST axis -/
theorem D_rot_b (f R : Fld) (a b c c' o : Nat) (s : Rat) (i : List Nat) (hr : IsRot90 f R a b)
    (hab : a ≠ b) (hla : a < i.length) (hlb : b < i.length)
    (hdata : ∀ i', (R.data.get i').getD c 0 = s * (f.data.get (rotIdx f a b i')).getD c' 0)
    (hvalid : ∀ i', R.valid.get i' = f.valid.get (rotIdx f a b i')) :
    D R b o c i = s * D f a o c' (rotIdx f a b i) := by
  have hra : (rotIdx f a b i).getD a 0 = i.getD b 0 := by
    unfold rotIdx; rw [getD_setAt_ne _ _ _ _ _ hab, getD_setAt_same _ _ _ _ hla]
  have hidx : ∀ k, rotIdx f a b (setAt i b k) = setAt (rotIdx f a b i) a k := by
    intro k
    unfold rotIdx
    rw [getD_setAt_same _ _ _ _ hlb, getD_setAt_ne _ _ _ _ _ hab]
    rw [setAt_comm _ b a _ _ (Ne.symm hab), setAt_setAt_same]
    rw [setAt_comm (setAt i a (i.getD b 0)) b a _ _ (Ne.symm hab), setAt_setAt_same]
  have hcells : lineCells R b i c = (lineCells f a (rotIdx f a b i) c').map fun p => (s * p.1, p.2) := by
    unfold lineCells
    rw [tab_map, hr.n_b]
    apply tab_congr
    intro j hj
    unfold NDA.line
    rw [hdata, hvalid, hidx]
  rw [D_eq_cells, D_eq_cells, hcells, diffLine'_smul, hr.per_b, hr.h_b, hra]
  exact getD_map_mul _ _ _

/-- … along an axis outside the plane: unchanged -/
theorem D_rot_e (f R : Fld) (a b e c c' o : Nat) (s : Rat) (i : List Nat) (hr : IsRot90 f R a b)
    (he : e < f.mesh.ndim) (hea : e ≠ a) (heb : e ≠ b)
    (hdata : ∀ i', (R.data.get i').getD c 0 = s * (f.data.get (rotIdx f a b i')).getD c' 0)
    (hvalid : ∀ i', R.valid.get i' = f.valid.get (rotIdx f a b i')) :
    D R e o c i = s * D f e o c' (rotIdx f a b i) := by
  have hre : (rotIdx f a b i).getD e 0 = i.getD e 0 := by
    unfold rotIdx; rw [getD_setAt_ne _ _ _ _ _ heb, getD_setAt_ne _ _ _ _ _ hea]
  have hidx : ∀ k, rotIdx f a b (setAt i e k) = setAt (rotIdx f a b i) e k := by
    intro k
    unfold rotIdx
    rw [getD_setAt_ne _ _ _ _ _ (Ne.symm heb), getD_setAt_ne _ _ _ _ _ (Ne.symm hea)]
    rw [setAt_comm i e a _ _ hea, setAt_comm _ e b _ _ heb]
  have hcells : lineCells R e i c = (lineCells f e (rotIdx f a b i) c').map fun p => (s * p.1, p.2) := by
    unfold lineCells
    rw [tab_map, hr.n_e e hea heb]
    apply tab_congr
    intro j hj
    unfold NDA.line
    rw [hdata, hvalid, hidx]
  rw [D_eq_cells, D_eq_cells, hcells, diffLine'_smul, hr.per_e e he hea heb, hr.h_e e hea heb, hre]
  exact getD_map_mul _ _ _

theorem binop_shape {op : Rat → Rat → Rat} {a b g : Fld} (h : binop op a b = .ok g) : g.data.shape = a.data.shape := by
  unfold binop at h
  split at h
  · cases h
  · split at h
    · cases h
    · rw [(mkFld_ok h).2.2.1]

theorem addNum_shape {a g : Fld} {q : Rat} (h : addNum a q = .ok g) : g.data.shape = a.data.shape := by
  unfold addNum at h
  rw [(mkFld_ok h).2.2.1]

theorem sumGo_shape (ts : List Fld) : ∀ (acc g : Fld), sumGo acc ts = .ok g → g.data.shape = acc.data.shape := by
  induction ts with
  | nil => intro acc g h; simp only [sumGo] at h; injection h with h; subst h; rfl
  | cons t ts ih =>
    intro acc g h
    simp only [sumGo] at h
    split at h
    · cases h
    · rename_i r hr
      rw [ih r g h, binop_shape hr]

theorem sumF_shape {ts : List Fld} {g : Fld} (h : sumF ts = .ok g) :
    ∃ t0, ts.head? = some t0 ∧ g.data.shape = t0.data.shape := by
  cases ts with
  | nil => simp [sumF] at h
  | cons t ts =>
    simp only [sumF] at h
    split at h
    · cases h
    · rename_i acc hacc
      exact ⟨t, rfl, by rw [sumGo_shape ts acc g h, addNum_shape hacc]⟩

theorem lshift_shape {a b g : Fld} (h : lshift a b = .ok g) : g.data.shape = a.data.shape := by
  unfold lshift at h
  split at h
  · cases h
  · rw [(mkFld_ok h).2.2.1]

theorem stackGo_shape (ds : List Fld) : ∀ (acc g : Fld), stackGo acc ds = .ok g → g.data.shape = acc.data.shape := by
  induction ds with
  | nil => intro acc g h; simp only [stackGo] at h; injection h with h; subst h; rfl
  | cons d ds ih =>
    intro acc g h
    simp only [stackGo] at h
    split at h
    · cases h
    · rename_i r hr
      rw [ih r g h, lshift_shape hr]

theorem diffDim_shape {f g : Fld} {d : String} {o : Nat} (h : diffDim f d o = .ok g) : g.data.shape = f.data.shape := by
  unfold diffDim at h
  split at h
  · cases h
  · split at h
    · cases h
    · exact (diff_ok h).2.2.2.2.2.2.2.2

theorem laplace_scalar_shape {f g : Fld} (hn : f.nvdim = 1) (h : laplace f = .ok g) : g.data.shape = f.data.shape := by
  unfold laplace at h
  rw [if_pos hn] at h
  split at h
  · cases h
  · rename_i ts hts
    obtain ⟨t0, h0, hs⟩ := sumF_shape h
    rw [hs]
    obtain ⟨l, e⟩ := mapE_ok _ _ _ hts
    cases ts with
    | nil => simp at h0
    | cons t ts' =>
      simp at h0; subst h0
      have := e 0 (by rw [← l]; simp) (by simp)
      exact diffDim_shape this

theorem grad_shape {f g : Fld} (h : grad f = .ok g) : g.data.shape = f.data.shape := by
  unfold grad at h
  split at h
  · cases h
  · split at h
    · cases h
    · rename_i ds hds
      obtain ⟨l, e⟩ := mapE_ok _ _ _ hds
      cases ds with
      | nil => simp [stack] at h
      | cons d0 ds' =>
        simp only [stack] at h
        rw [stackGo_shape ds' d0 g h]
        have := e 0 (by rw [← l]; simp) (by simp)
        exact diffDim_shape this

/-- a sum is unchanged when two of its terms trade places -/
theorem sumTo_swap (n a b : Nat) (ha : a < n) (hb : b < n) (hab : a ≠ b) (g : Nat → Rat) :
    sumTo n (fun e => g (if e = a then b else if e = b then a else e)) = sumTo n g := by
  have split3 : ∀ (h : Nat → Rat), sumTo n h = h a + h b + sumTo n (fun e => if e = a ∨ e = b then 0 else h e) := by
    intro h
    have e1 : sumTo n h = sumTo n (fun e => (if e = a then (1 : Rat) else 0) * h e
        + ((if e = b then (1 : Rat) else 0) * h e + (if e = a ∨ e = b then 0 else h e))) := by
      apply sumTo_congr
      intro e _
      by_cases h1 : e = a
      · subst h1; simp [hab]
      · by_cases h2 : e = b
        · subst h2; simp [h1]
        · simp [h1, h2]
    rw [e1, sumTo_add, sumTo_add, sumTo_delta n a ha, sumTo_delta n b hb]
    ring
  rw [split3 (fun e => g (if e = a then b else if e = b then a else e)), split3 g]
  simp only [if_true, Ne.symm hab, if_false]
  have : sumTo n (fun e => if e = a ∨ e = b then 0 else g (if e = a then b else if e = b then a else e))
      = sumTo n (fun e => if e = a ∨ e = b then 0 else g e) := by
    apply sumTo_congr
    intro e _
    by_cases h1 : e = a
    · simp [h1]
    · by_cases h2 : e = b
      · simp [h2]
      · simp [h1, h2]
  rw [this]
  ring

theorem rotIdx_congr (f g : Fld) (a b : Nat) (i : List Nat) (h : g.mesh = f.mesh) : rotIdx g a b i = rotIdx f a b i := by
  unfold rotIdx; rw [h]

/-- data part of a quarter turn of a scalar field (no geometry needed) -/
theorem rot90Fld_scalar_data (f R : Fld) (a b : Nat) (hd : DimsOk f) (hs : f.data.shape = f.mesh.n)
    (hn : f.nvdim = 1) (ha : a < f.mesh.ndim) (hb : b < f.mesh.ndim)
    (h : rot90Fld f (f.mesh.region.dims.getD a "") (f.mesh.region.dims.getD b "") = .ok R) :
    ∀ i, R.data.get i = f.data.get (rotIdx f a b i) := by
  unfold rot90Fld at h
  split at h
  · cases h
  · rw [indexOf?_getD _ a hd.2 (by rw [hd.1]; exact ha), indexOf?_getD _ b hd.2 (by rw [hd.1]; exact hb)] at h
    simp only [] at h
    have h1 : ¬ (1 < f.nvdim) := by omega
    rw [if_neg h1] at h
    obtain ⟨_, _, m3, _⟩ := mkFld_ok h
    intro i
    rw [m3]
    unfold rot90Arr rotIdx Mesh.nAt
    simp only []
    rw [hs]

/-! ### positional pairing -/

theorem hasDup_cons (x : String) (xs : List String) : hasDup (x :: xs) = false ↔ x ∉ xs ∧ hasDup xs = false := by
  simp [hasDup]

theorem snd_mem_of_mem_zip {ls ds : List String} {p : String × String} (h : p ∈ List.zip ls ds) : p.2 ∈ ds := by
  induction ls generalizing ds with
  | nil => simp at h
  | cons l ls ih =>
    cases ds with
    | nil => simp at h
    | cons d ds =>
      simp only [List.zip_cons_cons, List.mem_cons] at h
      rcases h with rfl | h
      · simp
      · simp [ih h]

theorem zip_inj_snd (ls ds : List String) (hd : hasDup ds = false) :
    ∀ p ∈ List.zip ls ds, ∀ q ∈ List.zip ls ds, p.2 = q.2 → p = q := by
  induction ls generalizing ds with
  | nil => intro p hp; simp at hp
  | cons l ls ih =>
    cases ds with
    | nil => intro p hp; simp at hp
    | cons d ds =>
      obtain ⟨hnd, hd'⟩ := (hasDup_cons d ds).mp hd
      intro p hp q hq hpq
      simp only [List.zip_cons_cons, List.mem_cons] at hp hq
      rcases hp with rfl | hp
      · rcases hq with rfl | hq
        · rfl
        · exact absurd (by have := snd_mem_of_mem_zip hq; rw [← hpq] at this; exact this) hnd
      · rcases hq with rfl | hq
        · exact absurd (by have := snd_mem_of_mem_zip hp; rw [hpq] at this; exact this) hnd
        · exact ih ds hd' p hp q hq hpq

theorem lookup_zip (ls ds : List String) (hl : hasDup ls = false) (a : Nat) (ha : a < ls.length) (hlen : ls.length = ds.length) :
    Fld.lookup (List.zip ls ds) (ls.getD a "") = some (ds.getD a "") := by
  induction ls generalizing ds a with
  | nil => simp at ha
  | cons l ls ih =>
    cases ds with
    | nil => simp at hlen
    | cons d ds =>
      obtain ⟨hnl, hl'⟩ := (hasDup_cons l ls).mp hl
      rw [List.zip_cons_cons, lookup_cons]
      cases a with
      | zero => simp
      | succ a =>
        simp only [List.getD_cons_succ]
        have hne : (l == ls.getD a "") = false := by
          have hm : ls.getD a "" ∈ ls := getD_mem_of_lt ls a (by simpa using ha)
          cases hq : l == ls.getD a "" with
          | false => rfl
          | true =>
            have : l = ls.getD a "" := by simpa using hq
            rw [← this] at hm
            exact absurd hm hnl
        rw [hne]
        simp only [Bool.false_eq_true, if_false]
        exact ih ds hl' a (by simpa using ha) (by simpa using hlen)

/-- a field whose labels are mapped positionally (`labels[k] ↦ dims[k]`): the reversed mapping
pairs axis `a` with stored component `a` -/
theorem pos_pairing (g : Fld) (labels : List String) (hv : g.vdims = some labels)
    (hm : g.vmap = List.zip labels g.mesh.region.dims) (hl : hasDup labels = false)
    (hd : hasDup g.mesh.region.dims = false) (hlen : labels.length = g.mesh.region.dims.length)
    (a : Nat) (ha : a < labels.length) :
    (rDimLast g (g.mesh.region.dims.getD a "")).bind g.vdimIndex = some a := by
  have h1 : Fld.lookup g.vmap (labels.getD a "") = some (g.mesh.region.dims.getD a "") := by
    rw [hm]; exact lookup_zip labels _ hl a ha hlen
  rw [rDimLast_of_lookup g _ _ (by rw [hm]; exact zip_inj_snd labels _ hd) h1]
  simp only [Option.bind_some]
  exact vdimIndex_getD g labels hv hl a ha

theorem turnVec_getD (v : List Rat) (v1 v2 c : Nat) (h12 : v1 ≠ v2) (h1 : v1 < v.length) (h2 : v2 < v.length) :
    (turnVec v v1 v2).getD c 0 = if c = v1 then -(v.getD v2 0) else if c = v2 then v.getD v1 0 else v.getD c 0 := by
  unfold turnVec
  by_cases hc2 : c = v2
  · subst hc2
    rw [getD_setAt_same _ _ _ _ (by rw [setAt_length]; exact h2)]
    simp [Ne.symm h12]
  · rw [getD_setAt_ne _ _ _ _ _ hc2]
    by_cases hc1 : c = v1
    · subst hc1
      rw [getD_setAt_same _ _ _ _ h1]; simp
    · rw [getD_setAt_ne _ _ _ _ _ hc1]; simp [hc1, hc2]

/-- data part of a quarter turn of a vector field whose axes `a`, `b` are paired with the
stored components `v1`, `v2` -/
theorem rot90Fld_vector_data (f R : Fld) (a b v1 v2 : Nat) (hd : DimsOk f) (hs : f.data.shape = f.mesh.n)
    (hn : 1 < f.nvdim) (ha : a < f.mesh.ndim) (hb : b < f.mesh.ndim)
    (h1 : (rDimLast f (f.mesh.region.dims.getD a "")).bind f.vdimIndex = some v1)
    (h2 : (rDimLast f (f.mesh.region.dims.getD b "")).bind f.vdimIndex = some v2)
    (h : rot90Fld f (f.mesh.region.dims.getD a "") (f.mesh.region.dims.getD b "") = .ok R) :
    ∀ i, R.data.get i = turnVec (f.data.get (rotIdx f a b i)) v1 v2 := by
  unfold rot90Fld at h
  split at h
  · cases h
  · rw [indexOf?_getD _ a hd.2 (by rw [hd.1]; exact ha), indexOf?_getD _ b hd.2 (by rw [hd.1]; exact hb)] at h
    simp only [] at h
    rw [if_pos hn, h1, h2] at h
    simp only [] at h
    obtain ⟨_, _, m3, _⟩ := mkFld_ok h
    intro i
    rw [m3]
    unfold rot90Arr rotIdx Mesh.nAt
    simp only []
    rw [hs]


theorem lshift_len {a b g : Fld} (h : lshift a b = .ok g) (i : List Nat) : (g.data.get i).length = g.nvdim := by
  obtain ⟨_, _, m2, _, _, m3, _, _⟩ := lshift_ok h
  rw [m3 i, m2]; simp [cellv_length]

theorem stackGo_len (ds : List Fld) : ∀ (acc g : Fld), ds ≠ [] → stackGo acc ds = .ok g →
    ∀ i, (g.data.get i).length = g.nvdim := by
  induction ds with
  | nil => intro _ _ h; exact absurd rfl h
  | cons d ds ih =>
    intro acc g _ h
    simp only [stackGo] at h
    split at h
    · cases h
    · rename_i r hr
      cases ds with
      | nil => simp only [stackGo] at h; injection h with h; subst h; exact lshift_len hr
      | cons d' ds' => exact ih r g (by simp) h

theorem grad_len {f g : Fld} (hnd : 2 ≤ f.mesh.region.dims.length) (h : grad f = .ok g) :
    ∀ i, (g.data.get i).length = g.nvdim := by
  unfold grad at h
  split at h
  · cases h
  · split at h
    · cases h
    · rename_i ds hds
      obtain ⟨l, _⟩ := mapE_ok _ _ _ hds
      cases ds with
      | nil => simp [stack] at h
      | cons d0 ds' =>
        simp only [stack] at h
        exact stackGo_len ds' d0 g (by intro he; subst he; simp at l; omega) h

/-- `Nat.repr` (decimal digits) is one-to-one: the digits give the number back -/
theorem natRepr_inj {n m : Nat} (h : n.repr = m.repr) : n = m := by
  have h' : Nat.toDigits 10 n = Nat.toDigits 10 m := by
    rw [← Nat.toList_repr, ← Nat.toList_repr, h]
  have := congrArg (fun l => Nat.ofDigitChars 10 l 0) h'
  simpa [Nat.ofDigitChars_ten_toDigits] using this

/-- the default labels `f"v{i}"` of fields with more than three components are pairwise different -/
theorem vlabel_inj {n m : Nat} (h : s!"v{n}" = s!"v{m}") : n = m := by
  have h' : toString "v" ++ toString n = toString "v" ++ toString m := h
  rw [String.append_right_inj] at h'
  exact natRepr_inj h'

theorem hasDup_map_inj (g : Nat → String) (hg : ∀ n m, g n = g m → n = m) :
    ∀ (l : List Nat), l.Nodup → hasDup (l.map g) = false := by
  intro l
  induction l with
  | nil => intro _; rfl
  | cons x xs ih =>
    intro hn
    rw [List.nodup_cons] at hn
    simp only [List.map_cons, hasDup, Bool.or_eq_false_iff]
    refine ⟨?_, ih hn.2⟩
    rw [← Bool.not_eq_true]
    intro hc
    rw [List.contains_iff_mem] at hc
    obtain ⟨y, hy, hxy⟩ := List.mem_map.mp hc
    have := hg _ _ hxy
    subst this
    exact hn.1 hy

/-- the positional default labels of an `n`-component field (`x, y[, z]` up to three components,
`v0 … v(n-1)` beyond — the general rule of the `vdims` setter) exist, are `n` many and pairwise
different, for EVERY `n ≥ 2` -/
theorem posVdims_nodup (n : Nat) (h2 : 2 ≤ n) :
    ∃ labels, posVdims n = some labels ∧ labels.length = n ∧ hasDup labels = false := by
  by_cases h3 : n ≤ 3
  · have : n = 2 ∨ n = 3 := by omega
    rcases this with rfl | rfl
    · exact ⟨["x", "y"], by decide, rfl, by decide⟩
    · exact ⟨["x", "y", "z"], by decide, rfl, by decide⟩
  · refine ⟨(List.range n).map fun i => s!"v{i}", ?_, by simp, ?_⟩
    · unfold posVdims Fld.defaultVdims
      have h1 : ¬ (n = 1) := by omega
      simp only [h1, h3, if_false]
    · exact hasDup_map_inj _ (fun _ _ h => vlabel_inj h) _ List.nodup_range

theorem div_shape {f g : Fld} (h : div f = .ok g) : g.data.shape = f.data.shape := by
  unfold div at h
  split at h
  · cases h
  · split at h
    · cases h
    · rename_i vs hvs
      split at h
      · cases h
      · split at h
        · cases h
        · rename_i ts hts
          obtain ⟨t0, h0, hs⟩ := sumF_shape h
          rw [hs]
          obtain ⟨l, e⟩ := mapE_ok _ _ _ hts
          cases ts with
          | nil => simp at h0
          | cons t ts' =>
            simp at h0; subst h0
            have hpos : 0 < vs.length := by rw [← l]; simp
            have h00 := e 0 hpos (by simp)
            simp only [List.getElem_cons_zero] at h00
            unfold divTerm at h00
            split at h00
            · cases h00
            · split at h00
              · cases h00
              · rename_i comp hcomp
                rw [diffDim_shape h00]
                cases hk : f.vdimIndex (vs[0]'hpos) with
                | none => simp only [getComp, hk] at hcomp; cases hcomp
                | some k => exact (getComp_ok hk hcomp).2.2.2.2.2.2.1

/-- labels and mapping of a turned vector field are the operand's -/
theorem rot90Fld_vector_meta (f R : Fld) (a b : Nat) (vs : List String) (hd : DimsOk f) (hn : 1 < f.nvdim)
    (hv : f.vdims = some vs) (hvl : vs.length = f.nvdim)
    (ha : a < f.mesh.ndim) (hb : b < f.mesh.ndim) (hmap : 0 < f.vmap.length)
    (h : rot90Fld f (f.mesh.region.dims.getD a "") (f.mesh.region.dims.getD b "") = .ok R) :
    R.vdims = some vs ∧ R.vmap = f.vmap ∧ R.nvdim = f.nvdim ∧ R.valid = rot90Arr f.valid a b ∧
    rotMesh f.mesh (f.mesh.region.dims.getD a "") (f.mesh.region.dims.getD b "") = .ok R.mesh := by
  unfold rot90Fld at h
  split at h
  · cases h
  · rename_i mesh' hmesh
    rw [indexOf?_getD _ a hd.2 (by rw [hd.1]; exact ha), indexOf?_getD _ b hd.2 (by rw [hd.1]; exact hb)] at h
    simp only [] at h
    rw [if_pos hn] at h
    split at h
    · obtain ⟨m1, m2, _, m4, _, _, m7, m8⟩ := mkFld_ok h
      rw [hv] at m7
      have hne : vs ≠ [] := by intro he; subst he; simp at hvl; omega
      obtain ⟨r1, _, _⟩ := vdimsSet_some hne m7
      refine ⟨r1, ?_, m2, m4, by rw [m1]; exact hmesh⟩
      rw [r1] at m8
      unfold vmapSet at m8
      simp only [] at m8
      split at m8
      · rename_i hc; exact absurd hc.2.2 (by simp)
      · split at m8 <;>
          first
          | (injection m8 with e; exact e.symm)
          | cases m8
    · cases h

/-- `Mesh.rotate90` accepts every pair of different axes of a well-formed mesh without subregions -/
theorem rotMesh_succeeds (f : Fld) (a b : Nat) (wf : MeshWf f) (tw : TurnWf f a b) (hsub : f.mesh.subs = [])
    (ha : a < f.mesh.ndim) (hb : b < f.mesh.ndim) (hab : a ≠ b) :
    ∃ m', rotMesh f.mesh (f.mesh.region.dims.getD a "") (f.mesh.region.dims.getD b "") = .ok m' := by
  unfold rotMesh
  rw [if_neg (dims_ne_of_ne f wf.dims a b ha hb hab)]
  rw [indexOf?_getD _ a wf.dims.2 (by rw [wf.dims.1]; exact ha),
      indexOf?_getD _ b wf.dims.2 (by rw [wf.dims.1]; exact hb)]
  simp only []
  have hpl : f.mesh.region.pmin.length = f.mesh.ndim := rfl
  have hr : ∃ r, rotRegion f.mesh.region a b f.mesh.region.center = .ok r := by
    unfold rotRegion Region.mk?
    have l1 : ∀ u v, (setAt (setAt f.mesh.region.pmin a u) b v).length = f.mesh.ndim := by
      intro u v; rw [setAt_length, setAt_length]; rfl
    have l2 : ∀ u v, (setAt (setAt f.mesh.region.pmax a u) b v).length = f.mesh.ndim := by
      intro u v; rw [setAt_length, setAt_length]; exact wf.pmax_len
    rw [l1, l2]
    simp only [ne_eq, not_true_eq_false, if_false]
    have hn0 : ¬ (f.mesh.ndim = 0) := by omega
    simp only [hn0, if_false]
    unfold Region.dimsOk Region.unitsOk
    simp only [wf.dims.1, wf.dims.2, ne_eq, not_true_eq_false, if_false, Bool.false_eq_true, swapAt_length, wf.units_len]
    have hall : allLt f.mesh.ndim (fun x => decide (
        (setAt (setAt f.mesh.region.pmin a ((f.mesh.region.center).getD a 0 - (f.mesh.region.lo b - (f.mesh.region.center).getD b 0))) b
            ((f.mesh.region.center).getD b 0 + (f.mesh.region.lo a - (f.mesh.region.center).getD a 0))).getD x 0 ≠
        (setAt (setAt f.mesh.region.pmax a ((f.mesh.region.center).getD a 0 - (f.mesh.region.hi b - (f.mesh.region.center).getD b 0))) b
            ((f.mesh.region.center).getD b 0 + (f.mesh.region.hi a - (f.mesh.region.center).getD a 0))).getD x 0)) = true := by
      rw [allLt_iff]
      intro x hx
      have pa := (wf.pos a ha).1
      have pb := (wf.pos b hb).1
      have px := (wf.pos x hx).1
      simp only [decide_eq_true_eq]
      by_cases hxa : x = a
      · subst hxa
        rw [getD_setAt_ne _ _ _ _ _ hab, getD_setAt_ne _ _ _ _ _ hab,
          getD_setAt_same _ _ _ _ (by rw [hpl]; exact hx), getD_setAt_same _ _ _ _ (by rw [wf.pmax_len]; exact hx)]
        intro he; linarith
      · by_cases hxb : x = b
        · subst hxb
          rw [getD_setAt_same _ _ _ _ (by rw [setAt_length, hpl]; exact hx),
            getD_setAt_same _ _ _ _ (by rw [setAt_length, wf.pmax_len]; exact hx)]
          intro he; linarith
        · rw [getD_setAt_ne _ _ _ _ _ hxb, getD_setAt_ne _ _ _ _ _ hxa,
            getD_setAt_ne _ _ _ _ _ hxb, getD_setAt_ne _ _ _ _ _ hxa]
          unfold Region.lo Region.hi at px
          intro he; rw [he] at px; exact absurd px (lt_irrefl _)
    rw [hall]
    simp only [Bool.not_true, Bool.false_eq_true, if_false]
    exact ⟨_, rfl⟩
  obtain ⟨r, hr⟩ := hr
  rw [hr, hsub]
  simp only [mapE]
  unfold rotRegion at hr
  obtain ⟨r1, _, r3, _⟩ := regionMk_ok hr
  unfold Mesh.mkN?
  have c1 : ¬ ((swapAt f.mesh.n a b).length ≠ r.ndim) := by
    unfold Region.ndim
    rw [swapAt_length, wf.n_len, r1, tab_length, setAt_length, setAt_length]
    simp; rfl
  have c2 : (swapAt f.mesh.n a b).any (· = 0) = false := by
    rw [List.any_eq_false]
    intro x hx
    simp only [decide_eq_true_eq]
    obtain ⟨k, hk, hk'⟩ := List.getElem_of_mem hx
    have hkn : k < f.mesh.ndim := by rw [swapAt_length, wf.n_len] at hk; exact hk
    have hx' : x = (swapAt f.mesh.n a b).getD k 0 := by
      rw [List.getD_eq_getElem?_getD, List.getElem?_eq_getElem hk, Option.getD_some, hk']
    rw [hx']
    have pos : ∀ y, y < f.mesh.ndim → f.mesh.n.getD y default ≠ 0 := by
      intro y hy
      have := (wf.pos y hy).2
      unfold Mesh.nAt at this
      exact Nat.pos_iff_ne_zero.mp this
    by_cases hka : k = a
    · subst hka
      rw [swapAt_getD_left _ _ _ _ hab (by rw [wf.n_len]; exact ha)]
      exact pos b hb
    · by_cases hkb : k = b
      · subst hkb
        rw [swapAt_getD_right _ _ _ _ (by rw [wf.n_len]; exact hb)]
        exact pos a ha
      · rw [swapAt_getD_other _ _ _ _ _ hka hkb]
        exact pos k hkn
  have c3 : Mesh.bcOk r.dims (rotBc1 f.mesh.bc (f.mesh.region.dims.getD a "") (f.mesh.region.dims.getD b "")).toLower = true := by
    rw [r3, tw.bc_lower]; exact tw.bc_ok
  simp only [c1, c2, c3, if_false, Bool.false_eq_true, Bool.not_true]
  exact ⟨_, rfl⟩

/-- `Field.rotate90` accepts every plain scalar field on a well-formed mesh without subregions -/
theorem rot90_accepts_plain (f : Fld) (a b : Nat) (wf : MeshWf f) (tw : TurnWf f a b) (hsub : f.mesh.subs = []) (hp : Plain f)
    (ha : a < f.mesh.ndim) (hb : b < f.mesh.ndim) (hab : a ≠ b) :
    ∃ R, rot90Fld f (f.mesh.region.dims.getD a "") (f.mesh.region.dims.getD b "") = .ok R := by
  obtain ⟨m', hm'⟩ := rotMesh_succeeds f a b wf tw hsub ha hb hab
  unfold rot90Fld
  rw [hm']
  simp only []
  rw [indexOf?_getD _ a wf.dims.2 (by rw [wf.dims.1]; exact ha),
      indexOf?_getD _ b wf.dims.2 (by rw [wf.dims.1]; exact hb)]
  simp only []
  have h1 : ¬ (1 < f.nvdim) := by rw [hp.1]; omega
  rw [if_neg h1, hp.1, hp.2.1, hp.2.2]
  exact mk_plain_succeeds _ _ _ _ [] (by simp)

theorem rot90_plain {f R : Fld} {da db : String} (hp : Plain f) (h : rot90Fld f da db = .ok R) : Plain R := by
  unfold rot90Fld at h
  split at h
  · cases h
  · split at h
    · have h1 : ¬ (1 < f.nvdim) := by rw [hp.1]; omega
      rw [if_neg h1, hp.1, hp.2.1, hp.2.2] at h
      exact mk_plain h
    · cases h

/-- a well-formed mesh stays well formed under any field that lives on it with a mesh-shaped array -/
theorem meshWf_of_mesh {f g : Fld} (wf : MeshWf f) (hm : g.mesh = f.mesh) (hs : g.data.shape = g.mesh.n) : MeshWf g :=
  ⟨by rw [hm]; exact wf.pmax_len, by rw [hm]; exact wf.n_len, by unfold DimsOk; rw [hm]; exact wf.dims,
   by rw [hm]; exact wf.units_len, by rw [hm]; exact wf.pos, by rw [hm]; exact wf.bc_lower,
   by rw [hm]; exact wf.bc_ok, hs⟩

theorem turnWf_of_mesh {f g : Fld} {a b : Nat} (tw : TurnWf f a b) (hm : g.mesh = f.mesh) : TurnWf g a b := by
  refine ⟨?_, by rw [hm]; exact tw.bc_lower, by rw [hm]; exact tw.bc_ok⟩
  unfold BcTurns periodic
  rw [hm]
  exact tw.turns

theorem plain_of_laplace_scalar {f g : Fld} (hp : Plain f) (h : laplace f = .ok g) : Plain g := by
  unfold laplace at h
  rw [if_pos hp.1] at h
  split at h
  · cases h
  · rename_i ts hts
    exact sumF_plain (mapE_all _ Plain (fun x y hy => diffDim_plain hp hy) _ _ hts) h

/-- `Field.rotate90` accepts a vector field with well-formed labels, a mapping whose keys are the
labels, and both axes of the plane paired with a component -/
theorem rot90_accepts_vector (f : Fld) (a b v1 v2 : Nat) (vs : List String) (wf : MeshWf f) (tw : TurnWf f a b) (hsub : f.mesh.subs = [])
    (hn : 1 < f.nvdim) (hv : f.vdims = some vs) (hvl : vs.length = f.nvdim) (hvd : hasDup vs = false)
    (hkeys : (f.vmap.map (·.1)).isPerm vs = true) (hmap : 0 < f.vmap.length)
    (ha : a < f.mesh.ndim) (hb : b < f.mesh.ndim) (hab : a ≠ b)
    (h1 : (rDimLast f (f.mesh.region.dims.getD a "")).bind f.vdimIndex = some v1)
    (h2 : (rDimLast f (f.mesh.region.dims.getD b "")).bind f.vdimIndex = some v2) :
    ∃ R, rot90Fld f (f.mesh.region.dims.getD a "") (f.mesh.region.dims.getD b "") = .ok R := by
  obtain ⟨m', hm'⟩ := rotMesh_succeeds f a b wf tw hsub ha hb hab
  unfold rot90Fld
  rw [hm']
  simp only []
  rw [indexOf?_getD _ a wf.dims.2 (by rw [wf.dims.1]; exact ha),
      indexOf?_getD _ b wf.dims.2 (by rw [wf.dims.1]; exact hb)]
  simp only []
  rw [if_pos hn, h1, h2]
  simp only []
  unfold mkFld vdimsSet vmapSet
  rw [hv]
  have c0 : ¬ (f.nvdim < 1) := by omega
  have c1 : ¬ (vs.length = 0) := by omega
  have c2 : ¬ (vs.length ≠ f.nvdim) := by omega
  simp only [c0, c1, c2, hvd, if_false, Bool.false_eq_true]
  have c3 : ¬ (f.vmap.length = 1 ∧ f.nvdim = 1 ∧ some vs = none) := by simp
  simp only [c3, if_false, hmap, if_true, hkeys]
  exact ⟨_, rfl⟩

theorem plain_of_div {f g : Fld} (h : div f = .ok g) : Plain g := by
  unfold div at h
  split at h
  · cases h
  · split at h
    · cases h
    · split at h
      · cases h
      · split at h
        · cases h
        · rename_i ts hts
          apply sumF_plain _ h
          apply mapE_all _ Plain _ _ _ hts
          intro v y hy
          unfold divTerm at hy
          split at hy
          · cases hy
          · split at hy
            · cases hy
            · rename_i c hc
              exact diffDim_plain (getComp_plain hc) hy

theorem getComp_shape {f g : Fld} {l : String} (h : getComp f l = .ok g) : g.data.shape = f.data.shape := by
  cases hk : f.vdimIndex l with
  | none => simp only [getComp, hk] at h; cases h
  | some k => exact (getComp_ok hk h).2.2.2.2.2.2.1

theorem curlComp_shape {f t : Fld} {d1 e1 d2 e2 : String} (h : curlComp f d1 e1 d2 e2 = .ok t) :
    t.data.shape = f.data.shape := by
  unfold curlComp compOfDim at h
  split at h
  · cases h
  · rename_i k1 hk1
    split at h
    · cases h
    · rename_i t1 ht1
      split at h
      · cases h
      · split at h
        · cases h
        · rw [binop_shape h, diffDim_shape ht1]
          cases hq : rDimLast f d1 with
          | none => rw [hq] at hk1; cases hk1
          | some l => rw [hq] at hk1; exact getComp_shape hk1

theorem curl_shape_len {f g : Fld} (h : curl f = .ok g) :
    g.data.shape = f.data.shape ∧ ∀ i, (g.data.get i).length = g.nvdim := by
  unfold curl at h
  split at h
  · cases h
  · split at h
    · cases h
    · split at h
      · cases h
      · split at h
        · split at h
          · cases h
          · rename_i cx hcx
            split at h
            · cases h
            · split at h
              · cases h
              · split at h
                · cases h
                · rename_i cxy hcxy
                  exact ⟨by rw [lshift_shape h, lshift_shape hcxy, curlComp_shape hcx], lshift_len h⟩
        · cases h

/-! ### the tail of the vector Laplacian: labels and mapping of the operand are put back -/

theorem setVmap_ok {f g : Fld} {mp : Option (List (String × String))} (h : setVmap f mp = .ok g) :
    g.mesh = f.mesh ∧ g.nvdim = f.nvdim ∧ g.data = f.data ∧ g.valid = f.valid ∧ g.vdims = f.vdims ∧
    g.unit = f.unit ∧ vmapSet f.mesh f.nvdim f.vdims mp = .ok g.vmap := by
  unfold setVmap at h
  split at h
  · cases h
  · rename_i x hx
    injection h with h; subst h
    exact ⟨rfl, rfl, rfl, rfl, rfl, rfl, hx⟩

theorem setVdims_ok {f g : Fld} {v : Option (List String)} (h : setVdims f v = .ok g) :
    g.mesh = f.mesh ∧ g.nvdim = f.nvdim ∧ g.data = f.data ∧ g.valid = f.valid ∧ g.unit = f.unit ∧
    vdimsSet f.nvdim v = .ok g.vdims := by
  unfold setVdims at h
  split at h
  · cases h
  · rename_i new hnew
    split at h
    · split at h
      · split at h
        · cases h
        · obtain ⟨a1, a2, a3, a4, a5, a6, _⟩ := setVmap_ok h
          exact ⟨a1, a2, a3, a4, a6, by rw [a5]; exact hnew⟩
      · injection h with h; subst h
        exact ⟨rfl, rfl, rfl, rfl, rfl, hnew⟩
    · injection h with h; subst h
      exact ⟨rfl, rfl, rfl, rfl, rfl, hnew⟩
    · injection h with h; subst h
      exact ⟨rfl, rfl, rfl, rfl, rfl, hnew⟩

/-- with labels present, an accepted explicit mapping is stored as given -/
theorem vmapSet_some_some {mesh : Mesh} {n : Nat} {vs : List String} {mp x : List (String × String)}
    (h : vmapSet mesh n (some vs) (some mp) = .ok x) : x = mp := by
  unfold vmapSet at h
  simp only [] at h
  split at h
  · rename_i hc; exact absurd hc.2.2 (by simp)
  · split at h <;>
      first
      | (injection h with e; exact e.symm)
      | cases h
      | (split at h <;> first | (injection h with e; exact e.symm) | cases h)

/-- the tail of the vector Laplacian: `result.vdims = self.vdims; result.vdim_mapping = self.vdim_mapping` -/
theorem lapTail_ok {r r' g : Fld} {vs : List String} {mp : List (String × String)} (hne : vs ≠ [])
    (h1 : setVdims r (some vs) = .ok r') (h2 : setVmap r' (some mp) = .ok g) :
    g.mesh = r.mesh ∧ g.nvdim = r.nvdim ∧ g.data = r.data ∧ g.valid = r.valid ∧ g.vdims = some vs ∧ g.vmap = mp := by
  obtain ⟨a1, a2, a3, a4, _, a6⟩ := setVdims_ok h1
  obtain ⟨b1, b2, b3, b4, b5, _, b7⟩ := setVmap_ok h2
  obtain ⟨c1, _, _⟩ := vdimsSet_some hne a6
  rw [c1] at b7 b5
  exact ⟨by rw [b1, a1], by rw [b2, a2], by rw [b3, a3], by rw [b4, a4], b5, vmapSet_some_some b7⟩

theorem lookup_zip_some (ls ds : List String) (k : Nat) (hk : k < ls.length) (hl : ls.length ≤ ds.length) :
    ∃ d, Fld.lookup (List.zip ls ds) (ls.getD k "") = some d := by
  induction ls generalizing ds k with
  | nil => simp at hk
  | cons l ls ih =>
    cases ds with
    | nil => simp at hl
    | cons d ds =>
      rw [List.zip_cons_cons, lookup_cons]
      cases k with
      | zero => exact ⟨d, by simp⟩
      | succ k =>
        simp only [List.getD_cons_succ]
        by_cases he : (l == ls.getD k "") = true
        · exact ⟨d, by rw [he]; rfl⟩
        · simp only [he, if_false, Bool.false_eq_true]
          exact ih ds k (by simpa using hk) (by simpa using hl)

theorem transportMap_succeeds (mp : List (String × String)) : ∀ (ns os : List String), ns.length = os.length →
    (∀ k, k < os.length → ∃ d, Fld.lookup mp (os.getD k "") = some d) →
    ∃ r, transportMap mp ns os = .ok r ∧ r.map (·.1) = ns := by
  intro ns
  induction ns with
  | nil => intro os _ _; exact ⟨[], by simp [transportMap], rfl⟩
  | cons n ns ih =>
    intro os hl hlook
    cases os with
    | nil => simp at hl
    | cons o os =>
      obtain ⟨d, hd⟩ := hlook 0 (by simp)
      simp only [List.getD_cons_zero] at hd
      obtain ⟨r, hr, hk⟩ := ih os (by simpa using hl) (fun k hk => by
        have := hlook (k + 1) (by simpa using hk)
        simpa using this)
      exact ⟨(n, d) :: r, by simp only [transportMap, hd, hr], by simp [hk]⟩


theorem vmapSet_some_succeeds (mesh : Mesh) (n : Nat) (vs : List String) (mp : List (String × String))
    (h : mp = [] ∨ (mp.map (·.1)).isPerm vs = true) : vmapSet mesh n (some vs) (some mp) = .ok mp := by
  unfold vmapSet
  simp only []
  have c1 : ¬ (mp.length = 1 ∧ n = 1 ∧ some vs = none) := by simp
  rw [if_neg c1]
  rcases h with rfl | h
  · simp
  · by_cases hl : 0 < mp.length
    · simp only [hl, if_true, h]
    · simp only [hl, if_false]

theorem lapTail_succeeds (r : Fld) (vs : List String) (mp : List (String × String)) (hn : 2 ≤ r.nvdim)
    (hd : r.mesh.region.dims.length = r.mesh.region.ndim)
    (hv : r.vdims = posVdims r.nvdim) (hm : r.vmap = posVmap r.mesh r.nvdim)
    (hvl : vs.length = r.nvdim) (hvd : hasDup vs = false)
    (hkeys : mp = [] ∨ (mp.map (·.1)).isPerm vs = true) :
    ∃ r' g, setVdims r (some vs) = .ok r' ∧ setVmap r' (some mp) = .ok g := by
  obtain ⟨labels, hlab, hlen⟩ := defaultVdims_some r.nvdim hn
  have hvs : vdimsSet r.nvdim (some vs) = .ok (some vs) := by
    unfold vdimsSet
    have c1 : ¬ (vs.length = 0) := by omega
    have c2 : ¬ (vs.length ≠ r.nvdim) := by omega
    simp only [c1, c2, hvd, if_false, Bool.false_eq_true]
  have hr' : ∃ r', setVdims r (some vs) = .ok r' ∧ r'.mesh = r.mesh ∧ r'.nvdim = r.nvdim ∧ r'.vdims = some vs := by
    unfold setVdims
    rw [hvs, hv]
    unfold posVdims
    rw [hlab]
    simp only []
    by_cases hl : 0 < r.vmap.length
    · rw [if_pos hl]
      have h1 : ¬ (r.nvdim = 1) := by omega
      have hnd : r.nvdim = r.mesh.region.ndim := by
        by_contra h2
        rw [hm] at hl
        unfold posVmap at hl
        simp only [h1, h2, if_false] at hl
        simp at hl
      have hz : r.vmap = List.zip labels r.mesh.region.dims := by
        rw [hm]
        unfold posVmap
        rw [if_neg h1, if_pos hnd, hlab]
      have hzip := And.intro hz hnd
      obtain ⟨tm, htm, hkeys'⟩ := transportMap_succeeds r.vmap vs labels (by rw [hvl, hlen]) (fun k hk => by
        rw [hzip.1]
        exact lookup_zip_some labels _ k hk (by rw [hlen, hd, hzip.2]))
      rw [htm]
      simp only []
      unfold setVmap
      have := vmapSet_some_succeeds r.mesh r.nvdim vs tm (Or.inr (by rw [hkeys']; exact List.isPerm_iff.mpr (List.Perm.refl _)))
      simp only [this]
      exact ⟨_, rfl, rfl, rfl, rfl⟩
    · rw [if_neg hl]
      exact ⟨_, rfl, rfl, rfl, rfl⟩
  obtain ⟨r', h1, m1, m2, m3⟩ := hr'
  refine ⟨r', { r' with vmap := mp }, h1, ?_⟩
  unfold setVmap
  rw [m3, vmapSet_some_succeeds r'.mesh r'.nvdim vs mp hkeys]

theorem lapComp_shape {f t : Fld} {v : String} (h : lapComp f v = .ok t) : t.data.shape = f.data.shape := by
  unfold lapComp at h
  split at h
  · cases h
  · rename_i ts hts
    obtain ⟨t0, h0, hs⟩ := sumF_shape h
    rw [hs]
    obtain ⟨l, e⟩ := mapE_ok _ _ _ hts
    cases ts with
    | nil => simp at h0
    | cons t1 ts' =>
      simp at h0; subst h0
      have hpos : 0 < f.mesh.region.dims.length := by rw [← l]; simp
      have h00 := e 0 hpos (by simp)
      simp only [List.getElem_cons_zero] at h00
      split at h00
      · cases h00
      · rename_i c hc
        rw [diffDim_shape h00, getComp_shape hc]

theorem laplace_vector_shape_len {f g : Fld} {vs : List String} (hn : 2 ≤ f.nvdim) (hv : f.vdims = some vs)
    (hvl : vs.length = f.nvdim) (h : laplace f = .ok g) :
    g.data.shape = f.data.shape ∧ ∀ i, (g.data.get i).length = g.nvdim := by
  unfold laplace at h
  have h1 : ¬ (f.nvdim = 1) := by omega
  rw [if_neg h1, hv] at h
  simp only [] at h
  split at h
  · cases h
  rename_i ds hds
  obtain ⟨l, e⟩ := mapE_ok _ _ _ hds
  split at h
  · cases h
  rename_i r hst
  split at h
  · cases h
  rename_i r' hsv
  have hne : vs ≠ [] := by intro he; subst he; simp at hvl; omega
  obtain ⟨_, t2, t3, _, _, _⟩ := lapTail_ok hne hsv h
  rw [t3, t2]
  cases ds with
  | nil => simp [stack] at hst
  | cons d0 ds' =>
    simp only [stack] at hst
    have hne' : ds' ≠ [] := by intro he; subst he; simp at l; omega
    refine ⟨?_, stackGo_len ds' d0 r hne' hst⟩
    rw [stackGo_shape ds' d0 r hst]
    have hpos : 0 < vs.length := by omega
    have h00 := e 0 hpos (by simp)
    simp only [List.getElem_cons_zero] at h00
    exact lapComp_shape h00

/-- what every accepted quarter turn produces, scalar or vector: the turned mesh, `np.rot90` of the
validity, the array shape with the two axes exchanged, component count and unit kept -/
theorem rot90Fld_parts (f R : Fld) (a b : Nat) (hd : DimsOk f) (ha : a < f.mesh.ndim) (hb : b < f.mesh.ndim)
    (h : rot90Fld f (f.mesh.region.dims.getD a "") (f.mesh.region.dims.getD b "") = .ok R) :
    rotMesh f.mesh (f.mesh.region.dims.getD a "") (f.mesh.region.dims.getD b "") = .ok R.mesh ∧
    R.valid = rot90Arr f.valid a b ∧ R.data.shape = swapAt f.data.shape a b ∧ R.nvdim = f.nvdim ∧ R.unit = f.unit := by
  unfold rot90Fld at h
  split at h
  · cases h
  · rename_i mesh' hmesh
    rw [indexOf?_getD _ a hd.2 (by rw [hd.1]; exact ha), indexOf?_getD _ b hd.2 (by rw [hd.1]; exact hb)] at h
    simp only [] at h
    split at h
    · split at h
      · obtain ⟨m1, m2, m3, m4, m5, _⟩ := mkFld_ok h
        exact ⟨by rw [m1]; exact hmesh, m4, by rw [m3], m2, m5⟩
      · cases h
    · obtain ⟨m1, m2, m3, m4, m5, _⟩ := mkFld_ok h
      exact ⟨by rw [m1]; exact hmesh, m4, by rw [m3]; rfl, m2, m5⟩

/-- validity flags are moved like the values -/
theorem rot90Fld_valid (f R : Fld) (a b : Nat) (hd : DimsOk f) (hvs : f.valid.shape = f.mesh.n)
    (ha : a < f.mesh.ndim) (hb : b < f.mesh.ndim)
    (h : rot90Fld f (f.mesh.region.dims.getD a "") (f.mesh.region.dims.getD b "") = .ok R) :
    ∀ i, R.valid.get i = f.valid.get (rotIdx f a b i) := by
  obtain ⟨_, hv, _⟩ := rot90Fld_parts f R a b hd ha hb h
  intro i
  rw [hv]
  unfold rot90Arr rotIdx Mesh.nAt
  simp only []
  rw [hvs]

/-- `D` along an open axis is C04's index-level spec of the grid line -/
theorem D_eq_spec (f : Fld) (ax o c : Nat) (i : List Nat) (hper : periodic f ax = false) (hi : i.getD ax 0 < f.mesh.nAt ax) :
    D f ax o c i = diffSpec o (f.mesh.cellAt ax) (f.mesh.nAt ax) (fun j => (f.data.line ax i j).getD c 0)
      (fun j => f.valid.line ax i j) (i.getD ax 0) := by
  rw [D_eq_cells, hper]
  unfold diffLine'
  simp only [Bool.false_eq_true, if_false, if_true]
  rw [diffLine_getD_spec _ _ _ _ (by rw [lineCells_length]; exact hi), lineCells_length]
  exact diffSpec_congr _ _ _ _ _ _ _ _ hi (fun j hj => valOf_lineCells f ax i c j hj) (fun j hj => okOf_lineCells f ax i c j hj)

end DFV.C05
