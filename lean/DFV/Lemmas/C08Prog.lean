import DFV.Lemmas.C08Map
/-! C08 helper lemmas, part 3: file round trips, the setter, refinement of the code-shaped
evaluator to the index-level reading (induction over programs), leaf dependencies, the store. -/
namespace DFV.C08
open DFV

/-! ## file round trips -/

theorem vtk_roundtrip_get (m : Mask) (i : List Nat) (h : inRange m.shape i = true) :
    (vtkRead m.shape (vtkWrite m)).get i = m.get i := by
  have hlt := flatF_lt m.shape i h
  have key : (vtkWrite m).getD (flatF m.shape i) 0 = if m.get i then 1 else 0 := by
    unfold vtkWrite indicesF
    simp only [List.map_map]
    rw [List.getD_eq_getElem?_getD, List.getElem?_map, List.getElem?_range hlt]
    simp only [Option.map_some, Option.getD_some, Function.comp]
    rw [unflatF_flatF m.shape i h]
  show decide ((vtkWrite m).getD (flatF m.shape i) 0 ≠ 0) = m.get i
  simp only [key]
  cases m.get i <;> simp

theorem h5_roundtrip_eq (m : Mask) : h5Read m.shape (h5Write m) = m.force false := rfl

theorem h5_roundtrip_get (m : Mask) (i : List Nat) (h : inRange m.shape i = true) :
    (h5Read m.shape (h5Write m)).get i = m.get i := by
  rw [h5_roundtrip_eq]; exact force_get m false i h

/-! ## the setter -/

theorem setMask_spec (n : List Nat) (s : MSpec) (m : Mask) (h : setMask n s = .ok m) :
    m.shape = n ∧ ∀ j, inRange n j = true → m.get j = specMask n s j := by
  cases s with
  | none =>
    simp only [setMask, Except.ok.injEq] at h; subst h
    exact ⟨rfl, fun j hj => by rw [own_get _ _ hj]; rfl⟩
  | const v =>
    simp only [setMask, Except.ok.injEq] at h; subst h
    exact ⟨rfl, fun j hj => by rw [own_get _ _ hj]; rfl⟩
  | arr a =>
    simp only [setMask] at h
    split at h
    · rename_i hs
      simp only [Except.ok.injEq] at h; subst h
      refine ⟨rfl, fun j hj => ?_⟩
      rw [own_get _ _ hj]
      simp only [specMask, if_pos hs]
    · rename_i hs
      split at h
      · cases h
      · split at h
        · cases h
        · simp only [Except.ok.injEq] at h; subst h
          refine ⟨rfl, fun j hj => ?_⟩
          rw [own_get _ _ hj]
          simp only [specMask, if_neg hs]
  | cells g =>
    simp only [setMask, Except.ok.injEq] at h; subst h
    exact ⟨rfl, fun j hj => by rw [own_get _ _ hj]; rfl⟩
  | norm sq =>
    simp only [setMask, Except.ok.injEq] at h; subst h
    exact ⟨rfl, fun j hj => by rw [own_get _ _ hj]; rfl⟩
  | lookup src inside cs xs =>
    simp only [setMask] at h
    split at h
    · cases h
    · split at h
      · cases h
      · simp only [Except.ok.injEq] at h; subst h
        exact ⟨rfl, fun j hj => by rw [own_get _ _ hj]; rfl⟩
  | bad => simp only [setMask] at h; cases h

/-- a broadcast read stays inside the given array -/
theorem bcastIdx_inRange (s t j : List Nat) (hok : bcastOk s t = true) (hj : inRange t j = true) :
    inRange s (bcastIdx s t j) = true := by
  simp only [bcastOk, Bool.and_eq_true, decide_eq_true_eq] at hok
  obtain ⟨hle, hall⟩ := hok
  rw [allLt_iff] at hall
  obtain ⟨hl, hp⟩ := (inRange_iff _ _).mp hj
  unfold bcastIdx
  apply inRange_tab _ _ _ rfl
  intro k hk
  have := hall k hk
  simp only [Bool.or_eq_true, decide_eq_true_eq] at this
  by_cases c : s.getD k 0 = 1
  · rw [if_pos c, c]; exact Nat.one_pos
  · rw [if_neg c]
    rcases this with h1 | h1
    · exact absurd h1 c
    · rw [h1]; exact hp _ (by omega)

/-! ## refinement: code-shaped evaluator = index-level reading -/

theorem eval_spec (env : Nat → Mask) (p : Prog) : ∀ m, eval env p = .ok m →
    m.shape = shapeOf env p ∧ ∀ j, inRange m.shape j = true → m.get j = spec env p j := by
  induction p with
  | leaf k =>
    intro m h
    simp only [eval, Except.ok.injEq] at h; subst h
    exact ⟨rfl, fun j _ => rfl⟩
  | pos p ih =>
    intro m h
    simp only [eval] at h
    exact ih m h
  | un p ih =>
    intro m h
    simp only [eval] at h
    split at h
    · cases h
    · rename_i m0 hm0
      simp only [Except.ok.injEq] at h; subst h
      obtain ⟨hs, hg⟩ := ih m0 hm0
      refine ⟨hs, fun j hj => ?_⟩
      rw [own_get m0 j hj]; exact hg j hj
  | binC p ih =>
    intro m h
    simp only [eval] at h
    split at h
    · cases h
    · rename_i m0 hm0
      simp only [Except.ok.injEq] at h; subst h
      obtain ⟨hs, hg⟩ := ih m0 hm0
      refine ⟨hs, fun j hj => ?_⟩
      rw [own_get m0 j hj]; exact hg j hj
  | binF p q ihp ihq =>
    intro m h
    simp only [eval] at h
    split at h
    · cases h
    · rename_i a ha
      split at h
      · cases h
      · rename_i b hb
        split at h
        · rename_i hab
          simp only [Except.ok.injEq] at h; subst h
          obtain ⟨hsa, hga⟩ := ihp a ha
          obtain ⟨hsb, hgb⟩ := ihq b hb
          refine ⟨hsa, fun j hj => ?_⟩
          rw [own_get (NDA.zipWith and a b) j hj]
          show (a.get j && b.get j) = (spec env p j && spec env q j)
          have hj' : inRange a.shape j = true := hj
          rw [hga j hj', hgb j (by rw [← hab]; exact hj')]
        · cases h
  | map op p ih =>
    intro m h
    simp only [eval] at h
    split at h
    · cases h
    · rename_i m0 hm0
      split at h
      · rename_i hok
        simp only [Except.ok.injEq] at h; subst h
        obtain ⟨hs, hg⟩ := ih m0 hm0
        have hsh : (op.apply m0 false).shape = op.shape m0.shape := apply_shape op m0 false
        refine ⟨by show (op.apply m0 false).shape = op.shape (shapeOf env p); rw [hsh, hs], fun j hj => ?_⟩
        have hj1 : inRange (op.apply m0 false).shape j = true := hj
        rw [own_get (op.apply m0 false) j hj1]
        have hj2 : inRange (op.shape m0.shape) j = true := by rw [← hsh]; exact hj1
        rw [apply_get op m0 false hok j hj2]
        show _ = match op.src (shapeOf env p) j with
          | some i => spec env p i
          | none => false
        rw [← hs]
        cases hsrc : op.src m0.shape j with
        | none => rfl
        | some i => exact hg i (src_inRange op m0.shape hok j hj2 i hsrc)
      · cases h
  | vtk p ih =>
    intro m h
    simp only [eval] at h
    split at h
    · cases h
    · rename_i m0 hm0
      split at h
      · simp only [Except.ok.injEq] at h; subst h
        obtain ⟨hs, hg⟩ := ih m0 hm0
        refine ⟨hs, fun j hj => ?_⟩
        have hj1 : inRange (vtkRead m0.shape (vtkWrite m0)).shape j = true := hj
        rw [own_get (vtkRead m0.shape (vtkWrite m0)) j hj1, vtk_roundtrip_get m0 j hj]
        exact hg j hj
      · cases h
  | hdf5 p ih =>
    intro m h
    simp only [eval] at h
    split at h
    · cases h
    · rename_i m0 hm0
      simp only [Except.ok.injEq] at h; subst h
      obtain ⟨hs, hg⟩ := ih m0 hm0
      refine ⟨hs, fun j hj => ?_⟩
      have hj1 : inRange (h5Read m0.shape (h5Write m0)).shape j = true := hj
      rw [own_get (h5Read m0.shape (h5Write m0)) j hj1, h5_roundtrip_get m0 j hj]
      exact hg j hj
  | setv s p ih =>
    intro m h
    simp only [eval] at h
    split at h
    · cases h
    · rename_i m0 hm0
      obtain ⟨hs, _⟩ := ih m0 hm0
      obtain ⟨h1, h2⟩ := setMask_spec _ _ _ h
      refine ⟨by rw [h1, hs]; rfl, fun j hj => ?_⟩
      rw [h1] at hj
      rw [h2 j hj, hs]; rfl
  | fresh k p ih =>
    intro m h
    simp only [eval] at h
    split at h
    · cases h
    · rename_i m0 hm0
      split at h
      · obtain ⟨hs, _⟩ := ih m0 hm0
        obtain ⟨h1, h2⟩ := setMask_spec _ _ _ h
        refine ⟨by rw [h1, hs]; rfl, fun j hj => ?_⟩
        rw [h1] at hj
        rw [h2 j hj]
        simp [specMask, spec]
      · cases h

/-! ## dependencies on the leaves -/

theorem spec_deps (env : Nat → Mask) (p : Prog) (hp : setterFree p = true) : ∀ j,
    spec env p j = match deps env p j with
      | some l => l.all fun kj => (env kj.1).get kj.2
      | none => false := by
  induction p with
  | leaf k => intro j; simp [spec, deps]
  | pos p ih => intro j; simp only [spec, deps]; exact ih (by simpa [setterFree] using hp) j
  | un p ih => intro j; simp only [spec, deps]; exact ih (by simpa [setterFree] using hp) j
  | binC p ih => intro j; simp only [spec, deps]; exact ih (by simpa [setterFree] using hp) j
  | binF p q ihp ihq =>
    intro j
    simp only [setterFree, Bool.and_eq_true] at hp
    simp only [spec, deps]
    rw [ihp hp.1 j, ihq hp.2 j]
    cases deps env p j with
    | none => simp
    | some l1 =>
      cases deps env q j with
      | none => simp
      | some l2 => simp [List.all_append]
  | map op p ih =>
    intro j
    simp only [spec, deps]
    cases op.src (shapeOf env p) j with
    | none => rfl
    | some i => exact ih (by simpa [setterFree] using hp) i
  | vtk p ih => intro j; simp only [spec, deps]; exact ih (by simpa [setterFree] using hp) j
  | hdf5 p ih => intro j; simp only [spec, deps]; exact ih (by simpa [setterFree] using hp) j
  | setv s p _ => simp [setterFree] at hp
  | fresh k p _ => intro j; simp [spec, deps]

/-! ## ownership -/

/-- the store only grows; a result that is not an input field itself lives in a buffer
allocated during the evaluation; an alias returns the input's own address -/
theorem evalS_store (env : Nat → Mask) (addr : Nat → Nat) (p : Prog) : ∀ st a st',
    evalS env addr p st = .ok (a, st') →
    (∃ ext, st' = st ++ ext) ∧
    (aliasOf p = none → st.length ≤ a ∧ a < st'.length) ∧
    (∀ k, aliasOf p = some k → a = addr k ∧ st' = st) := by
  have grow : ∀ (st st1 : Store) (buf : List Bool), (∃ ext, st1 = st ++ ext) →
      (∃ ext, st1 ++ [buf] = st ++ ext) ∧ st.length ≤ st1.length ∧ st1.length < (st1 ++ [buf]).length := by
    rintro st st1 buf ⟨ext, rfl⟩
    exact ⟨⟨ext ++ [buf], by simp⟩, by simp, by simp⟩
  induction p with
  | leaf k =>
    intro st a st' h
    simp only [evalS, Except.ok.injEq, Prod.mk.injEq] at h
    obtain ⟨rfl, rfl⟩ := h
    exact ⟨⟨[], by simp⟩, by simp [aliasOf], fun k' hk => by simp [aliasOf] at hk; subst hk; exact ⟨rfl, rfl⟩⟩
  | pos p ih =>
    intro st a st' h
    simp only [evalS] at h
    simpa [aliasOf] using ih st a st' h
  | un p ih =>
    intro st a st' h
    simp only [evalS] at h
    split at h
    · cases h
    · rename_i r hr
      split at h
      · cases h
      · simp only [Except.ok.injEq, Prod.mk.injEq] at h
        obtain ⟨rfl, rfl⟩ := h
        obtain ⟨g1, g2, g3⟩ := grow st r.2 _ (ih st r.1 r.2 hr).1
        exact ⟨g1, fun _ => ⟨g2, g3⟩, fun k hk => by simp [aliasOf] at hk⟩
  | binC p ih =>
    intro st a st' h
    simp only [evalS] at h
    split at h
    · cases h
    · rename_i r hr
      split at h
      · cases h
      · simp only [Except.ok.injEq, Prod.mk.injEq] at h
        obtain ⟨rfl, rfl⟩ := h
        obtain ⟨g1, g2, g3⟩ := grow st r.2 _ (ih st r.1 r.2 hr).1
        exact ⟨g1, fun _ => ⟨g2, g3⟩, fun k hk => by simp [aliasOf] at hk⟩
  | binF p q ihp ihq =>
    intro st a st' h
    simp only [evalS] at h
    split at h
    · cases h
    · rename_i r1 hr1
      split at h
      · cases h
      · rename_i r2 hr2
        split at h
        · cases h
        · simp only [Except.ok.injEq, Prod.mk.injEq] at h
          obtain ⟨rfl, rfl⟩ := h
          obtain ⟨e1, he1⟩ := (ihp st r1.1 r1.2 hr1).1
          obtain ⟨e2, he2⟩ := (ihq r1.2 r2.1 r2.2 hr2).1
          obtain ⟨g1, g2, g3⟩ := grow st r2.2 _ ⟨e1 ++ e2, by rw [he2, he1]; simp⟩
          exact ⟨g1, fun _ => ⟨g2, g3⟩, fun k hk => by simp [aliasOf] at hk⟩
  | map op p ih =>
    intro st a st' h
    simp only [evalS] at h
    split at h
    · cases h
    · rename_i r hr
      split at h
      · cases h
      · simp only [Except.ok.injEq, Prod.mk.injEq] at h
        obtain ⟨rfl, rfl⟩ := h
        obtain ⟨g1, g2, g3⟩ := grow st r.2 _ (ih st r.1 r.2 hr).1
        exact ⟨g1, fun _ => ⟨g2, g3⟩, fun k hk => by simp [aliasOf] at hk⟩
  | vtk p ih =>
    intro st a st' h
    simp only [evalS] at h
    split at h
    · cases h
    · rename_i r hr
      split at h
      · cases h
      · simp only [Except.ok.injEq, Prod.mk.injEq] at h
        obtain ⟨rfl, rfl⟩ := h
        obtain ⟨g1, g2, g3⟩ := grow st r.2 _ (ih st r.1 r.2 hr).1
        exact ⟨g1, fun _ => ⟨g2, g3⟩, fun k hk => by simp [aliasOf] at hk⟩
  | hdf5 p ih =>
    intro st a st' h
    simp only [evalS] at h
    split at h
    · cases h
    · rename_i r hr
      split at h
      · cases h
      · simp only [Except.ok.injEq, Prod.mk.injEq] at h
        obtain ⟨rfl, rfl⟩ := h
        obtain ⟨g1, g2, g3⟩ := grow st r.2 _ (ih st r.1 r.2 hr).1
        exact ⟨g1, fun _ => ⟨g2, g3⟩, fun k hk => by simp [aliasOf] at hk⟩
  | setv s p ih =>
    intro st a st' h
    simp only [evalS] at h
    split at h
    · cases h
    · rename_i r hr
      split at h
      · cases h
      · simp only [Except.ok.injEq, Prod.mk.injEq] at h
        obtain ⟨rfl, rfl⟩ := h
        obtain ⟨g1, g2, g3⟩ := grow st r.2 _ (ih st r.1 r.2 hr).1
        exact ⟨g1, fun _ => ⟨g2, g3⟩, fun k hk => by simp [aliasOf] at hk⟩
  | fresh k0 p ih =>
    intro st a st' h
    simp only [evalS] at h
    split at h
    · cases h
    · rename_i r hr
      split at h
      · cases h
      · simp only [Except.ok.injEq, Prod.mk.injEq] at h
        obtain ⟨rfl, rfl⟩ := h
        obtain ⟨g1, g2, g3⟩ := grow st r.2 _ (ih st r.1 r.2 hr).1
        exact ⟨g1, fun _ => ⟨g2, g3⟩, fun k hk => by simp [aliasOf] at hk⟩

/-- the buffer at the result's address holds the mask the evaluator computes -/
theorem evalS_content (env : Nat → Mask) (addr : Nat → Nat) (p : Prog) : ∀ st a st',
    evalS env addr p st = .ok (a, st') → aliasOf p = none →
    ∃ m, eval env p = .ok m ∧ st'.getD a [] = m.toList := by
  induction p with
  | leaf k => intro st a st' _ hp; simp [aliasOf] at hp
  | pos p ih =>
    intro st a st' h hp
    simp only [evalS] at h
    simp only [aliasOf] at hp
    obtain ⟨m, hm, hc⟩ := ih st a st' h hp
    exact ⟨m, by simpa [eval] using hm, hc⟩
  | un p ih =>
    intro st a st' h _
    simp only [evalS] at h
    split at h
    · cases h
    · split at h
      · cases h
      · rename_i m hm
        simp only [Except.ok.injEq, Prod.mk.injEq] at h
        obtain ⟨rfl, rfl⟩ := h
        exact ⟨m, hm, by simp⟩
  | binC p ih =>
    intro st a st' h _
    simp only [evalS] at h
    split at h
    · cases h
    · split at h
      · cases h
      · rename_i m hm
        simp only [Except.ok.injEq, Prod.mk.injEq] at h
        obtain ⟨rfl, rfl⟩ := h
        exact ⟨m, hm, by simp⟩
  | map op p ih =>
    intro st a st' h _
    simp only [evalS] at h
    split at h
    · cases h
    · split at h
      · cases h
      · rename_i m hm
        simp only [Except.ok.injEq, Prod.mk.injEq] at h
        obtain ⟨rfl, rfl⟩ := h
        exact ⟨m, hm, by simp⟩
  | vtk p ih =>
    intro st a st' h _
    simp only [evalS] at h
    split at h
    · cases h
    · split at h
      · cases h
      · rename_i m hm
        simp only [Except.ok.injEq, Prod.mk.injEq] at h
        obtain ⟨rfl, rfl⟩ := h
        exact ⟨m, hm, by simp⟩
  | hdf5 p ih =>
    intro st a st' h _
    simp only [evalS] at h
    split at h
    · cases h
    · split at h
      · cases h
      · rename_i m hm
        simp only [Except.ok.injEq, Prod.mk.injEq] at h
        obtain ⟨rfl, rfl⟩ := h
        exact ⟨m, hm, by simp⟩
  | setv s p ih =>
    intro st a st' h _
    simp only [evalS] at h
    split at h
    · cases h
    · split at h
      · cases h
      · rename_i m hm
        simp only [Except.ok.injEq, Prod.mk.injEq] at h
        obtain ⟨rfl, rfl⟩ := h
        exact ⟨m, hm, by simp⟩
  | fresh k0 p ih =>
    intro st a st' h _
    simp only [evalS] at h
    split at h
    · cases h
    · split at h
      · cases h
      · rename_i m hm
        simp only [Except.ok.injEq, Prod.mk.injEq] at h
        obtain ⟨rfl, rfl⟩ := h
        exact ⟨m, hm, by simp⟩
  | binF p q ihp ihq =>
    intro st a st' h _
    simp only [evalS] at h
    split at h
    · cases h
    · split at h
      · cases h
      · split at h
        · cases h
        · rename_i m hm
          simp only [Except.ok.injEq, Prod.mk.injEq] at h
          obtain ⟨rfl, rfl⟩ := h
          exact ⟨m, hm, by simp⟩

/-- writing into one buffer leaves every other buffer as it was -/
theorem write_other (st : Store) (a k b : Nat) (v : Bool) (h : b ≠ a) :
    (write st a k v).getD b [] = st.getD b [] := by
  unfold write
  simp only [List.getD_eq_getElem?_getD]
  rw [List.getElem?_set_ne (Ne.symm h)]

end DFV.C08
