import DFV.Lemmas.C17Subset
/-! In-place changes of the mesh a field holds (`field.mesh.translate(…, inplace=True)`,
`field.mesh.scale(…, inplace=True)`), as modelled by the shared `T.stepM`: what an accepted
call does to the region, that well-formedness is kept, and how the cell centres move. -/
namespace DFV.C17
open DFV

/-! ## inversion of the shared step functions (in-place form) -/

theorem translateR_inplace_inv (r : Region) (v : List Rat) (r0 r' : Region)
    (h : T.translateR r v true = .ok (r0, r')) :
    v.length = r.ndim ∧
    r' = { r with pmin := tab r.ndim fun a => r.lo a + v.getD a 0,
                  pmax := tab r.ndim fun a => r.hi a + v.getD a 0 } := by
  unfold T.translateR at h
  split at h
  · cases h
  · next hv =>
    simp only [↓reduceIte] at h
    split at h
    · cases h
    · injection h with h
      injection h with h1 h2
      exact ⟨by simpa using hv, h2.symm⟩

theorem stepM_translate_inv (m : Mesh) (v : List Rat) (m' ret : Mesh)
    (h : T.stepM m (.translate v true) = .ok (m', ret)) :
    v.length = m.ndim ∧ m'.n = m.n ∧ m'.bc = m.bc ∧
    m'.region = { m.region with pmin := tab m.region.ndim fun a => m.region.lo a + v.getD a 0,
                                 pmax := tab m.region.ndim fun a => m.region.hi a + v.getD a 0 } := by
  simp only [T.stepM] at h
  split at h
  · cases h
  · cases h
  · next r0 r' subs' hr hs =>
    simp only [↓reduceIte] at h
    injection h with h
    injection h with h1 h2
    obtain ⟨hv, h0⟩ := translateR_inplace_inv _ _ _ _ hr
    subst h1
    exact ⟨hv, rfl, rfl, h0⟩

/-- the reference point used: the argument, else the region's centre -/
def refOf (r : Region) (ref : Option (List Rat)) : List Rat := ref.getD r.center

theorem scaleR_inplace_inv (r : Region) (f : T.Factor) (ref : Option (List Rat)) (r0 r' : Region)
    (h : T.scaleR r f ref true = .ok (r0, r')) :
    (∀ a, a < r.ndim → T.scaleHi r f (refOf r ref) a - T.scaleLo r f (refOf r ref) a ≠ 0) ∧
    r' = { r with pmin := tab r.ndim fun a => min (T.scaleLo r f (refOf r ref) a) (T.scaleHi r f (refOf r ref) a),
                  pmax := tab r.ndim fun a => max (T.scaleLo r f (refOf r ref) a) (T.scaleHi r f (refOf r ref) a) } := by
  unfold T.scaleR at h
  split at h
  · cases h
  · split at h
    · cases h
    · simp only [↓reduceIte] at h
      split at h
      · cases h
      · next hne =>
        injection h with h
        injection h with h1 h2
        refine ⟨?_, h2.symm⟩
        intro a ha
        have hne' : allLt r.ndim (fun a => decide (T.scaleHi r f (ref.getD r.center) a - T.scaleLo r f (ref.getD r.center) a ≠ 0)) = true := by
          simpa using hne
        rw [allLt_iff] at hne'
        exact of_decide_eq_true (hne' a ha)

theorem stepM_scale_inv (m : Mesh) (f : T.Factor) (ref : Option (List Rat)) (m' ret : Mesh)
    (h : T.stepM m (.scale f ref true) = .ok (m', ret)) :
    (∀ a, a < m.ndim → T.scaleHi m.region f (refOf m.region ref) a - T.scaleLo m.region f (refOf m.region ref) a ≠ 0) ∧
    m'.n = m.n ∧ m'.bc = m.bc ∧
    m'.region = { m.region with
      pmin := tab m.region.ndim fun a => min (T.scaleLo m.region f (refOf m.region ref) a) (T.scaleHi m.region f (refOf m.region ref) a),
      pmax := tab m.region.ndim fun a => max (T.scaleLo m.region f (refOf m.region ref) a) (T.scaleHi m.region f (refOf m.region ref) a) } := by
  simp only [T.stepM] at h
  split at h
  · cases h
  · cases h
  · next r0 r' subs' hr hs =>
    simp only [↓reduceIte] at h
    injection h with h
    injection h with h1 h2
    obtain ⟨hne, h0⟩ := scaleR_inplace_inv _ _ _ _ _ hr
    subst h1
    exact ⟨hne, rfl, rfl, h0⟩

/-! ## what an accepted in-place call keeps -/

/-- the two meshes have the same cell counts, names, units, tolerance, and `m'` is a
well-formed mesh again -/
structure SameFrame (m m' : Mesh) : Prop where
  n : m'.n = m.n
  dims : m'.region.dims = m.region.dims
  units : m'.region.units = m.region.units
  tol : m'.region.tol = m.region.tol
  ndim : m'.ndim = m.ndim
  inv : m'.Inv

theorem SameFrame.refl (m : Mesh) (hm : m.Inv) : SameFrame m m := ⟨rfl, rfl, rfl, rfl, rfl, hm⟩

theorem SameFrame.trans {m1 m2 m3 : Mesh} (h1 : SameFrame m1 m2) (h2 : SameFrame m2 m3) : SameFrame m1 m3 :=
  ⟨h2.n.trans h1.n, h2.dims.trans h1.dims, h2.units.trans h1.units, h2.tol.trans h1.tol, h2.ndim.trans h1.ndim, h2.inv⟩

/-- any mesh whose region has new ordered corner lists of the old length is in the same frame -/
theorem sameFrame_of_corners (m m' : Mesh) (hm : m.Inv) (lo hi : Nat → Rat) (hn : m'.n = m.n)
    (hr : m'.region = { m.region with pmin := tab m.region.ndim lo, pmax := tab m.region.ndim hi })
    (hlt : ∀ a, a < m.ndim → lo a < hi a) : SameFrame m m' := by
  have hnd : m'.ndim = m.ndim := by
    show m'.region.pmin.length = m.region.pmin.length
    rw [hr]; simp [Region.ndim]
  refine ⟨hn, by rw [hr], by rw [hr], by rw [hr], hnd, ?_, ?_, ?_⟩
  · obtain ⟨h1, h2, h3, h4, h5, h6⟩ := hm.1
    have hl : m'.region.pmin.length = m.region.pmin.length := hnd
    refine ⟨by rw [hl]; exact h1, ?_, ?_, ?_, ?_, ?_⟩
    · rw [hr]; simp
    · rw [hl, hr]; exact h3
    · rw [hl, hr]; exact h4
    · rw [hr]; exact h5
    · intro a ha
      rw [hl] at ha
      have e1 : m'.region.lo a = lo a := by
        unfold Region.lo; rw [hr]; exact getD_tab _ _ _ _ ha
      have e2 : m'.region.hi a = hi a := by
        unfold Region.hi; rw [hr]; exact getD_tab _ _ _ _ ha
      rw [e1, e2]; exact hlt a ha
  · show m'.n.length = m'.ndim
    rw [hn, hnd]; exact hm.2.1
  · intro a ha
    rw [hnd] at ha
    have : m'.nAt a = m.nAt a := by unfold Mesh.nAt; rw [hn]
    rw [this]; exact hm.2.2 a ha

theorem lo_of_region_eq (m m' : Mesh) (lo hi : Nat → Rat)
    (hr : m'.region = { m.region with pmin := tab m.region.ndim lo, pmax := tab m.region.ndim hi })
    (a : Nat) (ha : a < m.ndim) : m'.region.lo a = lo a ∧ m'.region.hi a = hi a := by
  constructor
  · unfold Region.lo; rw [hr]; exact getD_tab _ _ _ _ ha
  · unfold Region.hi; rw [hr]; exact getD_tab _ _ _ _ ha

theorem min_lt_max_of_ne (x y : Rat) (h : y - x ≠ 0) : min x y < max x y := by
  rcases lt_trichotomy x y with h1 | h1 | h1
  · rw [min_eq_left h1.le, max_eq_right h1.le]; exact h1
  · exact absurd (by rw [h1]; ring) h
  · rw [min_eq_right h1.le, max_eq_left h1.le]; exact h1

theorem sameFrame_translate (m : Mesh) (hm : m.Inv) (v : List Rat) (m' ret : Mesh)
    (h : T.stepM m (.translate v true) = .ok (m', ret)) : SameFrame m m' := by
  obtain ⟨-, hn, -, hr⟩ := stepM_translate_inv m v m' ret h
  apply sameFrame_of_corners m m' hm _ _ hn hr
  intro a ha
  have := hm.1.2.2.2.2.2 a ha
  linarith

theorem sameFrame_scale (m : Mesh) (hm : m.Inv) (f : T.Factor) (ref : Option (List Rat)) (m' ret : Mesh)
    (h : T.stepM m (.scale f ref true) = .ok (m', ret)) : SameFrame m m' := by
  obtain ⟨hne, hn, -, hr⟩ := stepM_scale_inv m f ref m' ret h
  apply sameFrame_of_corners m m' hm _ _ hn hr
  intro a ha
  exact min_lt_max_of_ne _ _ (hne a ha)

/-! ## cell centres after an accepted call -/

theorem cellAt_of (m m' : Mesh) (hn : m'.n = m.n) (a : Nat) :
    m'.cellAt a = (m'.region.hi a - m'.region.lo a) / (m.nAt a : Rat) := by
  unfold Mesh.cellAt Region.edge Mesh.nAt; rw [hn]

/-- translation: every cell centre moves by the vector -/
theorem centre_translate (m : Mesh) (v : List Rat) (m' ret : Mesh)
    (h : T.stepM m (.translate v true) = .ok (m', ret)) (a : Nat) (ha : a < m.ndim) (j : Int) :
    m'.centreAx a j = m.centreAx a j + v.getD a 0 := by
  obtain ⟨-, hn, -, hr⟩ := stepM_translate_inv m v m' ret h
  obtain ⟨e1, e2⟩ := lo_of_region_eq m m' _ _ hr a ha
  unfold Mesh.centreAx
  rw [cellAt_of m m' hn, e1, e2]
  unfold Mesh.cellAt Region.edge
  ring

/-- scaling by a positive factor `s` about `ref`: centre `c` of cell `j` moves to `ref + s(c - ref)` -/
theorem centre_scale_pos (m : Mesh) (f : T.Factor) (ref : Option (List Rat)) (m' ret : Mesh)
    (h : T.stepM m (.scale f ref true) = .ok (m', ret)) (a : Nat) (ha : a < m.ndim) (hm : m.Inv)
    (hs : 0 < f.at a) (j : Int) :
    m'.centreAx a j = (refOf m.region ref).getD a 0 + f.at a * (m.centreAx a j - (refOf m.region ref).getD a 0) := by
  obtain ⟨-, hn, -, hr⟩ := stepM_scale_inv m f ref m' ret h
  obtain ⟨e1, e2⟩ := lo_of_region_eq m m' _ _ hr a ha
  have hedge : 0 < m.region.edge a := by unfold Region.edge; linarith [hm.1.2.2.2.2.2 a ha]
  have hle : T.scaleLo m.region f (refOf m.region ref) a ≤ T.scaleHi m.region f (refOf m.region ref) a := by
    unfold T.scaleHi
    have := mul_pos hedge hs
    linarith
  unfold Mesh.centreAx
  rw [cellAt_of m m' hn, e1, e2, min_eq_left hle, max_eq_right hle]
  unfold T.scaleHi T.scaleLo Mesh.cellAt
  ring

/-- scaling by a negative factor: the order of the cells along the axis is reversed -/
theorem centre_scale_neg (m : Mesh) (f : T.Factor) (ref : Option (List Rat)) (m' ret : Mesh)
    (h : T.stepM m (.scale f ref true) = .ok (m', ret)) (a : Nat) (ha : a < m.ndim) (hm : m.Inv)
    (hs : f.at a < 0) (j : Int) :
    m'.centreAx a j = (refOf m.region ref).getD a 0 +
      f.at a * (m.centreAx a ((m.nAt a : Int) - 1 - j) - (refOf m.region ref).getD a 0) := by
  obtain ⟨-, hn, -, hr⟩ := stepM_scale_inv m f ref m' ret h
  obtain ⟨e1, e2⟩ := lo_of_region_eq m m' _ _ hr a ha
  have hedge : 0 < m.region.edge a := by unfold Region.edge; linarith [hm.1.2.2.2.2.2 a ha]
  have hle : T.scaleHi m.region f (refOf m.region ref) a ≤ T.scaleLo m.region f (refOf m.region ref) a := by
    unfold T.scaleHi
    have := mul_neg_of_pos_of_neg hedge hs
    linarith
  have hn0 : (m.nAt a : Rat) ≠ 0 := by
    have := hm.2.2 a ha
    exact_mod_cast (Nat.pos_iff_ne_zero.mp this)
  unfold Mesh.centreAx
  rw [cellAt_of m m' hn, e1, e2, min_eq_right hle, max_eq_left hle]
  unfold T.scaleHi T.scaleLo Mesh.cellAt
  push_cast
  field_simp
  unfold Region.edge
  ring

/-! ## acceptance: a mesh without subregions -/

theorem translate_accepted (m : Mesh) (hm : m.Inv) (hsub : m.subs = []) (v : List Rat) (hv : v.length = m.ndim) :
    ∃ m', T.stepM m (.translate v true) = .ok (m', m') := by
  have hne : allLt m.region.ndim (fun a => decide ((m.region.hi a + v.getD a 0) - (m.region.lo a + v.getD a 0) ≠ 0)) = true := by
    rw [allLt_iff]
    intro a ha
    apply decide_eq_true
    have := hm.1.2.2.2.2.2 a ha
    intro h0; linarith
  have hv' : ¬ (v.length ≠ m.region.ndim) := by
    have : v.length = m.region.ndim := hv
    simp [this]
  have ht : T.translateR m.region v true =
      .ok ({ m.region with pmin := tab m.region.ndim fun a => m.region.lo a + v.getD a 0,
                           pmax := tab m.region.ndim fun a => m.region.hi a + v.getD a 0 },
           { m.region with pmin := tab m.region.ndim fun a => m.region.lo a + v.getD a 0,
                           pmax := tab m.region.ndim fun a => m.region.hi a + v.getD a 0 }) := by
    unfold T.translateR
    rw [if_neg hv']
    simp only [↓reduceIte, hne, Bool.not_true, Bool.false_eq_true]
  have hsb : T.mapSubs m.subs (fun s => T.translateR s v true) = .ok [] := by rw [hsub]; rfl
  exact ⟨_, by simp only [T.stepM, ht, hsb, ↓reduceIte]; rfl⟩

theorem scale_accepted (m : Mesh) (hm : m.Inv) (hsub : m.subs = []) (f : T.Factor) (ref : Option (List Rat))
    (hf : f.okFor m.ndim = true) (href : (refOf m.region ref).length = m.ndim)
    (hs : ∀ a, a < m.ndim → f.at a ≠ 0) :
    ∃ m', T.stepM m (.scale f ref true) = .ok (m', m') := by
  have hne : allLt m.region.ndim (fun a => decide (T.scaleHi m.region f (ref.getD m.region.center) a
      - T.scaleLo m.region f (ref.getD m.region.center) a ≠ 0)) = true := by
    rw [allLt_iff]
    intro a ha
    apply decide_eq_true
    have hlt := hm.1.2.2.2.2.2 a ha
    have hedge : m.region.edge a ≠ 0 := by unfold Region.edge; intro h0; linarith
    unfold T.scaleHi
    intro h0
    have : m.region.edge a * f.at a = 0 := by linarith
    rcases mul_eq_zero.mp this with h1 | h1
    · exact hedge h1
    · exact hs a ha h1
  have hf' : f.okFor m.region.ndim = true := hf
  have href' : ¬ ((ref.getD m.region.center).length ≠ m.region.ndim) := by
    have : (ref.getD m.region.center).length = m.region.ndim := href
    simp [this]
  have ht : T.scaleR m.region f ref true =
      .ok ({ m.region with
              pmin := tab m.region.ndim fun a => min (T.scaleLo m.region f (ref.getD m.region.center) a) (T.scaleHi m.region f (ref.getD m.region.center) a),
              pmax := tab m.region.ndim fun a => max (T.scaleLo m.region f (ref.getD m.region.center) a) (T.scaleHi m.region f (ref.getD m.region.center) a) },
           { m.region with
              pmin := tab m.region.ndim fun a => min (T.scaleLo m.region f (ref.getD m.region.center) a) (T.scaleHi m.region f (ref.getD m.region.center) a),
              pmax := tab m.region.ndim fun a => max (T.scaleLo m.region f (ref.getD m.region.center) a) (T.scaleHi m.region f (ref.getD m.region.center) a) }) := by
    unfold T.scaleR
    rw [hf']
    simp only [Bool.not_true, Bool.false_eq_true, ↓reduceIte]
    rw [if_neg href']
    simp only [hne, Bool.not_true, Bool.false_eq_true, ↓reduceIte]
  have hsb : T.mapSubs m.subs (fun s => T.scaleR s f (T.subRef m ref) true) = .ok [] := by rw [hsub]; rfl
  exact ⟨_, by simp only [T.stepM, ht, hsb, ↓reduceIte]; rfl⟩

/-! ## the field -/

section
variable [FieldAttrs] {α : Type}

/-- what a history of in-place mesh calls keeps of the field -/
structure SameField (f g : XFld α) : Prop where
  frame : SameFrame f.mesh g.mesh
  nvdim : g.nvdim = f.nvdim
  data : g.data = f.data
  valid : g.valid = f.valid
  vdims : g.vdims = f.vdims
  vmap : g.vmap = f.vmap
  unit : g.unit = f.unit
  dtype : g.dtype = f.dtype

theorem SameField.refl (f : XFld α) (hf : f.WF) : SameField f f :=
  ⟨SameFrame.refl _ hf.mesh, rfl, rfl, rfl, rfl, rfl, rfl, rfl⟩

omit [FieldAttrs] in
theorem SameField.trans {f g k : XFld α} (h1 : SameField f g) (h2 : SameField g k) : SameField f k :=
  ⟨h1.frame.trans h2.frame, h2.nvdim.trans h1.nvdim, h2.data.trans h1.data, h2.valid.trans h1.valid,
   h2.vdims.trans h1.vdims, h2.vmap.trans h1.vmap, h2.unit.trans h1.unit, h2.dtype.trans h1.dtype⟩

theorem SameField.wf {f g : XFld α} (hf : f.WF) (h : SameField f g) : g.WF :=
  { mesh := h.frame.inv, nvdim := by rw [h.nvdim]; exact hf.nvdim,
    shape := by rw [h.data, h.frame.n, h.nvdim]; exact hf.shape,
    novd := by rw [h.frame.dims]; exact hf.novd,
    labels := by rw [h.vdims, h.nvdim]; exact hf.labels }

theorem meshStep_same (f : XFld α) (hf : f.WF) (op : MeshOp) : SameField f (f.meshStep op) := by
  unfold XFld.meshStep
  cases op with
  | translate v =>
    show SameField f (match T.stepM f.mesh (.translate v true) with | .ok (m', _) => { f with mesh := m' } | .error _ => f)
    cases h : T.stepM f.mesh (.translate v true) with
    | error e => exact SameField.refl f hf
    | ok p =>
      obtain ⟨m', ret⟩ := p
      exact ⟨sameFrame_translate f.mesh hf.mesh v m' ret h, rfl, rfl, rfl, rfl, rfl, rfl, rfl⟩
  | scale s ref =>
    show SameField f (match T.stepM f.mesh (.scale s ref true) with | .ok (m', _) => { f with mesh := m' } | .error _ => f)
    cases h : T.stepM f.mesh (.scale s ref true) with
    | error e => exact SameField.refl f hf
    | ok p =>
      obtain ⟨m', ret⟩ := p
      exact ⟨sameFrame_scale f.mesh hf.mesh s ref m' ret h, rfl, rfl, rfl, rfl, rfl, rfl, rfl⟩

theorem run_same (f : XFld α) (hf : f.WF) (ops : List MeshOp) : SameField f (f.run ops) := by
  induction ops generalizing f with
  | nil => exact SameField.refl f hf
  | cons op ops ih =>
    have h1 := meshStep_same f hf op
    exact h1.trans (ih (f.meshStep op) (h1.wf hf))

end
end DFV.C17
