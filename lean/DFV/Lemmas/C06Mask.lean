import DFV.Lemmas.C06Ok
/-! Keep-mask lemmas for C06 (means over several directions): summing one more kept axis,
looking axes up by name in reduced meshes. -/
namespace DFV.C06
open DFV

/-- clear the `p`-th `true` of a keep-mask -/
def clearNth : List Bool → Nat → List Bool
  | [], _ => []
  | false :: ks, p => false :: clearNth ks p
  | true :: ks, 0 => false :: ks
  | true :: ks, p + 1 => true :: clearNth ks p

theorem clearNth_length (K : List Bool) (p : Nat) : (clearNth K p).length = K.length := by
  induction K generalizing p with
  | nil => rfl
  | cons k ks ih =>
    cases k with
    | false => simp [clearNth, ih]
    | true => cases p <;> simp [clearNth, ih]

theorem filterMask_length_le {α} (K : List Bool) (xs : List α) : (filterMask K xs).length ≤ xs.length := by
  induction xs generalizing K with
  | nil => cases K <;> simp [filterMask]
  | cons x xs ih =>
    cases K with
    | nil => simp only [filterMask, List.length_cons]; have := ih []; omega
    | cons k ks =>
      cases k with
      | false => simp only [filterMask, List.length_cons]; have := ih ks; omega
      | true => simp only [filterMask, List.length_cons]; have := ih ks; omega

/-- removing the `p`-th kept entry = clearing the `p`-th `true` of the mask -/
theorem filterMask_clearNth {α} (K : List Bool) (xs : List α) (p : Nat) (hl : K.length = xs.length)
    (hp : p < (filterMask K xs).length) :
    filterMask (clearNth K p) xs = removeAt (filterMask K xs) p := by
  induction xs generalizing K p with
  | nil => cases K <;> simp [filterMask] at hp
  | cons x xs ih =>
    cases K with
    | nil => simp at hl
    | cons k ks =>
      have hl' : ks.length = xs.length := by simpa using hl
      cases k with
      | false =>
        simp only [clearNth, filterMask] at hp ⊢
        exact ih ks p hl' hp
      | true =>
        cases p with
        | zero => simp [clearNth, filterMask, removeAt]
        | succ p =>
          simp only [clearNth, filterMask, removeAt] at hp ⊢
          rw [ih ks p hl' (by simpa using hp)]

/-- summing the kept axis at position `p` of a partially summed array sums one more axis -/
theorem maskSum_step (shape : List Nat) (K : List Bool) (g : List Nat → Rat) (i : List Nat) (p : Nat)
    (hl : K.length = shape.length) (hp : p < (filterMask K shape).length)
    (hi : i.length + 1 = (filterMask K shape).length) :
    sumTo ((filterMask K shape).getD p 0) (fun j => maskSum shape K g (insertAt i p j))
      = maskSum shape (clearNth K p) g i := by
  induction shape generalizing K g i p with
  | nil => cases K <;> simp [filterMask] at hp
  | cons n ns ih =>
    cases K with
    | nil => simp at hl
    | cons k ks =>
      have hl' : ks.length = ns.length := by simpa using hl
      cases k with
      | false =>
        simp only [filterMask, clearNth, maskSum] at hp hi ⊢
        rw [sumTo_comm]
        apply sumTo_congr
        intro x _
        exact ih ks (fun t => g (x :: t)) i p hl' hp hi
      | true =>
        cases p with
        | zero =>
          simp only [filterMask, clearNth, maskSum, List.getD_cons_zero, insertAt_zero, List.headD_cons, List.tail_cons]
        | succ p =>
          cases i with
          | nil => simp only [filterMask, List.length_cons, List.length_nil] at hi hp; omega
          | cons x xs =>
            simp only [filterMask, clearNth, maskSum, List.getD_cons_succ, insertAt_cons_succ, List.headD_cons,
              List.tail_cons] at hp hi ⊢
            exact ih ks (fun t => g (x :: t)) xs p hl' (by simpa using hp) (by simpa using hi)


/-- position of the first occurrence of `x` (length of the list if absent) -/
def idx : List String → String → Nat
  | [], _ => 0
  | y :: ys, x => if y = x then 0 else idx ys x + 1

theorem indexOf_go_idx (x : String) (xs : List String) (k r : Nat) (h : indexOf?.go x xs k = some r) :
    r = k + idx xs x := by
  induction xs generalizing k with
  | nil => simp [indexOf?.go] at h
  | cons y ys ih =>
    simp only [indexOf?.go] at h
    simp only [idx]
    split at h
    · rename_i hy
      injection h with h
      simp [hy, h]
    · rename_i hy
      have := ih (k + 1) h
      simp [hy]; omega

theorem dim2index_idx (r : Region) (d : String) (a : Nat) (h : r.dim2index d = .ok a) : a = idx r.dims d := by
  unfold Region.dim2index at h
  split at h
  · rename_i i hi
    injection h with h; subst h
    have := indexOf_go_idx d r.dims 0 i hi
    simpa using this
  · cases h

theorem mem_of_dim2index (r : Region) (d : String) (a : Nat) (h : r.dim2index d = .ok a) : d ∈ r.dims := by
  obtain ⟨hlt, hget⟩ := dim2index_ok r d a h
  rw [← hget]
  simp only [List.getD_eq_getElem?_getD, hlt, List.getElem?_eq_getElem, Option.getD_some]
  exact List.getElem_mem hlt

theorem nodup_of_hasDup (xs : List String) (h : hasDup xs = false) : xs.Nodup := by
  induction xs with
  | nil => exact List.nodup_nil
  | cons y ys ih =>
    simp only [hasDup, Bool.or_eq_false_iff] at h
    rw [List.nodup_cons]
    refine ⟨?_, ih h.2⟩
    intro hm
    have : ys.contains y = true := by simpa using hm
    rw [this] at h
    exact absurd h.1 (by simp)

theorem hasDup_of_nodup (xs : List String) (h : xs.Nodup) : hasDup xs = false := by
  induction xs with
  | nil => rfl
  | cons y ys ih =>
    obtain ⟨hy, hnd⟩ := List.nodup_cons.mp h
    simp only [hasDup, Bool.or_eq_false_iff]
    refine ⟨?_, ih hnd⟩
    cases hc : ys.contains y with
    | false => rfl
    | true => exact absurd (by simpa using hc) hy

theorem mem_filterMask {α} (K : List Bool) (xs : List α) (x : α) (h : x ∈ filterMask K xs) : x ∈ xs := by
  induction xs generalizing K with
  | nil => cases K <;> simp [filterMask] at h
  | cons y ys ih =>
    cases K with
    | nil =>
      simp only [filterMask] at h
      rcases List.mem_cons.mp h with rfl | h
      · simp
      · exact List.mem_cons_of_mem _ (ih [] h)
    | cons k ks =>
      cases k with
      | false => simp only [filterMask] at h; exact List.mem_cons_of_mem _ (ih ks h)
      | true =>
        simp only [filterMask] at h
        rcases List.mem_cons.mp h with rfl | h
        · simp
        · exact List.mem_cons_of_mem _ (ih ks h)

/-- looking a kept entry up by name in the reduced lists = looking it up in the full lists -/
theorem getD_filterMask_idx {α} (K : List Bool) (dims : List String) (xs : List α) (d : String) (dflt : α)
    (hl : K.length = dims.length) (hx : xs.length = dims.length) (hnd : dims.Nodup)
    (hd : d ∈ filterMask K dims) :
    (filterMask K xs).getD (idx (filterMask K dims) d) dflt = xs.getD (idx dims d) dflt := by
  induction dims generalizing K xs with
  | nil => cases K <;> simp [filterMask] at hd
  | cons y ys ih =>
    cases K with
    | nil => simp at hl
    | cons k ks =>
      cases xs with
      | nil => simp at hx
      | cons x xs =>
        have hl' : ks.length = ys.length := by simpa using hl
        have hx' : xs.length = ys.length := by simpa using hx
        obtain ⟨hy, hnd'⟩ := List.nodup_cons.mp hnd
        cases k with
        | true =>
          simp only [filterMask, idx] at hd ⊢
          by_cases hyd : y = d
          · simp [hyd]
          · simp only [hyd, if_false, List.getD_cons_succ]
            rcases List.mem_cons.mp hd with h | h
            · exact absurd h.symm hyd
            · exact ih ks xs hl' hx' hnd' h
        | false =>
          simp only [filterMask, idx] at hd ⊢
          have hdy : d ∈ ys := mem_filterMask ks ys d hd
          have hyd : ¬ y = d := by intro h; subst h; exact hy hdy
          simp only [hyd, if_false, List.getD_cons_succ]
          exact ih ks xs hl' hx' hnd' hd

/-- clearing the mask entry of a kept name = clearing the `p`-th `true`, `p` its position
among the kept names -/
theorem clearNth_idx (K : List Bool) (dims : List String) (d : String)
    (hl : K.length = dims.length) (hnd : dims.Nodup) (hd : d ∈ filterMask K dims) :
    clearNth K (idx (filterMask K dims) d) = setAt K (idx dims d) false := by
  induction dims generalizing K with
  | nil => cases K <;> simp [filterMask] at hd
  | cons y ys ih =>
    cases K with
    | nil => simp at hl
    | cons k ks =>
      have hl' : ks.length = ys.length := by simpa using hl
      obtain ⟨hy, hnd'⟩ := List.nodup_cons.mp hnd
      cases k with
      | true =>
        simp only [filterMask, idx] at hd ⊢
        by_cases hyd : y = d
        · simp [hyd, clearNth, setAt]
        · simp only [hyd, if_false, clearNth, setAt]
          rcases List.mem_cons.mp hd with h | h
          · exact absurd h.symm hyd
          · rw [ih ks hl' hnd' h]
      | false =>
        simp only [filterMask, idx] at hd ⊢
        have hdy : d ∈ ys := mem_filterMask ks ys d hd
        have hyd : ¬ y = d := by intro h; subst h; exact hy hdy
        simp only [hyd, if_false, clearNth, setAt]
        rw [ih ks hl' hnd' hd]

theorem idx_lt_of_mem (xs : List String) (x : String) (h : x ∈ xs) : idx xs x < xs.length := by
  induction xs with
  | nil => simp at h
  | cons y ys ih =>
    simp only [idx]
    by_cases hy : y = x
    · simp [hy]
    · simp only [hy, if_false, List.length_cons]
      rcases List.mem_cons.mp h with rfl | h
      · exact absurd rfl hy
      · have := ih h; omega


theorem dropProd_clearNth (K : List Bool) (shape : List Nat) (p : Nat) (hl : K.length = shape.length)
    (hp : p < (filterMask K shape).length) :
    dropProd (clearNth K p) shape = (filterMask K shape).getD p 0 * dropProd K shape := by
  induction shape generalizing K p with
  | nil => cases K <;> simp [filterMask] at hp
  | cons n ns ih =>
    cases K with
    | nil => simp at hl
    | cons k ks =>
      have hl' : ks.length = ns.length := by simpa using hl
      cases k with
      | false =>
        simp only [clearNth, filterMask, dropProd] at hp ⊢
        rw [ih ks p hl' hp]; ring
      | true =>
        cases p with
        | zero => simp [clearNth, filterMask, dropProd]
        | succ p =>
          simp only [clearNth, filterMask, dropProd, List.getD_cons_succ] at hp ⊢
          exact ih ks p hl' (by simpa using hp)

theorem filterMask_length_eq {α β} (K : List Bool) (xs : List α) (ys : List β) (h : xs.length = ys.length) :
    (filterMask K xs).length = (filterMask K ys).length := by
  induction xs generalizing K ys with
  | nil =>
    cases ys with
    | nil => cases K <;> simp [filterMask]
    | cons y ys => simp at h
  | cons x xs ih =>
    cases ys with
    | nil => simp at h
    | cons y ys =>
      have h' : xs.length = ys.length := by simpa using h
      cases K with
      | nil => simp only [filterMask, List.length_cons]; rw [ih [] ys h']
      | cons k ks =>
        cases k with
        | false => simp only [filterMask]; exact ih ks ys h'
        | true => simp only [filterMask, List.length_cons]; rw [ih ks ys h']

theorem filterMask_allTrue {α} (xs : List α) : filterMask (List.replicate xs.length true) xs = xs := by
  induction xs with
  | nil => simp [filterMask]
  | cons x xs ih => simp only [List.length_cons, List.replicate_succ, filterMask, ih]

theorem maskSum_allTrue (shape : List Nat) (g : List Nat → Rat) (i : List Nat) (hi : i.length = shape.length) :
    maskSum shape (List.replicate shape.length true) g i = g i := by
  induction shape generalizing g i with
  | nil =>
    have : i = [] := List.eq_nil_of_length_eq_zero (by simpa using hi)
    subst this; simp [maskSum]
  | cons n ns ih =>
    cases i with
    | nil => simp at hi
    | cons x xs =>
      simp only [List.length_cons, List.replicate_succ, maskSum, List.headD_cons, List.tail_cons]
      exact ih (fun t => g (x :: t)) xs (by simpa using hi)

theorem dropProd_allTrue (shape : List Nat) : dropProd (List.replicate shape.length true) shape = 1 := by
  induction shape with
  | nil => simp [dropProd]
  | cons n ns ih => simp only [List.length_cons, List.replicate_succ, dropProd, ih]

theorem getD_setAt {α} (l : List α) (a k : Nat) (v d : α) :
    (setAt l a v).getD k d = if k = a ∧ a < l.length then v else l.getD k d := by
  induction l generalizing a k with
  | nil => simp [setAt]
  | cons x xs ih =>
    cases a with
    | zero =>
      cases k with
      | zero => simp [setAt]
      | succ k => simp [setAt]
    | succ a =>
      cases k with
      | zero => simp [setAt]
      | succ k =>
        simp only [setAt, List.getD_cons_succ, ih, List.length_cons]
        simp

/-- clearing the mask entries of a list of axes one by one gives the keep-mask of the list -/
theorem foldl_setAt_false (axes : List Nat) (K : List Bool) :
    axes.foldl (fun K a => setAt K a false) K = tab K.length fun k => K.getD k true && !axes.contains k := by
  induction axes generalizing K with
  | nil =>
    simp only [List.foldl_nil, List.contains_nil, Bool.not_false, Bool.and_true]
    exact eq_tab_of_getD K K.length _ true rfl fun i _ => rfl
  | cons a as ih =>
    simp only [List.foldl_cons]
    rw [ih, setAt_length]
    apply tab_congr
    intro k hk
    rw [getD_setAt]
    simp only [List.contains_cons]
    by_cases hka : k = a
    · subst hka; simp [hk]
    · have : (k == a) = false := by simpa using hka
      simp [hka, this]

theorem keepMask_eq_foldl (n : Nat) (axes : List Nat) :
    keepMask n axes = axes.foldl (fun K a => setAt K a false) (List.replicate n true) := by
  rw [foldl_setAt_false]
  unfold keepMask
  simp only [List.length_replicate]
  apply tab_congr
  intro k hk
  simp [List.getD_eq_getElem?_getD, hk]

theorem dropProd_pos (K : List Bool) (shape : List Nat) (h : ∀ n ∈ shape, 0 < n) : 0 < dropProd K shape := by
  induction shape generalizing K with
  | nil => cases K with
    | nil => simp [dropProd]
    | cons k ks => cases k <;> simp [dropProd]
  | cons n ns ih =>
    cases K with
    | nil => simp [dropProd]
    | cons k ks =>
      cases k with
      | false =>
        simp only [dropProd]
        exact Nat.mul_pos (h n (by simp)) (ih ks fun m hm => h m (by simp [hm]))
      | true =>
        simp only [dropProd]
        exact ih ks fun m hm => h m (by simp [hm])


end DFV.C06
