import DFV.Lemmas.C10
/-! C10: the C cast `int64 → double` (`rne53`): which integers it keeps. -/
namespace DFV.C10
open DFV

theorem rne53_of_le (i : Int) (h : i.natAbs ≤ 2 ^ 53) : rne53 i = i := by
  unfold rne53; rw [if_pos h]

/-- the search for the number of bits to drop never overshoots a sufficient one -/
theorem dropE_le (n : Nat) (fuel e e' : Nat) (he : e ≤ e') (h : n / 2 ^ e' < 2 ^ 53) : dropE n fuel e ≤ e' := by
  induction fuel generalizing e with
  | zero => exact he
  | succ fuel ih =>
    simp only [dropE]
    split
    · exact he
    · rename_i hc
      apply ih
      rcases Nat.lt_or_ge e e' with hlt | hge
      · exact hlt
      · have : e = e' := by omega
        subst this
        exact absurd h hc

/-- … and, within its fuel, finds one -/
theorem dropE_spec (n : Nat) (fuel e : Nat) (h : n / 2 ^ (e + fuel) < 2 ^ 53) : n / 2 ^ (dropE n fuel e) < 2 ^ 53 := by
  induction fuel generalizing e with
  | zero => simpa [dropE] using h
  | succ fuel ih =>
    simp only [dropE]
    split
    · assumption
    · apply ih
      have : e + 1 + fuel = e + (fuel + 1) := by omega
      rw [this]; exact h

theorem rneNat_of_dvd (n e : Nat) (h : 2 ^ e ∣ n) : rneNat n e = n := by
  unfold rneNat
  have h0 : n % 2 ^ e = 0 := Nat.mod_eq_zero_of_dvd h
  have hp : 0 < 2 ^ e := Nat.pos_of_ne_zero (by simp)
  rw [h0, if_pos (by omega)]
  exact Nat.div_mul_cancel h

/-- the rounded value is a 53-bit number (or 2^53) times the power of two dropped -/
theorem rneNat_form (n e : Nat) : ∃ q, (q = n / 2 ^ e ∨ q = n / 2 ^ e + 1) ∧ rneNat n e = q * 2 ^ e := by
  unfold rneNat
  split
  · exact ⟨_, Or.inl rfl, rfl⟩
  · split
    · exact ⟨_, Or.inr rfl, rfl⟩
    · split
      · exact ⟨_, Or.inl rfl, rfl⟩
      · exact ⟨_, Or.inr rfl, rfl⟩

/-- **Integers with at most 53 significant bits survive** (any magnitude) -/
theorem rne53_of_representable (i : Int) (m e : Nat) (hm : m < 2 ^ 53) (h : i.natAbs = m * 2 ^ e) : rne53 i = i := by
  unfold rne53
  split
  · rfl
  · have hdiv : i.natAbs / 2 ^ e < 2 ^ 53 := by
      rw [h, Nat.mul_div_cancel _ (Nat.pos_of_ne_zero (by simp))]; exact hm
    have hle := dropE_le i.natAbs 64 0 e (Nat.zero_le _) hdiv
    have hdvd : 2 ^ (dropE i.natAbs 64 0) ∣ i.natAbs := by
      have h2 : 2 ^ (dropE i.natAbs 64 0) ∣ m * 2 ^ e := Dvd.dvd.mul_left (Nat.pow_dvd_pow 2 hle) m
      rw [← h] at h2
      exact h2
    rw [rneNat_of_dvd _ _ hdvd]
    exact Int.sign_mul_natAbs i

/-- **… and only those** (for every `int64`): an integer the C cast keeps has at most 53
significant bits (a 53-bit number, or 2^53, times a power of two) -/
theorem representable_of_rne53 (i : Int) (hi : i.natAbs < 2 ^ 64) (h : rne53 i = i) :
    ∃ m e : Nat, m ≤ 2 ^ 53 ∧ i.natAbs = m * 2 ^ e := by
  unfold rne53 at h
  split at h
  · rename_i hle
    exact ⟨i.natAbs, 0, hle, by simp⟩
  · have hspec := dropE_spec i.natAbs 64 0 (by
      have : i.natAbs / 2 ^ (0 + 64) = 0 := Nat.div_eq_of_lt (by simpa using hi)
      rw [this]; exact Nat.pos_of_ne_zero (by simp))
    obtain ⟨q, hq, hr⟩ := rneNat_form i.natAbs (dropE i.natAbs 64 0)
    refine ⟨q, dropE i.natAbs 64 0, by rcases hq with rfl | rfl <;> omega, ?_⟩
    have := congrArg Int.natAbs h
    rw [Int.natAbs_mul, Int.natAbs_natCast, hr] at this
    have hs : i.sign.natAbs = 1 := by
      rcases Int.lt_trichotomy i 0 with hneg | hz | hpos
      · rw [Int.sign_eq_neg_one_of_neg hneg]; rfl
      · subst hz; rename_i hgt; simp at hgt
      · rw [Int.sign_eq_one_of_pos hpos]; rfl
    rw [hs, Nat.one_mul] at this
    exact this.symm

/-- the first integer binary64 does not hold: 2^53 + 1 becomes 2^53 (tie to even) -/
theorem rne53_2p53_succ : rne53 (2 ^ 53 + 1) = 2 ^ 53 := by decide +kernel

/-- … and 2^53 + 3 becomes 2^53 + 4 (tie to even, upward) -/
theorem rne53_2p53_three : rne53 (2 ^ 53 + 3) = 2 ^ 53 + 4 := by decide +kernel

namespace DBuf

/-- **the conversion on reading keeps every value iff every integer survives the C cast** -/
theorem upcast_vals_iff (b : DBuf) : b.upcast.vals = b.vals ↔ b.IntSafe := by
  constructor
  · intro h
    cases b with
    | ints v =>
      unfold IntSafe intSafeB
      rw [List.all_eq_true]
      intro i hi
      simp only [upcast, vals, List.map_map] at h
      obtain ⟨k, hk, rfl⟩ := List.mem_iff_getElem.mp hi
      have := congrArg (fun l => l[k]?) h
      simp only [List.getElem?_map, List.getElem?_eq_getElem hk, Option.map_some, Function.comp, Option.some.injEq,
        Prod.mk.injEq, FV.fin.injEq, and_true] at this
      have : rne53 v[k] = v[k] := by exact_mod_cast this
      simpa using this
    | floats v => rfl
    | complexes v => rfl
  · exact upcast_vals b

end DBuf

end DFV.C10
