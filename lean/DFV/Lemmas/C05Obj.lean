import DFV.Lemmas.C05RotK
import DFV.Lemmas.C13StepM
/-! helper lemmas tying the shared object-level model of `Field.rotate90(ax1, ax2, k, reference_point,
inplace)` (`T.rotate90F` of `Model/Transform.lean`: ANY reference point, either form, meshes WITH
subregions, turned and re-validated by the constructor — the model of C12 / C13) to C05's centre /
copy-form / no-subregion model `rot90FldK`: the two results cannot be told apart by the differential
operators (`Sim`), because the edge lengths of a turned region do not depend on the reference point,
the turned `bc` is the same string, and `np.rot90` / the quarter-turn matrix act alike. -/
set_option linter.unusedSimpArgs false
set_option linter.unusedVariables false
namespace DFV.C05
open DFV DFV.C04

theorem rotCoord_diff (p q R R' : List Rat) (a b : Nat) (k : Int) (e : Nat) :
    T.rotCoord p R a b k e - T.rotCoord q R a b k e = T.rotCoord p R' a b k e - T.rotCoord q R' a b k e := by
  unfold T.rotCoord
  split
  · ring
  · split
    · ring
    · rfl

theorem maxmin_of_diff (X Y X' Y' : Rat) (h : X - Y = X' - Y') : max X Y - min X Y = max X' Y' - min X' Y' := by
  rcases le_total X Y with h1 | h1
  · have h2 : X' ≤ Y' := by linarith
    rw [max_eq_right h1, min_eq_left h1, max_eq_right h2, min_eq_left h2]; linarith
  · have h2 : Y' ≤ X' := by linarith
    rw [max_eq_left h1, min_eq_right h1, max_eq_left h2, min_eq_right h2]; linarith

/-- the edge lengths of a turned region do not depend on the reference point -/
theorem target_edge_ref (r : Region) (R R' : List Rat) (a b : Nat) (k : Int) (u u' : List String) (e : Nat) :
    (T.target r (T.rotCoord r.pmin R a b k) (T.rotCoord r.pmax R a b k) u).edge e
      = (T.target r (T.rotCoord r.pmin R' a b k) (T.rotCoord r.pmax R' a b k) u').edge e := by
  by_cases he : e < r.ndim
  · unfold Region.edge
    rw [T.target_lo _ _ _ _ _ he, T.target_hi _ _ _ _ _ he, T.target_lo _ _ _ _ _ he, T.target_hi _ _ _ _ _ he]
    exact maxmin_of_diff _ _ _ _ (rotCoord_diff _ _ _ _ _ _ _ _)
  · unfold Region.edge Region.hi Region.lo T.target
    simp only []
    rw [getD_tab_ge _ _ _ _ (by omega), getD_tab_ge _ _ _ _ (by omega), getD_tab_ge _ _ _ _ (by omega), getD_tab_ge _ _ _ _ (by omega)]

theorem rotBc_eq (bc da db : String) (k : Int) : T.rotBc bc da db k = rotBcK bc da db k := by
  unfold T.rotBc rotBcK rotBc1 swapChar
  cases T.isOdd k
  · simp
  · simp only [Bool.true_and, if_true]
    rfl
theorem dim2index_getD (r : Region) (a : Nat) (hd : hasDup r.dims = false) (ha : a < r.dims.length) :
    r.dim2index (r.dims.getD a "") = .ok a := by
  unfold Region.dim2index
  rw [indexOf?_getD _ a hd ha]

/-- what `Mesh.rotate90(k)` about the centre (C05's copy-form model) returns -/
theorem rotMeshK_inv (m m2 : Mesh) (a b : Nat) (k : Int) (hd : hasDup m.region.dims = false)
    (ha : a < m.region.dims.length) (hb : b < m.region.dims.length)
    (h : rotMeshK m (m.region.dims.getD a "") (m.region.dims.getD b "") k = .ok m2) :
    m2.region = T.target m.region (T.rotCoord m.region.pmin m.region.center a b k)
        (T.rotCoord m.region.pmax m.region.center a b k) (T.rotUnits m.region.units a b k) ∧
    m2.n = T.rotN m.n a b k ∧
    m2.bc = (rotBcK m.bc (m.region.dims.getD a "") (m.region.dims.getD b "") k).toLower := by
  unfold rotMeshK at h
  split at h
  · cases h
  · rw [indexOf?_getD _ a hd ha, indexOf?_getD _ b hd hb] at h
    simp only [] at h
    split at h
    · cases h
    · rename_i r hr
      split at h
      · cases h
      · split at h
        · cases h
        · rename_i m0 hm0
          injection h with h; subst h
          have hr' : T.viaCtor m.region (tab m.region.ndim (T.rotCoord m.region.pmin m.region.center a b k))
              (tab m.region.ndim (T.rotCoord m.region.pmax m.region.center a b k)) (T.rotUnits m.region.units a b k) = .ok r := hr
          obtain ⟨e, _⟩ := T.viaCtor_inv _ _ _ _ _ hr'
          unfold Mesh.mkN? at hm0
          split at hm0
          · cases hm0
          · split at hm0
            · cases hm0
            · split at hm0
              · cases hm0
              · injection hm0 with hm0; subst hm0
                exact ⟨e, rfl, rfl⟩

/-- what `Mesh.rotate90(k, reference_point)` in its copying form (shared model `T.stepM`, subregions
included and re-validated by the constructor) returns -/
theorem stepM_rot_inv (m y m' : Mesh) (a b : Nat) (k : Int) (ref : Option (List Rat)) (hd : hasDup m.region.dims = false)
    (ha : a < m.region.dims.length) (hb : b < m.region.dims.length)
    (h : T.stepM m (.rotate90 (m.region.dims.getD a "") (m.region.dims.getD b "") k ref false) = .ok (y, m')) :
    m'.region = T.target m.region (T.rotCoord m.region.pmin (ref.getD m.region.center) a b k)
        (T.rotCoord m.region.pmax (ref.getD m.region.center) a b k) (T.rotUnits m.region.units a b k) ∧
    m'.n = T.rotN m.n a b k ∧
    m'.bc = (rotBcK m.bc (m.region.dims.getD a "") (m.region.dims.getD b "") k).toLower ∧ y = m := by
  rw [T.stepM_eq_stepMU] at h
  unfold T.stepMU at h
  split at h
  · cases h
  · cases h
  · rename_i x r' subs' hreg hsub
    simp only [T.stepR] at hreg
    obtain ⟨_, _, i1, i2, h1, h2, _, _, _, _, e, _⟩ := T.rotate90R_inv _ _ _ _ _ _ _ _ hreg
    rw [dim2index_getD _ a hd ha] at h1
    rw [dim2index_getD _ b hd hb] at h2
    injection h1 with h1; injection h2 with h2
    subst h1; subst h2
    simp only [T.Op.inplace, Bool.false_eq_true, if_false] at h
    split at h
    · cases h
    · rename_i m0 hm0
      injection h with h; injection h with hy hm
      subst hm
      unfold T.mkMesh? at hm0
      split at hm0
      · cases hm0
      · rename_i m1 hm1
        unfold T.setSubs at hm0
        split at hm0
        · injection hm0 with hm0; subst hm0
          unfold Mesh.mkN? at hm1
          split at hm1
          · cases hm1
          · split at hm1
            · cases hm1
            · split at hm1
              · cases hm1
              · injection hm1 with hm1; subst hm1
                refine ⟨e, ?_, ?_, hy.symm⟩
                · simp only [T.opN, dim2index_getD _ a hd ha, dim2index_getD _ b hd hb]
                · simp only [T.opBc, rotBc_eq]
        · cases hm0
/-- the mesh `Mesh.rotate90(k, reference_point)` returns (any reference point, subregions turned and
re-validated) and the mesh C05's centre / copy-form / no-subregion model returns cannot be told
apart by differentiation: same axis names, cell counts, cell sizes, periodic directions -/
theorem meshSim_obj (m y m' m2 : Mesh) (a b : Nat) (k : Int) (ref : Option (List Rat)) (hd : hasDup m.region.dims = false)
    (ha : a < m.region.dims.length) (hb : b < m.region.dims.length)
    (h : T.stepM m (.rotate90 (m.region.dims.getD a "") (m.region.dims.getD b "") k ref false) = .ok (y, m'))
    (h2 : rotMeshK { m with subs := [] } (m.region.dims.getD a "") (m.region.dims.getD b "") k = .ok m2) :
    MeshSim m' m2 ∧ m'.ndim = m.ndim ∧ m'.region.dims = m.region.dims ∧ m'.n = T.rotN m.n a b k := by
  obtain ⟨r1, n1, b1, _⟩ := stepM_rot_inv m y m' a b k ref hd ha hb h
  obtain ⟨r2, n2, b2⟩ := rotMeshK_inv { m with subs := [] } m2 a b k hd ha hb h2
  simp only [] at r2 n2 b2
  have nd1 : m'.ndim = m.ndim := by unfold Mesh.ndim; rw [r1, T.target_ndim]
  have nd2 : m2.ndim = m.ndim := by unfold Mesh.ndim; rw [r2, T.target_ndim]
  have d1 : m'.region.dims = m.region.dims := by rw [r1]; rfl
  have d2 : m2.region.dims = m.region.dims := by rw [r2]; rfl
  refine ⟨⟨by rw [nd1, nd2], by rw [d1, d2], ?_⟩, nd1, d1, n1⟩
  intro e he
  refine ⟨by unfold Mesh.nAt; rw [n1, n2], ?_, by unfold perM; rw [b1, b2, d1, d2]⟩
  unfold Mesh.cellAt Mesh.nAt
  rw [n1, n2, r1, r2]
  rw [target_edge_ref m.region (ref.getD m.region.center) m.region.center a b k _ (T.rotUnits m.region.units a b k) e]

theorem meshWf_strip {f : Fld} (wf : MeshWf f) : MeshWf (strip f) :=
  ⟨wf.pmax_len, wf.n_len, wf.dims, wf.units_len, wf.pos, wf.bc_lower, wf.bc_ok, wf.data_shape⟩

theorem turnWf_strip {f : Fld} {a b : Nat} (tw : TurnWf f a b) : TurnWf (strip f) a b :=
  ⟨tw.turns, tw.bc_lower, tw.bc_ok⟩

theorem sim_strip (f : Fld) : Sim f (strip f) :=
  ⟨⟨rfl, rfl, fun _ _ => ⟨rfl, rfl, rfl⟩⟩, rfl, rfl, rfl, fun _ _ _ => rfl, fun _ _ => rfl⟩

theorem sim_symm {X Y : Fld} (h : Sim X Y) : Sim Y X := by
  obtain ⟨⟨m1, m2, m3⟩, h2, h3, h4, h5, h6⟩ := h
  refine ⟨⟨m1.symm, m2.symm, fun e he => ?_⟩, h2.symm, h3.symm, h4.symm, fun i hi c => ?_, fun i hi => ?_⟩
  · obtain ⟨x1, x2, x3⟩ := m3 e (by rw [m1]; exact he)
    exact ⟨x1.symm, x2.symm, x3.symm⟩
  · exact (h5 i (by rw [m1]; exact hi) c).symm
  · exact (h6 i (by rw [m1]; exact hi)).symm

/-- what an accepted field rotation returned (inversion of the shared model `T.rotate90F`) -/
theorem rotate90F_inv' (f : Fld) (a1 a2 : String) (k : Int) (ref : Option (List Rat)) (b : Bool) (x g : Fld)
    (h : T.rotate90F f a1 a2 k ref b = .ok (x, g)) :
    ∃ y m' i1 i2, T.stepM f.mesh (.rotate90 a1 a2 k ref false) = .ok (y, m') ∧
      f.mesh.region.dim2index a1 = .ok i1 ∧ f.mesh.region.dim2index a2 = .ok i2 ∧
      g.mesh = m' ∧ g.nvdim = f.nvdim ∧ g.vdims = f.vdims ∧ g.vmap = f.vmap ∧ g.unit = f.unit ∧
      g.valid = T.rot90 f.valid i1 i2 k ∧
      ((f.nvdim ≤ 1 ∧ g.data = T.rot90 f.data i1 i2 k) ∨
       (f.nvdim > 1 ∧ ∃ c1 c2, (f.rDim a1).bind f.vdimIndex = some c1 ∧ (f.rDim a2).bind f.vdimIndex = some c2 ∧
          g.data = (T.rot90 f.data i1 i2 k).map fun v => T.rotVec v c1 c2 k)) ∧
      x = if b then g else f := by
  unfold T.rotate90F at h
  split at h
  · cases h
  · cases h
  · cases h
  · rename_i y m' i1 i2 hm' h1 h2
    refine ⟨y, m', i1, i2, hm', h1, h2, ?_⟩
    split at h
    · rename_i hv
      split at h
      · rename_i c1 c2 hc1 hc2
        injection h with h; injection h with ha hb
        subst hb
        refine ⟨rfl, rfl, rfl, rfl, rfl, rfl, Or.inr ⟨hv, c1, c2, hc1, hc2, rfl⟩, ?_⟩
        cases b <;> exact ha.symm
      · cases h
    · rename_i hv
      injection h with h; injection h with ha hb
      subst hb
      refine ⟨rfl, rfl, rfl, rfl, rfl, rfl, Or.inl ⟨by omega, rfl⟩, ?_⟩
      cases b <;> exact ha.symm

/-- **`Field.rotate90(ax1, ax2, k, reference_point, inplace)` of a plain scalar field** (shared model
`T.rotate90F`: any reference point, either form, subregions) cannot be told apart, by the
differential operators, from the centre / copy-form turn `rot90FldK` of the field without its
subregion list -/
theorem simObj_scalar (f x g : Fld) (a b : Nat) (k : Int) (ref : Option (List Rat)) (inpl : Bool) (wf : MeshWf f)
    (tw : TurnWf f a b) (hp : Plain f) (ha : a < f.mesh.ndim) (hb : b < f.mesh.ndim) (hab : a ≠ b)
    (hg : T.rotate90F f (f.mesh.region.dims.getD a "") (f.mesh.region.dims.getD b "") k ref inpl = .ok (x, g)) :
    ∃ R', rot90FldK (strip f) (f.mesh.region.dims.getD a "") (f.mesh.region.dims.getD b "") k = .ok R' ∧ Plain R' ∧ Plain g ∧
      Sim g R' ∧ g.mesh.ndim = f.mesh.ndim ∧ g.mesh.region.dims = f.mesh.region.dims ∧ x = (if inpl then g else f) ∧
      g.data = T.rot90 f.data a b k ∧ g.valid = T.rot90 f.valid a b k ∧
      ∃ y, T.stepM f.mesh (.rotate90 (f.mesh.region.dims.getD a "") (f.mesh.region.dims.getD b "") k ref false) = .ok (y, g.mesh) := by
  have hda : a < f.mesh.region.dims.length := by rw [wf.dims.1]; exact ha
  have hdb : b < f.mesh.region.dims.length := by rw [wf.dims.1]; exact hb
  obtain ⟨y, m', i1, i2, hm', d1, d2, e1, e2, e3, e4, e5, e6, e7, e8⟩ := rotate90F_inv' f _ _ k ref inpl x g hg
  rw [dim2index_getD _ a wf.dims.2 hda] at d1
  rw [dim2index_getD _ b wf.dims.2 hdb] at d2
  injection d1 with d1; injection d2 with d2
  subst d1; subst d2
  obtain ⟨R', h1, h2, _, h4, h5, h6⟩ := rot90FldK_scalar_data (strip f) a b k (meshWf_strip wf) (turnWf_strip tw) rfl hp ha hb hab
  obtain ⟨R'', k1, k2, k3, k4, k5, k6⟩ := rot90FldK_plain (strip f) a b k R'.mesh (meshWf_strip wf).dims hp ha hb h4
  have : R'' = R' := by
    have := k1.symm.trans h1
    injection this
  subst this
  obtain ⟨ms, nd, dm, _⟩ := meshSim_obj f.mesh y m' R''.mesh a b k ref wf.dims.2 hda hdb hm' h4
  have hgd : g.data = T.rot90 f.data a b k := by
    rcases e7 with ⟨_, e⟩ | ⟨hn, _⟩
    · exact e
    · rw [hp.1] at hn; omega
  have pg : Plain g := ⟨by rw [e2]; exact hp.1, by rw [e3]; exact hp.2.1, by rw [e4]; exact hp.2.2⟩
  refine ⟨R'', h1, h2, pg, ⟨by rw [e1]; exact ms, by rw [pg.1, h2.1], by rw [pg.2.1, h2.2.1], by rw [pg.2.2, h2.2.2], ?_, ?_⟩,
    by rw [e1]; exact nd, by rw [e1]; exact dm, e8, hgd, e6, y, by rw [e1]; exact hm'⟩
  · intro i _ c; rw [hgd, k3]; rfl
  · intro i _; rw [e6, k4]; rfl
theorem idxK_length (f : Fld) (a b : Nat) (k : Int) (i : List Nat) : (idxK f a b k i).length = i.length := by
  unfold idxK rotIdx
  split
  · rfl
  · split
    · simp [setAt_length]
    · split <;> simp [setAt_length]

theorem idxK_mesh (f g : Fld) (a b : Nat) (k : Int) (i : List Nat) (h : g.mesh.n = f.mesh.n) : idxK g a b k i = idxK f a b k i := by
  unfold idxK rotIdx Mesh.nAt; rw [h]

/-- `Field.rotate90` (shared model, any reference point / form) of a plain scalar RESULT `L` on the mesh of `f` -/
theorem rotate90F_scalar_on (f L y m' : Fld) (ym mm : Mesh) (a b : Nat) (k : Int) (ref : Option (List Rat)) (inpl : Bool) (wf : MeshWf f)
    (ha : a < f.mesh.ndim) (hb : b < f.mesh.ndim) (hL : ScalOn f L)
    (hstep : T.stepM f.mesh (.rotate90 (f.mesh.region.dims.getD a "") (f.mesh.region.dims.getD b "") k ref false) = .ok (ym, mm)) :
    ∃ yL RL, T.rotate90F L (f.mesh.region.dims.getD a "") (f.mesh.region.dims.getD b "") k ref inpl = .ok (yL, RL) ∧
      RL.mesh = mm ∧ RL.data = T.rot90 L.data a b k ∧ RL.valid = T.rot90 L.valid a b k ∧ yL = (if inpl then RL else L) ∧ Plain RL := by
  obtain ⟨hm, hp, hs⟩ := hL
  have hda : a < f.mesh.region.dims.length := by rw [wf.dims.1]; exact ha
  have hdb : b < f.mesh.region.dims.length := by rw [wf.dims.1]; exact hb
  unfold T.rotate90F
  rw [hm, hstep, dim2index_getD _ a wf.dims.2 hda, dim2index_getD _ b wf.dims.2 hdb]
  simp only []
  have h1 : ¬ (L.nvdim > 1) := by rw [hp.1]; omega
  rw [if_neg h1]
  refine ⟨_, _, rfl, rfl, rfl, rfl, ?_, ⟨hp.1, hp.2.1, hp.2.2⟩⟩
  cases inpl <;> rfl

/-- for a one-to-one mapping the first and the last key that map onto `d` are the same: the shared model's
`rDim` (first) and the code's `_r_dim_mapping` (last, `rDimLast`) agree -/
theorem rDim_eq_rDimLast (f : Fld) (d : String) (hone : OneToOne f.vmap) : f.rDim d = rDimLast f d := by
  unfold Fld.rDim rDimLast
  cases hf : f.vmap.find? (fun p => p.2 == d) with
  | none =>
    have hn : f.vmap.reverse.find? (fun p => p.2 == d) = none := by
      rw [List.find?_eq_none] at hf ⊢
      intro x hx; exact hf x (by simpa using hx)
    rw [hn]
  | some p =>
    have hm := List.mem_of_find?_eq_some hf
    have hk := List.find?_some hf
    rw [find?_unique f.vmap.reverse (fun q => q.2 == d) p (by simpa using hm) hk]
    intro q hq hqd
    have hq' : q ∈ f.vmap := by simpa using hq
    have e1 : q.2 = d := by simpa using hqd
    have e2 : p.2 = d := by simpa using hk
    exact hone q hq' p hm (by rw [e1, e2])

theorem vecMeta_strip {a b v1 v2 : Nat} {vs : List String} {f : Fld} (h : VecMeta a b v1 v2 vs f) : VecMeta a b v1 v2 vs (strip f) :=
  ⟨h.hn, h.hv, h.hvl, h.hvd, h.hkeys, h.hmap, h.h1, h.h2, h.hv1, h.hv2, h.h12, h.hraw⟩

/-- **`Field.rotate90(ax1, ax2, k, reference_point, inplace)` of a vector field** with a one-to-one
mapping (shared model `T.rotate90F`) cannot be told apart, by the differential operators, from the
centre / copy-form turn `rot90FldK` of the field without its subregion list -/
theorem simObj_vector (f x g : Fld) (a b v1 v2 : Nat) (vs : List String) (k : Int) (ref : Option (List Rat)) (inpl : Bool)
    (wf : MeshWf f) (tw : TurnWf f a b) (hX : VecMeta a b v1 v2 vs f) (hone : OneToOne f.vmap)
    (ha : a < f.mesh.ndim) (hb : b < f.mesh.ndim) (hab : a ≠ b)
    (hg : T.rotate90F f (f.mesh.region.dims.getD a "") (f.mesh.region.dims.getD b "") k ref inpl = .ok (x, g)) :
    ∃ R', rot90FldK (strip f) (f.mesh.region.dims.getD a "") (f.mesh.region.dims.getD b "") k = .ok R' ∧
      Sim g R' ∧ g.mesh.ndim = f.mesh.ndim ∧ g.mesh.region.dims = f.mesh.region.dims ∧
      g.nvdim = f.nvdim ∧ g.vdims = f.vdims ∧ g.vmap = f.vmap ∧ x = (if inpl then g else f) ∧
      g.valid = T.rot90 f.valid a b k ∧
      ∃ y, T.stepM f.mesh (.rotate90 (f.mesh.region.dims.getD a "") (f.mesh.region.dims.getD b "") k ref false) = .ok (y, g.mesh) := by
  have hda : a < f.mesh.region.dims.length := by rw [wf.dims.1]; exact ha
  have hdb : b < f.mesh.region.dims.length := by rw [wf.dims.1]; exact hb
  obtain ⟨y, m', i1, i2, hm', d1, d2, e1, e2, e3, e4, e5, e6, e7, e8⟩ := rotate90F_inv' f _ _ k ref inpl x g hg
  rw [dim2index_getD _ a wf.dims.2 hda] at d1
  rw [dim2index_getD _ b wf.dims.2 hdb] at d2
  injection d1 with d1; injection d2 with d2
  subst d1; subst d2
  obtain ⟨m2, hm2⟩ := rotMeshK_succeeds (strip f) a b k (meshWf_strip wf) (turnWf_strip tw) rfl ha hb hab
  obtain ⟨R', k1, k2, k3, k4, k5, k6, k7, _⟩ := rot90FldK_vector (strip f) a b v1 v2 vs k m2 (meshWf_strip wf).dims (vecMeta_strip hX) ha hb hm2
  obtain ⟨ms, nd, dm, _⟩ := meshSim_obj f.mesh y m' m2 a b k ref wf.dims.2 hda hdb hm' hm2
  have hgd : g.data = (T.rot90 f.data a b k).map fun v => T.rotVec v v1 v2 k := by
    rcases e7 with ⟨hn, _⟩ | ⟨_, c1, c2, hc1, hc2, e⟩
    · have := hX.hn; omega
    · rw [rDim_eq_rDimLast f _ hone, hX.h1] at hc1
      rw [rDim_eq_rDimLast f _ hone, hX.h2] at hc2
      injection hc1 with hc1; injection hc2 with hc2
      rw [e, hc1, hc2]
  refine ⟨R', k1, ⟨by rw [e1, k2]; exact ms, by rw [e2, k5]; rfl, by rw [e3, k6]; rfl, by rw [e4, k7]; rfl, ?_, ?_⟩,
    by rw [e1]; exact nd, by rw [e1]; exact dm, e2, e3, e4, e8, e6, y, by rw [e1]; exact hm'⟩
  · intro i _ c; rw [hgd, k3]; rfl
  · intro i _; rw [e6, k4]; rfl

/-- `Field.rotate90` (shared model, any reference point / form) of a vector RESULT `L` on the mesh of `f` -/
theorem rotate90F_vector_on (f L : Fld) (ym mm : Mesh) (a b v1 v2 : Nat) (vs : List String) (k : Int) (ref : Option (List Rat))
    (inpl : Bool) (wf : MeshWf f) (ha : a < f.mesh.ndim) (hb : b < f.mesh.ndim) (hL : VecOn a b v1 v2 vs f L) (hone : OneToOne L.vmap)
    (hstep : T.stepM f.mesh (.rotate90 (f.mesh.region.dims.getD a "") (f.mesh.region.dims.getD b "") k ref false) = .ok (ym, mm)) :
    ∃ yL RL, T.rotate90F L (f.mesh.region.dims.getD a "") (f.mesh.region.dims.getD b "") k ref inpl = .ok (yL, RL) ∧
      RL.mesh = mm ∧ RL.data = (T.rot90 L.data a b k).map (fun v => T.rotVec v v1 v2 k) ∧ RL.valid = T.rot90 L.valid a b k ∧
      yL = (if inpl then RL else L) := by
  obtain ⟨hm, hs, hv⟩ := hL
  have hda : a < f.mesh.region.dims.length := by rw [wf.dims.1]; exact ha
  have hdb : b < f.mesh.region.dims.length := by rw [wf.dims.1]; exact hb
  have c1 : (L.rDim (f.mesh.region.dims.getD a "")).bind L.vdimIndex = some v1 := by
    rw [rDim_eq_rDimLast L _ hone, ← hm]; exact hv.h1
  have c2 : (L.rDim (f.mesh.region.dims.getD b "")).bind L.vdimIndex = some v2 := by
    rw [rDim_eq_rDimLast L _ hone, ← hm]; exact hv.h2
  unfold T.rotate90F
  rw [hm, hstep, dim2index_getD _ a wf.dims.2 hda, dim2index_getD _ b wf.dims.2 hdb]
  simp only []
  have h1 : L.nvdim > 1 := hv.hn
  rw [if_pos h1, c1, c2]
  simp only []
  refine ⟨_, _, rfl, rfl, rfl, rfl, ?_⟩
  cases inpl <;> rfl

/-- the turned scalar result of the shared model and of the centre / copy-form model agree cell by cell -/
theorem objRes_scalar (f L L0 RL0 : Fld) (ym mm : Mesh) (a b : Nat) (k : Int) (ref : Option (List Rat)) (inpl : Bool)
    (wf : MeshWf f) (tw : TurnWf f a b) (ha : a < f.mesh.ndim) (hb : b < f.mesh.ndim) (hab : a ≠ b)
    (hL : ScalOn f L) (hL0 : ScalOn (strip f) L0)
    (hstep : T.stepM f.mesh (.rotate90 (f.mesh.region.dims.getD a "") (f.mesh.region.dims.getD b "") k ref false) = .ok (ym, mm))
    (hRL0 : rot90FldK L0 (f.mesh.region.dims.getD a "") (f.mesh.region.dims.getD b "") k = .ok RL0)
    (heq : ∀ j, j.length = f.mesh.ndim → (L.data.get j).getD 0 0 = (L0.data.get j).getD 0 0) :
    ∃ y RL, T.rotate90F L (f.mesh.region.dims.getD a "") (f.mesh.region.dims.getD b "") k ref inpl = .ok (y, RL) ∧
      RL.mesh = mm ∧ y = (if inpl then RL else L) ∧ RL.valid = T.rot90 L.valid a b k ∧
      ∀ i, i.length = f.mesh.ndim → (RL.data.get i).getD 0 0 = (RL0.data.get i).getD 0 0 := by
  obtain ⟨y, RL, hRL, rm, rd, rv, ry, _⟩ := rotate90F_scalar_on f L L L ym mm a b k ref inpl wf ha hb hL hstep
  refine ⟨y, RL, hRL, rm, ry, rv, ?_⟩
  intro i hil
  obtain ⟨X', hX', _, _, _, h5, _⟩ := rot90FldK_scalar_data L0 a b k (meshWf_of_mesh (meshWf_strip wf) hL0.1 hL0.2.2)
    (turnWf_of_mesh (turnWf_strip tw) hL0.1) (by rw [hL0.1]; rfl) hL0.2.1 (by rw [hL0.1]; exact ha) (by rw [hL0.1]; exact hb) hab
  have hdims0 : L0.mesh.region.dims = f.mesh.region.dims := by rw [hL0.1]; rfl
  rw [hdims0] at hX'
  have e1 : X' = RL0 := by
    have := hX'.symm.trans hRL0
    injection this
  subst e1
  rw [h5 i (by rw [hL0.1]; exact hil), rd, rot90_get_idxK f L.data a b k i (by rw [hL.2.2, hL.1]) wf.n_len hab hil ha hb,
    idxK_mesh f L0 a b k i (by rw [hL0.1]; rfl)]
  exact heq _ (by rw [idxK_length]; exact hil)

/-- … and likewise the turned vector results -/
theorem objRes_vector (f L L0 RL0 : Fld) (ym mm : Mesh) (a b v1 v2 : Nat) (vs : List String) (k : Int) (ref : Option (List Rat))
    (inpl : Bool) (wf : MeshWf f) (tw : TurnWf f a b) (ha : a < f.mesh.ndim) (hb : b < f.mesh.ndim) (hab : a ≠ b)
    (hL : VecOn a b v1 v2 vs f L) (hone : OneToOne L.vmap) (hL0 : VecOn a b v1 v2 vs (strip f) L0)
    (hstep : T.stepM f.mesh (.rotate90 (f.mesh.region.dims.getD a "") (f.mesh.region.dims.getD b "") k ref false) = .ok (ym, mm))
    (hRL0 : rot90FldK L0 (f.mesh.region.dims.getD a "") (f.mesh.region.dims.getD b "") k = .ok RL0)
    (heq : ∀ j, j.length = f.mesh.ndim → ∀ c, c < L.nvdim → (L.data.get j).getD c 0 = (L0.data.get j).getD c 0) :
    ∃ y RL, T.rotate90F L (f.mesh.region.dims.getD a "") (f.mesh.region.dims.getD b "") k ref inpl = .ok (y, RL) ∧
      RL.mesh = mm ∧ y = (if inpl then RL else L) ∧ RL.valid = T.rot90 L.valid a b k ∧
      ∀ i, i.length = f.mesh.ndim → ∀ c, c < L.nvdim → (RL.data.get i).getD c 0 = (RL0.data.get i).getD c 0 := by
  obtain ⟨y, RL, hRL, rm, rd, rv, ry⟩ := rotate90F_vector_on f L ym mm a b v1 v2 vs k ref inpl wf ha hb hL hone hstep
  refine ⟨y, RL, hRL, rm, ry, rv, ?_⟩
  intro i hil c hc
  obtain ⟨mL, sL, vL⟩ := hL
  obtain ⟨mL0, sL0, vL0⟩ := hL0
  obtain ⟨X', hX', _, _, _, _, _, h5, _⟩ := rot90FldK_vector_data L0 a b v1 v2 vs k (meshWf_of_mesh (meshWf_strip wf) mL0 sL0)
    (turnWf_of_mesh (turnWf_strip tw) mL0) (by rw [mL0]; rfl) vL0 (by rw [mL0]; exact ha) (by rw [mL0]; exact hb) hab
  have hdims0 : L0.mesh.region.dims = f.mesh.region.dims := by rw [mL0]; rfl
  rw [hdims0] at hX'
  have e1 : X' = RL0 := by
    have := hX'.symm.trans hRL0
    injection this
  subst e1
  have hnn : L.nvdim = L0.nvdim := by rw [← vL.hvl, ← vL0.hvl]
  rw [h5 i (by rw [mL0]; exact hil), rd]
  simp only [NDA.map]
  rw [rot90_get_idxK f L.data a b k i (by rw [sL, mL]) wf.n_len hab hil ha hb, idxK_mesh f L0 a b k i (by rw [mL0]; rfl),
    rotVec_getD _ v1 v2 k c (by rw [vL.hraw]; exact vL.hv1) (by rw [vL.hraw]; exact vL.hv2),
    rotVec_getD _ v1 v2 k c (by rw [vL0.hraw]; exact vL0.hv1) (by rw [vL0.hraw]; exact vL0.hv2)]
  have hj : (idxK f a b k i).length = f.mesh.ndim := by rw [idxK_length]; exact hil
  rw [heq _ hj v1 vL.hv1, heq _ hj v2 vL.hv2, heq _ hj c hc]
/-- the positional mapping of results built by `<<` is one-to-one -/
theorem posVmap_oneToOne (m : Mesh) (n : Nat) (hd : hasDup m.region.dims = false) : OneToOne (posVmap m n) := by
  unfold posVmap
  split
  · intro p hp; simp at hp
  · split
    · split
      · exact zip_inj_snd _ _ hd
      · intro p hp; simp at hp
    · intro p hp; simp at hp

/-- validity flags of the turned result `RL = rotate90(L)` and of the result on the turned field
`LR = op(rotate90(f))` agree cell by cell: the operators keep the validity of their operand and
`np.rot90` moves the flags like the values -/
theorem objRes_valid (f L g RL LR : Fld) (a b : Nat) (k : Int) (wf : MeshWf f) (hvs : f.valid.shape = f.mesh.n)
    (ha : a < f.mesh.ndim) (hb : b < f.mesh.ndim) (hab : a ≠ b)
    (hLv : ∀ j, L.valid.get j = f.valid.get j) (hLs : L.valid.shape = f.valid.shape)
    (gv : g.valid = T.rot90 f.valid a b k) (rv : RL.valid = T.rot90 L.valid a b k)
    (hLRv : ∀ i, LR.valid.get i = g.valid.get i) :
    ∀ i, i.length = f.mesh.ndim → RL.valid.get i = LR.valid.get i := by
  intro i hi
  rw [hLRv i, gv, rv, rot90_get_idxK f L.valid a b k i (by rw [hLs, hvs]) wf.n_len hab hi ha hb,
    rot90_get_idxK f f.valid a b k i hvs wf.n_len hab hi ha hb, hLv]

/-- **in place == copy** for the field rotation: both forms are accepted on the same inputs and return
the same field; the receiver is the result itself (in place) or untouched (copying) -/
theorem rotate90F_form_indep (f : Fld) (a1 a2 : String) (k : Int) (ref : Option (List Rat)) (b b' : Bool) (x g : Fld)
    (h : T.rotate90F f a1 a2 k ref b = .ok (x, g)) :
    T.rotate90F f a1 a2 k ref b' = .ok (if b' then g else f, g) ∧ x = if b then g else f := by
  unfold T.rotate90F at h ⊢
  split at h
  · cases h
  · cases h
  · cases h
  · rename_i y m' i1 i2 hm' h1 h2
    split at h
    · rename_i hv
      split at h
      · rename_i c1 c2 hc1 hc2
        injection h with h; injection h with hx hg
        subst hg
        refine ⟨by rw [if_pos hv], ?_⟩
        · cases b <;> exact hx.symm
      · cases h
    · rename_i hv
      injection h with h; injection h with hx hg
      subst hg
      refine ⟨by rw [if_neg hv], ?_⟩
      · cases b <;> exact hx.symm
/-- the two axis names are not named in `bc`: exchanging them leaves `bc` as it is -/
theorem rotBc1_of_open (bc da db : String) (ha : perL bc da = false) (hb : perL bc db = false) : rotBc1 bc da db = bc := by
  by_cases hc : swapCond bc da db = true
  · obtain ⟨_, _, _, s1, s2, _, _⟩ := swapCond_parts hc
    obtain ⟨ca, hca⟩ := single_of_length _ s1
    obtain ⟨cb, hcb⟩ := single_of_length _ s2
    have hm : bc.toList.map (swapChar da db) = bc.toList := by
      conv => rhs; rw [← List.map_id bc.toList]
      apply List.map_congr_left
      intro c hcm
      rw [swapChar_spec da db ca cb hca hcb]
      unfold perL at ha hb
      rw [List.any_eq_false] at ha hb
      have h1 := ha c hcm
      have h2 := hb c hcm
      rw [hca] at h1; rw [hcb] at h2
      have n1 : c ≠ ca := by intro e; subst e; simp at h1
      have n2 : c ≠ cb := by intro e; subst e; simp at h2
      simp [n1, n2]
    rw [rotBc1_swap _ _ _ hc, hm, String.ofList_toList]
  · exact rotBc1_noswap _ _ _ hc

/-- neither axis of the plane is periodic: exchanging their names leaves `bc` as it is (on a `neumann` /
`dirichlet` mesh nothing is exchanged anyway) -/
theorem rotBc1_of_open_plane (f : Fld) (a b : Nat) (pa : periodic f a = false) (pb : periodic f b = false) :
    rotBc1 f.mesh.bc (f.mesh.region.dims.getD a "") (f.mesh.region.dims.getD b "") = f.mesh.bc := by
  rw [periodic_eq_perL] at pa pb
  by_cases hw : isWord f.mesh.bc = true
  · apply rotBc1_noswap
    intro hc
    obtain ⟨w1, w2, _⟩ := swapCond_parts hc
    rw [isWord_false_of w1 w2] at hw; cases hw
  · have hw' : isWord f.mesh.bc = false := by simpa using hw
    rw [hw'] at pa pb
    exact rotBc1_of_open _ _ _ (by simpa using pa) (by simpa using pb)

/-- the field with another subregion list is as well formed as the field -/
theorem meshWf_subs {f : Fld} (wf : MeshWf f) (s : List (String × Region)) :
    MeshWf { f with mesh := { f.mesh with subs := s } } :=
  ⟨wf.pmax_len, wf.n_len, wf.dims, wf.units_len, wf.pos, wf.bc_lower, wf.bc_ok, wf.data_shape⟩

theorem turnWf_subs {f : Fld} {a b : Nat} (tw : TurnWf f a b) (s : List (String × Region)) :
    TurnWf { f with mesh := { f.mesh with subs := s } } a b :=
  ⟨tw.turns, tw.bc_lower, tw.bc_ok⟩

/-! ### relabelling keeps a one-to-one mapping one-to-one -/

theorem lookup_mem (mp : List (String × String)) (l d : String) (h : Fld.lookup mp l = some d) : (l, d) ∈ mp := by
  unfold Fld.lookup at h
  cases hf : mp.find? (fun p => p.1 == l) with
  | none => rw [hf] at h; cases h
  | some p =>
    rw [hf] at h
    simp only [Option.map_some, Option.some.injEq] at h
    have hm := List.mem_of_find?_eq_some hf
    have hk : p.1 = l := by simpa using List.find?_some hf
    have : p = (l, d) := by cases p; simp only at hk h; rw [hk, h]
    rw [← this]; exact hm

/-- every entry of the transported mapping is `(new label k, axis of old label k)` for some position `k` -/
theorem transportMap_mem (mp : List (String × String)) : ∀ (ns os : List String) (r : List (String × String)),
    transportMap mp ns os = .ok r →
    ∀ p ∈ r, ∃ k, k < ns.length ∧ k < os.length ∧ p.1 = ns.getD k "" ∧ Fld.lookup mp (os.getD k "") = some p.2 := by
  intro ns
  induction ns with
  | nil => intro os r h p hp; simp only [transportMap] at h; injection h with h; subst h; simp at hp
  | cons n ns ih =>
    intro os r h p hp
    cases os with
    | nil => simp only [transportMap] at h; injection h with h; subst h; simp at hp
    | cons o os =>
      simp only [transportMap] at h
      split at h
      · cases h
      · rename_i d hd
        split at h
        · cases h
        · rename_i rest hrest
          injection h with h; subst h
          simp only [List.mem_cons] at hp
          rcases hp with rfl | hp
          · exact ⟨0, by simp, by simp, rfl, hd⟩
          · obtain ⟨k, h1, h2, h3, h4⟩ := ih os rest hrest p hp
            exact ⟨k + 1, by simp; omega, by simp; omega, by simpa using h3, by simpa using h4⟩

theorem getD_inj_of_nodup (xs : List String) (hd : hasDup xs = false) (k k' : Nat) (hk : k < xs.length) (hk' : k' < xs.length)
    (h : xs.getD k "" = xs.getD k' "") : k = k' := by
  have h1 := indexOf?_getD xs k hd hk
  have h2 := indexOf?_getD xs k' hd hk'
  rw [h, h2] at h1
  injection h1 with h1
  exact h1.symm

theorem transportMap_oneToOne (mp : List (String × String)) (ns os : List String) (r : List (String × String))
    (hone : OneToOne mp) (hod : hasDup os = false) (h : transportMap mp ns os = .ok r) : OneToOne r := by
  intro p hp q hq hpq
  obtain ⟨k, _, k2, k3, k4⟩ := transportMap_mem mp ns os r h p hp
  obtain ⟨k', _, k2', k3', k4'⟩ := transportMap_mem mp ns os r h q hq
  have m1 := lookup_mem mp _ _ k4
  have m2 := lookup_mem mp _ _ k4'
  have := hone _ m1 _ m2 hpq
  have e : os.getD k "" = os.getD k' "" := by injection this
  have ek := getD_inj_of_nodup os hod k k' k2 k2' e
  subst ek
  cases p; cases q
  simp only at k3 k3' hpq
  rw [k3, k3', hpq]

/-! ### acceptance of the object-level turn on meshes without subregions, any reference point -/

/-- the two corners of a region stay different along every axis under a quarter turn about any point -/
theorem rotCoord_ne (r : Region) (R : List Rat) (a b : Nat) (k : Int) (e : Nat)
    (la : r.lo a < r.hi a) (lb : r.lo b < r.hi b) (le : r.lo e < r.hi e) :
    T.rotCoord r.pmin R a b k e ≠ T.rotCoord r.pmax R a b k e := by
  unfold Region.lo Region.hi at la lb le
  unfold T.rotCoord
  rcases quarter_kinds k with ⟨_, hc, hs, _⟩ | ⟨_, hc, hs, _⟩ | ⟨_, hc, hs, _⟩ | ⟨_, hc, hs, _⟩ <;>
    (rw [hc, hs]
     by_cases h1 : e = a
     · subst h1; simp only [if_true]; intro h; linarith
     · by_cases h2 : e = b
       · subst h2; simp only [h1, if_false, if_true]; intro h; linarith
       · simp only [h1, h2, if_false]; exact ne_of_lt le)

theorem rotN_length (n : List Nat) (a b : Nat) (k : Int) : (T.rotN n a b k).length = n.length := by
  unfold T.rotN; split
  · exact swapAt_length _ _ _
  · rfl

theorem mem_setAt {α} (l : List α) (i : Nat) (v x : α) (h : x ∈ setAt l i v) : x = v ∨ x ∈ l := by
  induction l generalizing i with
  | nil => simp [setAt] at h
  | cons y ys ih =>
    cases i with
    | zero =>
      simp only [setAt, List.mem_cons] at h
      rcases h with h | h
      · exact Or.inl h
      · exact Or.inr (by simp [h])
    | succ i =>
      simp only [setAt, List.mem_cons] at h
      rcases h with h | h
      · exact Or.inr (by simp [h])
      · rcases ih i h with h' | h'
        · exact Or.inl h'
        · exact Or.inr (by simp [h'])

theorem rotN_pos (n : List Nat) (a b : Nat) (k : Int) (ha : a < n.length) (hb : b < n.length) (hp : ∀ x ∈ n, 0 < x) :
    ∀ x ∈ T.rotN n a b k, 0 < x := by
  unfold T.rotN
  split
  · intro x hx
    unfold swapAt at hx
    have hm : ∀ j, j < n.length → n.getD j default ∈ n := by
      intro j hj
      rw [List.getD_eq_getElem?_getD, List.getElem?_eq_getElem hj]; simp
    rcases mem_setAt _ _ _ _ hx with h | h
    · rw [h]; exact hp _ (hm a ha)
    · rcases mem_setAt _ _ _ _ h with h' | h'
      · rw [h']; exact hp _ (hm b hb)
      · exact hp x h'
  · exact hp

/-- **On a mesh without subregions `Mesh.rotate90(ax1, ax2, k, reference_point)` is accepted for EVERY
reference point** of the right length (copying form of the shared model) -/
theorem stepM_rot_accepts (f : Fld) (a b : Nat) (k : Int) (ref : Option (List Rat)) (wf : MeshWf f) (tw : TurnWf f a b)
    (hsub : f.mesh.subs = []) (ha : a < f.mesh.ndim) (hb : b < f.mesh.ndim) (hab : a ≠ b)
    (href : ∀ R, ref = some R → R.length = f.mesh.ndim) :
    ∃ y m', T.stepM f.mesh (.rotate90 (f.mesh.region.dims.getD a "") (f.mesh.region.dims.getD b "") k ref false) = .ok (y, m') := by
  have hda : a < f.mesh.region.dims.length := by rw [wf.dims.1]; exact ha
  have hdb : b < f.mesh.region.dims.length := by rw [wf.dims.1]; exact hb
  have hne := dims_ne_of_ne f wf.dims a b ha hb hab
  have hpos : 0 < f.mesh.region.ndim := by have : f.mesh.ndim = f.mesh.region.ndim := rfl; omega
  have hrl : (ref.getD f.mesh.region.center).length = f.mesh.region.ndim := by
    cases ref with
    | none => simp [Region.center, tab]
    | some R => exact href R rfl
  -- the region step
  have hreg : ∃ r', T.rotate90R f.mesh.region (f.mesh.region.dims.getD a "") (f.mesh.region.dims.getD b "") k ref false
      = .ok (f.mesh.region, r') := by
    unfold T.rotate90R
    rw [if_neg hne, if_neg (by rw [hrl]; simp), dim2index_getD _ a wf.dims.2 hda, dim2index_getD _ b wf.dims.2 hdb]
    simp only [Bool.false_eq_true, if_false]
    unfold T.viaCtor
    rw [T.mk?_ok_of _ _ _ _ _ (by simp [tab]) (by simp [tab]; omega) (by simp [tab]; exact wf.dims.1) wf.dims.2
      (by
        simp only [tab, List.length_map, List.length_range]
        unfold T.rotUnits
        split
        · rw [swapAt_length]; exact wf.units_len
        · exact wf.units_len)
      (by
        intro e he
        have he' : e < f.mesh.region.ndim := by simpa [tab] using he
        rw [getD_tab _ _ _ _ he', getD_tab _ _ _ _ he']
        exact rotCoord_ne _ _ a b k e (wf.pos a ha).1 (wf.pos b hb).1 (wf.pos e he').1)]
    exact ⟨_, rfl⟩
  obtain ⟨r', hr'⟩ := hreg
  obtain ⟨_, _, i1, i2, _, _, _, _, _, _, er, _⟩ := T.rotate90R_inv _ _ _ _ _ _ _ _ hr'
  rw [T.stepM_eq_stepMU]
  unfold T.stepMU
  simp only [T.stepR, hr', hsub, T.mapSubs, List.mapM_nil, T.Op.inplace, Bool.false_eq_true, if_false, pure, Except.pure]
  -- the mesh constructor
  have hn : Mesh.mkN? r' (T.rotN f.mesh.n a b k) (rotBcK f.mesh.bc (f.mesh.region.dims.getD a "") (f.mesh.region.dims.getD b "") k)
      = .ok { region := r', n := T.rotN f.mesh.n a b k,
              bc := (rotBcK f.mesh.bc (f.mesh.region.dims.getD a "") (f.mesh.region.dims.getD b "") k).toLower, subs := [] } := by
    unfold Mesh.mkN?
    have c1 : ¬ ((T.rotN f.mesh.n a b k).length ≠ r'.ndim) := by
      rw [rotN_length, er, T.target_ndim, wf.n_len]; simp [Mesh.ndim]
    have hmem : ∀ x ∈ f.mesh.n, 0 < x := by
      intro x hx
      obtain ⟨j, hj, hj'⟩ := List.getElem_of_mem hx
      have := (wf.pos j (by rw [← wf.n_len]; exact hj)).2
      unfold Mesh.nAt at this
      rw [List.getD_eq_getElem?_getD, List.getElem?_eq_getElem hj, Option.getD_some, hj'] at this
      exact this
    have c2 : (T.rotN f.mesh.n a b k).any (· = 0) = false := by
      rw [List.any_eq_false]
      intro x hx
      have := rotN_pos f.mesh.n a b k (by rw [wf.n_len]; exact ha) (by rw [wf.n_len]; exact hb) hmem x hx
      simp only [decide_eq_true_eq]; omega
    have c3 : Mesh.bcOk r'.dims (rotBcK f.mesh.bc (f.mesh.region.dims.getD a "") (f.mesh.region.dims.getD b "") k).toLower = true := by
      have hd : r'.dims = f.mesh.region.dims := by rw [er]; rfl
      rw [hd]
      unfold rotBcK
      split
      · rw [tw.bc_lower]; exact tw.bc_ok
      · rw [wf.bc_lower]; exact wf.bc_ok
    simp only [c1, c2, c3, if_false, Bool.false_eq_true, Bool.not_true]
  simp only [T.opN, T.opBc, dim2index_getD _ a wf.dims.2 hda, dim2index_getD _ b wf.dims.2 hdb, rotBc_eq]
  unfold T.mkMesh?
  rw [hn]
  simp only [T.setSubs, List.all_nil, if_true, List.map_nil]
  exact ⟨_, _, rfl⟩

/-- **On a mesh without subregions `Field.rotate90(ax1, ax2, k, reference_point, inplace)` accepts every
plain scalar field, for EVERY reference point of the right length and either form** -/
theorem rotate90F_accepts_scalar (f : Fld) (a b : Nat) (k : Int) (ref : Option (List Rat)) (inpl : Bool) (wf : MeshWf f)
    (tw : TurnWf f a b) (hsub : f.mesh.subs = []) (hp : Plain f) (ha : a < f.mesh.ndim) (hb : b < f.mesh.ndim) (hab : a ≠ b)
    (href : ∀ R, ref = some R → R.length = f.mesh.ndim) :
    ∃ x g, T.rotate90F f (f.mesh.region.dims.getD a "") (f.mesh.region.dims.getD b "") k ref inpl = .ok (x, g) := by
  obtain ⟨y, m', hm⟩ := stepM_rot_accepts f a b k ref wf tw hsub ha hb hab href
  have hda : a < f.mesh.region.dims.length := by rw [wf.dims.1]; exact ha
  have hdb : b < f.mesh.region.dims.length := by rw [wf.dims.1]; exact hb
  unfold T.rotate90F
  rw [hm, dim2index_getD _ a wf.dims.2 hda, dim2index_getD _ b wf.dims.2 hdb]
  simp only []
  rw [if_neg (by rw [hp.1]; omega)]
  exact ⟨_, _, rfl⟩

/-- … and every vector field with a one-to-one mapping that pairs both axes of the plane -/
theorem rotate90F_accepts_vector (f : Fld) (a b v1 v2 : Nat) (vs : List String) (k : Int) (ref : Option (List Rat)) (inpl : Bool)
    (wf : MeshWf f) (tw : TurnWf f a b) (hsub : f.mesh.subs = []) (hX : VecMeta a b v1 v2 vs f) (hone : OneToOne f.vmap)
    (ha : a < f.mesh.ndim) (hb : b < f.mesh.ndim) (hab : a ≠ b)
    (href : ∀ R, ref = some R → R.length = f.mesh.ndim) :
    ∃ x g, T.rotate90F f (f.mesh.region.dims.getD a "") (f.mesh.region.dims.getD b "") k ref inpl = .ok (x, g) := by
  obtain ⟨y, m', hm⟩ := stepM_rot_accepts f a b k ref wf tw hsub ha hb hab href
  have hda : a < f.mesh.region.dims.length := by rw [wf.dims.1]; exact ha
  have hdb : b < f.mesh.region.dims.length := by rw [wf.dims.1]; exact hb
  unfold T.rotate90F
  rw [hm, dim2index_getD _ a wf.dims.2 hda, dim2index_getD _ b wf.dims.2 hdb]
  simp only []
  rw [if_pos hX.hn, rDim_eq_rDimLast f _ hone, rDim_eq_rDimLast f _ hone, hX.h1, hX.h2]
  exact ⟨_, _, rfl⟩

/-! ### since repo fix be43fa9b the turned `bc` of a well-formed mesh is always well formed -/

theorem toLower_toList (s : String) : s.toLower.toList = s.toList.map Char.toLower := by
  simp [String.toLower]

theorem map_eq_self_iff {α} (φ : α → α) (l : List α) : l.map φ = l ↔ ∀ c ∈ l, φ c = c := by
  induction l with
  | nil => simp
  | cons x xs ih => simp [ih]

/-- a string is its own lower case iff each of its characters is -/
theorem lower_iff (s : String) : s.toLower = s ↔ ∀ c ∈ s.toList, c.toLower = c := by
  rw [← String.toList_inj, toLower_toList, map_eq_self_iff]

theorem filter_map_inj (φ : Char → Char) (hφ : ∀ x y, φ x = φ y → x = y) (l : List Char) (c : Char) :
    ((l.map φ).filter (· = φ c)).length = (l.filter (· = c)).length := by
  induction l with
  | nil => rfl
  | cons x xs ih =>
    simp only [List.map_cons, List.filter_cons]
    by_cases h : x = c
    · subst h; simp [ih]
    · have : ¬ (φ x = φ c) := fun e => h (hφ _ _ e)
      simp [h, this, ih]

/-- **Since repo fix be43fa9b the turned `bc` of a well-formed mesh is always one the `Mesh` constructor
accepts unchanged**: lower case, naming axes of the mesh once each -/
theorem rotBc1_wf (f : Fld) (a b : Nat) (wf : MeshWf f) (ha : a < f.mesh.ndim) (hb : b < f.mesh.ndim) (hab : a ≠ b) :
    (rotBc1 f.mesh.bc (f.mesh.region.dims.getD a "") (f.mesh.region.dims.getD b "")).toLower
      = rotBc1 f.mesh.bc (f.mesh.region.dims.getD a "") (f.mesh.region.dims.getD b "") ∧
    Mesh.bcOk f.mesh.region.dims (rotBc1 f.mesh.bc (f.mesh.region.dims.getD a "") (f.mesh.region.dims.getD b "")) = true := by
  by_cases hsw : swapCond f.mesh.bc (f.mesh.region.dims.getD a "") (f.mesh.region.dims.getD b "") = true
  · obtain ⟨w1, w2, w3, s1, s2, l1, l2⟩ := swapCond_parts hsw
    obtain ⟨ca, hca⟩ := single_of_length _ s1
    obtain ⟨cb, hcb⟩ := single_of_length _ s2
    have hne := dims_ne_of_ne f wf.dims a b ha hb hab
    have hcne : ca ≠ cb := by intro e; apply hne; rw [← String.toList_inj, hca, hcb, e]
    have hsp := swapChar_spec _ _ ca cb hca hcb
    rw [rotBc1_swap _ _ _ hsw]
    have lca : ca.toLower = ca := (lower_iff _).mp l1 ca (by rw [hca]; simp)
    have lcb : cb.toLower = cb := (lower_iff _).mp l2 cb (by rw [hcb]; simp)
    have lbc := (lower_iff _).mp wf.bc_lower
    have hda : f.mesh.region.dims.getD a "" = String.singleton ca := by
      rw [← String.toList_inj, hca, String.toList_singleton]
    have hdb : f.mesh.region.dims.getD b "" = String.singleton cb := by
      rw [← String.toList_inj, hcb, String.toList_singleton]
    have hok := wf.bc_ok
    unfold Mesh.bcOk at hok
    simp only [Bool.or_eq_true, decide_eq_true_eq, w1, w2, w3, false_or, List.all_eq_true, Bool.and_eq_true] at hok
    constructor
    · rw [lower_iff, String.toList_ofList]
      intro c hc
      obtain ⟨c0, hc0, rfl⟩ := List.mem_map.mp hc
      rw [hsp]
      by_cases e1 : c0 = ca
      · simp [e1, lcb]
      · by_cases e2 : c0 = cb
        · subst e2; simp [e1, lca]
        · simp [e1, e2, lbc c0 hc0]
    · have hw := swapped_not_word _ _ _ _ wf.bc_ok hsw
      unfold Mesh.bcOk
      simp only [Bool.or_eq_true, decide_eq_true_eq, List.all_eq_true, Bool.and_eq_true]
      right
      rw [String.toList_ofList]
      intro c hc
      obtain ⟨c0, hc0, rfl⟩ := List.mem_map.mp hc
      have hinj : ∀ x y, swapChar (f.mesh.region.dims.getD a "") (f.mesh.region.dims.getD b "") x
          = swapChar (f.mesh.region.dims.getD a "") (f.mesh.region.dims.getD b "") y → x = y := by
        intro x y e
        have := congrArg (swapChar (f.mesh.region.dims.getD a "") (f.mesh.region.dims.getD b "")) e
        rwa [swapChar_invol _ _ ca cb hca hcb, swapChar_invol _ _ ca cb hca hcb] at this
      refine ⟨?_, by rw [filter_map_inj _ hinj]; exact (hok c0 hc0).2⟩
      have hma : f.mesh.region.dims.getD a "" ∈ f.mesh.region.dims := getD_mem_of_lt _ a (by rw [wf.dims.1]; exact ha)
      have hmb : f.mesh.region.dims.getD b "" ∈ f.mesh.region.dims := getD_mem_of_lt _ b (by rw [wf.dims.1]; exact hb)
      rw [hsp]
      by_cases e1 : c0 = ca
      · simp only [e1, if_true]; rw [← hdb]; simpa using hmb
      · by_cases e2 : c0 = cb
        · simp only [e1, e2, if_false, if_true]
          have : ¬ (cb = ca) := Ne.symm hcne
          simp only [this, if_false]
          rw [← hda]; simpa using hma
        · simp only [e1, e2, if_false]; exact (hok c0 hc0).1
  · rw [rotBc1_noswap _ _ _ hsw]; exact ⟨wf.bc_lower, wf.bc_ok⟩

end DFV.C05
