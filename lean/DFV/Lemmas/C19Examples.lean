import DFV.Model.C19
/-! concrete objects used by the non-vacuity examples of `Props/C19.lean` -/
namespace DFV.C19
open DFV

/-- a square root table that is exact on the values used in the examples -/
def sqEx (x : Rat) : Rat := if x = 25 then 5 else if x = 100 then 10 else if x = 1 then 1 else 0

/-- a concrete 2-d mesh (4 × 3 cells of size 1 × 2) -/
def mEx : Mesh :=
  { region := { pmin := [0, 0], pmax := [4, 6], dims := ["x", "y"], units := ["m", "m"], tol := 1 / 1000000000000 },
    n := [4, 3], bc := "", subs := [] }

/-- a 3-component field on it: `(3,4,0)` everywhere -/
def fEx : Fld :=
  { mesh := mEx, nvdim := 3, data := NDA.const [4, 3] [3, 4, 0], valid := NDA.const [4, 3] true,
    vdims := some ["x", "y", "z"], vmap := [], unit := none }

/-- a one-cell "tensor" with trace `−δ` and the cubic symmetry -/
def tEx : NDA (List Rat) := ⟨[1, 1, 1], fun j => if j = [0, 0, 0] then [-1/3, -1/3, -1/3, 0, 0, 0] else []⟩

def m1 : Mesh :=
  { region := { pmin := [0, 0, 0], pmax := [1, 1, 1], dims := ["x", "y", "z"], units := ["m", "m", "m"], tol := 1 / 1000000000000 },
    n := [1, 1, 1], bc := "", subs := [] }

/-- a non-uniform 3-component field on `mEx` (cell `(i, j)` holds `(i, j+1, 2)`), components `x, y`
mapped to the mesh axes `x, y` -/
def fQ : Fld :=
  { mesh := mEx, nvdim := 3, data := ⟨[4, 3], fun i => [(i.getD 0 0 : Rat), (i.getD 1 0 : Rat) + 1, 2]⟩,
    valid := NDA.const [4, 3] true, vdims := some ["x", "y", "z"], vmap := [("x", "x"), ("y", "y")], unit := none }

/-- a 3-d mesh of 2 × 1 × 2 cells with edges 1, 2, 1/2 -/
def m3 : Mesh :=
  { region := { pmin := [0, 0, 0], pmax := [2, 2, 1], dims := ["x", "y", "z"], units := ["m", "m", "m"], tol := 1 / 1000000000000 },
    n := [2, 1, 2], bc := "", subs := [] }

/-- a non-uniform 3-component field on `m3` -/
def f3 : Fld :=
  { mesh := m3, nvdim := 3, data := ⟨[2, 1, 2], fun i => [(i.getD 0 0 : Rat) + 1, (i.getD 2 0 : Rat), 2]⟩,
    valid := NDA.const [2, 1, 2] true, vdims := some ["x", "y", "z"],
    vmap := [("x", "x"), ("y", "y"), ("z", "z")], unit := none }

end DFV.C19
