import Mathlib.Tactic.Ring
import Mathlib.Tactic.Linarith
import Mathlib.Tactic.FieldSimp
import Mathlib.Tactic.Push
import DFV.Lemmas.RatFloor
import DFV.Lemmas.C02Basic
/-! C02 helper lemmas, part 2: geometry over `Rat` (cell centres, `point2index`, slices of an
aligned subregion, the submesh of a subregion, nearest-neighbour selection). -/
namespace DFV.C02
open DFV DFV.Mesh

/-! ### cells (restated from C01 so that this file does not depend on another property's proofs) -/

theorem cells_cover (m : Mesh) (a : Nat) (hn : 0 < m.nAt a) :
    (m.nAt a : Rat) * m.cellAt a = m.region.edge a := by
  unfold cellAt
  have : (m.nAt a : Rat) ≠ 0 := by exact_mod_cast (Nat.pos_iff_ne_zero.mp hn)
  field_simp

theorem cell_pos (m : Mesh) (a : Nat) (hn : 0 < m.nAt a) (hr : m.region.lo a < m.region.hi a) :
    0 < m.cellAt a := by
  unfold cellAt Region.edge
  have : (0 : Rat) < (m.nAt a : Rat) := by exact_mod_cast hn
  exact div_pos (by linarith) this

theorem indexAx_centre (m : Mesh) (a : Nat) (i : Nat) (hi : i < m.nAt a)
    (hr : m.region.lo a < m.region.hi a) : m.indexAx a (m.centreAx a (i : Int)) = i := by
  have hc := cell_pos m a (by omega) hr
  unfold indexAx centreAx
  have h : (m.region.lo a + (((i : Int) : Rat) + 1/2) * m.cellAt a - m.region.lo a) / m.cellAt a
      = ((i : Int) : Rat) + 1/2 := by
    field_simp
    ring
  rw [h]
  have hf : (((i : Int) : Rat) + 1/2).floor = (i : Int) := by
    apply rat_floor_eq <;> linarith
  rw [hf]
  unfold clipInt
  have h1 : ¬ ((i : Int) < 0) := by omega
  have h2 : ¬ ((m.nAt a : Int) - 1 < (i : Int)) := by omega
  simp [h1, h2]

/-- the cell a coordinate of the closed edge is mapped to contains it -/
theorem indexAx_contains (m : Mesh) (a : Nat) (x : Rat) (hn : 0 < m.nAt a)
    (hr : m.region.lo a < m.region.hi a) (hlo : m.region.lo a ≤ x) (hhi : x ≤ m.region.hi a) :
    m.indexAx a x < m.nAt a ∧
    m.region.lo a + (m.indexAx a x : Rat) * m.cellAt a ≤ x ∧
    (x < m.region.lo a + ((m.indexAx a x : Rat) + 1) * m.cellAt a ∨
      (m.indexAx a x = m.nAt a - 1 ∧ x = m.region.hi a)) := by
  have hc := cell_pos m a hn hr
  have hcov := cells_cover m a hn
  unfold Region.edge at hcov
  set c := m.cellAt a with hcdef
  set q := (x - m.region.lo a) / c with hq
  have hq0 : 0 ≤ q := div_nonneg (by linarith) hc.le
  have hfl := rat_floor_le q
  have hfu := rat_lt_floor_add_one q
  have hf0 := rat_floor_nonneg q hq0
  have hxq : x = m.region.lo a + q * c := by rw [hq]; field_simp; ring
  have hqn : q ≤ (m.nAt a : Rat) := by
    rw [hq, div_le_iff₀ hc]; linarith
  have hfn : q.floor ≤ (m.nAt a : Int) := by
    have : (q.floor : Rat) ≤ (m.nAt a : Rat) := le_trans hfl hqn
    exact_mod_cast this
  unfold indexAx
  rw [← hcdef, ← hq]
  unfold clipInt
  have h1 : ¬ (q.floor < 0) := by omega
  simp only [h1, if_false]
  by_cases hlast : ((m.nAt a : Int) - 1 < q.floor)
  · simp only [hlast, if_true]
    have hfeq : q.floor = (m.nAt a : Int) := by omega
    have hqe : q = (m.nAt a : Rat) := by
      have : ((m.nAt a : Int) : Rat) ≤ q := by rw [← hfeq]; exact hfl
      have h' : (m.nAt a : Rat) ≤ q := by exact_mod_cast this
      linarith
    have hxhi : x = m.region.hi a := by rw [hxq, hqe]; linarith
    have hcast : (((m.nAt a : Int) - 1).toNat : Rat) = (m.nAt a : Rat) - 1 := by
      have : ((m.nAt a : Int) - 1).toNat = m.nAt a - 1 := by omega
      rw [this]; push_cast [Nat.cast_sub (by omega : 1 ≤ m.nAt a)]; ring
    refine ⟨by omega, ?_, Or.inr ⟨by omega, hxhi⟩⟩
    rw [hcast, hxq, hqe]
    nlinarith
  · simp only [hlast, if_false]
    have hcast : ((q.floor.toNat : Nat) : Rat) = (q.floor : Rat) := by
      have : ((q.floor.toNat : Nat) : Int) = q.floor := Int.toNat_of_nonneg hf0
      exact_mod_cast this
    refine ⟨by omega, ?_, Or.inl ?_⟩
    · rw [hcast, hxq]; nlinarith
    · rw [hcast, hxq]; nlinarith

/-! ### `point2index` on points that lie exactly in the region -/

theorem containsAx_exact (r : Region) (a : Nat) (x : Rat) (h1 : r.lo a ≤ x) (h2 : x ≤ r.hi a) :
    r.containsAx a x = true := by
  simp [Region.containsAx, h1, h2]

theorem containsPt_exact (r : Region) (p : List Rat) (hl : p.length = r.ndim)
    (h : ∀ a, a < r.ndim → r.lo a ≤ p.getD a 0 ∧ p.getD a 0 ≤ r.hi a) : r.containsPt p = true := by
  unfold Region.containsPt
  simp only [hl, decide_true, Bool.true_and]
  rw [allLt_iff]
  intro a ha
  exact containsAx_exact r a _ (h a ha).1 (h a ha).2

theorem point2index_exact (m : Mesh) (p : List Rat) (hl : p.length = m.ndim)
    (h : ∀ a, a < m.ndim → m.region.lo a ≤ p.getD a 0 ∧ p.getD a 0 ≤ m.region.hi a) :
    m.point2index p = .ok (tab m.ndim fun a => m.indexAx a (p.getD a 0)) := by
  unfold point2index
  have hc : m.region.containsPt p = true := containsPt_exact m.region p hl h
  simp [hl, hc]

theorem inv_lo_lt_hi (m : Mesh) (h : m.Inv) (a : Nat) (ha : a < m.ndim) : m.region.lo a < m.region.hi a :=
  h.1.2.2.2.2.2 a ha

theorem inv_n_pos (m : Mesh) (h : m.Inv) (a : Nat) (ha : a < m.ndim) : 0 < m.nAt a := h.2.2 a ha

theorem centreAx_in (m : Mesh) (a : Nat) (i : Nat) (hi : i < m.nAt a) (hr : m.region.lo a < m.region.hi a) :
    m.region.lo a ≤ m.centreAx a (i : Int) ∧ m.centreAx a (i : Int) ≤ m.region.hi a := by
  have hc := cell_pos m a (by omega) hr
  have hcov := cells_cover m a (by omega)
  unfold Region.edge at hcov
  unfold centreAx
  have h1 : ((i : Int) : Rat) = (i : Rat) := by push_cast; rfl
  have h2 : (i : Rat) + 1 ≤ (m.nAt a : Rat) := by exact_mod_cast hi
  have h3 : (0 : Rat) ≤ (i : Rat) := by exact_mod_cast Nat.zero_le i
  rw [h1]
  constructor
  · nlinarith
  · nlinarith

/-- sampling index of a cell centre is the cell's own index -/
theorem point2index_centre (m : Mesh) (hm : m.Inv) (i : List Nat) (hi : inRange m.n i = true) :
    m.point2index (m.centre i) = .ok i := by
  have hlen : m.n.length = m.ndim := hm.2.1
  obtain ⟨hil, hib⟩ := (inRange_iff m.n i).mp hi
  have hn : ∀ a, a < m.ndim → i.getD a 0 < m.nAt a := fun a ha => hib a (by omega)
  rw [point2index_exact m (m.centre i) (by simp [centre])]
  · congr 1
    symm
    apply eq_tab_of_getD i m.ndim _ 0 (by omega)
    intro a ha
    simp only [centre]
    rw [getD_tab _ _ _ _ ha, indexAx_centre m a _ (hn a ha) (inv_lo_lt_hi m hm a ha)]
  · intro a ha
    simp only [centre]
    rw [getD_tab _ _ _ _ ha]
    exact centreAx_in m a _ (hn a ha) (inv_lo_lt_hi m hm a ha)

/-- `mesh.index2point(idx)` of an in-range index is the cell centre -/
theorem index2point_nat (m : Mesh) (hlen : m.n.length = m.ndim) (i : List Nat) (hi : inRange m.n i = true) :
    m.index2point (i.map Int.ofNat) = .ok (m.centre i) := by
  obtain ⟨hil, hib⟩ := (inRange_iff m.n i).mp hi
  unfold index2point
  have h1 : (i.map Int.ofNat).length = m.ndim := by simp; omega
  have hg : ∀ a, a < m.ndim → (i.map Int.ofNat).getD a 0 = ((i.getD a 0 : Nat) : Int) := by
    intro a ha
    have : a < i.length := by omega
    simp [List.getD_eq_getElem?_getD, this]
  have h2 : allLt m.ndim (fun a => decide (0 ≤ (i.map Int.ofNat).getD a 0) &&
      decide ((i.map Int.ofNat).getD a 0 < (m.nAt a : Int))) = true := by
    rw [allLt_iff]
    intro a ha
    rw [hg a ha]
    have := hib a (by omega)
    simp only [Bool.and_eq_true, decide_eq_true_eq]
    exact ⟨by omega, by unfold nAt; omega⟩
  simp only [h1, ne_eq, not_true_eq_false, if_false, h2, Bool.not_true, Bool.false_eq_true]
  congr 1
  apply tab_congr
  intro a ha
  rw [hg a ha]

end DFV.C02
