import Mathlib.Analysis.SpecialFunctions.Trigonometric.Arctan
import Mathlib.Analysis.SpecialFunctions.Arsinh
import Mathlib.Analysis.SpecialFunctions.Complex.Log
import Mathlib.Analysis.SpecialFunctions.Trigonometric.Inverse
import Mathlib.Analysis.Real.Sqrt
import DFV.Lemmas.C19Demag
/-! C19: the leaf hypotheses of the property theorems hold for the REAL functions
(`Real.arctan`, `Real.arsinh`, `Real.sqrt`, `Real.arccos`, `Complex.log`), and the real-space
trace of the demagnetisation tensor evaluated with the real functions is `−δ`. -/
namespace DFV.C19
open Real

/-- `arctan(bc/(aR)) + arctan(ca/(bR)) + arctan(ab/(cR)) = π/2` for `a, b, c > 0`, `R = √(a²+b²+c²)` -/
theorem arctan_sum (a b c : ℝ) (ha : 0 < a) (hb : 0 < b) (hc : 0 < c) :
    arctan (b * c / (a * √(a ^ 2 + b ^ 2 + c ^ 2))) + arctan (c * a / (b * √(a ^ 2 + b ^ 2 + c ^ 2)))
      + arctan (a * b / (c * √(a ^ 2 + b ^ 2 + c ^ 2))) = π / 2 := by
  have hS : 0 < a ^ 2 + b ^ 2 + c ^ 2 := by positivity
  set R := √(a ^ 2 + b ^ 2 + c ^ 2) with hRdef
  have hR : 0 < R := Real.sqrt_pos.mpr hS
  have hR2 : R ^ 2 = a ^ 2 + b ^ 2 + c ^ 2 := Real.sq_sqrt hS.le
  have huv : b * c / (a * R) * (c * a / (b * R)) < 1 := by
    have e : b * c / (a * R) * (c * a / (b * R)) = c ^ 2 / R ^ 2 := by field_simp
    rw [e, div_lt_one (by positivity), hR2]
    nlinarith [sq_pos_of_pos ha, sq_pos_of_pos hb]
  rw [arctan_add huv]
  have hw : 0 < a * b / (c * R) := by positivity
  have e : (b * c / (a * R) + c * a / (b * R)) / (1 - b * c / (a * R) * (c * a / (b * R))) = (a * b / (c * R))⁻¹ := by
    have h1 : 1 - b * c / (a * R) * (c * a / (b * R)) = (a ^ 2 + b ^ 2) / R ^ 2 := by
      have e : b * c / (a * R) * (c * a / (b * R)) = c ^ 2 / R ^ 2 := by field_simp
      rw [e]; field_simp; linarith
    rw [h1]
    have hab : 0 < a ^ 2 + b ^ 2 := by positivity
    field_simp
    ring
  rw [e, arctan_inv_of_pos hw]
  ring

/-- real value of a leaf of the symbolic Newell terms (the code's zero guards included) -/
noncomputable def lvR : Leaf → ℝ
  | .asinh a b => Real.arsinh (if b = 0 then 0 else (a : ℝ) / √(b : ℝ))
  | .atan a b c => Real.arctan (if b = 0 then 0 else (a : ℝ) / ((b : ℝ) * √(c : ℝ)))
  | .sqrt a => √(a : ℝ)

/-- the arctangent hypothesis of `trace_grid` / `demag_trace_real_space` holds for the real leaves -/
theorem lvR_atan_sum (a b c : Rat) (ha : 0 < a) (hb : 0 < b) (hc : 0 < c) :
    lvR (.atan (b * c) a (a ^ 2 + b ^ 2 + c ^ 2)) + lvR (.atan (c * a) b (a ^ 2 + b ^ 2 + c ^ 2))
      + lvR (.atan (a * b) c (a ^ 2 + b ^ 2 + c ^ 2)) = π / 2 := by
  simp only [lvR, ha.ne', hb.ne', hc.ne', if_false]
  push_cast
  exact arctan_sum (a : ℝ) (b : ℝ) (c : ℝ) (by exact_mod_cast ha) (by exact_mod_cast hb) (by exact_mod_cast hc)

/-- REAL-SPACE TRACE OF THE DEMAGNETISATION TENSOR, for the real `arcsinh`, `arctan`, `sqrt`:
the three diagonal components of `_N` (64-point stencils of the Newell function `f`, cell
edges permuted with the coordinates, normalised by `−1/(4·pi·V)` with the rational `pi` the code
uses for `np.pi`) add up to `−π/pi` at the origin cell and to `0` at every other cell of the
displacement mesh — i.e. to `−δ` up to the rounding of `np.pi`. -/
theorem demag_trace_real (pi c0 c1 c2 : Rat) (hpi : pi ≠ 0) (h0 : 0 < c0) (h1 : 0 < c1) (h2 : 0 < c2) (i j k : Int) :
    traceK lvR pi c0 c1 c2 ((i : Rat) * c0) ((j : Rat) * c1) ((k : Rat) * c2)
      = if i = 0 ∧ j = 0 ∧ k = 0 then -(π / (pi : ℝ)) else 0 := by
  rw [trace_grid lvR (π / 2) pi c0 c1 c2 hpi h0 h1 h2 lvR_atan_sum i j k]
  congr 1
  ring

/-! ## the Berg–Lüscher angle -/

/-- `2·Im log((1 + d₁₂ + d₂₃ + d₃₁ + i·t)/ρ)/(4π)`, `ρ = √(2(1+d₁₂)(1+d₂₃)(1+d₃₁))`, as in `util.bergluescher_angle` -/
noncomputable def omegaR (tr : Tri) : ℝ :=
  2 * (Complex.log ((⟨1 + (tr.d12 : ℝ) + tr.d23 + tr.d31, (tr.t : ℝ)⟩ : ℂ)
    / ((√(2 * (1 + (tr.d12 : ℝ)) * (1 + tr.d23) * (1 + tr.d31)) : ℝ) : ℂ))).im / (4 * π)

/-- the hypothesis of `tcd_reversal` holds for the real formula: odd in the triple product -/
theorem omegaR_flip (tr : Tri) (ht : tr.t ≠ 0) : omegaR (flipT tr) = -omegaR tr := by
  unfold omegaR flipT
  simp only
  set ρ : ℝ := √(2 * (1 + (tr.d12 : ℝ)) * (1 + tr.d23) * (1 + tr.d31)) with hρ
  set z : ℂ := ⟨1 + (tr.d12 : ℝ) + tr.d23 + tr.d31, (tr.t : ℝ)⟩ with hz
  have hzc : (⟨1 + (tr.d12 : ℝ) + tr.d23 + tr.d31, ((-tr.t : Rat) : ℝ)⟩ : ℂ) = (starRingEnd ℂ) z := by
    apply Complex.ext <;> simp [hz]
  have hdiv : (starRingEnd ℂ) z / (ρ : ℂ) = (starRingEnd ℂ) (z / (ρ : ℂ)) := by
    rw [map_div₀, Complex.conj_ofReal]
  have harg : (z / (ρ : ℂ)).arg ≠ π := by
    intro h
    rw [Complex.arg_eq_pi_iff] at h
    obtain ⟨hre, him⟩ := h
    by_cases h0 : ρ = 0
    · rw [h0] at hre; simp at hre
    · rw [Complex.div_ofReal_im] at him
      have : (tr.t : ℝ) = 0 := by
        have hzim : z.im = (tr.t : ℝ) := by simp [hz]
        rw [hzim] at him
        exact (div_eq_zero_iff.mp him).resolve_right h0
      exact ht (by exact_mod_cast this)
  rw [hzc, hdiv, Complex.log_conj _ harg, Complex.conj_im]
  ring

/-- for `ρ > 0` it is `2·arg(1 + d₁₂ + d₂₃ + d₃₁ + i·t)/(4π)` — what the harness evaluates with `atan2` -/
theorem omegaR_eq_arg (tr : Tri) (hρ : 0 < 2 * (1 + (tr.d12 : ℝ)) * (1 + tr.d23) * (1 + tr.d31)) :
    omegaR tr = 2 * Complex.arg (⟨1 + (tr.d12 : ℝ) + tr.d23 + tr.d31, (tr.t : ℝ)⟩ : ℂ) / (4 * π) := by
  unfold omegaR
  rw [Complex.log_im]
  have h : 0 < √(2 * (1 + (tr.d12 : ℝ)) * (1 + tr.d23) * (1 + tr.d31)) := Real.sqrt_pos.mpr hρ
  have e : ∀ (w : ℂ) (r : ℝ), 0 < r → (w / (r : ℂ)).arg = w.arg := by
    intro w r hr
    rw [div_eq_mul_inv, ← Complex.ofReal_inv, Complex.arg_mul_real (inv_pos.mpr hr)]
  rw [e _ _ h]

/-! ## arccos and sqrt -/

/-- the hypothesis of `angle_range` holds for the real arccosine -/
theorem arccos_range (x : ℝ) : 0 ≤ Real.arccos x ∧ Real.arccos x ≤ π :=
  ⟨Real.arccos_nonneg x, Real.arccos_le_pi x⟩

/-- the hypotheses of `orientation_scale` / `orientation_unit` hold for the real square root -/
theorem sqrt_homogeneous (s x : ℝ) (hs : 0 ≤ s) : √(s * s * x) = s * √x := by
  rw [Real.sqrt_mul (mul_self_nonneg s), Real.sqrt_mul_self hs]

theorem sqrt_squares_back (x : ℝ) (hx : 0 ≤ x) : √x * √x = x := Real.mul_self_sqrt hx

end DFV.C19
