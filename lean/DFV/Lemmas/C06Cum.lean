import DFV.Lemmas.C06Perm
/-! Index lemmas for the cumulative integral (C06). -/
namespace DFV.C06
open DFV

theorem setAt_setAt {α} (i : List α) (ax : Nat) (a b : α) : setAt (setAt i ax a) ax b = setAt i ax b := by
  induction i generalizing ax with
  | nil => simp [setAt]
  | cons x xs ih =>
    cases ax with
    | zero => simp [setAt]
    | succ ax => simp only [setAt]; rw [ih ax]

theorem lt_length_of_getD_pos (l : List Nat) (a : Nat) (h : 0 < l.getD a 0) : a < l.length := by
  by_contra hc
  have : l.getD a 0 = 0 := by
    simp [List.getD_eq_getElem?_getD, List.getElem?_eq_none (Nat.le_of_not_lt hc)]
  omega

end DFV.C06
