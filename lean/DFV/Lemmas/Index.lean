import Mathlib.Tactic.Ring
import Mathlib.Tactic.Linarith
import DFV.Lemmas.Tab
/-! Mixed-radix lemmas: `flatF/unflatF` (first index fastest) and `flatC/unflatC`
(last index fastest) are mutually inverse bijections between in-range multi-indices and
`[0, prod shape)`. -/
namespace DFV

theorem inRange_cons (n : Nat) (ns : List Nat) (i : Nat) (is : List Nat) :
    inRange (n :: ns) (i :: is) = true ↔ i < n ∧ inRange ns is = true := by
  simp [inRange]

theorem inRange_length (ns is : List Nat) (h : inRange ns is = true) : is.length = ns.length := by
  induction ns generalizing is with
  | nil => cases is <;> simp_all [inRange]
  | cons n ns ih =>
    cases is with
    | nil => simp [inRange] at h
    | cons i is =>
      rw [inRange_cons] at h
      simp [ih is h.2]

theorem inRange_getD (ns is : List Nat) (h : inRange ns is = true) (a : Nat) (ha : a < ns.length) :
    is.getD a 0 < ns.getD a 0 := by
  induction ns generalizing is a with
  | nil => simp at ha
  | cons n ns ih =>
    cases is with
    | nil => simp [inRange] at h
    | cons i is =>
      rw [inRange_cons] at h
      cases a with
      | zero => simpa using h.1
      | succ a =>
        simp only [List.getD_cons_succ]
        exact ih is h.2 a (by simpa using ha)

theorem natProd_pos (ns : List Nat) (h : ∀ n ∈ ns, 0 < n) : 0 < natProd ns := by
  induction ns with
  | nil => simp [natProd]
  | cons n ns ih =>
    simp only [natProd]
    exact Nat.mul_pos (h n (by simp)) (ih fun k hk => h k (by simp [hk]))

theorem inRange_pos (ns is : List Nat) (h : inRange ns is = true) : ∀ n ∈ ns, 0 < n := by
  induction ns generalizing is with
  | nil => simp
  | cons n ns ih =>
    cases is with
    | nil => simp [inRange] at h
    | cons i is =>
      rw [inRange_cons] at h
      intro k hk
      rcases List.mem_cons.mp hk with rfl | hk
      · omega
      · exact ih is h.2 k hk

/-! ### first index fastest -/

theorem unflatF_flatF (ns is : List Nat) (h : inRange ns is = true) :
    unflatF ns (flatF ns is) = is := by
  induction ns generalizing is with
  | nil => cases is <;> simp_all [inRange, unflatF]
  | cons n ns ih =>
    cases is with
    | nil => simp [inRange] at h
    | cons i is =>
      rw [inRange_cons] at h
      obtain ⟨hi, hr⟩ := h
      have hn : 0 < n := by omega
      simp only [flatF, unflatF]
      rw [Nat.add_mul_mod_self_left, Nat.mod_eq_of_lt hi, Nat.add_mul_div_left _ _ hn,
        Nat.div_eq_of_lt hi, Nat.zero_add, ih is hr]

theorem flatF_lt (ns is : List Nat) (h : inRange ns is = true) : flatF ns is < natProd ns := by
  induction ns generalizing is with
  | nil => cases is <;> simp_all [inRange, flatF, natProd]
  | cons n ns ih =>
    cases is with
    | nil => simp [inRange] at h
    | cons i is =>
      rw [inRange_cons] at h
      obtain ⟨hi, hr⟩ := h
      have := ih is hr
      simp only [flatF, natProd]
      calc i + n * flatF ns is < n + n * flatF ns is := by omega
        _ = n * (flatF ns is + 1) := by ring
        _ ≤ n * natProd ns := Nat.mul_le_mul_left n this

theorem unflatF_inRange (ns : List Nat) (k : Nat) (h : ∀ n ∈ ns, 0 < n) :
    inRange ns (unflatF ns k) = true := by
  induction ns generalizing k with
  | nil => simp [unflatF, inRange]
  | cons n ns ih =>
    simp only [unflatF, inRange_cons]
    exact ⟨Nat.mod_lt _ (h n (by simp)), ih _ fun m hm => h m (by simp [hm])⟩

theorem flatF_unflatF (ns : List Nat) (k : Nat) (hk : k < natProd ns) :
    flatF ns (unflatF ns k) = k := by
  induction ns generalizing k with
  | nil => simp [natProd] at hk; simp [unflatF, flatF, hk]
  | cons n ns ih =>
    simp only [natProd] at hk
    have hn : 0 < n := by
      rcases Nat.eq_zero_or_pos n with h0 | h0
      · subst h0; simp at hk
      · exact h0
    simp only [unflatF, flatF]
    have : k / n < natProd ns := by
      rw [Nat.div_lt_iff_lt_mul hn]; rw [Nat.mul_comm]; exact hk
    rw [ih _ this]
    exact Nat.mod_add_div k n

/-! ### last index fastest -/

theorem flatC_lt (ns is : List Nat) (h : inRange ns is = true) : flatC ns is < natProd ns := by
  induction ns generalizing is with
  | nil => cases is <;> simp_all [inRange, flatC, natProd]
  | cons n ns ih =>
    cases is with
    | nil => simp [inRange] at h
    | cons i is =>
      rw [inRange_cons] at h
      obtain ⟨hi, hr⟩ := h
      have := ih is hr
      simp only [flatC, natProd]
      calc i * natProd ns + flatC ns is < i * natProd ns + natProd ns := by omega
        _ = (i + 1) * natProd ns := by ring
        _ ≤ n * natProd ns := Nat.mul_le_mul_right _ (by omega)

theorem unflatC_flatC (ns is : List Nat) (h : inRange ns is = true) :
    unflatC ns (flatC ns is) = is := by
  induction ns generalizing is with
  | nil => cases is <;> simp_all [inRange, unflatC]
  | cons n ns ih =>
    cases is with
    | nil => simp [inRange] at h
    | cons i is =>
      rw [inRange_cons] at h
      obtain ⟨hi, hr⟩ := h
      have hlt := flatC_lt ns is hr
      have hp : 0 < natProd ns := by omega
      simp only [flatC, unflatC]
      have h1 : (i * natProd ns + flatC ns is) / natProd ns = i := by
        rw [Nat.add_comm, Nat.add_mul_div_right _ _ hp, Nat.div_eq_of_lt hlt, Nat.zero_add]
      have h2 : (i * natProd ns + flatC ns is) % natProd ns = flatC ns is := by
        rw [Nat.add_comm, Nat.add_mul_mod_self_right, Nat.mod_eq_of_lt hlt]
      rw [h1, h2, ih is hr]

theorem unflatC_inRange (ns : List Nat) (k : Nat) (h : ∀ n ∈ ns, 0 < n) (hk : k < natProd ns) :
    inRange ns (unflatC ns k) = true := by
  induction ns generalizing k with
  | nil => simp [unflatC, inRange]
  | cons n ns ih =>
    simp only [natProd] at hk
    have hp : 0 < natProd ns := natProd_pos ns fun m hm => h m (by simp [hm])
    simp only [unflatC, inRange_cons]
    refine ⟨?_, ih _ (fun m hm => h m (by simp [hm])) (Nat.mod_lt _ hp)⟩
    rw [Nat.div_lt_iff_lt_mul hp]; exact hk

theorem flatC_unflatC (ns : List Nat) (k : Nat) (h : ∀ n ∈ ns, 0 < n) (hk : k < natProd ns) :
    flatC ns (unflatC ns k) = k := by
  induction ns generalizing k with
  | nil => simp [natProd] at hk; simp [unflatC, flatC, hk]
  | cons n ns ih =>
    simp only [natProd] at hk
    have hp : 0 < natProd ns := natProd_pos ns fun m hm => h m (by simp [hm])
    simp only [unflatC, flatC]
    rw [ih _ (fun m hm => h m (by simp [hm])) (Nat.mod_lt _ hp)]
    rw [Nat.mul_comm]; exact Nat.div_add_mod k (natProd ns)


theorem natProd_append (a b : List Nat) : natProd (a ++ b) = natProd a * natProd b := by
  induction a with
  | nil => simp [natProd]
  | cons x xs ih => simp [natProd, ih, Nat.mul_assoc]

theorem natProd_reverse (a : List Nat) : natProd a.reverse = natProd a := by
  induction a with
  | nil => rfl
  | cons x xs ih => simp [natProd_append, natProd, ih, Nat.mul_comm]

theorem unflatF_append (a b : List Nat) (k : Nat) :
    unflatF (a ++ b) k = unflatF a k ++ unflatF b (k / natProd a) := by
  induction a generalizing k with
  | nil => simp [unflatF, natProd]
  | cons x xs ih =>
    simp only [List.cons_append, unflatF, natProd, ih]
    rw [Nat.div_div_eq_div_mul]

theorem unflatF_mod (ns : List Nat) (k : Nat) : unflatF ns (k % natProd ns) = unflatF ns k := by
  induction ns generalizing k with
  | nil => simp [unflatF]
  | cons n ns ih =>
    simp only [unflatF, natProd]
    congr 1
    · exact Nat.mod_mul_right_mod k n (natProd ns)
    · rw [Nat.mod_mul_right_div_self, ih]

theorem range_mul_map {α} (r P : Nat) (f : Nat → α) :
    (List.range (r * P)).map f = (List.range r).flatMap fun i => (List.range P).map fun j => f (i * P + j) := by
  induction r with
  | zero => simp
  | succ r ih =>
    rw [Nat.succ_mul, List.range_add, List.map_append, ih, List.range_succ, List.flatMap_append]
    simp [List.map_map, Function.comp_def]

theorem flatMap_congr' {α β} (l : List α) (f g : α → List β) (h : ∀ x ∈ l, f x = g x) :
    l.flatMap f = l.flatMap g := by
  induction l with
  | nil => rfl
  | cons x xs ih =>
    simp only [List.flatMap_cons]
    rw [h x (by simp), ih fun y hy => h y (by simp [hy])]

/-- `itertools.product` (last factor fastest) enumerates multi-indices in C order -/
theorem product_eq_unflatC (rs : List Nat) :
    productLastFastest rs = (List.range (natProd rs)).map (unflatC rs) := by
  induction rs with
  | nil => simp [productLastFastest, natProd, unflatC]
  | cons r rs ih =>
    simp only [productLastFastest, natProd]
    rw [range_mul_map, ih]
    apply flatMap_congr'
    intro i _
    rw [List.map_map]
    apply List.map_congr_left
    intro j hj
    have hjP : j < natProd rs := List.mem_range.mp hj
    have hP : 0 < natProd rs := by omega
    simp only [Function.comp, unflatC]
    have h1 : (i * natProd rs + j) / natProd rs = i := by
      rw [Nat.add_comm, Nat.add_mul_div_right _ _ hP, Nat.div_eq_of_lt hjP, Nat.zero_add]
    have h2 : (i * natProd rs + j) % natProd rs = j := by
      rw [Nat.add_comm, Nat.add_mul_mod_self_right, Nat.mod_eq_of_lt hjP]
    rw [h1, h2]

theorem reverse_unflatC (rs : List Nat) (k : Nat) (hk : k < natProd rs) :
    (unflatC rs k).reverse = unflatF rs.reverse k := by
  induction rs generalizing k with
  | nil => simp [unflatC, unflatF]
  | cons r rs ih =>
    simp only [natProd] at hk
    have hP : 0 < natProd rs := by
      rcases Nat.eq_zero_or_pos (natProd rs) with h | h
      · rw [h] at hk; simp at hk
      · exact h
    simp only [unflatC, List.reverse_cons]
    rw [ih _ (Nat.mod_lt _ hP), unflatF_append, natProd_reverse]
    have hm := unflatF_mod rs.reverse k
    rw [natProd_reverse] at hm
    rw [hm]
    congr 1
    simp only [unflatF]
    have : k / natProd rs < r := by
      rw [Nat.div_lt_iff_lt_mul hP]; exact hk
    rw [Nat.mod_eq_of_lt this]


/-- `Mesh.indices` (reversed `itertools.product` over the reversed counts, each tuple
reversed) enumerates every multi-index exactly once with the first dimension fastest. -/
theorem indicesCode_eq_indicesF (ns : List Nat) : indicesCode ns = indicesF ns := by
  unfold indicesCode indicesF
  rw [product_eq_unflatC, List.map_map, natProd_reverse]
  apply List.map_congr_left
  intro k hk
  have hk' : k < natProd ns.reverse := by rw [natProd_reverse]; exact List.mem_range.mp hk
  simp only [Function.comp]
  rw [reverse_unflatC _ _ hk', List.reverse_reverse]


end DFV
