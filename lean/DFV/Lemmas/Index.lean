import Mathlib.Tactic.Ring
import Mathlib.Tactic.Linarith
import DFV.Lemmas.Tab
/-! Mixed-radix lemmas: `flatF/unflatF` (first index fastest) and `flatC/unflatC`
(last index fastest) are mutually inverse bijections between in-range multi-indices and
`[0, prod shape)`. -/
namespace DFV

theorem inRange_cons (n : Nat) (ns : List Nat) (i : Nat) (is : List Nat) :
    inRange (n :: ns) (i :: is) = true ↔ i < n ∧ inRange ns is = true := by
  simp [inRange]

theorem inRange_length (ns is : List Nat) (h : inRange ns is = true) : is.length = ns.length := by
  induction ns generalizing is with
  | nil => cases is <;> simp_all [inRange]
  | cons n ns ih =>
    cases is with
    | nil => simp [inRange] at h
    | cons i is =>
      rw [inRange_cons] at h
      simp [ih is h.2]

theorem inRange_getD (ns is : List Nat) (h : inRange ns is = true) (a : Nat) (ha : a < ns.length) :
    is.getD a 0 < ns.getD a 0 := by
  induction ns generalizing is a with
  | nil => simp at ha
  | cons n ns ih =>
    cases is with
    | nil => simp [inRange] at h
    | cons i is =>
      rw [inRange_cons] at h
      cases a with
      | zero => simpa using h.1
      | succ a =>
        simp only [List.getD_cons_succ]
        exact ih is h.2 a (by simpa using ha)

theorem natProd_pos (ns : List Nat) (h : ∀ n ∈ ns, 0 < n) : 0 < natProd ns := by
  induction ns with
  | nil => simp [natProd]
  | cons n ns ih =>
    simp only [natProd]
    exact Nat.mul_pos (h n (by simp)) (ih fun k hk => h k (by simp [hk]))

theorem inRange_pos (ns is : List Nat) (h : inRange ns is = true) : ∀ n ∈ ns, 0 < n := by
  induction ns generalizing is with
  | nil => simp
  | cons n ns ih =>
    cases is with
    | nil => simp [inRange] at h
    | cons i is =>
      rw [inRange_cons] at h
      intro k hk
      rcases List.mem_cons.mp hk with rfl | hk
      · omega
      · exact ih is h.2 k hk

/-! ### first index fastest -/

theorem unflatF_flatF (ns is : List Nat) (h : inRange ns is = true) :
    unflatF ns (flatF ns is) = is := by
  induction ns generalizing is with
  | nil => cases is <;> simp_all [inRange, unflatF]
  | cons n ns ih =>
    cases is with
    | nil => simp [inRange] at h
    | cons i is =>
      rw [inRange_cons] at h
      obtain ⟨hi, hr⟩ := h
      have hn : 0 < n := by omega
      simp only [flatF, unflatF]
      rw [Nat.add_mul_mod_self_left, Nat.mod_eq_of_lt hi, Nat.add_mul_div_left _ _ hn,
        Nat.div_eq_of_lt hi, Nat.zero_add, ih is hr]

theorem flatF_lt (ns is : List Nat) (h : inRange ns is = true) : flatF ns is < natProd ns := by
  induction ns generalizing is with
  | nil => cases is <;> simp_all [inRange, flatF, natProd]
  | cons n ns ih =>
    cases is with
    | nil => simp [inRange] at h
    | cons i is =>
      rw [inRange_cons] at h
      obtain ⟨hi, hr⟩ := h
      have := ih is hr
      simp only [flatF, natProd]
      calc i + n * flatF ns is < n + n * flatF ns is := by omega
        _ = n * (flatF ns is + 1) := by ring
        _ ≤ n * natProd ns := Nat.mul_le_mul_left n this

theorem unflatF_inRange (ns : List Nat) (k : Nat) (h : ∀ n ∈ ns, 0 < n) :
    inRange ns (unflatF ns k) = true := by
  induction ns generalizing k with
  | nil => simp [unflatF, inRange]
  | cons n ns ih =>
    simp only [unflatF, inRange_cons]
    exact ⟨Nat.mod_lt _ (h n (by simp)), ih _ fun m hm => h m (by simp [hm])⟩

theorem flatF_unflatF (ns : List Nat) (k : Nat) (hk : k < natProd ns) :
    flatF ns (unflatF ns k) = k := by
  induction ns generalizing k with
  | nil => simp [natProd] at hk; simp [unflatF, flatF, hk]
  | cons n ns ih =>
    simp only [natProd] at hk
    have hn : 0 < n := by
      rcases Nat.eq_zero_or_pos n with h0 | h0
      · subst h0; simp at hk
      · exact h0
    simp only [unflatF, flatF]
    have : k / n < natProd ns := by
      rw [Nat.div_lt_iff_lt_mul hn]; rw [Nat.mul_comm]; exact hk
    rw [ih _ this]
    exact Nat.mod_add_div k n

/-! ### last index fastest -/

theorem flatC_lt (ns is : List Nat) (h : inRange ns is = true) : flatC ns is < natProd ns := by
  induction ns generalizing is with
  | nil => cases is <;> simp_all [inRange, flatC, natProd]
  | cons n ns ih =>
    cases is with
    | nil => simp [inRange] at h
    | cons i is =>
      rw [inRange_cons] at h
      obtain ⟨hi, hr⟩ := h
      have := ih is hr
      simp only [flatC, natProd]
      calc i * natProd ns + flatC ns is < i * natProd ns + natProd ns := by omega
        _ = (i + 1) * natProd ns := by ring
        _ ≤ n * natProd ns := Nat.mul_le_mul_right _ (by omega)

theorem unflatC_flatC (ns is : List Nat) (h : inRange ns is = true) :
    unflatC ns (flatC ns is) = is := by
  induction ns generalizing is with
  | nil => cases is <;> simp_all [inRange, unflatC]
  | cons n ns ih =>
    cases is with
    | nil => simp [inRange] at h
    | cons i is =>
      rw [inRange_cons] at h
      obtain ⟨hi, hr⟩ := h
      have hlt := flatC_lt ns is hr
      have hp : 0 < natProd ns := by omega
      simp only [flatC, unflatC]
      have h1 : (i * natProd ns + flatC ns is) / natProd ns = i := by
        rw [Nat.add_comm, Nat.add_mul_div_right _ _ hp, Nat.div_eq_of_lt hlt, Nat.zero_add]
      have h2 : (i * natProd ns + flatC ns is) % natProd ns = flatC ns is := by
        rw [Nat.add_comm, Nat.add_mul_mod_self_right, Nat.mod_eq_of_lt hlt]
      rw [h1, h2, ih is hr]

theorem unflatC_inRange (ns : List Nat) (k : Nat) (h : ∀ n ∈ ns, 0 < n) (hk : k < natProd ns) :
    inRange ns (unflatC ns k) = true := by
  induction ns generalizing k with
  | nil => simp [unflatC, inRange]
  | cons n ns ih =>
    simp only [natProd] at hk
    have hp : 0 < natProd ns := natProd_pos ns fun m hm => h m (by simp [hm])
    simp only [unflatC, inRange_cons]
    refine ⟨?_, ih _ (fun m hm => h m (by simp [hm])) (Nat.mod_lt _ hp)⟩
    rw [Nat.div_lt_iff_lt_mul hp]; exact hk

theorem flatC_unflatC (ns : List Nat) (k : Nat) (h : ∀ n ∈ ns, 0 < n) (hk : k < natProd ns) :
    flatC ns (unflatC ns k) = k := by
  induction ns generalizing k with
  | nil => simp [natProd] at hk; simp [unflatC, flatC, hk]
  | cons n ns ih =>
    simp only [natProd] at hk
    have hp : 0 < natProd ns := natProd_pos ns fun m hm => h m (by simp [hm])
    simp only [unflatC, flatC]
    rw [ih _ (fun m hm => h m (by simp [hm])) (Nat.mod_lt _ hp)]
    rw [Nat.mul_comm]; exact Nat.div_add_mod k (natProd ns)

end DFV
