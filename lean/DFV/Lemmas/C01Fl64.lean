import DFV.Lemmas.C01Fl
import DFV.Lemmas.C15Fl64
/-! binary64 (round to nearest even, 53 bits, unbounded exponent: `C15.fl64`, the function the
driver executes) is an instance of the abstract `Rounding` the `_fl` theorems quantify over. -/
namespace DFV.C01
open DFV

/-- binary64 rounding as a `Rounding` with `u = 2^-53` -/
def Rounding.binary64 : Rounding :=
  ⟨C15.fl64, 1 / 9007199254740992, by norm_num, by norm_num, C15.fl64_flOk.2⟩

theorem binary64_fl : Rounding.binary64.fl = C15.fl64 := rfl
theorem binary64_u : Rounding.binary64.u = 1 / 9007199254740992 := rfl

end DFV.C01
