import DFV.Lemmas.C15RoundExec
/-!
Rounded arithmetic for C15, part 4: bounds for ANY number of components.  Instead of a table
for `≤ 4` components the error of the sum of squares is carried as `m = k·u` (`k` = number of
roundings a term can see: `n + 1` for a real cell, `n + 2` for a complex one) under the single
hypothesis `k²·u ≤ 2^-10` (`Small u m`), which makes every second-order term a small multiple
of `u`; all constants are then explicit affine functions of `(m, u)`.
-/
namespace DFV.C15
set_option linter.unusedSectionVars false
variable {K : Type} [Field K] [LinearOrder K] [IsStrictOrderedRing K]

/-- `(1+u)^k - 1 ≤ k·u + (k·u)²` as long as `k·u ≤ 1` -/
theorem gam_le_quad {u : K} (hu : 0 ≤ u) (k : Nat) (hk : (k : K) * u ≤ 1) :
    gam u k ≤ (k : K) * u + (k : K) * u * ((k : K) * u) := by
  induction k with
  | zero => simp [gam]
  | succ k ih =>
    have hk0 : (0 : K) ≤ (k : K) := Nat.cast_nonneg k
    have hm0 : 0 ≤ (k : K) * u := mul_nonneg hk0 hu
    have hk' : (k : K) * u ≤ 1 := by
      push_cast at hk; nlinarith
    have h1 := ih hk'
    rw [gam_succ]
    push_cast
    set m := (k : K) * u with hm
    have e : ((k : K) + 1) * u = m + u := by rw [hm]; ring
    rw [e]
    have hg := gam_nonneg hu k
    have hmm : m * m ≤ m := by nlinarith
    have : (1 + u) * (1 + gam u k) ≤ (1 + u) * (1 + (m + m * m)) :=
      mul_le_mul_of_nonneg_left (by linarith) (by linarith)
    nlinarith [mul_nonneg hu hm0, mul_nonneg hu (mul_nonneg hm0 hm0)]

/-- the smallness package used by the component-count-generic bounds: `m = (n+1)·u` is the
first-order error of the sum of squares, and `(n+1)·m ≤ 1/1024` makes every second-order term
a small multiple of `u` -/
structure Small (u m : K) : Prop where
  u0 : 0 ≤ u
  um : u ≤ m
  m64 : m ≤ 1 / 1024
  mm : m * m ≤ u / 1024

theorem Small.m0 {u m : K} (s : Small u m) : 0 ≤ m := le_trans s.u0 s.um
theorem Small.u64 {u m : K} (s : Small u m) : u ≤ 1 / 1024 := le_trans s.um s.m64
theorem Small.umul {u m : K} (s : Small u m) : u * m ≤ u / 1024 := by
  have := mul_le_mul_of_nonneg_left s.m64 s.u0; linarith
theorem Small.uu {u m : K} (s : Small u m) : u * u ≤ u / 1024 := by
  have := mul_le_mul_of_nonneg_left s.u64 s.u0; linarith

/-- from the natural hypothesis on the component count -/
theorem small_of_count {u : K} (hu : 0 ≤ u) (k : Nat) (hk : 1 ≤ k)
    (h : (k : K) * (k : K) * u ≤ 1 / 1024) : Small u ((k : K) * u) := by
  have hk1 : (1 : K) ≤ (k : K) := by exact_mod_cast hk
  have hk0 : (0 : K) ≤ (k : K) := by linarith
  have hku : 0 ≤ (k : K) * u := mul_nonneg hk0 hu
  refine ⟨hu, by nlinarith, ?_, ?_⟩
  · have : (k : K) * u ≤ (k : K) * ((k : K) * u) := by nlinarith
    linarith
  · have : (k : K) * u * ((k : K) * u) = u * ((k : K) * (k : K) * u) := by ring
    rw [this]
    have := mul_le_mul_of_nonneg_left h hu
    linarith

/-- product of two quantities that are linear in `(m, u)` is a small multiple of `u` -/
theorem Small.prod {u m : K} (s : Small u m) {x y a b c d : K} (hx : 0 ≤ x) (hy : 0 ≤ y)
    (ha : 0 ≤ a) (hb : 0 ≤ b) (hc : 0 ≤ c) (hd : 0 ≤ d)
    (h1 : x ≤ a * m + b * u) (h2 : y ≤ c * m + d * u) :
    x * y ≤ (a + b) * (c + d) * (u / 1024) := by
  have hm0 := s.m0
  have h2' : 0 ≤ c * m + d * u := le_trans hy h2
  have : x * y ≤ (a * m + b * u) * (c * m + d * u) := mul_le_mul h1 h2 hy (le_trans hx h1)
  have e : (a * m + b * u) * (c * m + d * u) =
      a * c * (m * m) + (a * d + b * c) * (u * m) + b * d * (u * u) := by ring
  have t1 := mul_le_mul_of_nonneg_left s.mm (mul_nonneg ha hc)
  have t2 := mul_le_mul_of_nonneg_left s.umul (add_nonneg (mul_nonneg ha hd) (mul_nonneg hb hc))
  have t3 := mul_le_mul_of_nonneg_left s.uu (mul_nonneg hb hd)
  nlinarith


/-- root of a perturbed radicand, then one rounding: relative error `m/2 + 513/512·u` -/
theorem root_round_gen {u m γ a b n : K} (s : Small u m) (hγ0 : 0 ≤ γ) (hγ : γ ≤ m + u / 1024)
    (ha : 0 ≤ a) (hb : 0 ≤ b) (h : |a * a - b * b| ≤ γ * (b * b)) (hn : |n - a| ≤ u * a) :
    |n - b| ≤ (1 / 2 * m + 513 / 512 * u) * b := by
  have hu0 := s.u0
  have hm0 := s.m0
  have hm64 := s.m64
  have hu64 := s.u64
  have hγ1 : γ ≤ 1 := by linarith
  have hroot := root_perturb ha hb hγ0 hγ1 h
  set ε : K := 1 / 2 * m + 1 / 1000 * u with hε
  have hε0 : 0 ≤ ε := by rw [hε]; nlinarith
  have p1 : ε * γ ≤ (1 / 2 + 1 / 1000) * (1 + 1 / 1024) * (u / 1024) :=
    s.prod hε0 hγ0 (by norm_num) (by norm_num) (by norm_num) (by norm_num) (le_of_eq hε)
      (by linarith)
  have p2 : u * ε ≤ (0 + 1) * (1 / 2 + 1 / 1000) * (u / 1024) :=
    s.prod hu0 hε0 le_rfl (by norm_num) (by norm_num) (by norm_num) (by linarith) (le_of_eq hε)
  have he : |a - b| ≤ ε * b := by
    have h2 : 0 < 2 - γ := by linarith
    have h3 : γ * b ≤ ε * b * (2 - γ) := by
      have : γ ≤ ε * (2 - γ) := by
        have : ε * (2 - γ) = 2 * ε - ε * γ := by ring
        rw [this, hε] at *; linarith
      nlinarith
    exact le_of_mul_le_mul_right (le_trans hroot h3) h2
  have hab : a ≤ b + ε * b := by
    have := (abs_le.mp he).2; linarith
  have e : n - b = (n - a) + (a - b) := by ring
  rw [e]
  have t := abs_add_le (n - a) (a - b)
  have h4 : u * a ≤ u * (b + ε * b) := mul_le_mul_of_nonneg_left hab hu0
  have h5 : (u + u * ε + ε) * b ≤ (1 / 2 * m + 513 / 512 * u) * b := by
    apply mul_le_mul_of_nonneg_right _ hb
    rw [hε] at p2 ⊢; linarith
  nlinarith

/-- quotient by a denominator carrying the relative error `m/2 + 513/512·u`, one rounding:
within `m/2 + 257/128·u`; times `t` and one more rounding: within `m/2 + 193/64·u` -/
theorem quot_mul_gen {fl : K → K} {u m : K} (h : FlOk fl u) (s : Small u m) {b n : K}
    (hb : 0 < b) (hn : |n - b| ≤ (1 / 2 * m + 513 / 512 * u) * b) (x t : K) :
    |fl (x / n) - x / b| ≤ (1 / 2 * m + 257 / 128 * u) * |x / b| ∧
    |fl (fl (x / n) * t) - t / b * x| ≤ (1 / 2 * m + 193 / 64 * u) * |t / b * x| := by
  have hu0 := s.u0
  have hm0 := s.m0
  have hm64 := s.m64
  have hu64 := s.u64
  set η : K := 1 / 2 * m + 513 / 512 * u with hη
  set θ : K := 1 / 2 * m + 201 / 200 * u with hθ
  set ρ : K := 1 / 2 * m + 257 / 128 * u with hρ
  have hη0 : 0 ≤ η := by rw [hη]; nlinarith
  have hθ0 : 0 ≤ θ := by rw [hθ]; nlinarith
  have hρ0 : 0 ≤ ρ := by rw [hρ]; nlinarith
  have hη1 : η ≤ 1 / 32 := by rw [hη]; linarith
  have p1 : θ * η ≤ (1 / 2 + 201 / 200) * (1 / 2 + 513 / 512) * (u / 1024) :=
    s.prod hθ0 hη0 (by norm_num) (by norm_num) (by norm_num) (by norm_num) (le_of_eq hθ) (le_of_eq hη)
  have p2 : u * θ ≤ (0 + 1) * (1 / 2 + 201 / 200) * (u / 1024) :=
    s.prod hu0 hθ0 le_rfl (by norm_num) (by norm_num) (by norm_num) (by linarith) (le_of_eq hθ)
  have p3 : u * ρ ≤ (0 + 1) * (1 / 2 + 257 / 128) * (u / 1024) :=
    s.prod hu0 hρ0 le_rfl (by norm_num) (by norm_num) (by norm_num) (by linarith) (le_of_eq hρ)
  have hnlow : (1 - η) * b ≤ n := by
    have := (abs_le.mp hn).1; linarith
  have hnpos : 0 < n := by
    have : 0 < (1 - η) * b := mul_pos (by linarith) hb
    linarith
  have hq : |(b - n) / n| ≤ θ := by
    rw [abs_div, abs_of_pos hnpos, div_le_iff₀ hnpos, abs_sub_comm]
    have h1 : η * b ≤ θ * ((1 - η) * b) := by
      have : η ≤ θ * (1 - η) := by
        have : θ * (1 - η) = θ - θ * η := by ring
        rw [this, hθ, hη] at *; linarith
      nlinarith
    have := mul_le_mul_of_nonneg_left hnlow hθ0
    linarith
  have h1 : |x / n - x / b| ≤ θ * |x / b| := by
    have e : x / n - x / b = x / b * ((b - n) / n) := by field_simp
    rw [e, abs_mul, mul_comm]
    exact mul_le_mul_of_nonneg_right hq (abs_nonneg _)
  have c1 := h.compose hθ0 h1
  have hxb := abs_nonneg (x / b)
  have r1 : |fl (x / n) - x / b| ≤ ρ * |x / b| := by
    have : (1 + u) * (1 + θ) - 1 ≤ ρ := by
      have : (1 + u) * (1 + θ) - 1 = u + θ + u * θ := by ring
      rw [this, hρ, hθ] at *; linarith
    have := mul_le_mul_of_nonneg_right this hxb
    linarith
  refine ⟨r1, ?_⟩
  have e2 : t / b * x = x / b * t := by field_simp
  rw [e2]
  have h2 : |fl (x / n) * t - x / b * t| ≤ ρ * |x / b * t| := by
    have : fl (x / n) * t - x / b * t = (fl (x / n) - x / b) * t := by ring
    rw [this, abs_mul, abs_mul, ← mul_assoc]
    exact mul_le_mul_of_nonneg_right r1 (abs_nonneg t)
  have c2 := h.compose hρ0 h2
  have : (1 + u) * (1 + ρ) - 1 ≤ 1 / 2 * m + 193 / 64 * u := by
    have : (1 + u) * (1 + ρ) - 1 = u + ρ + u * ρ := by ring
    rw [this, hρ] at *; linarith
  have := mul_le_mul_of_nonneg_right this (abs_nonneg (x / b * t))
  linarith

/-- `2ρ + ρ²` for `ρ ≤ a·m + b·u` -/
theorem Small.two_sq {u m : K} (s : Small u m) {ρ a b : K} (hρ : 0 ≤ ρ) (ha : 0 ≤ a) (hb : 0 ≤ b)
    (h : ρ ≤ a * m + b * u) : 2 * ρ + ρ * ρ ≤ 2 * a * m + (2 * b + (a + b) * (a + b) / 1024) * u := by
  have := s.prod hρ hρ ha hb ha hb h h
  linarith

/-- pure algebra of the norm chain for any relative error `g ≤ 1/512` of the radicand: root's
square within `2u + 3u²`, one more rounding within `u` ⇒ the square of the result within
`g + 129/32·u` -/
theorem norm_sq_chain_gen {u g S S' r n : K} (hu0 : 0 ≤ u) (hu : u ≤ 1 / 1024) (hg0 : 0 ≤ g)
    (hg : g ≤ 1 / 512) (hS : 0 ≤ S) (h1 : |S' - S| ≤ g * S) (hr0 : 0 ≤ r)
    (h2 : |r * r - S'| ≤ (2 * u + 3 * (u * u)) * S') (hn0 : 0 ≤ n) (h3 : |n - r| ≤ u * r) :
    |n * n - S| ≤ (g + 129 / 32 * u) * S := by
  have huu : u * u ≤ u / 1024 := by nlinarith
  have huu0 : 0 ≤ u * u := mul_nonneg hu0 hu0
  have hug : u * g ≤ u / 512 := by nlinarith
  have hug0 : 0 ≤ u * g := mul_nonneg hu0 hg0
  have p1 : (1 + 513 / 256 * u) * (1 + g) ≤ 1 + g + 1029 / 512 * u := by nlinarith
  have p2 : 1 - g - 1029 / 512 * u ≤ (1 - 513 / 256 * u) * (1 - g) := by nlinarith
  have p3 : (1 + 1025 / 512 * u) * (1 + g + 1029 / 512 * u) ≤ 1 + g + 129 / 32 * u := by nlinarith
  have p4 : 1 - g - 129 / 32 * u ≤ (1 - 2 * u) * (1 - g - 1029 / 512 * u) := by nlinarith
  have p5 : (1 + u) * (1 + u) ≤ 1 + 1025 / 512 * u := by nlinarith
  have p6 : 1 - 2 * u ≤ (1 - u) * (1 - u) := by nlinarith
  have hb := abs_le.mp h1
  have hrb := abs_le.mp h2
  have hfl := abs_le.mp h3
  have hS'0 : 0 ≤ S' := by
    have : (1 - g) * S ≤ S' := by linarith
    exact le_trans (mul_nonneg (by linarith) hS) this
  have hc : 2 * u + 3 * (u * u) ≤ 513 / 256 * u := by linarith
  have hcS := mul_le_mul_of_nonneg_right hc hS'0
  have hr2u : r * r ≤ (1 + 513 / 256 * u) * S' := by linarith
  have hr2l : (1 - 513 / 256 * u) * S' ≤ r * r := by linarith
  have hS'u : S' ≤ (1 + g) * S := by linarith
  have hS'l : (1 - g) * S ≤ S' := by linarith
  have hr2u' : r * r ≤ (1 + g + 1029 / 512 * u) * S := chain_up hr2u hS'u (by linarith) hS p1
  have hr2l' : (1 - g - 1029 / 512 * u) * S ≤ r * r := chain_lo hr2l hS'l (by linarith) hS p2
  have hrr0 := mul_self_nonneg r
  have hnu : n * n ≤ (1 + 1025 / 512 * u) * (r * r) := by
    have k1 : n ≤ (1 + u) * r := by linarith
    have k2 : n * n ≤ ((1 + u) * r) * ((1 + u) * r) :=
      mul_le_mul k1 k1 hn0 (mul_nonneg (by linarith) hr0)
    have k3 : ((1 + u) * r) * ((1 + u) * r) = (1 + u) * (1 + u) * (r * r) := by ring
    have k4 := mul_le_mul_of_nonneg_right p5 hrr0
    linarith
  have hnl : (1 - 2 * u) * (r * r) ≤ n * n := by
    have k1 : (1 - u) * r ≤ n := by linarith
    have k0 : 0 ≤ (1 - u) * r := mul_nonneg (by linarith) hr0
    have k2 : ((1 - u) * r) * ((1 - u) * r) ≤ n * n := mul_le_mul k1 k1 k0 hn0
    have k3 : ((1 - u) * r) * ((1 - u) * r) = (1 - u) * (1 - u) * (r * r) := by ring
    have k4 := mul_le_mul_of_nonneg_right p6 hrr0
    linarith
  rw [abs_le]
  constructor
  · have h0 : (0 : K) ≤ 1 - 2 * u := by linarith only [hu]
    have := chain_lo (X := n * n) (Y := r * r) (Z := S) (a := 1 - 2 * u) (b := 1 - g - 1029 / 512 * u)
      (c := 1 - g - 129 / 32 * u) hnl hr2l' h0 hS p4
    have e : (1 - g - 129 / 32 * u) * S = S - (g + 129 / 32 * u) * S := by ring
    rw [e] at this
    linarith only [this]
  · have h0 : (0 : K) ≤ 1 + 1025 / 512 * u := by linarith only [hu0]
    have := chain_up (X := n * n) (Y := r * r) (Z := S) (a := 1 + 1025 / 512 * u) (b := 1 + g + 1029 / 512 * u)
      (c := 1 + g + 129 / 32 * u) hnu hr2u' h0 hS p3
    have e : (1 + g + 129 / 32 * u) * S = S + (g + 129 / 32 * u) * S := by ring
    rw [e] at this
    linarith only [this]

/-- the rounded root of a computed radicand `S'` that is within `g` of `S ≥ 0`: non-negative,
its square within `g + 129/32·u` of `S`, zero exactly when `S = 0` -/
theorem norm_exec_gen {fl sq : K → K} {u : K} (h : FlOk fl u) (hq : SqrtOk sq u) (hu : u ≤ 1 / 1024)
    {g S S' : K} (hg0 : 0 ≤ g) (hg : g ≤ 1 / 512) (hS : 0 ≤ S) (herr : |S' - S| ≤ g * S) :
    0 ≤ fl (sq S') ∧ |fl (sq S') * fl (sq S') - S| ≤ (g + 129 / 32 * u) * S ∧
    (fl (sq S') = 0 ↔ S = 0) := by
  have hu0 := h.1
  rcases eq_or_lt_of_le hS with hz | hpos
  · have hS'z : S' = 0 := by
      rw [← hz, mul_zero, sub_zero] at herr
      exact abs_eq_zero.mp (le_antisymm herr (abs_nonneg _))
    rw [hS'z, hq.2 0 le_rfl, h.zero, ← hz]
    simp
  · have hb := abs_le.mp herr
    have hS'pos : 0 < S' := by
      have h1 : (1 - g) * S ≤ S' := by linarith
      exact lt_of_lt_of_le (mul_pos (by linarith) hpos) h1
    obtain ⟨hr0, hrr⟩ := hq.1 _ hS'pos
    have hn0 : 0 ≤ fl (sq S') := h.nonneg (by linarith) hr0
    have hfl := h.2 (sq S')
    rw [abs_of_nonneg hr0] at hfl
    refine ⟨hn0, norm_sq_chain_gen hu0 hu hg0 hg hS herr hr0 hrr hn0 hfl, ?_⟩
    constructor
    · intro e
      exfalso
      rw [h.eq_zero_iff (by linarith)] at e
      rw [e, mul_zero, zero_sub, abs_neg, abs_of_pos hS'pos] at hrr
      have huu : u * u ≤ u / 1024 := by nlinarith
      have : (2 * u + 3 * (u * u)) * S' < 1 * S' :=
        mul_lt_mul_of_pos_right (by linarith) hS'pos
      linarith
    · intro e; exact absurd e hpos.ne'

/-- with a norm whose square is within `κ ≤ 1/8` of `S`: `|S/n² − 1| ≤ κ + 2κ²` -/
theorem ratio_err_gen {κ S n : K} (hκ0 : 0 ≤ κ) (hκ : κ ≤ 1 / 8) (_hS : 0 < S) (hn : 0 < n)
    (h : |n * n - S| ≤ κ * S) : |S / (n * n) - 1| ≤ κ + 2 * (κ * κ) := by
  have hnn : 0 < n * n := mul_pos hn hn
  have hb := abs_le.mp h
  have hkk : 0 ≤ κ * κ := mul_nonneg hκ0 hκ0
  rw [abs_le]
  constructor
  · rw [le_sub_iff_add_le, le_div_iff₀ hnn]
    have : n * n ≤ (1 + κ) * S := by linarith
    have h1 : (-(κ + 2 * (κ * κ)) + 1) * (n * n) ≤ (-(κ + 2 * (κ * κ)) + 1) * ((1 + κ) * S) :=
      mul_le_mul_of_nonneg_left this (by nlinarith)
    have h2 : (-(κ + 2 * (κ * κ)) + 1) * (1 + κ) ≤ 1 := by nlinarith [mul_nonneg hκ0 hkk]
    have := mul_le_mul_of_nonneg_right h2 _hS.le
    nlinarith
  · rw [sub_le_iff_le_add, div_le_iff₀ hnn]
    have h0 : (1 - κ) * S ≤ n * n := by linarith
    have h2 : 1 ≤ (κ + 2 * (κ * κ) + 1) * (1 - κ) := by nlinarith [mul_nonneg hκ0 hkk]
    have := mul_le_mul_of_nonneg_right h2 _hS.le
    have := mul_le_mul_of_nonneg_left h0 (by nlinarith : (0 : K) ≤ κ + 2 * (κ * κ) + 1)
    nlinarith

/-- squared length of a cell whose components are within `ρ` of `(t/n)·x`, where `n²` is
within `κ'` (as a ratio) of the exact squared length: within `(2ρ+ρ²)(1+κ') + κ'` of `t²` -/
theorem sqLen_set_chain (f : K → K) (v : List K) {t n ρ κ' : K} (hρ : 0 ≤ ρ) (_hκ' : 0 ≤ κ')
    (hS : 0 < sqLen v) (hn : 0 < n) (hq : |sqLen v / (n * n) - 1| ≤ κ')
    (herr : ∀ x, |f x - t / n * x| ≤ ρ * |t / n * x|) :
    |sqLen (v.map f) - t * t| ≤ ((2 * ρ + ρ * ρ) * (1 + κ') + κ') * (t * t) := by
  have key := sqLen_map_err f (t / n) ρ hρ v fun x _ => herr x
  have e : t / n * (t / n) * sqLen v = t * t * (sqLen v / (n * n)) := by field_simp
  rw [e] at key
  set q := sqLen v / (n * n) with hqdef
  have hqb := abs_le.mp hq
  have htt := mul_self_nonneg t
  have hq0 : 0 ≤ q := div_nonneg hS.le (mul_pos hn hn).le
  have hρ2 : 0 ≤ 2 * ρ + ρ * ρ := by nlinarith
  have hk2 : (2 * ρ + ρ * ρ) * (t * t * q) ≤ (2 * ρ + ρ * ρ) * (1 + κ') * (t * t) := by
    have : t * t * q ≤ t * t * (1 + κ') := mul_le_mul_of_nonneg_left (by linarith) htt
    have := mul_le_mul_of_nonneg_left this hρ2
    nlinarith
  have hk3 : |t * t * q - t * t| ≤ κ' * (t * t) := by
    have : t * t * q - t * t = t * t * (q - 1) := by ring
    rw [this, abs_mul, abs_of_nonneg htt, mul_comm]
    exact mul_le_mul_of_nonneg_right hq htt
  have e2 : sqLen (v.map f) - t * t = (sqLen (v.map f) - t * t * q) + (t * t * q - t * t) := by ring
  rw [e2]
  have := abs_add_le (sqLen (v.map f) - t * t * q) (t * t * q - t * t)
  nlinarith


end DFV.C15
