import DFV.Lemmas.C11Complex
import DFV.Lemmas.C11More
/-!
C11: over ℂ with the roots `exp(-2πi/n)` the phase factors of the value theorems ARE
`exp(-2πi k·r)`: `phase`, `phaseR` as complex exponentials of a rational `k·r`.
-/
namespace DFV.C11
open DFV Complex

/-- `Σ_a (m_a - ⌊n_a/2⌋)·r_a / n_a` : the dot product of the centre of k-cell `m` of the full
transform with the position of cell `r` counted from the first cell (`kr_eq_k_dot_r`) -/
def kr : List Nat → List Nat → List Nat → ℚ
  | [], _, _ => 0
  | n :: ns, m, r => (((m.headD 0 : ℚ) - ((n / 2 : Nat) : ℚ)) * (r.headD 0 : ℚ)) / (n : ℚ) + kr ns m.tail r.tail

/-- the same for the real transform: the last axis is not shifted -/
def krR : List Nat → List Nat → List Nat → ℚ
  | [], _, _ => 0
  | n :: ns, m, r =>
    (if ns = [] then ((m.headD 0 : ℚ) * (r.headD 0 : ℚ)) / (n : ℚ)
     else (((m.headD 0 : ℚ) - ((n / 2 : Nat) : ℚ)) * (r.headD 0 : ℚ)) / (n : ℚ)) + krR ns m.tail r.tail

theorem cRoot_pow (n : Nat) (hn : 0 < n) (a b : Nat) :
    (cRoot n).w ^ a * (cRoot n).wi ^ b
      = cexp (-(2 * Real.pi * I) * (((((a : ℚ) - (b : ℚ)) / (n : ℚ) : ℚ)) : ℂ)) := by
  have hn0 : (n : ℂ) ≠ 0 := by exact_mod_cast (Nat.pos_iff_ne_zero.mp hn)
  simp only [cRoot]
  rw [← Complex.exp_nat_mul, ← Complex.exp_nat_mul, ← Complex.exp_add]
  congr 1
  push_cast
  field_simp
  ring

/-- **over ℂ the phase of `fftn_is_dft` is `exp(-2πi k·r)`** -/
theorem phase_complex (ns : List Nat) (h : ∀ n ∈ ns, 0 < n) (m r : List Nat) :
    phase (ns.map cRoot) ns m r = cexp (-(2 * Real.pi * I) * ((kr ns m r : ℚ) : ℂ)) := by
  induction ns generalizing m r with
  | nil => simp [phase, kr]
  | cons n ns ih =>
    simp only [phase, kr, List.map_cons, List.headD_cons, List.tail_cons]
    rw [cRoot_pow n (h n (by simp)), ih (fun k hk => h k (by simp [hk])), ← Complex.exp_add]
    congr 1
    push_cast
    ring

/-- **over ℂ the phase of `rfftn_is_dft` is `exp(-2πi k·r)`** (last axis unshifted) -/
theorem phaseR_complex (ns : List Nat) (h : ∀ n ∈ ns, 0 < n) (m r : List Nat) :
    phaseR (ns.map cRoot) ns m r = cexp (-(2 * Real.pi * I) * ((krR ns m r : ℚ) : ℂ)) := by
  induction ns generalizing m r with
  | nil => simp [phaseR, krR]
  | cons n ns ih =>
    simp only [phaseR, krR, List.map_cons, List.headD_cons, List.tail_cons]
    rw [ih (fun k hk => h k (by simp [hk]))]
    by_cases hns : ns = []
    · rw [if_pos hns, if_pos hns]
      have := cRoot_pow n (h n (by simp)) (m.headD 0 * r.headD 0) 0
      rw [pow_zero, mul_one] at this
      rw [this, ← Complex.exp_add]
      congr 1
      push_cast
      ring
    · rw [if_neg hns, if_neg hns, cRoot_pow n (h n (by simp)), ← Complex.exp_add]
      congr 1
      push_cast
      ring

/-- the inverse roots: `exp(+2πi k·r)` -/
theorem phase_swap_complex (ns : List Nat) (h : ∀ n ∈ ns, 0 < n) (m r : List Nat) :
    phase ((ns.map cRoot).map Root.swap) ns m r = cexp ((2 * Real.pi * I) * ((kr ns m r : ℚ) : ℂ)) := by
  induction ns generalizing m r with
  | nil => simp [phase, kr]
  | cons n ns ih =>
    simp only [phase, kr, List.map_cons, List.headD_cons, List.tail_cons, Root.swap]
    have := cRoot_pow n (h n (by simp)) (n / 2 * r.headD 0) (m.headD 0 * r.headD 0)
    rw [mul_comm] at this
    rw [this, ih (fun k hk => h k (by simp [hk])), ← Complex.exp_add]
    congr 1
    push_cast
    ring

/-- the inverse roots, real transform: `exp(+2πi k·r)` with the last axis unshifted -/
theorem phaseR_swap_complex (ns : List Nat) (h : ∀ n ∈ ns, 0 < n) (m r : List Nat) :
    phaseR ((ns.map cRoot).map Root.swap) ns m r = cexp ((2 * Real.pi * I) * ((krR ns m r : ℚ) : ℂ)) := by
  induction ns generalizing m r with
  | nil => simp [phaseR, krR]
  | cons n ns ih =>
    simp only [phaseR, krR, List.map_cons, List.headD_cons, List.tail_cons, Root.swap]
    rw [ih (fun k hk => h k (by simp [hk]))]
    by_cases hns : ns = []
    · rw [if_pos hns, if_pos hns]
      have := cRoot_pow n (h n (by simp)) 0 (m.headD 0 * r.headD 0)
      rw [pow_zero, one_mul] at this
      rw [this, ← Complex.exp_add]
      congr 1
      push_cast
      ring
    · rw [if_neg hns, if_neg hns]
      have := cRoot_pow n (h n (by simp)) (n / 2 * r.headD 0) (m.headD 0 * r.headD 0)
      rw [mul_comm] at this
      rw [this, ← Complex.exp_add]
      congr 1
      push_cast
      ring

/-- `kr` as a sum over the axes -/
theorem kr_eq_sumN (ns m r : List Nat) :
    kr ns m r = sumN ns.length fun a =>
      (((m.getD a 0 : ℚ) - ((ns.getD a 0 / 2 : Nat) : ℚ)) * (r.getD a 0 : ℚ)) / (ns.getD a 0 : ℚ) := by
  induction ns generalizing m r with
  | nil => simp [kr, sumN]
  | cons n ns ih =>
    simp only [kr, List.length_cons]
    rw [Nat.add_comm ns.length 1, sumN_split 1 ns.length, ih]
    have h1 : ∀ (l : List Nat), l.headD 0 = l.getD 0 0 := by intro l; cases l <;> rfl
    have h2 : ∀ (l : List Nat) (i : Nat), l.tail.getD i 0 = l.getD (1 + i) 0 := by
      intro l i; cases l with
      | nil => simp
      | cons x xs => simp [Nat.add_comm 1 i]
    congr 1
    · rw [h1 m, h1 r]; simp [sumN]
    · apply sumN_congr
      intro i _
      rw [h2 m, h2 r]
      simp [Nat.add_comm 1 i]

end DFV.C11
