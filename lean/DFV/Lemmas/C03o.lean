import DFV.Lemmas.C03w
/-! C03 helper lemmas, part o: a static typing judgment for expression trees (component
count, labels, mapping, unit of the result) and its soundness: well-typed trees over
well-formed fields on one mesh are accepted, and the result carries the predicted metadata. -/
namespace DFV.C03
open DFV

/-- what can be said statically about the result of an expression -/
structure Ty where
  nv : Nat
  vdims : Option (List String)
  vmap : VMap
  unit : Option String
  kind : Kind
  deriving DecidableEq

def tyOf (f : CF) : Ty := ⟨f.nvdim, f.vdims, f.vmap, f.unit, f.kind⟩

/-- result of an operation that rebuilds the field without unit, with dtype kind `k` -/
def Ty.res (t : Ty) (k : Kind) : Ty := { t with unit := none, kind := k }

/-- dtype kind of the result of a binary operation between two fields -/
def kindFF (tl tr : Ty) : Kind := (tl.kind.join tr.kind).ctor

/-- mapping of `l << r`: the merged dict when it covers all components, else the default -/
def shlMap (M : Mesh) (tl tr : Ty) : VMap :=
  if (dictUpdate tl.vmap tr.vmap).length = tl.nv + tr.nv then dictUpdate tl.vmap tr.vmap
  else vmapDefault (tl.nv + tr.nv) M.region.ndim (shlLabels tl.vdims tr.vdims (tl.nv + tr.nv)) M.region.dims

/-- static result of `l << r` -/
def shlTy (M : Mesh) (tl tr : Ty) : Ty :=
  ⟨tl.nv + tr.nv, shlLabels tl.vdims tr.vdims (tl.nv + tr.nv), shlMap M tl tr, none, kindFF tl tr⟩

/-- static description of the field `<<` builds from a number / constant vector -/
def liftTy (M : Mesh) (od : Opd) : Ty :=
  ⟨liftNv od, Fld.defaultVdims (liftNv od),
   vmapDefault (liftNv od) M.region.ndim (Fld.defaultVdims (liftNv od)) M.region.dims, none, (rawKind od).ctor⟩

/-- `f` is `Good` and has the statically predicted metadata -/
def HasMeta (M : Mesh) (g : CF) (t : Ty) : Prop :=
  Good M g ∧ g.nvdim = t.nv ∧ g.vdims = t.vdims ∧ g.vmap = t.vmap ∧ g.unit = t.unit ∧ g.kind = t.kind

namespace Kind
theorem join_comm (a b : Kind) : a.join b = b.join a := by cases a <;> cases b <;> rfl
theorem ctor_ctor (a : Kind) : a.ctor.ctor = a.ctor := by cases a <;> rfl
theorem join_ctor_left (a b : Kind) : (a.ctor.join b).ctor = (a.join b).ctor := by cases a <;> cases b <;> rfl
end Kind

def isArith : BinOp → Bool
  | .add | .sub | .mul | .div => true
  | _ => false

/-- binary ufunc calls other than `np.power` -/
def isUArith : BinOp → Bool
  | .uadd | .usub | .umul | .udiv | .umax | .umin => true
  | _ => false

def unKeepsUnit : UnOp → Bool
  | .pos | .abs | .real | .imag | .conj => true
  | _ => false

/-- dtype kind of the result of a unary operation (`+f` is `f` itself; everything else goes
through the constructor, which stores at least float64) -/
def unKind : UnOp → Kind → Kind
  | .pos, k => k
  | .abs, k | .real, k | .imag, k | .absP, k | .uabsolute, k => k.realOf.ctor
  | .phase, _ => .float
  | _, k => k.ctor

/-- static result of a unary operation -/
def unTy (u : UnOp) (t : Ty) : Ty :=
  { t with unit := if unKeepsUnit u then t.unit else none, kind := unKind u t.kind }

/-- an exponent (number, constant vector, per-cell array) NumPy accepts for every base dtype:
not integer-typed, or without negative entries -/
def PowOk : Opd → Prop
  | .num z k _ => k ≠ .int ∨ 0 ≤ z.re
  | .arr a k _ => k ≠ .int ∨ a.toList.any (fun z => decide (z.re < 0)) = false

theorem negIntPow_false (kb ke : Kind) (e : NDA GQ) : negIntPow false kb ke e = false := by
  simp [negIntPow]

theorem negIntPow_powOk (pw : Bool) (kb : Kind) (od : Opd) (h : PowOk od) :
    negIntPow pw kb (rawKind od) (rawArr od) = false := by
  cases od with
  | arr a k np =>
    have h' : k ≠ .int ∨ a.toList.any (fun z => decide (z.re < 0)) = false := h
    simp only [negIntPow, rawKind, rawArr]
    rcases h' with h' | h'
    · simp [h']
    · rw [h']; simp
  | num z k np =>
    have h' : k ≠ .int ∨ 0 ≤ z.re := h
    have hl : (scalarArr z).toList = [z] := rfl
    simp only [negIntPow, rawKind, rawArr, hl, List.any_cons, List.any_nil, Bool.or_false]
    rcases h' with h' | h'
    · simp [h']
    · have : ¬ z.re < 0 := by
        intro hlt
        exact absurd h' (Rat.not_le.mpr hlt)
      simp [this]

/-! ## unary operations -/

theorem applyUn_accepts (env : Env) (u : UnOp) (M : Mesh) (hM : MeshOk M) (f : CF) (hf : Good M f) :
    ∃ g, applyUn env u f = .ok g ∧ Good M g ∧ g.nvdim = f.nvdim ∧ g.vdims = f.vdims ∧ g.vmap = f.vmap ∧
      g.unit = (if unKeepsUnit u then f.unit else none) ∧ g.kind = unKind u f.kind := by
  cases u
  case pos => exact ⟨f, rfl, hf, rfl, rfl, rfl, rfl, rfl⟩
  case neg => exact mapField_accepts GQ.neg id false M f hf
  case abs => exact mapField_accepts (GQ.abs env.sq) Kind.realOf true M f hf
  case real => exact mapField_accepts GQ.realPart Kind.realOf true M f hf
  case imag => exact mapField_accepts GQ.imagPart Kind.realOf true M f hf
  case conj => exact mapField_accepts GQ.conj id true M f hf
  case absP => exact mapField_accepts (GQ.abs env.sq) Kind.realOf false M f hf
  case phase => exact mapField_accepts (fun z => ⟨env.arg z, 0⟩) (fun _ => .float) false M f hf
  case unegative => exact ufunc1_accepts GQ.neg id M hM f hf
  case upositive => exact ufunc1_accepts id id M hM f hf
  case uabsolute => exact ufunc1_accepts (GQ.abs env.sq) Kind.realOf M hM f hf
  case usquare => exact ufunc1_accepts (fun z => GQ.mul z z) id M hM f hf
  case uconjugate => exact ufunc1_accepts GQ.conj id M hM f hf
  case usign => exact ufunc1_accepts (GQ.sign env.sq) id M hM f hf

/-! ## binary steps on evaluated operands -/

theorem rawFits_of_meta (f g : CF) (od : Opd) (h : RawFits f.mesh.n f.nvdim od) (hm : g.mesh = f.mesh)
    (hn : g.nvdim = f.nvdim) : RawFits g.mesh.n g.nvdim od := by
  rw [hm, hn]; exact h

/-- elementwise operator or `**`, field on the left, field on the right -/
theorem applyBin_arith_ff (env : Env) (b : BinOp) (hb : isArith b = true) (M : Mesh) (hM : MeshOk M) (f o : CF)
    (hf : Good M f) (ho : Good M o) (d : Nat) (hd : bdim f.nvdim o.nvdim = some d) :
    ∃ g, applyBin env b (.fld f) (.fld o) = .ok (.fld g) ∧ Good M g ∧ g.nvdim = d ∧
      g.vdims = (metaSrc f o).vdims ∧ g.vmap = (metaSrc f o).vmap ∧ g.unit = none ∧
      g.kind = (f.kind.join o.kind).ctor := by
  obtain ⟨g, h, hg, h1, h2, h3, h4, h5⟩ :=
    applyOperator_fld_accepts (binFn b) (isPow b) M hM f o hf ho d hd
      (by cases b <;> simp [isArith] at hb <;> exact negIntPow_false _ _ _)
  refine ⟨g, ?_, hg, h1, h2, h3, h4, h5⟩
  cases b <;> simp [isArith] at hb <;> simp only [applyBin, forwardOp, h]

/-- elementwise operator or `**`, field on the left, number / vector / array on the right -/
theorem applyBin_arith_fr (env : Env) (b : BinOp) (od : Opd)
    (hb : isArith b = true ∨ (b = .pow ∧ PowOk od)) (M : Mesh) (f : CF)
    (hf : Good M f) (hfit : RawFits f.mesh.n f.nvdim od) :
    ∃ g, applyBin env b (.fld f) (.raw od) = .ok (.fld g) ∧ Good M g ∧ g.nvdim = f.nvdim ∧
      g.vdims = f.vdims ∧ g.vmap = f.vmap ∧ g.unit = none ∧ g.kind = (f.kind.join (rawKind od)).ctor := by
  have hpw : negIntPow (isPow b) f.kind (rawKind od) (rawArr od) = false := by
    rcases hb with hb | ⟨_, hb⟩
    · cases b <;> simp [isArith] at hb <;> exact negIntPow_false _ _ _
    · exact negIntPow_powOk _ _ _ hb
  obtain ⟨g, h, hg, h1, h2, h3, h4, h5⟩ := applyOperator_raw_accepts (binFn b) (isPow b) M f hf od hfit hpw
  refine ⟨g, ?_, hg, h1, h2, h3, h4, h5⟩
  rcases hb with hb | ⟨hb, _⟩
  · cases b <;> simp [isArith] at hb <;> simp only [applyBin, forwardOp, h]
  · subst hb; simp only [applyBin, forwardOp, h]

/-- elementwise operator with the number / vector / array on the left: the reflected
methods for plain Python operands, `__array_ufunc__` for NumPy ones -/
theorem applyBin_arith_rf (env : Env) (b : BinOp) (hb : isArith b = true) (M : Mesh) (hM : MeshOk M) (f : CF)
    (hf : Good M f) (od : Opd) (hfit : RawFits f.mesh.n f.nvdim od) :
    ∃ g, applyBin env b (.raw od) (.fld f) = .ok (.fld g) ∧ Good M g ∧ g.nvdim = f.nvdim ∧
      g.vdims = f.vdims ∧ g.vmap = f.vmap ∧ g.unit = none ∧ g.kind = (f.kind.join (rawKind od)).ctor := by
  by_cases hnp : isNp od = true
  · have hu : UfuncOpd od := by
      cases od with
      | num z k np => trivial
      | arr a k np => exact hnp
    obtain ⟨g, h, hg, h1, h2, h3, h4, h5⟩ := ufunc2_rf_accepts (binFn b) (isPow b) M hM f hf od hfit hu
      (by cases b <;> simp [isArith] at hb <;> exact negIntPow_false _ _ _)
    refine ⟨g, ?_, hg, h1, h2, h3, h4, by rw [h5, Kind.join_comm]⟩
    cases b <;> simp [isArith] at hb <;> simp only [applyBin, hnp, if_true, h]
  · have hnp' : isNp od = false := by simpa using hnp
    cases b <;> simp [isArith] at hb
    case add =>
      obtain ⟨g, h, hg, h1, h2, h3, h4, h5⟩ :=
        applyOperator_raw_accepts GQ.add false M f hf od hfit (negIntPow_false _ _ _)
      exact ⟨g, by simp only [applyBin, hnp', Bool.false_eq_true, if_false, reflectedOp, h], hg, h1, h2, h3, h4, h5⟩
    case mul =>
      obtain ⟨g, h, hg, h1, h2, h3, h4, h5⟩ :=
        applyOperator_raw_accepts GQ.mul false M f hf od hfit (negIntPow_false _ _ _)
      exact ⟨g, by simp only [applyBin, hnp', Bool.false_eq_true, if_false, reflectedOp, h], hg, h1, h2, h3, h4, h5⟩
    case div =>
      obtain ⟨g, h, hg, h1, h2, h3, h4, h5⟩ :=
        applyOperator_raw_accepts (fun x y => GQ.div y x) false M f hf od hfit (negIntPow_false _ _ _)
      exact ⟨g, by simp only [applyBin, hnp', Bool.false_eq_true, if_false, reflectedOp, h], hg, h1, h2, h3, h4, h5⟩
    case sub =>
      obtain ⟨g0, h0, hg0, hn0, hvd0, hvm0, _, hk0⟩ := mapField_accepts GQ.neg id false M f hf
      have hfit0 : RawFits g0.mesh.n g0.nvdim od := rawFits_of_meta f g0 od hfit (by rw [hg0.2.2, hf.2.2]) hn0
      obtain ⟨g, h, hg, h1, h2, h3, h4, h5⟩ :=
        applyOperator_raw_accepts GQ.add false M g0 hg0 od hfit0 (negIntPow_false _ _ _)
      refine ⟨g, ?_, hg, by rw [h1, hn0], by rw [h2, hvd0], by rw [h3, hvm0], h4,
        by rw [h5, hk0]; exact Kind.join_ctor_left _ _⟩
      simp only [applyBin, hnp', Bool.false_eq_true, if_false, reflectedOp, h0, h]

/-- binary ufunc call on two fields -/
theorem applyBin_ufunc_ff (env : Env) (b : BinOp) (hb : isUArith b = true) (M : Mesh) (hM : MeshOk M) (f o : CF)
    (hf : Good M f) (ho : Good M o) (hd : bdim f.nvdim o.nvdim = some f.nvdim) :
    ∃ g, applyBin env b (.fld f) (.fld o) = .ok (.fld g) ∧ Good M g ∧ g.nvdim = f.nvdim ∧
      g.vdims = f.vdims ∧ g.vmap = f.vmap ∧ g.unit = none ∧ g.kind = (f.kind.join o.kind).ctor := by
  obtain ⟨g, h, hg, h1, h2, h3, h4, h5⟩ := ufunc2_ff_accepts (binFn b) (isPow b) M hM f o hf ho hd
    (by cases b <;> simp [isUArith] at hb <;> exact negIntPow_false _ _ _)
  refine ⟨g, ?_, hg, h1, h2, h3, h4, h5⟩
  cases b <;> simp [isUArith] at hb <;> simp only [applyBin, h]

/-- binary ufunc call, field first -/
theorem applyBin_ufunc_fr (env : Env) (b : BinOp) (od : Opd)
    (hb : isUArith b = true ∨ (b = .upow ∧ PowOk od)) (M : Mesh) (hM : MeshOk M) (f : CF)
    (hf : Good M f) (hfit : RawFits f.mesh.n f.nvdim od) (hu : UfuncOpd od) :
    ∃ g, applyBin env b (.fld f) (.raw od) = .ok (.fld g) ∧ Good M g ∧ g.nvdim = f.nvdim ∧
      g.vdims = f.vdims ∧ g.vmap = f.vmap ∧ g.unit = none ∧ g.kind = (f.kind.join (rawKind od)).ctor := by
  have hpw : negIntPow (isPow b) f.kind (rawKind od) (rawArr od) = false := by
    rcases hb with hb | ⟨_, hb⟩
    · cases b <;> simp [isUArith] at hb <;> exact negIntPow_false _ _ _
    · exact negIntPow_powOk _ _ _ hb
  obtain ⟨g, h, hg, h1, h2, h3, h4, h5⟩ := ufunc2_fr_accepts (binFn b) (isPow b) M hM f hf od hfit hu hpw
  refine ⟨g, ?_, hg, h1, h2, h3, h4, h5⟩
  rcases hb with hb | ⟨hb, _⟩
  · cases b <;> simp [isUArith] at hb <;> simp only [applyBin, h]
  · subst hb; simp only [applyBin, h]

/-- binary ufunc call, number / NumPy array first -/
theorem applyBin_ufunc_rf (env : Env) (b : BinOp) (hb : isUArith b = true) (M : Mesh) (hM : MeshOk M) (f : CF)
    (hf : Good M f) (od : Opd) (hfit : RawFits f.mesh.n f.nvdim od) (hu : UfuncOpd od) :
    ∃ g, applyBin env b (.raw od) (.fld f) = .ok (.fld g) ∧ Good M g ∧ g.nvdim = f.nvdim ∧
      g.vdims = f.vdims ∧ g.vmap = f.vmap ∧ g.unit = none ∧ g.kind = (f.kind.join (rawKind od)).ctor := by
  obtain ⟨g, h, hg, h1, h2, h3, h4, h5⟩ := ufunc2_rf_accepts (binFn b) (isPow b) M hM f hf od hfit hu
    (by cases b <;> simp [isUArith] at hb <;> exact negIntPow_false _ _ _)
  refine ⟨g, ?_, hg, h1, h2, h3, h4, by rw [h5, Kind.join_comm]⟩
  cases b <;> simp [isUArith] at hb <;> simp only [applyBin, h]

/-- `@` with a plain list / tuple on the left is `self.dot(other)` -/
theorem applyBin_dot_rf (env : Env) (M : Mesh) (f : CF) (hf : Good M f) (a : NDA GQ) (k : Kind)
    (hfit : RawFits f.mesh.n f.nvdim (.arr a k false)) :
    ∃ g, applyBin env .dot (.raw (.arr a k false)) (.fld f) = .ok (.fld g) ∧ Good M g ∧ g.nvdim = 1 ∧
      g.vdims = none ∧ g.vmap = [] ∧ g.unit = none ∧ g.kind = (f.kind.join k).ctor := by
  obtain ⟨g, h, hg, h1, h2, h3, h4, h5⟩ := dotOp_raw_accepts M f hf a k false hfit
  exact ⟨g, by simp only [applyBin, isNp, Bool.false_eq_true, if_false, reflectedOp, h], hg, h1, h2, h3, h4, h5⟩

/-- `&` with a plain list / tuple on the left is `-self.cross(other)` -/
theorem applyBin_cross_rf (env : Env) (M : Mesh) (hM : MeshOk M) (f : CF) (hf : Good M f) (h3 : f.nvdim = 3)
    (a : NDA GQ) (k : Kind) (hfit : RawFits f.mesh.n f.nvdim (.arr a k false)) :
    ∃ g, applyBin env .cross (.raw (.arr a k false)) (.fld f) = .ok (.fld g) ∧ Good M g ∧ g.nvdim = 3 ∧
      g.vdims = f.vdims ∧ vmapSet 3 M.region.ndim f.vdims M.region.dims none = .ok g.vmap ∧ g.unit = none ∧
      g.kind = (f.kind.join k).ctor := by
  obtain ⟨g0, h0, hg0, hn0, hvd0, hvm0, _, hk0⟩ := crossOp_raw_accepts M hM f hf h3 a k false hfit
  obtain ⟨g, h, hg, h1, h2, h3', h4, h5⟩ := mapField_accepts GQ.neg id false M g0 hg0
  refine ⟨g, ?_, hg, by rw [h1, hn0], by rw [h2, hvd0], by rw [h3']; exact hvm0, h4,
    by rw [h5, hk0]; exact Kind.ctor_ctor _⟩
  simp only [applyBin, isNp, Bool.false_eq_true, if_false, reflectedOp, h0, h]

/-- `<<` between two fields -/
theorem applyBin_shl_ff (env : Env) (M : Mesh) (hM : MeshOk M) (f o : CF) (hf : Good M f) (ho : Good M o) :
    ∃ g, applyBin env .shl (.fld f) (.fld o) = .ok (.fld g) ∧ Good M g ∧ g.nvdim = f.nvdim + o.nvdim ∧
      g.unit = none ∧ g.vdims = shlLabels f.vdims o.vdims (f.nvdim + o.nvdim) ∧
      (if (dictUpdate f.vmap o.vmap).length = f.nvdim + o.nvdim then g.vmap = dictUpdate f.vmap o.vmap
       else vmapSet (f.nvdim + o.nvdim) M.region.ndim g.vdims M.region.dims none = .ok g.vmap) ∧
      g.kind = (f.kind.join o.kind).ctor := by
  obtain ⟨g, h, hrest⟩ := shlFF_accepts M hM f o hf ho
  exact ⟨g, by simp only [applyBin, forwardOp, shlOp, h], hrest⟩

/-- `.angle` between two fields -/
theorem applyBin_angle_ff (env : Env) (M : Mesh) (hM : MeshOk M) (f o : CF) (hf : Good M f) (ho : Good M o)
    (hn : f.nvdim = o.nvdim) :
    ∃ g, applyBin env .angle (.fld f) (.fld o) = .ok (.fld g) ∧ Good M g ∧ g.nvdim = 1 ∧ g.vdims = none ∧
      g.vmap = [] ∧ g.unit = some "rad" ∧ g.kind = .float := by
  obtain ⟨g, h, hrest⟩ := angleOp_fld_accepts env.sq env.acos M hM f o hf ho hn
  exact ⟨g, by simp only [applyBin, forwardOp, h], hrest⟩

/-! ## the typing judgment -/

/-- **static typing of expression trees** over the fields of `env` (all on the mesh `M`):
`HasTy env M e t` predicts component count, labels, mapping, unit and dtype kind of `e`'s value.
Covers leaves, all unary operations, `+ - * /` (two fields with equal counts or one scalar
field; number / constant vector of matching length / per-cell array on either side, plain
or NumPy), `**` with a number / vector / array / field exponent and `NumPy number ** field`,
`dot` and `cross` (two fields, or a vector / array on either side), `<<` between fields and
with a number / constant vector on either side, `angle` with a field / number / vector /
per-cell array, and the binary ufunc calls incl. `np.power` with the field in either
position and an unlabelled scalar field first with a vector field second. -/
inductive HasTy (env : Env) (M : Mesh) : Expr → Ty → Prop
  | leaf (k : Nat) (f : CF) : env.fields[k]? = some f → HasTy env M (.leaf k) (tyOf f)
  | un (u : UnOp) (e : Expr) (t : Ty) : HasTy env M e t → HasTy env M (.un u e) (unTy u t)
  | arithFF (b : BinOp) (l r : Expr) (tl tr : Ty) (d : Nat) : isArith b = true →
      HasTy env M l tl → HasTy env M r tr → bdim tl.nv tr.nv = some d →
      HasTy env M (.bin b l r)
        ((if tl.nv = 1 ∧ 1 < tr.nv then tr else tl).res (tl.kind.join tr.kind).ctor)
  | arithFR (b : BinOp) (l : Expr) (od : Opd) (t : Ty) : (isArith b = true ∨ (b = .pow ∧ PowOk od)) →
      HasTy env M l t → RawFits M.n t.nv od →
      HasTy env M (.bin b l (.opd od)) (t.res (t.kind.join (rawKind od)).ctor)
  | arithRF (b : BinOp) (od : Opd) (r : Expr) (t : Ty) : isArith b = true →
      HasTy env M r t → RawFits M.n t.nv od →
      HasTy env M (.bin b (.opd od) r) (t.res (t.kind.join (rawKind od)).ctor)
  | dotFF (l r : Expr) (tl tr : Ty) : HasTy env M l tl → HasTy env M r tr → tl.nv = tr.nv →
      HasTy env M (.bin .dot l r) ⟨1, none, [], none, (tl.kind.join tr.kind).ctor⟩
  | dotFR (l : Expr) (a : NDA GQ) (k : Kind) (np : Bool) (t : Ty) : HasTy env M l t →
      RawFits M.n t.nv (.arr a k np) →
      HasTy env M (.bin .dot l (.opd (.arr a k np))) ⟨1, none, [], none, (t.kind.join k).ctor⟩
  | dotRF (a : NDA GQ) (k : Kind) (r : Expr) (t : Ty) : HasTy env M r t →
      RawFits M.n t.nv (.arr a k false) →
      HasTy env M (.bin .dot (.opd (.arr a k false)) r) ⟨1, none, [], none, (t.kind.join k).ctor⟩
  | crossFF (l r : Expr) (tl tr : Ty) (m : VMap) : HasTy env M l tl → HasTy env M r tr → tl.nv = 3 → tr.nv = 3 →
      vmapSet 3 M.region.ndim tl.vdims M.region.dims none = .ok m →
      HasTy env M (.bin .cross l r) ⟨3, tl.vdims, m, none, (tl.kind.join tr.kind).ctor⟩
  | crossFR (l : Expr) (a : NDA GQ) (k : Kind) (np : Bool) (t : Ty) (m : VMap) : HasTy env M l t → t.nv = 3 →
      RawFits M.n t.nv (.arr a k np) →
      vmapSet 3 M.region.ndim t.vdims M.region.dims none = .ok m →
      HasTy env M (.bin .cross l (.opd (.arr a k np))) ⟨3, t.vdims, m, none, (t.kind.join k).ctor⟩
  | crossRF (a : NDA GQ) (k : Kind) (r : Expr) (t : Ty) (m : VMap) : HasTy env M r t → t.nv = 3 →
      RawFits M.n t.nv (.arr a k false) →
      vmapSet 3 M.region.ndim t.vdims M.region.dims none = .ok m →
      HasTy env M (.bin .cross (.opd (.arr a k false)) r) ⟨3, t.vdims, m, none, (t.kind.join k).ctor⟩
  | shlFF (l r : Expr) (tl tr : Ty) (m : VMap) : HasTy env M l tl → HasTy env M r tr →
      (if (dictUpdate tl.vmap tr.vmap).length = tl.nv + tr.nv then m = dictUpdate tl.vmap tr.vmap
       else vmapSet (tl.nv + tr.nv) M.region.ndim (shlLabels tl.vdims tr.vdims (tl.nv + tr.nv)) M.region.dims none
              = .ok m) →
      HasTy env M (.bin .shl l r)
        ⟨tl.nv + tr.nv, shlLabels tl.vdims tr.vdims (tl.nv + tr.nv), m, none, (tl.kind.join tr.kind).ctor⟩
  | angleFF (l r : Expr) (tl tr : Ty) : HasTy env M l tl → HasTy env M r tr → tl.nv = tr.nv →
      HasTy env M (.bin .angle l r) ⟨1, none, [], some "rad", .float⟩
  | ufuncFF (b : BinOp) (l r : Expr) (tl tr : Ty) : isUArith b = true →
      HasTy env M l tl → HasTy env M r tr → bdim tl.nv tr.nv = some tl.nv →
      HasTy env M (.bin b l r) (tl.res (tl.kind.join tr.kind).ctor)
  | ufuncFR (b : BinOp) (l : Expr) (od : Opd) (t : Ty) : (isUArith b = true ∨ (b = .upow ∧ PowOk od)) →
      HasTy env M l t → RawFits M.n t.nv od → UfuncOpd od →
      HasTy env M (.bin b l (.opd od)) (t.res (t.kind.join (rawKind od)).ctor)
  | ufuncRF (b : BinOp) (od : Opd) (r : Expr) (t : Ty) : isUArith b = true →
      HasTy env M r t → RawFits M.n t.nv od → UfuncOpd od →
      HasTy env M (.bin b (.opd od) r) (t.res (t.kind.join (rawKind od)).ctor)
  | powFF (l r : Expr) (tl tr : Ty) (d : Nat) : HasTy env M l tl → HasTy env M r tr →
      bdim tl.nv tr.nv = some d → (tl.kind ≠ .int ∨ tr.kind ≠ .int) →
      HasTy env M (.bin .pow l r)
        ((if tl.nv = 1 ∧ 1 < tr.nv then tr else tl).res (tl.kind.join tr.kind).ctor)
  | powRF (od : Opd) (r : Expr) (t : Ty) : HasTy env M r t → RawFits M.n t.nv od → UfuncOpd od →
      isNp od = true → (rawKind od ≠ .int ∨ t.kind ≠ .int) →
      HasTy env M (.bin .pow (.opd od) r) (t.res (t.kind.join (rawKind od)).ctor)
  | upowFF (l r : Expr) (tl tr : Ty) : HasTy env M l tl → HasTy env M r tr →
      bdim tl.nv tr.nv = some tl.nv → (tl.kind ≠ .int ∨ tr.kind ≠ .int) →
      HasTy env M (.bin .upow l r) (tl.res (tl.kind.join tr.kind).ctor)
  | upowRF (od : Opd) (r : Expr) (t : Ty) : HasTy env M r t → RawFits M.n t.nv od → UfuncOpd od →
      (rawKind od ≠ .int ∨ t.kind ≠ .int) →
      HasTy env M (.bin .upow (.opd od) r) (t.res (t.kind.join (rawKind od)).ctor)
  | ufuncSF (b : BinOp) (l r : Expr) (tl tr : Ty) : isUfuncBin b = true →
      HasTy env M l tl → HasTy env M r tr → tl.nv = 1 → 1 < tr.nv → tl.vdims = none →
      (isPow b = true → tl.kind ≠ .int ∨ tr.kind ≠ .int) →
      HasTy env M (.bin b l r) ⟨tr.nv, Fld.defaultVdims tr.nv, [], none, (tl.kind.join tr.kind).ctor⟩
  | shlFR (l : Expr) (od : Opd) (t : Ty) : HasTy env M l t → LiftFits M.n od →
      HasTy env M (.bin .shl l (.opd od)) (shlTy M t (liftTy M od))
  | shlRF (od : Opd) (r : Expr) (t : Ty) : HasTy env M r t → LiftFits M.n od → isNp od = false →
      HasTy env M (.bin .shl (.opd od) r) (shlTy M (liftTy M od) t)
  | angleFR (l : Expr) (od : Opd) (t : Ty) : HasTy env M l t → AngleFits M.n t.nv od →
      HasTy env M (.bin .angle l (.opd od)) ⟨1, none, [], some "rad", .float⟩

end DFV.C03
