import DFV.Lemmas.C01
import DFV.Model.C01
/-! C01 helper lemmas, round 2: `Mesh.indices` has every in-range index exactly once and steps
like an odometer whose first wheel is the fastest; the reshape/broadcast of
`coordinate_field` reads entry `idx[i]` of the list of centres of axis `i`. -/
namespace DFV.C01
open DFV DFV.Mesh

theorem natProd_pos_iff (ns : List Nat) : 0 < natProd ns ↔ ∀ n ∈ ns, 0 < n := by
  induction ns with
  | nil => simp [natProd]
  | cons n ns ih =>
    simp only [natProd, List.mem_cons, forall_eq_or_imp]
    rw [← ih]
    constructor
    · intro h
      have h1 : n ≠ 0 := by rintro rfl; simp at h
      have h2 : natProd ns ≠ 0 := by intro e; rw [e] at h; simp at h
      omega
    · rintro ⟨a, b⟩; exact Nat.mul_pos a b

theorem mem_indicesF_iff (ns i : List Nat) : i ∈ indicesF ns ↔ inRange ns i = true := by
  unfold indicesF
  rw [List.mem_map]
  constructor
  · rintro ⟨k, hk, e⟩
    rw [List.mem_range] at hk
    have hpos : ∀ n ∈ ns, 0 < n := (natProd_pos_iff ns).mp (by omega)
    rw [← e]
    exact unflatF_inRange ns k hpos
  · intro h
    exact ⟨flatF ns i, List.mem_range.mpr (flatF_lt ns i h), unflatF_flatF ns i h⟩

theorem indicesF_nodup (ns : List Nat) : (indicesF ns).Nodup := by
  unfold indicesF List.Nodup
  rw [List.pairwise_map]
  have := List.nodup_range (n := natProd ns)
  unfold List.Nodup at this
  rw [List.pairwise_iff_getElem] at *
  intro i j hi hj hij e
  simp only [List.getElem_range] at e
  simp only [List.length_range] at hi hj
  have h1 := flatF_unflatF ns i hi
  have h2 := flatF_unflatF ns j hj
  rw [e] at h1
  omega

/-- the iteration order is the odometer order, first wheel fastest -/
theorem unflatF_succ (ns : List Nat) (h : ∀ n ∈ ns, 0 < n) (k : Nat) :
    unflatF ns (k + 1) = succF ns (unflatF ns k) := by
  induction ns generalizing k with
  | nil => simp [unflatF, succF]
  | cons n ns ih =>
    have hn : 0 < n := h n (by simp)
    simp only [unflatF, succF]
    by_cases hc : k % n + 1 < n
    · rw [if_pos hc]
      have h1 : (k + 1) % n = k % n + 1 := by
        rw [Nat.add_mod]
        by_cases h1n : n = 1
        · subst h1n; omega
        · have : 1 % n = 1 := Nat.mod_eq_of_lt (by omega)
          rw [this, Nat.mod_eq_of_lt hc]
      have h2 : (k + 1) / n = k / n := by
        have hk := Nat.div_add_mod k n
        have : k + 1 = n * (k / n) + (k % n + 1) := by omega
        rw [this, Nat.mul_add_div hn, Nat.div_eq_of_lt hc]; simp
      rw [h1, h2]
    · rw [if_neg hc]
      have hm : k % n = n - 1 := by have := Nat.mod_lt k hn; omega
      have hk := Nat.div_add_mod k n
      have e : k + 1 = n * (k / n + 1) := by
        rw [Nat.mul_add, Nat.mul_one]; omega
      have h1 : (k + 1) % n = 0 := by rw [e]; exact Nat.mul_mod_right _ _
      have h2 : (k + 1) / n = k / n + 1 := by rw [e]; exact Nat.mul_div_cancel_left _ hn
      rw [h1, h2, ih (fun m hm => h m (by simp [hm]))]

/-! ### reshape + broadcast of the coordinate field -/

theorem natProd_ones (s : List Nat) (h : ∀ x ∈ s, x = 1) : natProd s = 1 := by
  induction s with
  | nil => rfl
  | cons x xs ih =>
    simp only [natProd]
    rw [h x (by simp), ih fun y hy => h y (by simp [hy])]

theorem flatC_zeros (s x : List Nat) (h : ∀ y ∈ x, y = 0) : flatC s x = 0 := by
  induction s generalizing x with
  | nil => simp [flatC]
  | cons n ns ih =>
    cases x with
    | nil => simp [flatC]
    | cons y ys =>
      simp only [flatC]
      rw [h y (by simp), ih ys fun z hz => h z (by simp [hz])]
      simp

/-- an index that is zero off axis `i`, into a shape that is 1 behind axis `i`, has C-order
position `x[i]` -/
theorem flatC_single (s x : List Nat) (i : Nat) (hl : s.length = x.length) (hi : i < s.length)
    (hs : ∀ j, i < j → j < s.length → s.getD j 0 = 1)
    (hx : ∀ j, j ≠ i → j < x.length → x.getD j 0 = 0) : flatC s x = x.getD i 0 := by
  induction s generalizing x i with
  | nil => simp at hi
  | cons n ns ih =>
    cases x with
    | nil => simp at hl
    | cons y ys =>
      simp only [flatC]
      cases i with
      | zero =>
        have h1 : natProd ns = 1 := by
          apply natProd_ones
          intro z hz
          obtain ⟨j, hj, e⟩ := List.getElem_of_mem hz
          have := hs (j + 1) (by omega) (by simpa using hj)
          simp [List.getD_eq_getElem?_getD, List.getElem?_eq_getElem hj] at this
          rw [← e]; exact this
        have h2 : flatC ns ys = 0 := by
          apply flatC_zeros
          intro z hz
          obtain ⟨j, hj, e⟩ := List.getElem_of_mem hz
          have := hx (j + 1) (by omega) (by simpa using hj)
          simp [List.getD_eq_getElem?_getD, List.getElem?_eq_getElem hj] at this
          rw [← e]; exact this
        rw [h1, h2]; simp
      | succ i' =>
        have hy : y = 0 := by
          have := hx 0 (by omega) (by simp)
          simpa using this
        rw [hy]
        simp only [Nat.zero_mul, Nat.zero_add, List.getD_cons_succ]
        apply ih ys i' (by simpa using hl) (by simpa using hi)
        · intro j hj hjl
          have := hs (j + 1) (by omega) (by simpa using hjl)
          simpa using this
        · intro j hj hjl
          have := hx (j + 1) (by omega) (by simpa using hjl)
          simpa using this

/-- the position read by the reshape/broadcast of `coordinate_field` is `idx[i]` -/
theorem coord_position (m : Mesh) (idx : List Nat) (i : Nat) (hi : i < m.ndim)
    (hidx : idx.getD i 0 < m.nAt i) :
    flatC (m.coordShape i) (coordBcast (m.coordShape i) idx) = idx.getD i 0 := by
  have hsl : (m.coordShape i).length = m.ndim := by simp [coordShape]
  have hg : ∀ j, j < m.ndim → (m.coordShape i).getD j 0 = if i = j then m.nAt i else 1 := by
    intro j hj; unfold coordShape; rw [getD_tab _ _ _ _ hj]
  rw [flatC_single (m.coordShape i) (coordBcast (m.coordShape i) idx) i (by simp [coordBcast]) (by rw [hsl]; exact hi)]
  · unfold coordBcast
    rw [hsl, getD_tab _ _ _ _ hi, hg i hi, if_pos rfl]
    split
    · omega
    · rfl
  · intro j hij hj
    rw [hsl] at hj
    rw [hg j hj, if_neg (by omega)]
  · intro j hij hj
    have hj' : j < m.ndim := by simpa [coordBcast, hsl] using hj
    unfold coordBcast
    rw [hsl, getD_tab _ _ _ _ hj', hg j hj', if_neg (show ¬ i = j from fun e => hij e.symm), if_pos rfl]

end DFV.C01
