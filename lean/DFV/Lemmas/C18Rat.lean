import DFV.Model.C18Ext
import DFV.Lemmas.C18Algebra
import Mathlib.Tactic.LinearCombination
/-! Rational rotations that are not quarter turns (C18): plane rotations with rational cosine and
sine, Euler sequences of them, Rodrigues' formula. -/
namespace DFV.C18
open DFV

theorem pq_cases (p q : Nat) (hp : p < 3) (hq : q < 3) (hpq : p ≠ q) :
    (p = 0 ∧ q = 1) ∨ (p = 0 ∧ q = 2) ∨ (p = 1 ∧ q = 0) ∨ (p = 1 ∧ q = 2) ∨ (p = 2 ∧ q = 0) ∨ (p = 2 ∧ q = 1) := by omega

theorem a_cases (a : Nat) (ha : a < 3) : a = 0 ∨ a = 1 ∨ a = 2 := by omega

/-- every plane rotation with `c² + s² = 1` is a proper rotation -/
theorem Rcs_isRot (p q : Nat) (hp : p < 3) (hq : q < 3) (hpq : p ≠ q) (c s : Rat) (h : c * c + s * s = 1) :
    (Rcs p q c s).IsRot := by
  rcases pq_cases p q hp hq hpq with ⟨rfl, rfl⟩ | ⟨rfl, rfl⟩ | ⟨rfl, rfl⟩ | ⟨rfl, rfl⟩ | ⟨rfl, rfl⟩ | ⟨rfl, rfl⟩ <;>
  · constructor
    · simp [Rcs, M3.ofFn, M3.tr, M3.mul, M3.apply, V3.dot, M3.one]
      repeat' constructor
      all_goals first | linear_combination h | ring
    · simp [Rcs, M3.ofFn, M3.det]
      linear_combination h

theorem Rcs_tr (p q : Nat) (hp : p < 3) (hq : q < 3) (hpq : p ≠ q) (c s : Rat) :
    Rcs p q c (-s) = (Rcs p q c s).tr := by
  rcases pq_cases p q hp hq hpq with ⟨rfl, rfl⟩ | ⟨rfl, rfl⟩ | ⟨rfl, rfl⟩ | ⟨rfl, rfl⟩ | ⟨rfl, rfl⟩ | ⟨rfl, rfl⟩ <;>
    simp [Rcs, M3.ofFn, M3.tr]

theorem Rcs_one (p q : Nat) (hp : p < 3) (hq : q < 3) (hpq : p ≠ q) : Rcs p q 1 0 = M3.one := by
  rcases pq_cases p q hp hq hpq with ⟨rfl, rfl⟩ | ⟨rfl, rfl⟩ | ⟨rfl, rfl⟩ | ⟨rfl, rfl⟩ | ⟨rfl, rfl⟩ | ⟨rfl, rfl⟩ <;>
    simp [Rcs, M3.ofFn, M3.one]

/-- the opposite orientation of the plane is the opposite angle -/
theorem Rcs_swap (p q : Nat) (hp : p < 3) (hq : q < 3) (hpq : p ≠ q) (c s : Rat) : Rcs q p c s = Rcs p q c (-s) := by
  rcases pq_cases p q hp hq hpq with ⟨rfl, rfl⟩ | ⟨rfl, rfl⟩ | ⟨rfl, rfl⟩ | ⟨rfl, rfl⟩ | ⟨rfl, rfl⟩ | ⟨rfl, rfl⟩ <;>
    simp [Rcs, M3.ofFn]

theorem pyth_unit (m n : Rat) (h : m * m + n * n ≠ 0) : pythC m n * pythC m n + pythS m n * pythS m n = 1 := by
  unfold pythC pythS
  rw [div_mul_div_comm, div_mul_div_comm, ← add_div, div_eq_one_iff_eq (mul_ne_zero h h)]
  ring

/-- every rational point of the unit circle except `(−1, 0)` is a Pythagorean pair: the family
`pythC / pythS` is ALL rational angles -/
theorem pyth_complete (c s : Rat) (h : c * c + s * s = 1) (hc : c ≠ -1) : c = pythC (1 + c) s ∧ s = pythS (1 + c) s := by
  have hd : (1 + c) * (1 + c) + s * s = 2 * (1 + c) := by linear_combination h
  have h1 : (1 + c) ≠ 0 := fun e => hc (by linarith)
  have hne : (2 : Rat) * (1 + c) ≠ 0 := mul_ne_zero (by norm_num) h1
  unfold pythC pythS
  rw [hd]
  constructor
  · rw [eq_div_iff hne]; linear_combination h
  · rw [eq_div_iff hne]; ring

theorem RaxisCS_isRot (a : Nat) (c s : Rat) (h : c * c + s * s = 1) : (RaxisCS a c s).IsRot :=
  Rcs_isRot _ _ (Nat.mod_lt _ (by omega)) (Nat.mod_lt _ (by omega)) (by omega) c s h

/-- the rotation about a coordinate axis by a Pythagorean angle is the rotation of the half-angle
quaternion `m + n·e_a` -/
theorem RaxisCS_eq_ofQuat (a : Nat) (ha : a < 3) (m n : Rat) (h : m * m + n * n ≠ 0) :
    RaxisCS a (pythC m n) (pythS m n)
      = M3.ofQuat m (if a = 0 then n else 0) (if a = 1 then n else 0) (if a = 2 then n else 0) := by
  rcases a_cases a ha with rfl | rfl | rfl <;>
  · simp [RaxisCS, Rcs, M3.ofFn, M3.ofQuat, pythC, pythS]
    refine ⟨?_, ?_, ?_⟩ <;> first | (rw [div_self h]) | ring

theorem Raxis_eq_CS (a : Nat) (k : Int) : Raxis a k = RaxisCS a (T.cosq k) (T.sinq k) := rfl

/-! ## Euler sequences with rational cosines and sines -/

def UnitCS (seq : List (Nat × Rat × Rat)) : Prop := ∀ x ∈ seq, x.2.1 * x.2.1 + x.2.2 * x.2.2 = 1

theorem eulerCS_isRot (intr : Bool) (seq : List (Nat × Rat × Rat)) (h : UnitCS seq) : (eulerCS intr seq).IsRot := by
  induction seq with
  | nil => exact M3.isRot_one
  | cons x rest ih =>
    obtain ⟨a, c, s⟩ := x
    have hx := h (a, c, s) List.mem_cons_self
    have hr : UnitCS rest := fun y hy => h y (List.mem_cons_of_mem _ hy)
    unfold eulerCS
    cases intr
    · exact (ih hr).mul (RaxisCS_isRot a c s hx)
    · exact (RaxisCS_isRot a c s hx).mul (ih hr)

theorem eulerCS_append (intr : Bool) (s t : List (Nat × Rat × Rat)) :
    eulerCS intr (s ++ t) = if intr then (eulerCS intr s).mul (eulerCS intr t) else (eulerCS intr t).mul (eulerCS intr s) := by
  induction s with
  | nil => cases intr <;> simp [eulerCS, M3.one_mul, M3.mul_one]
  | cons x rest ih =>
    obtain ⟨a, c, sn⟩ := x
    cases intr
    · simp only [List.cons_append, eulerCS, Bool.false_eq_true, if_false] at ih ⊢
      rw [ih, M3.mul_assoc]
    · simp only [List.cons_append, eulerCS, if_true] at ih ⊢
      rw [ih, M3.mul_assoc]

theorem eulerCS_intrinsic_reverse (seq : List (Nat × Rat × Rat)) : eulerCS true seq = eulerCS false seq.reverse := by
  induction seq with
  | nil => rfl
  | cons x rest ih =>
    obtain ⟨a, c, s⟩ := x
    rw [List.reverse_cons, eulerCS_append]
    simp only [Bool.false_eq_true, if_false, eulerCS, if_true, M3.one_mul]
    rw [ih]

theorem eulerCS_extrinsic_prodL (seq : List (Nat × Rat × Rat)) :
    eulerCS false seq = prodL (seq.map fun x => RaxisCS x.1 x.2.1 x.2.2) := by
  induction seq with
  | nil => rfl
  | cons x rest ih =>
    obtain ⟨a, c, s⟩ := x
    simp only [eulerCS, Bool.false_eq_true, if_false, List.map_cons, prodL, ih]

theorem eulerQ_eq_CS (intr : Bool) (seq : List (Nat × Int)) :
    eulerQ intr seq = eulerCS intr (seq.map fun x => (x.1, T.cosq x.2, T.sinq x.2)) := by
  induction seq with
  | nil => rfl
  | cons x rest ih =>
    obtain ⟨a, k⟩ := x
    simp only [eulerQ, List.map_cons, eulerCS, ih, Raxis_eq_CS]

/-! ## Rodrigues' formula -/

theorem ofAxisAngle_isRot (u : V3) (c s : Rat) (hu : u.dot u = 1) (h : c * c + s * s = 1) : (ofAxisAngle u c s).IsRot := by
  obtain ⟨x, y, z⟩ := u
  simp only [V3.dot] at hu
  constructor
  · simp only [ofAxisAngle, M3.tr, M3.mul, M3.apply, V3.dot, M3.one, M3.mk.injEq, V3.mk.injEq]
    refine ⟨⟨?_, ?_, ?_⟩, ⟨?_, ?_, ?_⟩, ⟨?_, ?_, ?_⟩⟩
    · linear_combination (1 - x * x) * h + (s * s + x * x * (1 - c) * (1 - c)) * hu
    · linear_combination (-(x * y)) * h + (x * y * (1 - c) * (1 - c)) * hu
    · linear_combination (-(x * z)) * h + (x * z * (1 - c) * (1 - c)) * hu
    · linear_combination (-(y * x)) * h + (y * x * (1 - c) * (1 - c)) * hu
    · linear_combination (1 - y * y) * h + (s * s + y * y * (1 - c) * (1 - c)) * hu
    · linear_combination (-(y * z)) * h + (y * z * (1 - c) * (1 - c)) * hu
    · linear_combination (-(z * x)) * h + (z * x * (1 - c) * (1 - c)) * hu
    · linear_combination (-(z * y)) * h + (z * y * (1 - c) * (1 - c)) * hu
    · linear_combination (1 - z * z) * h + (s * s + z * z * (1 - c) * (1 - c)) * hu
  · have key : (ofAxisAngle ⟨x, y, z⟩ c s).det
        = (c + (1 - c) * (x * x + y * y + z * z)) * (c * c + s * s * (x * x + y * y + z * z)) := by
      simp only [ofAxisAngle, M3.det]; ring
    rw [key, hu]
    linear_combination h

/-- the axis is fixed -/
theorem ofAxisAngle_axis (u : V3) (c s : Rat) (hu : u.dot u = 1) : (ofAxisAngle u c s).apply u = u := by
  obtain ⟨x, y, z⟩ := u
  simp only [V3.dot] at hu
  simp only [ofAxisAngle, M3.apply, V3.dot, V3.mk.injEq]
  refine ⟨?_, ?_, ?_⟩
  · linear_combination ((1 - c) * x) * hu
  · linear_combination ((1 - c) * y) * hu
  · linear_combination ((1 - c) * z) * hu

/-- the trace is `1 + 2 cos θ` -/
theorem ofAxisAngle_trace (u : V3) (c s : Rat) (hu : u.dot u = 1) :
    (ofAxisAngle u c s).e 0 0 + (ofAxisAngle u c s).e 1 1 + (ofAxisAngle u c s).e 2 2 = 1 + 2 * c := by
  obtain ⟨x, y, z⟩ := u
  simp only [V3.dot] at hu
  simp only [ofAxisAngle, M3.e, M3.row, V3.get]
  linear_combination (1 - c) * hu

theorem ofAxisAngle_neg (u : V3) (c s : Rat) : ofAxisAngle u c (-s) = (ofAxisAngle u c s).tr := by
  simp only [ofAxisAngle, M3.tr, M3.mk.injEq, V3.mk.injEq]
  refine ⟨⟨?_, ?_, ?_⟩, ⟨?_, ?_, ?_⟩, ⟨?_, ?_, ?_⟩⟩ <;> first | trivial | ring

/-- opposite axis, opposite angle: the same rotation (`θ·u = (−θ)·(−u)`) -/
theorem ofAxisAngle_flip (u : V3) (c s : Rat) : ofAxisAngle ⟨-u.x, -u.y, -u.z⟩ c (-s) = ofAxisAngle u c s := by
  simp only [ofAxisAngle, M3.mk.injEq, V3.mk.injEq]
  refine ⟨⟨?_, ?_, ?_⟩, ⟨?_, ?_, ?_⟩, ⟨?_, ?_, ?_⟩⟩ <;> ring

/-- about a coordinate axis Rodrigues' formula is the plane rotation -/
theorem ofAxisAngle_coord (a : Nat) (ha : a < 3) (c s : Rat) :
    ofAxisAngle ⟨if a = 0 then 1 else 0, if a = 1 then 1 else 0, if a = 2 then 1 else 0⟩ c s = RaxisCS a c s := by
  rcases a_cases a ha with rfl | rfl | rfl <;>
    simp [ofAxisAngle, RaxisCS, Rcs, M3.ofFn]

/-- rotations about the same axis add their angles -/
theorem ofAxisAngle_mul (u : V3) (hu : u.dot u = 1) (c s c' s' : Rat) :
    (ofAxisAngle u c s).mul (ofAxisAngle u c' s') = ofAxisAngle u (c * c' - s * s') (s * c' + c * s') := by
  obtain ⟨x, y, z⟩ := u
  simp only [V3.dot] at hu
  simp only [ofAxisAngle, M3.tr, M3.mul, M3.apply, V3.dot, M3.mk.injEq, V3.mk.injEq]
  refine ⟨⟨?_, ?_, ?_⟩, ⟨?_, ?_, ?_⟩, ⟨?_, ?_, ?_⟩⟩
  · linear_combination (-(s * s') + (1 - c) * (1 - c') * (x * x)) * hu
  · linear_combination ((1 - c) * (1 - c') * (x * y)) * hu
  · linear_combination ((1 - c) * (1 - c') * (x * z)) * hu
  · linear_combination ((1 - c) * (1 - c') * (y * x)) * hu
  · linear_combination (-(s * s') + (1 - c) * (1 - c') * (y * y)) * hu
  · linear_combination ((1 - c) * (1 - c') * (y * z)) * hu
  · linear_combination ((1 - c) * (1 - c') * (z * x)) * hu
  · linear_combination ((1 - c) * (1 - c') * (z * y)) * hu
  · linear_combination (-(s * s') + (1 - c) * (1 - c') * (z * z)) * hu

/-- Rodrigues' matrix for the Pythagorean angle `(m, n)` about the unit axis `u` is the rotation of
the quaternion `m + n·u` -/
theorem ofAxisAngle_eq_ofQuat (u : V3) (hu : u.dot u = 1) (m n : Rat) (h : m * m + n * n ≠ 0) :
    ofAxisAngle u (pythC m n) (pythS m n) = M3.ofQuat m (n * u.x) (n * u.y) (n * u.z) := by
  obtain ⟨x, y, z⟩ := u
  simp only [V3.dot] at hu
  have hN : m * m + n * x * (n * x) + n * y * (n * y) + n * z * (n * z) = m * m + n * n := by
    linear_combination (n * n) * hu
  have h1c : 1 - pythC m n = 2 * n * n / (m * m + n * n) := by
    unfold pythC; rw [eq_div_iff h, sub_mul, div_mul_cancel₀ _ h]; ring
  simp only [ofAxisAngle, M3.ofQuat, hN, h1c, M3.mk.injEq, V3.mk.injEq]
  unfold pythC pythS
  refine ⟨⟨?_, ?_, ?_⟩, ⟨?_, ?_, ?_⟩, ⟨?_, ?_, ?_⟩⟩ <;> (rw [← sub_eq_zero]; field_simp)
  all_goals first | (simp; done) | (rw [div_eq_zero_iff]; left; linear_combination (n ^ 2) * hu)
end DFV.C18
