import DFV.Lemmas.C13StoreOwn
/-! C13 / C14 (round 3): the value model (`stepM`, `mkMesh?`, `setSubs` of `Transform.lean`) is a sound
abstraction of the store model — rejected in-place steps, the frame of accepted ones, the copying
form, the constructor and the setter. -/
namespace DFV.S
open DFV DFV.T DFV.C14

theorem good_mesh (s : Store) (hg : Good s) (mo : MeshObj) (hmem : mo ∈ s.meshes) :
    MeshOk s mo ∧ (absMesh s mo).Inv ∧ SubsProper (absMesh s mo) ∧ BcInv (absMesh s mo) := by
  obtain ⟨v1, v2, v3, v4, v5, v6⟩ := hg.2.2 mo hmem
  have hri := hg.1 _ v1
  refine ⟨⟨v1, fun p hp => (v2 p hp).2, nodup_of_flatMap _ _ hg.2.1 mo hmem, fun p hp => by have := (v2 p hp).1; omega⟩,
    ⟨hri, v3, fun a ha => DFV.C13.nAt_pos_of_mem (absMesh s mo) v3 v4 a ha⟩, ?_, v5⟩
  intro p hp
  obtain ⟨q, hq, e⟩ := List.mem_map.mp hp
  rw [← e]
  exact ⟨hg.1 _ (v2 q hq).2, v6 q hq⟩

/-- under `SubsProper`, the subregion steps of a mesh step are accepted whenever the region step is -/
theorem mapSubs_ok_of_region (m : Mesh) (hm : m.Inv) (hp : SubsProper m) (op : Op) (x r' : Region)
    (hreg : stepR m.region op = .ok (x, r')) : ∃ subs', mapSubs m.subs (fun c => stepR c (subOp m op)) = .ok subs' := by
  apply mapSubs_ok_of_all
  intro p hpm
  obtain ⟨hi, hd⟩ := hp p hpm
  apply stepR_wellformed p.2 hi
  have hn : p.2.ndim = m.region.ndim := by
    have a := hi.2.2.1
    have b := hm.1.2.2.1
    unfold Region.ndim; rw [← a, ← b, hd]
  rw [subOp_malformed_iff m p.2 hd hn]
  intro hmal
  obtain ⟨e, he⟩ := stepR_malformed m.region op hmal
  rw [hreg] at he; cases he

/-- **A rejected in-place mesh step changes nothing in the store** (good store): the value model
rejects only when the call on the REGION object raises — before anything is assigned — because the
subregion objects, holding proper regions with the mesh's dimension names, accept whatever the region
accepted. -/
theorem meshInplace_err (s : Store) (hg : Good s) (mid : Nat) (mo : MeshObj) (op : Op) (hmo : s.meshes[mid]? = some mo)
    (e : Err) (h : stepM (absMesh s mo) (op.withInplace true) = .error e) : meshInplace s mid op = (s, none) := by
  obtain ⟨_, hm, hp, _⟩ := good_mesh s hg mo (List.mem_of_getElem? hmo)
  rw [stepM_eq_stepMU] at h
  unfold stepMU at h
  cases hreg : stepR (absMesh s mo).region (op.withInplace true) with
  | error e' =>
    unfold meshInplace updReg
    rw [hmo]
    have : stepR (s.reg mo.region) (op.withInplace true) = .error e' := hreg
    simp only [this]
  | ok xr =>
    exfalso
    obtain ⟨x, r'⟩ := xr
    obtain ⟨subs', hsub⟩ := mapSubs_ok_of_region _ hm hp _ x r' hreg
    rw [hreg, hsub] at h
    simp only [inplace_withInplace, if_true] at h
    cases h

/-- **The frame of an accepted in-place mesh step** (good store, exclusive region objects): every
OTHER mesh object has the same value afterwards, and every Region object not held by the mesh —
in particular every object only the caller holds — is unchanged. -/
theorem meshInplace_frame (s : Store) (hg : Good s) (he : RegExcl s) (mid : Nat) (mo : MeshObj) (op : Op)
    (hmo : s.meshes[mid]? = some mo) (hb : BcWf (absMesh s mo)) (T1 T : Mesh)
    (h : stepM (absMesh s mo) (op.withInplace true) = .ok (T1, T)) :
    ∃ s' mo', meshInplace s mid op = (s', some (.mesh mid)) ∧ s'.meshes[mid]? = some mo' ∧ absMesh s' mo' = T ∧
      footprint mo' = footprint mo ∧
      (∀ j moj, j ≠ mid → s.meshes[j]? = some moj → s'.meshes[j]? = some moj ∧ absMesh s' moj = absMesh s moj) ∧
      (∀ i, i ∉ footprint mo → s'.reg i = s.reg i) ∧ s'.regs.length = s.regs.length := by
  obtain ⟨hok, hm, _, _⟩ := good_mesh s hg mo (List.mem_of_getElem? hmo)
  obtain ⟨s', mo', h1, h2, h3, h4, h5, h6, h7⟩ := meshInplace_ok s mid mo op hmo hok hm hb T1 T h
  have hmid : mid < s.meshes.length := by
    by_contra hc
    rw [List.getElem?_eq_none (by omega)] at hmo; cases hmo
  refine ⟨s', mo', h1, by rw [h4]; exact getElem?_setAt_eq _ _ _ hmid, h7, by unfold footprint; rw [h5, h6], ?_, h3, h2⟩
  intro j moj hj hmj
  refine ⟨by rw [h4, getElem?_setAt_ne _ _ _ _ hj]; exact hmj, ?_⟩
  have hdis := (footprints_disjoint s hg he j mid moj mo hmj hmo).2 hj
  unfold absMesh
  have hr : s'.reg moj.region = s.reg moj.region := h3 _ (hdis _ (by simp [footprint]))
  rw [hr]
  congr 1
  apply List.map_congr_left
  intro p hp
  rw [h3 _ (hdis _ (by simp only [footprint, List.mem_cons]; exact Or.inr (List.mem_map_of_mem hp)))]

/-! ## constructor, setter, copying form -/

theorem setSubs_vs_attach (s : Store) (m : Mesh) (subs : List (String × Nat)) :
    (∀ m', T.setSubs m (valsOf s subs) = .ok m' →
      attach s m subs = .ok (s.allocs (subs.map fun p => stamp m.region (s.reg p.2)), freshIds s.regs.length subs) ∧
      m' = { m with subs := subs.map fun p => (p.1, stamp m.region (s.reg p.2)) }) ∧
    (∀ e, T.setSubs m (valsOf s subs) = .error e → attach s m subs = .error .value) := by
  unfold T.setSubs attach
  by_cases hall : (valsOf s subs).all (fun p => candOk m p.2) = true
  · rw [if_pos hall, if_pos hall]
    refine ⟨fun m' h => ⟨rfl, ?_⟩, fun e h => (by cases h)⟩
    injection h with h
    rw [← h]
    unfold valsOf
    rw [List.map_map]
    rfl
  · rw [if_neg hall, if_neg hall]
    exact ⟨fun m' h => (by cases h), fun e _ => rfl⟩

theorem absMesh_regs (s s' : Store) (h : s'.regs = s.regs) (mo : MeshObj) : absMesh s' mo = absMesh s mo := by
  unfold absMesh Store.reg; rw [h]

theorem absMesh_fresh (s : Store) (rid : Nat) (hrid : rid < s.regs.length) (n : List Nat) (bc : String)
    (subs : List (String × Nat)) (f : Nat → Region) :
    absMesh (s.allocs (subs.map fun p => f p.2)) { region := rid, n := n, bc := bc, subs := freshIds s.regs.length subs }
      = { region := s.reg rid, n := n, bc := bc, subs := subs.map fun p => (p.1, f p.2) } := by
  unfold absMesh
  simp only
  rw [reg_allocs_lt _ _ _ hrid]
  congr 1
  exact valsOf_freshIds (s.allocs (subs.map fun p => f p.2)) subs f s.regs [] (by simp [Store.allocs])

theorem valsOf_fresh_allocs (s : Store) (subs : List (String × Nat)) (f : Nat → Region) :
    valsOf (s.allocs (subs.map fun p => f p.2)) (freshIds s.regs.length subs) = subs.map fun p => (p.1, f p.2) :=
  valsOf_freshIds (s.allocs (subs.map fun p => f p.2)) subs f s.regs [] (by simp [Store.allocs])

theorem valsOf_allocs (s : Store) (rs : List Region) (subs : List (String × Nat)) (h : ∀ p ∈ subs, p.2 < s.regs.length) :
    valsOf (s.allocs rs) subs = valsOf s subs := by
  unfold valsOf
  apply List.map_congr_left
  intro p hp
  rw [reg_allocs_lt _ _ _ (h p hp)]

/-- **The constructor in the store**: `Mesh(region=<rid>, n, bc, subregions={name: <id>})` is accepted
exactly when the value model's `mkMesh?` accepts the VALUES of the objects; it then appends one mesh
object whose value is what `mkMesh?` returns, holding a NEW region object (repo fix 12c808de: the mesh
gets a region object of its own, with the value of the given one) and NEW subregion objects; no
existing object — the given region and the candidates included — is changed. -/
theorem mkMeshS_sound (s : Store) (rid : Nat) (n : List Nat) (bc : String) (subs : List (String × Nat))
    (hrid : rid < s.regs.length) (hids : ∀ p ∈ subs, p.2 < s.regs.length) :
    (∀ m', mkMesh? (s.reg rid) n bc (valsOf s subs) = .ok m' →
      ∃ s' mo', mkMeshS s rid n bc subs = .ok s' ∧ s'.meshes = s.meshes ++ [mo'] ∧ absMesh s' mo' = m' ∧
        mo'.region = s.regs.length ∧ (∀ p ∈ mo'.subs, s.regs.length < p.2) ∧ (∀ j, j < s.regs.length → s'.reg j = s.reg j)) ∧
    (∀ e, mkMesh? (s.reg rid) n bc (valsOf s subs) = .error e → ∃ e', mkMeshS s rid n bc subs = .error e') := by
  have hidsb : idsOk s subs = true := (idsOk_iff s subs).mpr hids
  unfold mkMesh? mkMeshS
  rw [if_neg (by omega), hidsb]
  simp only [Bool.not_true, Bool.false_eq_true, if_false]
  cases hm0 : Mesh.mkN? (s.reg rid) n bc with
  | error e => exact ⟨fun m' h => (by cases h), fun e' _ => ⟨e, rfl⟩⟩
  | ok m0 =>
    simp only
    obtain ⟨em, _, _, _⟩ := mkN?_ok _ _ _ _ hm0
    subst em
    have h0len : (s.allocs [s.reg rid]).regs.length = s.regs.length + 1 := by rw [allocs_length]; rfl
    have h0new : (s.allocs [s.reg rid]).reg s.regs.length = s.reg rid := by
      have := reg_allocs_ge s [s.reg rid] 0
      simpa using this
    obtain ⟨k1, k2⟩ := setSubs_vs_attach (s.allocs [s.reg rid]) { region := s.reg rid, n := n, bc := bc.toLower, subs := [] } subs
    rw [valsOf_allocs s _ subs hids] at k1 k2
    constructor
    · intro m' h
      obtain ⟨hat, em'⟩ := k1 m' h
      rw [hat]
      refine ⟨_, { region := s.regs.length, n := n, bc := bc.toLower, subs := freshIds (s.allocs [s.reg rid]).regs.length subs },
        rfl, rfl, ?_, rfl, fun p hp => by have := (freshIds_mem _ _ _ hp).1; omega,
        fun j hj => by
          show ((s.allocs [s.reg rid]).allocs _).reg j = _
          rw [reg_allocs_lt _ _ _ (by omega), reg_allocs_lt _ _ _ hj]⟩
      rw [em']
      have hfr := absMesh_fresh (s.allocs [s.reg rid]) s.regs.length (by omega) n bc.toLower subs
        (fun i => stamp (s.reg rid) ((s.allocs [s.reg rid]).reg i))
      rw [h0new] at hfr
      exact (absMesh_regs ((s.allocs [s.reg rid]).allocs (subs.map fun p => stamp (s.reg rid) ((s.allocs [s.reg rid]).reg p.2))) _ rfl _).trans hfr
    · intro e h
      rw [k2 e h]
      exact ⟨_, rfl⟩

/-- **The setter in the store**: `mesh.subregions = {name: <id>}` is accepted exactly when the value
model's `setSubs` accepts the values; the mesh object then holds NEW Region objects whose values are
what `setSubs` stores; no existing Region object (the candidates included) is changed, and a rejected
assignment changes nothing at all. -/
theorem setSubs_sound (s : Store) (mid : Nat) (mo : MeshObj) (subs : List (String × Nat)) (hmo : s.meshes[mid]? = some mo)
    (hrid : mo.region < s.regs.length) (hids : ∀ p ∈ subs, p.2 < s.regs.length) :
    (∀ m', T.setSubs (absMesh s mo) (valsOf s subs) = .ok m' →
      ∃ s' mo', exec s (.setSubs mid subs) = (s', some (.mesh mid)) ∧ s'.meshes = setAt s.meshes mid mo' ∧
        absMesh s' mo' = m' ∧ mo'.region = mo.region ∧ (∀ p ∈ mo'.subs, s.regs.length ≤ p.2) ∧
        (∀ j, j < s.regs.length → s'.reg j = s.reg j)) ∧
    (∀ e, T.setSubs (absMesh s mo) (valsOf s subs) = .error e → exec s (.setSubs mid subs) = (s, none)) := by
  have hidsb : idsOk s subs = true := (idsOk_iff s subs).mpr hids
  obtain ⟨k1, k2⟩ := setSubs_vs_attach s (absMesh s mo) subs
  simp only [exec, hmo, hidsb, Bool.not_true, Bool.false_eq_true, if_false]
  constructor
  · intro m' h
    obtain ⟨hat, em'⟩ := k1 m' h
    rw [hat]
    refine ⟨_, { mo with subs := freshIds s.regs.length subs }, rfl, rfl, ?_, rfl,
      fun p hp => (freshIds_mem _ _ _ hp).1, fun j hj => reg_allocs_lt _ _ _ hj⟩
    rw [em']
    have hmem : mo ∈ s.meshes := List.mem_of_getElem? hmo
    exact (absMesh_regs (s.allocs (subs.map fun p => stamp (s.reg mo.region) (s.reg p.2))) _ rfl _).trans
      (absMesh_fresh s mo.region hrid mo.n mo.bc subs (fun i => stamp (s.reg mo.region) (s.reg i)))
  · intro e h
    rw [k2 e h]

theorem subOpCopy_eq (s : Store) (mo : MeshObj) (op : Op) :
    subOpCopy (s.reg mo.region) op = subOp (absMesh s mo) (op.withInplace false) := by cases op <;> rfl
theorem opNS_eq (s : Store) (mo : MeshObj) (op : Op) :
    opNS (s.reg mo.region) mo.n op = opN (absMesh s mo) (op.withInplace false) := by cases op <;> rfl
theorem opBcS_eq (s : Store) (mo : MeshObj) (op : Op) :
    opBcS mo.bc op = opBc (absMesh s mo) (op.withInplace false) := by cases op <;> rfl

/-- **The copying mesh step in the store**: accepted exactly when the value model accepts it; it then
appends one mesh object whose value is what the value model returns, built ENTIRELY from new Region
objects; no existing object is changed.  A rejected copying step changes nothing. -/
theorem meshCopy_sound (s : Store) (mid : Nat) (mo : MeshObj) (op : Op) (hmo : s.meshes[mid]? = some mo) :
    (∀ y T, stepM (absMesh s mo) (op.withInplace false) = .ok (y, T) →
      ∃ s' mo', meshCopy s mid op = (s', some (.mesh s.meshes.length)) ∧ s'.meshes = s.meshes ++ [mo'] ∧ absMesh s' mo' = T ∧
        (∀ a, a ∈ footprint mo' → s.regs.length ≤ a) ∧ (∀ j, j < s.regs.length → s'.reg j = s.reg j)) ∧
    (∀ e, stepM (absMesh s mo) (op.withInplace false) = .error e → meshCopy s mid op = (s, none)) := by
  rw [stepM_eq_stepMU]
  unfold stepMU meshCopy
  rw [hmo]
  simp only [inplace_withInplace, Bool.false_eq_true, if_false]
  rw [subOpCopy_eq, opNS_eq, opBcS_eq]
  have hreg : (absMesh s mo).region = s.reg mo.region := rfl
  have hsubs : (absMesh s mo).subs = valsOf s mo.subs := rfl
  rw [hreg, hsubs]
  cases hr : stepR (s.reg mo.region) (op.withInplace false) with
  | error e => exact ⟨fun y T h => (by cases h), fun e' _ => rfl⟩
  | ok xr =>
    obtain ⟨x, r'⟩ := xr
    cases hsub : mapSubs (valsOf s mo.subs) (fun c => stepR c (subOp (absMesh s mo) (op.withInplace false))) with
    | error e => exact ⟨fun y T h => (by cases h), fun e' _ => rfl⟩
    | ok subs' =>
      simp only
      have hlen1 : (s.allocs (r' :: subs'.map (·.2))).regs.length = s.regs.length + 1 + subs'.length := by
        rw [allocs_length]; simp; omega
      have hreg1 : (s.allocs (r' :: subs'.map (·.2))).reg s.regs.length = r' := by
        have := reg_allocs_ge s (r' :: subs'.map (·.2)) 0
        simpa using this
      have hvals1 : valsOf (s.allocs (r' :: subs'.map (·.2))) (freshIds (s.regs.length + 1) subs') = subs' := by
        have := valsOf_freshIds (s.allocs (r' :: subs'.map (·.2))) subs' id (s.regs ++ [r']) [] (by simp [Store.allocs])
        simp only [List.length_append, List.length_singleton, id] at this
        rw [this]
        conv => rhs; rw [← List.map_id subs']
        exact List.map_congr_left (fun p _ => rfl)
      obtain ⟨k1, k2⟩ := mkMeshS_sound (s.allocs (r' :: subs'.map (·.2))) s.regs.length
        (opN (absMesh s mo) (op.withInplace false)) (opBc (absMesh s mo) (op.withInplace false))
        (freshIds (s.regs.length + 1) subs') (by omega)
        (fun p hp => by have := freshIds_mem _ _ _ hp; omega)
      rw [hreg1, hvals1] at k1 k2
      constructor
      · intro y T h
        cases hmk : mkMesh? r' (opN (absMesh s mo) (op.withInplace false)) (opBc (absMesh s mo) (op.withInplace false)) subs' with
        | error e => rw [hmk] at h; cases h
        | ok m' =>
          rw [hmk] at h
          injection h with h; injection h with _ hT
          obtain ⟨s', mo', e1, e2, e3, e4, e5, e6⟩ := k1 m' hmk
          refine ⟨s', mo', by rw [e1], e2, by rw [e3, hT], ?_, ?_⟩
          · intro a ha
            simp only [footprint, List.mem_cons] at ha
            rcases ha with e | e
            · omega
            · obtain ⟨p, hp, e'⟩ := List.mem_map.mp e
              have := e5 p hp
              omega
          · intro j hj
            rw [e6 j (by omega), reg_allocs_lt _ _ _ hj]
      · intro e h
        cases hmk : mkMesh? r' (opN (absMesh s mo) (op.withInplace false)) (opBc (absMesh s mo) (op.withInplace false)) subs' with
        | error e0 =>
          obtain ⟨e', he'⟩ := k2 e0 hmk
          rw [he']
        | ok m' => rw [hmk] at h; cases h

/-! ## histories of in-place steps on one mesh object -/

theorem withInplace_of_inplace (op : Op) (h : op.inplace = true) : op.withInplace true = op := by
  cases op <;> simp_all [Op.inplace, Op.withInplace]

/-- **A whole history of in-place steps on one mesh object, in the store, is the value model's history
`runM`** (rejected steps skipped): for a good store with exclusive region objects and a mesh whose value
satisfies `SubInv` and `BcWf`, after the session `[mesh.op₁(inplace), mesh.op₂(inplace), …]` the mesh object
is the same object holding the same Region objects, its value is `runM value ops` — so every history
theorem of the value model (`reachable_inv_mesh`, `runM_subInv`, `history_forms_agree_mesh`, …) speaks
about the store —, every other mesh object has its old value, every Region object outside the mesh's
footprint is unchanged and no object has been created. -/
theorem inplace_history (s : Store) (hg : Good s) (he : RegExcl s) (mid : Nat) (mo : MeshObj) (hmo : s.meshes[mid]? = some mo)
    (hs : SubInv (absMesh s mo)) (hb : BcWf (absMesh s mo)) (ops : List Op) (hin : ∀ op ∈ ops, op.inplace = true) :
    ∃ mo', (run s (ops.map (Stmt.meshOp mid))).meshes[mid]? = some mo' ∧
      absMesh (run s (ops.map (Stmt.meshOp mid))) mo' = runM (absMesh s mo) ops ∧ footprint mo' = footprint mo ∧
      (∀ j moj, j ≠ mid → s.meshes[j]? = some moj →
        (run s (ops.map (Stmt.meshOp mid))).meshes[j]? = some moj ∧ absMesh (run s (ops.map (Stmt.meshOp mid))) moj = absMesh s moj) ∧
      (∀ i, i ∉ footprint mo → (run s (ops.map (Stmt.meshOp mid))).reg i = s.reg i) ∧
      (run s (ops.map (Stmt.meshOp mid))).regs.length = s.regs.length := by
  induction ops generalizing s mo with
  | nil => exact ⟨mo, hmo, rfl, rfl, fun j moj _ h => ⟨h, rfl⟩, fun _ _ => rfl, rfl⟩
  | cons op ops ih =>
    have hop : op.inplace = true := hin op (by simp)
    have hex : (exec s (.meshOp mid op)).1 = (meshInplace s mid op).1 := by simp only [exec, hop, if_true]
    simp only [List.map_cons, run, runM]
    rw [hex]
    have hm := (good_mesh s hg mo (List.mem_of_getElem? hmo)).2.1
    have hgood1 : Good (meshInplace s mid op).1 := hex ▸ exec_good s hg (.meshOp mid op)
    have hex1 : RegExcl (meshInplace s mid op).1 := hex ▸ exec_regExcl s hg he (.meshOp mid op)
    cases hst : stepM (absMesh s mo) op with
    | error e =>
      have hst' : stepM (absMesh s mo) (op.withInplace true) = .error e := by rw [withInplace_of_inplace op hop]; exact hst
      rw [meshInplace_err s hg mid mo op hmo e hst']
      exact ih s hg he mo hmo hs hb (fun o ho => hin o (List.mem_cons_of_mem _ ho))
    | ok p =>
      obtain ⟨T1, T⟩ := p
      have hst' : stepM (absMesh s mo) (op.withInplace true) = .ok (T1, T) := by rw [withInplace_of_inplace op hop]; exact hst
      obtain ⟨s1, mo1, e1, e2, e3, e4, e5, e6, e7⟩ := meshInplace_frame s hg he mid mo op hmo hb T1 T hst'
      rw [e1] at hgood1 hex1 ⊢
      simp only
      have hs1 : SubInv (absMesh s1 mo1) := by rw [e3]; exact (stepM_subInv' _ hm hs _ _ _ hst).2.1
      have hb1 : BcWf (absMesh s1 mo1) := by rw [e3]; exact (stepM_bcWf _ hm hs hb _ _ _ hst).2.1
      obtain ⟨mo', f1, f2, f3, f4, f5, f6⟩ := ih s1 hgood1 hex1 mo1 e2 hs1 hb1 (fun o ho => hin o (List.mem_cons_of_mem _ ho))
      refine ⟨mo', f1, by rw [f2, e3], f3.trans e4, ?_, ?_, f6.trans e7⟩
      · intro j moj hj hmj
        obtain ⟨g1, g2⟩ := e5 j moj hj hmj
        obtain ⟨g3, g4⟩ := f4 j moj hj g1
        exact ⟨g3, g4.trans g2⟩
      · intro i hi
        rw [f5 i (by rw [e4]; exact hi), e6 i hi]

/-! ## steps on a Region object through a handle -/

/-- **A step on ONE Region object changes that object only**: after `obj.translate / scale / rotate90`
(either form, accepted or not) on Region object `rid` — one the caller made, or one obtained from a
mesh (`mesh.region`, `mesh.subregions[name]`: the mesh's own objects) — the mesh objects are the same,
every other Region object has its value, and every mesh object that does not hold `rid` has its value;
the copying form changes no existing object at all. -/
theorem regionOp_frame (s : Store) (hg : Good s) (rid : Nat) (op : Op) :
    (exec s (.regionOp rid op)).1.meshes = s.meshes ∧
    (∀ i, i < s.regs.length → (i ≠ rid ∨ op.inplace = false) → (exec s (.regionOp rid op)).1.reg i = s.reg i) ∧
    (∀ mo, mo ∈ s.meshes → (rid ∉ footprint mo ∨ op.inplace = false) →
      absMesh (exec s (.regionOp rid op)).1 mo = absMesh s mo) := by
  have key : ∀ s' : Store, s'.meshes = s.meshes →
      (∀ i, i < s.regs.length → (i ≠ rid ∨ op.inplace = false) → s'.reg i = s.reg i) →
      s'.meshes = s.meshes ∧ (∀ i, i < s.regs.length → (i ≠ rid ∨ op.inplace = false) → s'.reg i = s.reg i) ∧
      (∀ mo, mo ∈ s.meshes → (rid ∉ footprint mo ∨ op.inplace = false) → absMesh s' mo = absMesh s mo) := by
    intro s' hm hr
    refine ⟨hm, hr, ?_⟩
    intro mo hmo hcase
    obtain ⟨v1, v2, _⟩ := hg.2.2 mo hmo
    have hne : ∀ a, a ∈ footprint mo → (a ≠ rid ∨ op.inplace = false) := by
      intro a ha
      rcases hcase with h | h
      · left; intro e; exact h (e ▸ ha)
      · exact Or.inr h
    unfold absMesh
    rw [hr _ v1 (hne _ (by simp [footprint]))]
    congr 1
    apply List.map_congr_left
    intro p hp
    rw [hr _ (v2 p hp).2 (hne _ (by simp only [footprint, List.mem_cons]; exact Or.inr (List.mem_map_of_mem hp)))]
  simp only [exec]
  by_cases hrid : s.regs.length ≤ rid
  · rw [if_pos hrid]; exact key s rfl (fun _ _ _ => rfl)
  · rw [if_neg hrid]
    by_cases hi : op.inplace = true
    · rw [if_pos hi]
      cases hu : updReg s rid op with
      | error e => exact key s rfl (fun _ _ _ => rfl)
      | ok s' =>
        obtain ⟨r', _, e⟩ := updReg_ok s s' rid op hu
        subst e
        apply key (s.setReg rid r') rfl
        intro i _ hcase
        rcases hcase with h | h
        · exact reg_setReg_ne _ _ _ _ h
        · rw [hi] at h; cases h
    · rw [if_neg hi]
      cases hst : stepR (s.reg rid) (op.withInplace false) with
      | error e => exact key s rfl (fun _ _ _ => rfl)
      | ok xr =>
        obtain ⟨x, ret⟩ := xr
        exact key (s.allocs [ret]) rfl (fun i hi' _ => reg_allocs_lt _ _ _ hi')

end DFV.S
