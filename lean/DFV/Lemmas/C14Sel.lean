import DFV.Lemmas.C14Ex
/-! C14: plane / range selections of a mesh with subregions — what is returned, which subregions
are kept, and that the result satisfies the mesh invariant and `SubInv`. -/
namespace DFV.C14
open DFV DFV.T DFV.Mesh

/-- one axis of `FitsE`, on numbers -/
def FitsAx (L H : Rat) (n : Nat) (l h : Rat) : Prop :=
  ∃ z w : Int, 0 ≤ z ∧ 0 < w ∧ z + w ≤ (n : Int) ∧
    l - L = (z : Rat) * ((H - L) / (n : Rat)) ∧ h - l = (w : Rat) * ((H - L) / (n : Rat))

theorem fitsE_iff (m : Mesh) (s : Region) :
    FitsE m s ↔ s.pmin.length = m.ndim ∧ s.pmax.length = m.ndim ∧
      ∀ a, a < m.ndim → FitsAx (m.region.lo a) (m.region.hi a) (m.nAt a) (s.lo a) (s.hi a) := Iff.rfl

/-- clipping a lattice interval to a slab of whole cells it overlaps keeps it on the slab's lattice -/
theorem fitsAx_clip (L H : Rat) (n : Nat) (l h : Rat) (i0 i1 : Nat) (hn : 0 < n) (hLH : L < H)
    (h01 : i0 ≤ i1) (hf : FitsAx L H n l h)
    (ho1 : l < L + ((i1 : Rat) + 1) * ((H - L) / n) - (H - L) / n / 2)
    (ho2 : L + (i0 : Rat) * ((H - L) / n) < h - (H - L) / n / 2) :
    FitsAx (L + (i0 : Rat) * ((H - L) / n)) (L + ((i1 : Rat) + 1) * ((H - L) / n)) (i1 - i0 + 1)
      (max (L + (i0 : Rat) * ((H - L) / n)) l) (min (L + ((i1 : Rat) + 1) * ((H - L) / n)) h) := by
  obtain ⟨z, w, hz0, hw0, hzw, hz, hw⟩ := hf
  have hnq : (0 : Rat) < (n : Rat) := by exact_mod_cast hn
  have hc : 0 < (H - L) / (n : Rat) := div_pos (by linarith) hnq
  generalize (H - L) / (n : Rat) = c at *
  have hl : l = L + (z : Rat) * c := by linarith
  have hh : h = L + ((z : Rat) + (w : Rat)) * c := by linarith
  -- integer forms of the overlap conditions
  have o1 : z < (i1 : Int) + 1 := by
    by_contra hc'
    have : ((i1 : Int) + 1 : Int) ≤ z := by omega
    have : ((i1 : Rat) + 1) ≤ (z : Rat) := by exact_mod_cast this
    nlinarith
  have o2 : (i0 : Int) < z + w := by
    by_contra hc'
    have : z + w ≤ (i0 : Int) := by omega
    have : (z : Rat) + (w : Rat) ≤ (i0 : Rat) := by exact_mod_cast this
    nlinarith
  have ecell : (L + ((i1 : Rat) + 1) * c - (L + (i0 : Rat) * c)) / (((i1 - i0 + 1 : Nat) : Nat) : Rat) = c := by
    have : ((i1 - i0 + 1 : Nat) : Rat) = (i1 : Rat) - (i0 : Rat) + 1 := by
      rw [Nat.cast_add, Nat.cast_sub h01]; simp
    rw [this]
    have hpos : (0 : Rat) < (i1 : Rat) - (i0 : Rat) + 1 := by
      have : (i0 : Rat) ≤ (i1 : Rat) := by exact_mod_cast h01
      linarith
    rw [div_eq_iff hpos.ne']; ring
  have emax : max (L + (i0 : Rat) * c) l = L + ((max (i0 : Int) z : Int) : Rat) * c := by
    rw [hl]
    rcases le_total (i0 : Int) z with hle | hle
    · have : (i0 : Rat) ≤ (z : Rat) := by exact_mod_cast hle
      rw [max_eq_right hle, max_eq_right (by nlinarith)]
    · have : (z : Rat) ≤ (i0 : Rat) := by exact_mod_cast hle
      rw [max_eq_left hle, max_eq_left (by nlinarith)]; push_cast; ring
  have emin : min (L + ((i1 : Rat) + 1) * c) h = L + ((min ((i1 : Int) + 1) (z + w) : Int) : Rat) * c := by
    rw [hh]
    rcases le_total ((i1 : Int) + 1) (z + w) with hle | hle
    · have : (i1 : Rat) + 1 ≤ (z : Rat) + (w : Rat) := by exact_mod_cast hle
      rw [min_eq_left hle, min_eq_left (by nlinarith)]; push_cast; ring
    · have : (z : Rat) + (w : Rat) ≤ (i1 : Rat) + 1 := by exact_mod_cast hle
      rw [min_eq_right hle, min_eq_right (by nlinarith)]; push_cast; ring
  refine ⟨max (i0 : Int) z - i0, min ((i1 : Int) + 1) (z + w) - max (i0 : Int) z, by omega, by omega, by omega, ?_, ?_⟩
  · rw [ecell, emax]; push_cast; ring
  · rw [ecell, emax, emin]; push_cast; ring

/-- on the lattice, "overlaps the slab by more than half a cell" is "the open extents meet" -/
theorem overlap_iff (L H : Rat) (n : Nat) (l h : Rat) (i0 i1 : Nat) (hn : 0 < n) (hLH : L < H) (hf : FitsAx L H n l h) :
    (l < L + ((i1 : Rat) + 1) * ((H - L) / n) - (H - L) / n / 2 ∧ L + (i0 : Rat) * ((H - L) / n) < h - (H - L) / n / 2) ↔
    (l < L + ((i1 : Rat) + 1) * ((H - L) / n) ∧ L + (i0 : Rat) * ((H - L) / n) < h) := by
  obtain ⟨z, w, hz0, hw0, hzw, hz, hw⟩ := hf
  have hnq : (0 : Rat) < (n : Rat) := by exact_mod_cast hn
  have hc : 0 < (H - L) / (n : Rat) := div_pos (by linarith) hnq
  generalize (H - L) / (n : Rat) = c at *
  have hl : l = L + (z : Rat) * c := by linarith
  have hh : h = L + ((z : Rat) + (w : Rat)) * c := by linarith
  constructor
  · rintro ⟨a, b⟩; exact ⟨by linarith, by linarith⟩
  · rintro ⟨a, b⟩
    have o1 : z < (i1 : Int) + 1 := by
      by_contra hc'
      have : ((i1 : Int) + 1 : Int) ≤ z := by omega
      have : ((i1 : Rat) + 1) ≤ (z : Rat) := by exact_mod_cast this
      nlinarith
    have o2 : (i0 : Int) < z + w := by
      by_contra hc'
      have : z + w ≤ (i0 : Int) := by omega
      have : (z : Rat) + (w : Rat) ≤ (i0 : Rat) := by exact_mod_cast this
      nlinarith
    have p1 : (z : Rat) + 1 ≤ (i1 : Rat) + 1 := by exact_mod_cast (by omega : z + 1 ≤ (i1 : Int) + 1)
    have p2 : (i0 : Rat) + 1 ≤ (z : Rat) + (w : Rat) := by exact_mod_cast (by omega : (i0 : Int) + 1 ≤ z + w)
    constructor <;> nlinarith
theorem mkCell_inv (r : Region) (cell : List Rat) (bc : String) (g : Mesh) (h : Mesh.mkCell? r cell bc = .ok g) :
    cell.length = r.ndim ∧ g.region = r ∧ g.subs = [] ∧
    g.n = tab r.ndim (fun a => (roundHalfEven (r.edge a / cell.getD a 0)).toNat) := by
  unfold Mesh.mkCell? at h
  split at h
  · cases h
  · rename_i hl
    split at h
    · cases h
    · split at h
      · cases h
      · split at h
        · cases h
        · split at h
          · cases h
          · split at h
            · cases h
            · injection h with h; subst h
              exact ⟨not_not.mp hl, rfl, rfl, rfl⟩

theorem indexAx_lt (m : Mesh) (a : Nat) (x : Rat) (hn : 0 < m.nAt a) : m.indexAx a x < m.nAt a := by
  unfold Mesh.indexAx Mesh.clipInt
  split
  · simpa using hn
  · split
    · omega
    · omega

theorem indexAx_mono (m : Mesh) (a : Nat) (x y : Rat) (hc : 0 < m.cellAt a) (hxy : x ≤ y) :
    m.indexAx a x ≤ m.indexAx a y := by
  have hf : ((x - m.region.lo a) / m.cellAt a).floor ≤ ((y - m.region.lo a) / m.cellAt a).floor := by
    exact rat_le_floor _ _ (le_trans (rat_floor_le _) (div_le_div_of_nonneg_right (by linarith) hc.le))
  unfold Mesh.indexAx Mesh.clipInt
  generalize ((x - m.region.lo a) / m.cellAt a).floor = fx at *
  generalize ((y - m.region.lo a) / m.cellAt a).floor = fy at *
  split <;> split <;> (try split) <;> (try split) <;> omega

theorem centre_minus_half (m : Mesh) (a : Nat) (i : Nat) :
    m.centreAx a (i : Int) - m.cellAt a / 2 = m.region.lo a + (i : Rat) * m.cellAt a := by
  unfold Mesh.centreAx; push_cast; ring

theorem centre_plus_half (m : Mesh) (a : Nat) (i : Nat) :
    m.centreAx a (i : Int) + m.cellAt a / 2 = m.region.lo a + ((i : Rat) + 1) * m.cellAt a := by
  unfold Mesh.centreAx; push_cast; ring
theorem selConvert_inv (m : Mesh) (ax : Nat) (x c : Rat) (i : Nat) (h : selConvert m ax x = .ok (c, i)) :
    i = m.indexAx ax x ∧ c = m.centreAx ax (i : Int) := by
  unfold selConvert at h
  split at h
  · cases h
  · injection h with h; injection h with h1 h2
    subst h2; exact ⟨rfl, h1.symm⟩

/-- a list is determined by its length and entries -/
theorem list_ext_getD {α} (l1 l2 : List α) (d : α) (hl : l1.length = l2.length)
    (h : ∀ a, a < l1.length → l1.getD a d = l2.getD a d) : l1 = l2 := by
  rw [eq_tab_of_getD l1 l1.length (fun a => l2.getD a d) d rfl h]
  exact (eq_tab_of_getD l2 l1.length (fun a => l2.getD a d) d hl.symm (fun _ _ => rfl)).symm

/-- the slab faces of a range selection -/
def loSlab (m : Mesh) (ax i0 : Nat) : Rat := m.region.lo ax + (i0 : Rat) * m.cellAt ax
def hiSlab (m : Mesh) (ax i1 : Nat) : Rat := m.region.lo ax + ((i1 : Rat) + 1) * m.cellAt ax

/-- the clipped copy of a subregion -/
def clipSub (m : Mesh) (ax i0 i1 : Nat) (s : Region) : Region :=
  { s with pmin := setAt s.pmin ax (max (loSlab m ax i0) (s.lo ax)), pmax := setAt s.pmax ax (min (hiSlab m ax i1) (s.hi ax)) }

/-- what a successful range selection returns -/
theorem selRange_inv (m m' : Mesh) (hm : m.Inv) (ax : Nat) (a b : Rat) (h : selRange m ax a b = .ok m') :
    ax < m.ndim ∧ ∃ i0 i1, i0 ≤ i1 ∧ i1 < m.nAt ax ∧ i0 = m.indexAx ax (min a b) ∧ i1 = m.indexAx ax (max a b) ∧
      m'.region = { m.region with pmin := setAt m.region.pmin ax (loSlab m ax i0),
                                  pmax := setAt m.region.pmax ax (hiSlab m ax i1) } ∧
      m'.n = setAt m.n ax (i1 - i0 + 1) ∧
      m'.subs = (m.subs.filter fun p =>
          !(decide (hiSlab m ax i1 - m.cellAt ax / 2 ≤ p.2.lo ax) || decide (p.2.hi ax - m.cellAt ax / 2 ≤ loSlab m ax i0))).map
        fun p => restamp m'.region (p.1, clipSub m ax i0 i1 p.2) := by
  unfold selRange at h
  split at h
  · cases h
  · rename_i hax
    have hax' : ax < m.ndim := by omega
    refine ⟨hax', ?_⟩
    split at h
    · cases h
    · cases h
    · rename_i c0 i0 c1 i1 h0 h1
      obtain ⟨e0, ec0⟩ := selConvert_inv _ _ _ _ _ h0
      obtain ⟨e1, ec1⟩ := selConvert_inv _ _ _ _ _ h1
      have hc := cellAt_pos m hm ax hax'
      have h01 : i0 ≤ i1 := by rw [e0, e1]; exact indexAx_mono m ax _ _ hc (le_trans (min_le_left a b) (le_max_left a b))
      have h1n : i1 < m.nAt ax := by rw [e1]; exact indexAx_lt m ax _ (hm.2.2 ax hax')
      have elo : c0 - m.cellAt ax / 2 = loSlab m ax i0 := by rw [ec0]; exact centre_minus_half m ax i0
      have ehi : c1 + m.cellAt ax / 2 = hiSlab m ax i1 := by rw [ec1]; exact centre_plus_half m ax i1
      rw [elo, ehi] at h
      refine ⟨i0, i1, h01, h1n, e0, e1, ?_⟩
      have hlt : loSlab m ax i0 < hiSlab m ax i1 := by
        unfold loSlab hiSlab
        have : (i0 : Rat) ≤ (i1 : Rat) := by exact_mod_cast h01
        nlinarith
      obtain ⟨r0, r1, r2, r3, r4, r5⟩ := hm.1
      have hnd : m.region.pmin.length = m.ndim := rfl
      split at h
      · cases h
      · rename_i r' hr'
        obtain ⟨_, _, _, _, _, _, er'⟩ := mk?_ok_inv _ _ _ _ _ _ hr'
        have erq : r' = { m.region with pmin := setAt m.region.pmin ax (loSlab m ax i0),
                                        pmax := setAt m.region.pmax ax (hiSlab m ax i1) } := by
          rw [er']; unfold normalised
          simp only [setAt_length]
          congr 1
          · symm; apply eq_tab_of_getD _ _ _ 0 (setAt_length _ _ _)
            intro k hk
            by_cases e : k = ax
            · subst e
              rw [getD_setAt_eq _ _ _ _ hk, getD_setAt_eq _ _ _ _ (by rw [r1]; exact hk), min_eq_left hlt.le]
            · rw [getD_setAt_ne _ _ _ _ _ e, getD_setAt_ne _ _ _ _ _ e]
              exact (min_eq_left (r5 k hk).le).symm
          · symm; apply eq_tab_of_getD _ _ _ 0 (by rw [setAt_length]; exact r1)
            intro k hk
            by_cases e : k = ax
            · subst e
              rw [getD_setAt_eq _ _ _ _ hk, getD_setAt_eq _ _ _ _ (by rw [r1]; exact hk), max_eq_right hlt.le]
            · rw [getD_setAt_ne _ _ _ _ _ e, getD_setAt_ne _ _ _ _ _ e]
              exact (max_eq_right (r5 k hk).le).symm
        split at h
        · cases h
        · rename_i m0 hm0
          obtain ⟨_, g1, g2, g3⟩ := mkCell_inv _ _ _ _ hm0
          obtain ⟨em', _⟩ := setSubs_ok_eq _ _ _ h
          have hreg : m'.region = r' := by rw [em']; exact g1
          refine ⟨by rw [hreg, erq], ?_, ?_⟩
          · rw [em']; show m0.n = _
            rw [g3]
            have hr'n : r'.ndim = m.ndim := by rw [erq]; show (setAt _ _ _).length = _; rw [setAt_length]; rfl
            rw [hr'n]
            symm; apply eq_tab_of_getD _ _ _ 0 (by rw [setAt_length]; exact hm.2.1)
            intro k hk
            have hck := cellAt_pos m hm k hk
            rw [cell_getD m k hk]
            by_cases e : k = ax
            · subst e
              rw [getD_setAt_eq _ _ _ _ (by rw [hm.2.1]; exact hk)]
              have : r'.edge k / m.cellAt k = (((i1 - i0 + 1 : Nat) : Int) : Rat) := by
                rw [erq]; unfold Region.edge Region.hi Region.lo
                simp only
                rw [getD_setAt_eq _ _ _ _ (by rw [r1]; exact hk), getD_setAt_eq _ _ _ _ hk]
                unfold loSlab hiSlab
                rw [Int.cast_natCast, Nat.cast_add, Nat.cast_sub h01]
                field_simp; push_cast; ring
              rw [this, roundHalfEven_int']; simp
            · rw [getD_setAt_ne _ _ _ _ _ e]
              have : r'.edge k / m.cellAt k = (((m.n.getD k 0 : Nat) : Int) : Rat) := by
                rw [erq]; unfold Region.edge Region.hi Region.lo
                simp only
                rw [getD_setAt_ne _ _ _ _ _ e, getD_setAt_ne _ _ _ _ _ e]
                have := n_mul_cell m hm k hk
                unfold Region.hi Region.lo Mesh.nAt at this
                rw [← this, Int.cast_natCast]; field_simp
              rw [this, roundHalfEven_int']; simp
          · rw [em']; show List.map _ _ = _
            rw [List.map_map]
            rfl
/-- invariants of the mesh returned by a range selection, from its description -/
theorem selRange_keeps (m m' : Mesh) (hm : m.Inv) (hs : SubInv m) (ax i0 i1 : Nat) (hax : ax < m.ndim)
    (h01 : i0 ≤ i1) (h1n : i1 < m.nAt ax)
    (hreg : m'.region = { m.region with pmin := setAt m.region.pmin ax (loSlab m ax i0),
                                        pmax := setAt m.region.pmax ax (hiSlab m ax i1) })
    (hn : m'.n = setAt m.n ax (i1 - i0 + 1))
    (hsub : m'.subs = (m.subs.filter fun p =>
          !(decide (hiSlab m ax i1 - m.cellAt ax / 2 ≤ p.2.lo ax) || decide (p.2.hi ax - m.cellAt ax / 2 ≤ loSlab m ax i0))).map
        fun p => restamp m'.region (p.1, clipSub m ax i0 i1 p.2)) :
    m'.Inv ∧ SubInv m' := by
  obtain ⟨⟨r0, r1, r2, r3, r4, r5⟩, hnl, hpos⟩ := hm
  have hm : m.Inv := ⟨⟨r0, r1, r2, r3, r4, r5⟩, hnl, hpos⟩
  have hc := cellAt_pos m hm ax hax
  have hlt : loSlab m ax i0 < hiSlab m ax i1 := by
    unfold loSlab hiSlab
    have : (i0 : Rat) ≤ (i1 : Rat) := by exact_mod_cast h01
    nlinarith
  have hnd : m'.ndim = m.ndim := by
    unfold Mesh.ndim Region.ndim; rw [hreg]; exact setAt_length _ _ _
  have hax0 : ax < m.region.pmin.length := hax
  -- accessors
  have lo_ax : m'.region.lo ax = loSlab m ax i0 := by
    unfold Region.lo; rw [hreg]; exact getD_setAt_eq _ _ _ _ hax0
  have hi_ax : m'.region.hi ax = hiSlab m ax i1 := by
    unfold Region.hi; rw [hreg]; exact getD_setAt_eq _ _ _ _ (by rw [r1]; exact hax0)
  have n_ax : m'.nAt ax = i1 - i0 + 1 := by
    unfold Mesh.nAt; rw [hn]; exact getD_setAt_eq _ _ _ _ (by rw [hnl]; exact hax)
  have lo_ne : ∀ a, a ≠ ax → m'.region.lo a = m.region.lo a := by
    intro a e; unfold Region.lo; rw [hreg]; exact getD_setAt_ne _ _ _ _ _ e
  have hi_ne : ∀ a, a ≠ ax → m'.region.hi a = m.region.hi a := by
    intro a e; unfold Region.hi; rw [hreg]; exact getD_setAt_ne _ _ _ _ _ e
  have n_ne : ∀ a, a ≠ ax → m'.nAt a = m.nAt a := by
    intro a e; unfold Mesh.nAt; rw [hn]; exact getD_setAt_ne _ _ _ _ _ e
  have hinv : m'.Inv := by
    refine ⟨⟨?_, ?_, ?_, ?_, ?_, ?_⟩, ?_, ?_⟩
    · rw [hreg]; show 0 < (setAt _ _ _).length; rw [setAt_length]; exact r0
    · rw [hreg]; show (setAt _ _ _).length = (setAt _ _ _).length; rw [setAt_length, setAt_length]; exact r1
    · rw [hreg]; show _ = (setAt _ _ _).length; rw [setAt_length]; exact r2
    · rw [hreg]; show _ = (setAt _ _ _).length; rw [setAt_length]; exact r3
    · rw [hreg]; exact r4
    · intro a ha
      have ha' : a < m.ndim := by rw [← hnd]; exact ha
      by_cases e : a = ax
      · subst e; rw [lo_ax, hi_ax]; exact hlt
      · rw [lo_ne a e, hi_ne a e]; exact r5 a ha'
    · rw [hn, setAt_length]; show _ = m'.ndim; rw [hnd]; exact hnl
    · intro a ha
      rw [hnd] at ha
      by_cases e : a = ax
      · subst e; rw [n_ax]; omega
      · rw [n_ne a e]; exact hpos a ha
  refine ⟨hinv, ?_⟩
  intro q hq
  rw [hsub] at hq
  obtain ⟨p, hp, rfl⟩ := List.mem_map.mp hq
  obtain ⟨hpm, hpf⟩ := List.mem_filter.mp hp
  obtain ⟨_, _, _, hl1, hl2, hfit⟩ := hs p hpm
  refine ⟨rfl, rfl, rfl, ?_, ?_, ?_⟩
  · show (setAt _ _ _).length = _; rw [setAt_length, hnd]; exact hl1
  · show (setAt _ _ _).length = _; rw [setAt_length, hnd]; exact hl2
  · intro a ha
    rw [hnd] at ha
    have hfa : FitsAx (m.region.lo a) (m.region.hi a) (m.nAt a) (p.2.lo a) (p.2.hi a) := hfit a ha
    show FitsAx (m'.region.lo a) (m'.region.hi a) (m'.nAt a) ((setAt p.2.pmin ax _).getD a 0) ((setAt p.2.pmax ax _).getD a 0)
    by_cases e : a = ax
    · subst e
      rw [lo_ax, hi_ax, n_ax, getD_setAt_eq _ _ _ _ (by rw [hl1]; exact ha), getD_setAt_eq _ _ _ _ (by rw [hl2]; exact ha)]
      simp only [Bool.not_eq_true', Bool.or_eq_false_iff, decide_eq_false_iff_not, not_le] at hpf
      exact fitsAx_clip _ _ _ _ _ i0 i1 (hpos a ha) (r5 a ha) h01 hfa hpf.1 hpf.2
    · rw [lo_ne a e, hi_ne a e, n_ne a e, getD_setAt_ne _ _ _ _ _ e, getD_setAt_ne _ _ _ _ _ e]
      exact hfa
theorem removeAt_length' {α} (l : List α) (ax : Nat) (h : ax < l.length) : (removeAt l ax).length = l.length - 1 := by
  induction l generalizing ax with
  | nil => simp at h
  | cons x xs ih =>
    cases ax with
    | zero => simp [removeAt]
    | succ k =>
      simp only [removeAt, List.length_cons]
      have := ih k (by simpa using h)
      have : 0 < xs.length := by simp at h; omega
      omega

/-- the axis of the source that ends up at position `a` once axis `ax` is removed -/
def skip (ax a : Nat) : Nat := if a < ax then a else a + 1

theorem getD_removeAt' {α} (l : List α) (ax a : Nat) (d : α) : (removeAt l ax).getD a d = l.getD (skip ax a) d := by
  induction l generalizing ax a with
  | nil => simp [removeAt]
  | cons x xs ih =>
    cases ax with
    | zero => simp [removeAt, skip]
    | succ k =>
      cases a with
      | zero => simp [removeAt, skip]
      | succ j =>
        simp only [removeAt, List.getD_cons_succ]
        rw [ih k j]
        unfold skip
        by_cases h : j < k
        · rw [if_pos h, if_pos (by omega)]; simp
        · rw [if_neg h, if_neg (by omega)]; simp

theorem skip_lt (ax a n : Nat) (hax : ax < n) (ha : a < n - 1) : skip ax a < n := by
  unfold skip; split <;> omega

/-- the copy of a subregion with axis `ax` removed -/
def dropSub (ax : Nat) (s : Region) : Region :=
  { s with pmin := removeAt s.pmin ax, pmax := removeAt s.pmax ax, dims := removeAt s.dims ax, units := removeAt s.units ax }

/-- what a successful plane selection returns -/
theorem selPlane_inv (m m' : Mesh) (hm : m.Inv) (ax : Nat) (x : Option Rat) (h : selPlane m ax x = .ok m') :
    ax < m.ndim ∧ 1 < m.ndim ∧ hasDup (removeAt m.region.dims ax) = false ∧
      m'.region = { pmin := removeAt m.region.pmin ax, pmax := removeAt m.region.pmax ax,
                    dims := removeAt m.region.dims ax, units := removeAt m.region.units ax, tol := m.region.tol } ∧
      m'.n = removeAt m.n ax ∧
      m'.subs = (m.subs.filter fun p =>
          !(decide (p.2.hi ax < m.centreAx ax (m.indexAx ax (x.getD (m.region.center.getD ax 0)) : Nat)) ||
            decide (m.centreAx ax (m.indexAx ax (x.getD (m.region.center.getD ax 0)) : Nat) < p.2.lo ax))).map
        fun p => restamp m'.region (p.1, dropSub ax p.2) := by
  unfold selPlane at h
  split at h
  · cases h
  · rename_i hax
    have hax' : ax < m.ndim := by omega
    split at h
    · cases h
    · rename_i c i hconv
      obtain ⟨ei, ec⟩ := selConvert_inv _ _ _ _ _ hconv
      obtain ⟨r0, r1, r2, r3, r4, r5⟩ := hm.1
      have hax0 : ax < m.region.pmin.length := hax'
      split at h
      · cases h
      · rename_i r' hr'
        obtain ⟨_, hne0, _, hdup, _, _, er'⟩ := mk?_ok_inv _ _ _ _ _ _ hr'
        have hlen : (removeAt m.region.pmin ax).length = m.ndim - 1 := removeAt_length' _ _ hax0
        have h1 : 1 < m.ndim := by
          rw [hlen] at hne0; omega
        have erq : r' = { pmin := removeAt m.region.pmin ax, pmax := removeAt m.region.pmax ax,
                          dims := removeAt m.region.dims ax, units := removeAt m.region.units ax, tol := m.region.tol } := by
          rw [er']; unfold normalised
          rw [hlen]
          congr 1
          · symm; apply eq_tab_of_getD _ _ _ 0 hlen
            intro k hk
            rw [getD_removeAt', getD_removeAt']
            exact (min_eq_left (r5 _ (skip_lt ax k _ hax' hk)).le).symm
          · symm; apply eq_tab_of_getD _ _ _ 0 (by rw [removeAt_length' _ _ (by rw [r1]; exact hax0), r1]; rfl)
            intro k hk
            rw [getD_removeAt', getD_removeAt']
            exact (max_eq_right (r5 _ (skip_lt ax k _ hax' hk)).le).symm
        split at h
        · cases h
        · rename_i m0 hm0
          obtain ⟨_, g1, g2, g3⟩ := mkCell_inv _ _ _ _ hm0
          obtain ⟨em', _⟩ := setSubs_ok_eq _ _ _ h
          have hreg : m'.region = r' := by rw [em']; exact g1
          refine ⟨hax', h1, hdup, by rw [hreg, erq], ?_, ?_⟩
          · rw [em']; show m0.n = _
            rw [g3]
            have hr'n : r'.ndim = m.ndim - 1 := by rw [erq]; exact hlen
            rw [hr'n]
            symm; apply eq_tab_of_getD _ _ _ 0 (by rw [removeAt_length' _ _ (by rw [hm.2.1]; exact hax'), hm.2.1]; rfl)
            intro k hk
            have hsk := skip_lt ax k _ hax' hk
            have hck := cellAt_pos m hm _ hsk
            rw [getD_removeAt', getD_removeAt', cell_getD m _ hsk]
            have : r'.edge k / m.cellAt (skip ax k) = (((m.n.getD (skip ax k) 0 : Nat) : Int) : Rat) := by
              rw [erq]; unfold Region.edge Region.hi Region.lo
              simp only
              rw [getD_removeAt', getD_removeAt']
              have := n_mul_cell m hm _ hsk
              unfold Region.hi Region.lo Mesh.nAt at this
              rw [← this, Int.cast_natCast]; field_simp
            rw [this, roundHalfEven_int']; simp
          · rw [em']; show List.map _ _ = _
            rw [List.map_map, ← ei, ← ec]
            rfl
/-- invariants of the mesh returned by a plane selection, from its description -/
theorem selPlane_keeps (m m' : Mesh) (hm : m.Inv) (hs : SubInv m) (ax : Nat) (keep : String × Region → Bool)
    (hax : ax < m.ndim) (h1 : 1 < m.ndim) (hdup : hasDup (removeAt m.region.dims ax) = false)
    (hreg : m'.region = { pmin := removeAt m.region.pmin ax, pmax := removeAt m.region.pmax ax,
                             dims := removeAt m.region.dims ax, units := removeAt m.region.units ax, tol := m.region.tol })
    (hn : m'.n = removeAt m.n ax)
    (hsub : m'.subs = (m.subs.filter keep).map fun p => restamp m'.region (p.1, dropSub ax p.2)) :
    m'.Inv ∧ SubInv m' := by
  obtain ⟨⟨r0, r1, r2, r3, r4, r5⟩, hnl, hpos⟩ := hm
  have hax0 : ax < m.region.pmin.length := hax
  have hnd : m'.ndim = m.ndim - 1 := by
    unfold Mesh.ndim Region.ndim; rw [hreg]; exact removeAt_length' _ _ hax0
  have lo_eq : ∀ a, m'.region.lo a = m.region.lo (skip ax a) := by
    intro a; unfold Region.lo; rw [hreg]; exact getD_removeAt' _ _ _ _
  have hi_eq : ∀ a, m'.region.hi a = m.region.hi (skip ax a) := by
    intro a; unfold Region.hi; rw [hreg]; exact getD_removeAt' _ _ _ _
  have n_eq : ∀ a, m'.nAt a = m.nAt (skip ax a) := by
    intro a; unfold Mesh.nAt; rw [hn]; exact getD_removeAt' _ _ _ _
  have hinv : m'.Inv := by
    refine ⟨⟨?_, ?_, ?_, ?_, ?_, ?_⟩, ?_, ?_⟩
    · rw [hreg]; show 0 < (removeAt _ _).length; rw [removeAt_length' _ _ hax0]; show 0 < m.ndim - 1; omega
    · rw [hreg]; show (removeAt _ _).length = (removeAt _ _).length
      rw [removeAt_length' _ _ hax0, removeAt_length' _ _ (by rw [r1]; exact hax0), r1]
    · rw [hreg]; show (removeAt _ _).length = (removeAt _ _).length
      rw [removeAt_length' _ _ hax0, removeAt_length' _ _ (by rw [r2]; exact hax0), r2]
    · rw [hreg]; show (removeAt _ _).length = (removeAt _ _).length
      rw [removeAt_length' _ _ hax0, removeAt_length' _ _ (by rw [r3]; exact hax0), r3]
    · rw [hreg]; exact hdup
    · intro a ha
      have ha' : a < m.ndim - 1 := by rw [← hnd]; exact ha
      rw [lo_eq, hi_eq]; exact r5 _ (skip_lt ax a _ hax ha')
    · rw [hn, removeAt_length' _ _ (by rw [hnl]; exact hax), hnl]; show _ = m'.ndim; rw [hnd]; rfl
    · intro a ha
      rw [hnd] at ha
      rw [n_eq]; exact hpos _ (skip_lt ax a _ hax ha)
  refine ⟨hinv, ?_⟩
  intro q hq
  rw [hsub] at hq
  obtain ⟨p, hp, rfl⟩ := List.mem_map.mp hq
  obtain ⟨hpm, _⟩ := List.mem_filter.mp hp
  obtain ⟨_, _, _, hl1, hl2, hfit⟩ := hs p hpm
  refine ⟨rfl, rfl, rfl, ?_, ?_, ?_⟩
  · show (removeAt _ _).length = _; rw [removeAt_length' _ _ (by rw [hl1]; exact hax), hnd, hl1]
  · show (removeAt _ _).length = _; rw [removeAt_length' _ _ (by rw [hl2]; exact hax), hnd, hl2]
  · intro a ha
    rw [hnd] at ha
    have hfa : FitsAx (m.region.lo (skip ax a)) (m.region.hi (skip ax a)) (m.nAt (skip ax a)) (p.2.lo (skip ax a)) (p.2.hi (skip ax a)) :=
      hfit _ (skip_lt ax a _ hax ha)
    show FitsAx (m'.region.lo a) (m'.region.hi a) (m'.nAt a) ((removeAt p.2.pmin ax).getD a 0) ((removeAt p.2.pmax ax).getD a 0)
    rw [lo_eq, hi_eq, n_eq, getD_removeAt', getD_removeAt']
    exact hfa
/-- under `SubInv`, the half-cell test of the range selection is the plain overlap test -/
theorem range_filter_eq (m : Mesh) (hm : m.Inv) (hs : SubInv m) (ax i0 i1 : Nat) (hax : ax < m.ndim) :
    (m.subs.filter fun p =>
      !(decide (hiSlab m ax i1 - m.cellAt ax / 2 ≤ p.2.lo ax) || decide (p.2.hi ax - m.cellAt ax / 2 ≤ loSlab m ax i0))) =
    (m.subs.filter fun p => decide (p.2.lo ax < hiSlab m ax i1) && decide (loSlab m ax i0 < p.2.hi ax)) := by
  apply List.filter_congr
  intro p hp
  have hfa : FitsAx (m.region.lo ax) (m.region.hi ax) (m.nAt ax) (p.2.lo ax) (p.2.hi ax) := (hs p hp).2.2.2.2.2 ax hax
  have := overlap_iff _ _ _ _ _ i0 i1 (hm.2.2 ax hax) (hm.1.2.2.2.2.2 ax hax) hfa
  have e : (!(decide (hiSlab m ax i1 - m.cellAt ax / 2 ≤ p.2.lo ax) || decide (p.2.hi ax - m.cellAt ax / 2 ≤ loSlab m ax i0))) = true ↔
      (decide (p.2.lo ax < hiSlab m ax i1) && decide (loSlab m ax i0 < p.2.hi ax)) = true := by
    simp only [Bool.not_eq_true', Bool.or_eq_false_iff, decide_eq_false_iff_not, not_le, Bool.and_eq_true, decide_eq_true_eq]
    exact this
  exact Bool.eq_iff_iff.mpr e

/-- the clipped subregion is the intersection of the subregion with the slab (as closed boxes) -/
theorem clipSub_inter (m : Mesh) (ax i0 i1 : Nat) (s : Region) (hax : ax < s.ndim) (hl : s.pmax.length = s.pmin.length) (p : List Rat) :
    (clipSub m ax i0 i1 s).containsExact p ↔
      s.containsExact p ∧ loSlab m ax i0 ≤ p.getD ax 0 ∧ p.getD ax 0 ≤ hiSlab m ax i1 := by
  have hnd : (clipSub m ax i0 i1 s).ndim = s.ndim := by unfold clipSub Region.ndim; exact setAt_length _ _ _
  have lo_ax : (clipSub m ax i0 i1 s).lo ax = max (loSlab m ax i0) (s.lo ax) := by
    unfold clipSub Region.lo; exact getD_setAt_eq _ _ _ _ hax
  have hi_ax : (clipSub m ax i0 i1 s).hi ax = min (hiSlab m ax i1) (s.hi ax) := by
    unfold clipSub Region.hi; exact getD_setAt_eq _ _ _ _ (by rw [hl]; exact hax)
  have lo_ne : ∀ a, a ≠ ax → (clipSub m ax i0 i1 s).lo a = s.lo a := by
    intro a e; unfold clipSub Region.lo; exact getD_setAt_ne _ _ _ _ _ e
  have hi_ne : ∀ a, a ≠ ax → (clipSub m ax i0 i1 s).hi a = s.hi a := by
    intro a e; unfold clipSub Region.hi; exact getD_setAt_ne _ _ _ _ _ e
  unfold Region.containsExact
  rw [hnd]
  constructor
  · rintro ⟨h1, h2⟩
    have hx := h2 ax hax
    rw [lo_ax, hi_ax] at hx
    refine ⟨⟨h1, ?_⟩, le_trans (le_max_left _ _) hx.1, le_trans hx.2 (min_le_left _ _)⟩
    intro a ha
    by_cases e : a = ax
    · subst e; exact ⟨le_trans (le_max_right _ _) hx.1, le_trans hx.2 (min_le_right _ _)⟩
    · have := h2 a ha; rwa [lo_ne a e, hi_ne a e] at this
  · rintro ⟨⟨h1, h2⟩, h3, h4⟩
    refine ⟨h1, ?_⟩
    intro a ha
    by_cases e : a = ax
    · subst e; rw [lo_ax, hi_ax]; exact ⟨max_le h3 (h2 a ha).1, le_min h4 (h2 a ha).2⟩
    · rw [lo_ne a e, hi_ne a e]; exact h2 a ha
end DFV.C14
