import DFV.Lemmas.C18Clamp
import DFV.Lemmas.C18AutoN
/-! C18: geometry of the automatic cell counts, the maximum principle of the interpolation and
superposition. -/
namespace DFV.C18
open DFV DFV.Mesh

/-! ## the automatic counts keep the cell volume -/

theorem autoX3_geometry (f : Fld) (R : M3) (reg : Region)
    (hl : ∀ i, i < 3 → sumAbs R (cellV f.mesh) i ≠ 0) (hc : ∀ i, i < 3 → f.mesh.cellAt i ≠ 0) :
    autoX3 f R reg 0 * autoX3 f R reg 1 * autoX3 f R reg 2
      = cube (reg.edge 0 * reg.edge 1 * reg.edge 2 / (f.mesh.cellAt 0 * f.mesh.cellAt 1 * f.mesh.cellAt 2)) ∧
    ∀ i, i < 3 → cube (reg.edge i) = autoX3 f R reg i * (cube (sumAbs R (cellV f.mesh) i) *
      ((f.mesh.cellAt 0 * f.mesh.cellAt 1 * f.mesh.cellAt 2) /
        (sumAbs R (cellV f.mesh) 0 * sumAbs R (cellV f.mesh) 1 * sumAbs R (cellV f.mesh) 2))) := by
  have l0 := hl 0 (by omega)
  have l1 := hl 1 (by omega)
  have l2 := hl 2 (by omega)
  have c0 := hc 0 (by omega)
  have c1 := hc 1 (by omega)
  have c2 := hc 2 (by omega)
  constructor
  · unfold autoX3 cube
    field_simp
  · intro i hi
    have li := hl i hi
    unfold autoX3 cube
    field_simp

/-! ## the maximum principle -/

theorem lin_range (t a b lo hi : Rat) (h0 : 0 ≤ t) (h1 : t ≤ 1) (ha : lo ≤ a ∧ a ≤ hi) (hb : lo ≤ b ∧ b ≤ hi) :
    lo ≤ lin t a b ∧ lin t a b ≤ hi := by
  unfold lin
  constructor
  · nlinarith [mul_nonneg h0 (sub_nonneg.mpr hb.1), mul_nonneg (sub_nonneg.mpr h1) (sub_nonneg.mpr ha.1)]
  · nlinarith [mul_nonneg h0 (sub_nonneg.mpr hb.2), mul_nonneg (sub_nonneg.mpr h1) (sub_nonneg.mpr ha.2)]

theorem sum8_range (t0 t1 t2 lo hi : Rat) (W : Nat → Nat → Nat → Rat)
    (h0 : 0 ≤ t0 ∧ t0 ≤ 1) (h1 : 0 ≤ t1 ∧ t1 ≤ 1) (h2 : 0 ≤ t2 ∧ t2 ≤ 1)
    (hW : ∀ e0 e1 e2, e0 ≤ 1 → e1 ≤ 1 → e2 ≤ 1 → lo ≤ W e0 e1 e2 ∧ W e0 e1 e2 ≤ hi) :
    lo ≤ sum8 t0 t1 t2 W ∧ sum8 t0 t1 t2 W ≤ hi := by
  rw [sum8_lin0]
  have w := fun a b c => hW a b c
  apply lin_range _ _ _ _ _ h0.1 h0.2 <;> apply lin_range _ _ _ _ _ h1.1 h1.2 <;> apply lin_range _ _ _ _ _ h2.1 h2.2 <;>
    exact hW _ _ _ (by omega) (by omega) (by omega)

theorem frac_range (g : Nat → Rat) (m : Nat) (hs : ∀ j, j ≤ m → g j < g (j + 1)) (x : Rat) (hb : inBounds g m x = true) :
    0 ≤ frac g (findIdx g x m) x ∧ frac g (findIdx g x m) x ≤ 1 := by
  obtain ⟨b1, b2⟩ := findIdx_bracket g x m hb
  have hpos := hs _ (findIdx_le g x m)
  unfold frac
  constructor
  · exact div_nonneg (by linarith) (by linarith)
  · rw [div_le_one (by linarith)]; linarith

/-- **no new extrema**: if component `c` of every cell of the original lies in `[lo, hi]` with
`lo ≤ 0 ≤ hi`, so does the interpolant of that component at every position (inside: a convex
combination of cell values; outside: the fill value 0) -/
theorem origAt_range (f : Fld) (hm : Mesh3 f.mesh) (c : Nat) (hc : c < f.nvdim) (lo hi : Rat) (hlo : lo ≤ 0) (hhi : 0 ≤ hi)
    (hdata : ∀ i j k, i < f.mesh.nAt 0 → j < f.mesh.nAt 1 → k < f.mesh.nAt 2 →
      lo ≤ (f.data.get [i, j, k]).getD c 0 ∧ (f.data.get [i, j, k]).getD c 0 ≤ hi) (p : V3) :
    lo ≤ (origAt f p).getD c 0 ∧ (origAt f p).getD c 0 ≤ hi := by
  rw [origAt_getD f p c hc]
  by_cases hin : InPad f p
  · rw [locOf_some f p hin]
    simp only [interpAt]
    apply sum8_range
    · exact frac_range _ _ (fun j hj => gridNode_strict _ _ (hm 0 (by omega)) j hj) _ ((inBounds_iff _ _ _).mpr (hin 0 (by omega)))
    · exact frac_range _ _ (fun j hj => gridNode_strict _ _ (hm 1 (by omega)) j hj) _ ((inBounds_iff _ _ _).mpr (hin 1 (by omega)))
    · exact frac_range _ _ (fun j hj => gridNode_strict _ _ (hm 2 (by omega)) j hj) _ ((inBounds_iff _ _ _).mpr (hin 2 (by omega)))
    · intro e0 e1 e2 _ _ _
      unfold paddedOrig
      exact hdata _ _ _ (padIdx_lt _ _ (hm 0 (by omega)).2) (padIdx_lt _ _ (hm 1 (by omega)).2) (padIdx_lt _ _ (hm 2 (by omega)).2)
  · rw [locOf_none f p hin]
    exact ⟨hlo, hhi⟩

/-! ## superposition -/

theorem rotVal_add (nvdim : Nat) (R : M3) (ord : List Nat) (u v w : List Rat)
    (h : ∀ c, w.getD c 0 = u.getD c 0 + v.getD c 0) (c : Nat) :
    (rotVal nvdim R ord w).getD c 0 = (rotVal nvdim R ord u).getD c 0 + (rotVal nvdim R ord v).getD c 0 := by
  unfold rotVal
  by_cases h1 : nvdim = 1
  · rw [if_pos h1, if_pos h1, if_pos h1, h]
  · rw [if_neg h1, if_neg h1, if_neg h1]
    by_cases hc : c < 3
    · rw [getD_tab _ _ _ _ hc, getD_tab _ _ _ _ hc, getD_tab _ _ _ _ hc, M3.apply_get, M3.apply_get, M3.apply_get]
      simp only [h]
      ring
    · rw [getD_tab_ge _ _ _ _ (by omega), getD_tab_ge _ _ _ _ (by omega), getD_tab_ge _ _ _ _ (by omega)]; ring

/-- the resampled values are additive in the data (same mesh, same component layout) -/
theorem valuesAt_add (f1 f2 f3 : Fld) (hm1 : f1.mesh = f3.mesh) (hm2 : f2.mesh = f3.mesh) (hv1 : f1.nvdim = f3.nvdim)
    (hv2 : f2.nvdim = f3.nvdim)
    (hd : ∀ idx c, (f3.data.get idx).getD c 0 = (f1.data.get idx).getD c 0 + (f2.data.get idx).getD c 0)
    (R : M3) (ord : List Nat) (p : V3) (c : Nat) :
    (valuesAt f3 R ord p).getD c 0 = (valuesAt f1 R ord p).getD c 0 + (valuesAt f2 R ord p).getD c 0 := by
  by_cases hc : c < f3.nvdim
  · rw [valuesAt_getD f3 R ord p c hc, valuesAt_getD f1 R ord p c (by omega), valuesAt_getD f2 R ord p c (by omega)]
    have l1 : locOf f1 p = locOf f3 p := by unfold locOf; rw [hm1]
    have l2 : locOf f2 p = locOf f3 p := by unfold locOf; rw [hm2]
    rw [l1, l2]
    have hp : padded f3 R ord c = fun i j k => 1 * padded f1 R ord c i j k + 1 * padded f2 R ord c i j k := by
      funext i j k
      unfold padded
      rw [hm1, hm2, hv1, hv2, one_mul, one_mul]
      exact rotVal_add _ R ord _ _ _ (fun c' => hd _ c') c
    rw [hp, interpAt_linear]; ring
  · have e3 : (valuesAt f3 R ord p).length = f3.nvdim := valuesAt_length _ _ _ _
    have e1 : (valuesAt f1 R ord p).length = f3.nvdim := by rw [valuesAt_length, hv1]
    have e2 : (valuesAt f2 R ord p).length = f3.nvdim := by rw [valuesAt_length, hv2]
    have gd : ∀ (l : List Rat), l.length = f3.nvdim → l.getD c 0 = 0 := by
      intro l hl
      rw [List.getD_eq_getElem?_getD, List.getElem?_eq_none (by omega)]; rfl
    rw [gd _ e3, gd _ e1, gd _ e2]; ring

end DFV.C18
