import DFV.Lemmas.C20HeapLight
/-!
C20 helper lemmas, eleventh part: the default plot `field.mpl()` on the heap refines the value
model — `scalar` of a FRESH component field composed with `vector` of the field itself, on one
heap.
-/
namespace DFV.C20
open DFV

theorem auxOnMesh_congr_n (f f' g : Fld) (hm : f'.mesh.n = f.mesh.n) : auxOnMesh f' g = auxOnMesh f g := by
  unfold auxOnMesh; rw [hm]

/-- `_filter_values` on any buffer `R` of the heap against the filter step of the value model for
ANY value field `fA` that has the cell counts of `f` and reads `f`'s validity at every cell -/
theorem filterValuesH_keepA (H : AHeap) (f F : HFld) (fA FA : Fld) (R : Nat)
    (hf : f.On H) (hR : R < H.length) (hmesh : fA.mesh.n = f.mesh.n)
    (hval : ∀ x y, fA.valid.get [x, y] = f.validAt H [x, y])
    (hF1 : FA.nvdim = F.nvdim) (hF2 : FA.mesh = F.mesh)
    (hsame : F.mesh.n = f.mesh.n → F.nvdim = 1 →
      ∀ x y, (H.buf F.arr [x, y, 0]).getD 0 = (FA.data.get [x, y]).getD 0 0)
    (hother : F.mesh.n ≠ f.mesh.n → F.abs H = FA) :
    match filterKeep fA FA with
    | .error e => filterValuesH H f F R = .error e
    | .ok keep => ∃ H', filterValuesH H f F R = .ok H' ∧ H.length ≤ H'.length ∧
        (∀ a, a < H.length → a ≠ R → H'.buf a = H.buf a) ∧
        ∀ x y (i : List Nat), i.take 2 = [x, y] →
          H'.buf R i = if keep.get [x, y] then H.buf R i else none := by
  unfold filterKeep
  by_cases c1 : F.nvdim ≠ 1
  · rw [if_pos (by rw [hF1]; exact c1)]
    simp only []
    unfold filterValuesH
    rw [if_pos c1]
  · rw [if_neg (by rw [hF1]; exact c1)]
    by_cases c2 : F.mesh.region.ndim ≠ 2
    · rw [if_pos (by rw [hF2]; exact c2)]
      simp only []
      unfold filterValuesH
      rw [if_neg c1, if_pos c2]
    · rw [if_neg (by rw [hF2]; exact c2)]
      have g1 : F.nvdim = 1 := not_not.mp c1
      have g2 : F.mesh.region.ndim = 2 := not_not.mp c2
      by_cases hn : F.mesh.n = f.mesh.n
      · rw [auxOnMesh_same fA FA (by rw [hF2, hmesh]; exact hn)]
        simp only []
        rw [filterValuesH_same H f F R hn g1 g2]
        refine ⟨_, rfl, by rw [nanWhere_len, nanWhere_len], ?_, fun x y i hi => ?_⟩
        · intro a _ hne
          rw [buf_nanWhere_ne _ _ _ _ hne, buf_nanWhere_ne _ _ _ _ hne]
        · rw [buf_two_writes _ _ _ _ hR]
          simp only [hi]
          show (if (!f.validAt H [x, y]) = true then none else
            if decide ((H.buf F.arr [x, y, 0]).getD 0 = 0) = true then none else H.buf R i) = _
          rw [← hval x y, hsame hn g1 x y]
          show _ = if (!decide ((FA.data.get [x, y]).getD 0 0 = 0) && fA.valid.get [x, y]) = true then _ else _
          cases fA.valid.get [x, y] <;> by_cases hz : (FA.data.get [x, y]).getD 0 0 = 0 <;> simp
      · rw [filterValuesH_other H f F R hn g1 g2, hother hn,
          auxOnMesh_congr_n fA (f.abs H) FA (by show f.mesh.n = fA.mesh.n; exact hmesh.symm)]
        cases ha : auxOnMesh fA FA with
        | error e => rfl
        | ok a =>
          simp only []
          refine ⟨_, rfl, by rw [nanWhere_len, nanWhere_len, alloc_len]; omega, ?_, fun x y i hi => ?_⟩
          · intro b hb hne
            rw [buf_nanWhere_ne _ _ _ _ hne, buf_nanWhere_ne _ _ _ _ hne, buf_alloc_lt _ _ _ hb]
          · rw [buf_two_writes _ _ _ _ (by rw [alloc_len]; omega)]
            simp only [hi]
            show (if (!f.validAt (H.alloc _).1 [x, y]) = true then none else
              if decide (((H.alloc _).1.buf H.length [x, y, 0]).getD 0 = 0) = true then none
              else (H.alloc _).1.buf R i) = _
            rw [validAt_frame _ _ f (frame_alloc H _) hf, ← hval x y, buf_alloc_new, buf_alloc_lt _ _ _ hR]
            show _ = if (!decide ((a.get [x, y]).getD 0 0 = 0) && fA.valid.get [x, y]) = true then _ else _
            cases fA.valid.get [x, y] <;> by_cases hz : (a.get [x, y]).getD 0 0 = 0 <;> simp

/-- `FilterRel` mentions the plotted field only through its cell counts -/
theorem FilterRel.congr {H : AHeap} {f f' F : HFld} {FA : Fld} (r : FilterRel H f F FA)
    (hm : f'.mesh.n = f.mesh.n) : FilterRel H f' F FA :=
  ⟨r.on, r.nvdim, r.mesh, fun hn h1 => r.same (by rw [← hm]; exact hn) h1,
   fun hn => r.other (by rw [← hm]; exact hn)⟩

/-- **The scalar plot on the heap with a given filter object, against any value field that reads
the same at the cells.**  `f` is a one-component field on the heap `H` with numbers in its array;
`fA` a value field on the same mesh whose component 0 and validity agree with `f` at every cell
`[x, y]`; the filter object `F` stands in `FilterRel` to the value filter `FA`.  Then `scalar` on
the heap hands over what `mplScalar fA` does. -/
theorem scalarH_refinesA (H : AHeap) (f F : HFld) (fA FA : Fld) (o : HOpts) (oA : Opts)
    (hinv : f.mesh.Inv) (hf : f.On H) (hnum : ∀ i, (H.buf f.arr i).isSome) (hnv : f.nvdim = 1)
    (hmesh : fA.mesh = f.mesh) (hnvA : fA.nvdim = 1)
    (hdata : ∀ x y, (fA.data.get [x, y]).getD 0 0 = (H.buf f.arr [x, y, 0]).getD 0)
    (hval : ∀ x y, fA.valid.get [x, y] = f.validAt H [x, y])
    (rel : FilterRel H f F FA) (m : Rat) (hom : o.mult = some m) (hof : o.filter = some F)
    (hoAm : oA.mult = some m) (hoAf : oA.filter = some FA) :
    (scalarH H f o).2 = mplScalar fA oA := by
  unfold scalarH mplScalar
  rw [hmesh, hnvA, hnv]
  by_cases h2 : f.mesh.region.ndim ≠ 2
  · rw [if_pos h2, if_pos h2]
  · rw [if_neg h2, if_neg h2, if_neg (by omega), if_neg (by omega)]
    have h2' : f.mesh.region.ndim = 2 := not_not.mp h2
    have hn : f.mesh.n.length = 2 := by rw [hinv.2.1, h2']
    rw [hom, hoAm]
    simp only [setupMultiplier, scalarCore, hmesh]
    cases extent f.mesh.region m with
    | error e => rfl
    | ok ext =>
      simp only []
      have hfo : filterOf fA oA = FA := by unfold filterOf; rw [hoAf]; rfl
      rw [hfo, hof]
      -- the copy `values`
      have fr1 : Frame H (H.alloc fun i => H.buf f.arr (i.take 2 ++ [0])).1 := frame_alloc H _
      have hV : H.length < (H.alloc fun i => H.buf f.arr (i.take 2 ++ [0])).1.length := by
        rw [alloc_len]; omega
      have hf1 : f.On (H.alloc fun i => H.buf f.arr (i.take 2 ++ [0])).1 :=
        ⟨Nat.lt_of_lt_of_le hf.1 fr1.1, Nat.lt_of_lt_of_le hf.2 fr1.1⟩
      have key := filterValuesH_keepA (H.alloc fun i => H.buf f.arr (i.take 2 ++ [0])).1 f F fA FA H.length
        hf1 hV (by rw [hmesh]) (fun x y => by rw [hval x y, validAt_frame _ _ f fr1 hf])
        rel.nvdim rel.mesh (rel.frame fr1).same (rel.frame fr1).other
      unfold maskedValuesH
      simp only [filterFieldH]
      cases hk : filterKeep fA FA with
      | error e =>
        rw [hk] at key
        simp only [] at key
        rw [key]
      | ok keep =>
        rw [hk] at key
        obtain ⟨H', hH', _, _, hb⟩ := key
        rw [hH']
        simp only []
        cases axisLabels f.mesh.region m with
        | error e => rfl
        | ok lab =>
          simp only []
          congr 3
          refine imgOfBuf_eq f.mesh.n hn _ keep _ (fun x y => ?_)
          rw [hb x y [x, y] rfl, buf_alloc_new]
          show (if keep.get [x, y] = true then H.buf f.arr [x, y, 0] else none) = _
          rw [hdata x y]
          have := hnum [x, y, 0]
          cases hb' : H.buf f.arr [x, y, 0] with
          | none => rw [hb'] at this; cases this
          | some v => rfl

/-! ## derived fields: what their fresh buffers hold -/

theorem derivedH_len (h : AHeap) (f : HFld) (vals : List Nat → Rat) :
    (derivedH h f vals).1.length = h.length + 2 := by
  unfold derivedH; simp only [alloc_len]

theorem derivedH_arr (h : AHeap) (f : HFld) (vals : List Nat → Rat) (i : List Nat) :
    (derivedH h f vals).1.buf h.length i = some (vals i.dropLast) := by
  show ((h.alloc _).1.alloc _).1.buf h.length i = _
  rw [buf_alloc_lt _ _ _ (by rw [alloc_len]; omega), buf_alloc_new]

theorem derivedH_val (h : AHeap) (f : HFld) (vals : List Nat → Rat) (i : List Nat) :
    (derivedH h f vals).1.buf (h.length + 1) i = some (if f.validAt h (i.take 2) then 1 else 0) := by
  show ((h.alloc _).1.alloc _).1.buf (h.length + 1) i = _
  have : (h.alloc fun i => some (vals i.dropLast)).1.length = h.length + 1 := alloc_len _ _
  rw [← this, buf_alloc_new]

theorem On.frame {h h' : AHeap} {g : HFld} (hg : g.On h) (fr : Frame h h') : g.On h' :=
  ⟨Nat.lt_of_lt_of_le hg.1 fr.1, Nat.lt_of_lt_of_le hg.2 fr.1⟩

/-- the options handed to the scalar / vector part, as values -/
theorem oabs_with_mult (h : AHeap) (o : HOpts) (m : Rat) :
    ({ o with mult := some m } : HOpts).abs h = { o.abs h with mult := some m } := rfl

/-- **The default plot on the heap refines the value model**: `scalar` of a fresh component field
(three components) or of the field itself (one), with the default filter built from the PLOTTED
field, composed with `vector` on the heap the scalar part left behind. -/
theorem defaultH_refines (h : AHeap) (f : HFld) (o : HOpts) (hinv : f.mesh.Inv) (hf : f.On h)
    (hnum : ∀ i, (h.buf f.arr i).isSome) (hflt : ∀ g, o.filter = some g → g.On h)
    (haux : ∀ g, o.aux = some g → g.On h) (hlab : ∀ vs, f.vdims = some vs → vs.length ≤ f.nvdim) :
    (defaultH h f o).2 = mplDefault (f.abs h) (o.abs h) := by
  unfold defaultH mplDefault
  by_cases h2 : f.mesh.region.ndim ≠ 2
  · rw [if_pos h2, if_pos (show (f.abs h).mesh.region.ndim ≠ 2 from h2)]
  · rw [if_neg h2, if_neg (show ¬ (f.abs h).mesh.region.ndim ≠ 2 from h2), oabs_mult]
    cases setupMultiplier (f.abs h) o.mult with
    | error e => rfl
    | ok m =>
      simp only [abs_mesh]
      by_cases hn1 : f.nvdim = 1
      · -- one component: the field itself, filter built in `__call__`
        rw [if_pos hn1, if_pos (show (f.abs h).nvdim = 1 from hn1)]
        have frF : Frame h (filterFieldH h f o.filter).1 := frame_filterFieldH h f o.filter
        have key := scalarH_refinesA (filterFieldH h f o.filter).1 f (filterFieldH h f o.filter).2
          (f.abs h) (filterOf (f.abs h) (o.abs h))
          { o with mult := some m, filter := some (filterFieldH h f o.filter).2 }
          { o.abs h with mult := some m, filter := some (filterOf (f.abs h) (o.abs h)) }
          hinv (On.frame hf frF) (fun i => by rw [frF.2 _ hf.1]; exact hnum i) hn1 rfl hn1
          (fun x y => by rw [frF.2 _ hf.1]; exact abs_data_one h f hn1 x y)
          (fun x y => (validAt_frame _ _ f frF hf _).symm)
          (filterFieldH_rel h f o hf hflt) m rfl rfl rfl rfl
        rw [key]
        cases mplScalar (f.abs h)
            { o.abs h with mult := some m, filter := some (filterOf (f.abs h) (o.abs h)) } with
        | error e => rfl
        | ok cs =>
          simp only []
          cases axisLabels f.mesh.region m with
          | error e => rfl
          | ok lab => rfl
      · rw [if_neg hn1, if_neg (show ¬ (f.abs h).nvdim = 1 from hn1)]
        by_cases hn2 : f.nvdim = 2
        · rw [if_pos hn2, if_pos (show (f.abs h).nvdim = 2 from hn2)]
          have key := vectorH_refines h f { o with mult := some m } hinv hf hnum hflt haux hlab
          rw [oabs_with_mult] at key
          rw [key]
          cases mplVector (f.abs h) { o.abs h with mult := some m } with
          | error e => rfl
          | ok cv =>
            simp only []
            cases axisLabels f.mesh.region m with
            | error e => rfl
            | ok lab => rfl
        · rw [if_neg hn2, if_neg (show ¬ (f.abs h).nvdim = 2 from hn2)]
          by_cases hn3 : f.nvdim = 3
          · rw [if_pos hn3, if_pos (show (f.abs h).nvdim = 3 from hn3)]
            rw [show thirdComp (f.abs h) (inplaneVdims (f.abs h)) (o.abs h).pick =
              thirdComp (f.abs h) (inplaneVdims (f.abs h)) o.pick from rfl]
            cases thirdComp (f.abs h) (inplaneVdims (f.abs h)) o.pick with
            | error e => rfl
            | ok c =>
              simp only []
              -- heaps: after `getattr(field, label)`, after the default filter, after `scalar`
              have fr1 : Frame h (compFieldH h f c).1 := frame_compFieldH h f c
              have fr2 : Frame (compFieldH h f c).1 (filterFieldH (compFieldH h f c).1 f o.filter).1 :=
                frame_filterFieldH _ f o.filter
              have fr12 := fr1.trans fr2
              have hlen1 : (compFieldH h f c).1.length = h.length + 2 := derivedH_len h f _
              have hf' : (compFieldH h f c).2.On (compFieldH h f c).1 :=
                ⟨by show h.length < _; rw [hlen1]; omega, by show h.length + 1 < _; rw [hlen1]; omega⟩
              have hflt1 : ∀ g, o.filter = some g → g.On (compFieldH h f c).1 :=
                fun g hg => On.frame (hflt g hg) fr1
              have rel0 := filterFieldH_rel (compFieldH h f c).1 f o (On.frame hf fr1) hflt1
              rw [abs_frame _ _ f fr1 hf, oabs_frame _ _ o fr1 hflt haux] at rel0
              have rel : FilterRel (filterFieldH (compFieldH h f c).1 f o.filter).1 (compFieldH h f c).2
                  (filterFieldH (compFieldH h f c).1 f o.filter).2 (filterOf (f.abs h) (o.abs h)) :=
                rel0.congr rfl
              have harr : ∀ i, (filterFieldH (compFieldH h f c).1 f o.filter).1.buf (compFieldH h f c).2.arr i =
                  some (((f.abs h).data.get i.dropLast).getD c 0) := by
                intro i
                rw [fr2.2 _ hf'.1]
                exact derivedH_arr h f _ i
              have hvalb : ∀ i, (filterFieldH (compFieldH h f c).1 f o.filter).1.buf (compFieldH h f c).2.val i =
                  some (if f.validAt h (i.take 2) then 1 else 0) := by
                intro i
                rw [fr2.2 _ hf'.2]
                exact derivedH_val h f _ i
              have keyS := scalarH_refinesA (filterFieldH (compFieldH h f c).1 f o.filter).1 (compFieldH h f c).2
                (filterFieldH (compFieldH h f c).1 f o.filter).2
                (compField (f.abs h) c) (filterOf (f.abs h) (o.abs h))
                { o with mult := some m, filter := some (filterFieldH (compFieldH h f c).1 f o.filter).2 }
                { o.abs h with mult := some m, filter := some (filterOf (f.abs h) (o.abs h)) }
                hinv (On.frame hf' fr2) (fun i => by rw [harr i]; rfl) rfl rfl rfl
                (fun x y => by rw [harr]; rfl)
                (fun x y => by
                  show f.validAt h [x, y] = ((filterFieldH (compFieldH h f c).1 f o.filter).1.buf
                    (compFieldH h f c).2.val [x, y] == some 1)
                  rw [hvalb]
                  show _ = (some (if f.validAt h [x, y] = true then (1 : Rat) else 0) == some 1)
                  cases f.validAt h [x, y] <;> decide)
                rel m rfl rfl rfl rfl
              rw [keyS]
              cases mplScalar (compField (f.abs h) c)
                  { o.abs h with mult := some m, filter := some (filterOf (f.abs h) (o.abs h)) } with
              | error e => rfl
              | ok cs =>
                simp only []
                have fr3 : Frame h (scalarH (filterFieldH (compFieldH h f c).1 f o.filter).1 (compFieldH h f c).2
                    { o with mult := some m, filter := some (filterFieldH (compFieldH h f c).1 f o.filter).2 }).1 :=
                  fr12.trans (frame_scalarH _ _ _)
                have keyV := vectorH_refines _ f { o with mult := some m } hinv (On.frame hf fr3)
                  (fun i => by rw [fr3.2 _ hf.1]; exact hnum i)
                  (fun g hg => On.frame (hflt g hg) fr3) (fun g hg => On.frame (haux g hg) fr3) hlab
                rw [abs_frame _ _ f fr3 hf, oabs_frame _ _ { o with mult := some m } fr3 hflt haux, oabs_with_mult] at keyV
                rw [keyV]
                cases mplVector (f.abs h) { o.abs h with mult := some m } with
                | error e => rfl
                | ok cv =>
                  simp only []
                  cases axisLabels f.mesh.region m with
                  | error e => rfl
                  | ok lab => rfl
          · rw [if_neg hn3, if_neg (show ¬ (f.abs h).nvdim = 3 from hn3)]

end DFV.C20
