import DFV.Lemmas.C14Step
/-! C14: the subregion setter accepts every exactly fitting box (completeness of the three
tolerant tests at tolerance-free inputs). -/
namespace DFV.C14
open DFV DFV.T DFV.Mesh

theorem containsAx_of_exact' (r : Region) (a : Nat) (x : Rat) (h1 : r.lo a ≤ x) (h2 : x ≤ r.hi a) :
    r.containsAx a x = true := by
  unfold Region.containsAx
  simp [h1, h2]

theorem foldl_min_pos' (xs : List Rat) (x : Rat) (hx : 0 < x) (h : ∀ y ∈ xs, 0 < y) : 0 < xs.foldl min x := by
  induction xs generalizing x with
  | nil => simpa
  | cons y ys ih =>
    simp only [List.foldl_cons]
    exact ih (min x y) (lt_min hx (h y (by simp))) fun z hz => h z (by simp [hz])

theorem listMin_nonneg' (xs : List Rat) (h : ∀ y ∈ xs, 0 < y) : 0 ≤ listMin xs := by
  cases xs with
  | nil => simp [listMin]
  | cons x xs => exact (foldl_min_pos' xs x (h x (by simp)) fun y hy => h y (by simp [hy])).le

theorem roundHalfEven_int' (k : Int) : roundHalfEven (k : Rat) = k := by
  unfold roundHalfEven
  have hf : ((k : Rat)).floor = k := rat_floor_eq _ k (le_refl _) (by linarith)
  rw [hf]
  simp

/-- whole-cell offsets pass the remainder test for every tolerance `t ≥ 0` -/
theorem aligned_of_whole' (d c t : Rat) (hc : 0 < c) (ht : 0 ≤ t) (z : Int) (hz : absR d = (z : Rat) * c) :
    misalignedAx d c t = false := by
  unfold misalignedAx
  rw [hz, remainder_of_multiple z c hc]
  have : ¬ (t < 0) := not_lt.mpr ht
  simp [this]

theorem isAligned_of_exact' (m o : Mesh) (t : Rat) (ht : 0 ≤ t)
    (h : ∀ a, a < m.ndim → m.cellAt a = o.cellAt a ∧ 0 < m.cellAt a ∧
      (∃ z : Int, absR (m.region.lo a - o.region.lo a) = (z : Rat) * m.cellAt a) ∧
      (∃ z : Int, absR (m.region.hi a - o.region.hi a) = (z : Rat) * m.cellAt a)) :
    isAligned m o t = true := by
  unfold isAligned
  have h1 : allLt m.ndim (fun a => allcloseAx (m.cellAt a) (o.cellAt a) t) = true := by
    rw [allLt_iff]; intro a ha
    obtain ⟨he, _, _, _⟩ := h a ha
    unfold allcloseAx
    rw [he]
    have := absR_nonneg (o.cellAt a)
    have h0 : absR (o.cellAt a - o.cellAt a) = 0 := by simp [absR]
    rw [h0]
    simp only [decide_eq_true_eq]
    have : 0 ≤ absR (o.cellAt a) / 100000 := div_nonneg this (by norm_num)
    linarith
  have h2 : allLt m.ndim (fun a => !misalignedAx (m.region.lo a - o.region.lo a) (m.cellAt a) t) = true := by
    rw [allLt_iff]; intro a ha
    obtain ⟨_, hc, ⟨z, hz⟩, _⟩ := h a ha
    rw [aligned_of_whole' _ _ _ hc ht z hz]; rfl
  have h3 : allLt m.ndim (fun a => !misalignedAx (m.region.hi a - o.region.hi a) (m.cellAt a) t) = true := by
    rw [allLt_iff]; intro a ha
    obtain ⟨_, hc, _, ⟨z, hz⟩⟩ := h a ha
    rw [aligned_of_whole' _ _ _ hc ht z hz]; rfl
  rw [h1, h2, h3]; rfl

/-- a mesh requested by cell size exists whenever every edge is exactly a whole number (≥ 1) of cells -/
theorem mkCell_exact (r : Region) (cell : List Rat) (k : Nat → Nat)
    (hlen : cell.length = r.ndim) (hc : ∀ a, a < r.ndim → 0 < cell.getD a 0)
    (hk : ∀ a, a < r.ndim → 0 < k a ∧ r.edge a = (k a : Rat) * cell.getD a 0) :
    Mesh.mkCell? r cell = .ok { region := r, n := tab r.ndim k, bc := "", subs := [] } := by
  have hpos : ∀ c ∈ cell, 0 < c := by
    intro c hcm
    obtain ⟨a, ha, rfl⟩ := List.mem_iff_getElem.mp hcm
    have := hc a (by rw [← hlen]; exact ha)
    rwa [List.getD_eq_getElem?_getD, List.getElem?_eq_getElem ha] at this
  unfold Mesh.mkCell?
  rw [if_neg (not_not.mpr hlen)]
  have h1 : cell.any (fun c => decide (c ≤ 0)) = false := by
    rw [List.any_eq_false]; intro c hcm; have := hpos c hcm; simp; exact this
  rw [h1]
  simp only [Bool.false_eq_true, if_false]
  have h2 : r.containsPt (tab r.ndim fun a => r.lo a + cell.getD a 0) = true := by
    unfold Region.containsPt
    simp only [tab_length, decide_true, Bool.true_and]
    rw [allLt_iff]; intro a ha
    rw [getD_tab _ _ _ _ ha]
    obtain ⟨hk0, hke⟩ := hk a ha
    have hca := hc a ha
    have e1 : r.lo a ≤ r.lo a + cell.getD a 0 := by linarith
    have e2 : r.lo a + cell.getD a 0 ≤ r.hi a := by
      unfold Region.edge at hke
      have : (1 : Rat) ≤ (k a : Rat) := by exact_mod_cast hk0
      nlinarith
    exact containsAx_of_exact' _ _ _ e1 e2
  rw [h2]
  simp only [Bool.not_true, Bool.false_eq_true, if_false]
  have h3 : allLt r.ndim (fun a => !notDivisible (r.edge a) (cell.getD a 0) (listMin cell / 1000)) = true := by
    rw [allLt_iff]; intro a ha
    obtain ⟨_, hke⟩ := hk a ha
    unfold notDivisible
    have : remainder (r.edge a) (cell.getD a 0) = 0 := by
      rw [hke]
      have := remainder_of_multiple (k a : Int) (cell.getD a 0) (hc a ha)
      simpa using this
    rw [this]
    have hn : ¬ (listMin cell / 1000 < 0) := by
      have := listMin_nonneg' cell hpos
      intro h; have : listMin cell < 0 := by linarith
      linarith
    simp [hn]
  rw [h3]
  simp only [Bool.not_true, Bool.false_eq_true, if_false]
  have h3b : allLt r.ndim (fun a => decide (1 ≤ (roundHalfEven (r.edge a / cell.getD a 0)).toNat)) = true := by
    rw [allLt_iff]; intro a ha
    obtain ⟨hk0, hke⟩ := hk a ha
    have hca := hc a ha
    have : r.edge a / cell.getD a 0 = ((k a : Int) : Rat) := by
      rw [hke]; field_simp; simp
    rw [this, roundHalfEven_int']
    simp only [Int.toNat_natCast, decide_eq_true_eq]
    omega
  rw [h3b]
  simp only [Bool.not_true, Bool.false_eq_true, if_false]
  have hbc : bcOk r.dims ("" : String).toLower = true := by
    have : ("" : String).toLower = "" := by simp [String.toLower]
    rw [this]; simp [bcOk]
  rw [hbc]
  simp only [Bool.not_true, Bool.false_eq_true, if_false]
  have h5 : (tab r.ndim fun a => (roundHalfEven (r.edge a / cell.getD a 0)).toNat) = tab r.ndim k := by
    apply tab_congr; intro a ha
    obtain ⟨_, hke⟩ := hk a ha
    have hca := hc a ha
    have : r.edge a / cell.getD a 0 = ((k a : Int) : Rat) := by
      rw [hke]; field_simp; simp
    rw [this, roundHalfEven_int']; simp
  rw [h5]
  have : ("" : String).toLower = "" := by simp [String.toLower]
  rw [this]

theorem n_mul_cell (m : Mesh) (hm : m.Inv) (a : Nat) (ha : a < m.ndim) :
    (m.nAt a : Rat) * m.cellAt a = m.region.hi a - m.region.lo a := by
  have hn : (0 : Rat) < (m.nAt a : Rat) := by exact_mod_cast hm.2.2 a ha
  unfold Mesh.cellAt Region.edge
  field_simp

/-- "inside": an exactly fitting box lies within the region, lower corner below upper corner -/
theorem fits_bounds (m : Mesh) (hm : m.Inv) (s : Region) (h : FitsE m s) (a : Nat) (ha : a < m.ndim) :
    m.region.lo a ≤ s.lo a ∧ s.lo a < s.hi a ∧ s.hi a ≤ m.region.hi a := by
  obtain ⟨z, w, hz0, hw0, hzw, hz, hw⟩ := h.2.2 a ha
  have hc := cellAt_pos m hm a ha
  have hnc := n_mul_cell m hm a ha
  have hzq : (0 : Rat) ≤ (z : Rat) := by exact_mod_cast hz0
  have hwq : (0 : Rat) < (w : Rat) := by exact_mod_cast hw0
  have hzwq : (z : Rat) + (w : Rat) ≤ (m.nAt a : Rat) := by exact_mod_cast hzw
  have h1 := mul_nonneg hzq hc.le
  have h2 := mul_pos hwq hc
  have h3 := mul_le_mul_of_nonneg_right hzwq hc.le
  refine ⟨by linarith, by linarith, by nlinarith⟩

theorem subOk_of_fits (m : Mesh) (hm : m.Inv) (s : Region) (h : FitsE m s) : subOk m s = true := by
  have hb := fits_bounds m hm s h
  obtain ⟨hl1, hl2, hax⟩ := h
  have hsn : s.ndim = m.ndim := hl1
  -- inside
  have hin : m.region.containsReg s = true := by
    unfold Region.containsReg Region.containsPt
    have e1 : decide (s.pmin.length = m.region.ndim) = true := decide_eq_true hl1
    have e2 : decide (s.pmax.length = m.region.ndim) = true := decide_eq_true hl2
    rw [e1, e2]
    simp only [Bool.true_and, Bool.and_eq_true]
    constructor
    · rw [allLt_iff]; intro a ha
      obtain ⟨b1, b2, b3⟩ := hb a ha
      exact containsAx_of_exact' _ _ _ b1 (by show s.lo a ≤ _; linarith)
    · rw [allLt_iff]; intro a ha
      obtain ⟨b1, b2, b3⟩ := hb a ha
      exact containsAx_of_exact' _ _ _ (by show _ ≤ s.hi a; linarith) b3
  -- whole cells
  have hcell : ∀ a, a < m.ndim → m.cell.getD a 0 = m.cellAt a := by
    intro a ha; unfold Mesh.cell; rw [getD_tab _ _ _ _ ha]
  have hk : ∀ a, a < s.ndim → 0 < (roundHalfEven (s.edge a / m.cellAt a)).toNat ∧
      s.edge a = (((roundHalfEven (s.edge a / m.cellAt a)).toNat : Nat) : Rat) * m.cell.getD a 0 := by
    intro a ha
    rw [hsn] at ha
    obtain ⟨z, w, hz0, hw0, hzw, hz, hw⟩ := hax a ha
    have hc := cellAt_pos m hm a ha
    have : s.edge a / m.cellAt a = (w : Rat) := by
      unfold Region.edge; rw [hw]; field_simp
    rw [this, roundHalfEven_int', hcell a ha]
    have hwn : ((w.toNat : Nat) : Rat) = (w : Rat) := by
      have : ((w.toNat : Nat) : Int) = w := Int.toNat_of_nonneg hw0.le
      exact_mod_cast this
    refine ⟨by omega, ?_⟩
    rw [hwn]; exact hw
  have hmk := mkCell_exact s m.cell (fun a => (roundHalfEven (s.edge a / m.cellAt a)).toNat)
    (by unfold Mesh.cell; rw [tab_length, hsn])
    (fun a ha => by rw [hcell a (hsn ▸ ha)]; exact cellAt_pos m hm a (hsn ▸ ha)) hk
  unfold subOk
  rw [hin, hmk]
  simp only [Bool.true_and]
  apply isAligned_of_exact' _ _ _ (by norm_num)
  intro a ha
  obtain ⟨z, w, hz0, hw0, hzw, hz, hw⟩ := hax a ha
  have hc := cellAt_pos m hm a ha
  have hnc := n_mul_cell m hm a ha
  obtain ⟨hk0, hke⟩ := hk a (hsn ▸ ha)
  rw [hcell a ha] at hke
  refine ⟨?_, hc, ⟨z, ?_⟩, ⟨(m.nAt a : Int) - z - w, ?_⟩⟩
  · -- equal cells
    show m.cellAt a = s.edge a / ((tab s.ndim fun a => (roundHalfEven (s.edge a / m.cellAt a)).toNat).getD a 0 : Nat)
    rw [getD_tab _ _ _ _ (hsn ▸ ha)]
    have hkq : (0 : Rat) < (((roundHalfEven (s.edge a / m.cellAt a)).toNat : Nat) : Rat) := by exact_mod_cast hk0
    generalize (roundHalfEven (s.edge a / m.cellAt a)).toNat = K at hke hkq ⊢
    rw [eq_div_iff hkq.ne', hke]; ring
  · show absR (m.region.lo a - s.lo a) = _
    have hzq : (0 : Rat) ≤ (z : Rat) := by exact_mod_cast hz0
    have := mul_nonneg hzq hc.le
    rw [absR_eq_abs, abs_of_nonpos (by linarith)]; linarith
  · show absR (m.region.hi a - s.hi a) = _
    have hzwq : (z : Rat) + (w : Rat) ≤ (m.nAt a : Rat) := by exact_mod_cast hzw
    have h3 := mul_le_mul_of_nonneg_right hzwq hc.le
    push_cast
    rw [absR_eq_abs, abs_of_nonneg (by nlinarith)]
    nlinarith

/-- `FitsE` only looks at the region, the counts and the corners -/
theorem fitsE_congr (m m' : Mesh) (s s' : Region) (hr : m'.region = m.region) (hn : m'.n = m.n)
    (h1 : s'.pmin = s.pmin) (h2 : s'.pmax = s.pmax) (h : FitsE m s) : FitsE m' s' := by
  simp only [FitsE, Mesh.ndim, Mesh.nAt, Mesh.cellAt, Region.lo, Region.hi, Region.edge] at h ⊢
  rw [hr, hn, h1, h2]; exact h

/-- what the setter tests for a candidate of the mesh's dimension: the copy that is going to be stored -/
theorem candOk_eq (m : Mesh) (s : Region) (h : s.pmin.length = m.ndim) : candOk m s = subOk m (stampFor m.region s) := by
  unfold candOk
  have : s.ndim = m.ndim := h
  rw [if_pos this]

/-- a candidate of another dimension is refused -/
theorem candOk_ndim (m : Mesh) (s : Region) (h : candOk m s = true) : s.pmin.length = m.ndim := by
  by_contra hn
  unfold candOk at h
  have : ¬ s.ndim = m.ndim := hn
  rw [if_neg this] at h
  unfold subOk Region.containsReg Region.containsPt at h
  simp only [Bool.and_eq_true, decide_eq_true_eq] at h
  exact hn h.1.1.1

/-- an exactly fitting candidate passes, whatever names, units and tolerance factor it carries -/
theorem candOk_of_fits (m : Mesh) (hm : m.Inv) (s : Region) (h : FitsE m s) : candOk m s = true := by
  rw [candOk_eq m s h.1]
  exact subOk_of_fits m hm _ (fitsE_congr m m s _ rfl rfl rfl rfl h)

/-- the re-creation of an accepted candidate with the mesh's metadata -/
def restamp (r : Region) (p : String × Region) : String × Region :=
  (p.1, { pmin := p.2.pmin, pmax := p.2.pmax, dims := r.dims, units := r.units, tol := r.tol })

theorem setSubs_ok_eq (m m' : Mesh) (subs : List (String × Region)) (h : setSubs m subs = .ok m') :
    m' = { m with subs := subs.map (restamp m.region) } ∧ ∀ p ∈ subs, candOk m p.2 = true := by
  unfold setSubs at h
  split at h
  · rename_i hall
    injection h with h
    exact ⟨h.symm, fun p hp => List.all_eq_true.mp hall p hp⟩
  · cases h

/-- **Completeness of the setter**: every candidate set of exactly fitting boxes (whatever names,
units, tolerance they carry) is accepted, and the mesh then satisfies `SubInv`. -/
theorem setSubs_of_fits (m : Mesh) (hm : m.Inv) (subs : List (String × Region)) (h : ∀ p ∈ subs, FitsE m p.2) :
    setSubs m subs = .ok { m with subs := subs.map (restamp m.region) } ∧
    SubInv { m with subs := subs.map (restamp m.region) } := by
  constructor
  · unfold setSubs
    have : subs.all (fun p => candOk m p.2) = true := by
      rw [List.all_eq_true]; intro p hp; exact candOk_of_fits m hm p.2 (h p hp)
    rw [if_pos this]; rfl
  · intro q hq
    obtain ⟨p, hp, rfl⟩ := List.mem_map.mp hq
    exact ⟨rfl, rfl, rfl, fitsE_congr m _ p.2 _ rfl rfl rfl rfl (h p hp)⟩
theorem cell_getD (m : Mesh) (a : Nat) (ha : a < m.ndim) : m.cell.getD a 0 = m.cellAt a := by
  unfold Mesh.cell; rw [getD_tab _ _ _ _ ha]

/-- the mesh built with the parent's cell size on an exactly fitting box: it exists, has that box
as region, exactly the parent's cell size, and as many cells as the box is long -/
theorem mkCell_of_fits (m : Mesh) (hm : m.Inv) (s : Region) (h : FitsE m s) :
    ∃ g, Mesh.mkCell? s m.cell = .ok g ∧ g.region = s ∧ g.subs = [] ∧
      ∀ a, a < m.ndim → g.cellAt a = m.cellAt a ∧ 0 < g.nAt a ∧ (g.nAt a : Rat) * m.cellAt a = s.edge a := by
  obtain ⟨hl1, hl2, hax⟩ := h
  have hsn : s.ndim = m.ndim := hl1
  have hk : ∀ a, a < s.ndim → 0 < (roundHalfEven (s.edge a / m.cellAt a)).toNat ∧
      s.edge a = (((roundHalfEven (s.edge a / m.cellAt a)).toNat : Nat) : Rat) * m.cell.getD a 0 := by
    intro a ha
    rw [hsn] at ha
    obtain ⟨z, w, hz0, hw0, hzw, hz, hw⟩ := hax a ha
    have hc := cellAt_pos m hm a ha
    have : s.edge a / m.cellAt a = (w : Rat) := by
      unfold Region.edge; rw [hw]; field_simp
    rw [this, roundHalfEven_int', cell_getD m a ha]
    have hwn : ((w.toNat : Nat) : Rat) = (w : Rat) := by
      have : ((w.toNat : Nat) : Int) = w := Int.toNat_of_nonneg hw0.le
      exact_mod_cast this
    refine ⟨by omega, ?_⟩
    rw [hwn]; exact hw
  have hmk := mkCell_exact s m.cell (fun a => (roundHalfEven (s.edge a / m.cellAt a)).toNat)
    (by unfold Mesh.cell; rw [tab_length, hsn])
    (fun a ha => by rw [cell_getD m a (hsn ▸ ha)]; exact cellAt_pos m hm a (hsn ▸ ha)) hk
  refine ⟨_, hmk, rfl, rfl, ?_⟩
  intro a ha
  obtain ⟨hk0, hke⟩ := hk a (hsn ▸ ha)
  rw [cell_getD m a ha] at hke
  have hnat : ({ region := s, n := tab s.ndim fun a => (roundHalfEven (s.edge a / m.cellAt a)).toNat, bc := "", subs := [] } : Mesh).nAt a
      = (roundHalfEven (s.edge a / m.cellAt a)).toNat := by
    unfold Mesh.nAt; exact getD_tab _ _ _ _ (hsn ▸ ha)
  rw [hnat]
  refine ⟨?_, hk0, hke.symm⟩
  change s.edge a / ((({ region := s, n := _, bc := "", subs := [] } : Mesh).nAt a : Nat) : Rat) = m.cellAt a
  rw [hnat]
  have hkq : (0 : Rat) < (((roundHalfEven (s.edge a / m.cellAt a)).toNat : Nat) : Rat) := by exact_mod_cast hk0
  generalize (roundHalfEven (s.edge a / m.cellAt a)).toNat = K at hke hkq ⊢
  rw [div_eq_iff hkq.ne', hke]; ring
end DFV.C14
