import DFV.Lemmas.C08Subst
/-! C08 helper lemmas, part 11: sessions with MESH OBJECTS (`SessM`).  What is shared between a
result and its operand (the `Mesh` object) and what is not (the validity buffer); invariant
`x.valid.shape = x.mesh.n` for every variable after every history, mesh objects are never
mutated (repo fix d0059dba). -/
namespace DFV.C08
open DFV

/-- a program that carries the mesh object of variable `k` has the cells of variable `k` -/
theorem meshOf_shapeOf (env : Nat → Mask) (p : Prog) : ∀ k, meshOf p = some k → shapeOf env p = (env k).shape := by
  induction p with
  | leaf k' => intro k h; simp only [meshOf, Option.some.injEq] at h; subst h; rfl
  | pos p ih => intro k h; exact ih k h
  | un p ih => intro k h; exact ih k h
  | binC p ih => intro k h; exact ih k h
  | binF p q ihp _ => intro k h; exact ihp k h
  | map op p _ => intro k h; simp [meshOf] at h
  | vtk p _ => intro k h; simp [meshOf] at h
  | hdf5 p _ => intro k h; simp [meshOf] at h
  | setv s p ih => intro k h; exact ih k h
  | fresh f p ih =>
    intro k h
    cases f with
    | same => exact ih k h
    | reduce axes => simp [meshOf] at h
    | rfft => simp [meshOf] at h
    | spectrum => simp [meshOf] at h
    | irfft l => simp [meshOf] at h

theorem meshOf_lt (n : Nat) (p : Prog) : ∀ k, meshOf p = some k → leavesLt n p = true → k < n := by
  induction p with
  | leaf k' => intro k h hl; simp only [meshOf, Option.some.injEq] at h; subst h; simpa [leavesLt] using hl
  | pos p ih => intro k h hl; exact ih k h (by simpa [leavesLt] using hl)
  | un p ih => intro k h hl; exact ih k h (by simpa [leavesLt] using hl)
  | binC p ih => intro k h hl; exact ih k h (by simpa [leavesLt] using hl)
  | binF p q ihp _ =>
    intro k h hl
    simp only [leavesLt, Bool.and_eq_true] at hl
    exact ihp k h hl.1
  | map op p _ => intro k h; simp [meshOf] at h
  | vtk p _ => intro k h; simp [meshOf] at h
  | hdf5 p _ => intro k h; simp [meshOf] at h
  | setv s p ih => intro k h hl; exact ih k h (by simpa [leavesLt] using hl)
  | fresh f p ih =>
    intro k h hl
    cases f with
    | same => exact ih k h (by simpa [leavesLt] using hl)
    | reduce axes => simp [meshOf] at h
    | rfft => simp [meshOf] at h
    | spectrum => simp [meshOf] at h
    | irfft l => simp [meshOf] at h

/-- the alias of a program is also the variable whose mesh it carries -/
theorem aliasOf_meshOf (p : Prog) : ∀ k, aliasOf p = some k → meshOf p = some k := by
  induction p with
  | leaf k' => intro k h; exact h
  | pos p ih => intro k h; exact ih k h
  | _ => intro k h; simp [aliasOf] at h

theorem Sess.mask_shape (st : Sess) (i : Nat) : (st.mask i).shape = st.shapeOfVar i := rfl

/-! ## the invariant -/

structure SessM.Inv (st : SessM) : Prop where
  base : st.base.Inv
  len : st.meshes.length = st.base.objs.length
  lt : ∀ o, o < st.base.objs.length → st.meshes.getD o 0 < st.meshN.length
  shape : ∀ o, o < st.base.objs.length → st.meshN.getD (st.meshes.getD o 0) [] = (st.base.objs.getD o (0, [])).2

theorem SessM.init_inv (leaves : List Mask) : (SessM.init leaves).Inv := by
  refine ⟨Sess.init_inv leaves, by simp [SessM.init, Sess.init], fun o ho => ?_, fun o ho => ?_⟩
  · simp only [SessM.init, Sess.init, List.length_map, List.length_range] at ho ⊢
    rw [List.getD_eq_getElem?_getD, List.getElem?_range ho]; exact ho
  · simp only [SessM.init, Sess.init, List.length_map, List.length_range] at ho ⊢
    have h1 : (List.range leaves.length).getD o 0 = o := by
      rw [List.getD_eq_getElem?_getD, List.getElem?_range ho]; rfl
    rw [h1]
    simp only [List.getD_eq_getElem?_getD, List.getElem?_map, List.getElem?_range ho]
    rfl

/-- what the base step does to the table of objects -/
theorem Sess.step_objs (st st' : Sess) (s : Stmt) (h : st.step s = .ok st') :
    match s with
    | .build p =>
      (∃ m, eval st.mask p = .ok m ∧ leavesLt st.vars.length p = true ∧
        ((∃ k, aliasOf p = some k ∧ st'.objs = st.objs ∧ st'.vars = st.vars ++ [st.objOf k]) ∨
         (aliasOf p = none ∧ st'.objs = st.objs ++ [(st.store.length, m.shape)] ∧
            st'.vars = st.vars ++ [st.objs.length])))
    | .assign i sp =>
      i < st.vars.length ∧ ∃ m, setMask (st.shapeOfVar i) sp = .ok m ∧
        st'.objs = st.objs.set (st.objOf i) (st.store.length, m.shape) ∧ st'.vars = st.vars
    | .rotI i a b k =>
      i < st.vars.length ∧
        st'.objs = st.objs.set (st.objOf i) (st.store.length, ((MapOp.rot a b k).apply (st.mask i) false).shape) ∧
        st'.vars = st.vars
    | .poke i _ _ => i < st.vars.length ∧ st'.objs = st.objs ∧ st'.vars = st.vars := by
  cases s with
  | build p =>
    simp only [Sess.step] at h
    split at h
    · cases h
    · rename_i hl
      split at h
      · cases h
      · rename_i m hm
        refine ⟨m, hm, by simpa using hl, ?_⟩
        split at h
        · rename_i k hk
          simp only [Except.ok.injEq] at h; subst h
          exact Or.inl ⟨k, hk, rfl, rfl⟩
        · rename_i hk
          simp only [Except.ok.injEq] at h; subst h
          exact Or.inr ⟨hk, rfl, rfl⟩
  | assign i sp =>
    simp only [Sess.step] at h
    split at h
    · cases h
    · rename_i hi
      split at h
      · cases h
      · rename_i m hm
        simp only [Except.ok.injEq] at h; subst h
        exact ⟨by omega, m, hm, rfl, rfl⟩
  | rotI i a b k =>
    simp only [Sess.step] at h
    split at h
    · cases h
    · rename_i hi
      split at h
      · simp only [Except.ok.injEq] at h; subst h
        exact ⟨by omega, rfl, rfl⟩
      · cases h
  | poke i pos v =>
    simp only [Sess.step] at h
    split at h
    · cases h
    · rename_i hi
      simp only [Except.ok.injEq] at h; subst h
      exact ⟨by omega, rfl, rfl⟩

theorem Sess.shapeOfVar_lt (st : Sess) (i : Nat) : st.shapeOfVar i = (st.objs.getD (st.objOf i) (0, [])).2 := rfl

theorem SessM.step_inv (st st' : SessM) (s : Stmt) (hI : st.Inv) (h : st.step s = .ok st') : st'.Inv := by
  obtain ⟨hb, hlen, hlt, hsh⟩ := hI
  cases s with
  | build p =>
    simp only [SessM.step] at h
    split at h
    · cases h
    · rename_i b hbs
      have hb' := Sess.step_inv st.base b _ hb hbs
      obtain ⟨m, hm, hl, hcase⟩ := Sess.step_objs st.base b (.build p) hbs
      rcases hcase with ⟨k, hk, ho, hv⟩ | ⟨hk, ho, hv⟩
      · rw [hk] at h
        simp only [Except.ok.injEq] at h; subst h
        exact ⟨hb', by rw [ho]; exact hlen, fun o hlo => hlt o (by rw [ho] at hlo; exact hlo),
          fun o hlo => by rw [ho] at hlo ⊢; exact hsh o hlo⟩
      · rw [hk] at h
        simp only at h
        have hshape : b.shapeOfVar st.base.vars.length = m.shape := by
          unfold Sess.shapeOfVar Sess.objOf
          rw [hv, getD_append_len, ho, getD_append_len]
        split at h
        · rename_i k hmk
          simp only [Except.ok.injEq] at h; subst h
          have hkl : k < st.base.vars.length := meshOf_lt _ p k hmk hl
          have hko : st.base.objOf k < st.base.objs.length := hb.vars_lt k hkl
          refine ⟨hb', by simp [ho, hlen], fun o hlo => ?_, fun o hlo => ?_⟩
          · simp only [ho, List.length_append, List.length_singleton] at hlo
            by_cases c : o < st.base.objs.length
            · rw [getD_append_lt _ _ _ _ (by omega)]; exact hlt o c
            · have : o = st.meshes.length := by omega
              subst this
              rw [getD_append_len]; exact hlt _ hko
          · simp only [ho, List.length_append, List.length_singleton] at hlo
            by_cases c : o < st.base.objs.length
            · rw [getD_append_lt _ _ _ _ (by omega), ho, getD_append_lt _ _ _ _ c]; exact hsh o c
            · have e : o = st.meshes.length := by omega
              subst e
              rw [getD_append_len, ho, hlen, getD_append_len]
              show st.meshN.getD (st.meshes.getD (st.base.objOf k) 0) [] = m.shape
              rw [hsh _ hko, (eval_spec _ _ _ hm).1, meshOf_shapeOf _ p k hmk]
              rfl
        · simp only [Except.ok.injEq] at h; subst h
          refine ⟨hb', by simp [ho, hlen], fun o hlo => ?_, fun o hlo => ?_⟩
          · simp only [ho, List.length_append, List.length_singleton] at hlo ⊢
            by_cases c : o < st.base.objs.length
            · rw [getD_append_lt _ _ _ _ (by omega : o < st.meshes.length)]; have := hlt o c; omega
            · have : o = st.meshes.length := by omega
              subst this
              rw [getD_append_len]; omega
          · simp only [ho, List.length_append, List.length_singleton] at hlo
            by_cases c : o < st.base.objs.length
            · show (st.meshN ++ [b.shapeOfVar st.base.vars.length]).getD ((st.meshes ++ [st.meshN.length]).getD o 0) [] = _
              rw [getD_append_lt _ _ _ _ (by omega : o < st.meshes.length), ho, getD_append_lt _ _ _ _ c,
                getD_append_lt _ _ _ _ (hlt o c)]
              exact hsh o c
            · have e : o = st.meshes.length := by omega
              subst e
              show (st.meshN ++ [b.shapeOfVar st.base.vars.length]).getD ((st.meshes ++ [st.meshN.length]).getD st.meshes.length 0) [] = _
              rw [getD_append_len, getD_append_len, ho, hlen, getD_append_len, hshape]
  | assign i sp =>
    simp only [SessM.step] at h
    split at h
    · cases h
    · rename_i b hbs
      simp only [Except.ok.injEq] at h; subst h
      have hb' := Sess.step_inv st.base b _ hb hbs
      obtain ⟨hi, m, hm, ho, hv⟩ := Sess.step_objs st.base b (.assign i sp) hbs
      have hms : m.shape = st.base.shapeOfVar i := (setMask_spec _ _ _ hm).1
      refine ⟨hb', by simp [ho, hlen], fun o hlo => hlt o (by simpa [ho] using hlo), fun o hlo => ?_⟩
      simp only [ho, List.length_set] at hlo
      rw [ho]
      by_cases c : o = st.base.objOf i
      · subst c
        rw [getD_set_eq' _ _ _ _ hlo, hsh _ hlo, hms]; rfl
      · rw [getD_set_ne' _ _ _ _ _ c]; exact hsh o hlo
  | rotI i a b k =>
    simp only [SessM.step] at h
    split at h
    · cases h
    · rename_i b' hbs
      simp only [Except.ok.injEq] at h; subst h
      have hb' := Sess.step_inv st.base b' _ hb hbs
      obtain ⟨hi, ho, hv⟩ := Sess.step_objs st.base b' (.rotI i a b k) hbs
      have hio : st.base.objOf i < st.base.objs.length := hb.vars_lt i hi
      have hshape : b'.shapeOfVar i = ((MapOp.rot a b k).apply (st.base.mask i) false).shape := by
        unfold Sess.shapeOfVar Sess.objOf
        rw [hv, ho]
        exact congrArg Prod.snd (getD_set_eq' _ _ _ _ hio)
      refine ⟨hb', by simp [ho, hlen], fun o hlo => ?_, fun o hlo => ?_⟩
      · simp only [ho, List.length_set] at hlo
        simp only [List.length_append, List.length_singleton]
        by_cases c : o = st.base.objOf i
        · subst c; rw [getD_set_eq' _ _ _ _ (by omega)]; omega
        · rw [getD_set_ne' _ _ _ _ _ c]; have := hlt o hlo; omega
      · simp only [ho, List.length_set] at hlo
        rw [ho]
        by_cases c : o = st.base.objOf i
        · subst c
          rw [getD_set_eq' _ _ _ _ (by omega), getD_append_len, getD_set_eq' _ _ _ _ hlo, hshape]
        · rw [getD_set_ne' _ _ _ _ _ c, getD_set_ne' _ _ _ _ _ c, getD_append_lt _ _ _ _ (hlt o hlo)]
          exact hsh o hlo
  | poke i pos v =>
    simp only [SessM.step] at h
    split at h
    · cases h
    · rename_i b hbs
      simp only [Except.ok.injEq] at h; subst h
      have hb' := Sess.step_inv st.base b _ hb hbs
      obtain ⟨hi, ho, hv⟩ := Sess.step_objs st.base b (.poke i pos v) hbs
      exact ⟨hb', by rw [ho]; exact hlen, fun o hlo => hlt o (by rw [ho] at hlo; exact hlo),
        fun o hlo => by rw [ho] at hlo ⊢; exact hsh o hlo⟩

theorem SessM.run_inv (h : List Stmt) : ∀ (st st' : SessM), st.Inv → st.run h = .ok st' → st'.Inv := by
  induction h with
  | nil => intro st st' hI hr; simp only [SessM.run, Except.ok.injEq] at hr; subst hr; exact hI
  | cons s rest ih =>
    intro st st' hI hr
    simp only [SessM.run] at hr
    split at hr
    · cases hr
    · rename_i st1 hs
      exact ih st1 st' (SessM.step_inv st st1 s hI hs) hr

/-! ## the masks are those of the plain session; mesh objects are never mutated -/

theorem SessM.step_base (st st' : SessM) (s : Stmt) (h : st.step s = .ok st') : st.base.step s = .ok st'.base := by
  cases s with
  | build p =>
    simp only [SessM.step] at h
    split at h
    · cases h
    · rename_i b hbs
      rw [hbs]
      split at h
      · simp only [Except.ok.injEq] at h; subst h; rfl
      · split at h <;> (simp only [Except.ok.injEq] at h; subst h; rfl)
  | assign i sp =>
    simp only [SessM.step] at h
    split at h
    · cases h
    · rename_i b hbs
      simp only [Except.ok.injEq] at h; subst h; exact hbs
  | rotI i a b k =>
    simp only [SessM.step] at h
    split at h
    · cases h
    · rename_i b hbs
      simp only [Except.ok.injEq] at h; subst h; exact hbs
  | poke i pos v =>
    simp only [SessM.step] at h
    split at h
    · cases h
    · rename_i b hbs
      simp only [Except.ok.injEq] at h; subst h; exact hbs

theorem SessM.run_base (h : List Stmt) : ∀ (st st' : SessM), st.run h = .ok st' → st.base.run h = .ok st'.base := by
  induction h with
  | nil => intro st st' hr; simp only [SessM.run, Except.ok.injEq] at hr; subst hr; rfl
  | cons s rest ih =>
    intro st st' hr
    simp only [SessM.run] at hr
    split at hr
    · cases hr
    · rename_i st1 hs
      simp only [Sess.run, SessM.step_base st st1 s hs]
      exact ih st1 st' hr

/-- and conversely: the mesh bookkeeping never refuses a statement the plain session accepts -/
theorem SessM.step_total (st : SessM) (s : Stmt) (b : Sess) (h : st.base.step s = .ok b) :
    ∃ st', st.step s = .ok st' ∧ st'.base = b := by
  cases s with
  | build p =>
    simp only [SessM.step, h]
    split
    · exact ⟨_, rfl, rfl⟩
    · split <;> exact ⟨_, rfl, rfl⟩
  | assign i sp => simp only [SessM.step, h]; exact ⟨_, rfl, rfl⟩
  | rotI i a b' k => simp only [SessM.step, h]; exact ⟨_, rfl, rfl⟩
  | poke i pos v => simp only [SessM.step, h]; exact ⟨_, rfl, rfl⟩

/-- no statement changes the cells of an existing mesh object: the table only grows -/
theorem SessM.step_meshN (st st' : SessM) (s : Stmt) (h : st.step s = .ok st') : ∃ ext, st'.meshN = st.meshN ++ ext := by
  cases s with
  | build p =>
    simp only [SessM.step] at h
    split at h
    · cases h
    · split at h
      · simp only [Except.ok.injEq] at h; subst h; exact ⟨[], by simp⟩
      · split at h
        · simp only [Except.ok.injEq] at h; subst h; exact ⟨[], by simp⟩
        · simp only [Except.ok.injEq] at h; subst h; exact ⟨_, rfl⟩
  | assign i sp =>
    simp only [SessM.step] at h
    split at h
    · cases h
    · simp only [Except.ok.injEq] at h; subst h; exact ⟨[], by simp⟩
  | rotI i a b k =>
    simp only [SessM.step] at h
    split at h
    · cases h
    · simp only [Except.ok.injEq] at h; subst h; exact ⟨_, rfl⟩
  | poke i pos v =>
    simp only [SessM.step] at h
    split at h
    · cases h
    · simp only [Except.ok.injEq] at h; subst h; exact ⟨[], by simp⟩

theorem SessM.run_meshN (h : List Stmt) : ∀ (st st' : SessM), st.run h = .ok st' → ∃ ext, st'.meshN = st.meshN ++ ext := by
  induction h with
  | nil => intro st st' hr; simp only [SessM.run, Except.ok.injEq] at hr; subst hr; exact ⟨[], by simp⟩
  | cons s rest ih =>
    intro st st' hr
    simp only [SessM.run] at hr
    split at hr
    · cases hr
    · rename_i st1 hs
      obtain ⟨e1, h1⟩ := SessM.step_meshN st st1 s hs
      obtain ⟨e2, h2⟩ := ih st1 st' hr
      exact ⟨e1 ++ e2, by rw [h2, h1, List.append_assoc]⟩

/-! ## which mesh object a variable holds after one statement -/

/-- a built field: the mesh object of the variable `meshOf` names, else a mesh object that did
not exist before; nobody else's mesh object changes -/
theorem SessM.build_mesh (st st' : SessM) (hI : st.Inv) (p : Prog) (h : st.step (.build p) = .ok st') :
    (∀ j, j < st.base.vars.length → st'.meshObj j = st.meshObj j) ∧
    (∀ k, meshOf p = some k → st'.meshObj st.base.vars.length = st.meshObj k) ∧
    (meshOf p = none → st'.meshObj st.base.vars.length = st.meshN.length) := by
  obtain ⟨hb, hlen, hlt, hsh⟩ := hI
  simp only [SessM.step] at h
  split at h
  · cases h
  · rename_i b hbs
    obtain ⟨m, hm, hl, hcase⟩ := Sess.step_objs st.base b (.build p) hbs
    rcases hcase with ⟨k, hk, ho, hv⟩ | ⟨hk, ho, hv⟩
    · rw [hk] at h
      simp only [Except.ok.injEq] at h; subst h
      have hkl : k < st.base.vars.length := meshOf_lt _ p k (aliasOf_meshOf p k hk) hl
      refine ⟨fun j hj => ?_, fun k' hk' => ?_, fun hn => ?_⟩
      · unfold SessM.meshObj Sess.objOf
        simp only [hv]
        rw [getD_append_lt _ _ _ _ hj]
      · rw [aliasOf_meshOf p k hk] at hk'
        simp only [Option.some.injEq] at hk'; subst hk'
        unfold SessM.meshObj Sess.objOf
        simp only [hv]
        rw [getD_append_len]; rfl
      · rw [aliasOf_meshOf p k hk] at hn; cases hn
    · rw [hk] at h
      simp only at h
      split at h
      · rename_i k hmk
        simp only [Except.ok.injEq] at h; subst h
        refine ⟨fun j hj => ?_, fun k' hk' => ?_, fun hn => by rw [hmk] at hn; cases hn⟩
        · unfold SessM.meshObj Sess.objOf
          simp only [hv]
          rw [getD_append_lt _ _ _ _ hj, getD_append_lt _ _ _ _ (by rw [hlen]; exact hb.vars_lt j hj)]
        · rw [hmk] at hk'
          simp only [Option.some.injEq] at hk'; subst hk'
          unfold SessM.meshObj Sess.objOf
          simp only [hv]
          rw [getD_append_len, ← hlen, getD_append_len]
      · rename_i hmk
        simp only [Except.ok.injEq] at h; subst h
        refine ⟨fun j hj => ?_, ?_, fun _ => ?_⟩
        · unfold SessM.meshObj Sess.objOf
          simp only [hv]
          rw [getD_append_lt _ _ _ _ hj, getD_append_lt _ _ _ _ (by rw [hlen]; exact hb.vars_lt j hj)]
        · intro k' hk'
          rw [hmk] at hk'; cases hk'
        · unfold SessM.meshObj Sess.objOf
          simp only [hv]
          rw [getD_append_len, ← hlen, getD_append_len]

/-- in-place quarter turn (after repo fix d0059dba): the names of the turned object get a mesh
object that did not exist before; every other variable keeps its mesh object -/
theorem SessM.rotI_mesh (st st' : SessM) (hI : st.Inv) (i a b : Nat) (k : Int) (h : st.step (.rotI i a b k) = .ok st') :
    (∀ j, j < st.base.vars.length → st.base.objOf j ≠ st.base.objOf i → st'.meshObj j = st.meshObj j) ∧
    (∀ j, st.base.objOf j = st.base.objOf i → st'.meshObj j = st.meshN.length) := by
  obtain ⟨hb, hlen, hlt, hsh⟩ := hI
  simp only [SessM.step] at h
  split at h
  · cases h
  · rename_i b' hbs
    simp only [Except.ok.injEq] at h; subst h
    obtain ⟨hi, ho, hv⟩ := Sess.step_objs st.base b' (.rotI i a b k) hbs
    have hio : st.base.objOf i < st.base.objs.length := hb.vars_lt i hi
    refine ⟨fun j hj hne => ?_, fun j he => ?_⟩
    · unfold SessM.meshObj Sess.objOf
      simp only [hv]
      exact getD_set_ne' _ _ _ _ _ hne
    · unfold SessM.meshObj Sess.objOf
      simp only [hv]
      have : st.base.vars.getD j 0 = st.base.objOf i := he
      rw [this]
      exact getD_set_eq' _ _ _ _ (by rw [hlen]; exact hio)

/-- assignments and element writes leave every mesh reference alone -/
theorem SessM.assign_poke_mesh (st st' : SessM) (s : Stmt)
    (hs : (∃ i sp, s = .assign i sp) ∨ ∃ i pos v, s = .poke i pos v) (h : st.step s = .ok st') :
    st'.meshes = st.meshes ∧ st'.meshN = st.meshN ∧ ∀ j, st'.meshObj j = st.meshObj j := by
  rcases hs with ⟨i, sp, rfl⟩ | ⟨i, pos, v, rfl⟩
  · simp only [SessM.step] at h
    split at h
    · cases h
    · rename_i b hbs
      simp only [Except.ok.injEq] at h; subst h
      obtain ⟨_, _, _, _, hv⟩ := Sess.step_objs st.base b (.assign i sp) hbs
      refine ⟨rfl, rfl, fun j => ?_⟩
      unfold SessM.meshObj Sess.objOf
      simp only [hv]
  · simp only [SessM.step] at h
    split at h
    · cases h
    · rename_i b hbs
      simp only [Except.ok.injEq] at h; subst h
      obtain ⟨_, _, hv⟩ := Sess.step_objs st.base b (.poke i pos v) hbs
      refine ⟨rfl, rfl, fun j => ?_⟩
      unfold SessM.meshObj Sess.objOf
      simp only [hv]

end DFV.C08

namespace DFV.C08
open DFV

/-! ## acceptance of one statement -/

/-- well-formed statement in a session state: the variables it names exist, the expression is well
formed on the masks the variables have NOW, the setter argument fits the target's shape, the
quarter turn names two different axes of the target -/
def stmtOk (st : Sess) : Stmt → Bool
  | .build p => leavesLt st.vars.length p && wf st.mask p
  | .assign i sp => decide (i < st.vars.length) && sp.ok (st.shapeOfVar i)
  | .rotI i a b k => decide (i < st.vars.length) && (MapOp.rot a b k).ok (st.shapeOfVar i)
  | .poke i _ _ => decide (i < st.vars.length)

theorem Sess.step_ok_iff (st : Sess) (s : Stmt) : (∃ st', st.step s = .ok st') ↔ stmtOk st s = true := by
  cases s with
  | build p =>
    simp only [Sess.step, stmtOk, Bool.and_eq_true]
    by_cases hl : leavesLt st.vars.length p = true
    · simp only [hl, Bool.not_true, Bool.false_eq_true, if_false, true_and]
      rw [← eval_ok_iff]
      constructor
      · rintro ⟨st', h⟩
        split at h
        · cases h
        · rename_i m hm; exact ⟨m, hm⟩
      · rintro ⟨m, hm⟩
        rw [hm]
        simp only
        split <;> exact ⟨_, rfl⟩
    · have hl' : leavesLt st.vars.length p = false := by simpa using hl
      simp [hl']
  | assign i sp =>
    simp only [Sess.step, stmtOk, Bool.and_eq_true, decide_eq_true_eq]
    by_cases hi : i < st.vars.length
    · rw [if_neg (by omega)]
      simp only [hi, true_and]
      rw [← setMask_ok_iff]
      constructor
      · rintro ⟨st', h⟩
        split at h
        · cases h
        · rename_i m hm; exact ⟨m, hm⟩
      · rintro ⟨m, hm⟩
        rw [hm]; exact ⟨_, rfl⟩
    · rw [if_pos (by omega)]
      simp [hi]
  | rotI i a b k =>
    simp only [Sess.step, stmtOk, Bool.and_eq_true, decide_eq_true_eq]
    by_cases hi : i < st.vars.length
    · rw [if_neg (by omega)]
      simp only [hi, true_and]
      by_cases hok : (MapOp.rot a b k).ok (st.shapeOfVar i) = true
      · rw [if_pos hok]; simp [hok]
      · rw [if_neg hok]; simp [hok]
    · rw [if_pos (by omega)]
      simp [hi]
  | poke i pos v =>
    simp only [Sess.step, stmtOk, decide_eq_true_eq]
    by_cases hi : i < st.vars.length
    · rw [if_neg (by omega)]; simp [hi]
    · rw [if_pos (by omega)]; simp [hi]

end DFV.C08
