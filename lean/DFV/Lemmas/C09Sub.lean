import DFV.Lemmas.C09Text
/-! Subregion side-car lemmas (C09): `Region(**val)` + the checks of the `subregions` setter. -/
namespace DFV.C09
open DFV

/-- a three-dimensional mesh as the reader builds it -/
structure Mesh3 (m : Mesh) : Prop where
  pmin3 : m.region.pmin.length = 3
  pmax3 : m.region.pmax.length = 3
  n3 : m.n.length = 3
  lt : ∀ a, a < 3 → m.region.lo a < m.region.hi a
  npos : ∀ a, a < 3 → 0 < m.nAt a
  dims : m.region.dims.length = 3 ∧ hasDup m.region.dims = false
  units : m.region.units.length = 3

/-- `s` is the box of cells `i a ≤ · < j a` of mesh `m` on every axis -/
structure SubOf (m : Mesh) (s : Region) (i j : Nat → Nat) : Prop where
  pmin3 : s.pmin.length = 3
  pmax3 : s.pmax.length = 3
  dims : s.dims.length = 3 ∧ hasDup s.dims = false
  units : s.units.length = 3
  lt : ∀ a, a < 3 → i a < j a ∧ j a ≤ m.nAt a
  lo : ∀ a, a < 3 → s.lo a = m.region.lo a + (i a : Rat) * m.cellAt a
  hi : ∀ a, a < 3 → s.hi a = m.region.lo a + (j a : Rat) * m.cellAt a

theorem cell_pos3 (m : Mesh) (M : Mesh3 m) (a : Nat) (ha : a < 3) : 0 < m.cellAt a := by
  unfold Mesh.cellAt Region.edge
  have h1 : (0 : Rat) < (m.nAt a : Rat) := by exact_mod_cast M.npos a ha
  have := M.lt a ha
  exact div_pos (by linarith) h1

theorem hi_eq (m : Mesh) (M : Mesh3 m) (a : Nat) (ha : a < 3) :
    m.region.hi a = m.region.lo a + (m.nAt a : Rat) * m.cellAt a := by
  unfold Mesh.cellAt Region.edge
  have h1 : (m.nAt a : Rat) ≠ 0 := by
    have : (0 : Rat) < (m.nAt a : Rat) := by exact_mod_cast M.npos a ha
    exact ne_of_gt this
  field_simp; ring

theorem isclose_self (x rtol atol : Rat) (hr : 0 ≤ rtol) (ha : 0 ≤ atol) : Region.isclose x x rtol atol = true := by
  unfold Region.isclose
  have : absR (x - x) = 0 := by simp [absR]
  rw [this]
  exact decide_eq_true (add_nonneg ha (mul_nonneg hr (absR_nonneg x)))

theorem containsPt_of_between (r : Region) (p : List Rat) (hl : p.length = r.ndim)
    (h : ∀ a, a < r.ndim → r.lo a ≤ p.getD a 0 ∧ p.getD a 0 ≤ r.hi a) : r.containsPt p = true := by
  unfold Region.containsPt
  rw [decide_eq_true hl, Bool.true_and, allLt_iff]
  intro a ha
  unfold Region.containsAx
  rw [decide_eq_true (h a ha).1, decide_eq_true (h a ha).2]
  rfl



/-- the region the `subregions` setter stores: corners of `s`, everything else from the mesh -/
def retag (m : Mesh) (s : Region) : Region :=
  { pmin := s.pmin, pmax := s.pmax, dims := m.region.dims, units := m.region.units, tol := m.region.tol }

theorem absR_of_nonneg (x : Rat) (h : 0 ≤ x) : absR x = x := by
  unfold absR; rw [if_neg (by linarith)]

theorem absR_of_nonpos (x : Rat) (h : x ≤ 0) : absR x = -x := by
  unfold absR
  by_cases h0 : x < 0
  · rw [if_pos h0]
  · have : x = 0 := by linarith
    rw [if_neg h0, this]; simp

/-- one side-car entry passes `Region(**val)` and all three checks of the `subregions`
setter and comes back with its own corners -/
theorem loadOneSub_ok (m : Mesh) (M : Mesh3 m) (s : Region) (i j : Nat → Nat) (S : SubOf m s i j) :
    loadOneSub m s = .ok (retag m s) := by
  have hcell := cell_pos3 m M
  have hslt : ∀ a, a < 3 → s.lo a < s.hi a := by
    intro a ha
    rw [S.lo a ha, S.hi a ha]
    have : (i a : Rat) < (j a : Rat) := by exact_mod_cast (S.lt a ha).1
    nlinarith [hcell a ha]
  have hgetD : ∀ a, a < s.pmin.length → s.pmin.getD a 0 < s.pmax.getD a 0 := by
    intro a ha; rw [S.pmin3] at ha; exact hslt a ha
  unfold loadOneSub
  have c1 : ¬ (s.pmin.length ≠ s.pmax.length) := by rw [S.pmin3, S.pmax3]; simp
  have c2 : allLt s.pmin.length (fun a => decide (s.pmin.getD a 0 < s.pmax.getD a 0)) = true := by
    rw [allLt_iff]; intro a ha; exact decide_eq_true (hgetD a ha)
  have c3 : Region.mk? s.pmin s.pmax (some s.dims) (some s.units) s.tol = .ok s := by
    rw [regionMk_ok' s.pmin s.pmax (some s.dims) s.dims s.units s.tol (by rw [S.pmin3, S.pmax3]) (by rw [S.pmin3]; omega)
      (dimsOk_some _ _ (by rw [S.dims.1, S.pmin3]) S.dims.2) (by rw [S.units, S.pmin3]) hgetD]
  rw [if_neg c1, c2, c3]
  simp only [Bool.not_true, Bool.false_eq_true, if_false]
  -- inside the mesh region
  have hnd : m.region.ndim = 3 := M.pmin3
  have hsnd : s.ndim = 3 := S.pmin3
  have hin : ∀ a, a < 3 → m.region.lo a ≤ s.lo a ∧ s.hi a ≤ m.region.hi a := by
    intro a ha
    rw [S.lo a ha, S.hi a ha, hi_eq m M a ha]
    have h1 : (0 : Rat) ≤ (i a : Rat) := by exact_mod_cast Nat.zero_le _
    have h2 : (j a : Rat) ≤ (m.nAt a : Rat) := by exact_mod_cast (S.lt a ha).2
    constructor
    · nlinarith [hcell a ha]
    · nlinarith [hcell a ha]
  have c4 : m.region.containsReg s = true := by
    unfold Region.containsReg
    rw [containsPt_of_between m.region s.pmin (by rw [hnd, S.pmin3]) (by
        intro a ha; rw [hnd] at ha
        exact ⟨(hin a ha).1, le_trans (le_of_lt (hslt a ha)) (hin a ha).2⟩),
      containsPt_of_between m.region s.pmax (by rw [hnd, S.pmax3]) (by
        intro a ha; rw [hnd] at ha
        exact ⟨le_trans (hin a ha).1 (le_of_lt (hslt a ha)), (hin a ha).2⟩)]
    rfl
  rw [c4]
  simp only [Bool.not_true, Bool.false_eq_true, if_false]
  -- whole cells
  have hk : ∀ a, a < 3 → s.edge a = ((j a - i a : Nat) : Rat) * m.cellAt a := by
    intro a ha
    unfold Region.edge
    rw [S.lo a ha, S.hi a ha, Nat.cast_sub (le_of_lt (S.lt a ha).1)]; ring
  have hkpos : ∀ a, a < 3 → 0 < j a - i a := fun a ha => by have := (S.lt a ha).1; omega
  have hcells : m.cell = tab s.ndim fun a => s.edge a / (([j 0 - i 0, j 1 - i 1, j 2 - i 2].getD a 0 : Nat) : Rat) := by
    unfold Mesh.cell Mesh.ndim
    rw [hnd, hsnd]
    apply tab_congr
    intro a ha
    have hne : ((j a - i a : Nat) : Rat) ≠ 0 := by
      have : (0 : Rat) < ((j a - i a : Nat) : Rat) := by exact_mod_cast hkpos a ha
      exact ne_of_gt this
    have hg : [j 0 - i 0, j 1 - i 1, j 2 - i 2].getD a 0 = j a - i a := by
      match a, ha with
      | 0, _ => rfl
      | 1, _ => rfl
      | 2, _ => rfl
    rw [hg, hk a ha]; field_simp
  have c5 := mkCell_ok s [j 0 - i 0, j 1 - i 1, j 2 - i 2] (by rw [hsnd]; rfl)
    (by intro a ha; rw [hsnd] at ha; exact hslt a ha)
    (by
      intro a ha; rw [hsnd] at ha
      match a, ha with
      | 0, _ => exact hkpos 0 (by omega)
      | 1, _ => exact hkpos 1 (by omega)
      | 2, _ => exact hkpos 2 (by omega))
  rw [hcells, c5]
  simp only
  -- aligned
  have c6 : isAligned m { region := s, n := [j 0 - i 0, j 1 - i 1, j 2 - i 2], bc := "", subs := [] }
      (1 / 1000000000000) = true := by
    unfold isAligned
    have hsc : ∀ a, a < 3 →
        Mesh.cellAt { region := s, n := [j 0 - i 0, j 1 - i 1, j 2 - i 2], bc := "", subs := [] } a = m.cellAt a := by
      intro a ha
      have hne : ((j a - i a : Nat) : Rat) ≠ 0 := by
        have : (0 : Rat) < ((j a - i a : Nat) : Rat) := by exact_mod_cast hkpos a ha
        exact ne_of_gt this
      have hg : Mesh.nAt { region := s, n := [j 0 - i 0, j 1 - i 1, j 2 - i 2], bc := "", subs := [] } a = j a - i a := by
        match a, ha with
        | 0, _ => rfl
        | 1, _ => rfl
        | 2, _ => rfl
      show s.edge a / _ = _
      rw [hg, hk a ha]; field_simp
    have a1 : allLt m.ndim (fun a => Region.isclose (m.cellAt a)
        (Mesh.cellAt { region := s, n := [j 0 - i 0, j 1 - i 1, j 2 - i 2], bc := "", subs := [] } a)
        (1 / 100000) (1 / 1000000000000)) = true := by
      rw [allLt_iff]; intro a ha
      have ha : a < 3 := by rw [← hnd]; exact ha
      rw [hsc a ha]
      exact isclose_self _ _ _ (by norm_num) (by norm_num)
    have a2 : allLt m.ndim (fun a =>
        !Mesh.notDivisible (absR (m.region.lo a - Region.lo s a)) (m.cellAt a) (1 / 1000000000000)
        && !Mesh.notDivisible (absR (m.region.hi a - Region.hi s a)) (m.cellAt a) (1 / 1000000000000)) = true := by
      rw [allLt_iff]; intro a ha
      have ha : a < 3 := by rw [← hnd]; exact ha
      have e1 : absR (m.region.lo a - s.lo a) = (i a : Rat) * m.cellAt a := by
        rw [S.lo a ha]
        have h1 : (0 : Rat) ≤ (i a : Rat) := by exact_mod_cast Nat.zero_le _
        rw [absR_of_nonpos _ (by nlinarith [hcell a ha])]; ring
      have e2 : absR (m.region.hi a - s.hi a) = ((m.nAt a - j a : Nat) : Rat) * m.cellAt a := by
        rw [S.hi a ha, hi_eq m M a ha, Nat.cast_sub (S.lt a ha).2]
        have h2 : (j a : Rat) ≤ (m.nAt a : Rat) := by exact_mod_cast (S.lt a ha).2
        rw [absR_of_nonneg _ (by nlinarith [hcell a ha])]; ring
      rw [e1, e2, notDivisible_mul _ _ _ (hcell a ha) (by norm_num),
        notDivisible_mul _ _ _ (hcell a ha) (by norm_num)]
      rfl
    show (allLt m.ndim _ && allLt m.ndim _) = true
    rw [a1, a2]; rfl
  rw [c6]
  simp only [Bool.not_true, Bool.false_eq_true, if_false]
  exact regionMk_ok' s.pmin s.pmax (some m.region.dims) m.region.dims m.region.units m.region.tol
    (by rw [S.pmin3, S.pmax3]) (by rw [S.pmin3]; omega)
    (dimsOk_some _ _ (by rw [M.dims.1, S.pmin3]) M.dims.2) (by rw [M.units, S.pmin3]) hgetD

theorem fromOvf_of_parse_side {α} [DecidableEq α] (c : Codec α) (isWord : Char → Bool) (reserved : String → Bool)
    (F : OvfFile α) (side : Option (List (String × Region))) (m m' : Mesh) (n : Nat → Nat)
    (hmn : m.n = [n 0, n 1, n 2]) (vd : Nat) (hvd : 0 < vd)
    (flat : List α) (h : List (String × HVal))
    (hp : parse c F = .ok { mesh := m, vd := vd, flat := flat, header := h })
    (hside : loadSide m side = .ok m')
    (hlen : flat.length = natProd [n 0, n 1, n 2] * vd)
    (vd' : Option (List String)) (hl : vdimsSetter reserved vd (labelsOf isWord h) = .ok vd') :
    fromOvf c isWord reserved F side
      = .ok { mesh := m', nvdim := vd,
              arr := (NDA.ofList ([n 0, n 1, n 2].reverse ++ [vd]) flat c.zero).transpose [2, 1, 0, 3],
              vdims := vd', unit := unitOf h } := by
  unfold fromOvf
  rw [hp]
  simp only
  rw [hside]
  simp only
  have hu : unflatten m'.n vd flat c.zero
      = .ok ((NDA.ofList ([n 0, n 1, n 2].reverse ++ [vd]) flat c.zero).transpose [2, 1, 0, 3]) := by
    unfold unflatten
    rw [loadSide_n _ _ _ hside, hmn, natProd_rev3, if_neg (by omega)]
  rw [hu]
  simp only
  rw [if_neg (by omega), hl]

theorem mesh3_meshOf (lo hi : Nat → Rat) (n : Nat → Nat) (mu : String)
    (hlt : ∀ a, a < 3 → lo a < hi a) (hn : ∀ a, a < 3 → 0 < n a) : Mesh3 (meshOf lo hi n mu) := by
  refine ⟨rfl, rfl, rfl, ?_, ?_, ⟨rfl, (by decide : hasDup ["x", "y", "z"] = false)⟩, rfl⟩
  · intro a ha
    match a, ha with
    | 0, _ => exact hlt 0 (by omega)
    | 1, _ => exact hlt 1 (by omega)
    | 2, _ => exact hlt 2 (by omega)
  · intro a ha
    match a, ha with
    | 0, _ => exact hn 0 (by omega)
    | 1, _ => exact hn 1 (by omega)
    | 2, _ => exact hn 2 (by omega)

theorem subOf_meshOf {α} (f : OField α) (mu : String) (s : Region) (i j : Nat → Nat)
    (S : SubOf f.mesh s i j) :
    SubOf (meshOf f.mesh.region.lo f.mesh.region.hi f.mesh.nAt mu) s i j := by
  have e : ∀ a, a < 3 →
      (meshOf f.mesh.region.lo f.mesh.region.hi f.mesh.nAt mu).nAt a = f.mesh.nAt a ∧
      (meshOf f.mesh.region.lo f.mesh.region.hi f.mesh.nAt mu).region.lo a = f.mesh.region.lo a ∧
      (meshOf f.mesh.region.lo f.mesh.region.hi f.mesh.nAt mu).cellAt a = f.mesh.cellAt a := by
    intro a ha
    match a, ha with
    | 0, _ => exact ⟨rfl, rfl, rfl⟩
    | 1, _ => exact ⟨rfl, rfl, rfl⟩
    | 2, _ => exact ⟨rfl, rfl, rfl⟩
  refine ⟨S.pmin3, S.pmax3, S.dims, S.units, ?_, ?_, ?_⟩
  · intro a ha; rw [(e a ha).1]; exact S.lt a ha
  · intro a ha; rw [(e a ha).2.1, (e a ha).2.2]; exact S.lo a ha
  · intro a ha; rw [(e a ha).2.1, (e a ha).2.2]; exact S.hi a ha


end DFV.C09
