import Mathlib.Tactic.Ring
import Mathlib.Tactic.Linarith
import Mathlib.Tactic.FieldSimp
import Mathlib.Tactic.Push
import Mathlib.Tactic.LinearCombination
import DFV.Model.C19
import DFV.Lemmas.Tab
import DFV.Props.C04
/-!
# C19 — what `Field.diff` stores, cell by cell (`Dc`, `Dv`), and how it reacts to
a matrix acting on the components, to a sign flip, to uniform fields and to an affine
change of the mesh.
-/
namespace DFV.C19
open DFV

/-! ## 1. `C04.diff` in closed form -/

theorem diff_eq (f : Fld) (ax order : Nat) (r : Bool) (ho : order = 1 ∨ order = 2)
    (hax : ax < f.mesh.ndim) :
    C04.diff f ax order r
      = .ok { f with data := ⟨f.data.shape, fun i => tab f.nvdim fun c => Dc f ax order r c i⟩ } := by
  unfold C04.diff
  have h1 : ¬ (order ≠ 1 ∧ order ≠ 2) := by omega
  have h2 : ¬ (f.mesh.ndim ≤ ax) := by omega
  rw [if_neg h1, if_neg h2]
  rfl

theorem diff_err (f : Fld) (ax order : Nat) (r : Bool)
    (h : ¬(order = 1 ∨ order = 2) ∨ f.mesh.ndim ≤ ax) : ∃ e, C04.diff f ax order r = .error e := by
  unfold C04.diff
  by_cases h1 : order ≠ 1 ∧ order ≠ 2
  · exact ⟨_, if_pos h1⟩
  · rw [if_neg h1]
    have h2 : f.mesh.ndim ≤ ax := by
      rcases h with h | h
      · exact absurd (by omega) h
      · exact h
    exact ⟨_, if_pos h2⟩

/-- a successful `diff` had an admissible order and axis -/
theorem diff_ok_args {f g : Fld} {ax order : Nat} {r : Bool} (h : C04.diff f ax order r = .ok g) :
    (order = 1 ∨ order = 2) ∧ ax < f.mesh.ndim := by
  by_cases hc : ¬(order = 1 ∨ order = 2) ∨ f.mesh.ndim ≤ ax
  · obtain ⟨e, he⟩ := diff_err f ax order r hc
    rw [he] at h; cases h
  · constructor
    · exact Classical.not_not.mp fun hn => hc (Or.inl hn)
    · exact Nat.lt_of_not_le fun hn => hc (Or.inr hn)

theorem diff_ok_eq {f g : Fld} {ax order : Nat} {r : Bool} (h : C04.diff f ax order r = .ok g) :
    g = { f with data := ⟨f.data.shape, fun i => tab f.nvdim fun c => Dc f ax order r c i⟩ } := by
  obtain ⟨ho, hax⟩ := diff_ok_args h
  rw [diff_eq f ax order r ho hax] at h
  injection h with h
  exact h.symm

/-! ## 2. the stored vector is `Dv` -/

theorem diff_meta (f g : Fld) (ax order : Nat) (r : Bool) (h : C04.diff f ax order r = .ok g) :
    g.mesh = f.mesh ∧ g.valid = f.valid ∧ g.nvdim = f.nvdim ∧ g.data.shape = f.data.shape := by
  rw [diff_ok_eq h]
  exact ⟨rfl, rfl, rfl, rfl⟩

/-- component `c` of the stored cell value -/
theorem diff_comp (f g : Fld) (ax order : Nat) (r : Bool) (h : C04.diff f ax order r = .ok g)
    (i : List Nat) (c : Nat) (hc : c < f.nvdim) : (g.data.get i).getD c 0 = Dc f ax order r c i := by
  rw [diff_ok_eq h]
  show (tab f.nvdim fun c => Dc f ax order r c i).getD c 0 = _
  rw [getD_tab _ _ _ _ hc]

theorem cellV_diff (f g : Fld) (ax order : Nat) (r : Bool) (h3 : f.nvdim = 3)
    (h : C04.diff f ax order r = .ok g) (i : List Nat) : cellV g i = Dv f ax order r i := by
  unfold cellV V3.ofList Dv
  rw [diff_comp f g ax order r h i 0 (by omega), diff_comp f g ax order r h i 1 (by omega),
    diff_comp f g ax order r h i 2 (by omega)]

/-! ## 3. linearity of the line derivative for a fixed validity pattern -/

/-- the combination of two lines, entry by entry -/
def lin2 (α β : Rat) (l1 l2 : List Rat) : List Rat := List.zipWith (fun x y => α * x + β * y) l1 l2

theorem lin2_getD (α β : Rat) (l1 l2 : List Rat) (hl : l1.length = l2.length) (k : Nat) :
    (lin2 α β l1 l2).getD k 0 = α * l1.getD k 0 + β * l2.getD k 0 := by
  unfold lin2
  simp only [List.getD_eq_getElem?_getD, List.getElem?_zipWith]
  by_cases hk : k < l1.length
  · have hk2 : k < l2.length := by omega
    simp [hk, hk2]
  · have hk2 : ¬ k < l2.length := by omega
    simp [Nat.le_of_not_lt hk, Nat.le_of_not_lt hk2]

theorem diffLine_lin (order : Nat) (h α β : Rat) (cells : List ((Rat × Rat) × Bool)) :
    C04.diffLine order h (cells.map fun c => (α * c.1.1 + β * c.1.2, c.2))
      = lin2 α β (C04.diffLine order h (cells.map fun c => (c.1.1, c.2)))
          (C04.diffLine order h (cells.map fun c => (c.1.2, c.2))) := by
  have := C04.sdc_linear order h α β cells [] [] rfl
  simpa [C04.diffLine, C04.sdc, lin2] using this

theorem diffRing_lin (order : Nat) (h α β : Rat) (cells : List ((Rat × Rat) × Bool)) :
    C04.diffRing order h (cells.map fun c => (α * c.1.1 + β * c.1.2, c.2))
      = lin2 α β (C04.diffRing order h (cells.map fun c => (c.1.1, c.2)))
          (C04.diffRing order h (cells.map fun c => (c.1.2, c.2))) := by
  unfold C04.diffRing
  rw [C04.wrap1_map, C04.wrap1_map, C04.wrap1_map, diffLine_lin]
  simp only [List.length_map, lin2, List.drop_zipWith, List.take_zipWith]

theorem diffLineP_lin (p r : Bool) (order : Nat) (h α β : Rat) (cells : List ((Rat × Rat) × Bool)) :
    C04.diffLine' p r order h (cells.map fun c => (α * c.1.1 + β * c.1.2, c.2))
      = lin2 α β (C04.diffLine' p r order h (cells.map fun c => (c.1.1, c.2)))
          (C04.diffLine' p r order h (cells.map fun c => (c.1.2, c.2))) := by
  unfold C04.diffLine'
  cases r
  · have e : ∀ g : (Rat × Rat) → Rat,
        ((cells.map fun c => (g c.1, c.2)).map fun c => (c.1, true))
          = (cells.map fun c => (c.1, true)).map fun c => (g c.1, c.2) := by
      intro g; simp [List.map_map, Function.comp_def]
    simp only [Bool.false_eq_true, if_false]
    rw [e (fun c => α * c.1 + β * c.2), e (fun c => c.1), e (fun c => c.2)]
    cases p
    · simpa using diffLine_lin order h α β (cells.map fun c => (c.1, true))
    · simpa using diffRing_lin order h α β (cells.map fun c => (c.1, true))
  · cases p
    · simpa using diffLine_lin order h α β cells
    · simpa using diffRing_lin order h α β cells

/-- the output length of the line derivative depends on the number of cells only -/
theorem diffLineP_length_eq (p r : Bool) (order : Nat) (h : Rat) {γ : Type} (cells : List γ)
    (g1 g2 : γ → Rat × Bool) :
    (C04.diffLine' p r order h (cells.map g1)).length = (C04.diffLine' p r order h (cells.map g2)).length := by
  unfold C04.diffLine'
  cases p <;> cases r <;>
    simp [C04.diffRing, C04.wrap1_map, C04.diffLine_length, List.map_map]

/-- two-term linearity of one line, read at position `k`: values `α·x + β·y`, the same
validity pattern `v`, open or periodic, restriction on or off, any order, any step -/
theorem line_lin2 (p r : Bool) (order : Nat) (h α β : Rat) (n : Nat) (x y : Nat → Rat) (v : Nat → Bool)
    (k : Nat) :
    (C04.diffLine' p r order h (tab n fun j => (α * x j + β * y j, v j))).getD k 0
      = α * (C04.diffLine' p r order h (tab n fun j => (x j, v j))).getD k 0
        + β * (C04.diffLine' p r order h (tab n fun j => (y j, v j))).getD k 0 := by
  have hl := diffLineP_lin p r order h α β (tab n fun j => ((x j, y j), v j))
  simp only [tab, List.map_map, Function.comp_def] at hl
  simp only [tab]
  rw [hl]
  exact lin2_getD α β _ _ (diffLineP_length_eq p r order h (List.range n) _ _) k

/-- one-term version: scaling the values scales the derivative -/
theorem line_smul (p r : Bool) (order : Nat) (h α : Rat) (n : Nat) (x : Nat → Rat) (v : Nat → Bool)
    (k : Nat) :
    (C04.diffLine' p r order h (tab n fun j => (α * x j, v j))).getD k 0
      = α * (C04.diffLine' p r order h (tab n fun j => (x j, v j))).getD k 0 := by
  have := line_lin2 p r order h α 0 n x x v k
  simp only [zero_mul, add_zero] at this
  exact this

/-- three-term version -/
theorem line_lin3 (p r : Bool) (order : Nat) (h a b c : Rat) (n : Nat) (x y z : Nat → Rat)
    (v : Nat → Bool) (k : Nat) :
    (C04.diffLine' p r order h (tab n fun j => (a * x j + b * y j + c * z j, v j))).getD k 0
      = a * (C04.diffLine' p r order h (tab n fun j => (x j, v j))).getD k 0
        + b * (C04.diffLine' p r order h (tab n fun j => (y j, v j))).getD k 0
        + c * (C04.diffLine' p r order h (tab n fun j => (z j, v j))).getD k 0 := by
  have e : (fun j => (a * x j + b * y j + c * z j, v j))
      = fun j => (1 * (a * x j + b * y j) + c * z j, v j) := by
    funext j; rw [one_mul]
  rw [e, line_lin2 p r order h 1 c n (fun j => a * x j + b * y j) z v k,
    line_lin2 p r order h a b n x y v k, one_mul]

/-! ## 3b. a matrix acting on the components -/

/-- component `c` of `Dv` -/
theorem Dv_x (f : Fld) (ax order : Nat) (r : Bool) (i : List Nat) : (Dv f ax order r i).x = Dc f ax order r 0 i := rfl
theorem Dv_y (f : Fld) (ax order : Nat) (r : Bool) (i : List Nat) : (Dv f ax order r i).y = Dc f ax order r 1 i := rfl
theorem Dv_z (f : Fld) (ax order : Nat) (r : Bool) (i : List Nat) : (Dv f ax order r i).z = Dc f ax order r 2 i := rfl

/-- `Dc` of a field whose component `c` is a combination of the three components of `f`
(same mesh, same validity) -/
theorem Dc_lin3 (f g : Fld) (ax order : Nat) (r : Bool) (c : Nat) (a0 a1 a2 : Rat) (i : List Nat)
    (hm : g.mesh = f.mesh) (hv : g.valid = f.valid)
    (hd : ∀ j, (g.data.get j).getD c 0
      = a0 * (f.data.get j).getD 0 0 + a1 * (f.data.get j).getD 1 0 + a2 * (f.data.get j).getD 2 0) :
    Dc g ax order r c i = a0 * Dc f ax order r 0 i + a1 * Dc f ax order r 1 i + a2 * Dc f ax order r 2 i := by
  unfold Dc periodic NDA.line
  rw [hm, hv]
  simp only [hd]
  exact line_lin3 _ r order _ a0 a1 a2 _ _ _ _ _ _

theorem Dv_rotF (q : M3) (f : Fld) (ax order : Nat) (r : Bool) (i : List Nat) :
    Dv (rotF q f) ax order r i = q.mulVec (Dv f ax order r i) := by
  unfold M3.mulVec
  rw [Dv_x, Dv_y, Dv_z]
  show (⟨_, _, _⟩ : V3) = _
  rw [Dc_lin3 f (rotF q f) ax order r 0 q.a11 q.a12 q.a13 i rfl rfl (fun j => rfl),
    Dc_lin3 f (rotF q f) ax order r 1 q.a21 q.a22 q.a23 i rfl rfl (fun j => rfl),
    Dc_lin3 f (rotF q f) ax order r 2 q.a31 q.a32 q.a33 i rfl rfl (fun j => rfl)]

/-! ## 4. sign flip -/

theorem Dc_smul (f g : Fld) (ax order : Nat) (r : Bool) (c : Nat) (a : Rat) (i : List Nat)
    (hm : g.mesh = f.mesh) (hv : g.valid = f.valid)
    (hd : ∀ j, (g.data.get j).getD c 0 = a * (f.data.get j).getD c 0) :
    Dc g ax order r c i = a * Dc f ax order r c i := by
  unfold Dc periodic NDA.line
  rw [hm, hv]
  simp only [hd]
  exact line_smul _ r order _ a _ _ _ _

theorem Dv_negF (f : Fld) (ax order : Nat) (r : Bool) (i : List Nat) :
    Dv (negF f) ax order r i = (Dv f ax order r i).neg := by
  unfold V3.neg
  rw [Dv_x, Dv_y, Dv_z]
  show (⟨_, _, _⟩ : V3) = _
  rw [Dc_smul f (negF f) ax order r 0 (-1) i rfl rfl (fun j => (neg_one_mul _).symm),
    Dc_smul f (negF f) ax order r 1 (-1) i rfl rfl (fun j => (neg_one_mul _).symm),
    Dc_smul f (negF f) ax order r 2 (-1) i rfl rfl (fun j => (neg_one_mul _).symm)]
  simp only [neg_one_mul]

/-! ## 5. constant lines have zero derivative, whatever the validity pattern -/

theorem d1At_const (h c : Rat) (L : Nat) (g : Nat → Rat) (i : Nat) (hg : ∀ k, k < L → g k = c)
    (hi : i < L) : C04.d1At h L g i = 0 := by
  unfold C04.d1At
  split
  · rfl
  split
  · rw [hg 1 (by omega), hg 0 (by omega)]; ring
  split
  · rw [hg 0 (by omega), hg 1 (by omega), hg 2 (by omega)]; ring
  split
  · rw [hg (L - 1) (by omega), hg (L - 2) (by omega), hg (L - 3) (by omega)]; ring
  · rw [hg (i + 1) (by omega), hg (i - 1) (by omega)]; ring

theorem d2At_const (h c : Rat) (L : Nat) (g : Nat → Rat) (i : Nat) (hg : ∀ k, k < L → g k = c)
    (hi : i < L) : C04.d2At h L g i = 0 := by
  unfold C04.d2At
  split
  · rfl
  split
  · rw [hg 0 (by omega), hg 1 (by omega), hg 2 (by omega)]; ring
  split
  · rw [hg 0 (by omega), hg 1 (by omega), hg 2 (by omega), hg 3 (by omega)]; ring
  split
  · rw [hg (L - 1) (by omega), hg (L - 2) (by omega), hg (L - 3) (by omega), hg (L - 4) (by omega)]; ring
  · rw [hg (i + 1) (by omega), hg i (by omega), hg (i - 1) (by omega)]; ring

theorem dAt_const (order : Nat) (h c : Rat) (L : Nat) (g : Nat → Rat) (i : Nat)
    (hg : ∀ k, k < L → g k = c) (hi : i < L) : C04.dAt order h L g i = 0 := by
  unfold C04.dAt
  split
  · exact d1At_const h c L g i hg hi
  · exact d2At_const h c L g i hg hi

/-- every entry of the derivative of a constant run is 0 -/
theorem diffRun_const (order : Nat) (h c : Rat) (xs : List Rat) (hx : ∀ x ∈ xs, x = c) :
    ∀ z ∈ C04.diffRun order h xs, z = 0 := by
  intro z hz
  unfold C04.diffRun tab at hz
  obtain ⟨i, hi, rfl⟩ := List.mem_map.mp hz
  have hi : i < xs.length := List.mem_range.mp hi
  apply dAt_const order h c _ _ _ _ hi
  intro k hk
  rw [List.getD_eq_getElem?_getD, List.getElem?_eq_getElem hk]
  exact hx _ (List.getElem_mem hk)

/-- the split–differentiate–combine pass on a line of constant values yields zeros only -/
theorem sdcGo_const (order : Nat) (h c : Rat) :
    ∀ (cells : List (Rat × Bool)) (acc : List Rat), (∀ p ∈ cells, p.1 = c) → (∀ x ∈ acc, x = c) →
      ∀ z ∈ C04.sdcGo (C04.diffRun order h) cells acc, z = 0 := by
  intro cells
  induction cells with
  | nil =>
    intro acc _ ha z hz
    simp only [C04.sdcGo] at hz
    exact diffRun_const order h c _ (fun x hx => ha x (List.mem_reverse.mp hx)) z hz
  | cons p ps ih =>
    intro acc hc ha z hz
    obtain ⟨x, v⟩ := p
    have hx : x = c := hc (x, v) List.mem_cons_self
    have hps : ∀ p ∈ ps, p.1 = c := fun p hp => hc p (List.mem_cons_of_mem _ hp)
    cases v
    · simp only [C04.sdcGo, List.mem_append, List.mem_cons] at hz
      rcases hz with hz | hz | hz
      · exact diffRun_const order h c _ (fun x hx => ha x (List.mem_reverse.mp hx)) z hz
      · exact hz
      · exact ih [] hps (by simp) z hz
    · simp only [C04.sdcGo] at hz
      refine ih (x :: acc) hps ?_ z hz
      intro y hy
      rcases List.mem_cons.mp hy with rfl | hy
      · exact hx
      · exact ha y hy

theorem mem_wrap1 {α} (xs : List α) (a : α) (h : a ∈ C04.wrap1 xs) : a ∈ xs := by
  cases xs with
  | nil => simp [C04.wrap1] at h
  | cons x xs =>
    rw [C04.wrap1_eq] at h
    simp only [List.cons_append, List.mem_cons, List.mem_append, List.mem_nil_iff, or_false] at h
    rcases h with rfl | rfl | h | rfl
    · exact List.getLast_mem _
    · exact List.mem_cons_self
    · exact List.mem_cons_of_mem _ h
    · exact List.mem_cons_self

theorem diffLineP_const (p r : Bool) (order : Nat) (h c : Rat) (cells : List (Rat × Bool))
    (hc : ∀ q ∈ cells, q.1 = c) : ∀ z ∈ C04.diffLine' p r order h cells, z = 0 := by
  have hc2 : ∀ q ∈ (if r then cells else cells.map fun q => (q.1, true)), q.1 = c := by
    cases r
    · intro q hq
      simp only [Bool.false_eq_true, if_false] at hq
      obtain ⟨q0, hq0, rfl⟩ := List.mem_map.mp hq
      exact hc q0 hq0
    · simpa using hc
  intro z hz
  unfold C04.diffLine' at hz
  cases p
  · simp only [Bool.false_eq_true, if_false] at hz
    exact sdcGo_const order h c _ [] hc2 (by simp) z hz
  · simp only [if_true] at hz
    unfold C04.diffRing C04.diffLine C04.sdc at hz
    have hz := List.mem_of_mem_drop (List.mem_of_mem_take hz)
    exact sdcGo_const order h c _ [] (fun q hq => hc2 q (mem_wrap1 _ q hq)) (by simp) z hz

theorem getD_of_all_zero (l : List Rat) (hl : ∀ z ∈ l, z = 0) (k : Nat) : l.getD k 0 = 0 := by
  rw [List.getD_eq_getElem?_getD]
  by_cases hk : k < l.length
  · rw [List.getElem?_eq_getElem hk]
    exact hl _ (List.getElem_mem hk)
  · rw [List.getElem?_eq_none (Nat.le_of_not_lt hk)]
    rfl

/-- a line of constant values: derivative 0 at every position, for every validity pattern -/
theorem line_const (p r : Bool) (order : Nat) (h c : Rat) (n : Nat) (v : Nat → Bool) (k : Nat) :
    (C04.diffLine' p r order h (tab n fun j => (c, v j))).getD k 0 = 0 := by
  apply getD_of_all_zero
  apply diffLineP_const p r order h c
  intro q hq
  unfold tab at hq
  obtain ⟨j, _, rfl⟩ := List.mem_map.mp hq
  rfl

theorem Dc_const (f : Fld) (ax order : Nat) (r : Bool) (c : Nat) (a : Rat) (i : List Nat)
    (hd : ∀ j, (f.data.get j).getD c 0 = a) : Dc f ax order r c i = 0 := by
  unfold Dc NDA.line
  simp only [hd]
  exact line_const _ r order _ a _ _ _

theorem Dv_uniform (f : Fld) (v : V3) (hu : uniformF f v) (ax order : Nat) (r : Bool) (i : List Nat) :
    Dv f ax order r i = V3.zero := by
  unfold Dv V3.zero
  have h0 : ∀ j, (f.data.get j).getD 0 0 = v.x := fun j => congrArg V3.x (hu j)
  have h1 : ∀ j, (f.data.get j).getD 1 0 = v.y := fun j => congrArg V3.y (hu j)
  have h2 : ∀ j, (f.data.get j).getD 2 0 = v.z := fun j => congrArg V3.z (hu j)
  rw [Dc_const f ax order r 0 v.x i h0, Dc_const f ax order r 1 v.y i h1, Dc_const f ax order r 2 v.z i h2]

/-! ## 6. scaling and translating the mesh: the first derivative is divided by the scale -/

/-- the cell edge of the transformed mesh.  For `ax ≥ ndim` the transformed edge is 0, the
original one is `pmax[ax] / n[ax]`, which is 0 as soon as `pmax` is not longer than `pmin`. -/
theorem affMesh_cellAt (lam : Rat) (t : List Rat) (m : Mesh) (ax : Nat)
    (hax : ax < m.ndim ∨ m.region.pmax.length ≤ m.region.pmin.length) :
    (affMesh lam t m).cellAt ax = lam * m.cellAt ax := by
  unfold Mesh.cellAt Region.edge
  have hn : (affMesh lam t m).nAt ax = m.nAt ax := rfl
  rw [hn]
  by_cases h : ax < m.ndim
  · have h1 : (affMesh lam t m).region.hi ax = lam * m.region.hi ax + t.getD ax 0 := by
      show (tab m.region.ndim fun a => lam * m.region.hi a + t.getD a 0).getD ax 0 = _
      exact getD_tab _ _ _ _ h
    have h2 : (affMesh lam t m).region.lo ax = lam * m.region.lo ax + t.getD ax 0 := by
      show (tab m.region.ndim fun a => lam * m.region.lo a + t.getD a 0).getD ax 0 = _
      exact getD_tab _ _ _ _ h
    rw [h1, h2]; ring
  · have hle : m.region.pmax.length ≤ m.region.pmin.length := by
      rcases hax with hax | hax
      · exact absurd hax h
      · exact hax
    have hge : m.region.pmin.length ≤ ax := Nat.le_of_not_lt h
    have h1 : (affMesh lam t m).region.hi ax = 0 := by
      show (tab m.region.ndim fun a => lam * m.region.hi a + t.getD a 0).getD ax 0 = _
      exact getD_tab_ge _ _ _ _ hge
    have h2 : (affMesh lam t m).region.lo ax = 0 := by
      show (tab m.region.ndim fun a => lam * m.region.lo a + t.getD a 0).getD ax 0 = _
      exact getD_tab_ge _ _ _ _ hge
    have h3 : m.region.hi ax = 0 := by
      unfold Region.hi
      rw [List.getD_eq_getElem?_getD, List.getElem?_eq_none (by omega)]; rfl
    have h4 : m.region.lo ax = 0 := by
      unfold Region.lo
      rw [List.getD_eq_getElem?_getD, List.getElem?_eq_none (by omega)]; rfl
    rw [h1, h2, h3, h4]; ring

theorem d1At_scale (lam h : Rat) (L : Nat) (g : Nat → Rat) (i : Nat) :
    C04.d1At (lam * h) L g i = C04.d1At h L g i / lam := by
  unfold C04.d1At
  split
  · simp
  split
  · ring
  split
  · ring
  split
  · ring
  · ring

theorem diffRun1_scale (lam h : Rat) (xs : List Rat) :
    C04.diffRun 1 (lam * h) xs = (C04.diffRun 1 h xs).map (· / lam) := by
  unfold C04.diffRun tab C04.dAt
  simp only [if_true, List.map_map]
  apply List.map_congr_left
  intro i _
  exact d1At_scale lam h _ _ i

theorem sdcGo1_scale (lam h : Rat) : ∀ (cells : List (Rat × Bool)) (acc : List Rat),
    C04.sdcGo (C04.diffRun 1 (lam * h)) cells acc
      = (C04.sdcGo (C04.diffRun 1 h) cells acc).map (· / lam) := by
  intro cells
  induction cells with
  | nil => intro acc; simp only [C04.sdcGo]; exact diffRun1_scale lam h _
  | cons p ps ih =>
    intro acc
    obtain ⟨x, v⟩ := p
    cases v
    · simp only [C04.sdcGo, List.map_append, List.map_cons, zero_div]
      rw [ih [], diffRun1_scale]
    · simp only [C04.sdcGo]
      exact ih (x :: acc)

theorem diffLineP1_scale (p r : Bool) (lam h : Rat) (cells : List (Rat × Bool)) :
    C04.diffLine' p r 1 (lam * h) cells = (C04.diffLine' p r 1 h cells).map (· / lam) := by
  unfold C04.diffLine' C04.diffRing C04.diffLine C04.sdc
  cases p
  · simp only [Bool.false_eq_true, if_false]
    exact sdcGo1_scale lam h _ []
  · simp only [if_true]
    rw [sdcGo1_scale lam h _ [], List.map_take, List.map_drop]

theorem getD_map_div (l : List Rat) (lam : Rat) (k : Nat) :
    (l.map (· / lam)).getD k 0 = l.getD k 0 / lam := by
  simp only [List.getD_eq_getElem?_getD, List.getElem?_map]
  cases l[k]? with
  | none => simp
  | some a => simp

theorem Dc_affF (lam : Rat) (t : List Rat) (f : Fld) (ax : Nat) (r : Bool) (c : Nat) (i : List Nat)
    (hax : ax < f.mesh.ndim ∨ f.mesh.region.pmax.length ≤ f.mesh.region.pmin.length) :
    Dc (affF lam t f) ax 1 r c i = Dc f ax 1 r c i / lam := by
  unfold Dc
  have hp : periodic (affF lam t f) ax = periodic f ax := rfl
  have hn : (affF lam t f).mesh.nAt ax = f.mesh.nAt ax := rfl
  have hc : (affF lam t f).mesh.cellAt ax = lam * f.mesh.cellAt ax := affMesh_cellAt lam t f.mesh ax hax
  have hd : (affF lam t f).data = f.data := rfl
  have hv : (affF lam t f).valid = f.valid := rfl
  rw [hp, hn, hc, hd, hv, diffLineP1_scale, getD_map_div]

/-- general form: `ax` a direction of the mesh, or `pmax` not longer than `pmin` -/
theorem Dv_affF_gen (lam : Rat) (t : List Rat) (f : Fld) (ax : Nat) (r : Bool) (i : List Nat)
    (hax : ax < f.mesh.ndim ∨ f.mesh.region.pmax.length ≤ f.mesh.region.pmin.length) :
    Dv (affF lam t f) ax 1 r i = (Dv f ax 1 r i).sdiv lam := by
  unfold Dv V3.sdiv
  rw [Dc_affF lam t f ax r 0 i hax, Dc_affF lam t f ax r 1 i hax, Dc_affF lam t f ax r 2 i hax]

/-- for a direction of the mesh (no condition on `lam`: for `lam = 0` both sides are 0) -/
theorem Dv_affF (lam : Rat) (t : List Rat) (f : Fld) (ax : Nat) (r : Bool) (i : List Nat)
    (hax : ax < f.mesh.ndim) :
    Dv (affF lam t f) ax 1 r i = (Dv f ax 1 r i).sdiv lam :=
  Dv_affF_gen lam t f ax r i (Or.inl hax)

/-- for every `ax`, on a mesh whose region has corner lists of the same length (part of
`Region.Inv`) -/
theorem Dv_affF_len (lam : Rat) (t : List Rat) (f : Fld) (ax : Nat) (r : Bool) (i : List Nat)
    (hlen : f.mesh.region.pmax.length = f.mesh.region.pmin.length) :
    Dv (affF lam t f) ax 1 r i = (Dv f ax 1 r i).sdiv lam :=
  Dv_affF_gen lam t f ax r i (Or.inr (Nat.le_of_eq hlen))

end DFV.C19
