import DFV.Lemmas.C07Comp
import DFV.Lemmas.C07Accept
/-! Forward direction with subregions: the subregion setter accepts boxes of whole cells, so
`Mesh.sel` succeeds on meshes whose subregions consist of whole cells. -/
namespace DFV.C07
open DFV DFV.Mesh

theorem remainder_mul (k : Nat) (c : Rat) (hc : 0 < c) : remainder ((k : Rat) * c) c = 0 := by
  unfold remainder
  have hq : (k : Rat) * c / c = ((k : Int) : Rat) := by field_simp; push_cast; ring
  rw [hq]
  have hf : (((k : Int) : Rat)).floor = (k : Int) := by apply rat_floor_eq <;> linarith
  rw [hf]; push_cast; ring

theorem remTest_mul (d c : Rat) (k : Nat) (hc : 0 < c) (hd : absR d = (k : Rat) * c) :
    remTest d c (1/1000000000000) = false := by
  unfold remTest
  rw [hd, remainder_mul k c hc]
  have : decide ((1 : Rat)/1000000000000 < 0) = false := by
    rw [decide_eq_false_iff_not]; norm_num
  rw [this]; rfl

theorem isclose_self (x tol : Rat) (ht : 0 ≤ tol) : Region.isclose x x (1/100000) tol = true := by
  unfold Region.isclose
  rw [decide_eq_true_iff, sub_self]
  have h0 : absR 0 = 0 := by unfold absR; simp
  rw [h0]
  have := absR_nonneg x
  nlinarith

/-- the three tests of the subregion setter pass for a box of whole cells -/
theorem checkSub_ok (m : Mesh) (hm : m.Inv) (s : Region) (k1 k2 : Nat → Nat) (hal : SubAligned m s k1 k2) :
    checkSub m s = .ok () := by
  obtain ⟨s1, s2, s3⟩ := hal
  have hbox := boxIn_of_aligned m hm s k1 k2 ⟨s1, s2, s3⟩
  unfold checkSub
  have hcont : m.region.containsReg s = true := by
    unfold Region.containsReg
    rw [containsPt_of_exact m.region s.pmin s1 (fun a ha => by
        obtain ⟨b1, b2, b3⟩ := hbox.2 a ha
        exact ⟨b1, by show s.lo a ≤ _; linarith⟩),
      containsPt_of_exact m.region s.pmax s2 (fun a ha => by
        obtain ⟨b1, b2, b3⟩ := hbox.2 a ha
        exact ⟨by show _ ≤ s.hi a; linarith, b3⟩)]
    rfl
  rw [hcont]
  simp only [Bool.not_true, Bool.false_eq_true, if_false]
  have hcast : ∀ a, a < m.ndim → ((k2 a - k1 a : Nat) : Rat) = (k2 a : Rat) - (k1 a : Rat) := by
    intro a ha
    have := (s3 a ha).1
    push_cast [Nat.cast_sub this.le]; ring
  have hmk := mkCell_ok_nobc s (tab m.ndim fun a => k2 a - k1 a) m.cell (by rw [cell_length, s1])
    (by rw [tab_length, s1]) (by
      intro a ha
      rw [s1] at ha
      obtain ⟨t1, t2, t3, t4⟩ := s3 a ha
      have hc := inv_cell_pos hm ha
      rw [getD_tab _ _ _ _ ha, cell_getD m a ha]
      refine ⟨by omega, (hbox.2 a ha).2.1, ?_⟩
      unfold Region.edge
      rw [t3, t4, hcast a ha]
      have h12 : (k1 a : Rat) < (k2 a : Rat) := by exact_mod_cast t1
      have hne : (k2 a : Rat) - (k1 a : Rat) ≠ 0 := by intro h; linarith
      field_simp; ring)
  rw [hmk]
  simp only
  have hsmcell : ∀ a, a < m.ndim →
      ({ region := s, n := tab m.ndim fun a => k2 a - k1 a, bc := "", subs := [] } : Mesh).cellAt a = m.cellAt a := by
    intro a ha
    obtain ⟨t1, t2, t3, t4⟩ := s3 a ha
    show s.edge a / (((tab m.ndim fun a => k2 a - k1 a).getD a 0 : Nat) : Rat) = _
    rw [getD_tab _ _ _ _ ha, hcast a ha]
    unfold Region.edge
    rw [t3, t4]
    have h12 : (k1 a : Rat) < (k2 a : Rat) := by exact_mod_cast t1
    have hne : (k2 a : Rat) - (k1 a : Rat) ≠ 0 := by intro h; linarith
    field_simp; ring
  have hal : isAligned m { region := s, n := tab m.ndim fun a => k2 a - k1 a, bc := "", subs := [] } = true := by
    unfold isAligned
    have h1 : allclose m.cell ({ region := s, n := tab m.ndim fun a => k2 a - k1 a, bc := "", subs := [] } : Mesh).cell
        (1/1000000000000) = true := by
      unfold allclose
      have hl : m.cell.length = ({ region := s, n := tab m.ndim fun a => k2 a - k1 a, bc := "", subs := [] } : Mesh).cell.length := by
        rw [cell_length, cell_length]; exact s1.symm
      rw [decide_eq_true hl, Bool.true_and, allLt_iff]
      intro a ha
      rw [cell_length] at ha
      rw [cell_getD m a ha, cell_getD _ a (by show a < s.ndim; rw [s1]; exact ha), hsmcell a ha]
      exact isclose_self _ _ (by norm_num)
    have h2 : allLt m.ndim (fun a => !remTest (m.region.lo a -
        ({ region := s, n := tab m.ndim fun a => k2 a - k1 a, bc := "", subs := [] } : Mesh).region.lo a)
        (m.cellAt a) (1/1000000000000)) = true := by
      rw [allLt_iff]
      intro a ha
      obtain ⟨t1, t2, t3, t4⟩ := s3 a ha
      have hc := inv_cell_pos hm ha
      rw [remTest_mul _ _ (k1 a) hc (by
        show absR (m.region.lo a - s.lo a) = _
        rw [t3, absR_eq_abs]
        have : m.region.lo a - (m.region.lo a + (k1 a : Rat) * m.cellAt a) = -((k1 a : Rat) * m.cellAt a) := by ring
        rw [this, abs_neg, abs_of_nonneg]
        have : (0 : Rat) ≤ (k1 a : Rat) := by exact_mod_cast Nat.zero_le _
        nlinarith)]
      rfl
    have h3 : allLt m.ndim (fun a => !remTest (m.region.hi a -
        ({ region := s, n := tab m.ndim fun a => k2 a - k1 a, bc := "", subs := [] } : Mesh).region.hi a)
        (m.cellAt a) (1/1000000000000)) = true := by
      rw [allLt_iff]
      intro a ha
      obtain ⟨t1, t2, t3, t4⟩ := s3 a ha
      have hc := inv_cell_pos hm ha
      rw [remTest_mul _ _ (m.nAt a - k2 a) hc (by
        show absR (m.region.hi a - s.hi a) = _
        rw [t4, hi_eq m a (inv_n_pos hm ha), absR_eq_abs]
        have hcast2 : ((m.nAt a - k2 a : Nat) : Rat) = (m.nAt a : Rat) - (k2 a : Rat) := by
          push_cast [Nat.cast_sub t2]; ring
        rw [hcast2]
        have : m.region.lo a + (m.nAt a : Rat) * m.cellAt a - (m.region.lo a + (k2 a : Rat) * m.cellAt a)
            = ((m.nAt a : Rat) - (k2 a : Rat)) * m.cellAt a := by ring
        rw [this, abs_of_nonneg]
        have : (k2 a : Rat) ≤ (m.nAt a : Rat) := by exact_mod_cast t2
        nlinarith)]
      rfl
    rw [h1, h2, h3]; rfl
  rw [hal]
  rfl

theorem checkSubs_ok (m : Mesh) (hm : m.Inv) (subs : List (String × Region))
    (h : ∀ p, p ∈ subs → ∃ k1 k2, SubAligned m p.2 k1 k2) : checkSubs m subs = .ok () := by
  induction subs with
  | nil => rfl
  | cons p rest ih =>
    unfold checkSubs
    obtain ⟨k1, k2, hal⟩ := h p (List.mem_cons_self ..)
    rw [checkSub_ok m hm p.2 k1 k2 hal]
    exact ih (fun q hq => h q (List.mem_cons_of_mem _ hq))

/-- the subregion setter accepts boxes of whole cells and stores them with the names, units and
tolerance of the mesh region -/
theorem setSubs_ok (m : Mesh) (hm : m.Inv) (subs : List (String × Region))
    (h : ∀ p, p ∈ subs → ∃ k1 k2, SubAligned m p.2 k1 k2) :
    setSubs? m subs = .ok { m with subs := subs.map (storeSub m) } := by
  unfold setSubs?
  rw [checkSubs_ok m hm subs h]

/-- the region `Region(p1, p2)` builds from ordered corners: default names, units and tolerance -/
def bareRegion (p1 p2 : List Rat) : Region :=
  ⟨p1, p2, Region.defaultDims p1.length, List.replicate p1.length "m", 1/1000000000000⟩

/-- `Region(p1, p2)` (default names and units) with `p1 < p2` componentwise is accepted as is -/
theorem regionMk_none_ok (p1 p2 : List Rat) (h12 : p1.length = p2.length) (h0 : 0 < p1.length)
    (hlt : ∀ a, a < p1.length → p1.getD a 0 < p2.getD a 0) :
    Region.mk? p1 p2 none none = .ok (bareRegion p1 p2) := by
  unfold Region.mk?
  rw [if_neg (by omega), if_neg (by omega)]
  simp only [Region.dimsOk, Region.unitsOk]
  have hall : allLt p1.length (fun a => decide (p1.getD a 0 ≠ p2.getD a 0)) = true := by
    rw [allLt_iff]; intro a ha
    have := hlt a ha
    simp only [decide_eq_true_eq]; exact this.ne
  rw [hall]
  simp only [Bool.not_true, Bool.false_eq_true, if_false]
  have e1 : (tab p1.length fun a => min (p1.getD a 0) (p2.getD a 0)) = p1 := by
    symm; apply eq_tab_of_getD _ _ _ 0 rfl
    intro a ha; exact (min_eq_left (hlt a ha).le).symm
  have e2 : (tab p1.length fun a => max (p1.getD a 0) (p2.getD a 0)) = p2 := by
    symm; apply eq_tab_of_getD _ _ _ 0 h12.symm
    intro a ha; exact (max_eq_right (hlt a ha).le).symm
  rw [e1, e2]
  rfl

/-- a subregion with axis `a` taken out, as `Region(p1, p2)` builds it -/
def planeSubReg (a : Nat) (s : Region) : Region := bareRegion (removeAt s.pmin a) (removeAt s.pmax a)

theorem planeSubs_ok (a : Nat) (c : Rat) (N : Nat) (ha : a < N) (h2 : 2 ≤ N) (subs : List (String × Region))
    (h : ∀ p, p ∈ subs → p.2.pmin.length = N ∧ p.2.pmax.length = N ∧ ∀ b, b < N → p.2.lo b < p.2.hi b) :
    planeSubs a c subs = .ok ((subs.filter fun p => decide (p.2.lo a ≤ c ∧ c ≤ p.2.hi a)).map
      fun p => (p.1, planeSubReg a p.2)) := by
  induction subs with
  | nil => rfl
  | cons p rest ih =>
    have ihr := ih (fun q hq => h q (List.mem_cons_of_mem _ hq))
    obtain ⟨l1, l2, l3⟩ := h p (List.mem_cons_self ..)
    unfold planeSubs
    by_cases hdrop : p.2.hi a < c ∨ c < p.2.lo a
    · rw [if_pos hdrop, ihr]
      have : decide (p.2.lo a ≤ c ∧ c ≤ p.2.hi a) = false := by
        rw [decide_eq_false_iff_not]
        rintro ⟨h1, h2⟩
        rcases hdrop with hd | hd <;> linarith
      rw [List.filter_cons_of_neg (by rw [this]; simp)]
    · rw [if_neg hdrop]
      have : decide (p.2.lo a ≤ c ∧ c ≤ p.2.hi a) = true := by
        rw [decide_eq_true_iff]
        constructor
        · by_contra hc; exact hdrop (Or.inr (lt_of_not_ge hc))
        · by_contra hc; exact hdrop (Or.inl (lt_of_not_ge hc))
      rw [List.filter_cons_of_pos (by exact this)]
      have hl1 : (removeAt p.2.pmin a).length = N - 1 := by rw [length_removeAt _ _ (by omega), l1]
      have hl2 : (removeAt p.2.pmax a).length = N - 1 := by rw [length_removeAt _ _ (by omega), l2]
      rw [regionMk_none_ok _ _ (by rw [hl1, hl2]) (by omega) (by
        intro b hb
        rw [getD_removeAt, getD_removeAt]
        exact l3 _ (skip_lt a b N ha (by omega)))]
      simp only
      rw [ihr]
      rfl

theorem planeOf_inv (m : Mesh) (hm : m.Inv) (a : Nat) (ha : a < m.ndim) (h2 : 2 ≤ m.ndim) :
    (planeOf m a).Inv ∧ (planeOf m a).ndim = m.ndim - 1 ∧
    ∀ b, b < m.ndim - 1 →
      (planeOf m a).region.lo b = m.region.lo (skip a b) ∧ (planeOf m a).region.hi b = m.region.hi (skip a b) ∧
      (planeOf m a).nAt b = m.nAt (skip a b) ∧ (planeOf m a).cellAt b = m.cellAt (skip a b) := by
  have hnd : (planeOf m a).ndim = m.ndim - 1 := by
    show (removeAt m.region.pmin a).length = _
    exact length_removeAt _ _ ha
  have hax : ∀ b, b < m.ndim - 1 →
      (planeOf m a).region.lo b = m.region.lo (skip a b) ∧ (planeOf m a).region.hi b = m.region.hi (skip a b) ∧
      (planeOf m a).nAt b = m.nAt (skip a b) ∧ (planeOf m a).cellAt b = m.cellAt (skip a b) := by
    intro b hb
    have e1 : (planeOf m a).region.lo b = m.region.lo (skip a b) := getD_removeAt _ _ _ _
    have e2 : (planeOf m a).region.hi b = m.region.hi (skip a b) := getD_removeAt _ _ _ _
    have e3 : (planeOf m a).nAt b = m.nAt (skip a b) := getD_removeAt _ _ _ _
    refine ⟨e1, e2, e3, ?_⟩
    unfold cellAt Region.edge
    rw [e1, e2, e3]
  refine ⟨⟨⟨?_, ?_, ?_, ?_, ?_, ?_⟩, ?_, ?_⟩, hnd, hax⟩
  · show 0 < (planeOf m a).ndim; omega
  · show (removeAt m.region.pmax a).length = (planeOf m a).ndim
    rw [length_removeAt _ _ (by rw [inv_pmax_length hm]; exact ha), inv_pmax_length hm, hnd]
  · show (removeAt m.region.dims a).length = (planeOf m a).ndim
    rw [length_removeAt _ _ (by rw [inv_dims_length hm]; exact ha), inv_dims_length hm, hnd]
  · show (removeAt m.region.units a).length = (planeOf m a).ndim
    rw [length_removeAt _ _ (by rw [inv_units_length hm]; exact ha), inv_units_length hm, hnd]
  · exact hasDup_removeAt _ _ hm.1.2.2.2.2.1
  · intro b hb
    have hb' : b < m.ndim - 1 := by
      have : b < (planeOf m a).ndim := hb
      omega
    obtain ⟨e1, e2, _, _⟩ := hax b hb'
    rw [e1, e2]; exact inv_lo_lt_hi hm (skip_lt a b m.ndim ha hb')
  · show (removeAt m.n a).length = (planeOf m a).ndim
    rw [length_removeAt _ _ (by rw [inv_n_length hm]; exact ha), inv_n_length hm, hnd]
  · intro b hb
    have hb' : b < m.ndim - 1 := by omega
    rw [(hax b hb').2.2.1]; exact inv_n_pos hm (skip_lt a b m.ndim ha hb')

/-- a box of whole cells stays one when the axis is taken out of mesh and box -/
theorem planeSub_aligned (m : Mesh) (hm : m.Inv) (a : Nat) (ha : a < m.ndim) (h2 : 2 ≤ m.ndim) (s : Region)
    (k1 k2 : Nat → Nat) (hal : SubAligned m s k1 k2) :
    SubAligned (planeOf m a) (planeSubReg a s) (fun b => k1 (skip a b)) (fun b => k2 (skip a b)) := by
  obtain ⟨_, hnd, hax⟩ := planeOf_inv m hm a ha h2
  obtain ⟨s1, s2, s3⟩ := hal
  refine ⟨?_, ?_, ?_⟩
  · show (removeAt s.pmin a).length = _
    rw [length_removeAt _ _ (by show a < s.ndim; rw [s1]; exact ha), hnd]
    show s.ndim - 1 = _; rw [s1]
  · show (removeAt s.pmax a).length = _
    rw [length_removeAt _ _ (by rw [s2]; exact ha), s2, hnd]
  · intro b hb
    rw [hnd] at hb
    obtain ⟨e1, e2, e3, e4⟩ := hax b hb
    obtain ⟨t1, t2, t3, t4⟩ := s3 (skip a b) (skip_lt a b m.ndim ha hb)
    refine ⟨t1, by rw [e3]; exact t2, ?_, ?_⟩
    · show (removeAt s.pmin a).getD b 0 = _
      rw [getD_removeAt, e1, e4]; exact t3
    · show (removeAt s.pmax a).getD b 0 = _
      rw [getD_removeAt, e1, e4]; exact t4

theorem aligned_wf (m : Mesh) (hm : m.Inv) (s : Region) (k1 k2 : Nat → Nat) (hal : SubAligned m s k1 k2) :
    s.pmin.length = m.ndim ∧ s.pmax.length = m.ndim ∧ ∀ b, b < m.ndim → s.lo b < s.hi b :=
  ⟨hal.1, hal.2.1, fun b hb => (boxIn_of_aligned m hm s k1 k2 hal).2 b hb |>.2.1⟩

/-- plane selection on a mesh whose subregions consist of whole cells: accepted, and the result
is the mesh with the axis removed carrying the surviving subregions -/
theorem selPlaneMesh_ok_subs (m : Mesh) (hm : m.Inv) (a : Nat) (ha : a < m.ndim) (h2 : 2 ≤ m.ndim) (c : Rat)
    (hsubs : ∀ p, p ∈ m.subs → ∃ k1 k2, SubAligned m p.2 k1 k2) :
    selPlaneMesh m a c = .ok { planeOf m a with
      subs := ((m.subs.filter fun p => decide (p.2.lo a ≤ c ∧ c ≤ p.2.hi a)).map
        fun p => (p.1, planeSubReg a p.2)).map (storeSub (planeOf m a)) } := by
  -- the mesh without subregions: the existing lemma gives every step but the setter
  have h0 := selPlaneMesh_ok { m with subs := [] } hm rfl a ha h2 c
  unfold selPlaneMesh at h0 ⊢
  rw [planeSubs_ok a c m.ndim ha h2 m.subs (fun p hp => by
    obtain ⟨k1, k2, hal⟩ := hsubs p hp
    exact aligned_wf m hm p.2 k1 k2 hal)]
  simp only [planeSubs] at h0 ⊢
  cases hr : Region.mk? (removeAt m.region.pmin a) (removeAt m.region.pmax a)
      (some (removeAt m.region.dims a)) (some (removeAt m.region.units a)) m.region.tol with
  | error e =>
    exfalso
    have h0' := h0
    simp only [hr] at h0'
    cases h0'
  | ok r =>
    simp only [hr] at h0 ⊢
    unfold mkMesh? at h0 ⊢
    cases hc : Mesh.mkCell? r (removeAt m.cell a) "" with
    | error e =>
      exfalso
      have hcell : (removeAt ({ m with subs := [] } : Mesh).cell a) = removeAt m.cell a := rfl
      rw [hcell, hc] at h0
      cases h0
    | ok m0 =>
      have hcell : (removeAt ({ m with subs := [] } : Mesh).cell a) = removeAt m.cell a := rfl
      rw [hcell, hc] at h0
      simp only at h0 ⊢
      have hm0 : m0 = planeOf m a := by
        obtain ⟨g1, g2, g3, g4⟩ := setSubs_inv m0 [] _ h0
        have hp : planeOf ({ m with subs := [] } : Mesh) a = planeOf m a := rfl
        rw [hp] at g1 g2 g3 g4
        obtain ⟨_, _, c3, _, _⟩ := mkCell_inv _ _ _ _ hc
        cases m0
        simp only [planeOf] at g1 g2 g3 g4 c3 ⊢
        simp only [Mesh.mk.injEq]
        exact ⟨g1.symm, g2.symm, g3.symm, c3⟩
      rw [hm0]
      apply setSubs_ok (planeOf m a) (planeOf_inv m hm a ha h2).1
      intro q hq
      obtain ⟨p, hp, rfl⟩ := List.mem_map.mp hq
      obtain ⟨k1, k2, hal⟩ := hsubs p (List.mem_filter.mp hp).1
      exact ⟨_, _, planeSub_aligned m hm a ha h2 p.2 k1 k2 hal⟩

/-- a subregion clipped to the slab `[lo, hi]` along axis `a`, as `Region(p1, p2)` builds it -/
def rangeSubReg (a : Nat) (lo hi : Rat) (s : Region) : Region :=
  bareRegion (setAt s.pmin a (max lo (s.lo a))) (setAt s.pmax a (min hi (s.hi a)))

theorem rangeSubs_ok (a : Nat) (lo hi step : Rat) (hlh : lo < hi) (hstep : 0 ≤ step) (N : Nat) (ha : a < N)
    (subs : List (String × Region))
    (h : ∀ p, p ∈ subs → p.2.pmin.length = N ∧ p.2.pmax.length = N ∧ ∀ b, b < N → p.2.lo b < p.2.hi b) :
    rangeSubs a lo hi step subs = .ok ((subs.filter fun p =>
        decide (p.2.lo a < hi - step ∧ lo < p.2.hi a - step)).map
      fun p => (p.1, rangeSubReg a lo hi p.2)) := by
  induction subs with
  | nil => rfl
  | cons p rest ih =>
    have ihr := ih (fun q hq => h q (List.mem_cons_of_mem _ hq))
    obtain ⟨l1, l2, l3⟩ := h p (List.mem_cons_self ..)
    unfold rangeSubs
    by_cases hdrop : hi - step ≤ p.2.lo a ∨ p.2.hi a - step ≤ lo
    · rw [if_pos hdrop, ihr]
      have : decide (p.2.lo a < hi - step ∧ lo < p.2.hi a - step) = false := by
        rw [decide_eq_false_iff_not]
        rintro ⟨h1, h2⟩
        rcases hdrop with hd | hd <;> linarith
      rw [List.filter_cons_of_neg (by rw [this]; simp)]
    · rw [if_neg hdrop]
      have hk : p.2.lo a < hi - step ∧ lo < p.2.hi a - step := by
        constructor
        · by_contra hc; exact hdrop (Or.inl (le_of_not_gt hc))
        · by_contra hc; exact hdrop (Or.inr (le_of_not_gt hc))
      have : decide (p.2.lo a < hi - step ∧ lo < p.2.hi a - step) = true := by
        rw [decide_eq_true_iff]; exact hk
      rw [List.filter_cons_of_pos (by exact this)]
      rw [regionMk_none_ok _ _ (by rw [length_setAt, length_setAt, l1, l2]) (by rw [length_setAt, l1]; omega) (by
        intro b hb
        rw [length_setAt, l1] at hb
        by_cases hba : b = a
        · subst hba
          rw [getD_setAt_eq _ _ _ _ (by rw [l1]; exact hb), getD_setAt_eq _ _ _ _ (by rw [l2]; exact hb)]
          have := l3 b hb
          apply max_lt <;> apply lt_min <;> linarith
        · rw [getD_setAt_ne _ _ _ _ _ hba, getD_setAt_ne _ _ _ _ _ hba]
          exact l3 b hb)]
      simp only
      rw [ihr]
      rfl

/-- a box of whole cells `s₁ … s₂-1` clipped to a block `K₁ … K₂` of whole cells it shares a cell
with is a box of whole cells of that block -/
theorem rangeSub_aligned (m g : Mesh) (hm : m.Inv) (a : Nat) (ha : a < m.ndim) (K1 K2 : Nat)
    (hK : K1 ≤ K2) (hK2 : K2 < m.nAt a) (hnd : g.ndim = m.ndim)
    (blka : AxisBlock g m a a K1 (K2 - K1 + 1))
    (blk : ∀ b, b < m.ndim → b ≠ a → AxisBlock g m b b 0 (m.nAt b))
    (s : Region) (k1 k2 : Nat → Nat) (hal : SubAligned m s k1 k2)
    (hkeep : k1 a < K2 + 1 ∧ K1 < k2 a) :
    SubAligned g (rangeSubReg a (m.region.lo a + (K1 : Rat) * m.cellAt a)
        (m.region.lo a + ((K2 : Rat) + 1) * m.cellAt a) s)
      (fun b => if b = a then max K1 (k1 a) - K1 else k1 b)
      (fun b => if b = a then min (K2 + 1) (k2 a) - K1 else k2 b) := by
  obtain ⟨s1, s2, s3⟩ := hal
  have hc := inv_cell_pos hm ha
  refine ⟨?_, ?_, ?_⟩
  · show (setAt s.pmin a _).length = _
    rw [length_setAt, hnd]; exact s1
  · show (setAt s.pmax a _).length = _
    rw [length_setAt, hnd]; exact s2
  · intro b hb
    rw [hnd] at hb
    by_cases hba : b = a
    · subst hba
      obtain ⟨t1, t2, t3, t4⟩ := s3 b hb
      simp only [if_true]
      have hmax : max (m.region.lo b + (K1 : Rat) * m.cellAt b) (s.lo b)
          = m.region.lo b + ((max K1 (k1 b) : Nat) : Rat) * m.cellAt b := by
        rw [t3]
        rcases le_total K1 (k1 b) with h | h
        · have hr : (K1 : Rat) ≤ (k1 b : Rat) := by exact_mod_cast h
          rw [Nat.max_eq_right h, max_eq_right (by nlinarith)]
        · have hr : (k1 b : Rat) ≤ (K1 : Rat) := by exact_mod_cast h
          rw [Nat.max_eq_left h, max_eq_left (by nlinarith)]
      have hmin : min (m.region.lo b + ((K2 : Rat) + 1) * m.cellAt b) (s.hi b)
          = m.region.lo b + ((min (K2 + 1) (k2 b) : Nat) : Rat) * m.cellAt b := by
        rw [t4]
        rcases le_total (K2 + 1) (k2 b) with h | h
        · have hr : (K2 : Rat) + 1 ≤ (k2 b : Rat) := by exact_mod_cast h
          rw [Nat.min_eq_left h, min_eq_left (by nlinarith)]; push_cast; ring
        · have hr : (k2 b : Rat) ≤ (K2 : Rat) + 1 := by exact_mod_cast h
          rw [Nat.min_eq_right h, min_eq_right (by nlinarith)]
      have c1 : ((max K1 (k1 b) - K1 : Nat) : Rat) = ((max K1 (k1 b) : Nat) : Rat) - (K1 : Rat) := by
        push_cast [Nat.cast_sub (Nat.le_max_left K1 (k1 b))]; ring
      have hge : K1 ≤ min (K2 + 1) (k2 b) := by
        rw [Nat.le_min]; omega
      have c2 : ((min (K2 + 1) (k2 b) - K1 : Nat) : Rat) = ((min (K2 + 1) (k2 b) : Nat) : Rat) - (K1 : Rat) := by
        push_cast [Nat.cast_sub hge]; ring
      refine ⟨?_, ?_, ?_, ?_⟩
      · have h1 : max K1 (k1 b) < min (K2 + 1) (k2 b) := by
          rw [Nat.lt_min, Nat.max_lt, Nat.max_lt]; omega
        omega
      · rw [blka.n]
        have : min (K2 + 1) (k2 b) ≤ K2 + 1 := Nat.min_le_left _ _
        omega
      · show (setAt s.pmin b _).getD b 0 = _
        rw [getD_setAt_eq _ _ _ _ (by show b < s.ndim; rw [s1]; exact hb), hmax, blka.lo, blka.cell, c1]
        ring
      · show (setAt s.pmax b _).getD b 0 = _
        rw [getD_setAt_eq _ _ _ _ (by rw [s2]; exact hb), hmin, blka.lo, blka.cell, c2]
        ring
    · obtain ⟨t1, t2, t3, t4⟩ := s3 b hb
      have bb := blk b hb hba
      simp only [hba, if_false]
      refine ⟨t1, by rw [bb.n]; exact t2, ?_, ?_⟩
      · show (setAt s.pmin a _).getD b 0 = _
        rw [getD_setAt_ne _ _ _ _ _ hba, bb.lo, bb.cell]
        show s.lo b = _
        rw [t3]; push_cast; ring
      · show (setAt s.pmax a _).getD b 0 = _
        rw [getD_setAt_ne _ _ _ _ _ hba, bb.lo, bb.cell]
        show s.hi b = _
        rw [t4]; push_cast; ring

/-- the overlap test of `Mesh.sel` in cells (both directions of `range_sub_dropped_iff`) -/
theorem keep_cells (L c : Rat) (hc : 0 < c) (K1 K2 s1 s2 : Nat)
    (h : L + (s1 : Rat) * c < (L + ((K2 : Rat) + 1) * c) - c / 2 ∧ L + (K1 : Rat) * c < (L + (s2 : Rat) * c) - c / 2) :
    s1 < K2 + 1 ∧ K1 < s2 := by
  obtain ⟨h1, h2⟩ := h
  constructor
  · have : (s1 : Rat) < (K2 : Rat) + 1 := by
      by_contra hcon; rw [not_lt] at hcon
      have := mul_le_mul_of_nonneg_right hcon hc.le; nlinarith
    exact_mod_cast this
  · have : (K1 : Rat) < (s2 : Rat) := by
      by_contra hcon; rw [not_lt] at hcon
      have := mul_le_mul_of_nonneg_right hcon hc.le; nlinarith
    exact_mod_cast this

theorem setSubs_nil_eq (m0 g0 : Mesh) (h0 : m0.subs = []) (h : setSubs? m0 [] = .ok g0) : g0 = m0 := by
  obtain ⟨g1, g2, g3, g4⟩ := setSubs_inv m0 [] g0 h
  cases m0; cases g0
  simp only [List.map_nil] at g1 g2 g3 g4 h0
  simp only [Mesh.mk.injEq]
  exact ⟨g1, g2, g3, by rw [g4, h0]⟩

/-- range selection on a mesh whose subregions consist of whole cells is accepted -/
theorem selRangeMesh_ok_subs (m : Mesh) (hm : m.Inv) (a : Nat) (ha : a < m.ndim) (K1 K2 : Nat)
    (hK : K1 ≤ K2) (hK2 : K2 < m.nAt a)
    (hsubs : ∀ p, p ∈ m.subs → ∃ k1 k2, SubAligned m p.2 k1 k2) :
    ∃ g, selRangeMesh m a (m.centreAx a (K1 : Int)) (m.centreAx a (K2 : Int)) = .ok g ∧
      g.n = setAt m.n a (K2 - K1 + 1) := by
  have hm' : ({ m with subs := [] } : Mesh).Inv := hm
  obtain ⟨g0, hg0, hn0⟩ := selRangeMesh_ok { m with subs := [] } hm' rfl a ha K1 K2 hK hK2
  obtain ⟨e1, e2, e3, e4, _, e6, e7, e8⟩ := selRangeMesh_inv { m with subs := [] } hm' a ha K1 K2 hK hK2 g0 hg0
  have blka : AxisBlock g0 m a a K1 (K2 - K1 + 1) := ⟨e7.lo, e7.n, e7.cell, e7.fits⟩
  have blk : ∀ b, b < m.ndim → b ≠ a → AxisBlock g0 m b b 0 (m.nAt b) := fun b hb hba =>
    ⟨(e8 b hb hba).lo, (e8 b hb hba).n, (e8 b hb hba).cell, (e8 b hb hba).fits⟩
  have hg0inv : g0.Inv := inv_of_blocks m g0 hm e1 e2 e3 e4 e6
    (fun b => if b = a then K1 else 0) (fun b => if b = a then K2 - K1 + 1 else m.nAt b)
    (fun b hb => by
      by_cases hba : b = a
      · simp [hba]
      · simp only [hba, if_false]; exact inv_n_pos hm hb)
    (fun b hb => by
      by_cases hba : b = a
      · subst hba; simpa using blka
      · simpa [hba] using blk b hb hba)
  have hc := inv_cell_pos hm ha
  have hlo : m.centreAx a ((K1 : Nat) : Int) - m.cellAt a / 2 = m.region.lo a + (K1 : Rat) * m.cellAt a := by
    rw [centreAx_cast]; ring
  have hhi : m.centreAx a ((K2 : Nat) : Int) + m.cellAt a / 2 = m.region.lo a + ((K2 : Rat) + 1) * m.cellAt a := by
    rw [centreAx_cast]; ring
  have hKr : (K1 : Rat) ≤ (K2 : Rat) := by exact_mod_cast hK
  unfold selRangeMesh at hg0 ⊢
  simp only [rangeSubs] at hg0
  have hcellAt : ({ m with subs := [] } : Mesh).cellAt a = m.cellAt a := rfl
  have hcen : ∀ k : Int, ({ m with subs := [] } : Mesh).centreAx a k = m.centreAx a k := fun _ => rfl
  have hcell : ({ m with subs := [] } : Mesh).cell = m.cell := rfl
  rw [hcellAt, hcen, hcen, hcell] at hg0
  rw [hlo, hhi] at hg0 ⊢
  rw [rangeSubs_ok a _ _ _ (by nlinarith) (by linarith) m.ndim ha m.subs (fun p hp => by
    obtain ⟨k1, k2, hal⟩ := hsubs p hp
    exact aligned_wf m hm p.2 k1 k2 hal)]
  simp only
  cases hr : Region.mk? (setAt m.region.pmin a (m.region.lo a + (K1 : Rat) * m.cellAt a))
      (setAt m.region.pmax a (m.region.lo a + ((K2 : Rat) + 1) * m.cellAt a))
      (some m.region.dims) (some m.region.units) m.region.tol with
  | error e =>
    exfalso
    simp only [hr] at hg0
    cases hg0
  | ok r =>
    simp only [hr] at hg0 ⊢
    unfold mkMesh? at hg0 ⊢
    cases hcm : Mesh.mkCell? r m.cell "" with
    | error e =>
      exfalso
      rw [hcm] at hg0
      cases hg0
    | ok m0 =>
      rw [hcm] at hg0
      simp only at hg0 ⊢
      obtain ⟨_, _, c3, _, _⟩ := mkCell_inv _ _ _ _ hcm
      have hgm : g0 = m0 := setSubs_nil_eq m0 g0 c3 hg0
      subst hgm
      refine ⟨_, setSubs_ok g0 hg0inv _ ?_, hn0⟩
      intro q hq
      obtain ⟨p, hp, rfl⟩ := List.mem_map.mp hq
      obtain ⟨hmem, hkeep⟩ := List.mem_filter.mp hp
      rw [decide_eq_true_iff] at hkeep
      obtain ⟨k1, k2, hal⟩ := hsubs p hmem
      obtain ⟨t1, t2, t3, t4⟩ := hal.2.2 a ha
      rw [t3, t4] at hkeep
      have hk := keep_cells _ _ hc K1 K2 (k1 a) (k2 a) hkeep
      exact ⟨_, _, rangeSub_aligned m g0 hm a ha K1 K2 hK hK2 e1 blka blk p.2 k1 k2 hal hk⟩

end DFV.C07
