import DFV.Lemmas.C03e
/-! C03 helper lemmas, part f: `cross`, `<<`, `norm`, `angle` read cell by cell. -/
namespace DFV.C03
open DFV

/-- the constructor applied to an array of exactly the field shape `n ++ [nv]` -/
theorem mkField_of_cells (n : List Nat) (mesh : Mesh) (hmn : mesh.n = n) (nv : Nat) (res : NDA GQ)
    (hs : res.shape = n ++ [nv]) (kind : Kind) (vd : Option (List String)) (valid : Option (NDA Bool))
    (vm : Option VMap) (unit : Option String) (g : CF)
    (hvs : ∀ v, valid = some v → v.shape = mesh.n)
    (h : mkField mesh nv (.arr res) kind vd valid vm unit = .ok g) :
    g.mesh = mesh ∧ g.nvdim = nv ∧ g.unit = unit ∧ g.kind = kind.ctor ∧
      Cells n g (fun i => cellOf res i nv) (validAt valid) := by
  have hr : mesh.n.length < res.shape.length := by rw [hs, hmn]; simp
  obtain ⟨hm, hnv, hwf, hu, hk, _, _, _, hdata, hvalid⟩ := mkField_arr mesh nv res kind vd valid vm unit g hr hvs h
  refine ⟨hm, hnv, hu, hk, hwf, by rw [hm]; exact hmn, ?_⟩
  intro i hi
  have hi' : inRange mesh.n i = true := by rw [hmn]; exact hi
  refine ⟨?_, hvalid i hi'⟩
  rw [hnv]
  unfold cellOf
  apply tab_congr
  intro c hc
  have hidx : inRange (mesh.n ++ [nv]) (i ++ [c]) = true := by
    rw [inRange_append_single]; exact ⟨hi', hc⟩
  rw [hdata _ hidx, hs, ← hmn, bproj_inRange _ _ hidx]

/-! ## `cross` -/

theorem crossAt_congr (x x' y y' : Nat → GQ) (c : Nat)
    (hx : ∀ k, k < 3 → x k = x' k) (hy : ∀ k, k < 3 → y k = y' k) : crossAt x y c = crossAt x' y' c := by
  unfold crossAt
  rw [hx 0 (by omega), hx 1 (by omega), hx 2 (by omega), hy 0 (by omega), hy 1 (by omega), hy 2 (by omega)]

theorem lastAx_ne_nil (s : List Nat) (k : Nat) (h : lastAx s = k) (hk : k ≠ 0) : s ≠ [] := by
  intro h0; rw [h0] at h; simp [lastAx] at h; omega

theorem lastDim_eq_lastAx (s : List Nat) (h : s ≠ []) : lastDim s = lastAx s := by
  simp [lastDim, h]

theorem cross_cells (mesh : Mesh) (A B res : NDA GQ)
    (hrank : mesh.n.length < A.shape.length ∨ mesh.n.length < B.shape.length)
    (hres : npCross A B = .ok res)
    (kind : Kind) (vd : Option (List String)) (valid : Option (NDA Bool)) (vm : Option VMap)
    (unit : Option String) (g : CF)
    (hvs : ∀ v, valid = some v → v.shape = mesh.n)
    (hg : mkField mesh 3 (.arr res) kind vd valid vm unit = .ok g) :
    g.mesh = mesh ∧ CFwf g ∧ g.nvdim = 3 ∧ lastDim A.shape = 3 ∧ lastDim B.shape = 3 ∧
    (∀ i, inRange mesh.n i = true → g.valid.get i = validAt valid i) ∧
    (∀ i, inRange mesh.n i = true →
      cellOf g.data i g.nvdim = crossCell (opdCell A i) (opdCell B i)) := by
  unfold npCross at hres
  split at hres
  · cases hres
  · rename_i h3
    have hA : lastAx A.shape = 3 := by
      by_cases h : lastAx A.shape = 3
      · exact h
      · exact absurd (Or.inl h) h3
    have hB : lastAx B.shape = 3 := by
      by_cases h : lastAx B.shape = 3
      · exact h
      · exact absurd (Or.inr h) h3
    have hAne := lastAx_ne_nil _ _ hA (by omega)
    have hBne := lastAx_ne_nil _ _ hB (by omega)
    have hAd : lastDim A.shape = 3 := by rw [lastDim_eq_lastAx _ hAne]; exact hA
    have hBd : lastDim B.shape = 3 := by rw [lastDim_eq_lastAx _ hBne]; exact hB
    cases hs : bshape A.shape B.shape with
    | none => simp [hs] at hres
    | some s =>
      simp only [hs] at hres
      injection hres with hres
      have hslen := bshape_length _ _ _ hs
      have hrk : mesh.n.length < res.shape.length := by
        rw [← hres]; simp only; omega
      obtain ⟨hm, hn, hwf, _, _, hl, hlen, _, hdata, hvalid⟩ :=
        mkField_arr mesh 3 res kind vd valid vm unit g hrk hvs hg
      refine ⟨hm, hwf, hn, hAd, hBd, hvalid, ?_⟩
      intro i hi
      have hshape : res.shape = s := by rw [← hres]
      have hsne : s ≠ [] := by
        intro h0; rw [hshape, h0] at hlen; simp at hlen
      obtain ⟨s', m, hsm⟩ : ∃ s' m, s = s' ++ [m] := by
        rcases list_nil_or_concat s with h | h
        · exact absurd h hsne
        · exact h
      have hm3 : m = 3 := by
        rw [hshape, hsm, getLastD_append_single] at hl; exact hl
      have hil : i.length = mesh.n.length := inRange_length _ _ hi
      have hs'len : s'.length = mesh.n.length := by
        rw [hshape, hsm] at hlen; simpa using hlen
      rw [hn]
      unfold crossCell cellOf
      apply tab_congr
      intro c hc
      have hidx : inRange (mesh.n ++ [3]) (i ++ [c]) = true := by
        rw [inRange_append_single]; exact ⟨hi, hc⟩
      rw [hdata _ hidx, hshape, ← hres]
      simp only
      rw [hsm, bproj_snoc]
      have hm1 : ¬ m = 1 := by omega
      simp only [hm1, if_false, List.dropLast_concat]
      have hla : lastAx (bproj s' i ++ [c]) = c := getLastD_append_single _ _
      rw [hla]
      apply crossAt_congr
      · intro k hk
        rw [bproj_snoc_lt s' i m k (by omega), ← hsm,
            bproj_bproj A.shape s (i ++ [k]) (into_left _ _ _ hs) (by rw [hsm]; simp [hs'len, hil])]
        have := opdCell_getD A i k (Or.inr (by rw [hAd]; exact hk))
        rw [hAd] at this
        simpa using this.symm
      · intro k hk
        rw [bproj_snoc_lt s' i m k (by omega), ← hsm,
            bproj_bproj B.shape s (i ++ [k]) (into_right _ _ _ hs) (by rw [hsm]; simp [hs'len, hil])]
        have := opdCell_getD B i k (Or.inr (by rw [hBd]; exact hk))
        rw [hBd] at this
        simpa using this.symm

theorem crossOp_fld_cells (n : List Nat) (f o g : CF) (cf co : List Nat → List GQ) (vf vo : List Nat → Bool)
    (hf : Cells n f cf vf) (ho : Cells n o co vo) (h : crossOp f (.fld o) = .ok g) :
    Cells n g (fun i => crossCell (cf i) (co i)) (fun i => vf i && vo i) ∧ g.mesh = f.mesh ∧ g.nvdim = 3 := by
  simp only [crossOp] at h
  cases hcs : checkSame f o false with
  | error e => simp [hcs] at h
  | ok u =>
    simp only [hcs] at h
    split at h
    · cases h
    · cases hes : npCross f.data o.data with
      | error e => simp [hes] at h
      | ok res =>
        simp only [hes] at h
        have hvs : ∀ v, some (NDA.zipWith (fun x y => x && y) f.valid o.valid) = some v → v.shape = f.mesh.n := by
          intro v hv; injection hv with hv; subst hv
          exact hf.1.2.1
        obtain ⟨hm, hwf, hnv, _, _, hvalid, hcell⟩ :=
          cross_cells f.mesh f.data o.data res (Or.inl hf.rank) hes _ _ _ _ _ g hvs h
        refine ⟨⟨hwf, by rw [hm]; exact hf.2.1, ?_⟩, hm, hnv⟩
        intro i hi
        have hi' : inRange f.mesh.n i = true := by rw [hf.2.1]; exact hi
        refine ⟨?_, ?_⟩
        · show cellOf g.data i g.nvdim = crossCell (cf i) (co i)
          rw [hcell i hi', hf.opd i hi, ho.opd i hi]
        · rw [hvalid i hi']
          show (f.valid.get i && o.valid.get i) = _
          rw [(hf.2.2 i hi).2, (ho.2.2 i hi).2]

theorem crossOp_raw_cells (n : List Nat) (f g : CF) (od : Opd) (cf : List Nat → List GQ) (vf : List Nat → Bool)
    (hf : Cells n f cf vf) (h : crossOp f (.raw od) = .ok g) :
    Cells n g (fun i => crossCell (cf i) (rawCell od i)) vf ∧ g.mesh = f.mesh ∧ g.nvdim = 3 := by
  cases od with
  | num z k np => simp [crossOp] at h
  | arr a k np =>
    simp only [crossOp] at h
    cases hes : npCross f.data a with
    | error e => simp [hes] at h
    | ok res =>
      simp only [hes] at h
      have hvs : ∀ v, some f.valid = some v → v.shape = f.mesh.n := by
        intro v hv; injection hv with hv; subst hv
        exact hf.1.2.1
      obtain ⟨hm, hwf, hnv, _, _, hvalid, hcell⟩ :=
        cross_cells f.mesh f.data a res (Or.inl hf.rank) hes _ _ _ _ _ g hvs h
      refine ⟨⟨hwf, by rw [hm]; exact hf.2.1, ?_⟩, hm, hnv⟩
      intro i hi
      have hi' : inRange f.mesh.n i = true := by rw [hf.2.1]; exact hi
      refine ⟨?_, ?_⟩
      · show cellOf g.data i g.nvdim = crossCell (cf i) (rawCell (.arr a k np) i)
        rw [hcell i hi', hf.opd i hi]; rfl
      · rw [hvalid i hi']; exact (hf.2.2 i hi).2

end DFV.C03
