import DFV.Lemmas.C18Values
import DFV.Model.Transform
/-! Quarter turn about the third axis on cubic cells: FieldRotator vs the lattice rotation (C12). -/
namespace DFV.C18
open DFV DFV.Mesh

/-- quarter turn about the third axis: `(x, y, z) ↦ (−y, x, z)` -/
def Rz : M3 := ⟨⟨0, -1, 0⟩, ⟨1, 0, 0⟩, ⟨0, 0, 1⟩⟩

theorem edge_pos (m : Mesh) (a : Nat) (h : AxOk m a) : 0 < m.region.edge a := by
  unfold Region.edge; linarith [h.1]

theorem absR_of_nonneg (x : Rat) (h : 0 ≤ x) : absR x = x := by
  rw [absR_eq_abs]; exact abs_of_nonneg h

theorem sumAbs_Rz (w : V3) (hx : 0 < w.x) (hy : 0 < w.y) (hz : 0 < w.z) :
    sumAbs Rz w 0 = w.y ∧ sumAbs Rz w 1 = w.x ∧ sumAbs Rz w 2 = w.z := by
  unfold sumAbs
  simp only [M3.e, M3.row, V3.get, Rz, absR_eq_abs]
  refine ⟨?_, ?_, ?_⟩
  · rw [show (-1 : Rat) * w.y = -w.y by ring, abs_neg, abs_of_pos hy]; simp
  · rw [show (1 : Rat) * w.x = w.x by ring, abs_of_pos hx]; simp
  · rw [show (1 : Rat) * w.z = w.z by ring, abs_of_pos hz]; simp

/-- the bounding box of the quarter-turned region: the first two edge lengths swap -/
theorem quarter_region (f : Fld) (hm : Mesh3 f.mesh) (reg : Region) (h : newRegion f Rz = .ok reg) :
    reg.lo 0 = centreAt f.mesh 0 - f.mesh.region.edge 1 / 2 ∧ reg.hi 0 = centreAt f.mesh 0 + f.mesh.region.edge 1 / 2 ∧
    reg.lo 1 = centreAt f.mesh 1 - f.mesh.region.edge 0 / 2 ∧ reg.hi 1 = centreAt f.mesh 1 + f.mesh.region.edge 0 / 2 ∧
    reg.lo 2 = f.mesh.region.lo 2 ∧ reg.hi 2 = f.mesh.region.hi 2 := by
  have s := sumAbs_Rz (edgesV f.mesh) (edge_pos _ 0 (hm 0 (by omega))) (edge_pos _ 1 (hm 1 (by omega)))
    (edge_pos _ 2 (hm 2 (by omega)))
  rw [newRegion_lo f Rz reg h 0 (by omega), newRegion_hi f Rz reg h 0 (by omega),
      newRegion_lo f Rz reg h 1 (by omega), newRegion_hi f Rz reg h 1 (by omega),
      newRegion_lo f Rz reg h 2 (by omega), newRegion_hi f Rz reg h 2 (by omega)]
  unfold boxLo boxHi
  rw [s.1, s.2.1, s.2.2]
  refine ⟨?_, ?_, ?_, ?_, ?_, ?_⟩ <;> simp only [edgesV, V3.ofFn, centreAt, Region.edge] <;> ring

/-- on cells that are square in the rotated plane, with the two counts swapped, the centre of
target cell `(i, j, k)` is rotated back onto the centre of source cell `(j, n₁ − 1 − i, k)` -/
theorem quarter_backPos (f : Fld) (hm : Mesh3 f.mesh) (hc : f.mesh.cellAt 0 = f.mesh.cellAt 1)
    (reg : Region) (h : newRegion f Rz = .ok reg) (nm : Mesh) (hr : nm.region = reg)
    (hn : nm.n = [f.mesh.nAt 1, f.mesh.nAt 0, f.mesh.nAt 2]) (i j k : Nat) (hi : i < f.mesh.nAt 1) :
    backPos f Rz nm [i, j, k]
      = ⟨centreRel f.mesh 0 j, centreRel f.mesh 1 (f.mesh.nAt 1 - 1 - i), centreRel f.mesh 2 k⟩ := by
  obtain ⟨q0, q1, q2, q3, q4, q5⟩ := quarter_region f hm reg h
  have hnd : nm.ndim = 3 := by
    unfold Mesh.ndim Region.ndim; rw [hr, (newRegion_ok_inv f Rz reg h).1]; simp
  have c0 := n_mul_cell f.mesh 0 (hm 0 (by omega))
  have c1 := n_mul_cell f.mesh 1 (hm 1 (by omega))
  have c2 := n_mul_cell f.mesh 2 (hm 2 (by omega))
  have p0 := cell_pos f.mesh 0 (hm 0 (by omega))
  have p2 := cell_pos f.mesh 2 (hm 2 (by omega))
  have n0 : (f.mesh.nAt 0 : Rat) ≠ 0 := by exact_mod_cast (Nat.pos_iff_ne_zero.mp (hm 0 (by omega)).2)
  have n1 : (f.mesh.nAt 1 : Rat) ≠ 0 := by exact_mod_cast (Nat.pos_iff_ne_zero.mp (hm 1 (by omega)).2)
  have n2 : (f.mesh.nAt 2 : Rat) ≠ 0 := by exact_mod_cast (Nat.pos_iff_ne_zero.mp (hm 2 (by omega)).2)
  -- cell sizes of the new mesh
  have E0 : f.mesh.region.edge 0 = (f.mesh.nAt 0 : Rat) * f.mesh.cellAt 0 := by unfold Region.edge; linarith
  have E1 : f.mesh.region.edge 1 = (f.mesh.nAt 1 : Rat) * f.mesh.cellAt 0 := by unfold Region.edge; rw [hc]; linarith
  have N0 : nm.nAt 0 = f.mesh.nAt 1 := by unfold Mesh.nAt; rw [hn]; rfl
  have N1 : nm.nAt 1 = f.mesh.nAt 0 := by unfold Mesh.nAt; rw [hn]; rfl
  have N2 : nm.nAt 2 = f.mesh.nAt 2 := by unfold Mesh.nAt; rw [hn]; rfl
  have k0 : nm.cellAt 0 = f.mesh.cellAt 0 := by
    show nm.region.edge 0 / (nm.nAt 0 : Rat) = f.mesh.cellAt 0
    have he : nm.region.edge 0 = (f.mesh.nAt 1 : Rat) * f.mesh.cellAt 0 := by
      unfold Region.edge; rw [hr, q0, q1, E1]; ring
    rw [he, N0]; field_simp
  have k1 : nm.cellAt 1 = f.mesh.cellAt 0 := by
    show nm.region.edge 1 / (nm.nAt 1 : Rat) = f.mesh.cellAt 0
    have he : nm.region.edge 1 = (f.mesh.nAt 0 : Rat) * f.mesh.cellAt 0 := by
      unfold Region.edge; rw [hr, q2, q3, E0]; ring
    rw [he, N1]; field_simp
  have k2 : nm.cellAt 2 = f.mesh.cellAt 2 := by
    show nm.region.edge 2 / (nm.nAt 2 : Rat) = f.mesh.region.edge 2 / (f.mesh.nAt 2 : Rat)
    rw [N2]; unfold Region.edge; rw [hr, q4, q5]
  have hcast : (((f.mesh.nAt 1 - 1 - i : Nat)) : Rat) = (f.mesh.nAt 1 : Rat) - 1 - (i : Rat) := by
    rw [Nat.cast_sub (by omega), Nat.cast_sub (by omega)]; simp
  unfold backPos
  have hcen : V3.ofList (nm.centre [i, j, k])
      = ⟨nm.region.lo 0 + ((i : Rat) + 1/2) * nm.cellAt 0, nm.region.lo 1 + ((j : Rat) + 1/2) * nm.cellAt 1,
         nm.region.lo 2 + ((k : Rat) + 1/2) * nm.cellAt 2⟩ := by
    unfold V3.ofList Mesh.centre
    rw [hnd, getD_tab _ _ _ _ (by omega), getD_tab _ _ _ _ (by omega), getD_tab _ _ _ _ (by omega)]
    simp [Mesh.centreAx]
  rw [hcen, hr, q0, q2, q4, k0, k1, k2, E0, E1]
  unfold centreRel
  rw [hcast, ← hc]
  simp only [M3.apply, M3.tr, Rz, V3.dot, V3.sub, centreV, V3.ofFn]
  have A0 : f.mesh.region.lo 0 = centreAt f.mesh 0 - (f.mesh.nAt 0 : Rat) * f.mesh.cellAt 0 / 2 := by
    unfold centreAt; linarith
  have A1 : f.mesh.region.lo 1 = centreAt f.mesh 1 - (f.mesh.nAt 1 : Rat) * f.mesh.cellAt 0 / 2 := by
    rw [← hc] at c1; unfold centreAt; linarith
  rw [A0, A1]
  ext <;> simp only <;> ring

/-- at the centre of a source cell the interpolant of the original is the stored value -/
theorem origAt_centre (f : Fld) (hm : Mesh3 f.mesh) (i j k : Nat) (hi : i < f.mesh.nAt 0) (hj : j < f.mesh.nAt 1)
    (hk : k < f.mesh.nAt 2) (c : Nat) (hc : c < f.nvdim) (p : V3)
    (hx : p.x = centreRel f.mesh 0 i) (hy : p.y = centreRel f.mesh 1 j) (hz : p.z = centreRel f.mesh 2 k) :
    (origAt f p).getD c 0 = (f.data.get [i, j, k]).getD c 0 := by
  have m0 := hm 0 (by omega)
  have m1 := hm 1 (by omega)
  have m2 := hm 2 (by omega)
  have e0 := gridNode_centreRel f.mesh 0 m0 i hi
  have e1 := gridNode_centreRel f.mesh 1 m1 j hj
  have e2 := gridNode_centreRel f.mesh 2 m2 k hk
  have hin : InPad f p := by
    intro a ha
    have : a = 0 ∨ a = 1 ∨ a = 2 := by omega
    rcases this with e | e | e <;> subst e
    · show gridNode f.mesh 0 0 ≤ p.x ∧ p.x ≤ _
      rw [hx, ← e0]
      exact ⟨(gridNode_mono _ _ m0 0 (i + 1) (by omega) (by omega)).le,
             (gridNode_mono _ _ m0 (i + 1) _ (by omega) (by omega)).le⟩
    · show gridNode f.mesh 1 0 ≤ p.y ∧ p.y ≤ _
      rw [hy, ← e1]
      exact ⟨(gridNode_mono _ _ m1 0 (j + 1) (by omega) (by omega)).le,
             (gridNode_mono _ _ m1 (j + 1) _ (by omega) (by omega)).le⟩
    · show gridNode f.mesh 2 0 ≤ p.z ∧ p.z ≤ _
      rw [hz, ← e2]
      exact ⟨(gridNode_mono _ _ m2 0 (k + 1) (by omega) (by omega)).le,
             (gridNode_mono _ _ m2 (k + 1) _ (by omega) (by omega)).le⟩
  rw [origAt_getD f p c hc, locOf_some f p hin, hx, hy, hz, ← e0, ← e1, ← e2,
      findIdx_node _ _ m0 (i + 1) (by omega), findIdx_node _ _ m1 (j + 1) (by omega), findIdx_node _ _ m2 (k + 1) (by omega)]
  have f0 : ∀ (g : Nat → Rat) (i : Nat), frac g i (g i) = 0 := by intro g i; unfold frac; simp
  rw [f0, f0, f0]
  simp only [interpAt]
  rw [sum8_zero]
  unfold paddedOrig
  rw [padIdx_interior _ _ (by omega) (by omega), padIdx_interior _ _ (by omega) (by omega),
      padIdx_interior _ _ (by omega) (by omega)]
  rfl

/-- `np.rot90(a, 1, axes=(0, 1))[i, j, k] = a[j, n₁ − 1 − i, k]` for the model's `rot90` -/
theorem rot90_get {α} (a : NDA α) (n0 n1 n2 : Nat) (hs : a.shape = [n0, n1, n2]) (i j k : Nat) :
    (T.rot90 a 0 1 1).get [i, j, k] = a.get [j, n1 - 1 - i, k] := by
  unfold T.rot90
  rw [if_neg (by decide), if_neg (by decide), if_pos (by decide)]
  simp [NDA.swapaxes, NDA.flip, swapAt, setAt, hs]

/-- the rotation of one cell value by `Rz` through a permutation `ord` is C12's `rotVec` with `k = 1` -/
theorem rotVal_Rz (ord : List Nat) (v : List Rat) (hv : v.length = 3)
    (h0 : ord.getD 0 0 < 3) (h1 : ord.getD 1 0 < 3) (h2 : ord.getD 2 0 < 3)
    (d01 : ord.getD 0 0 ≠ ord.getD 1 0) (d02 : ord.getD 0 0 ≠ ord.getD 2 0) (d12 : ord.getD 1 0 ≠ ord.getD 2 0) :
    rotVal 3 Rz ord v = T.rotVec v (ord.getD 0 0) (ord.getD 1 0) 1 := by
  unfold rotVal T.rotVec
  rw [if_neg (by decide), hv]
  apply tab_congr
  intro c hc
  have hcos : T.cosq 1 = 0 := by decide
  have hsin : T.sinq 1 = 1 := by decide
  rw [hcos, hsin, M3.apply_get]
  unfold invAt
  by_cases e0 : c = ord.getD 0 0
  · rw [if_pos e0, if_pos e0.symm]
    simp only [M3.e, M3.row, V3.get, Rz]; ring
  · rw [if_neg e0, if_neg (fun h => e0 h.symm)]
    by_cases e1 : c = ord.getD 1 0
    · rw [if_pos e1, if_pos e1.symm]
      simp only [M3.e, M3.row, V3.get, Rz]; ring
    · rw [if_neg e1, if_neg (fun h => e1 h.symm)]
      have : ord.getD 2 0 = c := by omega
      simp only [M3.e, M3.row, V3.get, Rz]
      rw [this]; ring

end DFV.C18
