import DFV.Model.C18
import Mathlib.Tactic.Ring
import Mathlib.Tactic.Linarith
import Mathlib.Tactic.FieldSimp
/-! 3×3 rational matrix algebra for C18 (products, transposes, rotations, quaternions). -/
namespace DFV.C18
namespace M3

theorem mul_assoc (A B C : M3) : (A.mul B).mul C = A.mul (B.mul C) := by
  ext <;> simp only [mul, apply, tr, V3.dot] <;> ring

theorem one_mul (A : M3) : one.mul A = A := by
  ext <;> simp only [mul, apply, tr, V3.dot, one] <;> ring

theorem mul_one (A : M3) : A.mul one = A := by
  ext <;> simp only [mul, apply, tr, V3.dot, one] <;> ring

theorem apply_mul (A B : M3) (v : V3) : (A.mul B).apply v = A.apply (B.apply v) := by
  ext <;> simp only [mul, apply, tr, V3.dot] <;> ring

theorem apply_one (v : V3) : one.apply v = v := by
  ext <;> simp only [apply, V3.dot, one] <;> ring

theorem tr_tr (A : M3) : A.tr.tr = A := by
  ext <;> simp only [tr]

theorem tr_mul (A B : M3) : (A.mul B).tr = B.tr.mul A.tr := by
  ext <;> simp only [mul, apply, tr, V3.dot] <;> ring

theorem tr_one : one.tr = one := by
  ext <;> simp only [tr, one]

theorem det_mul (A B : M3) : (A.mul B).det = A.det * B.det := by
  simp only [mul, apply, tr, V3.dot, det]; ring

theorem det_tr (A : M3) : A.tr.det = A.det := by
  simp only [tr, det]; ring

theorem det_one : one.det = 1 := by
  simp only [one, det]; ring

/-- classical adjoint (transposed cofactor matrix) -/
def adj (Q : M3) : M3 :=
  ⟨⟨Q.r1.y * Q.r2.z - Q.r1.z * Q.r2.y, Q.r0.z * Q.r2.y - Q.r0.y * Q.r2.z, Q.r0.y * Q.r1.z - Q.r0.z * Q.r1.y⟩,
   ⟨Q.r1.z * Q.r2.x - Q.r1.x * Q.r2.z, Q.r0.x * Q.r2.z - Q.r0.z * Q.r2.x, Q.r0.z * Q.r1.x - Q.r0.x * Q.r1.z⟩,
   ⟨Q.r1.x * Q.r2.y - Q.r1.y * Q.r2.x, Q.r0.y * Q.r2.x - Q.r0.x * Q.r2.y, Q.r0.x * Q.r1.y - Q.r0.y * Q.r1.x⟩⟩

def scal (s : Rat) : M3 := ⟨⟨s, 0, 0⟩, ⟨0, s, 0⟩, ⟨0, 0, s⟩⟩

theorem mul_adj (Q : M3) : Q.mul Q.adj = scal Q.det := by
  ext <;> simp only [mul, apply, tr, V3.dot, adj, scal, det] <;> ring

theorem scal_one : scal 1 = one := rfl

/-- for a rotation the transpose is the adjoint, hence also a right inverse -/
theorem IsRot.tr_eq_adj {Q : M3} (h : Q.IsRot) : Q.tr = Q.adj := by
  have h1 : Q.mul Q.adj = one := by rw [mul_adj, h.2, scal_one]
  calc Q.tr = Q.tr.mul one := (mul_one _).symm
    _ = Q.tr.mul (Q.mul Q.adj) := by rw [h1]
    _ = (Q.tr.mul Q).mul Q.adj := (mul_assoc _ _ _).symm
    _ = Q.adj := by rw [h.1, one_mul]

theorem IsRot.mul_tr {Q : M3} (h : Q.IsRot) : Q.mul Q.tr = one := by
  rw [h.tr_eq_adj, mul_adj, h.2, scal_one]

theorem IsRot.tr_mul {Q : M3} (h : Q.IsRot) : Q.tr.mul Q = one := h.1

theorem isRot_one : one.IsRot := ⟨by rw [tr_one, one_mul], det_one⟩

theorem IsRot.mul {A B : M3} (ha : A.IsRot) (hb : B.IsRot) : (A.mul B).IsRot := by
  constructor
  · rw [M3.tr_mul, mul_assoc, ← mul_assoc A.tr, ha.1, one_mul, hb.1]
  · rw [det_mul, ha.2, hb.2]; ring

theorem IsRot.tr {Q : M3} (h : Q.IsRot) : Q.tr.IsRot :=
  ⟨by rw [tr_tr]; exact h.mul_tr, by rw [det_tr]; exact h.2⟩

theorem IsRot.tr_apply_apply {Q : M3} (h : Q.IsRot) (v : V3) : Q.tr.apply (Q.apply v) = v := by
  rw [← apply_mul, h.1, apply_one]

theorem IsRot.apply_tr_apply {Q : M3} (h : Q.IsRot) (v : V3) : Q.apply (Q.tr.apply v) = v := by
  rw [← apply_mul, h.mul_tr, apply_one]

/-- a rotation preserves scalar products (lengths and angles) -/
theorem IsRot.dot_apply {Q : M3} (h : Q.IsRot) (u v : V3) : (Q.apply u).dot (Q.apply v) = u.dot v := by
  have key : (Q.apply u).dot (Q.apply v) = u.dot ((Q.tr.mul Q).apply v) := by
    simp only [M3.mul, M3.apply, M3.tr, V3.dot]; ring
  rw [key, h.1, apply_one]

/-- every non-zero rational quaternion gives a proper rotation with rational entries -/
theorem ofQuat_isRot (w x y z : Rat) (h : w*w + x*x + y*y + z*z ≠ 0) : (ofQuat w x y z).IsRot := by
  have h2 : w^2 + x^2 + y^2 + z^2 ≠ 0 := by
    intro e; apply h; rw [← e]; ring
  constructor
  · ext <;> simp only [M3.mul, M3.apply, M3.tr, V3.dot, ofQuat, one] <;> field_simp <;> ring
  · simp only [det, ofQuat]; field_simp; ring

end M3
end DFV.C18
