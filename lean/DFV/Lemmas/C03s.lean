import DFV.Lemmas.C03q
/-! C03 helper lemmas, part s: component access and the stack of all components are accepted. -/
namespace DFV.C03
open DFV

theorem indexOf_mem (xs : List String) (l : String) (hl : l ∈ xs) (hnd : hasDup xs = false) :
    ∃ c, c < xs.length ∧ indexOf? xs l = some c := by
  obtain ⟨j, hj, hjl⟩ := List.getElem_of_mem hl
  refine ⟨j, hj, ?_⟩
  have := indexOf_getD xs j hj hnd
  rw [List.getD_eq_getElem?_getD, List.getElem?_eq_getElem hj] at this
  simpa [hjl] using this

/-- **`f.label` is accepted for every label of `f`**: an unlabelled scalar field without
mapping that keeps the unit -/
theorem getComp_accepts (M : Mesh) (f : CF) (hf : Good M f) (vd : List String) (hvd : f.vdims = some vd)
    (l : String) (hl : l ∈ vd) :
    ∃ c, getComp f l = .ok c ∧ Good M c ∧ c.nvdim = 1 ∧ c.vdims = none ∧ c.vmap = [] ∧ c.unit = f.unit := by
  obtain ⟨hwf, hsf, hmf⟩ := hf
  obtain ⟨_, _, hnd⟩ := hsf.labels hwf.2.2 vd hvd
  obtain ⟨c, _, hc⟩ := indexOf_mem vd l hl hnd
  have hs : (f.data.shape.dropLast ++ [1]) = M.n ++ [1] := by rw [hwf.1, hmf]; simp
  have hv : ∀ v, some f.valid = some v → v.shape = M.n := by
    intro v hv; injection hv with hv; subst hv; rw [hwf.2.1, hmf]
  have hvm : ∀ m : VMap, m.length ≤ 1 → vmapSet 1 M.region.ndim none M.region.dims (some m) = .ok [] := by
    intro m hm
    by_cases h1 : m.length = 1
    · simp [vmapSet, h1]
    · have : m = [] := List.eq_nil_of_length_eq_zero (by omega)
      subst this
      simp [vmapSet]
  obtain ⟨g, hg, hgm, hgn, hgvd, hgvm, hgu, _, hgwf⟩ :=
    mkField_accepts M 1 ⟨f.data.shape.dropLast ++ [1], fun idx => f.data.get (idx.dropLast ++ [c])⟩ f.kind none
      (some f.valid)
      (some (match f.vmap.find? (fun p => p.1 == l) with
             | some p => [(l, p.2)]
             | none => []))
      f.unit (by omega) hs hv none [] vdimsSet_one_none (hvm _ (by split <;> simp))
  refine ⟨g, ?_, ⟨hgwf, ⟨?_, ?_⟩, hgm⟩, hgn, hgvd, hgvm, hgu⟩
  · unfold getComp
    simp only [hvd, hc]
    rw [hmf]; exact hg
  · rw [hgn, hgvd]; rfl
  · rw [hgn, hgvd, hgvm]; simp [vmapSet]

/-- `acc << f.l₁ << f.l₂ << …` is accepted for labels of `f` -/
theorem stackFrom_accepts (M : Mesh) (hM : MeshOk M) (f : CF) (hf : Good M f) (vd : List String)
    (hvd : f.vdims = some vd) :
    ∀ (ls : List String) (acc : CF), (∀ l ∈ ls, l ∈ vd) → Good M acc →
      ∃ g, stackFrom f acc ls = .ok g ∧ Good M g ∧ g.nvdim = acc.nvdim + ls.length := by
  intro ls
  induction ls with
  | nil => intro acc _ hacc; exact ⟨acc, rfl, hacc, rfl⟩
  | cons l ls ih =>
    intro acc hls hacc
    obtain ⟨c, hc, hcg, hcn, _⟩ := getComp_accepts M f hf vd hvd l (hls l (by simp))
    obtain ⟨a, ha, hag, han, _⟩ := shlFF_accepts M hM acc c hacc hcg
    obtain ⟨g, hg, hgg, hgn⟩ := ih a (fun x hx => hls x (by simp [hx])) hag
    refine ⟨g, ?_, hgg, ?_⟩
    · simp only [stackFrom, hc, ha, hg]
    · rw [hgn, han, hcn]; simp only [List.length_cons]; omega

/-- **the stack of all components of a labelled field is accepted** -/
theorem stackComps_accepts (M : Mesh) (hM : MeshOk M) (f : CF) (hf : Good M f) (vd : List String)
    (hvd : f.vdims = some vd) : ∃ g, stackComps f = .ok g ∧ Good M g := by
  obtain ⟨hne, _, _⟩ := hf.2.1.labels hf.1.2.2 vd hvd
  cases vd with
  | nil => exact absurd rfl hne
  | cons l ls =>
    obtain ⟨c, hc, hcg, _⟩ := getComp_accepts M f hf (l :: ls) hvd l (by simp)
    obtain ⟨g, hg, hgg, _⟩ := stackFrom_accepts M hM f hf (l :: ls) hvd ls c (fun x hx => by simp [hx]) hcg
    exact ⟨g, by simp only [stackComps, hvd, hc, hg], hgg⟩

end DFV.C03
