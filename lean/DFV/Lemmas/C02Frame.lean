import DFV.Lemmas.C02Line
/-! C02 helper lemmas, part 11: the data frame of a line — column assignment (`data[name] = col`),
last assignment wins, no clash = the assignments themselves. -/
namespace DFV.C02
open DFV

variable {V : Type}

theorem colOf_setCol_same (fr : List (String × Col V)) (name : String) (c : Col V) :
    colOf (setCol fr name c) name = some c := by
  induction fr with
  | nil => simp [setCol, colOf]
  | cons p rest ih =>
    obtain ⟨k, x⟩ := p
    simp only [setCol]
    split
    · rename_i h; simp [colOf, h]
    · rename_i h
      simp only [colOf, List.find?_cons] at ih ⊢
      have : ((k, x).1 == name) = false := by simpa using h
      simp only [this]
      exact ih

theorem colOf_setCol_other (fr : List (String × Col V)) (name other : String) (c : Col V) (h : other ≠ name) :
    colOf (setCol fr name c) other = colOf fr other := by
  induction fr with
  | nil =>
    have : (name == other) = false := by simpa using fun e => h e.symm
    simp [setCol, colOf, this]
  | cons p rest ih =>
    obtain ⟨k, x⟩ := p
    simp only [setCol]
    split
    · rename_i hk
      have : (k == other) = false := by subst hk; simpa using fun e => h e.symm
      simp [colOf, List.find?_cons, this]
    · simp only [colOf, List.find?_cons] at ih ⊢
      by_cases hk : (k == other) = true
      · simp [hk]
      · simp only [hk]; exact ih

/-- names of the columns, in data-frame order -/
def colNames (fr : List (String × Col V)) : List String := fr.map (·.1)

theorem setCol_new (fr : List (String × Col V)) (name : String) (c : Col V) (h : name ∉ colNames fr) :
    setCol fr name c = fr ++ [(name, c)] := by
  induction fr with
  | nil => rfl
  | cons p rest ih =>
    obtain ⟨k, x⟩ := p
    simp only [colNames, List.map_cons, List.mem_cons, not_or] at h
    have hk : ¬ k = name := fun e => h.1 e.symm
    simp only [setCol, hk, if_false, List.cons_append]
    rw [ih h.2]

theorem colNames_setCol_old (fr : List (String × Col V)) (name : String) (c : Col V) (h : name ∈ colNames fr) :
    colNames (setCol fr name c) = colNames fr := by
  induction fr with
  | nil => simp [colNames] at h
  | cons p rest ih =>
    obtain ⟨k, x⟩ := p
    simp only [setCol]
    split
    · rfl
    · rename_i hk
      simp only [colNames, List.map_cons, List.mem_cons] at h ⊢
      rcases h with h | h
      · exact absurd h.symm hk
      · congr 1; exact ih h

/-- assignments with pairwise different names, none of them in the frame yet, are appended in order -/
theorem applyAssigns_fresh (fr as : List (String × Col V))
    (hnd : (colNames fr ++ colNames as).Nodup) : applyAssigns fr as = fr ++ as := by
  induction as generalizing fr with
  | nil => simp [applyAssigns]
  | cons p rest ih =>
    simp only [applyAssigns]
    have hnew : p.1 ∉ colNames fr := by
      intro hmem
      simp only [colNames, List.map_cons] at hnd
      rw [List.nodup_append] at hnd
      exact hnd.2.2 _ hmem _ (by simp) rfl
    rw [setCol_new fr p.1 p.2 hnew, ih]
    · simp
    · simp only [colNames, List.map_append, List.map_cons, List.map_nil, List.append_assoc,
        List.singleton_append] at hnd ⊢
      exact hnd

/-- the last assignment to a name determines the column -/
theorem colOf_applyAssigns (fr as : List (String × Col V)) (name : String) :
    colOf (applyAssigns fr as) name =
      match as.reverse.find? (fun p => p.1 == name) with
      | some p => some p.2
      | none => colOf fr name := by
  induction as generalizing fr with
  | nil => simp [applyAssigns]
  | cons p rest ih =>
    simp only [applyAssigns, List.reverse_cons, List.find?_append]
    rw [ih]
    cases hf : rest.reverse.find? (fun p => p.1 == name) with
    | some q => simp
    | none =>
      simp only [Option.none_or, List.find?_cons, List.find?_nil]
      by_cases hp : p.1 = name
      · subst hp; simp [colOf_setCol_same]
      · have : (p.1 == name) = false := by simpa using hp
        simp only [this]
        exact colOf_setCol_other fr p.1 name p.2 (fun e => hp e.symm)

/-- the set of column names after the assignments -/
theorem mem_colNames_applyAssigns (fr as : List (String × Col V)) (name : String) :
    name ∈ colNames (applyAssigns fr as) ↔ name ∈ colNames fr ∨ name ∈ colNames as := by
  induction as generalizing fr with
  | nil => simp [applyAssigns, colNames]
  | cons p rest ih =>
    simp only [applyAssigns]
    rw [ih]
    by_cases hp : p.1 ∈ colNames fr
    · rw [colNames_setCol_old fr p.1 p.2 hp]
      simp only [colNames, List.map_cons, List.mem_cons]
      constructor
      · rintro (h | h)
        · exact Or.inl h
        · exact Or.inr (Or.inr h)
      · rintro (h | h | h)
        · exact Or.inl h
        · subst h; exact Or.inl hp
        · exact Or.inr h
    · rw [setCol_new fr p.1 p.2 hp]
      simp only [colNames, List.map_append, List.map_cons, List.map_nil, List.mem_append, List.mem_cons,
        List.not_mem_nil, or_false]
      constructor
      · rintro ((h | h) | h)
        · exact Or.inl h
        · exact Or.inr (Or.inl h)
        · exact Or.inr (Or.inr h)
      · rintro (h | h | h)
        · exact Or.inl (Or.inl h)
        · exact Or.inl (Or.inr h)
        · exact Or.inr h

/-- a name that is assigned twice: the frame has fewer columns than assignments were made -/
theorem length_applyAssigns_le (fr as : List (String × Col V)) :
    (applyAssigns fr as).length ≤ fr.length + as.length := by
  induction as generalizing fr with
  | nil => simp [applyAssigns]
  | cons p rest ih =>
    simp only [applyAssigns]
    have h1 := ih (setCol fr p.1 p.2)
    have h2 : (setCol fr p.1 p.2).length ≤ fr.length + 1 := by
      by_cases hp : p.1 ∈ colNames fr
      · have := congrArg List.length (colNames_setCol_old fr p.1 p.2 hp)
        simp only [colNames, List.length_map] at this
        omega
      · rw [setCol_new fr p.1 p.2 hp]; simp
    simp only [List.length_cons]
    omega


theorem applyAssigns_append (fr as bs : List (String × Col V)) :
    applyAssigns fr (as ++ bs) = applyAssigns (applyAssigns fr as) bs := by
  induction as generalizing fr with
  | nil => rfl
  | cons p rest ih => simp only [List.cons_append, applyAssigns]; exact ih _

/-- a name assigned a second time does not add a column -/
theorem length_applyAssigns_dup (fr as1 as2 : List (String × Col V)) (p : String × Col V)
    (hp : p.1 ∈ colNames fr ∨ p.1 ∈ colNames as1) :
    (applyAssigns fr (as1 ++ p :: as2)).length < fr.length + (as1 ++ p :: as2).length := by
  rw [applyAssigns_append]
  simp only [applyAssigns]
  have h1 := length_applyAssigns_le fr as1
  have hmem : p.1 ∈ colNames (applyAssigns fr as1) := (mem_colNames_applyAssigns fr as1 p.1).mpr hp
  have h2 : (setCol (applyAssigns fr as1) p.1 p.2).length = (applyAssigns fr as1).length := by
    have := congrArg List.length (colNames_setCol_old _ p.1 p.2 hmem)
    simpa [colNames] using this
  have h3 := length_applyAssigns_le (setCol (applyAssigns fr as1) p.1 p.2) as2
  simp only [List.length_append, List.length_cons]
  omega

/-! ### the assignments of `Line.__init__` -/

theorem tab_getD_self {α} (l : List α) (d : α) : tab l.length (fun a => l.getD a d) = l :=
  (eq_tab_of_getD l l.length (fun a => l.getD a d) d rfl (fun _ _ => rfl)).symm

theorem tab_getD_take {α} (l : List α) (d : α) (n : Nat) : tab (min n l.length) (fun a => l.getD a d) = l.take n := by
  apply List.ext_getElem
  · simp
  · intro a h1 h2
    rw [getElem_tab]
    simp only [tab_length] at h1
    have : a < l.length := by omega
    simp [List.getD_eq_getElem?_getD, this]

theorem map_fst_tab {α β} (n : Nat) (f : Nat → α × β) : (tab n f).map (·.1) = tab n fun a => (f a).1 := by
  simp [tab, List.map_map, Function.comp_def]

/-- coordinate columns assigned, in order -/
def dimAssigns (dims : List String) (o : LineOut V) : List (String × Col V) :=
  tab dims.length fun a => (dims.getD a "", Col.num (o.points.map fun p => p.getD a 0))

/-- value columns assigned, in order -/
def valAssigns [Inhabited V] (vcols : List String) (nv : Nat) (o : LineOut V) : List (String × Col V) :=
  tab (min nv vcols.length) fun c => (vcols.getD c "", Col.val (o.values.map fun v => v.getD c default))

theorem frameAssigns_eq [Inhabited V] (dims vcols : List String) (nv : Nat) (o : LineOut V) :
    frameAssigns dims vcols nv o = ("r", Col.dist2 o.r2) :: (dimAssigns dims o ++ valAssigns vcols nv o) := rfl

theorem colNames_dimAssigns (dims : List String) (o : LineOut V) : colNames (dimAssigns dims o) = dims := by
  unfold colNames dimAssigns
  rw [map_fst_tab]
  exact tab_getD_self dims ""

theorem colNames_valAssigns [Inhabited V] (vcols : List String) (nv : Nat) (o : LineOut V) :
    colNames (valAssigns vcols nv o) = vcols.take nv := by
  unfold colNames valAssigns
  rw [map_fst_tab]
  exact tab_getD_take vcols "" nv

theorem colNames_frameAssigns [Inhabited V] (dims vcols : List String) (nv : Nat) (o : LineOut V) :
    colNames (frameAssigns dims vcols nv o) = "r" :: (dims ++ vcols.take nv) := by
  rw [frameAssigns_eq]
  simp only [colNames, List.map_cons, List.map_append]
  have h1 := colNames_dimAssigns dims o
  have h2 := colNames_valAssigns vcols nv o
  simp only [colNames] at h1 h2
  rw [h1, h2]

/-- in a list with pairwise different names, looking a member's name up finds that member -/
theorem find_of_nodup (l : List (String × Col V)) (hnd : (colNames l).Nodup) (p : String × Col V) (hp : p ∈ l) :
    l.find? (fun q => q.1 == p.1) = some p := by
  induction l with
  | nil => simp at hp
  | cons q rest ih =>
    simp only [colNames, List.map_cons, List.nodup_cons] at hnd
    rcases List.mem_cons.mp hp with rfl | hp'
    · simp
    · have hne : (q.1 == p.1) = false := by
        have : q.1 ≠ p.1 := fun e => hnd.1 (by rw [e]; exact List.mem_map_of_mem hp')
        simpa using this
      simp only [List.find?_cons, hne]
      exact ih hnd.2 hp'

theorem find_rev_of_nodup (l : List (String × Col V)) (hnd : (colNames l).Nodup) (p : String × Col V) (hp : p ∈ l) :
    l.reverse.find? (fun q => q.1 == p.1) = some p := by
  apply find_of_nodup
  · simp only [colNames, List.map_reverse]
    rw [List.Nodup, List.pairwise_reverse]
    exact List.Pairwise.imp (fun h => Ne.symm h) hnd
  · simpa using hp

theorem prefix_cancel (x y : String) (e : "v" ++ x = "v" ++ y) : x = y := by
  have := congrArg String.toList e
  simp only [String.toList_append] at this
  exact String.toList_inj.mp (List.append_cancel_left this)

theorem find_none_of_not_mem (l : List (String × Col V)) (name : String) (h : name ∉ colNames l) :
    l.find? (fun q => q.1 == name) = none := by
  rw [List.find?_eq_none]
  intro q hq
  have : q.1 ≠ name := fun e => h (by rw [← e]; exact List.mem_map_of_mem hq)
  simpa using this

theorem colOf_of_nodup (l : List (String × Col V)) (hnd : (colNames l).Nodup) (p : String × Col V) (hp : p ∈ l) :
    colOf l p.1 = some p.2 := by
  unfold colOf
  rw [find_of_nodup l hnd p hp]; rfl

theorem lineData_of_line [Inhabited V] (f : VF V) (p1 p2 : List Rat) (n : Nat) (o : LineOut V)
    (h : f.line p1 p2 n = .ok o) :
    f.lineData p1 p2 n = .ok (lineFrame f.mesh.region.dims (valueColumns f.vdims f.nvdim) f.nvdim o) := by
  simp only [VF.lineData, h]

theorem mem_dimAssigns (dims : List String) (o : LineOut V) (a : Nat) (ha : a < dims.length) :
    (dims.getD a "", Col.num (o.points.map fun p => p.getD a 0)) ∈ dimAssigns dims o := by
  unfold dimAssigns tab
  exact List.mem_map.mpr ⟨a, by simpa using ha, rfl⟩

theorem mem_valAssigns [Inhabited V] (vcols : List String) (nv : Nat) (o : LineOut V) (c : Nat)
    (hc : c < nv) (hc' : c < vcols.length) :
    (vcols.getD c "", Col.val (o.values.map fun v => v.getD c default)) ∈ valAssigns vcols nv o := by
  unfold valAssigns tab
  exact List.mem_map.mpr ⟨c, by simp; omega, rfl⟩

end DFV.C02
