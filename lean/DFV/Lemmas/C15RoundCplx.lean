import DFV.Lemmas.C15RoundGenCell
import DFV.Lemmas.C15Cplx
/-!
Rounded arithmetic for C15, part 6: the complex kernel as NumPy computes it (`cflSqLen`,
`cflNormCell`, `cflSetCell`, `cflOrientCell`): `|z|²` with or without a fused multiply-add,
division through the rounded reciprocal (two roundings), product with the real target.
Everything is reduced to the real lemmas through the `(re, im)` view `flattenC`.
-/
namespace DFV.C15
set_option linter.unusedSectionVars false
variable {K : Type} [Field K] [LinearOrder K] [IsStrictOrderedRing K]

theorem cSqLen_nonneg (v : List (K × K)) : 0 ≤ cSqLen v := by
  rw [← sqLen_flattenC]; exact sqLen_nonneg _

theorem gam_two (u : K) : gam u 2 = (1 + u) * (1 + u) - 1 := by unfold gam; ring

/-- one term `(conj(z)·z).real`: within `(1+u)² − 1` of `re² + im²`, fused or not -/
theorem cflAbs2_err {fl : K → K} {u : K} (h : FlOk fl u) (fused : Bool) (z : K × K) :
    |cflAbs2 fl fused z - (z.1 * z.1 + z.2 * z.2)| ≤ gam u 2 * (z.1 * z.1 + z.2 * z.2) := by
  have hu0 := h.1
  have ha : 0 ≤ z.1 * z.1 := mul_self_nonneg _
  have hb : 0 ≤ z.2 * z.2 := mul_self_nonneg _
  have hab : 0 ≤ z.1 * z.1 + z.2 * z.2 := by linarith
  have h1 := h.2 (z.1 * z.1)
  have h2 := h.2 (z.2 * z.2)
  rw [abs_of_nonneg ha] at h1
  rw [abs_of_nonneg hb] at h2
  rw [gam_two]
  unfold cflAbs2
  cases fused with
  | true =>
    simp only [if_true]
    have hpre : |z.1 * z.1 + fl (z.2 * z.2) - (z.1 * z.1 + z.2 * z.2)| ≤ u * |z.1 * z.1 + z.2 * z.2| := by
      rw [abs_of_nonneg hab]
      have e : z.1 * z.1 + fl (z.2 * z.2) - (z.1 * z.1 + z.2 * z.2) = fl (z.2 * z.2) - z.2 * z.2 := by ring
      rw [e]
      have : u * (z.2 * z.2) ≤ u * (z.1 * z.1 + z.2 * z.2) := mul_le_mul_of_nonneg_left (by linarith) hu0
      linarith
    have := h.compose hu0 hpre
    rwa [abs_of_nonneg hab] at this
  | false =>
    simp only [Bool.false_eq_true, if_false]
    have hpre : |fl (z.1 * z.1) + fl (z.2 * z.2) - (z.1 * z.1 + z.2 * z.2)| ≤ u * |z.1 * z.1 + z.2 * z.2| := by
      rw [abs_of_nonneg hab]
      have e : fl (z.1 * z.1) + fl (z.2 * z.2) - (z.1 * z.1 + z.2 * z.2) =
          (fl (z.1 * z.1) - z.1 * z.1) + (fl (z.2 * z.2) - z.2 * z.2) := by ring
      rw [e]
      have t := abs_add_le (fl (z.1 * z.1) - z.1 * z.1) (fl (z.2 * z.2) - z.2 * z.2)
      have : u * (z.1 * z.1 + z.2 * z.2) = u * (z.1 * z.1) + u * (z.2 * z.2) := by ring
      linarith
    have := h.compose hu0 hpre
    rwa [abs_of_nonneg hab] at this

theorem cflSqLen_foldl_err {fl : K → K} {u : K} (h : FlOk fl u) (fused : Bool) (v : List (K × K)) :
    ∀ (k : Nat) (a a' : K), 2 ≤ k → 0 ≤ a → |a' - a| ≤ gam u k * a →
      |v.foldl (fun acc z => fl (acc + cflAbs2 fl fused z)) a' - (a + cSqLen v)| ≤
        gam u (k + v.length) * (a + cSqLen v) := by
  induction v with
  | nil => intro k a a' _ _ hk; simpa [cSqLen] using hk
  | cons z zs ih =>
    intro k a a' hk2 ha hk
    simp only [List.foldl_cons, List.length_cons, cSqLen]
    have hzz : 0 ≤ z.1 * z.1 + z.2 * z.2 := by nlinarith [mul_self_nonneg z.1, mul_self_nonneg z.2]
    have hsum : 0 ≤ a + (z.1 * z.1 + z.2 * z.2) := by linarith
    have hg := gam_nonneg h.1 k
    have hs := cflAbs2_err h fused z
    have hug : gam u 2 ≤ gam u k := gam_mono h.1 hk2
    have hpre : |a' + cflAbs2 fl fused z - (a + (z.1 * z.1 + z.2 * z.2))| ≤
        gam u k * |a + (z.1 * z.1 + z.2 * z.2)| := by
      rw [abs_of_nonneg hsum]
      have e : a' + cflAbs2 fl fused z - (a + (z.1 * z.1 + z.2 * z.2)) =
          (a' - a) + (cflAbs2 fl fused z - (z.1 * z.1 + z.2 * z.2)) := by ring
      rw [e]
      have t := abs_add_le (a' - a) (cflAbs2 fl fused z - (z.1 * z.1 + z.2 * z.2))
      have : gam u 2 * (z.1 * z.1 + z.2 * z.2) ≤ gam u k * (z.1 * z.1 + z.2 * z.2) :=
        mul_le_mul_of_nonneg_right hug hzz
      nlinarith
    have hpost := h.compose hg hpre
    rw [abs_of_nonneg hsum, ← gam_succ] at hpost
    have := ih (k + 1) (a + (z.1 * z.1 + z.2 * z.2)) (fl (a' + cflAbs2 fl fused z)) (by omega) hsum hpost
    have e1 : a + (z.1 * z.1 + z.2 * z.2) + cSqLen zs = a + (z.1 * z.1 + z.2 * z.2 + cSqLen zs) := by ring
    have e2 : k + 1 + zs.length = k + (zs.length + 1) := by omega
    rw [e1, e2] at this
    exact this

/-- **rounded `Σ|z_c|²`**: relative error at most `(1+u)^(n+2) − 1` for `n` complex components -/
theorem cflSqLen_err {fl : K → K} {u : K} (h : FlOk fl u) (fused : Bool) (v : List (K × K)) :
    |cflSqLen fl fused v - cSqLen v| ≤ gam u (v.length + 2) * cSqLen v := by
  have := cflSqLen_foldl_err h fused v 2 0 0 le_rfl le_rfl (by simp)
  simp only [zero_add] at this
  rw [Nat.add_comm]
  exact this

theorem small_len2 {u : K} (hu : 0 ≤ u) (n : Nat) (h : ((n : K) + 2) * ((n : K) + 2) * u ≤ 1 / 1024) :
    Small u (((n : K) + 2) * u) := by
  have := small_of_count hu (n + 2) (by omega) (by push_cast; exact h)
  push_cast at this
  exact this

theorem cflSqLen_err_small {fl : K → K} {u : K} (h : FlOk fl u) (fused : Bool) (v : List (K × K))
    (s : Small u (((v.length : K) + 2) * u)) :
    |cflSqLen fl fused v - cSqLen v| ≤ (((v.length : K) + 2) * u + u / 1024) * cSqLen v := by
  have h1 := cflSqLen_err h fused v
  have s' : Small u (((v.length + 2 : Nat) : K) * u) := by push_cast; exact s
  have h2 := gam_small (v.length + 2) s'
  push_cast at h2
  exact le_trans h1 (mul_le_mul_of_nonneg_right h2 (cSqLen_nonneg v))

/-- **the computed norm of a complex cell with a rounded root, any number of components** -/
theorem cflNormCell_exec_gen {fl sq : K → K} {u : K} (h : FlOk fl u) (hq : SqrtOk sq u) (fused : Bool)
    (v : List (K × K)) (s : Small u (((v.length : K) + 2) * u)) :
    0 ≤ cflNormCell fl sq fused v ∧
    |cflNormCell fl sq fused v * cflNormCell fl sq fused v - cSqLen v| ≤
      (((v.length : K) + 2) * u + 65 / 16 * u) * cSqLen v ∧
    (cflNormCell fl sq fused v = 0 ↔ cSqLen v = 0) := by
  have herr := cflSqLen_err_small h fused v s
  have hu0 := s.u0
  have hm0 := s.m0
  have hg0 : 0 ≤ ((v.length : K) + 2) * u + u / 1024 := by linarith
  have hg : ((v.length : K) + 2) * u + u / 1024 ≤ 1 / 512 := by
    have := s.m64; have := s.u64; linarith
  obtain ⟨h1, h2, h3⟩ := norm_exec_gen h hq s.u64 hg0 hg (cSqLen_nonneg v) herr
  refine ⟨h1, le_trans h2 (mul_le_mul_of_nonneg_right (by linarith) (cSqLen_nonneg v)), h3⟩

/-- division through the rounded reciprocal: `fl(x·fl(1/n))` within `33/16·u` of `x/n` (two
roundings); times `t` and one more rounding: within `49/16·u` of `(t/n)·x` -/
theorem recip_mul_err {fl : K → K} {u : K} (h : FlOk fl u) (hu : u ≤ 1 / 1024) (n x t : K) :
    |fl (x * fl (1 / n)) - x / n| ≤ 33 / 16 * u * |x / n| ∧
    |fl (fl (x * fl (1 / n)) * t) - t / n * x| ≤ 49 / 16 * u * |t / n * x| := by
  have hu0 := h.1
  have h1 : |x * fl (1 / n) - x / n| ≤ u * |x / n| := by
    have e : x * fl (1 / n) - x / n = x * (fl (1 / n) - 1 / n) := by ring
    rw [e, abs_mul]
    have := mul_le_mul_of_nonneg_left (h.2 (1 / n)) (abs_nonneg x)
    have e2 : |x| * (u * |1 / n|) = u * |x / n| := by
      rw [div_eq_mul_one_div x n, abs_mul]; ring
    linarith
  have c1 := h.compose hu0 h1
  have huu : u * u ≤ u / 1024 := by nlinarith
  have r0 : |fl (x * fl (1 / n)) - x / n| ≤ 2049 / 1024 * u * |x / n| := by
    have : (1 + u) * (1 + u) - 1 ≤ 2049 / 1024 * u := by nlinarith
    have := mul_le_mul_of_nonneg_right this (abs_nonneg (x / n))
    linarith
  have r1 : |fl (x * fl (1 / n)) - x / n| ≤ 33 / 16 * u * |x / n| := by
    have : 2049 / 1024 * u ≤ 33 / 16 * u := by linarith
    have := mul_le_mul_of_nonneg_right this (abs_nonneg (x / n))
    linarith
  refine ⟨r1, ?_⟩
  have e2 : t / n * x = x / n * t := by ring
  rw [e2]
  have h2 : |fl (x * fl (1 / n)) * t - x / n * t| ≤ 2049 / 1024 * u * |x / n * t| := by
    have : fl (x * fl (1 / n)) * t - x / n * t = (fl (x * fl (1 / n)) - x / n) * t := by ring
    rw [this, abs_mul, abs_mul, ← mul_assoc]
    exact mul_le_mul_of_nonneg_right r0 (abs_nonneg t)
  have c2 := h.compose (by linarith : (0 : K) ≤ 2049 / 1024 * u) h2
  have : (1 + u) * (1 + 2049 / 1024 * u) - 1 ≤ 49 / 16 * u := by nlinarith
  have := mul_le_mul_of_nonneg_right this (abs_nonneg (x / n * t))
  linarith

/-- `fl(x·fl(1/n))·n` reproduces `x` within two roundings -/
theorem recip_times_err {fl : K → K} {u : K} (h : FlOk fl u) (hu : u ≤ 1 / 1024) {n : K} (hn : n ≠ 0)
    (x : K) : |fl (x * fl (1 / n)) * n - x| ≤ 33 / 16 * u * |x| := by
  have r1 := (recip_mul_err h hu n x 1).1
  have e : fl (x * fl (1 / n)) * n - x = (fl (x * fl (1 / n)) - x / n) * n := by field_simp
  rw [e, abs_mul]
  have := mul_le_mul_of_nonneg_right r1 (abs_nonneg n)
  have e2 : 33 / 16 * u * |x / n| * |n| = 33 / 16 * u * |x| := by
    rw [mul_assoc, ← abs_mul]; congr 2; field_simp
  linarith

/-! ### the complex kernel through the `(re, im)` view -/

theorem flattenC_cflDiv (fl : K → K) (v : List (K × K)) (n : K) :
    flattenC (cflDivCell fl v n) = (flattenC v).map fun x => fl (x * fl (1 / n)) := by
  unfold cflDivCell
  exact flattenC_map (fun x => fl (x * fl (1 / n))) v

theorem flattenC_cflSet_of_ne {fl sq : K → K} {fused : Bool} {v : List (K × K)} (t : K)
    (hne : cflNormCell fl sq fused v ≠ 0) :
    flattenC (cflSetCell fl sq fused v t) =
      (flattenC v).map fun x => fl (fl (x * fl (1 / cflNormCell fl sq fused v)) * t) := by
  unfold cflSetCell
  rw [if_neg hne, flattenC_map (fun x => fl (x * t)), flattenC_cflDiv, List.map_map]
  rfl

theorem flattenC_cflSet_of_eq {fl sq : K → K} {u : K} (h : FlOk fl u) {fused : Bool} {v : List (K × K)}
    (t : K) (he : cflNormCell fl sq fused v = 0) :
    flattenC (cflSetCell fl sq fused v t) = zeros (flattenC v) := by
  unfold cflSetCell
  rw [if_pos he, flattenC_map (fun x => fl (x * t)), flattenC_zeros]
  unfold zeros
  rw [List.map_map]
  apply List.map_congr_left
  intro x _
  simp [h.zero]

/-- the component-count hypothesis for binary64 and fewer than two million components -/
theorem count_ok (n : Nat) (k : Nat) (hk : k ≤ 2) (h : n < 2000000) :
    ((n : Rat) + k) * ((n : Rat) + k) * (1 / 9007199254740992) ≤ 1 / 1024 := by
  have h1 : (n : Rat) + k ≤ 2000001 := by
    have : (n : Rat) ≤ 1999999 := by exact_mod_cast Nat.le_of_lt_succ (by omega : n < 1999999 + 1)
    have : (k : Rat) ≤ 2 := by exact_mod_cast hk
    linarith
  have h0 : (0 : Rat) ≤ (n : Rat) + k := by positivity
  have : ((n : Rat) + k) * ((n : Rat) + k) ≤ 2000001 * 2000001 := mul_le_mul h1 h1 h0 (by norm_num)
  linarith


end DFV.C15
