import DFV.Lemmas.C07SelFld
/-! `Mesh.__getitem__` (region / name), `Field.__getitem__`, `region2slices`. -/
namespace DFV.C07
open DFV DFV.Mesh

/-- `ceil(q) - 1 < q ≤ ceil(q)` in the form used for the upper index -/
theorem upperIdx_bounds (m : Mesh) (a : Nat) (x : Rat) (hc : 0 < m.cellAt a) :
    m.region.lo a + (upperIdx m a x : Rat) * m.cellAt a < x ∧
    x ≤ m.region.lo a + ((upperIdx m a x : Rat) + 1) * m.cellAt a := by
  unfold upperIdx
  set q := (x - m.region.lo a) / m.cellAt a with hq
  have h1 : q ≤ (q.ceil : Rat) := Rat.le_ceil
  have h2 : (q.ceil : Rat) < q + 1 := Rat.ceil_lt
  have hx : x = m.region.lo a + q * m.cellAt a := by rw [hq]; field_simp; ring
  push_cast
  constructor
  · rw [hx]; nlinarith
  · rw [hx]; nlinarith

/-- exact containment of a box in the mesh region, with positive extent -/
def BoxIn (m : Mesh) (item : Region) : Prop :=
  item.ndim = m.ndim ∧ ∀ a, a < m.ndim →
    m.region.lo a ≤ item.lo a ∧ item.lo a < item.hi a ∧ item.hi a ≤ m.region.hi a

/-- lower / upper cell index of the covering block along axis `a` -/
def blockLo (m : Mesh) (item : Region) (a : Nat) : Nat := m.indexAx a (item.lo a)
def blockHi (m : Mesh) (item : Region) (a : Nat) : Nat := (upperIdx m a (item.hi a)).toNat

theorem getRegion_inv (m : Mesh) (hm : m.Inv) (item : Region) (hbox : BoxIn m item) (g : Mesh)
    (h : getRegion m item = .ok g) :
    g.ndim = m.ndim ∧ g.n.length = m.ndim ∧ g.region.dims = m.region.dims ∧
    g.region.units = m.region.units ∧ g.region.tol = m.region.tol ∧ g.region.pmax.length = m.ndim ∧
    g.bc = "" ∧ g.subs = [] ∧
    ∀ a, a < m.ndim →
      blockLo m item a ≤ blockHi m item a ∧ blockHi m item a < m.nAt a ∧
      (upperIdx m a (item.hi a)) = (blockHi m item a : Int) ∧
      AxisBlock g m a a (blockLo m item a) (blockHi m item a - blockLo m item a + 1) := by
  unfold getRegion at h
  split at h
  · cases h
  · split at h
    · cases h
    · rename_i i1 hi1
      split at h
      · cases h
      · rename_i c1 hc1
        split at h
        · cases h
        · rename_i c2 hc2
          split at h
          · cases h
          · rename_i r hr
            obtain ⟨_, _, p3⟩ := point2index_inv m _ _ hi1
            obtain ⟨_, _, c13⟩ := index2point_inv m _ _ hc1
            obtain ⟨_, c22, c23⟩ := index2point_inv m _ _ hc2
            obtain ⟨e1, e2, e3, e4, e5, _, e7, e8, e9, e10, e11⟩ := regionMk_inv _ _ _ _ _ _ hr
            obtain ⟨g1, g2, g3, g4, _⟩ := mkCell_inv _ _ _ _ h
            have hrn : r.ndim = m.ndim := by unfold Region.ndim; rw [e7, tab_length, tab_length]
            have hpm : r.pmax.length = m.ndim := by rw [e8, tab_length, tab_length]
            have hperaxis : ∀ a, a < m.ndim →
                blockLo m item a ≤ blockHi m item a ∧ blockHi m item a < m.nAt a ∧
                (upperIdx m a (item.hi a)) = (blockHi m item a : Int) ∧
                r.lo a = m.region.lo a + (blockLo m item a : Rat) * m.cellAt a ∧
                r.hi a = m.region.lo a + ((blockLo m item a : Rat) +
                  ((blockHi m item a - blockLo m item a + 1 : Nat) : Rat)) * m.cellAt a := by
              intro a ha
              have hc := inv_cell_pos hm ha
              have hn := inv_n_pos hm ha
              obtain ⟨b1, b2, b3⟩ := hbox.2 a ha
              have hu := c22 a ha
              rw [getD_tab _ _ _ _ ha] at hu
              have hub := upperIdx_bounds m a (item.hi a) hc
              have hcont := index_contains m a (item.lo a) hn (inv_lo_lt_hi hm ha) b1 (by linarith)
              have hU : (upperIdx m a (item.hi a)) = (blockHi m item a : Int) := by
                unfold blockHi; rw [Int.toNat_of_nonneg hu.1]
              have hUr : (upperIdx m a (item.hi a) : Rat) = (blockHi m item a : Rat) := by
                rw [hU]; push_cast; rfl
              rw [hUr] at hub
              -- i1 ≤ i2
              have hle : blockLo m item a ≤ blockHi m item a := by
                have : (blockLo m item a : Rat) < (blockHi m item a : Rat) + 1 := by
                  unfold blockLo
                  by_contra hcon
                  rw [not_lt] at hcon
                  have := mul_le_mul_of_nonneg_right hcon hc.le
                  linarith [hcont.1, hub.2]
                have : blockLo m item a < blockHi m item a + 1 := by exact_mod_cast this
                omega
              have hlt : blockHi m item a < m.nAt a := by
                have := hu.2; rw [hU] at this; exact_mod_cast this
              have hcast : ((blockHi m item a - blockLo m item a + 1 : Nat) : Rat)
                  = (blockHi m item a : Rat) - (blockLo m item a : Rat) + 1 := by
                push_cast [Nat.cast_sub hle]; ring
              have hrat : (blockLo m item a : Rat) ≤ (blockHi m item a : Rat) := by exact_mod_cast hle
              have hc1a : c1.getD a 0 - m.cellAt a / 2 = m.region.lo a + (blockLo m item a : Rat) * m.cellAt a := by
                rw [c13, getD_tab _ _ _ _ ha, getD_natsToInts, p3, getD_tab _ _ _ _ ha, centreAx_cast]
                unfold blockLo Region.lo; ring
              have hc2a : c2.getD a 0 + m.cellAt a / 2 = m.region.lo a + ((blockHi m item a : Rat) + 1) * m.cellAt a := by
                rw [c23, getD_tab _ _ _ _ ha, getD_tab _ _ _ _ ha, hU, centreAx_cast]; ring
              refine ⟨hle, hlt, hU, ?_, ?_⟩
              · rw [lo_def, e7, getD_tab _ _ _ _ (by rw [tab_length]; exact ha), getD_tab _ _ _ _ ha,
                  getD_tab _ _ _ _ ha, hc1a, hc2a]
                exact min_eq_left (by nlinarith)
              · rw [hi_def, e8, getD_tab _ _ _ _ (by rw [tab_length]; exact ha), getD_tab _ _ _ _ ha,
                  getD_tab _ _ _ _ ha, hc1a, hc2a, hcast]
                rw [max_eq_right (by nlinarith)]; ring
            refine ⟨by unfold Mesh.ndim; rw [g1]; exact hrn, by rw [g2, tab_length, hrn],
              by rw [g1, e9], by rw [g1, e10], by rw [g1, e11], by rw [g1]; exact hpm,
              by rw [g4]; simp [String.toLower], g3, ?_⟩
            intro a ha
            obtain ⟨hle, hlt, hU, hlo, hhi⟩ := hperaxis a ha
            refine ⟨hle, hlt, hU, ?_⟩
            apply axisBlock_of g m a a _ _ (by omega) (by rw [g1]; exact hlo) (by rw [g1]; exact hhi) _ (by omega)
            rw [nAt_def, g2, getD_tab _ _ _ _ (by omega), cell_getD m _ ha]
            apply count_of_edge _ _ _ (inv_cell_pos hm ha).ne'
            unfold Region.edge; rw [hlo, hhi]; ring

end DFV.C07
