import DFV.Lemmas.C07SelFld
/-! `Mesh.__getitem__` (region / name), `Field.__getitem__`, `region2slices`. -/
namespace DFV.C07
open DFV DFV.Mesh

/-- `ceil(q) - 1 < q ≤ ceil(q)` in the form used for the upper index -/
theorem upperIdx_bounds (m : Mesh) (a : Nat) (x : Rat) (hc : 0 < m.cellAt a) :
    m.region.lo a + (upperIdx m a x : Rat) * m.cellAt a < x ∧
    x ≤ m.region.lo a + ((upperIdx m a x : Rat) + 1) * m.cellAt a := by
  unfold upperIdx
  set q := (x - m.region.lo a) / m.cellAt a with hq
  have h1 : q ≤ (q.ceil : Rat) := Rat.le_ceil
  have h2 : (q.ceil : Rat) < q + 1 := Rat.ceil_lt
  have hx : x = m.region.lo a + q * m.cellAt a := by rw [hq]; field_simp; ring
  push_cast
  constructor
  · rw [hx]; nlinarith
  · rw [hx]; nlinarith

/-- exact containment of a box in the mesh region, with positive extent -/
def BoxIn (m : Mesh) (item : Region) : Prop :=
  item.ndim = m.ndim ∧ ∀ a, a < m.ndim →
    m.region.lo a ≤ item.lo a ∧ item.lo a < item.hi a ∧ item.hi a ≤ m.region.hi a

/-- the upper index of a box inside the region is a valid index, not below the lower one -/
theorem upperIdx_range (m : Mesh) (hm : m.Inv) (item : Region) (hbox : BoxIn m item) (a : Nat) (ha : a < m.ndim) :
    0 ≤ upperIdx m a (item.hi a) ∧ upperIdx m a (item.hi a) < (m.nAt a : Int) ∧
    ((m.indexAx a (item.lo a) : Nat) : Int) ≤ upperIdx m a (item.hi a) := by
  have hc := inv_cell_pos hm ha
  have hn := inv_n_pos hm ha
  obtain ⟨b1, b2, b3⟩ := hbox.2 a ha
  obtain ⟨u1, u2⟩ := upperIdx_bounds m a (item.hi a) hc
  obtain ⟨c1, _⟩ := index_contains m a (item.lo a) hn (inv_lo_lt_hi hm ha) b1 (by linarith)
  have hhi := hi_eq m a hn
  have r1 : (-1 : Rat) < (upperIdx m a (item.hi a) : Rat) := by
    by_contra hcon; rw [not_lt] at hcon
    have : ((upperIdx m a (item.hi a) : Rat) + 1) * m.cellAt a ≤ 0 :=
      mul_nonpos_of_nonpos_of_nonneg (by linarith) hc.le
    linarith
  have r2 : (upperIdx m a (item.hi a) : Rat) < (m.nAt a : Rat) := by
    by_contra hcon; rw [not_lt] at hcon
    have := mul_le_mul_of_nonneg_right hcon hc.le
    linarith
  have r3 : (m.indexAx a (item.lo a) : Rat) < (upperIdx m a (item.hi a) : Rat) + 1 := by
    by_contra hcon; rw [not_lt] at hcon
    have := mul_le_mul_of_nonneg_right hcon hc.le
    linarith
  have i1 : (-1 : Int) < upperIdx m a (item.hi a) := by exact_mod_cast r1
  have i2 : upperIdx m a (item.hi a) < (m.nAt a : Int) := by exact_mod_cast r2
  have i3 : ((m.indexAx a (item.lo a) : Nat) : Int) < upperIdx m a (item.hi a) + 1 := by exact_mod_cast r3
  omega

/-- for a box inside the region the clip of the upper index does nothing -/
theorem upperIdxC_eq (m : Mesh) (hm : m.Inv) (item : Region) (hbox : BoxIn m item) (a : Nat) (ha : a < m.ndim) :
    upperIdxC m a (item.hi a) = upperIdx m a (item.hi a) := by
  obtain ⟨h1, h2, _⟩ := upperIdx_range m hm item hbox a ha
  unfold upperIdxC clipInt
  rw [if_neg (by omega), if_neg (by omega)]

/-- lower / upper cell index of the covering block along axis `a` -/
def blockLo (m : Mesh) (item : Region) (a : Nat) : Nat := m.indexAx a (item.lo a)
def blockHi (m : Mesh) (item : Region) (a : Nat) : Nat := (upperIdx m a (item.hi a)).toNat

theorem getRegion_inv (m : Mesh) (hm : m.Inv) (item : Region) (hbox : BoxIn m item) (g : Mesh)
    (h : getRegion m item = .ok g) :
    g.ndim = m.ndim ∧ g.n.length = m.ndim ∧ g.region.dims = m.region.dims ∧
    g.region.units = m.region.units ∧ g.region.tol = m.region.tol ∧ g.region.pmax.length = m.ndim ∧
    g.bc = "" ∧ g.subs = [] ∧
    ∀ a, a < m.ndim →
      blockLo m item a ≤ blockHi m item a ∧ blockHi m item a < m.nAt a ∧
      (upperIdx m a (item.hi a)) = (blockHi m item a : Int) ∧
      AxisBlock g m a a (blockLo m item a) (blockHi m item a - blockLo m item a + 1) := by
  unfold getRegion at h
  split at h
  · cases h
  · split at h
    · cases h
    · rename_i i1 hi1
      split at h
      · cases h
      · rename_i c1 hc1
        split at h
        · cases h
        · rename_i c2 hc2
          split at h
          · cases h
          · rename_i r hr
            obtain ⟨_, _, p3⟩ := point2index_inv m _ _ hi1
            obtain ⟨_, _, c13⟩ := index2point_inv m _ _ hc1
            have hclip : (tab m.ndim fun a => upperIdxC m a (item.hi a)) = tab m.ndim fun a => upperIdx m a (item.hi a) :=
              tab_congr _ _ _ (fun a ha => upperIdxC_eq m hm item hbox a ha)
            rw [hclip] at hc2
            obtain ⟨_, c22, c23⟩ := index2point_inv m _ _ hc2
            obtain ⟨e1, e2, e3, e4, e5, _, e7, e8, e9, e10, e11⟩ := regionMk_inv _ _ _ _ _ _ hr
            obtain ⟨g1, g2, g3, g4, _⟩ := mkCell_inv _ _ _ _ h
            have hrn : r.ndim = m.ndim := by unfold Region.ndim; rw [e7, tab_length, tab_length]
            have hpm : r.pmax.length = m.ndim := by rw [e8, tab_length, tab_length]
            have hperaxis : ∀ a, a < m.ndim →
                blockLo m item a ≤ blockHi m item a ∧ blockHi m item a < m.nAt a ∧
                (upperIdx m a (item.hi a)) = (blockHi m item a : Int) ∧
                r.lo a = m.region.lo a + (blockLo m item a : Rat) * m.cellAt a ∧
                r.hi a = m.region.lo a + ((blockLo m item a : Rat) +
                  ((blockHi m item a - blockLo m item a + 1 : Nat) : Rat)) * m.cellAt a := by
              intro a ha
              have hc := inv_cell_pos hm ha
              have hn := inv_n_pos hm ha
              obtain ⟨b1, b2, b3⟩ := hbox.2 a ha
              have hu := c22 a ha
              rw [getD_tab _ _ _ _ ha] at hu
              have hub := upperIdx_bounds m a (item.hi a) hc
              have hcont := index_contains m a (item.lo a) hn (inv_lo_lt_hi hm ha) b1 (by linarith)
              have hU : (upperIdx m a (item.hi a)) = (blockHi m item a : Int) := by
                unfold blockHi; rw [Int.toNat_of_nonneg hu.1]
              have hUr : (upperIdx m a (item.hi a) : Rat) = (blockHi m item a : Rat) := by
                rw [hU]; push_cast; rfl
              rw [hUr] at hub
              -- i1 ≤ i2
              have hle : blockLo m item a ≤ blockHi m item a := by
                have : (blockLo m item a : Rat) < (blockHi m item a : Rat) + 1 := by
                  unfold blockLo
                  by_contra hcon
                  rw [not_lt] at hcon
                  have := mul_le_mul_of_nonneg_right hcon hc.le
                  linarith [hcont.1, hub.2]
                have : blockLo m item a < blockHi m item a + 1 := by exact_mod_cast this
                omega
              have hlt : blockHi m item a < m.nAt a := by
                have := hu.2; rw [hU] at this; exact_mod_cast this
              have hcast : ((blockHi m item a - blockLo m item a + 1 : Nat) : Rat)
                  = (blockHi m item a : Rat) - (blockLo m item a : Rat) + 1 := by
                push_cast [Nat.cast_sub hle]; ring
              have hrat : (blockLo m item a : Rat) ≤ (blockHi m item a : Rat) := by exact_mod_cast hle
              have hc1a : c1.getD a 0 - m.cellAt a / 2 = m.region.lo a + (blockLo m item a : Rat) * m.cellAt a := by
                rw [c13, getD_tab _ _ _ _ ha, getD_natsToInts, p3, getD_tab _ _ _ _ ha, centreAx_cast]
                unfold blockLo Region.lo; ring
              have hc2a : c2.getD a 0 + m.cellAt a / 2 = m.region.lo a + ((blockHi m item a : Rat) + 1) * m.cellAt a := by
                rw [c23, getD_tab _ _ _ _ ha, getD_tab _ _ _ _ ha, hU, centreAx_cast]; ring
              refine ⟨hle, hlt, hU, ?_, ?_⟩
              · rw [lo_def, e7, getD_tab _ _ _ _ (by rw [tab_length]; exact ha), getD_tab _ _ _ _ ha,
                  getD_tab _ _ _ _ ha, hc1a, hc2a]
                exact min_eq_left (by nlinarith)
              · rw [hi_def, e8, getD_tab _ _ _ _ (by rw [tab_length]; exact ha), getD_tab _ _ _ _ ha,
                  getD_tab _ _ _ _ ha, hc1a, hc2a, hcast]
                rw [max_eq_right (by nlinarith)]; ring
            refine ⟨by unfold Mesh.ndim; rw [g1]; exact hrn, by rw [g2, tab_length, hrn],
              by rw [g1, e9], by rw [g1, e10], by rw [g1, e11], by rw [g1]; exact hpm,
              by rw [g4]; simp [String.toLower], g3, ?_⟩
            intro a ha
            obtain ⟨hle, hlt, hU, hlo, hhi⟩ := hperaxis a ha
            refine ⟨hle, hlt, hU, ?_⟩
            apply axisBlock_of g m a a _ _ (by omega) (by rw [g1]; exact hlo) (by rw [g1]; exact hhi) _ (by omega)
            rw [nAt_def, g2, getD_tab _ _ _ _ (by omega), cell_getD m _ ha]
            apply count_of_edge _ _ _ (inv_cell_pos hm ha).ne'
            unfold Region.edge; rw [hlo, hhi]; ring

end DFV.C07

namespace DFV.C07
open DFV DFV.Mesh

/-- field well-formedness: mesh invariant and arrays shaped like the mesh -/
def FldWF (f : Fld) : Prop := f.mesh.Inv ∧ f.data.shape = f.mesh.n ∧ f.valid.shape = f.mesh.n

theorem getD_replicate_zero (n a : Nat) : (List.replicate n (0 : Int)).getD a 0 = 0 := by
  rw [List.getD_eq_getElem?_getD]
  by_cases h : a < n
  · simp [h]
  · simp [h]

/-- `field[item]` when the extracted mesh is a block of whole cells of the source on every
axis: the centre of result cell `j` lies in source cell `off + j`, which is the cell copied. -/
theorem getItem_block (f : Fld) (hf : FldWF f) (item : Item) (sm : Mesh) (hsm : getMesh f.mesh item = .ok sm)
    (hnd : sm.ndim = f.mesh.ndim) (hnl : sm.n.length = f.mesh.ndim)
    (off cnt : Nat → Nat) (hcnt : ∀ b, b < f.mesh.ndim → 0 < cnt b)
    (hblk : ∀ b, b < f.mesh.ndim → AxisBlock sm f.mesh b b (off b) (cnt b))
    (g : Fld) (h : getItem f item = .ok g) :
    g.mesh = sm ∧ ∀ j, inRange g.mesh.n j = true →
      f.mesh.point2index (g.mesh.centre j) = .ok (tab f.mesh.ndim fun b => off b + j.getD b 0) ∧
      g.data.get j = f.data.get (tab f.mesh.ndim fun b => off b + j.getD b 0) ∧
      g.valid.get j = f.valid.get (tab f.mesh.ndim fun b => off b + j.getD b 0) := by
  obtain ⟨hinv, hds, hvs⟩ := hf
  unfold getItem at h
  rw [hsm] at h
  simp only at h
  split at h
  · cases h
  · rename_i p0 hp0
    split at h
    · cases h
    · rename_i imin himin
      obtain ⟨q1, q2, q3, _⟩ := mkFld_inv _ _ _ _ _ h
      obtain ⟨_, _, p03⟩ := index2point_inv sm _ _ hp0
      obtain ⟨_, _, im3⟩ := point2index_inv f.mesh _ _ himin
      have himin' : imin = tab f.mesh.ndim off := by
        rw [im3]
        apply tab_congr
        intro b hb
        rw [p03, getD_tab _ _ _ _ (by omega), getD_replicate_zero]
        have := (block_index (hblk b hb) (inv_cell_pos hinv hb) 0 (hcnt b hb)).1
        simpa using this
      refine ⟨q1, ?_⟩
      intro j hj
      rw [q1] at hj ⊢
      refine ⟨block_point2index f.mesh sm hinv hnd hnl off cnt hblk j hj, ?_, ?_⟩
      · rw [q2]
        show f.data.get (tab f.data.shape.length fun b => j.getD b 0 + imin.getD b 0) = _
        rw [hds, inv_n_length hinv]
        congr 1
        apply tab_congr
        intro b hb
        rw [himin', getD_tab _ _ _ _ hb]; omega
      · rw [q3]
        show f.valid.get (tab f.valid.shape.length fun b => j.getD b 0 + imin.getD b 0) = _
        rw [hvs, inv_n_length hinv]
        congr 1
        apply tab_congr
        intro b hb
        rw [himin', getD_tab _ _ _ _ hb]; omega

/-- a stored subregion that consists of whole cells `k₁ … k₂-1` of the mesh on every axis -/
def SubAligned (m : Mesh) (s : Region) (k1 k2 : Nat → Nat) : Prop :=
  s.ndim = m.ndim ∧ s.pmax.length = m.ndim ∧ ∀ a, a < m.ndim →
    k1 a < k2 a ∧ k2 a ≤ m.nAt a ∧
    s.lo a = m.region.lo a + (k1 a : Rat) * m.cellAt a ∧
    s.hi a = m.region.lo a + (k2 a : Rat) * m.cellAt a

theorem getName_inv (m : Mesh) (hm : m.Inv) (name : String) (s : Region) (hfind : findSub m.subs name = some s)
    (k1 k2 : Nat → Nat) (hal : SubAligned m s k1 k2) (g : Mesh) (h : getName m name = .ok g) :
    g.region = s ∧ g.ndim = m.ndim ∧ g.n.length = m.ndim ∧
    ∀ a, a < m.ndim → AxisBlock g m a a (k1 a) (k2 a - k1 a) := by
  unfold getName at h
  rw [hfind] at h
  simp only at h
  obtain ⟨g1, g2, _, _, _⟩ := mkCell_inv _ _ _ _ h
  obtain ⟨s1, s2, s3⟩ := hal
  refine ⟨g1, by unfold Mesh.ndim; rw [g1]; exact s1, by rw [g2, tab_length]; exact s1, ?_⟩
  intro a ha
  obtain ⟨t1, t2, t3, t4⟩ := s3 a ha
  have hcast : ((k2 a - k1 a : Nat) : Rat) = (k2 a : Rat) - (k1 a : Rat) := by
    push_cast [Nat.cast_sub t1.le]; ring
  apply axisBlock_of g m a a _ _ (by omega) (by rw [g1]; exact t3) (by rw [g1, t4, hcast]; ring) _ (by omega)
  rw [nAt_def, g2, getD_tab _ _ _ _ (by omega), cell_getD m _ ha]
  apply count_of_edge _ _ _ (inv_cell_pos hm ha).ne'
  unfold Region.edge; rw [t3, t4, hcast]; ring

end DFV.C07
