import DFV.Lemmas.C11More
/-!
C11: the inverse transform of a Hermitian spectrum is conj-fixed ("real"), and the Hermitian
extension `hermExt` of a half spectrum that is conjugate-symmetric on its self-mirror planes
(last index 0 and, for an even count, `n/2`) is Hermitian — so the model's `irfftn` returns real
data on exactly the inputs it is specified for.
-/
namespace DFV.C11
open DFV

variable {R : Type} [CommRing R]

/-! ### reflection of sums -/

theorem sumN_reverse (n : Nat) (f : Nat → R) : sumN n (fun k => f (n - 1 - k)) = sumN n f := by
  induction n generalizing f with
  | zero => rfl
  | succ n ih =>
    have h1 : sumN (n + 1) f = f 0 + sumN n (fun i => f (1 + i)) := by
      have := sumN_split 1 n f
      rw [Nat.add_comm 1 n] at this
      rw [this]; simp [sumN]
    rw [h1, ← ih (fun i => f (1 + i))]
    simp only [sumN]
    have e : sumN n (fun k => f (n + 1 - 1 - k)) = sumN n (fun k => f (1 + (n - 1 - k))) := by
      apply sumN_congr
      intro k hk
      congr 1; omega
    rw [e]
    have : n + 1 - 1 - n = 0 := by omega
    rw [this]; ring

/-- a sum over a full period does not change under negation of the index mod `n` -/
theorem sumN_neg (n : Nat) (g : Nat → R) : sumN n (fun k => g ((n - k % n) % n)) = sumN n g := by
  by_cases hn : n = 0
  · subst hn; rfl
  · rw [← sumN_rotate n 1 (by omega) g, ← sumN_reverse n (fun x => g ((x + 1) % n))]
    apply sumN_congr
    intro k hk
    rw [Nat.mod_eq_of_lt hk]
    congr 2; omega

theorem sumBox_negIdx (ns : List Nat) (g : List Nat → R) : sumBox ns (fun k => g (negIdx ns k)) = sumBox ns g := by
  induction ns generalizing g with
  | nil => simp [sumBox, negIdx]
  | cons n ns ih =>
    simp only [sumBox, negIdx]
    rw [sumN_congr n _ _ (fun r _ => ih (fun x => g (((n - r % n) % n) :: x)))]
    exact sumN_neg n (fun r' => sumBox ns fun rs => g (r' :: rs))

/-! ### index negation -/

theorem neg1_neg1 (n j : Nat) (hj : j < n) : (n - ((n - j % n) % n) % n) % n = j := by
  rw [Nat.mod_eq_of_lt hj]
  by_cases h0 : j = 0
  · subst h0; simp
  · rw [Nat.mod_eq_of_lt (by omega : n - j < n), Nat.mod_eq_of_lt (by omega : n - j < n)]
    have : n - (n - j) = j := by omega
    rw [this, Nat.mod_eq_of_lt hj]

theorem negIdx_negIdx (ns k : List Nat) (hk : inRange ns k = true) : negIdx ns (negIdx ns k) = k := by
  induction ns generalizing k with
  | nil => cases k <;> simp_all [inRange, negIdx]
  | cons n ns ih =>
    cases k with
    | nil => simp [inRange] at hk
    | cons k0 ks =>
      rw [inRange_cons] at hk
      simp only [negIdx, neg1_neg1 n k0 hk.1, ih ks hk.2]

theorem negIdx_length (ns k : List Nat) (hk : inRange ns k = true) : (negIdx ns k).length = ns.length :=
  inRange_length _ _ (negIdx_inRange ns k hk)

theorem negIdx_getD (ns k : List Nat) (hk : inRange ns k = true) (a : Nat) (ha : a < ns.length) :
    (negIdx ns k).getD a 0 = (ns.getD a 0 - k.getD a 0 % ns.getD a 0) % ns.getD a 0 := by
  induction ns generalizing k a with
  | nil => simp at ha
  | cons n ns ih =>
    cases k with
    | nil => simp [inRange] at hk
    | cons k0 ks =>
      rw [inRange_cons] at hk
      cases a with
      | zero => simp [negIdx]
      | succ a =>
        simp only [negIdx, List.getD_cons_succ]
        exact ih ks hk.2 a (by simpa using ha)

/-- last entry of the negated index -/
theorem negIdx_last (ns k : List Nat) (hk : inRange ns k = true) :
    (negIdx ns k).getLastD 0 = (ns.getLastD 0 - k.getLastD 0 % ns.getLastD 0) % ns.getLastD 0 := by
  have hlen := inRange_length _ _ hk
  rw [getLastD_eq_getD, getLastD_eq_getD, getLastD_eq_getD, negIdx_length ns k hk, hlen]
  by_cases h0 : ns.length = 0
  · have hns : ns = [] := List.eq_nil_of_length_eq_zero h0
    subst hns
    cases k with
    | nil => simp [negIdx]
    | cons x xs => simp [inRange] at hk
  · exact negIdx_getD ns k hk _ (by omega)

/-! ### conjugation facts that follow from the hypotheses -/

theorem IsConj.map_natCast {conj : R → R} (h : IsConj conj) (n : Nat) : conj (n : R) = (n : R) := by
  induction n with
  | zero => simpa using h.map_zero
  | succ n ih => rw [Nat.cast_succ, h.map_add, ih, h.map_one]

theorem conj_wi {conj : R → R} (hc : IsConj conj) {n : Nat} {ρ : Root R} (h : IsRoot n ρ) (hw : conj ρ.w = ρ.wi) :
    conj ρ.wi = ρ.w := by
  have h1 : ρ.wi * conj ρ.wi = 1 := by
    have : conj (ρ.w * ρ.wi) = 1 := by rw [h.inv, hc.map_one]
    rw [hc.map_mul, hw] at this
    exact this
  calc conj ρ.wi = (ρ.w * ρ.wi) * conj ρ.wi := by rw [h.inv, one_mul]
    _ = ρ.w * (ρ.wi * conj ρ.wi) := by ring
    _ = ρ.w := by rw [h1, mul_one]

theorem conj_ninv {conj : R → R} (hc : IsConj conj) {n : Nat} {ρ : Root R} (h : IsRoot n ρ) :
    conj ρ.ninv = ρ.ninv := by
  have h1 : conj ρ.ninv * (n : R) = 1 := by rw [← hc.map_natCast n, ← hc.map_mul, h.ninv, hc.map_one]
  calc conj ρ.ninv = conj ρ.ninv * (ρ.ninv * (n : R)) := by rw [h.ninv, mul_one]
    _ = (conj ρ.ninv * (n : R)) * ρ.ninv := by ring
    _ = ρ.ninv := by rw [h1, one_mul]

theorem conj_ninvProd (conj : R → R) (hc : IsConj conj) (ρs : List (Root R)) (ns : List Nat) (hρ : Roots ns ρs) :
    conj (ninvProd ρs ns) = ninvProd ρs ns := by
  induction ns generalizing ρs with
  | nil => simpa [ninvProd] using hc.map_one
  | cons n ns ih =>
    obtain ⟨hr, hrs⟩ := hρ
    simp only [ninvProd]
    rw [hc.map_mul, conj_ninv hc hr, ih ρs.tail hrs]

theorem conj_tw_wi {conj : R → R} (hc : IsConj conj) {n : Nat} {ρ : Root R} (h : IsRoot n ρ) (hw : conj ρ.w = ρ.wi)
    (j k : Nat) (hk : k < n) : conj (tw ρ.wi n j k) = tw ρ.wi n j ((n - k % n) % n) := by
  rw [tw_eq _ _ _ _ h.wi_pow_n, tw_eq _ _ _ _ h.wi_pow_n, hc.map_pow, conj_wi hc h hw]
  rw [Nat.mul_comm j ((n - k % n) % n), tw_neg h k j hk, Nat.mul_comm]

theorem conj_twProdI (conj : R → R) (hc : IsConj conj) (ρs : List (Root R)) (ns : List Nat) (hρ : Roots ns ρs)
    (hcr : ConjRoots conj ns ρs) (j k : List Nat) (hk : inRange ns k = true) :
    conj (twProdI ρs ns j k) = twProdI ρs ns j (negIdx ns k) := by
  induction ns generalizing ρs j k with
  | nil => simpa [twProdI] using hc.map_one
  | cons n ns ih =>
    cases k with
    | nil => simp [inRange] at hk
    | cons k0 ks =>
      rw [inRange_cons] at hk
      obtain ⟨hr, hrs⟩ := hρ
      obtain ⟨hc0, hcs⟩ := hcr
      simp only [twProdI, negIdx, List.headD_cons, List.tail_cons]
      rw [hc.map_mul, conj_tw_wi hc hr hc0 _ k0 hk.1, ih ρs.tail hrs hcs j.tail ks hk.2]

/-! ### the inverse transform of a Hermitian spectrum is real -/

theorem IsConj.map_sumBox {conj : R → R} (h : IsConj conj) (ns : List Nat) (g : List Nat → R) :
    conj (sumBox ns g) = sumBox ns (fun k => conj (g k)) := by
  induction ns generalizing g with
  | nil => rfl
  | cons n ns ih =>
    simp only [sumBox]
    rw [h.map_sumN]
    apply sumN_congr
    intro r _
    exact ih (fun rs => g (r :: rs))

/-- a spectrum with `conj F[k] = F[-k]` has a conj-fixed inverse transform -/
theorem idftN_real (conj : R → R) (hc : IsConj conj) (ρs : List (Root R)) (ns : List Nat) (hρ : Roots ns ρs)
    (hcr : ConjRoots conj ns ρs) (F : List Nat → R)
    (hF : ∀ k, inRange ns k = true → conj (F k) = F (negIdx ns k)) (j : List Nat) :
    conj (idftN ρs ns F j) = idftN ρs ns F j := by
  rw [idftN_eq_sumBox, hc.map_mul, conj_ninvProd conj hc ρs ns hρ]
  congr 1
  rw [hc.map_sumBox, ← sumBox_negIdx ns (fun k => F k * twProdI ρs ns j k)]
  apply sumBox_congr
  intro k hk
  rw [hc.map_mul, hF k hk, conj_twProdI conj hc ρs ns hρ hcr j k hk]

/-! ### the Hermitian extension of a consistent half spectrum is Hermitian -/

omit [CommRing R] in
theorem hermExt_hermitian (conj : R → R) (hinv : ∀ x, conj (conj x) = x) (s : List Nat) (G : List Nat → R)
    (hcons : ∀ k, inRange s k = true → (k.getLastD 0 = 0 ∨ 2 * k.getLastD 0 = s.getLastD 0) →
      conj (G k) = G (negIdx s k))
    (k : List Nat) (hk : inRange s k = true) :
    conj (hermExt conj s G k) = hermExt conj s G (negIdx s k) := by
  have hl' := negIdx_last s k hk
  have hlt : k.getLastD 0 < s.getLastD 0 ∨ (k.getLastD 0 = 0 ∧ s.getLastD 0 = 0) := by
    have hlen := inRange_length _ _ hk
    rw [getLastD_eq_getD, getLastD_eq_getD, hlen]
    by_cases h0 : s.length = 0
    · right
      have hs : s = [] := List.eq_nil_of_length_eq_zero h0
      subst hs
      cases k with
      | nil => simp
      | cons x xs => simp [inRange] at hk
    · left; exact inRange_getD s k hk _ (by omega)
  have hck := hcons k hk
  clear hcons
  unfold hermExt
  rw [negIdx_negIdx s k hk]
  generalize k.getLastD 0 = l at *
  generalize s.getLastD 0 = n at *
  generalize (negIdx s k).getLastD 0 = l' at *
  have hl2 : l' = if l = 0 then 0 else n - l := by
    rcases hlt with h | ⟨h1, h2⟩
    · rw [hl', Nat.mod_eq_of_lt h]
      by_cases h0 : l = 0
      · subst h0; simp
      · rw [if_neg h0, Nat.mod_eq_of_lt (by omega)]
    · subst h1; subst h2; simp [hl']
  by_cases h1 : l ≤ n / 2
  · rw [if_pos h1]
    by_cases h2 : l' ≤ n / 2
    · rw [if_pos h2]
      apply hck
      by_cases h0 : l = 0
      · left; exact h0
      · right; rw [if_neg h0] at hl2; omega
    · rw [if_neg h2]
  · rw [if_neg h1, hinv]
    have h2 : l' ≤ n / 2 := by
      have h0 : l ≠ 0 := by omega
      rw [if_neg h0] at hl2; omega
    rw [if_pos h2]

/-- **`irfftn` returns conj-fixed ("real") data** on every half spectrum that is
conjugate-symmetric on its self-mirror planes (last index 0 and, for an even output count, `n/2`) -/
theorem irfftnArr_real (conj : R → R) (hc : IsConj conj) (hinv : ∀ x, conj (conj x) = x) (ρs : List (Root R))
    (nv : Nat) (s : List Nat) (a : NDA (List R)) (hρ : Roots s ρs) (hcr : ConjRoots conj s ρs)
    (c : Nat) (hcv : c < nv)
    (hcons : ∀ k, inRange s k = true → (k.getLastD 0 = 0 ∨ 2 * k.getLastD 0 = s.getLastD 0) →
      conj (compA a c (ishiftR a.shape k)) = compA a c (ishiftR a.shape (negIdx s k)))
    (j : List Nat) :
    conj (compA (irfftnArr conj ρs nv s a) c j) = compA (irfftnArr conj ρs nv s a) c j := by
  rw [irfftnArr_get _ _ _ _ _ _ _ hcv]
  exact idftN_real conj hc ρs s hρ hcr _
    (fun k hk => hermExt_hermitian conj hinv s (fun m => compA a c (ishiftR a.shape m)) hcons k hk) j

/-- the half spectrum `rfftn` produces from conj-fixed data is conjugate-symmetric (on every
plane, in particular on the self-mirror planes `irfftnArr_real` asks for) -/
theorem rfftnArr_consistent (conj : R → R) (hc : IsConj conj) (ρs : List (Root R)) (nv : Nat) (a : NDA (List R))
    (hρ : Roots a.shape ρs) (hcr : ConjRoots conj a.shape ρs) (hreal : ∀ i c, conj (compA a c i) = compA a c i)
    (c : Nat) (hcv : c < nv) (k : List Nat) (hk : inRange a.shape k = true) :
    conj (compA (rfftnArr ρs nv a) c (ishiftR (rfftnArr ρs nv a).shape k))
      = compA (rfftnArr ρs nv a) c (ishiftR (rfftnArr ρs nv a).shape (negIdx a.shape k)) := by
  have hs : (rfftnArr ρs nv a).shape = halfShape a.shape := rfl
  have hnk := negIdx_inRange a.shape k hk
  rw [hs, rfftnArr_get _ _ _ _ _ hcv, rfftnArr_get _ _ _ _ _ hcv, fshiftR_ishiftR a.shape k hk,
    fshiftR_ishiftR a.shape _ hnk]
  have := conj_dftN_neg conj hc ρs a.shape hρ hcr (compA a c) (fun i => hreal i c) _ hnk
  rw [negIdx_negIdx a.shape k hk] at this
  exact this

end DFV.C11
