import DFV.Lemmas.C08Wf
/-! C08 helper lemmas, part 12: a dictionary over the subregions of the mesh as validity
(`setMaskDict`).  The loop that paints the subregions in reversed order = "the FIRST subregion
whose name is a key and whose block contains the cell decides, else the default"; accepted exactly
when every value is acceptable on its own subregion and a default exists unless all cells are
covered. -/
namespace DFV.C08
open DFV

/-- first entry (in list order) that is a key and contains `j` decides; else `fb` -/
def dictGo : List DEntry → Bool → List Nat → Bool
  | [], fb, _ => fb
  | e :: rest, fb, j =>
    match e.val with
    | none => dictGo rest fb j
    | some s => if inBox e.lo e.hi j then specMask (boxShape e.lo e.hi) s (boxIdx e.lo j) else dictGo rest fb j

theorem dictGo_append (es es' : List DEntry) (fb : Bool) (j : List Nat) :
    dictGo (es ++ es') fb j = dictGo es (dictGo es' fb j) j := by
  induction es with
  | nil => rfl
  | cons e rest ih =>
    simp only [List.cons_append, dictGo]
    cases e.val with
    | none => exact ih
    | some s =>
      simp only
      split
      · rfl
      · exact ih

theorem dictCell_eq_go (dflt : DDefault) (es : List DEntry) (j : List Nat) :
    dictCell dflt es j = dictGo es (dictCell dflt [] j) j := by
  induction es with
  | nil => rfl
  | cons e rest ih =>
    simp only [dictCell, dictGo]
    cases e.val with
    | none => exact ih
    | some s =>
      simp only
      split
      · rfl
      · exact ih

theorem dictCovered_append (es es' : List DEntry) (j : List Nat) :
    dictCovered (es ++ es') j = (dictCovered es j || dictCovered es' j) := by
  induction es with
  | nil => simp [dictCovered]
  | cons e rest ih => simp only [List.cons_append, dictCovered, ih, Bool.or_assoc]

theorem dictCovered_reverse (es : List DEntry) (j : List Nat) : dictCovered es.reverse j = dictCovered es j := by
  induction es with
  | nil => rfl
  | cons e rest ih =>
    rw [List.reverse_cons, dictCovered_append, ih]
    simp only [dictCovered, Bool.or_false]
    exact Bool.or_comm _ _

/-- an uncovered cell reads the fallback -/
theorem dictGo_uncovered (es : List DEntry) (fb : Bool) (j : List Nat) (h : dictCovered es j = false) :
    dictGo es fb j = fb := by
  induction es with
  | nil => rfl
  | cons e rest ih =>
    simp only [dictCovered, Bool.or_eq_false_iff, Bool.and_eq_false_iff] at h
    simp only [dictGo]
    cases hv : e.val with
    | none => exact ih h.2
    | some s =>
      simp only
      have : inBox e.lo e.hi j = false := by
        rcases h.1 with h1 | h1
        · rw [hv] at h1; simp at h1
        · exact h1
      simp only [this]
      exact ih h.2

/-- a covered cell never reads the fallback -/
theorem dictGo_covered (es : List DEntry) (fb fb' : Bool) (j : List Nat) (h : dictCovered es j = true) :
    dictGo es fb j = dictGo es fb' j := by
  induction es with
  | nil => simp [dictCovered] at h
  | cons e rest ih =>
    simp only [dictGo]
    cases hv : e.val with
    | none =>
      simp only [dictCovered, hv, Option.isSome_none, Bool.false_and, Bool.false_or] at h
      exact ih h
    | some s =>
      simp only
      by_cases c : inBox e.lo e.hi j = true
      · simp only [c, if_true]
      · simp only [dictCovered, hv, Option.isSome_some, Bool.true_and, c, Bool.false_or] at h
        simp only [c]
        exact ih h

/-- a cell inside the block of a subregion has an in-range index inside that subregion -/
theorem boxIdx_inRange (lo hi j : List Nat) (h : inBox lo hi j = true) :
    inRange (boxShape lo hi) (boxIdx lo j) = true := by
  unfold boxShape boxIdx
  rw [inRange_iff]
  refine ⟨by simp, fun a ha => ?_⟩
  simp only [tab_length] at ha
  rw [getD_tab _ _ _ _ ha, getD_tab _ _ _ _ ha]
  have := (allLt_iff _ _).mp h a ha
  simp only [Bool.and_eq_true, decide_eq_true_eq] at this
  omega

theorem entriesOk_reverse (es : List DEntry) : entriesOk es.reverse = entriesOk es := by
  unfold entriesOk; exact List.all_reverse

/-- the painting loop, read cell by cell: a later entry of the loop overwrites an earlier one -/
theorem paint_spec (n : List Nat) (es : List DEntry) : ∀ (st st' : Mask × Mask), paint n es st = .ok st' →
    (es ≠ [] → st.1.shape = n → st'.1.shape = n) ∧ (st.1.shape = n → st'.1.shape = n) ∧
    ∀ j, inRange n j = true →
      st'.1.get j = dictGo es.reverse (st.1.get j) j ∧ st'.2.get j = (st.2.get j && !dictCovered es j) := by
  induction es with
  | nil =>
    intro st st' h
    simp only [paint, Except.ok.injEq] at h; subst h
    exact ⟨fun hne => absurd rfl hne, id, fun j _ => ⟨rfl, by simp [dictCovered]⟩⟩
  | cons e rest ih =>
    intro st st' h
    simp only [paint] at h
    cases hv : e.val with
    | none =>
      rw [hv] at h
      obtain ⟨_, h2, h3⟩ := ih st st' h
      refine ⟨fun _ => h2, h2, fun j hj => ?_⟩
      obtain ⟨e1, e2⟩ := h3 j hj
      rw [List.reverse_cons, dictGo_append]
      refine ⟨?_, ?_⟩
      · rw [e1]; simp only [dictGo, hv]
      · rw [e2]; simp only [dictCovered, hv, Option.isSome_none, Bool.false_and, Bool.false_or]
    | some s =>
      rw [hv] at h
      simp only at h
      split at h
      · cases h
      · rename_i sm hsm
        obtain ⟨_, h2, h3⟩ := ih _ st' h
        refine ⟨fun _ _ => h2 rfl, fun _ => h2 rfl, fun j hj => ?_⟩
        obtain ⟨e1, e2⟩ := h3 j hj
        rw [List.reverse_cons, dictGo_append]
        refine ⟨?_, ?_⟩
        · rw [e1]
          simp only [dictGo, hv]
          by_cases c : inBox e.lo e.hi j = true
          · simp only [c, if_true]
            rw [(setMask_spec _ _ _ hsm).2 _ (boxIdx_inRange _ _ _ c)]
          · simp only [c]; rfl
        · rw [e2]
          simp only [dictCovered, hv, Option.isSome_some, Bool.true_and]
          by_cases c : inBox e.lo e.hi j = true
          · simp [c]
          · simp only [c]; simp

theorem paint_ok_iff (n : List Nat) (es : List DEntry) : ∀ st : Mask × Mask,
    (∃ st', paint n es st = .ok st') ↔ entriesOk es = true := by
  induction es with
  | nil => intro st; simp [paint, entriesOk]
  | cons e rest ih =>
    intro st
    simp only [paint]
    cases hv : e.val with
    | none =>
      simp only
      rw [ih st]
      simp [entriesOk, hv]
    | some s =>
      simp only
      have hiff := setMask_ok_iff (boxShape e.lo e.hi) s
      cases hs : setMask (boxShape e.lo e.hi) s with
      | error er =>
        have : s.ok (boxShape e.lo e.hi) = false := by
          cases hb : s.ok (boxShape e.lo e.hi) with
          | false => rfl
          | true => obtain ⟨m, hm⟩ := hiff.mpr hb; rw [hs] at hm; cases hm
        simp [entriesOk, hv, this]
      | ok sm =>
        have : s.ok (boxShape e.lo e.hi) = true := hiff.mp ⟨sm, hs⟩
        simp only
        rw [ih _]
        simp only [entriesOk, List.all_cons, hv, this, Bool.true_and]

/-- initial `(array, unset)` of the dictionary branch -/
def dictInit (n : List Nat) : DDefault → Mask × Mask
  | .const v => (NDA.const n (decide (v ≠ 0)), NDA.const n false)
  | _ => (NDA.const n false, NDA.const n true)

theorem setMaskDict_unfold (n : List Nat) (d : DictSpec) :
    setMaskDict n d = match paint n d.subs.reverse (dictInit n d.dflt) with
      | .error e => .error e
      | .ok st =>
        if (indicesC n).any st.2.get then
          match d.dflt with
          | .func g => .ok (own ⟨n, fun j => if st.2.get j then g j else st.1.get j⟩)
          | _ => .error .key
        else .ok (own ⟨n, st.1.get⟩) := by
  unfold setMaskDict dictInit
  cases d.dflt <;> rfl

theorem mem_indicesC (n j : List Nat) (h : inRange n j = true) : j ∈ indicesC n := by
  unfold indicesC
  rw [List.mem_map]
  exact ⟨flatC n j, List.mem_range.mpr (flatC_lt n j h), unflatC_flatC n j h⟩

theorem indicesC_inRange (n j : List Nat) (h : j ∈ indicesC n) : inRange n j = true := by
  unfold indicesC at h
  rw [List.mem_map] at h
  obtain ⟨k, hk, rfl⟩ := h
  have hk' : k < natProd n := List.mem_range.mp hk
  have hpos : ∀ x ∈ n, 0 < x := by
    intro x hx
    by_contra c
    have hx0 : x = 0 := by omega
    subst hx0
    have : natProd n = 0 := by
      clear hk hk'
      induction n with
      | nil => cases hx
      | cons y ys ih =>
        simp only [natProd]
        rcases List.mem_cons.mp hx with rfl | hm
        · simp
        · rw [ih hm]; simp
    omega
  exact unflatC_inRange n k hpos hk'

/-- **the dictionary setter, cell by cell** -/
theorem setMaskDict_spec (n : List Nat) (d : DictSpec) (m : Mask) (h : setMaskDict n d = .ok m) :
    m.shape = n ∧ ∀ j, inRange n j = true → m.get j = dictCell d.dflt d.subs j := by
  rw [setMaskDict_unfold] at h
  split at h
  · cases h
  · rename_i st hp
    obtain ⟨_, _, hcell⟩ := paint_spec n d.subs.reverse _ st hp
    split at h
    · rename_i hany
      split at h
      · rename_i g hg
        simp only [Except.ok.injEq] at h; subst h
        refine ⟨rfl, fun j hj => ?_⟩
        rw [own_get _ _ hj]
        obtain ⟨e1, e2⟩ := hcell j hj
        rw [List.reverse_reverse] at e1
        rw [dictCovered_reverse] at e2
        show (if st.2.get j = true then g j else st.1.get j) = _
        rw [dictCell_eq_go, e1, e2, hg]
        simp only [dictInit, NDA.const, Bool.true_and, dictCell]
        by_cases c : dictCovered d.subs j = true
        · simp only [c, Bool.not_true, Bool.false_eq_true, if_false]
          exact dictGo_covered _ _ _ _ c
        · have c' : dictCovered d.subs j = false := by simpa using c
          simp only [c', Bool.not_false, if_true]
          exact (dictGo_uncovered _ _ _ c').symm
      · cases h
    · rename_i hany
      simp only [Except.ok.injEq] at h; subst h
      refine ⟨rfl, fun j hj => ?_⟩
      rw [own_get _ _ hj]
      obtain ⟨e1, e2⟩ := hcell j hj
      rw [List.reverse_reverse] at e1
      rw [dictCovered_reverse] at e2
      show st.1.get j = _
      rw [dictCell_eq_go, e1]
      -- either the default was a number (array pre-filled with it) or the cell is covered
      have hun : st.2.get j = false := by
        have := hany
        simp only [Bool.not_eq_true, List.any_eq_false] at this
        simpa using this j (mem_indicesC n j hj)
      cases hd : d.dflt with
      | const v => rfl
      | none =>
        rw [hd] at e2
        have hc : dictCovered d.subs j = true := by
          rw [hun] at e2; simpa [dictInit, NDA.const] using e2.symm
        exact dictGo_covered _ _ _ _ hc
      | func g =>
        rw [hd] at e2
        have hc : dictCovered d.subs j = true := by
          rw [hun] at e2; simpa [dictInit, NDA.const] using e2.symm
        exact dictGo_covered _ _ _ _ hc

/-- **accepted iff well formed** -/
theorem setMaskDict_ok_iff (n : List Nat) (d : DictSpec) :
    (∃ m, setMaskDict n d = .ok m) ↔ d.ok n = true := by
  rw [setMaskDict_unfold]
  unfold DictSpec.ok
  rw [Bool.and_eq_true]
  cases hp : paint n d.subs.reverse (dictInit n d.dflt) with
  | error e =>
    have : entriesOk d.subs = false := by
      cases hb : entriesOk d.subs with
      | false => rfl
      | true =>
        obtain ⟨st', hst'⟩ := (paint_ok_iff n d.subs.reverse (dictInit n d.dflt)).mpr (by rw [entriesOk_reverse]; exact hb)
        rw [hp] at hst'; cases hst'
    simp [this]
  | ok st =>
    have hok : entriesOk d.subs = true := by
      rw [← entriesOk_reverse]; exact (paint_ok_iff n d.subs.reverse _).mp ⟨st, hp⟩
    obtain ⟨_, _, hcell⟩ := paint_spec n d.subs.reverse _ st hp
    have hun : ∀ j, inRange n j = true → st.2.get j = ((dictInit n d.dflt).2.get j && !dictCovered d.subs j) := by
      intro j hj
      rw [(hcell j hj).2, dictCovered_reverse]
    simp only [hok, true_and]
    cases hd : d.dflt with
    | const v =>
      have hany : (indicesC n).any st.2.get = false := by
        rw [List.any_eq_false]
        intro j hj
        rw [hun j (indicesC_inRange n j hj), hd]
        simp [dictInit, NDA.const]
      simp [hany]
    | none =>
      by_cases hall : (indicesC n).all (fun j => dictCovered d.subs j) = true
      · have hany : (indicesC n).any st.2.get = false := by
          rw [List.any_eq_false]
          intro j hj
          rw [hun j (indicesC_inRange n j hj)]
          have := List.all_eq_true.mp hall j hj
          simp [this]
        simp [hany, hall]
      · have hany : (indicesC n).any st.2.get = true := by
          simp only [Bool.not_eq_true] at hall
          rw [List.all_eq_false] at hall
          obtain ⟨j, hj, hc⟩ := hall
          rw [List.any_eq_true]
          refine ⟨j, hj, ?_⟩
          rw [hun j (indicesC_inRange n j hj), hd]
          simp only [dictInit, NDA.const, Bool.true_and]
          simpa using hc
        simp [hany, hall]
    | func g =>
      by_cases hany : (indicesC n).any st.2.get = true
      · simp [hany]
      · simp [hany]

theorem setMaskAny_ok_iff (n : List Nat) (a : SetArg) :
    (∃ m, setMaskAny n a = .ok m) ↔ a.ok n = true := by
  cases a with
  | plain s => exact setMask_ok_iff n s
  | dict d => exact setMaskDict_ok_iff n d

end DFV.C08
