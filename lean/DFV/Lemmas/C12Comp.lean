import DFV.Lemmas.C12Obj
import DFV.Lemmas.C13Reject
import DFV.Model.C12
/-! C12 at object level, second part: composition of turns with periodic boundary conditions,
acceptance of the composed turns in the copying form, whole-field composition, vector values. -/
namespace DFV.T
open DFV DFV.C14

theorem distinct_of_bcOk (dims : List String) (bc : String) (h : Mesh.bcOk dims bc = true) :
    PlainBc bc ∨ Distinct bc.toList := by
  rcases (bcOk_iff dims bc).mp h with h | ⟨_, h⟩
  · exact Or.inl h
  · exact Or.inr h

theorem mesh_ext (a b : Mesh) (h1 : a.region = b.region) (h2 : a.n = b.n) (h3 : a.bc = b.bc) (h4 : a.subs = b.subs) : a = b := by
  cases a; cases b; simp only at h1 h2 h3 h4; subst h1; subst h2; subst h3; subst h4; rfl

/-- **Mesh (in-place form): composition, `bc` included.**  When `bc` passes the `bc` check (letters
distinct), a turn by `k` followed by a turn by `l` about the same reference point ends in exactly
the mesh the turn by `k + l` ends in. -/
theorem stepM_rot_compose_bc (m : Mesh) (hm : m.Inv) (hs : SubInv m) (hok : Mesh.bcOk m.region.dims m.bc = true)
    (a1 a2 : String) (k l : Int) (R : List Rat)
    (m1 m1' : Mesh) (h : stepM m (.rotate90 a1 a2 k (some R) true) = .ok (m1, m1')) :
    ∃ m2, stepM m1' (.rotate90 a1 a2 l (some R) true) = .ok (m2, m2) ∧
      stepM m (.rotate90 a1 a2 (k + l) (some R) true) = .ok (m2, m2) := by
  obtain ⟨m2, m12, h2, h12, e1, e2, e3, e4, e5⟩ := stepM_rot_compose m hm hs a1 a2 k l R m1 m1' h
  have : m2 = m12 := by
    apply mesh_ext _ _ e1 e2 _ e3
    rw [e4, e5]; exact rotBc_compose _ _ _ _ _ (distinct_of_bcOk _ _ hok)
  subst this
  exact ⟨m2, h2, h12⟩

/-- **Mesh (in-place form): a turn followed by its reverse gives back the whole mesh**, periodic
`bc` included -/
theorem stepM_rot_inverse_bc (m : Mesh) (hm : m.Inv) (hs : SubInv m) (hok : Mesh.bcOk m.region.dims m.bc = true)
    (a1 a2 : String) (k : Int) (R : List Rat)
    (m1 m1' : Mesh) (h : stepM m (.rotate90 a1 a2 k (some R) true) = .ok (m1, m1')) :
    stepM m1' (.rotate90 a1 a2 (-k) (some R) true) = .ok (m, m) := by
  obtain ⟨m2, h2, h12⟩ := stepM_rot_compose_bc m hm hs hok a1 a2 k (-k) R m1 m1' h
  obtain ⟨e, _⟩ := stepM_rot_zero m hm hs a1 a2 (k + -k) (by simp) (some R) true _ m2 h12
  simp only [if_true] at e
  rw [e] at h2; exact h2

/-- **Mesh: four quarter turns about the same reference point give back the whole mesh** (in-place
form; region, counts, `bc` — periodic included — and every subregion) -/
theorem stepM_rot_four (m : Mesh) (hm : m.Inv) (hs : SubInv m) (hok : Mesh.bcOk m.region.dims m.bc = true)
    (a1 a2 : String) (R : List Rat) (m1 m1' : Mesh) (h : stepM m (.rotate90 a1 a2 1 (some R) true) = .ok (m1, m1')) :
    ∃ m2 m3, stepM m1' (.rotate90 a1 a2 1 (some R) true) = .ok (m2, m2) ∧
      stepM m2 (.rotate90 a1 a2 1 (some R) true) = .ok (m3, m3) ∧
      stepM m3 (.rotate90 a1 a2 1 (some R) true) = .ok (m, m) := by
  obtain ⟨m2, s2, t2⟩ := stepM_rot_compose_bc m hm hs hok a1 a2 1 1 R m1 m1' h
  obtain ⟨m3, s3, t3⟩ := stepM_rot_compose_bc m hm hs hok a1 a2 (1 + 1) 1 R m2 m2 t2
  obtain ⟨m4, s4, t4⟩ := stepM_rot_compose_bc m hm hs hok a1 a2 (1 + 1 + 1) 1 R m3 m3 t3
  obtain ⟨e, _⟩ := stepM_rot_zero m hm hs a1 a2 (1 + 1 + 1 + 1) (by decide) (some R) true _ m4 t4
  simp only [if_true] at e
  rw [e] at s4
  exact ⟨m2, m3, s2, s3, s4⟩

/-- from an accepted copying step to the in-place step and the invariants of the result -/
theorem stepM_copy_parts (m : Mesh) (hm : m.Inv) (hs : SubInv m) (hb : BcWf m) (op : Op) (y T : Mesh)
    (h : stepM m (op.withInplace false) = .ok (y, T)) :
    y = m ∧ T.Inv ∧ SubInv T ∧ BcWf T ∧ T.region.dims = m.region.dims ∧ stepM m (op.withInplace true) = .ok (T, T) := by
  rcases stepM_forms_bc m hm hs hb op with ⟨T', h1, h2, h3, _, hd, h4, h5⟩ | ⟨_, ⟨e, h5⟩⟩
  · rw [h5] at h; injection h with h; injection h with ha hb'
    subst hb'; exact ⟨ha.symm, h1, h2, h3, hd, h4⟩
  · rw [h5] at h; cases h

/-- from an accepted in-place step to the copying step -/
theorem stepM_inplace_copy (m : Mesh) (hm : m.Inv) (hs : SubInv m) (hb : BcWf m) (op : Op) (T1 T : Mesh)
    (h : stepM m (op.withInplace true) = .ok (T1, T)) : stepM m (op.withInplace false) = .ok (m, T) := by
  rcases stepM_forms_bc m hm hs hb op with ⟨T', _, _, _, _, _, h4, h5⟩ | ⟨⟨e, h4⟩, _⟩
  · rw [h4] at h; injection h with h; injection h with _ hb'
    subst hb'; exact h5
  · rw [h4] at h; cases h

/-- **Mesh (copying form): composition without assuming acceptance.**  For a mesh satisfying the mesh
invariant, `SubInv` and `BcWf`: once the turn by `k` is accepted, the turn of its result by `l` and
the turn of the original by `k + l` about the same reference point are accepted too — all three
through the constructor and the subregion setter — and return the same mesh. -/
theorem stepM_rot_compose_copy_accepts (m : Mesh) (hm : m.Inv) (hs : SubInv m) (hb : BcWf m) (a1 a2 : String) (k l : Int)
    (R : List Rat) (y1 m1 : Mesh) (h1 : stepM m (.rotate90 a1 a2 k (some R) false) = .ok (y1, m1)) :
    m1.Inv ∧ SubInv m1 ∧ BcWf m1 ∧
    ∃ m2, stepM m1 (.rotate90 a1 a2 l (some R) false) = .ok (m1, m2) ∧
      stepM m (.rotate90 a1 a2 (k + l) (some R) false) = .ok (m, m2) ∧ m2.Inv ∧ SubInv m2 ∧ BcWf m2 := by
  obtain ⟨_, i1, s1, b1, _, hT1⟩ := stepM_copy_parts m hm hs hb (.rotate90 a1 a2 k (some R) false) y1 m1 h1
  simp only [Op.withInplace] at hT1
  obtain ⟨m2, g2, g12⟩ := stepM_rot_compose_bc m hm hs hb.1.2 a1 a2 k l R m1 m1 hT1
  have c2 := stepM_inplace_copy m1 i1 s1 b1 (.rotate90 a1 a2 l (some R) true) m2 m2 g2
  have c12 := stepM_inplace_copy m hm hs hb (.rotate90 a1 a2 (k + l) (some R) true) m2 m2 g12
  simp only [Op.withInplace] at c2 c12
  have k2 := stepM_keeps m hm _ _ _ g12
  have s2 := (stepM_subInv' m hm hs _ _ _ g12).2.1
  have b2 := (stepM_bcWf m hm hs hb _ _ _ g12).2.1
  exact ⟨i1, s1, b1, m2, c2, c12, k2.2.1, s2, b2⟩

/-! ## index ranges under `np.rot90` -/

theorem inRange_iff (ns is : List Nat) :
    inRange ns is = true ↔ is.length = ns.length ∧ ∀ a, a < ns.length → is.getD a 0 < ns.getD a 0 := by
  induction ns generalizing is with
  | nil =>
    cases is with
    | nil => simp [inRange]
    | cons i is => simp [inRange]
  | cons n ns ih =>
    cases is with
    | nil => simp [inRange]
    | cons i is =>
      rw [inRange_cons, ih]
      constructor
      · rintro ⟨h0, hl, hr⟩
        refine ⟨by simp [hl], ?_⟩
        intro a ha
        cases a with
        | zero => simpa using h0
        | succ a => simpa using hr a (by simpa using ha)
      · rintro ⟨hl, hr⟩
        refine ⟨by simpa using hr 0 (by simp), by simpa using hl, ?_⟩
        intro a ha
        simpa using hr (a + 1) (by simpa using ha)

theorem srcPair_lt (sp sq : Nat) (k : Int) (jp jq : Nat)
    (hjp : jp < (if isOdd k then sq else sp)) (hjq : jq < (if isOdd k then sp else sq)) :
    (srcPair sp sq k jp jq).1 < sp ∧ (srcPair sp sq k jp jq).2 < sq := by
  unfold srcPair isOdd at *
  have hk : k % 4 = 0 ∨ k % 4 = 1 ∨ k % 4 = 2 ∨ k % 4 = 3 := by omega
  rcases hk with hk | hk | hk | hk <;>
    (have hk2 : k % 2 = (k % 4) % 2 := by omega
     rw [hk2, hk] at hjp hjq
     simp [hk] at hjp hjq ⊢
     omega)

/-- the source index of `np.rot90` lies in the source shape -/
theorem srcIdx_inRange (sh j : List Nat) (p q : Nat) (k : Int) (hpq : p ≠ q) (hp : p < sh.length) (hq : q < sh.length)
    (hj : inRange (if isOdd k then swapAt sh p q else sh) j = true) : inRange sh (srcIdx sh p q k j) = true := by
  have hsl : (if isOdd k then swapAt sh p q else sh).length = sh.length := by split <;> simp [swapAt_length]
  obtain ⟨hjl, hjb⟩ := (inRange_iff _ _).mp hj
  rw [hsl] at hjl hjb
  obtain ⟨sp, sq⟩ := rotShape_getD sh p q k hpq hp hq
  obtain ⟨i_p, i_q, i_o⟩ := srcIdx_pair sh j p q k hpq (hjl ▸ hp) (hjl ▸ hq) hjl.symm
  have bp := hjb p hp
  have bq := hjb q hq
  rw [sp] at bp; rw [sq] at bq
  have hb := srcPair_lt (sh.getD p 0) (sh.getD q 0) k (j.getD p 0) (j.getD q 0) (by split <;> simp_all) (by split <;> simp_all)
  rw [inRange_iff]
  refine ⟨by rw [srcIdx_length, hjl], ?_⟩
  intro a ha
  by_cases e1 : a = p
  · subst e1; rw [i_p]; exact hb.1
  · by_cases e2 : a = q
    · subst e2; rw [i_q]; exact hb.2
    · rw [i_o a e1 e2]
      have := hjb a ha
      have hs : (if isOdd k then swapAt sh p q else sh).getD a 0 = sh.getD a 0 := by
        split
        · exact getD_swapAt_other _ _ _ _ _ e1 e2
        · rfl
      rwa [hs] at this

theorem rotVec_length (v : List Rat) (c1 c2 : Nat) (k : Int) : (rotVec v c1 c2 k).length = v.length := by
  unfold rotVec; rw [tab_length]


/-! ## vector values: the two mapped components are distinct positions inside the value -/

theorem nodup_fst_inj {α β} (l : List (α × β)) (h : (l.map (·.1)).Nodup) (p q : α × β) (hp : p ∈ l) (hq : q ∈ l)
    (e : p.1 = q.1) : p = q := by
  induction l with
  | nil => cases hp
  | cons x xs ih =>
    rw [List.map_cons, List.nodup_cons] at h
    rcases List.mem_cons.mp hp with hp | hp <;> rcases List.mem_cons.mp hq with hq | hq
    · rw [hp, hq]
    · exfalso; apply h.1; rw [hp] at e; rw [e]; exact List.mem_map_of_mem hq
    · exfalso; apply h.1; rw [hq] at e; rw [← e]; exact List.mem_map_of_mem hp
    · exact ih h.2 hp hq

/-- what `(f.rDim a).bind f.vdimIndex = some c` says -/
theorem mapped_inv (f : Fld) (a : String) (c : Nat) (h : (f.rDim a).bind f.vdimIndex = some c) :
    ∃ p vs, p ∈ f.vmap ∧ p.2 = a ∧ f.vdims = some vs ∧ c < vs.length ∧ vs.getD c "" = p.1 := by
  unfold Fld.rDim at h
  cases hf : f.vmap.reverse.find? (fun p => p.2 == a) with
  | none => rw [hf] at h; cases h
  | some p =>
    rw [hf] at h
    simp only [Option.map_some, Option.bind_some] at h
    unfold Fld.vdimIndex at h
    cases hv : f.vdims with
    | none => rw [hv] at h; cases h
    | some vs =>
      rw [hv] at h
      simp only at h
      unfold indexOf? at h
      obtain ⟨_, e, hl⟩ := indexOf_go_get p.1 vs 0 c h
      refine ⟨p, vs, List.mem_reverse.mp (List.mem_of_find?_eq_some hf), ?_, rfl, hl, e⟩
      have := List.find?_some hf
      simpa using this

/-- **the two mapped components are distinct in-range positions** of every cell value: the
component labels of two different axes are different keys of the mapping, hence different
positions in the label list, which is as long as the values are -/
theorem mapped_distinct (f : Fld) (hv : FldVInv f) (a1 a2 : String) (hne : a1 ≠ a2) (c1 c2 : Nat)
    (h1 : (f.rDim a1).bind f.vdimIndex = some c1) (h2 : (f.rDim a2).bind f.vdimIndex = some c2) :
    c1 ≠ c2 ∧ c1 < f.nvdim ∧ c2 < f.nvdim := by
  obtain ⟨p1, vs1, m1, e1, v1, l1, g1⟩ := mapped_inv f a1 c1 h1
  obtain ⟨p2, vs2, m2, e2, v2, l2, g2⟩ := mapped_inv f a2 c2 h2
  rw [v1] at v2; injection v2 with v2; subst v2
  have hl := hv.2.1 vs1 v1
  refine ⟨?_, hl ▸ l1, hl ▸ l2⟩
  intro e
  subst e
  have : p1 = p2 := nodup_fst_inj f.vmap hv.2.2 p1 p2 m1 m2 (g1.symm.trans g2)
  apply hne; rw [← e1, ← e2, this]

/-- every accepted field step keeps the value invariant (receiver and result) -/
theorem stepF_vinv (f : Fld) (hf : FldInv f) (hv : FldVInv f) (op : Op) (recv ret : Fld) (h : stepF f op = .ok (recv, ret)) :
    FldVInv recv ∧ FldVInv ret := by
  have key : ∀ m' : Mesh, m'.n = f.mesh.n → FldVInv { f with mesh := m' } := by
    intro m' hn
    exact ⟨fun j hj => hv.1 j (by rw [← hn]; exact hj), hv.2.1, hv.2.2⟩
  cases op with
  | translate v i =>
    simp only [stepF] at h
    split at h
    · cases h
    · rename_i x m' hm'
      have hn := (stepM_keeps f.mesh hf.1 _ _ _ hm').2.2.1
      injection h with h; injection h with ha hb
      subst ha; subst hb
      cases i
      · exact ⟨hv, key m' hn⟩
      · exact ⟨key m' hn, key m' hn⟩
  | scale s ref i =>
    simp only [stepF] at h
    split at h
    · cases h
    · rename_i x m' hm'
      have hn := (stepM_keeps f.mesh hf.1 _ _ _ hm').2.2.1
      injection h with h; injection h with ha hb
      subst ha; subst hb
      cases i
      · exact ⟨hv, key m' hn⟩
      · exact ⟨key m' hn, key m' hn⟩
  | rotate90 a1 a2 k ref i =>
    simp only [stepF] at h
    obtain ⟨y, m', i1, i2, hm', d1, d2, e1, e2, e3, e4, e5, e6, e7, ex⟩ := rotate90F_inv f a1 a2 k ref i recv ret h
    obtain ⟨q1, q2, hq1, hq2, h12, lq1, lq2, _⟩ := stepM_rot_axes f.mesh hf.1 a1 a2 k ref false y m' hm'
    rw [d1] at hq1; rw [d2] at hq2
    injection hq1 with hq1; injection hq2 with hq2
    subst q1 q2
    have hn : ret.mesh.n = rotN f.mesh.n i1 i2 k := by
      rw [e1, (stepM_keeps f.mesh hf.1 _ _ _ hm').2.2.1]; simp only [opN, d1, d2]
    have hret : FldVInv ret := by
      refine ⟨?_, by rw [e3, e2]; exact hv.2.1, by rw [e4]; exact hv.2.2⟩
      intro j hj
      rw [hn] at hj
      have hsrc : inRange f.mesh.n (srcIdx f.data.shape i1 i2 k j) = true := by
        rw [hf.2.1]; exact srcIdx_inRange f.mesh.n j i1 i2 k h12 lq1 lq2 hj
      rw [e2]
      rcases e7 with ⟨_, e⟩ | ⟨_, c1, c2, _, _, e⟩
      · rw [e, rot90_get]; exact hv.1 _ hsrc
      · rw [e]; simp only [NDA.map]
        rw [rot90_get, rotVec_length]; exact hv.1 _ hsrc
    rw [ex]
    cases i
    · exact ⟨hv, hret⟩
    · exact ⟨hret, hret⟩

/-- **Field: a turn followed by its reverse gives back every value** — scalar and vector alike —
once the value invariant ties the length of the values to `nvdim` -/
theorem rotate90F_inverse_vals (f : Fld) (hf : FldInv f) (hv : FldVInv f) (hs : SubInv f.mesh) (a1 a2 : String) (k : Int)
    (R : List Rat) (b b' : Bool) (x1 g1 x2 g2 : Fld)
    (h1 : rotate90F f a1 a2 k (some R) b = .ok (x1, g1)) (h2 : rotate90F g1 a1 a2 (-k) (some R) b' = .ok (x2, g2)) :
    g2.valid.shape = f.valid.shape ∧ g2.data.shape = f.data.shape ∧
    ∀ j, inRange f.mesh.n j = true → g2.valid.get j = f.valid.get j ∧ g2.data.get j = f.data.get j := by
  obtain ⟨_, _, _, _, _, _, _, _, s1, s2, hval⟩ := rotate90F_inverse f hf hs a1 a2 k R b b' x1 g1 x2 g2 h1 h2
  refine ⟨s1, s2, ?_⟩
  intro j hj
  obtain ⟨v1, v2, v3⟩ := hval j hj
  refine ⟨v1, ?_⟩
  by_cases hgt : f.nvdim > 1
  · obtain ⟨c1, c2, m1, m2, _, hfin⟩ := v3 hgt
    obtain ⟨y, m', i1, i2, hm', _⟩ := rotate90F_inv f a1 a2 k (some R) b x1 g1 h1
    obtain ⟨_, _, _, xr, hxr⟩ := stepM_keeps f.mesh hf.1 _ _ _ hm'
    simp only [stepR] at hxr
    obtain ⟨hax, _⟩ := rotate90R_inv _ _ _ _ _ _ _ _ hxr
    obtain ⟨n1, n2, n3⟩ := mapped_distinct f hv a1 a2 hax c1 c2 m1 m2
    have hl := hv.1 j hj
    exact hfin n1 (hl ▸ n2) (hl ▸ n3)
  · exact v2 (by omega)


/-- assembling an accepted field rotation from its parts -/
theorem rotate90F_of_parts (f : Fld) (a1 a2 : String) (k : Int) (ref : Option (List Rat)) (b : Bool) (y m' : Mesh) (i1 i2 : Nat)
    (hm' : stepM f.mesh (.rotate90 a1 a2 k ref false) = .ok (y, m'))
    (d1 : f.mesh.region.dim2index a1 = .ok i1) (d2 : f.mesh.region.dim2index a2 = .ok i2)
    (hmap : f.nvdim > 1 → ∃ c1 c2, (f.rDim a1).bind f.vdimIndex = some c1 ∧ (f.rDim a2).bind f.vdimIndex = some c2) :
    ∃ g, rotate90F f a1 a2 k ref b = .ok (if b then g else f, g) ∧ g.mesh = m' := by
  unfold rotate90F
  rw [hm', d1, d2]
  dsimp only
  by_cases hgt : f.nvdim > 1
  · obtain ⟨c1, c2, hc1, hc2⟩ := hmap hgt
    rw [if_pos hgt, hc1, hc2]
    dsimp only
    cases b
    · exact ⟨_, rfl, rfl⟩
    · exact ⟨_, rfl, rfl⟩
  · rw [if_neg hgt]
    cases b
    · exact ⟨_, rfl, rfl⟩
    · exact ⟨_, rfl, rfl⟩

/-- **Field: composition of turns, acceptance included.**  For a field satisfying the shape invariant
whose mesh satisfies `SubInv` and `BcWf`: once the turn by `k` about `R` is accepted (either form),
the turn of its result by `l` and the turn of the original by `k + l` about `R` are accepted too
(any forms), and the two final fields have the same mesh, labels, mapping, unit, and arrays of the
same shape with the same validity and values at every cell (scalar values literally; vector values
as `Q^l Q^k v` resp. `Q^(k+l) v` of the same source value `v`). -/
theorem rotate90F_compose_full (f : Fld) (hf : FldInv f) (hs : SubInv f.mesh) (hb : BcWf f.mesh) (a1 a2 : String) (k l : Int)
    (R : List Rat) (b b' b'' : Bool) (x1 g1 : Fld) (h1 : rotate90F f a1 a2 k (some R) b = .ok (x1, g1)) :
    ∃ g2 g12, rotate90F g1 a1 a2 l (some R) b' = .ok (if b' then g2 else g1, g2) ∧
      rotate90F f a1 a2 (k + l) (some R) b'' = .ok (if b'' then g12 else f, g12) ∧
      g2.mesh = g12.mesh ∧ g2.nvdim = g12.nvdim ∧ g2.vdims = g12.vdims ∧ g2.vmap = g12.vmap ∧ g2.unit = g12.unit ∧
      g2.valid.shape = g12.valid.shape ∧ g2.data.shape = g12.data.shape ∧
      (∀ j, inRange g12.valid.shape j = true → g2.valid.get j = g12.valid.get j) ∧
      (f.nvdim ≤ 1 → ∀ j, inRange g12.data.shape j = true → g2.data.get j = g12.data.get j) ∧
      (f.nvdim > 1 → ∃ i1 i2 c1 c2, f.mesh.region.dim2index a1 = .ok i1 ∧ f.mesh.region.dim2index a2 = .ok i2 ∧
        (f.rDim a1).bind f.vdimIndex = some c1 ∧ (f.rDim a2).bind f.vdimIndex = some c2 ∧
        ∀ j, inRange g12.data.shape j = true →
          g2.data.get j = rotVec (rotVec ((rot90 f.data i1 i2 (k + l)).get j) c1 c2 k) c1 c2 l ∧
          g12.data.get j = rotVec ((rot90 f.data i1 i2 (k + l)).get j) c1 c2 (k + l)) := by
  obtain ⟨y1, m1, i1, i2, hm1, d1, d2, e1, e2, e3, e4, e5, e6, e7, _⟩ := rotate90F_inv f a1 a2 k (some R) b x1 g1 h1
  obtain ⟨_, _, _, m2, c2, c12, _, _, _⟩ := stepM_rot_compose_copy_accepts f.mesh hf.1 hs hb a1 a2 k l R y1 m1 hm1
  obtain ⟨_, _, _, _, _, _, _, hdims⟩ := stepM_rot_axes f.mesh hf.1 a1 a2 k (some R) false y1 m1 hm1
  have hd1 : g1.mesh.region.dim2index a1 = .ok i1 := by
    have : g1.mesh.region.dim2index a1 = f.mesh.region.dim2index a1 := by unfold Region.dim2index; rw [e1, hdims]
    rw [this, d1]
  have hd2 : g1.mesh.region.dim2index a2 = .ok i2 := by
    have : g1.mesh.region.dim2index a2 = f.mesh.region.dim2index a2 := by unfold Region.dim2index; rw [e1, hdims]
    rw [this, d2]
  have hmapf : f.nvdim > 1 → ∃ c1 c2, (f.rDim a1).bind f.vdimIndex = some c1 ∧ (f.rDim a2).bind f.vdimIndex = some c2 := by
    intro hgt
    rcases e7 with ⟨hle, _⟩ | ⟨_, c1, c2, hc1, hc2, _⟩
    · omega
    · exact ⟨c1, c2, hc1, hc2⟩
  have hmapg : g1.nvdim > 1 → ∃ c1 c2, (g1.rDim a1).bind g1.vdimIndex = some c1 ∧ (g1.rDim a2).bind g1.vdimIndex = some c2 := by
    intro hgt
    rw [e2] at hgt
    have r1 : (g1.rDim a1).bind g1.vdimIndex = (f.rDim a1).bind f.vdimIndex := by unfold Fld.rDim Fld.vdimIndex; rw [e3, e4]
    have r2 : (g1.rDim a2).bind g1.vdimIndex = (f.rDim a2).bind f.vdimIndex := by unfold Fld.rDim Fld.vdimIndex; rw [e3, e4]
    rw [r1, r2]; exact hmapf hgt
  obtain ⟨g2, hg2, _⟩ := rotate90F_of_parts g1 a1 a2 l (some R) b' m1 m2 i1 i2 (by rw [e1]; exact c2) hd1 hd2 hmapg
  obtain ⟨g12, hg12, _⟩ := rotate90F_of_parts f a1 a2 (k + l) (some R) b'' f.mesh m2 i1 i2 c12 d1 d2 hmapf
  obtain ⟨t1, t2, t3, t4, t5, t6, t7, t8, t9⟩ := rotate90F_compose_arrays f hf a1 a2 k l (some R) (some R) (some R) b b' b''
    x1 g1 _ g2 _ g12 h1 hg2 hg12
  refine ⟨g2, g12, hg2, hg12, ?_, t6, t7, t8, t9, t1, t2, t3, t4, t5⟩
  rename_i hm2 hm12
  rw [hm2, hm12]


theorem rotate90F_data_shape (f g x : Fld) (a1 a2 : String) (k : Int) (ref : Option (List Rat)) (b : Bool) (i1 i2 : Nat)
    (h : rotate90F f a1 a2 k ref b = .ok (x, g)) (d1 : f.mesh.region.dim2index a1 = .ok i1) (d2 : f.mesh.region.dim2index a2 = .ok i2) :
    g.data.shape = if isOdd k then swapAt f.data.shape i1 i2 else f.data.shape := by
  obtain ⟨_, _, j1, j2, _, e1, e2, _, _, _, _, _, _, e7, _⟩ := rotate90F_inv f a1 a2 k ref b x g h
  rw [d1] at e1; rw [d2] at e2
  injection e1 with e1; injection e2 with e2
  subst e1; subst e2
  rcases e7 with ⟨_, e⟩ | ⟨_, _, _, _, _, e⟩
  · rw [e]; exact DFV.C13.rot90_shape _ _ _ _
  · rw [e]; exact DFV.C13.rot90_shape _ _ _ _


/-- **Field: composition of turns on the values.**  With the value invariant, the field turned by `k`
then `l` and the field turned by `k + l` have the same value at every cell — vector values too:
the two mapped components are distinct in-range positions, so `Q^l Q^k v = Q^(k+l) v`. -/
theorem rotate90F_compose_vals (f : Fld) (hf : FldInv f) (hv : FldVInv f) (a1 a2 : String) (k l : Int)
    (ref ref' ref'' : Option (List Rat)) (b b' b'' : Bool) (x1 g1 x2 g2 x12 g12 : Fld)
    (h1 : rotate90F f a1 a2 k ref b = .ok (x1, g1)) (h2 : rotate90F g1 a1 a2 l ref' b' = .ok (x2, g2))
    (h12 : rotate90F f a1 a2 (k + l) ref'' b'' = .ok (x12, g12)) :
    g2.data.shape = g12.data.shape ∧ ∀ j, inRange g12.data.shape j = true → g2.data.get j = g12.data.get j := by
  obtain ⟨_, t2, _, t4, t5, _⟩ := rotate90F_compose_arrays f hf a1 a2 k l ref ref' ref'' b b' b'' x1 g1 x2 g2 x12 g12 h1 h2 h12
  refine ⟨t2, ?_⟩
  intro j hj
  by_cases hgt : f.nvdim > 1
  · obtain ⟨i1, i2, c1, c2, d1, d2, m1, m2, hval⟩ := t5 hgt
    obtain ⟨e2, e12⟩ := hval j hj
    rw [e2, e12]
    obtain ⟨y, m', _, _, hm', _⟩ := rotate90F_inv f a1 a2 k ref b x1 g1 h1
    obtain ⟨q1, q2, hq1, hq2, hne12, lq1, lq2, _⟩ := stepM_rot_axes f.mesh hf.1 a1 a2 k ref false y m' hm'
    rw [d1] at hq1; rw [d2] at hq2
    injection hq1 with hq1; injection hq2 with hq2
    subst q1 q2
    obtain ⟨_, _, _, xr, hxr⟩ := stepM_keeps f.mesh hf.1 _ _ _ hm'
    simp only [stepR] at hxr
    obtain ⟨hax, _⟩ := rotate90R_inv _ _ _ _ _ _ _ _ hxr
    obtain ⟨n1, n2, n3⟩ := mapped_distinct f hv a1 a2 hax c1 c2 m1 m2
    have hsh := rotate90F_data_shape f g12 x12 a1 a2 (k + l) ref'' b'' i1 i2 h12 d1 d2
    rw [hsh, hf.2.1] at hj
    have hsrc := srcIdx_inRange f.mesh.n j i1 i2 (k + l) hne12 lq1 lq2 hj
    have hl : ((rot90 f.data i1 i2 (k + l)).get j).length = f.nvdim := by
      rw [rot90_get, hf.2.1]; exact hv.1 _ hsrc
    exact rotVec_compose' _ _ _ _ _ n1 (hl ▸ n2) (hl ▸ n3)
  · exact t4 (by omega) j hj


/-! ## periodic directions turn with the axes — or do not (multi-character names) -/

theorem periodicAlong_iff (m : Mesh) (d : String) :
    PeriodicAlong m d ↔ ¬ PlainBc m.bc ∧ ∃ c, d.toList = [c] ∧ c ∈ m.bc.toList := Iff.rfl

theorem mem_map_bcSwap (a1 a2 : String) (x y : Char) (h1 : a1.toList = [x]) (h2 : a2.toList = [y]) (l : List Char) (c : Char) :
    c ∈ l.map (bcSwap a1 a2) ↔ bcSwap a1 a2 c ∈ l := by
  constructor
  · intro h
    obtain ⟨c0, hc0, rfl⟩ := List.mem_map.mp h
    rw [bcSwap_invol a1 a2 x y h1 h2]; exact hc0
  · intro h
    have := List.mem_map_of_mem (f := bcSwap a1 a2) h
    rwa [bcSwap_invol a1 a2 x y h1 h2] at this

/-- **Periodic directions turn with the axes** (single-character names, odd `k`): after the letter
swap the mesh is periodic along `a2` iff it was along `a1`, along `a1` iff it was along `a2`, and
along any other axis iff it was before. -/
theorem periodic_turns (m m' : Mesh) (hok : Mesh.bcOk m.region.dims m.bc = true) (a1 a2 : String) (k : Int)
    (hk : isOdd k = true) (s1 : a1.length = 1) (s2 : a2.length = 1) (lo1 : a1.toLower = a1) (lo2 : a2.toLower = a2)
    (hbc : m'.bc = rotBc m.bc a1 a2 k) :
    (PeriodicAlong m' a2 ↔ PeriodicAlong m a1) ∧ (PeriodicAlong m' a1 ↔ PeriodicAlong m a2) ∧
    ∀ d, d ≠ a1 → d ≠ a2 → (PeriodicAlong m' d ↔ PeriodicAlong m d) := by
  obtain ⟨x, hx⟩ := single_of_length a1 s1
  obtain ⟨y, hy⟩ := single_of_length a2 s2
  have hpl : PlainBc m'.bc ↔ PlainBc m.bc := by rw [hbc]; exact rotBc_plain_iff _ _ _ _ (distinct_of_bcOk _ _ hok)
  by_cases hp : PlainBc m.bc
  · have hp' : PlainBc m'.bc := hpl.mpr hp
    refine ⟨⟨fun h => absurd hp' h.1, fun h => absurd hp h.1⟩, ⟨fun h => absurd hp' h.1, fun h => absurd hp h.1⟩, ?_⟩
    intro d _ _; exact ⟨fun h => absurd hp' h.1, fun h => absurd hp h.1⟩
  · have hp' : ¬ PlainBc m'.bc := fun h => hp (hpl.mp h)
    have hl : m'.bc.toList = m.bc.toList.map (bcSwap a1 a2) := by
      rw [hbc, rotBc_odd _ _ _ _ hk hp s1 s2 lo1 lo2, String.toList_ofList]
    have key : ∀ c, c ∈ m'.bc.toList ↔ bcSwap a1 a2 c ∈ m.bc.toList := by
      intro c; rw [hl]; exact mem_map_bcSwap a1 a2 x y hx hy _ c
    have sx : bcSwap a1 a2 x = y := by rw [bcSwap_spec a1 a2 x y hx hy]; simp
    have sy : bcSwap a1 a2 y = x := by
      rw [bcSwap_spec a1 a2 x y hx hy]
      by_cases e : y = x
      · simp [e]
      · simp [e]
    refine ⟨?_, ?_, ?_⟩
    · constructor
      · rintro ⟨_, c, hc, hm⟩
        rw [hy] at hc; injection hc with hc; subst hc
        exact ⟨hp, x, hx, by rw [← sy]; exact (key _).mp hm⟩
      · rintro ⟨_, c, hc, hm⟩
        rw [hx] at hc; injection hc with hc; subst hc
        exact ⟨hp', y, hy, (key _).mpr (by rw [sy]; exact hm)⟩
    · constructor
      · rintro ⟨_, c, hc, hm⟩
        rw [hx] at hc; injection hc with hc; subst hc
        exact ⟨hp, y, hy, by rw [← sx]; exact (key _).mp hm⟩
      · rintro ⟨_, c, hc, hm⟩
        rw [hy] at hc; injection hc with hc; subst hc
        exact ⟨hp', x, hx, (key _).mpr (by rw [sx]; exact hm)⟩
    · intro d n1 n2
      have fix : ∀ c, d.toList = [c] → bcSwap a1 a2 c = c := by
        intro c hc
        have c1 : c ≠ x := by
          intro e; apply n1; rw [← String.toList_inj, hc, hx, e]
        have c2 : c ≠ y := by
          intro e; apply n2; rw [← String.toList_inj, hc, hy, e]
        rw [bcSwap_spec a1 a2 x y hx hy]; simp [c1, c2]
      constructor
      · rintro ⟨_, c, hc, hm⟩
        exact ⟨hp, c, hc, by rw [← fix c hc]; exact (key _).mp hm⟩
      · rintro ⟨_, c, hc, hm⟩
        exact ⟨hp', c, hc, (key _).mpr (by rw [fix c hc]; exact hm)⟩

/-- a multi-character name cannot be a periodic direction: `bc` names directions by single letters -/
theorem not_periodic_multichar (m : Mesh) (d : String) (h : d.length ≠ 1) : ¬ PeriodicAlong m d := by
  rintro ⟨_, c, hc, _⟩
  apply h
  rw [← String.length_toList, hc]; rfl

/-- **Where the periodic direction does NOT turn (open finding D57).**  If one of the two axes has
a multi-character name the code leaves `bc` unchanged, for every `k`: a mesh periodic along the
single-character axis `a1` is still periodic along `a1` after the quarter turn — although for odd
`k` axis `a1` now carries the extent (and cell count) that was `a2`'s — so "periodic along `a1`
after ⟺ periodic along `a2` before" fails. -/
theorem periodic_not_turned_multichar (m m' : Mesh) (a1 a2 : String) (k : Int) (h2 : a2.length ≠ 1)
    (hbc : m'.bc = rotBc m.bc a1 a2 k) (hper : PeriodicAlong m a1) :
    m'.bc = m.bc ∧ PeriodicAlong m' a1 ∧ ¬ PeriodicAlong m a2 ∧ ¬ (PeriodicAlong m' a1 ↔ PeriodicAlong m a2) := by
  have e : m'.bc = m.bc := by rw [hbc]; exact rotBc_multichar _ _ _ _ (Or.inr h2)
  have hp' : PeriodicAlong m' a1 := by
    unfold PeriodicAlong at hper ⊢; rw [e]; exact hper
  have hn := not_periodic_multichar m a2 h2
  exact ⟨e, hp', hn, fun h => hn (h.mp hp')⟩

/-- the mesh of finding D57: region (0,0)–(4,6), dims `x`, `yy`, n = (4,3), periodic along `x` -/
def exD57 : Mesh :=
  { region := ⟨[0, 0], [4, 6], ["x", "yy"], ["m", "m"], 1/1000000000000⟩, n := [4, 3], bc := "x", subs := [] }

end DFV.T
